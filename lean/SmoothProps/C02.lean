/-
  C02 — exp is the matrix exponential; log is its principal inverse (property theorems, over ℝ).

  Notation: `toM M` reads a model matrix `Mat ℝ n n` as a Mathlib `Matrix (Fin n) (Fin n) ℝ`;
  `NormedSpace.exp` is Mathlib's exponential (the matrix exponential on matrices);
  `atan2 y x` of the model is `Complex.arg ⟨x, y⟩` (principal value in (−π, π]).
  `eps2 = 1e-8` is the series/closed-form switch of the code (`th2 < eps2` → series).

  A. Backbone: a curve with `Φ 0 = 1`, `Φ' = A Φ` (entrywise) is `exp (t • A)`.
  B. Closed-form branch of `exp`: `matrix (exp a) = exp (hat a)` EXACTLY, for every magnitude of `a`
     (rotation angles above π included): SO2, C1, Tn (no branch at all), SE2, SO3.
  C. Series branch: each coefficient function is within an explicit next-term bound of the closed
     form; for SO3 and SE2 the resulting `exp` matrix is within a stated tiny bound of the true
     matrix exponential, and at angle 0 it is exact.  Hence a bound for EVERY `a`
     (`so3_exp_is_matrix_exp_uniform`: 1e-22 entrywise, exact arithmetic).
  D. `log`: rotation norm ≤ π (SO3 under the canonical sign `w ≥ 0`; SO2/SE2 angle in (−π, π]);
     `exp (log g) = g`; `log (exp a) = a` for rotation norm below π.
  B'. SE3 closed-form branch (4×4, translation `R·S₁(−ω)·v`) and SE3 with zero rotation part: exact.
  E. Bundle: `exp` of a block-diagonal `hat` is block diagonal on the model's `Fin (n+m)` index
     type; hence the property for a product / Bundle follows from the parts.
  B''. SE_K_3 for EVERY K and Galilei (5×5, `v = S₁ b`, `p = S₁ q + S₂ b τ`): closed-form branch exact.
  D'. SE3: `log (exp a) = a` (`‖ω‖ < π`) and `exp (log g) = g` (`w ≥ 0`), closed-form branches; the
     rotation part of `log` of SE3 / Galilei / SE_K_3 is `SO3.log` of the rotation part, hence ≤ π.
  C'. Series zone and uniform ("for every a") bounds for SE3, SE_K_3, Galilei in terms of `‖a‖∞`;
      series bounds for `SO3.logPhi`, `SE2.logA`, `SO3.S1invA`; zero-rotation cases exact.
  D''. `log ∘ exp`, `exp ∘ log` for SE_K_3 and Galilei; the half turn `w = 0` is included in
      `exp_log_{SE3,SEK3,Galilei}` (true in the model: `S1invA` evaluates `0/0 = 0` = the limit).
  E'. Bundle lifts by induction over the part list (`…_bundle`, `log_property_bundle`).
  F. Summary table of the uniformity clause at the end of the file.  No `…_statement` is left.

  Helper lemmas: SmoothProofs/ExpODE.lean, SmoothProofs/C02{Basic,Exp,SO3,Log,LogSO3,LogSE2,
  TaylorReal,Taylor,Series,SE3,SEK3,Galilei,LogSE3,LogK,Zero,TaylorLog,TaylorLog2,Series2,Series3,Bundle}.lean.
-/
import SmoothProofs.C02Series
import SmoothProofs.C02LogSO3
import SmoothProofs.C02LogSE2
import SmoothProofs.C02SE3
import SmoothProofs.C02Bundle
import SmoothProofs.C02Galilei
import SmoothProofs.C02LogSE3
import SmoothProofs.C02TaylorLog
import SmoothProofs.C02Zero
import SmoothProofs.C02Series3
import SmoothProofs.C02TaylorLog2
import Mathlib.Tactic.NormNum
import Mathlib.Analysis.Real.Pi.Bounds

open Lin Scalar

namespace C02

/-! ## A. Backbone -/

/-- ODE characterisation of the matrix exponential, entrywise form. -/
theorem backbone_eq_exp_of_entry_hasDerivAt {n : Nat} (A : Matrix (Fin n) (Fin n) ℝ)
    (Φ : ℝ → Matrix (Fin n) (Fin n) ℝ) (h0 : Φ 0 = 1)
    (hd : ∀ t i j, HasDerivAt (fun u => Φ u i j) ((A * Φ t) i j) t) (t : ℝ) :
    Φ t = NormedSpace.exp (t • A) :=
  Matrix.eq_exp_of_entry_hasDerivAt A Φ h0 hd t
/-- non-vacuity: the constant curve `1` solves the ODE for `A = 0`. -/
example : (fun _ : ℝ => (1 : Matrix (Fin 2) (Fin 2) ℝ)) 0 = 1 ∧
    ∀ (t : ℝ) (i j : Fin 2), HasDerivAt (fun _ : ℝ => (1 : Matrix (Fin 2) (Fin 2) ℝ) i j)
      (((0 : Matrix (Fin 2) (Fin 2) ℝ) * (1 : Matrix (Fin 2) (Fin 2) ℝ)) i j) t :=
  ⟨rfl, fun t i j => by
    have h : ((0 : Matrix (Fin 2) (Fin 2) ℝ) * (1 : Matrix (Fin 2) (Fin 2) ℝ)) i j = 0 := by simp
    rw [h]; exact hasDerivAt_const t _⟩

/-! ## Witnesses for the non-vacuity examples -/

/-- a rotation vector of norm 4 > π -/
noncomputable def aBig : Vec ℝ 3 := mk3 0 0 4
/-- a rotation vector of norm 1 < π -/
noncomputable def aOne : Vec ℝ 3 := mk3 0 0 1
/-- a tiny non-zero rotation vector (series branch): norm 1e-5 -/
noncomputable def aTiny : Vec ℝ 3 := mk3 0 0 (1 / 100000)
/-- unit quaternion, canonical sign, far from the switch -/
noncomputable def qA : Vec ℝ 4 := mk4 (3 / 5) 0 0 (4 / 5)
/-- SE2 tangent with angle 4 > π -/
noncomputable def sBig : Vec ℝ 3 := mk3 1 2 4
/-- SE2 tangent with angle 1 -/
noncomputable def sOne : Vec ℝ 3 := mk3 1 2 1
/-- SE2 tangent with tiny angle 1e-5 (series branch) -/
noncomputable def sTiny : Vec ℝ 3 := mk3 1 2 (1 / 100000)

theorem aBig_closed : ¬ sqNorm aBig < Scalar.eps2 := by
  rw [sqNorm3, scalar_eps2]; simp [aBig, mk3]; norm_num
theorem aOne_closed : ¬ sqNorm aOne < Scalar.eps2 := by
  rw [sqNorm3, scalar_eps2]; simp [aOne, mk3]; norm_num
theorem aOne_sqNorm : sqNorm aOne = 1 := by rw [sqNorm3]; simp [aOne, mk3]
theorem aTiny_series : 0 < sqNorm aTiny ∧ sqNorm aTiny < Scalar.eps2 := by
  rw [sqNorm3, scalar_eps2]; simp [aTiny, mk3]; norm_num
theorem qA_unit : UnitQ qA := by simp [UnitQ, qA, mk4]; norm_num
theorem qA_canon : 0 ≤ qA 3 := by simp [qA, mk4]; norm_num
theorem qA_closed : ¬ xyz2 qA < Scalar.eps2 := by
  rw [scalar_eps2]; simp [xyz2, qA, mk4]; norm_num
theorem sBig_closed : ¬ sBig 2 * sBig 2 < Scalar.eps2 := by
  rw [scalar_eps2]; simp [sBig, mk3]; norm_num
theorem sOne_closed : ¬ sOne 2 * sOne 2 < Scalar.eps2 := by
  rw [scalar_eps2]; simp [sOne, mk3]; norm_num
theorem sTiny_series : sTiny 2 ≠ 0 ∧ sTiny 2 * sTiny 2 < Scalar.eps2 := by
  rw [scalar_eps2]; simp [sTiny, mk3]; norm_num

/-! ## B. Closed-form `exp` is the matrix exponential (every magnitude) -/

/-- SO2 (no branch in the code): any angle. -/
theorem exp_is_matrix_exp_SO2 (a : Vec ℝ 1) :
    toM (SO2.matrix (SO2.exp a)) = NormedSpace.exp (toM (SO2.hat a)) := so2_exp_is_matrix_exp a

/-- C1 (scaled rotations; no branch). -/
theorem exp_is_matrix_exp_C1 (a : Vec ℝ 2) :
    toM (C1.matrix (C1.exp a)) = NormedSpace.exp (toM (C1.hat a)) := c1_exp_is_matrix_exp a

/-- Tn, every `n` (nilpotent `hat`: `exp (hat a) = 1 + hat a`). -/
theorem exp_is_matrix_exp_Tn {n : Nat} (a : Vec ℝ n) :
    toM (Tn.matrix (Tn.exp a)) = NormedSpace.exp (toM (Tn.hat a)) := tn_exp_is_matrix_exp a

/-- SE2, closed-form branch of the model function, any angle with `θ² ≥ eps2` (incl. `|θ| > π`). -/
theorem exp_is_matrix_exp_closed_SE2 (a : Vec ℝ 3) (h : ¬ a 2 * a 2 < Scalar.eps2) :
    toM (SE2.matrix (SE2.exp a)) = NormedSpace.exp (toM (SE2.hat a)) :=
  se2_exp_is_matrix_exp_closed a h
example : ¬ sBig 2 * sBig 2 < Scalar.eps2 := sBig_closed

/-- SE2, the closed-form expressions alone, every non-zero angle (also inside the series zone). -/
theorem expClosed_is_matrix_exp_SE2 (a : Vec ℝ 3) (hθ : a 2 ≠ 0) :
    toM (SE2.matrix (se2ExpClosed a)) = NormedSpace.exp (toM (SE2.hat a)) :=
  se2_expClosed_is_matrix_exp a hθ
example : sTiny 2 ≠ 0 := sTiny_series.1

/-- SE2 at angle exactly 0: the series branch is taken and is exact. -/
theorem exp_is_matrix_exp_zero_SE2 (a : Vec ℝ 3) (hθ : a 2 = 0) :
    toM (SE2.matrix (SE2.exp a)) = NormedSpace.exp (toM (SE2.hat a)) :=
  se2_exp_is_matrix_exp_zero a hθ
example : (mk3 (1:ℝ) 2 0) 2 = 0 := by simp [mk3]

/-- SO3, closed-form branch of the model function (quaternion → Rodrigues → matrix exponential),
any magnitude `‖a‖² ≥ eps2`, including `‖a‖ > π`; the canonical sign flip is included. -/
theorem exp_is_matrix_exp_closed_SO3 (a : Vec ℝ 3) (h : ¬ sqNorm a < Scalar.eps2) :
    toM (SO3.matrix (SO3.exp a)) = NormedSpace.exp (toM (SO3.hat a)) :=
  so3_exp_is_matrix_exp_closed a h
example : ¬ sqNorm aBig < Scalar.eps2 := aBig_closed

/-- SO3, the closed-form expressions alone: EVERY `a` (also `a = 0` and the series zone). -/
theorem expClosed_is_matrix_exp_SO3 (a : Vec ℝ 3) :
    toM (SO3.matrix (so3ExpClosed a)) = NormedSpace.exp (toM (SO3.hat a)) :=
  so3_expClosed_is_matrix_exp a

/-- the closed-form definitions are the `else` branches of the model functions. -/
theorem exp_eq_expClosed_SO3 (a : Vec ℝ 3) (h : ¬ sqNorm a < Scalar.eps2) :
    SO3.exp a = so3ExpClosed a := so3_exp_eq_closed a h
theorem exp_eq_expClosed_SE2 (a : Vec ℝ 3) (h : ¬ a 2 * a 2 < Scalar.eps2) :
    SE2.exp a = se2ExpClosed a := se2_exp_eq_closed a h
theorem log_eq_logClosed_SO3 (g : Vec ℝ 4) (h : ¬ xyz2 g < Scalar.eps2) :
    SO3.log g = so3LogClosed g := so3_log_eq_closed g h

/-- the canonical sign flip of SO3 does not change the matrix. -/
theorem matrix_canon_SO3 (q : Vec ℝ 4) : SO3.matrix (SO3.canon q) = SO3.matrix q :=
  so3_matrix_canon q

/-! ## C. Series branches: explicit next-term bounds -/

/-- `Trig.cos_2 … cos_6` on the series side of the switch (`0 < x² ≤ eps2`): distance to the
closed form at most `c·x⁶` with the stated constants (≈ next series coefficient). -/
theorem taylor_branch_bound_trig (x2 : ℝ) (h0 : 0 < x2) (h1 : x2 ≤ Scalar.eps2) :
    |Trig.cos_2 x2 - (Real.cos (Real.sqrt x2) - 1) / x2| ≤ x2 ^ 3 * (9 / 322560) ∧
    |Trig.sin_3 x2 - (Real.sin (Real.sqrt x2) - Real.sqrt x2) / (x2 * Real.sqrt x2)|
      ≤ x2 ^ 3 * (10 / 3265920) ∧
    |Trig.cos_4 x2 - (Real.cos (Real.sqrt x2) - 1 + x2 / 2) / (x2 * x2)|
      ≤ x2 ^ 3 * (11 / 36288000) ∧
    |Trig.sin_5 x2 - (Real.sin (Real.sqrt x2) - Real.sqrt x2 + x2 * Real.sqrt x2 / 6)
        / (x2 * x2 * Real.sqrt x2)| ≤ x2 ^ 3 * (12 / 439084800) ∧
    |Trig.cos_6 x2 - (Real.cos (Real.sqrt x2) - 1 + x2 / 2 - (x2 * x2) / 24) / ((x2 * x2) * x2)|
      ≤ x2 ^ 3 * (13 / 5748019200) :=
  ⟨trig_cos_2_series x2 h0 h1, trig_sin_3_series x2 h0 h1, trig_cos_4_series x2 h0 h1,
   trig_sin_5_series x2 h0 h1, trig_cos_6_series x2 h0 h1⟩
example : (0:ℝ) < 1 / 10 ^ 10 ∧ (1 / 10 ^ 10 : ℝ) ≤ Scalar.eps2 := by
  rw [scalar_eps2]; norm_num

/-- in absolute terms the five truncation errors are below `3e-29` on the whole series side. -/
theorem taylor_branch_bound_trig_abs (x2 : ℝ) (h0 : 0 < x2) (h1 : x2 ≤ Scalar.eps2) :
    |Trig.cos_2 x2 - (Real.cos (Real.sqrt x2) - 1) / x2| ≤ 3 / 10 ^ 29 ∧
    |Trig.sin_3 x2 - (Real.sin (Real.sqrt x2) - Real.sqrt x2) / (x2 * Real.sqrt x2)| ≤ 3 / 10 ^ 29 := by
  have hc := cube_small h0 h1
  obtain ⟨h2, h3, _⟩ := taylor_branch_bound_trig x2 h0 h1
  constructor
  · refine h2.trans ?_
    calc x2 ^ 3 * (9 / 322560) ≤ 1 / 10 ^ 24 * (9 / 322560) := by nlinarith
      _ ≤ 3 / 10 ^ 29 := by norm_num
  · refine h3.trans ?_
    calc x2 ^ 3 * (10 / 3265920) ≤ 1 / 10 ^ 24 * (10 / 3265920) := by nlinarith
      _ ≤ 3 / 10 ^ 29 := by norm_num
example : (0:ℝ) < 1 / 10 ^ 10 ∧ (1 / 10 ^ 10 : ℝ) ≤ Scalar.eps2 := by
  rw [scalar_eps2]; norm_num

/-- on the other side of the switch the functions ARE the closed forms; at 0 they are the limits. -/
theorem trig_closed_side (x2 : ℝ) (h : Scalar.eps2 < x2) :
    Trig.cos_2 x2 = (Real.cos (Real.sqrt x2) - 1) / x2 ∧
    Trig.sin_3 x2 = (Real.sin (Real.sqrt x2) - Real.sqrt x2) / (x2 * Real.sqrt x2) ∧
    Trig.cos_4 x2 = (Real.cos (Real.sqrt x2) - 1 + x2 / 2) / (x2 * x2) ∧
    Trig.sin_5 x2 = (Real.sin (Real.sqrt x2) - Real.sqrt x2 + x2 * Real.sqrt x2 / 6)
        / (x2 * x2 * Real.sqrt x2) ∧
    Trig.cos_6 x2 = (Real.cos (Real.sqrt x2) - 1 + x2 / 2 - (x2 * x2) / 24) / ((x2 * x2) * x2) :=
  ⟨trig_cos_2_closed x2 h, trig_sin_3_closed x2 h, trig_cos_4_closed x2 h, trig_sin_5_closed x2 h,
   trig_cos_6_closed x2 h⟩
example : Scalar.eps2 < (1:ℝ) := by rw [scalar_eps2]; norm_num

theorem trig_values_at_zero :
    Trig.cos_2 (0:ℝ) = -1/2 ∧ Trig.sin_3 (0:ℝ) = -1/6 ∧ Trig.cos_4 (0:ℝ) = 1/24 ∧
    Trig.sin_5 (0:ℝ) = 1/120 ∧ Trig.cos_6 (0:ℝ) = -1/720 := trig_at_zero

/-- SO3 `exp` coefficients `(A, B)`: series vs closed form. -/
theorem taylor_branch_bound_SO3_expAB (th2 : ℝ) (h0 : 0 < th2) (h1 : th2 < Scalar.eps2) :
    |(SO3.expAB th2).1 - Real.sin (Real.sqrt th2 / 2) / Real.sqrt th2| ≤ th2 ^ 2 * (1 / 3200) ∧
    |(SO3.expAB th2).2 - Real.cos (Real.sqrt th2 / 2)| ≤ th2 ^ 2 * (5 / 1536) :=
  so3_expAB_series th2 h0 h1
example : (0:ℝ) < 1 / 10 ^ 10 ∧ (1 / 10 ^ 10 : ℝ) < Scalar.eps2 := by
  rw [scalar_eps2]; norm_num

/-- SE2 `exp` coefficients `(A, B)`: series vs closed form (signed angle). -/
theorem taylor_branch_bound_SE2_expAB (θ : ℝ) (h0 : θ ≠ 0) (h1 : θ * θ < Scalar.eps2) :
    |(SE2.expAB θ (θ * θ)).1 - Real.sin θ / θ| ≤ (θ * θ) ^ 2 * (1 / 100) ∧
    |(SE2.expAB θ (θ * θ)).2 - (Real.cos θ - 1) / θ| ≤ (θ * θ) ^ 2 * |θ| * (7 / 4320) :=
  se2_expAB_series θ h0 h1
example : (-(1 / 10 ^ 5) : ℝ) ≠ 0 ∧ (-(1 / 10 ^ 5) : ℝ) * (-(1 / 10 ^ 5)) < Scalar.eps2 := by
  rw [scalar_eps2]; norm_num

/-- SO3 `log` coefficient `phi` (`SO3.logPhi`), series branch vs closed form `2·atan2(n,w)/n`,
on unit quaternions with `w > 0`: at most `2n⁴/(5w⁵)` (from `0 ≤ arctan t − (t − t³/3) ≤ t⁵/5`). -/
theorem taylor_branch_bound_SO3_logPhi (n2 w : ℝ) (h0 : 0 < n2) (h1 : n2 < Scalar.eps2)
    (hw : 0 < w) (hU : n2 + w * w = 1) :
    |SO3.logPhi n2 w - 2 * Complex.arg ⟨w, Real.sqrt n2⟩ / Real.sqrt n2|
      ≤ n2 ^ 2 * (2 / (5 * w ^ 5)) := so3_logPhi_series n2 w h0 h1 hw hU
/-- non-vacuity: `n² = 1e-10`, `w = √(1 − 1e-10)`. -/
example : (0:ℝ) < 1 / 10 ^ 10 ∧ (1 / 10 ^ 10 : ℝ) < Scalar.eps2 ∧ 0 < Real.sqrt (1 - 1 / 10 ^ 10) ∧
    (1 / 10 ^ 10 : ℝ) + Real.sqrt (1 - 1 / 10 ^ 10) * Real.sqrt (1 - 1 / 10 ^ 10) = 1 := by
  have hpos : (0:ℝ) ≤ 1 - 1 / 10 ^ 10 := by norm_num
  refine ⟨by norm_num, by rw [scalar_eps2]; norm_num, Real.sqrt_pos.2 (by norm_num), ?_⟩
  rw [Real.mul_self_sqrt hpos]; ring

/-- SE2 `log` coefficient `A = (θ/2)/tan(θ/2)` vs the series `1 − θ²/12`: `≤ θ⁴/320`
(true next term `θ⁴/720`). -/
theorem taylor_branch_bound_SE2_logA (θ : ℝ) (h0 : θ ≠ 0) (h1 : θ * θ < Scalar.eps2) :
    |SE2.logA (θ * θ) (θ / 2) - (θ / 2) / Real.tan (θ / 2)| ≤ (θ * θ) ^ 2 / 320 :=
  se2_logA_series θ h0 h1
example : (-(1 / 10 ^ 5) : ℝ) ≠ 0 ∧ (-(1 / 10 ^ 5) : ℝ) * (-(1 / 10 ^ 5)) < Scalar.eps2 := by
  rw [scalar_eps2]; norm_num

/-- `SO3.S1invA` (`calc_S1inv`, `dr_expinv`): `1/θ² − (1+cos θ)/(2θ sin θ)` vs `1/12 + θ²/720`:
`≤ θ⁴/10000` (true next term `θ⁴/30240`). -/
theorem taylor_branch_bound_SO3_S1invA (th2 : ℝ) (h0 : 0 < th2) (h1 : th2 < Scalar.eps2) :
    |SO3.S1invA th2 - (1 / th2 - (1 + Real.cos (Real.sqrt th2))
        / (2 * Real.sqrt th2 * Real.sin (Real.sqrt th2)))| ≤ th2 ^ 2 / 10000 :=
  so3_S1invA_series th2 h0 h1
example : (0:ℝ) < 1 / 10 ^ 10 ∧ (1 / 10 ^ 10 : ℝ) < Scalar.eps2 := by
  rw [scalar_eps2]; norm_num

/-- SO3, series branch: entrywise distance to the TRUE matrix exponential ≤ `‖a‖⁵/100`. -/
theorem exp_series_error_SO3 (a : Vec ℝ 3) (h0 : 0 < sqNorm a) (h1 : sqNorm a < Scalar.eps2)
    (i j : Fin 3) :
    |toM (SO3.matrix (SO3.exp a)) i j - (NormedSpace.exp (toM (SO3.hat a))) i j|
      ≤ (sqNorm a) ^ 2 * Real.sqrt (sqNorm a) / 100 := so3_exp_series_error a h0 h1 i j
example : 0 < sqNorm aTiny ∧ sqNorm aTiny < Scalar.eps2 := aTiny_series

/-- SO3 at `a = 0`: exact. -/
theorem exp_is_matrix_exp_zero_SO3 (a : Vec ℝ 3) (h0 : sqNorm a = 0) :
    toM (SO3.matrix (SO3.exp a)) = NormedSpace.exp (toM (SO3.hat a)) :=
  so3_exp_is_matrix_exp_zero a h0
example : sqNorm (mk3 (0:ℝ) 0 0) = 0 := by rw [sqNorm3]; simp [mk3]

/-- **SO3, uniformly in `a`** (tiny, either side of the switch, above π): the model's `exp`
matrix is entrywise within `1e-22` of the matrix exponential of `hat a`, in exact arithmetic. -/
theorem exp_is_matrix_exp_uniform_SO3 (a : Vec ℝ 3) (i j : Fin 3) :
    |toM (SO3.matrix (SO3.exp a)) i j - (NormedSpace.exp (toM (SO3.hat a))) i j| ≤ 1 / 10 ^ 22 :=
  so3_exp_is_matrix_exp_uniform a i j

/-- SE2, series branch with non-zero angle: rotation block exact, translation column within
`θ⁴/100 · (|x| + |y|)` of the true matrix exponential. -/
theorem exp_series_error_SE2 (a : Vec ℝ 3) (h0 : a 2 ≠ 0) (h1 : a 2 * a 2 < Scalar.eps2)
    (i j : Fin 3) :
    |toM (SE2.matrix (SE2.exp a)) i j - (NormedSpace.exp (toM (SE2.hat a))) i j|
      ≤ (a 2 * a 2) ^ 2 / 100 * (|a 0| + |a 1|) := se2_exp_series_error a h0 h1 i j
example : sTiny 2 ≠ 0 ∧ sTiny 2 * sTiny 2 < Scalar.eps2 := sTiny_series

/-- **SE2, uniformly in `a`**: relative bound `1e-18 · (|x| + |y|)` for every tangent vector. -/
theorem exp_is_matrix_exp_uniform_SE2 (a : Vec ℝ 3) (i j : Fin 3) :
    |toM (SE2.matrix (SE2.exp a)) i j - (NormedSpace.exp (toM (SE2.hat a))) i j|
      ≤ 1 / 10 ^ 18 * (|a 0| + |a 1|) := by
  have hnn : 0 ≤ |a 0| + |a 1| := by positivity
  by_cases hb : a 2 * a 2 < Scalar.eps2
  · by_cases h0 : a 2 = 0
    · rw [se2_exp_is_matrix_exp_zero a h0, sub_self, abs_zero]; positivity
    · refine (se2_exp_series_error a h0 hb i j).trans ?_
      apply mul_le_mul_of_nonneg_right _ hnn
      rw [scalar_eps2] at hb
      have h2 : (a 2 * a 2) ^ 2 ≤ (1 / 100000000 : ℝ) ^ 2 :=
        pow_le_pow_left₀ (mul_self_nonneg _) hb.le 2
      calc (a 2 * a 2) ^ 2 / 100 ≤ (1 / 100000000 : ℝ) ^ 2 / 100 := by linarith
        _ = 1 / 10 ^ 18 := by norm_num
  · rw [se2_exp_is_matrix_exp_closed a hb, sub_self, abs_zero]; positivity

/-! ## D. `log` is the principal inverse -/

/-- SO2: the logarithm is the principal angle, `−π < log g ≤ π` (so `|log g| ≤ π`). -/
theorem log_rotation_norm_le_pi_SO2 (g : Vec ℝ 2) :
    (-Real.pi < (SO2.log g) 0 ∧ (SO2.log g) 0 ≤ Real.pi) ∧ |(SO2.log g) 0| ≤ Real.pi :=
  ⟨so2_log_range g, so2_log_abs_le_pi g⟩

/-- SE2: the rotation component of `log g` is the principal angle. -/
theorem log_rotation_norm_le_pi_SE2 (g : Vec ℝ 4) :
    -Real.pi < (SE2.log g) 2 ∧ (SE2.log g) 2 ≤ Real.pi := se2_log_angle_range g

/-- SO3: under the unit constraint and the canonical sign `w ≥ 0` (which `composition`, `exp`
and the constructors maintain), `‖log g‖ ≤ π` — both branches of the model function. -/
theorem log_rotation_norm_le_pi_SO3 (g : Vec ℝ 4) (hU : UnitQ g) (hw : 0 ≤ g 3) :
    Real.sqrt (sqNorm (SO3.log g)) ≤ Real.pi := so3_log_norm_le_pi g hU hw
example : UnitQ qA ∧ 0 ≤ qA 3 := ⟨qA_unit, qA_canon⟩

/-- SO3 closed-form branch: `‖log g‖ = 2·atan2(‖xyz‖, w) ∈ [0, π]` needs only `w ≥ 0`. -/
theorem log_rotation_norm_le_pi_closed_SO3 (g : Vec ℝ 4) (hw : 0 ≤ g 3) :
    Real.sqrt (sqNorm (so3LogClosed g)) ≤ Real.pi := so3_logClosed_norm_le_pi g hw
example : 0 ≤ qA 3 := qA_canon

theorem exp_log_SO2 (g : Vec ℝ 2) (h : g 0 * g 0 + g 1 * g 1 = 1) : SO2.exp (SO2.log g) = g :=
  so2_exp_log g h
example : (mk2 (3/5 : ℝ) (4/5)) 0 * (mk2 (3/5 : ℝ) (4/5)) 0
    + (mk2 (3/5 : ℝ) (4/5)) 1 * (mk2 (3/5 : ℝ) (4/5)) 1 = 1 := by simp [mk2]; norm_num

theorem log_exp_SO2 (a : Vec ℝ 1) (h1 : -Real.pi < a 0) (h2 : a 0 ≤ Real.pi) :
    SO2.log (SO2.exp a) = a := so2_log_exp a h1 h2
example : -Real.pi < (mk1 (1:ℝ)) 0 ∧ (mk1 (1:ℝ)) 0 ≤ Real.pi := by
  simp [mk1]; constructor <;> linarith [Real.pi_gt_three]

theorem exp_log_C1 (g : Vec ℝ 2) (h : g 0 * g 0 + g 1 * g 1 ≠ 0) : C1.exp (C1.log g) = g :=
  c1_exp_log g h
example : (mk2 (3:ℝ) 4) 0 * (mk2 (3:ℝ) 4) 0 + (mk2 (3:ℝ) 4) 1 * (mk2 (3:ℝ) 4) 1 ≠ 0 := by
  simp [mk2]; norm_num

theorem log_exp_C1 (a : Vec ℝ 2) (h1 : -Real.pi < a 1) (h2 : a 1 ≤ Real.pi) :
    C1.log (C1.exp a) = a := c1_log_exp a h1 h2
example : -Real.pi < (mk2 (5:ℝ) 1) 1 ∧ (mk2 (5:ℝ) 1) 1 ≤ Real.pi := by
  simp [mk2]; constructor <;> linarith [Real.pi_gt_three]

theorem exp_log_Tn {n : Nat} (g : Vec ℝ n) : Tn.exp (Tn.log g) = g := tn_exp_log g
theorem log_exp_Tn {n : Nat} (a : Vec ℝ n) : Tn.log (Tn.exp a) = a := tn_log_exp a

/-- SE2 `exp (log g) = g`: unit rotation part, closed-form branch (`θ² ≥ eps2`, `θ = log` angle). -/
theorem exp_log_SE2 (g : Vec ℝ 4) (hU : g 2 * g 2 + g 3 * g 3 = 1)
    (hb : ¬ Complex.arg ⟨g 3, g 2⟩ * Complex.arg ⟨g 3, g 2⟩ < Scalar.eps2) :
    SE2.exp (SE2.log g) = g := se2_exp_log g hU hb
/-- non-vacuity: the quarter turn `(x, y, 1, 0)`, whose angle is `π/2`. -/
example : (mk4 (1:ℝ) 2 1 0) 2 * (mk4 (1:ℝ) 2 1 0) 2 + (mk4 (1:ℝ) 2 1 0) 3 * (mk4 (1:ℝ) 2 1 0) 3 = 1 ∧
    ¬ Complex.arg ⟨(mk4 (1:ℝ) 2 1 0) 3, (mk4 (1:ℝ) 2 1 0) 2⟩
      * Complex.arg ⟨(mk4 (1:ℝ) 2 1 0) 3, (mk4 (1:ℝ) 2 1 0) 2⟩ < Scalar.eps2 := by
  have hI : (⟨0, 1⟩ : ℂ) = Complex.I := by apply Complex.ext <;> simp
  simp only [mk4, Vec.of_get, scalar_eps2]
  rw [hI, Complex.arg_I]
  constructor
  · norm_num
  · have := Real.pi_gt_three; nlinarith

/-- SE2 `exp (log g) = g` at angle 0 (series branch, exact). -/
theorem exp_log_zero_SE2 (g : Vec ℝ 4) (h2 : g 2 = 0) (h3 : g 3 = 1) : SE2.exp (SE2.log g) = g :=
  se2_exp_log_zero g h2 h3
example : (mk4 (1:ℝ) 2 0 1) 2 = 0 ∧ (mk4 (1:ℝ) 2 0 1) 3 = 1 := by simp [mk4]

/-- SE2 `log (exp a) = a`: principal angle, closed-form branch. -/
theorem log_exp_SE2 (a : Vec ℝ 3) (h1 : -Real.pi < a 2) (h2 : a 2 ≤ Real.pi)
    (hb : ¬ a 2 * a 2 < Scalar.eps2) : SE2.log (SE2.exp a) = a := se2_log_exp a h1 h2 hb
example : -Real.pi < sOne 2 ∧ sOne 2 ≤ Real.pi ∧ ¬ sOne 2 * sOne 2 < Scalar.eps2 := by
  refine ⟨?_, ?_, sOne_closed⟩ <;> simp [sOne, mk3] <;> linarith [Real.pi_gt_three]

theorem log_exp_zero_SE2 (a : Vec ℝ 3) (h0 : a 2 = 0) : SE2.log (SE2.exp a) = a :=
  se2_log_exp_zero a h0
example : (mk3 (1:ℝ) 2 0) 2 = 0 := by simp [mk3]

/-- SO3 `exp (log g) = g`: unit quaternion with canonical sign, closed-form branch
(`‖xyz‖² ≥ eps2`; then `‖log g‖² ≥ eps2` too, so `exp` is in its closed branch as well). -/
theorem exp_log_SO3 (g : Vec ℝ 4) (hU : UnitQ g) (hw : 0 ≤ g 3) (hb : ¬ xyz2 g < Scalar.eps2) :
    SO3.exp (SO3.log g) = g := so3_exp_log g hU hw hb
example : UnitQ qA ∧ 0 ≤ qA 3 ∧ ¬ xyz2 qA < Scalar.eps2 := ⟨qA_unit, qA_canon, qA_closed⟩

/-- closed forms alone: every canonical unit quaternion (including the identity). -/
theorem expClosed_logClosed_SO3 (g : Vec ℝ 4) (hU : UnitQ g) (hw : 0 ≤ g 3) :
    so3ExpClosed (so3LogClosed g) = g := so3_expClosed_logClosed g hU hw
example : UnitQ qA ∧ 0 ≤ qA 3 := ⟨qA_unit, qA_canon⟩

/-- SO3 `log (exp a) = a` for `‖a‖ < π`, closed forms alone (every such `a`, incl. `a = 0`). -/
theorem logClosed_expClosed_SO3 (a : Vec ℝ 3) (hπ : Real.sqrt (sqNorm a) < Real.pi) :
    so3LogClosed (so3ExpClosed a) = a := so3_logClosed_expClosed a hπ
example : Real.sqrt (sqNorm aOne) < Real.pi := by
  rw [aOne_sqNorm, Real.sqrt_one]; linarith [Real.pi_gt_three]

/-- SO3 `log (exp a) = a` for the model functions: `‖a‖ < π`, both in their closed-form branch.
(For `eps2 ≤ ‖a‖² < ~4·eps2` the code's `exp` uses the closed form and `log` the series: that
zone is covered by `logClosed_expClosed_SO3` up to the series error of `SO3.logPhi`.) -/
theorem log_exp_SO3 (a : Vec ℝ 3) (h1 : ¬ sqNorm a < Scalar.eps2)
    (h2 : ¬ xyz2 (SO3.exp a) < Scalar.eps2) (hπ : Real.sqrt (sqNorm a) < Real.pi) :
    SO3.log (SO3.exp a) = a := so3_log_exp a h1 h2 hπ

/-! ## B'. SE3 -/

/-- SE3 tangent `(v, ω)` with `‖ω‖ = 4 > π` -/
noncomputable def eBig : Vec ℝ 6 := SE3.mk6 (mk3 1 2 3) (mk3 0 0 4)

theorem eBig_closed : Scalar.eps2 < sqNorm (SE3.tw eBig) := by
  rw [sqNorm3, scalar_eps2]; simp [eBig, SE3.tw, SE3.mk6, mk3]; norm_num

/-- SE3, closed-form branch (`‖ω‖² > eps2`, any magnitude): `matrix (exp a) = exp (hat a)`, 4×4;
the code's translation `R · S₁(−ω) · v` is `S₁(ω) · v`. -/
theorem exp_is_matrix_exp_closed_SE3 (a : Vec ℝ 6) (h : Scalar.eps2 < sqNorm (SE3.tw a)) :
    toM (SE3.matrix (SE3.exp a)) = NormedSpace.exp (toM (SE3.hat a)) :=
  se3_exp_is_matrix_exp_closed a h
example : Scalar.eps2 < sqNorm (SE3.tw eBig) := eBig_closed

/-- SE3 with zero rotation part: series branches, exact. -/
theorem exp_is_matrix_exp_zero_SE3 (a : Vec ℝ 6) (h3 : a 3 = 0) (h4 : a 4 = 0) (h5 : a 5 = 0) :
    toM (SE3.matrix (SE3.exp a)) = NormedSpace.exp (toM (SE3.hat a)) :=
  se3_exp_is_matrix_exp_zero a h3 h4 h5
example : (SE3.mk6 (mk3 (1:ℝ) 2 3) (mk3 0 0 0)) 3 = 0 ∧ (SE3.mk6 (mk3 (1:ℝ) 2 3) (mk3 0 0 0)) 4 = 0
    ∧ (SE3.mk6 (mk3 (1:ℝ) 2 3) (mk3 0 0 0)) 5 = 0 := by simp [SE3.mk6, mk3]

/-! ## B''. SE_K_3 and Galilei -/

/-- SE_2(3) tangent `(v₁, v₂, ω)` with `‖ω‖ = 4 > π` -/
noncomputable def kBig : Vec ℝ (3 + 3 * 2) :=
  SEK3.mkT 2 (fun i => if i = 0 then mk3 1 2 3 else mk3 4 5 6) (mk3 0 0 4)

theorem kBig_closed : Scalar.eps2 < sqNorm (SEK3.tw 2 kBig) := by
  rw [sqNorm3, scalar_eps2]; simp [kBig, SEK3.tw, SEK3.mkT, mk3]; norm_num

/-- SE_K_3, every `K`, closed-form branch (`‖ω‖² > eps2`, any magnitude). -/
theorem exp_is_matrix_exp_closed_SEK3 (k : Nat) (a : Vec ℝ (3 + 3 * k))
    (h : Scalar.eps2 < sqNorm (SEK3.tw k a)) :
    toM (SEK3.matrix k (SEK3.exp k a)) = NormedSpace.exp (toM (SEK3.hat k a)) :=
  sek3_exp_is_matrix_exp_closed k a h
example : Scalar.eps2 < sqNorm (SEK3.tw 2 kBig) := kBig_closed

/-- Galilei tangent `(b, q, s, ω)` with `‖ω‖ = 4 > π` -/
noncomputable def gBig : Vec ℝ 10 := Galilei.mkT (mk3 1 2 3) (mk3 4 5 6) 7 (mk3 0 0 4)

theorem gBig_closed : Scalar.eps2 < sqNorm (Galilei.tw gBig) := by
  rw [sqNorm3, scalar_eps2]; simp [gBig, Galilei.tw, Galilei.mkT, mk3]; norm_num

/-- Galilei, closed-form branch (`‖ω‖² > eps2`, any magnitude): 5×5 matrix exponential. -/
theorem exp_is_matrix_exp_closed_Galilei (a : Vec ℝ 10) (h : Scalar.eps2 < sqNorm (Galilei.tw a)) :
    toM (Galilei.matrix (Galilei.exp a)) = NormedSpace.exp (toM (Galilei.hat a)) :=
  galilei_exp_is_matrix_exp_closed a h
example : Scalar.eps2 < sqNorm (Galilei.tw gBig) := gBig_closed

/-! ## C'. Series zone and uniform bounds for SE3, SE_K_3, Galilei (`‖a‖∞ ≤ M`) -/

/-- SE3 tangent with a tiny rotation part (series zone) -/
noncomputable def eTiny : Vec ℝ 6 := SE3.mk6 (mk3 1 2 3) (mk3 0 0 (1 / 100000))

theorem eTiny_series : 0 < sqNorm (SE3.tw eTiny) ∧ sqNorm (SE3.tw eTiny) ≤ Scalar.eps2 := by
  rw [sqNorm3, scalar_eps2]; simp [eTiny, SE3.tw, SE3.mk6, mk3]; norm_num
theorem eTiny_bound : ∀ k, |eTiny k| ≤ 3 := by
  intro k; fin_cases k <;> simp [eTiny, SE3.mk6, mk3] <;> norm_num [abs_le]

/-- SE3, series zone `0 < ‖ω‖² ≤ eps2`: entrywise distance to the true matrix exponential
`≤ ‖ω‖⁴·‖ω‖·(1 + M)` for any `M ≥ ‖a‖∞`. -/
theorem exp_series_error_SE3 (a : Vec ℝ 6) (h0 : 0 < sqNorm (SE3.tw a))
    (h1 : sqNorm (SE3.tw a) ≤ Scalar.eps2) (M : ℝ) (hM : ∀ k, |a k| ≤ M) (i j : Fin 4) :
    |toM (SE3.matrix (SE3.exp a)) i j - (NormedSpace.exp (toM (SE3.hat a))) i j|
      ≤ sqNorm (SE3.tw a) ^ 2 * Real.sqrt (sqNorm (SE3.tw a)) * (1 + M) :=
  se3_exp_series_error a h0 h1 M hM i j
example : (0 < sqNorm (SE3.tw eTiny) ∧ sqNorm (SE3.tw eTiny) ≤ Scalar.eps2) ∧ ∀ k, |eTiny k| ≤ 3 :=
  ⟨eTiny_series, eTiny_bound⟩

/-- **SE3, uniformly in `a`** (either side of the switch, tiny, above π):
entrywise `≤ 1e-20·(1 + ‖a‖∞)` in exact arithmetic. -/
theorem exp_is_matrix_exp_uniform_SE3 (a : Vec ℝ 6) (M : ℝ) (hM : ∀ k, |a k| ≤ M) (i j : Fin 4) :
    |toM (SE3.matrix (SE3.exp a)) i j - (NormedSpace.exp (toM (SE3.hat a))) i j|
      ≤ 1 / 10 ^ 20 * (1 + M) := se3_exp_is_matrix_exp_uniform a M hM i j
example : ∀ k, |eTiny k| ≤ 3 := eTiny_bound

/-- SE_K_3 (every K), series zone. -/
theorem exp_series_error_SEK3 (k : Nat) (a : Vec ℝ (3 + 3 * k)) (h0 : 0 < sqNorm (SEK3.tw k a))
    (h1 : sqNorm (SEK3.tw k a) ≤ Scalar.eps2) (M : ℝ) (hM0 : 0 ≤ M) (hM : ∀ idx, |a idx| ≤ M)
    (i j : Fin (3 + k)) :
    |toM (SEK3.matrix k (SEK3.exp k a)) i j - (NormedSpace.exp (toM (SEK3.hat k a))) i j|
      ≤ sqNorm (SEK3.tw k a) ^ 2 * Real.sqrt (sqNorm (SEK3.tw k a)) * (1 + M) :=
  sek3_exp_series_error k a h0 h1 M hM0 hM i j
/-- non-vacuity: `K = 2`, rotation part `(0, 0, 1e-5)`, translation parts zero. -/
example : (0 < sqNorm (SEK3.tw 2 (SEK3.mkT 2 (fun _ => mk3 (0:ℝ) 0 0) (mk3 0 0 (1 / 100000)))) ∧
    sqNorm (SEK3.tw 2 (SEK3.mkT 2 (fun _ => mk3 (0:ℝ) 0 0) (mk3 0 0 (1 / 100000)))) ≤ Scalar.eps2) ∧
    (0:ℝ) ≤ 1 ∧
    ∀ idx, |(SEK3.mkT 2 (fun _ => mk3 (0:ℝ) 0 0) (mk3 0 0 (1 / 100000))) idx| ≤ 1 := by
  refine ⟨?_, by norm_num, ?_⟩
  · rw [sek3_tw_mkT, sqNorm3, scalar_eps2]; simp [mk3]; norm_num
  · intro idx
    fin_cases idx <;> (simp [SEK3.mkT, mk3]; try norm_num)

/-- **SE_K_3 (every K), uniformly in `a`**: entrywise `≤ 1e-20·(1 + ‖a‖∞)`. -/
theorem exp_is_matrix_exp_uniform_SEK3 (k : Nat) (a : Vec ℝ (3 + 3 * k)) (M : ℝ) (hM0 : 0 ≤ M)
    (hM : ∀ idx, |a idx| ≤ M) (i j : Fin (3 + k)) :
    |toM (SEK3.matrix k (SEK3.exp k a)) i j - (NormedSpace.exp (toM (SEK3.hat k a))) i j|
      ≤ 1 / 10 ^ 20 * (1 + M) := sek3_exp_is_matrix_exp_uniform k a M hM0 hM i j
example : (0:ℝ) ≤ 7 ∧ ∀ idx, |kBig idx| ≤ 7 := by
  refine ⟨by norm_num, fun idx => ?_⟩
  fin_cases idx <;> simp [kBig, SEK3.mkT, mk3] <;> norm_num [abs_le]

/-- Galilei, series zone: entrywise `≤ ‖ω‖⁴·‖ω‖·(1 + M)²` (the entries of the true exponential are
themselves bilinear in `(τ, b)`, hence the square). -/
theorem exp_series_error_Galilei (a : Vec ℝ 10) (h0 : 0 < sqNorm (Galilei.tw a))
    (h1 : sqNorm (Galilei.tw a) ≤ Scalar.eps2) (M : ℝ) (hM : ∀ k, |a k| ≤ M) (i j : Fin 5) :
    |toM (Galilei.matrix (Galilei.exp a)) i j - (NormedSpace.exp (toM (Galilei.hat a))) i j|
      ≤ sqNorm (Galilei.tw a) ^ 2 * Real.sqrt (sqNorm (Galilei.tw a)) * ((1 + M) * (1 + M)) :=
  galilei_exp_series_error a h0 h1 M hM i j
example : (0 < sqNorm (Galilei.tw (Galilei.mkT (mk3 1 2 3) (mk3 4 5 6) 7 (mk3 (0:ℝ) 0 (1 / 100000)))) ∧
    sqNorm (Galilei.tw (Galilei.mkT (mk3 1 2 3) (mk3 4 5 6) 7 (mk3 (0:ℝ) 0 (1 / 100000))))
      ≤ Scalar.eps2) ∧
    ∀ k, |(Galilei.mkT (mk3 1 2 3) (mk3 4 5 6) 7 (mk3 (0:ℝ) 0 (1 / 100000))) k| ≤ 7 := by
  constructor
  · rw [galilei_tw_mkT, sqNorm3, scalar_eps2]; simp [mk3]; norm_num
  · intro k; fin_cases k <;> simp [Galilei.mkT, mk3] <;> norm_num [abs_le]

/-- **Galilei, uniformly in `a`**: entrywise `≤ 1e-20·(1 + ‖a‖∞)²`. -/
theorem exp_is_matrix_exp_uniform_Galilei (a : Vec ℝ 10) (M : ℝ) (hM : ∀ k, |a k| ≤ M)
    (i j : Fin 5) :
    |toM (Galilei.matrix (Galilei.exp a)) i j - (NormedSpace.exp (toM (Galilei.hat a))) i j|
      ≤ 1 / 10 ^ 20 * ((1 + M) * (1 + M)) := galilei_exp_is_matrix_exp_uniform a M hM i j
example : ∀ k, |gBig k| ≤ 7 := by
  intro k; fin_cases k <;> simp [gBig, Galilei.mkT, mk3] <;> norm_num [abs_le]

/-! ## D'. SE3 log; rotation part of log for the SO3-based groups -/

/-- SE3 element: translation (1,2,3), rotation `qA` -/
noncomputable def hA : Vec ℝ 7 := SE3.mk7 (mk3 1 2 3) qA

theorem hA_so3 : SE3.so3 hA = qA := se3_so3_mk7 _ _

/-- rotation norm of `log` ≤ π for SE3, Galilei, SE_K_3 (unit rotation part, canonical sign). -/
theorem log_rotation_norm_le_pi_SE3 (g : Vec ℝ 7) (hU : UnitQ (SE3.so3 g)) (hw : 0 ≤ (SE3.so3 g) 3) :
    Real.sqrt (sqNorm (SE3.tw (SE3.log g))) ≤ Real.pi := by
  rw [se3_log_rotation]; exact so3_log_norm_le_pi _ hU hw
example : UnitQ (SE3.so3 hA) ∧ 0 ≤ (SE3.so3 hA) 3 := by
  rw [hA_so3]; exact ⟨qA_unit, qA_canon⟩

theorem log_rotation_norm_le_pi_Galilei (g : Vec ℝ 11) (hU : UnitQ (Galilei.gq g))
    (hw : 0 ≤ (Galilei.gq g) 3) :
    Real.sqrt (sqNorm (Galilei.tw (Galilei.log g))) ≤ Real.pi := by
  rw [galilei_log_rotation]; exact so3_log_norm_le_pi _ hU hw
example : UnitQ (Galilei.gq (Galilei.mkG (mk3 1 2 3) (mk3 4 5 6) 7 qA)) ∧
    0 ≤ (Galilei.gq (Galilei.mkG (mk3 1 2 3) (mk3 4 5 6) 7 qA)) 3 := by
  rw [galilei_gq_mkG]; exact ⟨qA_unit, qA_canon⟩

theorem log_rotation_norm_le_pi_SEK3 (k : Nat) (g : Vec ℝ (4 + 3 * k)) (hU : UnitQ (SEK3.gq k g))
    (hw : 0 ≤ (SEK3.gq k g) 3) :
    Real.sqrt (sqNorm (SEK3.tw k (SEK3.log k g))) ≤ Real.pi := by
  rw [sek3_log_rotation]; exact so3_log_norm_le_pi _ hU hw
example : UnitQ (SEK3.gq 2 (SEK3.mkG 2 (fun _ => mk3 1 2 3) qA)) ∧
    0 ≤ (SEK3.gq 2 (SEK3.mkG 2 (fun _ => mk3 1 2 3) qA)) 3 := by
  rw [sek3_gq_mkG]; exact ⟨qA_unit, qA_canon⟩

/-- SE3 `log (exp a) = a`: `eps2 < ‖ω‖²`, `‖ω‖ < π`, SO3 functions in their closed-form branch. -/
theorem log_exp_SE3 (a : Vec ℝ 6) (h1 : Scalar.eps2 < sqNorm (SE3.tw a))
    (h2 : ¬ xyz2 (SO3.exp (SE3.tw a)) < Scalar.eps2)
    (hπ : Real.sqrt (sqNorm (SE3.tw a)) < Real.pi) : SE3.log (SE3.exp a) = a :=
  se3_log_exp a h1 h2 hπ

/-- SE3 `exp (log g) = g`: unit rotation part with canonical sign `w ≥ 0`, closed-form branch.
The half turn `w = 0` (`θ = π`) IS included: there the model's `S1invA` evaluates `(1+cos π)/(2π sin π)`
as `0/0 = 0`, which is the limit value, and the identity holds exactly. -/
theorem exp_log_SE3 (g : Vec ℝ 7) (hU : UnitQ (SE3.so3 g)) (hw : 0 ≤ (SE3.so3 g) 3)
    (hb : ¬ xyz2 (SE3.so3 g) < Scalar.eps2) : SE3.exp (SE3.log g) = g := se3_exp_log g hU hw hb
example : UnitQ (SE3.so3 hA) ∧ 0 ≤ (SE3.so3 hA) 3 ∧ ¬ xyz2 (SE3.so3 hA) < Scalar.eps2 := by
  rw [hA_so3]; exact ⟨qA_unit, qA_canon, qA_closed⟩
/-- non-vacuity at the half turn: rotation by π about x. -/
example : UnitQ (SE3.so3 (SE3.mk7 (mk3 1 2 3) (mk4 1 0 0 0))) ∧
    0 ≤ (SE3.so3 (SE3.mk7 (mk3 1 2 3) (mk4 1 0 0 0))) 3 ∧
    ¬ xyz2 (SE3.so3 (SE3.mk7 (mk3 1 2 3) (mk4 1 0 0 0))) < Scalar.eps2 := by
  rw [se3_so3_mk7, scalar_eps2]
  refine ⟨by simp [UnitQ, mk4], by simp [mk4], by simp [xyz2, mk4]; norm_num⟩

/-- SE_K_3 (every K) and Galilei: `log (exp a) = a` for `‖ω‖ < π`, closed-form branches. -/
theorem log_exp_SEK3 (k : Nat) (a : Vec ℝ (3 + 3 * k)) (h1 : Scalar.eps2 < sqNorm (SEK3.tw k a))
    (h2 : ¬ xyz2 (SO3.exp (SEK3.tw k a)) < Scalar.eps2)
    (hπ : Real.sqrt (sqNorm (SEK3.tw k a)) < Real.pi) : SEK3.log k (SEK3.exp k a) = a :=
  sek3_log_exp k a h1 h2 hπ

theorem log_exp_Galilei (a : Vec ℝ 10) (h1 : Scalar.eps2 < sqNorm (Galilei.tw a))
    (h2 : ¬ xyz2 (SO3.exp (Galilei.tw a)) < Scalar.eps2)
    (hπ : Real.sqrt (sqNorm (Galilei.tw a)) < Real.pi) : Galilei.log (Galilei.exp a) = a :=
  galilei_log_exp a h1 h2 hπ

/-- SE_K_3 (every K) and Galilei: `exp (log g) = g`, unit rotation part, `w ≥ 0` (half turn
included), closed-form branch. -/
theorem exp_log_SEK3 (k : Nat) (g : Vec ℝ (4 + 3 * k)) (hU : UnitQ (SEK3.gq k g))
    (hw : 0 ≤ (SEK3.gq k g) 3) (hb : ¬ xyz2 (SEK3.gq k g) < Scalar.eps2) :
    SEK3.exp k (SEK3.log k g) = g := sek3_exp_log k g hU hw hb
example : UnitQ (SEK3.gq 2 (SEK3.mkG 2 (fun _ => mk3 1 2 3) qA)) ∧
    0 ≤ (SEK3.gq 2 (SEK3.mkG 2 (fun _ => mk3 1 2 3) qA)) 3 ∧
    ¬ xyz2 (SEK3.gq 2 (SEK3.mkG 2 (fun _ => mk3 1 2 3) qA)) < Scalar.eps2 := by
  rw [sek3_gq_mkG]; exact ⟨qA_unit, qA_canon, qA_closed⟩

theorem exp_log_Galilei (g : Vec ℝ 11) (hU : UnitQ (Galilei.gq g)) (hw : 0 ≤ (Galilei.gq g) 3)
    (hb : ¬ xyz2 (Galilei.gq g) < Scalar.eps2) : Galilei.exp (Galilei.log g) = g :=
  galilei_exp_log g hU hw hb
example : UnitQ (Galilei.gq (Galilei.mkG (mk3 1 2 3) (mk3 4 5 6) 7 qA)) ∧
    0 ≤ (Galilei.gq (Galilei.mkG (mk3 1 2 3) (mk3 4 5 6) 7 qA)) 3 ∧
    ¬ xyz2 (Galilei.gq (Galilei.mkG (mk3 1 2 3) (mk3 4 5 6) 7 qA)) < Scalar.eps2 := by
  rw [galilei_gq_mkG]; exact ⟨qA_unit, qA_canon, qA_closed⟩

/-- zero rotation part: SE_K_3 and Galilei series branches are exact. -/
theorem exp_is_matrix_exp_zero_SEK3 (k : Nat) (a : Vec ℝ (3 + 3 * k))
    (h0 : (SEK3.tw k a) 0 = 0) (h1 : (SEK3.tw k a) 1 = 0) (h2 : (SEK3.tw k a) 2 = 0) :
    toM (SEK3.matrix k (SEK3.exp k a)) = NormedSpace.exp (toM (SEK3.hat k a)) :=
  sek3_exp_is_matrix_exp_zero k a h0 h1 h2
example : (SEK3.tw 2 (SEK3.mkT 2 (fun _ => mk3 (1:ℝ) 2 3) (mk3 0 0 0))) 0 = 0 ∧
    (SEK3.tw 2 (SEK3.mkT 2 (fun _ => mk3 (1:ℝ) 2 3) (mk3 0 0 0))) 1 = 0 ∧
    (SEK3.tw 2 (SEK3.mkT 2 (fun _ => mk3 (1:ℝ) 2 3) (mk3 0 0 0))) 2 = 0 := by
  simp [SEK3.tw, SEK3.mkT, mk3]

theorem exp_is_matrix_exp_zero_Galilei (a : Vec ℝ 10) (h7 : a 7 = 0) (h8 : a 8 = 0) (h9 : a 9 = 0) :
    toM (Galilei.matrix (Galilei.exp a)) = NormedSpace.exp (toM (Galilei.hat a)) :=
  galilei_exp_is_matrix_exp_zero a h7 h8 h9
example : (Galilei.mkT (mk3 1 2 3) (mk3 4 5 6) 7 (mk3 (0:ℝ) 0 0)) 7 = 0 ∧
    (Galilei.mkT (mk3 1 2 3) (mk3 4 5 6) 7 (mk3 (0:ℝ) 0 0)) 8 = 0 ∧
    (Galilei.mkT (mk3 1 2 3) (mk3 4 5 6) 7 (mk3 (0:ℝ) 0 0)) 9 = 0 := by
  simp [Galilei.mkT, mk3]

/-! ## E. Bundle -/

/-- `NormedSpace.exp` of the model's block-diagonal arrangement is block diagonal. -/
theorem exp_bdiag_is_bdiag_exp {n m : Nat} (A : Mat ℝ n n) (B : Mat ℝ m m) :
    NormedSpace.exp (toM (Bundle.bdiag A B))
      = toM (Bundle.bdiag (ofM (NormedSpace.exp (toM A))) (ofM (NormedSpace.exp (toM B)))) :=
  exp_bdiag A B

/-- binary product (one step of a Bundle): `exp` is the matrix exponential at `a` when it is for
both parts at the corresponding halves of `a`. -/
theorem exp_is_matrix_exp_prod (A B : LieModel ℝ) (a : Vec ℝ (A.dof + B.dof))
    (hA : ExpIsMatrixExpAt A (Bundle.fst a)) (hB : ExpIsMatrixExpAt B (Bundle.snd a)) :
    ExpIsMatrixExpAt (Bundle.prod A B) a := prod_expIsMatrixExpAt A B a hA hB
/-- non-vacuity: `SO2 × T2` at any tangent vector. -/
example (a : Vec ℝ ((SO2.model : LieModel ℝ).dof + (Tn.model 2 : LieModel ℝ).dof)) :
    ExpIsMatrixExpAt (SO2.model : LieModel ℝ) (Bundle.fst a) ∧
    ExpIsMatrixExpAt (Tn.model 2 : LieModel ℝ) (Bundle.snd a) :=
  ⟨so2_exp_is_matrix_exp _, tn_exp_is_matrix_exp _⟩

/-- Bundle of a list of parts for which `exp` is the matrix exponential everywhere. -/
theorem exp_is_matrix_exp_bundle (ps : List (LieModel ℝ))
    (h : ∀ p ∈ ps, ∀ a, ExpIsMatrixExpAt p a) : ∀ a, ExpIsMatrixExpAt (Bundle.bundle ps) a :=
  bundle_expIsMatrixExp ps h
/-- non-vacuity: `Bundle<SO2, C1, T3>`. -/
example : ∀ p ∈ [(SO2.model : LieModel ℝ), C1.model, Tn.model 3], ∀ a, ExpIsMatrixExpAt p a := by
  intro p hp a
  simp only [List.mem_cons, List.not_mem_nil, or_false] at hp
  rcases hp with rfl | rfl | rfl
  · exact so2_exp_is_matrix_exp a
  · exact c1_exp_is_matrix_exp a
  · exact tn_exp_is_matrix_exp a

/-- `exp ∘ log` / `log ∘ exp` of a product reduce to the parts. -/
theorem exp_log_prod (A B : LieModel ℝ) (g : Vec ℝ (A.rep + B.rep))
    (hA : A.exp (A.log (Bundle.fst g)) = Bundle.fst g)
    (hB : B.exp (B.log (Bundle.snd g)) = Bundle.snd g) :
    (Bundle.prod A B).exp ((Bundle.prod A B).log g) = g := prod_exp_log A B g hA hB
example (g : Vec ℝ ((Tn.model 2 : LieModel ℝ).rep + (Tn.model 1 : LieModel ℝ).rep)) :
    (Tn.model 2 : LieModel ℝ).exp ((Tn.model 2 : LieModel ℝ).log (Bundle.fst g)) = Bundle.fst g ∧
    (Tn.model 1 : LieModel ℝ).exp ((Tn.model 1 : LieModel ℝ).log (Bundle.snd g)) = Bundle.snd g :=
  ⟨rfl, rfl⟩

theorem log_exp_prod (A B : LieModel ℝ) (a : Vec ℝ (A.dof + B.dof))
    (hA : A.log (A.exp (Bundle.fst a)) = Bundle.fst a)
    (hB : B.log (B.exp (Bundle.snd a)) = Bundle.snd a) :
    (Bundle.prod A B).log ((Bundle.prod A B).exp a) = a := prod_log_exp A B a hA hB
example (a : Vec ℝ ((Tn.model 2 : LieModel ℝ).dof + (Tn.model 1 : LieModel ℝ).dof)) :
    (Tn.model 2 : LieModel ℝ).log ((Tn.model 2 : LieModel ℝ).exp (Bundle.fst a)) = Bundle.fst a ∧
    (Tn.model 1 : LieModel ℝ).log ((Tn.model 1 : LieModel ℝ).exp (Bundle.snd a)) = Bundle.snd a :=
  ⟨rfl, rfl⟩

/-- pointwise Bundle version: every part may sit in a different branch. -/
theorem exp_is_matrix_exp_bundle_pointwise (ps : List (LieModel ℝ))
    (a : Vec ℝ (Bundle.bundle ps).dof) (h : BundleAllT ExpIsMatrixExpAt ps a) :
    ExpIsMatrixExpAt (Bundle.bundle ps) a := bundle_expIsMatrixExpAt ps a h

/-- `exp (log g) = g` / `log (exp a) = a` for `Bundle.bundle ps` from the parts (induction). -/
theorem exp_log_bundle (ps : List (LieModel ℝ)) (g : Vec ℝ (Bundle.bundle ps).rep)
    (h : BundleAllG (fun G x => G.exp (G.log x) = x) ps g) :
    (Bundle.bundle ps).exp ((Bundle.bundle ps).log g) = g := bundle_exp_log ps g h
theorem log_exp_bundle (ps : List (LieModel ℝ)) (a : Vec ℝ (Bundle.bundle ps).dof)
    (h : BundleAllT (fun G x => G.log (G.exp x) = x) ps a) :
    (Bundle.bundle ps).log ((Bundle.bundle ps).exp a) = a := bundle_log_exp ps a h
/-- non-vacuity: `Bundle<T2, T1>` (every element / tangent vector). -/
example (g : Vec ℝ (Bundle.bundle [(Tn.model 2 : LieModel ℝ), Tn.model 1]).rep) :
    BundleAllG (fun G x => G.exp (G.log x) = x) [(Tn.model 2 : LieModel ℝ), Tn.model 1] g :=
  ⟨rfl, rfl, trivial⟩
example (a : Vec ℝ (Bundle.bundle [(Tn.model 2 : LieModel ℝ), Tn.model 1]).dof) :
    BundleAllT (fun G x => G.log (G.exp x) = x) [(Tn.model 2 : LieModel ℝ), Tn.model 1] a :=
  ⟨rfl, rfl, trivial⟩

/-- the parts of `log g` are the `log`s of the parts: any per-part property of the logarithm
(in particular "rotation norm ≤ π") lifts to `Bundle.bundle ps`. -/
theorem log_property_bundle (Q : (G : LieModel ℝ) → Vec ℝ G.dof → Prop) (ps : List (LieModel ℝ))
    (g : Vec ℝ (Bundle.bundle ps).rep) (h : BundleAllG (fun G x => Q G (G.log x)) ps g) :
    BundleAllT Q ps ((Bundle.bundle ps).log g) := bundle_log_all Q ps g h
example (g : Vec ℝ (Bundle.bundle [(Tn.model 2 : LieModel ℝ)]).rep) :
    BundleAllG (fun G x => (fun _ _ => True) G (G.log x)) [(Tn.model 2 : LieModel ℝ)] g :=
  ⟨trivial, trivial⟩

/-! ## F. Summary of the uniformity clause -/


/-
  End-to-end "either side of the switch" bounds proved above, for EVERY tangent vector `a`
  (exact arithmetic; entrywise, i.e. in the max-entry norm; `M` any bound on `‖a‖∞`):
    SO2, C1, Tn            exact                      exp_is_matrix_exp_{SO2,C1,Tn}
    SO3                    ≤ 1e-22                    exp_is_matrix_exp_uniform_SO3
    SE2                    ≤ 1e-18·(|x| + |y|)        exp_is_matrix_exp_uniform_SE2
    SE3, SE_K_3 (every K)  ≤ 1e-20·(1 + M)            exp_is_matrix_exp_uniform_{SE3,SEK3}
    Galilei                ≤ 1e-20·(1 + M)²           exp_is_matrix_exp_uniform_Galilei
    Bundle                 blockwise from the parts   exp_bdiag_is_bdiag_exp, …_bundle_pointwise
  (Galilei: the entries of the true exponential contain `τ·b/2`, bilinear in `a`, so the
  relative bound is quadratic in `1 + M`.)
-/

end C02
