/-
  C13 — BSpline is a C^(K−1), local, left-equivariant curve (property theorems).

  Model: SmoothModel/BSpline.lean (`t_min`, `t_max`, `select`, `window`, `eval`) on top of
  SmoothModel/CSpline.lean, tied to spline/detail/bspline_impl.hpp by harness/cspline.cpp (T1).
  Times are real numbers; the quotient `(t−t0)/dt` is clamped to `[−1, N]` before the `int64_t` cast
  (truncation toward zero), so the cast stays in range for every `t` (`raw_index_bounded`).
-/
import SmoothProofs.C13Base
import SmoothProofs.C11Model
import SmoothProofs.C13Knot
import SmoothProofs.C13Cont
import SmoothProofs.C13Table
import SmoothProofs.C13Dumped
import SmoothProofs.C13DumpedAcc
import Mathlib.Data.List.GetD
import Mathlib.Tactic.Group

open Lin Scalar

namespace C13

/-! ## index arithmetic -/

/-- **No out-of-range read.**  In every branch, for every scalar type (ℝ and the executable
    floats), every `t`, `t0`, `dt`: the window `istar … istar+K` lies inside the `N ≥ K+1`
    control points. -/
theorem window_in_bounds {α : Type} [Scalar α] [ScalarTrunc α] (K N : Nat) (hN : K + 1 ≤ N) (t0 dt t : α) :
    0 ≤ (BSpline.select K N t0 dt t).1 ∧ (BSpline.select K N t0 dt t).1 + K + 1 ≤ N := by
  refine ⟨Nat.zero_le _, ?_⟩
  unfold BSpline.select
  simp only
  split_ifs with h1 h2
  · simpa using hN
  · show N - K - 1 + K + 1 ≤ N; omega
  · show (BSpline.rawIndex N t0 dt t).toNat + K + 1 ≤ N; omega

/-- `u ∈ [0,1]` in every branch -/
theorem u_in_unit_interval (K N : Nat) (t0 dt t : ℝ) :
    0 ≤ (BSpline.select K N t0 dt t).2 ∧ (BSpline.select K N t0 dt t).2 ≤ 1 := by
  unfold BSpline.select
  simp only
  split_ifs with h1 h2
  · simp
  · simp
  · simp only [Scalar.nat_real, Nat.cast_zero, Nat.cast_one]; exact clamp_mem _

/-- **The `int64_t` cast never overflows**: for every real `t` (arbitrarily far outside the range)
    the truncated, clamped quotient lies in `[−1, N]`. -/
theorem raw_index_bounded (N : Nat) (t0 dt t : ℝ) :
    -1 ≤ BSpline.rawIndex N t0 dt t ∧ BSpline.rawIndex N t0 dt t ≤ N :=
  rawIndex_bounds N t0 dt t

/-- below (or at) `t_min` the curve is evaluated at `(istar, u) = (0, 0)` -/
theorem select_below (K N : Nat) (hN : K + 1 ≤ N) (t0 dt t : ℝ) (hdt : 0 < dt) (ht : t ≤ BSpline.t_min t0) :
    BSpline.select K N t0 dt t = (0, 0) := by
  have hx : (t - t0) / dt ≤ 0 := div_nonpos_of_nonpos_of_nonneg (by unfold BSpline.t_min at ht; linarith) hdt.le
  have hq := rawIndex_nonpos (N := N) hx
  rw [select_eq]
  generalize BSpline.rawIndex N t0 dt t = q at hq
  split_ifs with h1 h2
  · rfl
  · exfalso; omega
  · have h0 : q = 0 := by omega
    subst h0
    simp only [Int.toNat_zero, Nat.cast_zero, zero_mul, sub_zero]
    rw [clamp_of_nonpos hx]

/-- at or above `t_max = t0 + (N−K)·dt` the curve is evaluated at `(N−K−1, 1)` -/
theorem select_above (K N : Nat) (hN : K + 1 ≤ N) (t0 dt t : ℝ) (hdt : 0 < dt) (ht : BSpline.t_max K N t0 dt ≤ t) :
    BSpline.select K N t0 dt t = (N - K - 1, 1) := by
  have hx : ((N - K : Nat) : ℝ) ≤ (t - t0) / dt := by
    rw [le_div_iff₀ hdt]
    unfold BSpline.t_max at ht
    simp only [Scalar.nat_real] at ht
    linarith
  have hq := le_rawIndex (N := N) (t0 := t0) (dt := dt) (t := t) (Nat.sub_le N K) hx
  rw [select_eq]
  generalize BSpline.rawIndex N t0 dt t = q at hq
  split_ifs with h1 h2
  · exfalso; omega
  · rfl
  · exfalso; omega

/-- **Outside the range the end values are returned**: for `t ≤ t_min` the result is the one at
    `t_min`, for `t ≥ t_max` the one at `t_max` (value, velocity and acceleration). -/
theorem outside_range (G : LieModel ℝ) (K : Nat) (Bcum : Mat ℝ (K + 1) (K + 1)) (t0 dt : ℝ) (hdt : 0 < dt)
    (ctrl : List (Vec ℝ G.rep)) (hN : K + 1 ≤ ctrl.length) (t : ℝ) :
    (t ≤ BSpline.t_min t0 → BSpline.eval G K Bcum t0 dt ctrl t = BSpline.eval G K Bcum t0 dt ctrl (BSpline.t_min t0)) ∧
    (BSpline.t_max K ctrl.length t0 dt ≤ t →
      BSpline.eval G K Bcum t0 dt ctrl t = BSpline.eval G K Bcum t0 dt ctrl (BSpline.t_max K ctrl.length t0 dt)) := by
  constructor
  · intro ht
    unfold BSpline.eval
    rw [select_below K _ hN t0 dt t hdt ht, select_below K _ hN t0 dt _ hdt (le_refl _)]
  · intro ht
    unfold BSpline.eval
    rw [select_above K _ hN t0 dt t hdt ht, select_above K _ hN t0 dt _ hdt (le_refl _)]

/-- **Inside**: `t = t0 + (i+u)·dt` with `0 ≤ u < 1` and `i + K + 1 ≤ N` selects interval `i` and
    local parameter `u` -/
theorem inside (K N : Nat) (t0 dt : ℝ) (hdt : 0 < dt) (i : Nat) (u : ℝ) (hu0 : 0 ≤ u) (hu1 : u < 1)
    (hi : i + K + 1 ≤ N) :
    BSpline.select K N t0 dt (t0 + ((i : ℝ) + u) * dt) = (i, u) := by
  have hx : (t0 + ((i : ℝ) + u) * dt - t0) / dt = (i : ℝ) + u := by
    field_simp; ring
  have hN : (i : ℝ) + u ≤ (N : ℝ) := by
    have : ((i + K + 1 : Nat) : ℝ) ≤ (N : ℝ) := by exact_mod_cast hi
    push_cast at this
    have hK : (0 : ℝ) ≤ (K : ℝ) := Nat.cast_nonneg K
    linarith
  have hq : BSpline.rawIndex N t0 dt (t0 + ((i : ℝ) + u) * dt) = (i : Int) := by
    rw [rawIndex_of_mem (by rw [hx]; positivity) (by rw [hx]; exact hN), hx, Int.floor_eq_iff]
    constructor
    · push_cast; linarith
    · push_cast; linarith
  rw [select_eq, hq]
  split_ifs with h1 h2
  · exfalso; omega
  · exfalso; omega
  · simp only [Int.toNat_natCast]
    congr 1
    have : (t0 + ((i : ℝ) + u) * dt - t0 - (i : ℝ) * dt) / dt = u := by field_simp; ring
    rw [this, clamp_of_mem hu0 hu1.le]

/-- non-vacuity of `inside`/`select_above`: `K = 3`, `N = 7`, `t0 = −2`, `dt = 1/2`, `i = 2`, `u = 1/4` -/
example : BSpline.select 3 7 (-2 : ℝ) (1/2) (-2 + ((2 : Nat) + 1/4) * (1/2)) = (2, 1/4) :=
  inside 3 7 (-2) (1/2) (by norm_num) 2 (1/4) (by norm_num) (by norm_num) (by norm_num)

/-! ## range and derivative scaling -/

/-- `[t_min, t_max] = [t0, t0 + (N−K)·dt]` -/
theorem range_formula (K N : Nat) (hN : K ≤ N) (t0 dt : ℝ) :
    BSpline.t_min t0 = t0 ∧ BSpline.t_max K N t0 dt = t0 + ((N : ℝ) - (K : ℝ)) * dt := by
  refine ⟨rfl, ?_⟩
  unfold BSpline.t_max
  simp only [Scalar.nat_real, Nat.cast_sub hN]

/-- **Velocity and acceleration are the `t`-derivatives of the cumulative curve**: on interval
    `istar` the local parameter is `u = (t − t0)/dt − istar`, `du/dt = 1/dt`, and the outputs are the
    `u`-body-velocity of `cspline_eval_gs` divided by `dt`, the `u`-body-acceleration divided by
    `dt²` (C11 `velocity_acceleration_jerk_recursion` identifies those with `g⁻¹ dg/du`,
    `d/du (g⁻¹ dg/du)`). -/
theorem derivatives_are_scaled_body_derivatives (G : LieModel ℝ) (K : Nat) (Bcum : Mat ℝ (K + 1) (K + 1))
    (t0 dt : ℝ) (ctrl : List (Vec ℝ G.rep)) (t : ℝ) :
    let sel := BSpline.select K ctrl.length t0 dt t
    let s := CSpline.eval_gs G (BSpline.window G.identity K ctrl sel.1) Bcum sel.2
    let o := BSpline.eval G K Bcum t0 dt ctrl t
    o.g = s.g ∧ (∀ i, o.vel i = s.vel i / dt) ∧ (∀ i, o.acc i = s.acc i / (dt * dt)) := by
  intro sel s o
  exact ⟨rfl, fun _ => rfl, fun _ => rfl⟩


/-! ## locality -/

/-- on `[t_min, t_max]` the selected interval `i` contains `t`: `t0 + i·dt ≤ t ≤ t0 + (i+1)·dt` -/
theorem select_support (K N : Nat) (hN : K + 1 ≤ N) (t0 dt t : ℝ) (hdt : 0 < dt)
    (h0 : BSpline.t_min t0 ≤ t) (h1 : t ≤ BSpline.t_max K N t0 dt) :
    t0 + ((BSpline.select K N t0 dt t).1 : ℝ) * dt ≤ t ∧ t ≤ t0 + (((BSpline.select K N t0 dt t).1 : ℝ) + 1) * dt := by
  unfold BSpline.t_min at h0
  unfold BSpline.t_max at h1
  simp only [Scalar.nat_real] at h1
  have hx0 : 0 ≤ (t - t0) / dt := div_nonneg (by linarith) hdt.le
  have hxle : (t - t0) / dt ≤ ((N - K : Nat) : ℝ) := by rw [div_le_iff₀ hdt]; linarith
  have hqN : (t - t0) / dt ≤ (N : ℝ) := by
    have : ((N - K : Nat) : ℝ) ≤ (N : ℝ) := by exact_mod_cast Nat.sub_le N K
    linarith
  have hq : BSpline.rawIndex N t0 dt t = ⌊(t - t0) / dt⌋ := rawIndex_of_mem hx0 hqN
  have hfl := Int.floor_le ((t - t0) / dt)
  have hlt := Int.lt_floor_add_one ((t - t0) / dt)
  have hfl0 : 0 ≤ ⌊(t - t0) / dt⌋ := Int.floor_nonneg.mpr hx0
  rw [select_eq, hq]
  split_ifs with hb1 hb2
  · exfalso; omega
  · -- the clamp branch is only reached at t = t_max
    have hge : ((N - K : Nat) : Int) ≤ ⌊(t - t0) / dt⌋ := by omega
    have hge' : ((N - K : Nat) : ℝ) ≤ (t - t0) / dt := by
      have : (((N - K : Nat) : Int) : ℝ) ≤ ((⌊(t - t0) / dt⌋ : Int) : ℝ) := by exact_mod_cast hge
      simpa using le_trans this hfl
    have hxeq : (t - t0) / dt = ((N - K : Nat) : ℝ) := le_antisymm hxle hge'
    have ht : t = t0 + ((N - K : Nat) : ℝ) * dt := by
      have := (div_eq_iff hdt.ne').mp hxeq; linarith
    have hNK : ((N - K - 1 : Nat) : ℝ) + 1 = ((N - K : Nat) : ℝ) := by
      have : N - K - 1 + 1 = N - K := by omega
      exact_mod_cast this
    show t0 + ((N - K - 1 : Nat) : ℝ) * dt ≤ t ∧ t ≤ t0 + (((N - K - 1 : Nat) : ℝ) + 1) * dt
    rw [hNK, ht]
    constructor
    · have : ((N - K - 1 : Nat) : ℝ) ≤ ((N - K : Nat) : ℝ) := by rw [← hNK]; linarith
      nlinarith
    · exact le_refl _
  · show t0 + ((⌊(t - t0) / dt⌋.toNat : Nat) : ℝ) * dt ≤ t ∧ t ≤ t0 + (((⌊(t - t0) / dt⌋.toNat : Nat) : ℝ) + 1) * dt
    have hcast : ((⌊(t - t0) / dt⌋.toNat : Nat) : ℝ) = ((⌊(t - t0) / dt⌋ : Int) : ℝ) := by
      have : ((⌊(t - t0) / dt⌋.toNat : Nat) : Int) = ⌊(t - t0) / dt⌋ := Int.toNat_of_nonneg hfl0
      exact_mod_cast this
    rw [hcast]
    constructor
    · have := (le_div_iff₀ hdt).mp hfl; linarith
    · have := (div_lt_iff₀ hdt).mp hlt; linarith

/-- **Local support.**  Replacing control point `m` (any number of changes at index `m` only)
    leaves value, velocity and acceleration at `t ∈ [t_min, t_max]` unchanged unless
    `t ∈ [t0 + (m−K)·dt, t0 + (m+1)·dt]`, i.e. unless `t` lies in one of the knot intervals
    `m−K … m`.  (Outside `[t_min, t_max]` the curve is its end value: `outside_range`.) -/
theorem locality (G : LieModel ℝ) (K : Nat) (Bcum : Mat ℝ (K + 1) (K + 1)) (t0 dt : ℝ) (hdt : 0 < dt)
    (ctrl ctrl' : List (Vec ℝ G.rep)) (hlen : ctrl'.length = ctrl.length) (hN : K + 1 ≤ ctrl.length)
    (m : Nat) (hsame : ∀ j, j ≠ m → ctrl.getD j G.identity = ctrl'.getD j G.identity)
    (t : ℝ) (h0 : BSpline.t_min t0 ≤ t) (h1 : t ≤ BSpline.t_max K ctrl.length t0 dt)
    (hout : ¬ (t0 + ((m : ℝ) - K) * dt ≤ t ∧ t ≤ t0 + ((m : ℝ) + 1) * dt)) :
    BSpline.eval G K Bcum t0 dt ctrl t = BSpline.eval G K Bcum t0 dt ctrl' t := by
  have hs := select_support K ctrl.length hN t0 dt t hdt h0 h1
  simp only [BSpline.eval]
  rw [hlen]
  have hw : BSpline.window G.identity K ctrl (BSpline.select K ctrl.length t0 dt t).1
      = BSpline.window G.identity K ctrl' (BSpline.select K ctrl.length t0 dt t).1 := by
    funext i
    unfold BSpline.window
    apply hsame
    intro hm
    apply hout
    have hi : (i.val : ℝ) ≤ K := by exact_mod_cast Nat.le_of_lt_succ i.isLt
    have hi0 : (0 : ℝ) ≤ (i.val : ℝ) := Nat.cast_nonneg _
    have hmr : (m : ℝ) = ((BSpline.select K ctrl.length t0 dt t).1 : ℝ) + (i.val : ℝ) := by
      rw [← hm]; push_cast; ring
    constructor
    · have : ((m : ℝ) - K) * dt ≤ ((BSpline.select K ctrl.length t0 dt t).1 : ℝ) * dt := by
        apply mul_le_mul_of_nonneg_right _ hdt.le
        rw [hmr]; linarith
      linarith [hs.1]
    · have : (((BSpline.select K ctrl.length t0 dt t).1 : ℝ) + 1) * dt ≤ ((m : ℝ) + 1) * dt := by
        apply mul_le_mul_of_nonneg_right _ hdt.le
        rw [hmr]; linarith
      linarith [hs.2]
  rw [hw]

/-! ## left-equivariance and constants -/

/-- the group law behind equivariance: left multiplication does not change the differences -/
theorem group_difference_invariant {Γ : Type*} [Group Γ] (h g1 g2 : Γ) : (h * g1)⁻¹ * (h * g2) = g1⁻¹ * g2 := by
  group

/-- **Left-equivariance.**  If left multiplication by `h` leaves the differences of the control
    points unchanged (`group_difference_invariant`) and is associative on them, then the curve
    through `h ∘ g_i` is `h ∘` the curve through `g_i`, with the same body velocity and
    acceleration — for every scalar type, every `K`, every `t` (all three branches). -/
theorem left_equivariance {α : Type} [Scalar α] [ScalarTrunc α] (G : LieModel α) (K : Nat)
    (Bcum : Mat α (K + 1) (K + 1)) (t0 dt : α) (ctrl : List (Vec α G.rep)) (hN : K + 1 ≤ ctrl.length)
    (h : Vec α G.rep)
    (hdiff : ∀ a b, a ∈ ctrl → b ∈ ctrl →
      G.rminus (G.composition h b) (G.composition h a) = G.rminus b a)
    (hassoc : ∀ a x, a ∈ ctrl → G.composition (G.composition h a) x = G.composition h (G.composition a x))
    (t : α) :
    BSpline.eval G K Bcum t0 dt (ctrl.map (G.composition h)) t
      = ⟨G.composition h (BSpline.eval G K Bcum t0 dt ctrl t).g,
         (BSpline.eval G K Bcum t0 dt ctrl t).vel, (BSpline.eval G K Bcum t0 dt ctrl t).acc⟩ := by
  have hb := (window_in_bounds K ctrl.length hN t0 dt t).2
  unfold BSpline.eval
  simp only [List.length_map]
  generalize hsel : BSpline.select K ctrl.length t0 dt t = sel at hb
  -- the window of the mapped list is the mapped window (all indices are in range)
  have hidx : ∀ i : Fin (K + 1), sel.1 + i.val < ctrl.length := fun i => by have := i.isLt; omega
  have hw : ∀ i : Fin (K + 1), BSpline.window G.identity K (ctrl.map (G.composition h)) sel.1 i
      = G.composition h (BSpline.window G.identity K ctrl sel.1 i) := by
    intro i
    unfold BSpline.window
    rw [List.getD_eq_getElem _ _ (by rw [List.length_map]; exact hidx i), List.getD_eq_getElem _ _ (hidx i),
      List.getElem_map]
  have hmem : ∀ i : Fin (K + 1), BSpline.window G.identity K ctrl sel.1 i ∈ ctrl := by
    intro i
    unfold BSpline.window
    rw [List.getD_eq_getElem _ _ (hidx i)]
    exact List.getElem_mem _
  have hd : CSpline.diffs G (BSpline.window G.identity K (ctrl.map (G.composition h)) sel.1)
      = CSpline.diffs G (BSpline.window G.identity K ctrl sel.1) := by
    funext i
    unfold CSpline.diffs
    rw [hw, hw, hdiff _ _ (hmem _) (hmem _)]
  unfold CSpline.eval_gs
  simp only [hd, hw, hassoc _ _ (hmem _)]

/-- a vanishing difference contributes nothing: the loop body with `vj = 0` keeps `g` (given
    `exp 0 = 1`, `x ∘ 1 = x`) and maps zero velocity/acceleration/jerk to zero -/
theorem step_zero (G : LieModel ℝ) (hexp0 : G.exp (vzero _) = G.identity)
    (hid : ∀ x, G.composition x G.identity = x) (Bj dBj d2Bj d3Bj : ℝ) (g : Vec ℝ G.rep) :
    CSpline.step G Bj dBj d2Bj d3Bj (vzero _) ⟨g, vzero _, vzero _, vzero _⟩ = ⟨g, vzero _, vzero _, vzero _⟩ := by
  have hv : vsmul Bj (vzero G.dof : Vec ℝ G.dof) = vzero _ := by ext i; simp [vsmul, vzero]
  have hm : ∀ (A : Mat ℝ G.dof G.dof), mulVec A (vzero G.dof : Vec ℝ G.dof) = vzero _ := by
    intro A; ext i; simp [mulVec, vzero, C11.vsum_eq_sum]
  unfold CSpline.step
  simp only [memoV_eq, memoM_eq, hv, hexp0, hid, hm]
  congr 1 <;> ext i <;> simp [vzero]

/-- **Constant reproduction.**  If all control points equal `g` (`rminus g g = 0`, `exp 0 = 1`,
    `x ∘ 1 = x`), the curve is constantly `g` with zero velocity and acceleration, for every `t`. -/
theorem constant_reproduction (G : LieModel ℝ) (K : Nat) (Bcum : Mat ℝ (K + 1) (K + 1)) (t0 dt : ℝ)
    (g : Vec ℝ G.rep) (N : Nat) (hN : K + 1 ≤ N)
    (hlog : G.rminus g g = vzero _) (hexp0 : G.exp (vzero _) = G.identity)
    (hid : ∀ x, G.composition x G.identity = x) (t : ℝ) :
    BSpline.eval G K Bcum t0 dt (List.replicate N g) t = ⟨g, vzero _, vzero _⟩ := by
  have hb := (window_in_bounds K N hN t0 dt t).2
  unfold BSpline.eval
  simp only [List.length_replicate]
  generalize BSpline.select K N t0 dt t = sel at hb
  have hw : BSpline.window G.identity K (List.replicate N g) sel.1 = fun _ => g := by
    funext i
    unfold BSpline.window
    have hi : sel.1 + i.val < (List.replicate N g).length := by
      rw [List.length_replicate]; have := i.isLt; omega
    rw [List.getD_eq_getElem _ _ hi, List.getElem_replicate]
  rw [hw]
  have hd : CSpline.diffs G (fun _ : Fin (K + 1) => g) = fun _ => vzero _ := by
    funext i; unfold CSpline.diffs; exact hlog
  -- the loop keeps ⟨identity, 0, 0, 0⟩
  have hfold : ∀ (l : List (Fin K)) (f : Fin K → ℝ × ℝ × ℝ × ℝ),
      l.foldl (fun s j => CSpline.step G (f j).1 (f j).2.1 (f j).2.2.1 (f j).2.2.2 (vzero _) s)
        (⟨G.identity, vzero _, vzero _, vzero _⟩ : CSpline.St ℝ G) = ⟨G.identity, vzero _, vzero _, vzero _⟩ := by
    intro l f
    induction l with
    | nil => rfl
    | cons a l ih => rw [List.foldl_cons, step_zero G hexp0 hid, ih]
  have hvs : CSpline.eval_vs G (fun _ : Fin K => (vzero G.dof : Vec ℝ G.dof)) Bcum sel.2
      = ⟨G.identity, vzero _, vzero _, vzero _⟩ := by
    unfold CSpline.eval_vs
    simp only [memoV_eq]
    exact hfold _ (fun j => (_, _, _, _))
  unfold CSpline.eval_gs
  simp only [hd, memoV_eq, hvs, hid]
  congr 1 <;> ext i <;> simp [vzero]

/-- non-vacuity of the hypotheses of `constant_reproduction`/`left_equivariance`: translations -/
example : (Tn.model (α := ℝ) 2).rminus (mk2 3 4) (mk2 3 4) = vzero _ ∧
    (Tn.model (α := ℝ) 2).exp (vzero _) = (Tn.model (α := ℝ) 2).identity ∧
    (∀ x, (Tn.model (α := ℝ) 2).composition x (Tn.model (α := ℝ) 2).identity = x) ∧
    (∀ h a b : Vec ℝ 2, (Tn.model (α := ℝ) 2).rminus ((Tn.model (α := ℝ) 2).composition h b)
        ((Tn.model (α := ℝ) 2).composition h a) = (Tn.model (α := ℝ) 2).rminus b a) := by
  refine ⟨?_, rfl, ?_, ?_⟩
  · ext i; simp [LieModel.rminus, Tn.model, Tn.log, Tn.composition, Tn.inverse, vadd, vneg, vzero]
  · intro x; ext i; simp [Tn.model, Tn.composition, Tn.identity, vadd, vzero, Vec.of]
  · intro h a b; ext i
    simp [LieModel.rminus, Tn.model, Tn.log, Tn.composition, Tn.inverse, vadd, vneg]


/-! ## C^(K−1): continuity at the knots, K ≤ 6 -/

/-- the exact cumulative B-spline basis of degree `K` (rational table of the model of
    `polynomial_cumulative_basis<Bspline, K>`) as the basis matrix of the spline model -/
noncomputable abbrev bsplineCum (K : Nat) : Mat ℝ (K + 1) (K + 1) :=
  castTab (Poly.cumulativeBasis (α := Rat) .Bspline K) K

/-- **Basis identities (kernel-checked, exact ℚ)** for `K = 1..6` and every order `d ≤ K−1`:
    `B̃₁^{(d)}(1) = δ_{d0}`, `B̃ⱼ^{(d)}(1) = B̃ⱼ₋₁^{(d)}(0)` (`j = 2..K`), `B̃_K^{(d)}(0) = 0`;
    and they fail at order `d = K`; and the tables dumped from the running implementation satisfy
    them up to `2⁻⁴⁸` and lie within `2⁻⁵⁰` of the exact tables. -/
theorem bspline_knot_identities :
    (∀ K ∈ [1, 2, 3, 4, 5, 6], knotIdent (Poly.cumulativeBasis (α := Rat) .Bspline K) K 0 = true) ∧
    (∀ K ∈ [1, 2, 3, 4, 5, 6], knotIdentAt (Poly.cumulativeBasis (α := Rat) .Bspline K) K K = false) ∧
    (∀ K ∈ [1, 2, 3, 4, 5, 6], knotIdent (Gen.Poly.cumBasis .Bspline K) K (1 / 2 ^ 48) = true) ∧
    (∀ K ∈ [1, 2, 3, 4, 5, 6],
      tabClose (Gen.Poly.cumBasis .Bspline K) (Poly.cumulativeBasis (α := Rat) .Bspline K) (K + 1) (1 / 2 ^ 50) = true) := by
  refine ⟨?_, bspline_order_K_jumps, dumped_bspline_knot_identities, dumped_bspline_close_to_exact⟩
  intro K hK
  simp only [List.mem_cons, List.not_mem_nil, or_false] at hK
  rcases hK with rfl | rfl | rfl | rfl | rfl | rfl
  · exact bspline_knot_identities_1
  · exact bspline_knot_identities_2
  · exact bspline_knot_identities_3
  · exact bspline_knot_identities_4
  · exact bspline_knot_identities_5
  · exact bspline_knot_identities_6

/-- consecutive windows share their differences, shifted by one -/
theorem window_shift_diffs {α : Type} [Scalar α] (G : LieModel α) (ctrl : List (Vec α G.rep)) (i n : Nat) (j : Fin n) :
    CSpline.diffs G (BSpline.window G.identity (n + 1) ctrl i) j.succ
      = CSpline.diffs G (BSpline.window G.identity (n + 1) ctrl (i + 1)) j.castSucc := by
  unfold CSpline.diffs BSpline.window
  simp only [Fin.val_succ, Fin.val_castSucc]
  have e1 : i + (j.val + 1 + 1) = i + 1 + (j.val + 1) := by omega
  have e2 : i + (j.val + 1) = i + 1 + j.val := by omega
  rw [e1, e2]

/-- **Knot continuity of velocity and acceleration, `K = n+1 ≤ 6`.**  With the exact cumulative
    B-spline basis, window `i` at `u = 1` and window `i+1` at `u = 0` give the same velocity when
    `K ≥ 2` and the same acceleration when `K ≥ 3` — for every group model whose `Ad` at
    `exp(0·v)⁻¹` is the identity map, every list of control points, every `i`. -/
theorem knot_continuity (n : Nat) (hK : n + 1 ∈ [1, 2, 3, 4, 5, 6]) (G : LieModel ℝ) (hAd : AdExpZero G)
    (ctrl : List (Vec ℝ G.rep)) (i : Nat) :
    let A := CSpline.eval_gs G (BSpline.window G.identity (n + 1) ctrl i) (bsplineCum (n + 1)) 1
    let B := CSpline.eval_gs G (BSpline.window G.identity (n + 1) ctrl (i + 1)) (bsplineCum (n + 1)) 0
    (1 ≤ n → A.vel = B.vel) ∧ (2 ≤ n → A.acc = B.acc) := by
  intro A B
  have hid := bspline_knot_identities.1 (n + 1) hK
  have hvs := window_shift_diffs G ctrl i n
  have hAv : A.vel = (CSpline.eval_vs G (CSpline.diffs G (BSpline.window G.identity (n + 1) ctrl i)) (bsplineCum (n + 1)) 1).vel := by
    simp only [A, CSpline.eval_gs, memoV_eq]
  have hAa : A.acc = (CSpline.eval_vs G (CSpline.diffs G (BSpline.window G.identity (n + 1) ctrl i)) (bsplineCum (n + 1)) 1).acc := by
    simp only [A, CSpline.eval_gs, memoV_eq]
  have hBv : B.vel = (CSpline.eval_vs G (CSpline.diffs G (BSpline.window G.identity (n + 1) ctrl (i + 1))) (bsplineCum (n + 1)) 0).vel := by
    simp only [B, CSpline.eval_gs, memoV_eq]
  have hBa : B.acc = (CSpline.eval_vs G (CSpline.diffs G (BSpline.window G.identity (n + 1) ctrl (i + 1))) (bsplineCum (n + 1)) 0).acc := by
    simp only [B, CSpline.eval_gs, memoV_eq]
  constructor
  · intro hn
    obtain ⟨_, s0, l0⟩ := jets_of_table hid 0 (by omega)
    obtain ⟨f1, s1, l1⟩ := jets_of_table hid 1 (by omega)
    rw [hAv, hBv]
    exact knot_continuity_vel G _ _ _ hAd hvs (by simpa using f1) (fun j => ⟨s0 j, s1 j⟩) ⟨l0, l1⟩
  · intro hn
    obtain ⟨_, s0, l0⟩ := jets_of_table hid 0 (by omega)
    obtain ⟨f1, s1, l1⟩ := jets_of_table hid 1 (by omega)
    obtain ⟨f2, s2, l2⟩ := jets_of_table hid 2 (by omega)
    rw [hAa, hBa]
    exact knot_continuity_acc G _ _ _ hAd hvs ⟨by simpa using f1, by simpa using f2⟩
      (fun j => ⟨s0 j, s1 j, s2 j⟩) ⟨l0, l1, l2⟩

/-- **Knot continuity of the value, `K = n+1 ≤ 6`**, in an abstract group: with the basis values
    of the exact cumulative B-spline basis at `u = 1` resp. `u = 0`, the cumulative curve through
    `gs i … gs (i+K)` at `u = 1` equals the one through `gs (i+1) … gs (i+1+K)` at `u = 0`
    (`exp(1·log x) = x`, `exp(0·v) = 1`). -/
theorem knot_continuity_of_value (n : Nat) (hK : n + 1 ∈ [1, 2, 3, 4, 5, 6])
    {Γ T : Type*} [Group Γ] (exp : T → Γ) (log : Γ → T) (smul : ℝ → T → T)
    (hexplog : ∀ x, exp (smul 1 (log x)) = x) (hexp0 : ∀ v, exp (smul 0 v) = 1) (gs : Nat → Γ) (i : Nat) :
    let b (u : ℝ) (j : Nat) : ℝ := if h : j < n + 1 then bd (bsplineCum (n + 1)) u 0 ⟨j, h⟩ else 0
    cval exp log smul (b 1) gs i (n + 1) = cval exp log smul (b 0) gs (i + 1) (n + 1) := by
  intro b
  have hid := bspline_knot_identities.1 (n + 1) hK
  obtain ⟨f0, s0, l0⟩ := jets_of_table hid 0 (by omega)
  apply knot_continuity_value exp log smul hexplog hexp0
  · simp only [b, dif_pos (Nat.succ_pos n)]
    simpa using f0
  · intro j hj
    have := s0 ⟨j, hj⟩
    simp only [b, dif_pos (show j + 1 < n + 1 by omega), dif_pos (show j < n + 1 by omega)]
    exact this
  · simp only [b, dif_pos (Nat.lt_succ_self n)]
    exact l0


/-! ## the tables the implementation uses (doubles): continuity up to an explicit error -/

/-- the cumulative B-spline table DUMPED from the running implementation (generated file), as the
    basis matrix of the model -/
noncomputable abbrev dumpedCum (K : Nat) : Mat ℝ (K + 1) (K + 1) :=
  castTab (Gen.Poly.cumBasis .Bspline K) K

/-- **Velocity continuity at the knots for the implementation's own (double) tables, `2 ≤ K ≤ 6`.**
    The dumped tables satisfy the knot identities within `ε = 2⁻⁴⁸` (kernel-checked on every run);
    hence window `i` at `u = 1` and window `i+1` at `u = 0` give velocities that differ by at most
    `errB M L ε β V n (εV) 0 + L ε normB M β V n 0 + ε V` — linear in `ε` — where `M`, `L` bound
    `x ↦ Ad(exp(b v)⁻¹)x` and its dependence on `b` in the sup norm (`AdBounds`), `V` bounds the
    differences and `β` the basis derivatives `|B̃ⱼ'(0)|`. -/
theorem knot_continuity_dumped_tables (n : Nat) (hn : 1 ≤ n) (hK : n + 1 ∈ [1, 2, 3, 4, 5, 6]) (G : LieModel ℝ)
    {M L β V : ℝ} (hAd : AdBounds G M L) (ctrl : List (Vec ℝ G.rep)) (i : Nat)
    (hβ : ∀ j : Fin n, |bd (dumpedCum (n + 1)) 0 1 j.castSucc| ≤ β)
    (hV : ∀ j, ‖(CSpline.diffs G (BSpline.window G.identity (n + 1) ctrl i) j).get‖ ≤ V)
    (hVl : ‖(CSpline.diffs G (BSpline.window G.identity (n + 1) ctrl (i + 1)) (Fin.last n)).get‖ ≤ V) :
    let ε : ℝ := ((1 / 2 ^ 48 : Rat) : ℝ)
    let A := CSpline.eval_gs G (BSpline.window G.identity (n + 1) ctrl i) (dumpedCum (n + 1)) 1
    let B := CSpline.eval_gs G (BSpline.window G.identity (n + 1) ctrl (i + 1)) (dumpedCum (n + 1)) 0
    ‖A.vel.get - B.vel.get‖ ≤ errB M L ε β V n (ε * V) 0 + L * ε * normB M β V n 0 + ε * V := by
  intro ε A B
  have hid := bspline_knot_identities.2.2.1 (n + 1) hK
  have hε : (0 : ℝ) ≤ ε := by simp only [ε]; positivity
  obtain ⟨_, s0, l0⟩ := jets_of_table_tol hid 0 (by omega)
  obtain ⟨f1, s1, l1⟩ := jets_of_table_tol hid 1 (by omega)
  have hAv : A.vel = (CSpline.eval_vs G (CSpline.diffs G (BSpline.window G.identity (n + 1) ctrl i)) (dumpedCum (n + 1)) 1).vel := by
    simp only [A, CSpline.eval_gs, memoV_eq]
  have hBv : B.vel = (CSpline.eval_vs G (CSpline.diffs G (BSpline.window G.identity (n + 1) ctrl (i + 1))) (dumpedCum (n + 1)) 0).vel := by
    simp only [B, CSpline.eval_gs, memoV_eq]
  rw [hAv, hBv]
  have f1' : |bd (dumpedCum (n + 1)) 1 1 (0 : Fin (n + 1))| ≤ ε := by
    have := f1
    simp only [one_ne_zero, if_false, sub_zero] at this
    exact this
  exact knot_continuity_vel_tol G hAd hε _ _ _ (window_shift_diffs G ctrl i n) f1' (fun j => ⟨s0 j, s1 j⟩) ⟨l0, l1⟩ hβ hV hVl

/-- **Acceleration continuity at the knots for the implementation's own (double) tables,
    `3 ≤ K ≤ 6`** (`K ≤ 2` has no continuous acceleration).  The dumped tables satisfy the knot
    identities of EVERY order `d < K` — in particular `d = 2` — within `ε = 2⁻⁴⁸` (kernel-checked on
    every run); hence window `i` at `u = 1` and window `i+1` at `u = 0` give accelerations that
    differ by at most `accJumpBound M L C ε β β₂ V n`, every term of which carries a factor `ε`.
    `M`, `L` as in `knot_continuity_dumped_tables`; `C` bounds the bracket `‖ad(x)v‖ ≤ C‖x‖‖v‖`
    (`adBound`), `V` the differences of the control points, `β`, `β₂` the basis derivatives
    `|B̃ⱼ'(0)|`, `|B̃ⱼ''(0)|`.  (The `t`-acceleration of `BSpline.eval` is this divided by `dt²`:
    `derivatives_are_scaled_body_derivatives`.) -/
theorem knot_continuity_acc_dumped_tables (n : Nat) (hn : 2 ≤ n) (hK : n + 1 ∈ [1, 2, 3, 4, 5, 6]) (G : LieModel ℝ)
    {M L C β β₂ V : ℝ} (hAd : AdBounds G M L) (had : adBound G C) (ctrl : List (Vec ℝ G.rep)) (i : Nat)
    (hβ : ∀ j : Fin n, |bd (dumpedCum (n + 1)) 0 1 j.castSucc| ≤ β)
    (hβ₂ : ∀ j : Fin n, |bd (dumpedCum (n + 1)) 0 2 j.castSucc| ≤ β₂)
    (hV : ∀ j, ‖(CSpline.diffs G (BSpline.window G.identity (n + 1) ctrl i) j).get‖ ≤ V)
    (hVl : ‖(CSpline.diffs G (BSpline.window G.identity (n + 1) ctrl (i + 1)) (Fin.last n)).get‖ ≤ V) :
    let ε : ℝ := ((1 / 2 ^ 48 : Rat) : ℝ)
    let A := CSpline.eval_gs G (BSpline.window G.identity (n + 1) ctrl i) (dumpedCum (n + 1)) 1
    let B := CSpline.eval_gs G (BSpline.window G.identity (n + 1) ctrl (i + 1)) (dumpedCum (n + 1)) 0
    ‖A.acc.get - B.acc.get‖ ≤ accJumpBound M L C ε β β₂ V n := by
  intro ε A B
  have hid := bspline_knot_identities.2.2.1 (n + 1) hK
  have hε : (0 : ℝ) ≤ ε := by simp only [ε]; positivity
  obtain ⟨_, s0, l0⟩ := jets_of_table_tol hid 0 (by omega)
  obtain ⟨f1, s1, l1⟩ := jets_of_table_tol hid 1 (by omega)
  obtain ⟨f2, s2, l2⟩ := jets_of_table_tol hid 2 (by omega)
  have hAa : A.acc = (CSpline.eval_vs G (CSpline.diffs G (BSpline.window G.identity (n + 1) ctrl i)) (dumpedCum (n + 1)) 1).acc := by
    simp only [A, CSpline.eval_gs, memoV_eq]
  have hBa : B.acc = (CSpline.eval_vs G (CSpline.diffs G (BSpline.window G.identity (n + 1) ctrl (i + 1))) (dumpedCum (n + 1)) 0).acc := by
    simp only [B, CSpline.eval_gs, memoV_eq]
  rw [hAa, hBa]
  have f1' : |bd (dumpedCum (n + 1)) 1 1 (0 : Fin (n + 1))| ≤ ε := by
    have := f1
    simp only [one_ne_zero, if_false, sub_zero] at this
    exact this
  have f2' : |bd (dumpedCum (n + 1)) 1 2 (0 : Fin (n + 1))| ≤ ε := by
    have := f2
    simp only [OfNat.ofNat_ne_zero, if_false, sub_zero] at this
    exact this
  exact knot_continuity_acc_tol G hAd had hε _ _ _ (window_shift_diffs G ctrl i n) ⟨f1', f2'⟩
    (fun j => ⟨s0 j, s1 j, s2 j⟩) ⟨l0, l1, l2⟩ hβ hβ₂ hV hVl

/-- in the commutative case (`M = 1`, `L = 0`, `C = 0`) the acceleration bound is `(n+2)·2⁻⁴⁸·V`:
    at most `7·2⁻⁴⁸ ≈ 2.5e-14` times the largest control-point difference for `K ≤ 6` -/
theorem acc_jump_bound_commutative (ε β β₂ V : ℝ) (n : Nat) :
    accJumpBound 1 0 0 ε β β₂ V n = ((n : ℝ) + 2) * (ε * V) := accJumpBound_comm ε β β₂ V n

/-- non-vacuity of `adBound`: translations (`C = 0`, the bracket vanishes) -/
example : adBound (Tn.model (α := ℝ) 3) 0 := by
  have hA : ∀ (x : Vec ℝ (Tn.model (α := ℝ) 3).dof) (v : Fin (Tn.model (α := ℝ) 3).dof → ℝ),
      C11.mv ((Tn.model (α := ℝ) 3).ad x) v = 0 := by
    intro x v
    show C11.mv (mzero 3 3 : Mat ℝ 3 3) v = 0
    exact C11.mv_mzero v
  refine ⟨le_refl _, ?_, ?_⟩
  · intro x v; rw [hA]; simp
  · intro x y v; rw [hA, hA]; simp

/-- non-vacuity of `adBound` for a NON-commutative group: SO(3) with `C = 2` -/
example : adBound (SO3.model (α := ℝ)) 2 := by
  refine ⟨by norm_num, ?_, ?_⟩
  · intro (x : Vec ℝ 3) (v : Vec ℝ 3)
    show ‖C11.mv (SO3.hat x) v.get‖ ≤ _
    rw [pi_norm_le_iff_of_nonneg (by positivity)]
    intro i
    rw [Real.norm_eq_abs]
    exact so3_cross_bound x.get v.get i
  · intro (x : Vec ℝ 3) (y : Vec ℝ 3) (v : Vec ℝ 3)
    show ‖C11.mv (SO3.hat x) v.get - C11.mv (SO3.hat y) v.get‖ ≤ _
    rw [so3_hat_sub, pi_norm_le_iff_of_nonneg (by positivity)]
    intro i
    rw [Real.norm_eq_abs]
    exact so3_cross_bound _ _ i
/-- non-vacuity of `AdBounds`: translations (`M = 1`, `L = 0`); the bound is then `(n+2)·2⁻⁴⁸·V` -/
example : AdBounds (Tn.model (α := ℝ) 3) 1 0 := by
  have hA : ∀ (b : ℝ) (v : Vec ℝ (Tn.model (α := ℝ) 3).dof) (x : Fin (Tn.model (α := ℝ) 3).dof → ℝ),
      C11.mv (AdB (Tn.model (α := ℝ) 3) b v) x = x := by
    intro b v x
    show C11.mv (ident 3 : Mat ℝ 3 3) x = x
    exact C11.mv_ident x
  refine ⟨zero_le_one, le_refl _, ?_, ?_, fun v x => hA 0 v x⟩
  · intro b v x; rw [hA, one_mul]
  · intro b b' v x; rw [hA, hA]; simp

/-- non-vacuity of `AdExpZero`: translations -/
example : AdExpZero (Tn.model (α := ℝ) 3) := by
  intro v x
  ext i
  simp [Tn.model, mulVec, C11.vsum_eq_sum, ident, Finset.sum_ite_eq, Vec.of]


end C13
