/-
  SrcTieImpl — WHOLE implementation functions regenerated from the C++ source on every run
  (`SmoothModel/Gen/ImplSrc.lean`, written by tools/gen_src.py → tools/gen_impl.py from
  include/smooth/detail/{so2,c1,tn,se2,so3,se3}.hpp) ARE the hand-written model functions the
  property theorems are about.

  Every statement is over an arbitrary `[Scalar α]` (Float, Float32, ℝ alike) and is proved
  definitionally: `rfl`, or entry by entry (`fin_cases` + `rfl`), after unfolding the model's
  `memoM`/`memoV` (identity, `memoM_eq`) and splitting stuck `if`s.  No arithmetic law of `α` is
  available (α is abstract), so the proofs certify that the expression TREES — operands, signs,
  constants, thresholds, branch conditions and the order of operations — coincide.

  This file: tactics, the manifest of translated functions and the storage-view lemmas.  The ties
  themselves are grouped by the property they support: SrcTieImplC01 (identity, matrix, composition,
  inverse), C02 (exp, log), C03 (Ad, ad, hat, vee), C04 (dr_exp, dr_expinv and their helpers
  calc_S1/S2/S1inv, calculate_q), C05 (d2r_exp, d2r_expinv).
-/
import SmoothModel
import SmoothModel.EigenSem
import SmoothModel.Gen.ImplSrc
import Mathlib.Tactic.FinCases
import Mathlib.Data.Fintype.Basic
import Mathlib.Data.Fin.Basic
import Mathlib.Tactic.SplitIfs

open Scalar Lin EigenSem

namespace SrcTieImpl
variable {α : Type} [Scalar α]

/-- vector equality entry by entry, each entry by `rfl` -/
macro "tie_vec" : tactic =>
  `(tactic| (intros; apply Vec.ext'; intro i; fin_cases i <;> rfl))
/-- matrix equality entry by entry, each entry by `rfl` -/
macro "tie_mat" : tactic =>
  `(tactic| (intros; apply Mat.ext'; intro i j; fin_cases i <;> fin_cases j <;> rfl))
theorem manifest_eq : ImplSrc.manifest =
    ["SO2.setIdentity", "SO2.matrix", "SO2.composition", "SO2.inverse", "SO2.log", "SO2.exp", "SO2.hat",
     "SO2.vee",
     "C1.setIdentity", "C1.matrix", "C1.composition", "C1.inverse", "C1.log", "C1.exp", "C1.hat", "C1.vee",
     "Tn.setIdentity", "Tn.matrix", "Tn.composition", "Tn.inverse", "Tn.log", "Tn.exp", "Tn.hat", "Tn.vee",
     "Tn.ad",
     "SE2.setIdentity", "SE2.matrix", "SE2.composition", "SE2.inverse", "SE2.log", "SE2.Ad", "SE2.exp",
     "SE2.hat", "SE2.vee", "SE2.ad", "SE2.dr_exp", "SE2.dr_expinv", "SE2.d2r_exp", "SE2.d2r_expinv",
     "SO3.calc_S1", "SO3.calc_S2", "SO3.calc_S1inv", "SO3.setIdentity", "SO3.matrix", "SO3.composition",
     "SO3.inverse", "SO3.log", "SO3.Ad", "SO3.exp", "SO3.hat", "SO3.vee", "SO3.ad", "SO3.dr_exp",
     "SO3.dr_expinv", "SO3.d2r_exp", "SO3.d2r_expinv",
     "SE3.setIdentity", "SE3.matrix", "SE3.composition", "SE3.inverse", "SE3.log", "SE3.Ad", "SE3.exp",
     "SE3.hat", "SE3.vee", "SE3.ad", "SE3.calculate_q", "SE3.dr_exp", "SE3.dr_expinv"] := rfl
theorem notTranslated_eq : ImplSrc.notTranslated =
    ["SO2.setRandom", "C1.setRandom", "Tn.setRandom", "SE2.setRandom", "SO3.setRandom", "SE3.setRandom",
     "SE3.calculate_Q_dQ", "SE3.d2r_exp", "SE3.d2r_expinv"] := rfl
omit [Scalar α] in
theorem tail4_so3 (g : Vec α 7) : tail 4 g = SE3.so3 g := by tie_vec
omit [Scalar α] in
theorem head3_r3 (g : Vec α 7) : head 3 g = SE3.r3 g := by tie_vec
omit [Scalar α] in
theorem tail3_tw (a : Vec α 6) : tail 3 a = SE3.tw a := by tie_vec
omit [Scalar α] in
theorem head3_tv (a : Vec α 6) : head 3 a = SE3.tv a := by tie_vec
omit [Scalar α] in
theorem tail3_setSegment (v : Vec α 6) (w : Vec α 3) : tail 3 (setSegment v 3 w) = w := by tie_vec
omit [Scalar α] in
theorem tail4_setSegment (v : Vec α 7) (w : Vec α 4) : tail 4 (setSegment v 3 w) = w := by tie_vec
omit [Scalar α] in
theorem block00_setBlock (A : Mat α 6 6) (J : Mat α 3 3) : blockM 3 3 0 0 (setBlock A 0 0 J) = J := by
  tie_mat

end SrcTieImpl
