/-
  SrcTieImpl — WHOLE implementation functions regenerated from the C++ source on every run
  (`SmoothModel/Gen/ImplSrc.lean`, written by tools/gen_src.py → tools/gen_impl.py from
  include/smooth/detail/{so2,c1,tn,se2,so3,se3,galilei,se_k_3}.hpp) ARE the hand-written model functions
  the property theorems are about.  TnImpl<N> and SE_K_3Impl<K> are tied for a symbolic dimension (every
  `n`, every `k`); the loops over `K` are handled by induction (section `loops` below).

  Every statement is over an arbitrary `[Scalar α]` (Float, Float32, ℝ alike) and is proved
  definitionally: `rfl`, or entry by entry (`fin_cases` + `rfl`), after unfolding the model's
  `memoM`/`memoV` (identity, `memoM_eq`) and splitting stuck `if`s.  No arithmetic law of `α` is
  available (α is abstract), so the proofs certify that the expression TREES — operands, signs,
  constants, thresholds, branch conditions and the order of operations — coincide.

  This file: tactics, the manifest of translated functions and the storage-view lemmas.  The ties
  themselves are grouped by the property they support: SrcTieImplC01 (identity, matrix, composition,
  inverse), C02 (exp, log), C03 (Ad, ad, hat, vee), C04 (dr_exp, dr_expinv and their helpers
  calc_S1/S2/S1inv, calculate_q), C05 (d2r_exp, d2r_expinv).
-/
import SmoothModel
import SmoothModel.EigenSem
import SmoothModel.Gen.ImplSrc
import SmoothModel.Gen.BaseSrc
import Mathlib.Tactic.FinCases
import Mathlib.Data.Fintype.Basic
import Mathlib.Data.Fin.Basic
import Mathlib.Tactic.SplitIfs

open Scalar Lin EigenSem

set_option linter.unusedSectionVars false
namespace SrcTieImpl
variable {α : Type} [Scalar α]

/-- vector equality entry by entry, each entry by `rfl` -/
macro "tie_vec" : tactic =>
  `(tactic| (intros; apply Vec.ext'; intro i; fin_cases i <;> rfl))
/-- matrix equality entry by entry, each entry by `rfl` -/
macro "tie_mat" : tactic =>
  `(tactic| (intros; apply Mat.ext'; intro i j; fin_cases i <;> fin_cases j <;> rfl))
theorem manifest_eq : ImplSrc.manifest =
    ["SO2.setIdentity", "SO2.matrix", "SO2.composition", "SO2.inverse", "SO2.log", "SO2.exp", "SO2.hat",
     "SO2.vee",
     "C1.setIdentity", "C1.matrix", "C1.composition", "C1.inverse", "C1.log", "C1.exp", "C1.hat", "C1.vee",
     "Tn.setIdentity", "Tn.matrix", "Tn.composition", "Tn.inverse", "Tn.log", "Tn.exp", "Tn.hat", "Tn.vee",
     "Tn.ad",
     "SE2.setIdentity", "SE2.matrix", "SE2.composition", "SE2.inverse", "SE2.log", "SE2.Ad", "SE2.exp",
     "SE2.hat", "SE2.vee", "SE2.ad", "SE2.dr_exp", "SE2.dr_expinv", "SE2.d2r_exp", "SE2.d2r_expinv",
     "SO3.calc_S1", "SO3.calc_S2", "SO3.calc_S1inv", "SO3.setIdentity", "SO3.matrix", "SO3.composition",
     "SO3.inverse", "SO3.log", "SO3.Ad", "SO3.exp", "SO3.hat", "SO3.vee", "SO3.ad", "SO3.dr_exp",
     "SO3.dr_expinv", "SO3.d2r_exp", "SO3.d2r_expinv",
     "SE3.setIdentity", "SE3.matrix", "SE3.composition", "SE3.inverse", "SE3.log", "SE3.Ad", "SE3.exp",
     "SE3.hat", "SE3.vee", "SE3.ad", "SE3.calculate_q", "SE3.calculate_Q_dQ", "SE3.dr_exp", "SE3.dr_expinv",
     "SE3.d2r_exp", "SE3.d2r_expinv",
     "Galilei.setIdentity", "Galilei.matrix", "Galilei.composition", "Galilei.inverse", "Galilei.log",
     "Galilei.Ad", "Galilei.exp", "Galilei.hat", "Galilei.vee", "Galilei.ad", "Galilei.calculate_r",
     "Galilei.dr_exp", "Galilei.dr_expinv",
     "SEK3.setIdentity", "SEK3.matrix", "SEK3.composition", "SEK3.inverse", "SEK3.log", "SEK3.Ad",
     "SEK3.exp", "SEK3.hat", "SEK3.vee", "SEK3.ad", "SEK3.calculate_q", "SEK3.dr_exp",
     "SEK3.dr_expinv"] := rfl
theorem notTranslated_eq : ImplSrc.notTranslated =
    ["SO2.setRandom", "C1.setRandom", "Tn.setRandom", "SE2.setRandom", "SO3.setRandom", "SE3.setRandom",
     "Galilei.setRandom", "SEK3.setRandom"] := rfl
omit [Scalar α] in
theorem tail4_so3 (g : Vec α 7) : tail 4 g = SE3.so3 g := by tie_vec
omit [Scalar α] in
theorem head3_r3 (g : Vec α 7) : head 3 g = SE3.r3 g := by tie_vec
omit [Scalar α] in
theorem tail3_tw (a : Vec α 6) : tail 3 a = SE3.tw a := by tie_vec
omit [Scalar α] in
theorem head3_tv (a : Vec α 6) : head 3 a = SE3.tv a := by tie_vec
omit [Scalar α] in
theorem tail3_setSegment (v : Vec α 6) (w : Vec α 3) : tail 3 (setSegment v 3 w) = w := by tie_vec
omit [Scalar α] in
theorem tail4_setSegment (v : Vec α 7) (w : Vec α 4) : tail 4 (setSegment v 3 w) = w := by tie_vec
omit [Scalar α] in
theorem block00_setBlock (A : Mat α 6 6) (J : Mat α 3 3) : blockM 3 3 0 0 (setBlock A 0 0 J) = J := by
  tie_mat

/-! ### storage views of Galilei (group `v p τ q`, tangent `b q s Ω`) -/
omit [Scalar α] in
theorem gal_tail4 (g : Vec α 11) : tail 4 g = Galilei.gq g := by tie_vec
omit [Scalar α] in
theorem gal_tail3 (a : Vec α 10) : tail 3 a = Galilei.tw a := by tie_vec
omit [Scalar α] in
theorem gal_head3 (a : Vec α 10) : head 3 a = Galilei.tb a := by tie_vec
omit [Scalar α] in
theorem gal_seg3 (a : Vec α 10) : segment 3 3 a = Galilei.tq a := by tie_vec
omit [Scalar α] in
theorem gal_tail3_set (v : Vec α 10) (w : Vec α 3) : tail 3 (setSegment v 7 w) = w := by tie_vec

/-! ### loops over the symbolic template parameter `K` of `SE_K_3Impl<Scalar, K>` (`EigenSem.forLoop`)
The ties of SE_K(3) hold for EVERY `k`: the loop of the source is kept as a loop by the translator and is
related to the closed forms of the hand model (`SEK3.mkG`, `SEK3.mkT`, `SEK3.ofBlocks`) by induction over
the iterations.  Only index arithmetic (`omega`) is used; entries of `α` are never rewritten. -/
section loops
variable {σ : Type}

theorem forLoop_induct (K : Nat) (body : (i : Nat) → i < K → σ → σ) (init : σ)
    (P : (j : Nat) → j ≤ K → σ → Prop) (h0 : P 0 (Nat.zero_le K) init)
    (hs : ∀ j (hj : j < K) s, P j (Nat.le_of_lt hj) s → P (j + 1) hj (body j hj s)) :
    P K (Nat.le_refl K) (forLoop K body init) := by
  have key : ∀ j (h : j ≤ K), P j h (forLoopAux K body init j h) := by
    intro j
    induction j with
    | zero => intro _; exact h0
    | succ j ih => intro h; exact hs j h _ (ih (Nat.le_of_lt h))
  exact key K (Nat.le_refl K)
end loops

omit [Scalar α] in
theorem loop_congr {k : Nat} (w : (i : Nat) → i < k → Vec α 3) {i i' : Nat} (hi : i < k) (hi' : i' < k)
    (e : i = i') {r r' : Nat} (hr : r < 3) (hr' : r' < 3) (er : r = r') :
    w i hi ⟨r, hr⟩ = w i' hi' ⟨r', hr'⟩ := by subst e; subst er; rfl

omit [Scalar α] in
theorem forLoop_setSegment_get {n k : Nat} (w : (i : Nat) → i < k → Vec α 3)
    (init : Vec α n) (idx : Fin n) :
    (forLoop k (fun i hi v => setSegment v (3 * i) (w i hi)) init) idx =
      if h : idx.val < 3 * k then w (idx.val / 3) (by omega) ⟨idx.val % 3, Nat.mod_lt _ (by decide)⟩
      else init idx := by
  refine forLoop_induct k _ init
    (fun j hj s => ∀ idx : Fin n, s idx = if h : idx.val < 3 * j then
        w (idx.val / 3) (by omega) ⟨idx.val % 3, Nat.mod_lt _ (by decide)⟩ else init idx) ?_ ?_ idx
  · intro idx
    rw [dif_neg (by omega)]
  · intro j hj s ih idx
    simp only [setSegment, Vec.of]
    by_cases h1 : 3 * j ≤ idx.val ∧ idx.val < 3 * j + 3
    · rw [dif_pos h1, dif_pos (by omega)]
      exact loop_congr w _ _ (by omega) _ _ (by omega)
    · rw [dif_neg h1, ih idx]
      by_cases h2 : idx.val < 3 * j
      · rw [dif_pos h2, dif_pos (by omega)]
      · rw [dif_neg h2, dif_neg (by omega)]

omit [Scalar α] in
theorem seg_gq {k : Nat} (g : Vec α (4 + 3 * k)) : segment 4 (3 * k) g = SEK3.gq k g := rfl

omit [Scalar α] in
theorem seg_tw {k : Nat} (a : Vec α (3 + 3 * k)) : segment 3 (3 * k) a = SEK3.tw k a := rfl

omit [Scalar α] in
/-- a loop writing the `k` leading 3-segments, on top of a state whose last 4 entries are `q`, is `mkG` -/
theorem forLoop_mkG {k : Nat} (w : (i : Nat) → i < k → Vec α 3) (init : Vec α (4 + 3 * k)) (q : Vec α 4)
    (hq : ∀ r : Fin 4, init ⟨3 * k + r.val, by omega⟩ = q r) :
    forLoop k (fun i hi v => setSegment v (3 * i) (w i hi)) init = SEK3.mkG k (fun i => w i.val i.isLt) q := by
  apply Vec.ext'; intro idx
  rw [forLoop_setSegment_get]
  simp only [SEK3.mkG, Vec.of]
  by_cases h : idx.val < 3 * k
  · rw [dif_pos h, dif_pos h]
  · rw [dif_neg h, dif_neg h]
    have := hq ⟨idx.val - 3 * k, by omega⟩
    rw [← this]
    congr 1; apply Fin.ext; simp only []; omega

omit [Scalar α] in
theorem forLoop_mkT {k : Nat} (w : (i : Nat) → i < k → Vec α 3) (init : Vec α (3 + 3 * k)) (q : Vec α 3)
    (hq : ∀ r : Fin 3, init ⟨3 * k + r.val, by omega⟩ = q r) :
    forLoop k (fun i hi v => setSegment v (3 * i) (w i hi)) init = SEK3.mkT k (fun i => w i.val i.isLt) q := by
  apply Vec.ext'; intro idx
  rw [forLoop_setSegment_get]
  simp only [SEK3.mkT, Vec.of]
  by_cases h : idx.val < 3 * k
  · rw [dif_pos h, dif_pos h]
  · rw [dif_neg h, dif_neg h]
    have := hq ⟨idx.val - 3 * k, by omega⟩
    rw [← this]
    congr 1; apply Fin.ext; simp only []; omega

omit [Scalar α] in
theorem setSegment_hi {n m : Nat} (v : Vec α n) (off : Nat) (w : Vec α m) (r : Fin m) (h : off + r.val < n) :
    (setSegment v off w) ⟨off + r.val, h⟩ = w r := by
  simp only [setSegment, Vec.of]
  rw [dif_pos (by omega)]
  congr 1; apply Fin.ext; simp only []; omega

omit [Scalar α] in
/-- entry of `mkG` in the leading part / in the quaternion part -/
theorem mkG_lo {k : Nat} (p : Fin k → Vec α 3) (q : Vec α 4) (idx : Fin (4 + 3 * k)) (h : idx.val < 3 * k) :
    SEK3.mkG k p q idx = p ⟨idx.val / 3, by omega⟩ ⟨idx.val % 3, Nat.mod_lt _ (by decide)⟩ := by
  simp only [SEK3.mkG, Vec.of]; rw [dif_pos h]

omit [Scalar α] in
theorem mkG_hi {k : Nat} (p : Fin k → Vec α 3) (q : Vec α 4) (idx : Fin (4 + 3 * k)) (h : ¬ idx.val < 3 * k) :
    SEK3.mkG k p q idx = q ⟨idx.val - 3 * k, by omega⟩ := by
  simp only [SEK3.mkG, Vec.of]; rw [dif_neg h]

omit [Scalar α] in
theorem forLoop_setBlockCol_get {n m k : Nat} (w : (i : Nat) → i < k → Vec α 3) (init : Mat α n m)
    (r : Fin n) (c : Fin m) :
    (forLoop k (fun i hi M => setBlockCol M 0 (3 + i) (w i hi)) init) r c =
      if h : r.val < 3 ∧ 3 ≤ c.val ∧ c.val < 3 + k then w (c.val - 3) (by omega) ⟨r.val, h.1⟩
      else init r c := by
  refine forLoop_induct k _ init
    (fun j hj s => ∀ (r : Fin n) (c : Fin m), s r c = if h : r.val < 3 ∧ 3 ≤ c.val ∧ c.val < 3 + j then
        w (c.val - 3) (by omega) ⟨r.val, h.1⟩ else init r c) ?_ ?_ r c
  · intro r c
    rw [dif_neg (by omega)]
  · intro j hj s ih r c
    simp only [setBlockCol, Mat.of]
    by_cases h1 : (0 ≤ r.val ∧ r.val < 0 + 3) ∧ c.val = 3 + j
    · rw [dif_pos h1, dif_pos (by omega)]
      exact loop_congr w _ _ (by omega) _ _ (by omega)
    · rw [dif_neg h1, ih r c]
      by_cases h2 : r.val < 3 ∧ 3 ≤ c.val ∧ c.val < 3 + j
      · rw [dif_pos h2, dif_pos (by omega)]
      · rw [dif_neg h2, dif_neg (by omega)]

omit [Scalar α] in
theorem blockM_setBlock_same {n m : Nat} (M : Mat α n m) (r0 c0 : Nat) (B : Mat α 3 3) (hr : r0 + 3 ≤ n)
    (hc : c0 + 3 ≤ m) : blockM 3 3 r0 c0 (setBlock M r0 c0 B) hr hc = B := by
  apply Mat.ext'; intro i j
  simp only [blockM, setBlock, Mat.of]
  rw [dif_pos (by omega)]
  congr 1 <;> (apply Fin.ext; simp only []; omega)

omit [Scalar α] in
theorem blockM_setBlock_disj {n m : Nat} (M : Mat α n m) (r0 c0 r1 c1 : Nat) (B : Mat α 3 3) (hr : r0 + 3 ≤ n)
    (hc : c0 + 3 ≤ m) (h : r1 + 3 ≤ r0 ∨ r0 + 3 ≤ r1 ∨ c1 + 3 ≤ c0 ∨ c0 + 3 ≤ c1) :
    blockM 3 3 r0 c0 (setBlock M r1 c1 B) hr hc = blockM 3 3 r0 c0 M hr hc := by
  apply Mat.ext'; intro i j
  simp only [blockM, setBlock, Mat.of]
  rw [dif_neg (by omega)]

omit [Scalar α] in
theorem setBlock_setBlock_same {n m : Nat} (M : Mat α n m) (r0 c0 : Nat) (A B : Mat α 3 3) :
    setBlock (setBlock M r0 c0 A) r0 c0 B = setBlock M r0 c0 B := by
  apply Mat.ext'; intro i j
  simp only [setBlock, Mat.of]
  split_ifs <;> rfl

omit [Scalar α] in
theorem mat_congr (B : Mat α 3 3) {r r' c c' : Nat} (hr : r < 3) (hr' : r' < 3) (hc : c < 3) (hc' : c' < 3)
    (er : r = r') (ec : c = c') : B ⟨r, hr⟩ ⟨c, hc⟩ = B ⟨r', hr'⟩ ⟨c', hc'⟩ := by subst er; subst ec; rfl

omit [Scalar α] in
theorem loopM_congr {k : Nat} (X : (i : Nat) → i < k → Mat α 3 3) {i i' : Nat} (hi : i < k) (hi' : i' < k)
    (e : i = i') {r r' c c' : Nat} (hr : r < 3) (hr' : r' < 3) (hc : c < 3) (hc' : c' < 3)
    (er : r = r') (ec : c = c') : X i hi ⟨r, hr⟩ ⟨c, hc⟩ = X i' hi' ⟨r', hr'⟩ ⟨c', hc'⟩ := by
  subst e; subst er; subst ec; rfl

/-- the loops of `Ad`, `ad`, `dr_exp`, `dr_expinv` of SE_K(3): starting from `R` in the top-left block of the
    zero matrix, iteration `i` writes `X i` to block `(i, K)` and `R` to the diagonal block `(i+1, i+1)` -/
theorem forLoop_blocks {k : Nat}
    (body : (i : Nat) → i < k → Mat α (3 + 3 * k) (3 + 3 * k) → Mat α (3 + 3 * k) (3 + 3 * k))
    (R : Mat α 3 3) (X : (i : Nat) → i < k → Mat α 3 3)
    (hbody : ∀ i hi M, blockM 3 3 0 0 M = R →
      body i hi M = setBlock (setBlock M (3 * i) (3 * k) (X i hi)) (3 + 3 * i) (3 + 3 * i) R) :
    forLoop k body (setBlock (mzero (3 + 3 * k) (3 + 3 * k)) 0 0 R) =
      SEK3.ofBlocks k (fun bi bj => if bi.val = bj.val then R
        else if h : bj.val = k ∧ bi.val < k then X bi.val h.2 else mzero 3 3) := by
  have key := forLoop_induct k body (setBlock (mzero (3 + 3 * k) (3 + 3 * k)) 0 0 R)
    (fun j hj s => blockM 3 3 0 0 s = R ∧ ∀ (r c : Fin (3 + 3 * k)), s r c =
      if h1 : r.val / 3 = c.val / 3 ∧ r.val / 3 ≤ j then
        R ⟨r.val % 3, Nat.mod_lt _ (by decide)⟩ ⟨c.val % 3, Nat.mod_lt _ (by decide)⟩
      else if h2 : c.val / 3 = k ∧ r.val / 3 < j then
        X (r.val / 3) (by omega) ⟨r.val % 3, Nat.mod_lt _ (by decide)⟩ ⟨c.val % 3, Nat.mod_lt _ (by decide)⟩
      else nat 0) ?_ ?_
  · obtain ⟨_, hk⟩ := key
    apply Mat.ext'; intro r c
    rw [hk r c]
    have hr := r.isLt; have hc := c.isLt
    simp only [SEK3.ofBlocks, Mat.of]
    by_cases h1 : r.val / 3 = c.val / 3
    · rw [dif_pos ⟨h1, by omega⟩, if_pos h1]
    · rw [dif_neg (fun h => h1 h.1), if_neg h1]
      by_cases h2 : c.val / 3 = k ∧ r.val / 3 < k
      · rw [dif_pos h2, dif_pos h2]
      · rw [dif_neg h2, dif_neg h2]; rfl
  · refine ⟨blockM_setBlock_same _ 0 0 R _ _, ?_⟩
    intro r c
    have hr := r.isLt; have hc := c.isLt
    simp only [setBlock, mzero, Mat.of]
    by_cases h1 : r.val / 3 = c.val / 3 ∧ r.val / 3 ≤ 0
    · rw [dif_pos h1, dif_pos (by omega)]
      exact mat_congr R _ _ _ _ (by omega) (by omega)
    · rw [dif_neg h1, dif_neg (by omega), dif_neg (by omega)]
  · intro j hj s ih
    obtain ⟨hR, hs⟩ := ih
    rw [hbody j hj s hR]
    refine ⟨?_, ?_⟩
    · rw [blockM_setBlock_disj _ _ _ _ _ _ _ _ (by omega), blockM_setBlock_disj _ _ _ _ _ _ _ _ (by omega)]
      exact hR
    · intro r c
      have hr := r.isLt; have hc := c.isLt
      simp only [setBlock, Mat.of]
      by_cases hA : (3 + 3 * j ≤ r.val ∧ r.val < 3 + 3 * j + 3) ∧ (3 + 3 * j ≤ c.val ∧ c.val < 3 + 3 * j + 3)
      · rw [dif_pos hA, dif_pos (by omega)]
        exact mat_congr R _ _ _ _ (by omega) (by omega)
      · rw [dif_neg hA]
        by_cases hB : (3 * j ≤ r.val ∧ r.val < 3 * j + 3) ∧ (3 * k ≤ c.val ∧ c.val < 3 * k + 3)
        · rw [dif_pos hB, dif_neg (by omega), dif_pos (by omega)]
          exact loopM_congr X _ _ (by omega) _ _ _ _ (by omega) (by omega)
        · rw [dif_neg hB, hs r c]
          by_cases h1 : r.val / 3 = c.val / 3 ∧ r.val / 3 ≤ j
          · rw [dif_pos h1, dif_pos (by omega)]
          · rw [dif_neg h1]
            by_cases h2 : c.val / 3 = k ∧ r.val / 3 < j
            · rw [dif_pos h2, dif_neg (by omega), dif_pos (by omega)]
            · rw [dif_neg h2, dif_neg (by omega), dif_neg (by omega)]

/-! ### the generic layer (`LieGroupBase`, derivatives_impl.hpp): `SmoothModel/Gen/BaseSrc.lean`
The members of `LieGroupBase<Derived>` are translated into terms over an abstract record of implementation
functions `(I : LieModel α)` (tools/gen_base.py; table of meanings in SmoothModel/BaseSem.lean).  The ties
`base_*`, `derivs_*` (files SrcTieImplC01..C05) say: applied to a model record `G` they ARE `G`'s own fields and
the derived operations of Group.lean / Derivs.lean — for every `G` whose fields carry the
`if constexpr (IsCommutative)` short-cuts (`LieModel.ShortCut`; proved below for the eight group records). -/
theorem base_manifest_eq : BaseSrc.manifest =
    ["setIdentity", "Identity", "matrix", "operator*", "operator*=", "inverse", "log", "Ad", "operator+",
     "operator+=", "operator-", "exp", "hat", "vee", "ad", "lie_bracket", "dr_exp", "dr_expinv", "dl_exp",
     "dl_expinv", "d2r_exp", "d2r_expinv", "d2l_exp", "d2l_expinv",
     "dr_rminus", "d2r_rminus", "dr_rminus_squarednorm", "d2r_rminus_squarednorm"] := rfl
theorem base_pinnedOnly_eq : BaseSrc.pinnedOnly =
    ["derived", "cderived", "LieGroupBase", "using traits", "using Impl", "constexpr is_mutable",
     "constexpr RepSize", "constexpr Dof", "constexpr Dim", "constexpr IsCommutative", "using Scalar",
     "using Matrix", "using Tangent", "using TangentMap", "using Hessian", "using CastT", "using PlainObject",
     "coeffs", "coeffs#2", "data", "data#2", "operator=", "dof", "setRandom", "Random", "isApprox", "cast",
     "d_matrix_product", "d2_fog"] := rfl

/-! the `LieModel` records carry the commutative short-cuts of the base class -/
theorem shortcut_of_noncomm (G : LieModel α) (h : G.comm = false) : G.ShortCut := by
  constructor <;> (intro hc; rw [h] at hc; cases hc)
theorem shortcut_so2 : (SO2.model : LieModel α).ShortCut :=
  ⟨fun _ _ => rfl, fun _ _ => rfl, fun _ _ => rfl, fun _ _ => rfl, fun _ _ => rfl, fun _ _ => rfl⟩
theorem shortcut_c1 : (C1.model : LieModel α).ShortCut :=
  ⟨fun _ _ => rfl, fun _ _ => rfl, fun _ _ => rfl, fun _ _ => rfl, fun _ _ => rfl, fun _ _ => rfl⟩
theorem shortcut_tn {n : Nat} : (Tn.model n : LieModel α).ShortCut :=
  ⟨fun _ _ => rfl, fun _ _ => rfl, fun _ _ => rfl, fun _ _ => rfl, fun _ _ => rfl, fun _ _ => rfl⟩
theorem shortcut_se2 : (SE2.model : LieModel α).ShortCut :=
  shortcut_of_noncomm _ rfl
theorem shortcut_so3 : (SO3.model : LieModel α).ShortCut :=
  shortcut_of_noncomm _ rfl
theorem shortcut_se3 : (SE3.model : LieModel α).ShortCut :=
  shortcut_of_noncomm _ rfl
theorem shortcut_galilei : (Galilei.model : LieModel α).ShortCut :=
  shortcut_of_noncomm _ rfl
theorem shortcut_sek3 {k : Nat} : (SEK3.model k : LieModel α).ShortCut :=
  shortcut_of_noncomm _ rfl

/-! `RepSize`, `Dim`, `Dof`, `IsCommutative` of the Impl classes (parsed from the source) are those of the records -/
theorem consts_so2 : ImplSrc.consts_SO2 = ((SO2.model : LieModel α).rep, (SO2.model : LieModel α).dim, (SO2.model : LieModel α).dof, (SO2.model : LieModel α).comm) := rfl
theorem consts_c1 : ImplSrc.consts_C1 = ((C1.model : LieModel α).rep, (C1.model : LieModel α).dim, (C1.model : LieModel α).dof, (C1.model : LieModel α).comm) := rfl
theorem consts_tn {n : Nat} : ImplSrc.consts_Tn n = ((Tn.model n : LieModel α).rep, (Tn.model n : LieModel α).dim, (Tn.model n : LieModel α).dof, (Tn.model n : LieModel α).comm) := rfl
theorem consts_se2 : ImplSrc.consts_SE2 = ((SE2.model : LieModel α).rep, (SE2.model : LieModel α).dim, (SE2.model : LieModel α).dof, (SE2.model : LieModel α).comm) := rfl
theorem consts_so3 : ImplSrc.consts_SO3 = ((SO3.model : LieModel α).rep, (SO3.model : LieModel α).dim, (SO3.model : LieModel α).dof, (SO3.model : LieModel α).comm) := rfl
theorem consts_se3 : ImplSrc.consts_SE3 = ((SE3.model : LieModel α).rep, (SE3.model : LieModel α).dim, (SE3.model : LieModel α).dof, (SE3.model : LieModel α).comm) := rfl
theorem consts_galilei : ImplSrc.consts_Galilei = ((Galilei.model : LieModel α).rep, (Galilei.model : LieModel α).dim, (Galilei.model : LieModel α).dof, (Galilei.model : LieModel α).comm) := rfl
theorem consts_sek3 {k : Nat} : ImplSrc.consts_SEK3 k = ((SEK3.model k : LieModel α).rep, (SEK3.model k : LieModel α).dim, (SEK3.model k : LieModel α).dof, (SEK3.model k : LieModel α).comm) := rfl

/-! the loop of `d2r_rminus` (`EigenSem.forLoop` over `Dof`) -/
theorem blockcol_div {d j l : Nat} (hl : l < d) : (j * d + l) / d = j := by
  have hd : 0 < d := by omega
  rw [Nat.add_comm, Nat.add_mul_div_right _ _ hd, Nat.div_eq_of_lt hl, Nat.zero_add]
/-- the loop of `d2r_rminus`: every `d × d` column block of `H` is multiplied on the right by `J` -/
theorem forLoop_applyRightBlock {d : Nat} (H : Mat α d (d * d)) (J : Mat α d d) :
    forLoop d (fun j hj res => BaseSem.applyRightBlock res j hj J) H =
      .of (fun r c => vsum d (fun l =>
        H r ⟨(c.val / d) * d + l.val, Derivs.idx_lt (Derivs.div_lt_of c.isLt) l.isLt⟩ *
          J l ⟨c.val % d, Derivs.mod_lt_of c.isLt⟩)) := by
  have key := forLoop_induct d (fun j hj res => BaseSem.applyRightBlock res j hj J) H
    (fun j _ s => ∀ (r : Fin d) (c : Fin (d * d)), s r c =
      if c.val / d < j then vsum d (fun l =>
        H r ⟨(c.val / d) * d + l.val, Derivs.idx_lt (Derivs.div_lt_of c.isLt) l.isLt⟩ *
          J l ⟨c.val % d, Derivs.mod_lt_of c.isLt⟩)
      else H r c) ?_ ?_
  · apply Mat.ext'; intro r c
    rw [key r c, if_pos (Derivs.div_lt_of c.isLt)]; rfl
  · intro r c
    rw [if_neg (Nat.not_lt_zero _)]
  · intro j hj s ih r c
    simp only [BaseSem.applyRightBlock, Mat.of]
    by_cases h1 : c.val / d = j
    · rw [if_pos h1, if_pos (by omega)]
      congr 1; funext l
      rw [ih r ⟨j * d + l.val, _⟩, if_neg (by simp only []; rw [blockcol_div l.isLt]; omega)]
      subst h1; rfl
    · rw [if_neg h1, ih r c]
      by_cases h2 : c.val / d < j
      · rw [if_pos h2, if_pos (by omega)]
      · rw [if_neg h2, if_neg (by omega)]

end SrcTieImpl
