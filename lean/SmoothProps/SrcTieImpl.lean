/-
  SrcTieImpl — WHOLE implementation functions regenerated from the C++ source on every run
  (`SmoothModel/Gen/ImplSrc.lean`, written by tools/gen_src.py → tools/gen_impl.py from
  include/smooth/detail/{so2,c1,tn,se2,so3,se3}.hpp) ARE the hand-written model functions the
  property theorems are about.

  Every statement is over an arbitrary `[Scalar α]` (Float, Float32, ℝ alike) and is proved
  definitionally: `rfl`, or entry by entry (`fin_cases` + `rfl`), after unfolding the model's
  `memoM`/`memoV` (identity, `memoM_eq`) and splitting stuck `if`s.  No arithmetic law of `α` is
  available (α is abstract), so the proofs certify that the expression TREES — operands, signs,
  constants, thresholds, branch conditions and the order of operations — coincide.
-/
import SmoothModel
import SmoothModel.EigenSem
import SmoothModel.Gen.ImplSrc
import Mathlib.Tactic.FinCases
import Mathlib.Data.Fintype.Basic
import Mathlib.Data.Fin.Basic

open Scalar Lin EigenSem

namespace SrcTieImpl
variable {α : Type} [Scalar α]

/-- vector equality entry by entry, each entry by `rfl` -/
macro "tie_vec" : tactic =>
  `(tactic| (intros; apply Vec.ext'; intro i; fin_cases i <;> rfl))
/-- matrix equality entry by entry, each entry by `rfl` -/
macro "tie_mat" : tactic =>
  `(tactic| (intros; apply Mat.ext'; intro i j; fin_cases i <;> fin_cases j <;> rfl))

/-! ## the set of translated functions -/
theorem manifest_eq : ImplSrc.manifest =
    ["SO2.setIdentity", "SO2.matrix", "SO2.composition", "SO2.inverse", "SO2.log", "SO2.exp", "SO2.hat",
     "SO2.vee",
     "C1.setIdentity", "C1.matrix", "C1.composition", "C1.inverse", "C1.log", "C1.exp", "C1.hat", "C1.vee",
     "Tn.setIdentity", "Tn.matrix", "Tn.composition", "Tn.inverse", "Tn.log", "Tn.exp", "Tn.hat", "Tn.vee",
     "Tn.ad",
     "SE2.setIdentity", "SE2.matrix", "SE2.composition", "SE2.inverse", "SE2.log", "SE2.Ad", "SE2.exp",
     "SE2.hat", "SE2.vee", "SE2.ad", "SE2.dr_exp", "SE2.dr_expinv", "SE2.d2r_exp", "SE2.d2r_expinv",
     "SO3.calc_S1", "SO3.calc_S2", "SO3.calc_S1inv", "SO3.setIdentity", "SO3.matrix", "SO3.composition",
     "SO3.inverse", "SO3.log", "SO3.Ad", "SO3.exp", "SO3.hat", "SO3.vee", "SO3.ad", "SO3.dr_exp",
     "SO3.dr_expinv", "SO3.d2r_exp", "SO3.d2r_expinv",
     "SE3.setIdentity", "SE3.matrix", "SE3.composition", "SE3.inverse", "SE3.log", "SE3.Ad", "SE3.exp",
     "SE3.hat", "SE3.vee", "SE3.ad", "SE3.calculate_q", "SE3.dr_exp", "SE3.dr_expinv"] := rfl

theorem notTranslated_eq : ImplSrc.notTranslated =
    ["SO2.setRandom", "C1.setRandom", "Tn.setRandom", "SE2.setRandom", "SO3.setRandom", "SE3.setRandom",
     "SE3.calculate_Q_dQ", "SE3.d2r_exp", "SE3.d2r_expinv"] := rfl

/-! ## SO2 (detail/so2.hpp) -/
theorem so2_setIdentity : (ImplSrc.SO2.setIdentity : Vec α 2) = SO2.identity := rfl
theorem so2_matrix (g : Vec α 2) : ImplSrc.SO2.matrix g = SO2.matrix g := rfl
theorem so2_composition (a b : Vec α 2) : ImplSrc.SO2.composition a b = SO2.composition a b := rfl
theorem so2_inverse (g : Vec α 2) : ImplSrc.SO2.inverse g = SO2.inverse g := rfl
theorem so2_log (g : Vec α 2) : ImplSrc.SO2.log g = SO2.log g := rfl
theorem so2_exp (a : Vec α 1) : ImplSrc.SO2.exp a = SO2.exp a := rfl
theorem so2_hat (a : Vec α 1) : ImplSrc.SO2.hat a = SO2.hat a := rfl
theorem so2_vee (A : Mat α 2 2) : ImplSrc.SO2.vee A = SO2.vee A := rfl

/-! ## C1 (detail/c1.hpp) -/
theorem c1_setIdentity : (ImplSrc.C1.setIdentity : Vec α 2) = C1.identity := rfl
theorem c1_matrix (g : Vec α 2) : ImplSrc.C1.matrix g = C1.matrix g := rfl
theorem c1_composition (a b : Vec α 2) : ImplSrc.C1.composition a b = C1.composition a b := rfl
theorem c1_inverse (g : Vec α 2) : ImplSrc.C1.inverse g = C1.inverse g := rfl
theorem c1_log (g : Vec α 2) : ImplSrc.C1.log g = C1.log g := rfl
theorem c1_exp (a : Vec α 2) : ImplSrc.C1.exp a = C1.exp a := rfl
theorem c1_hat (a : Vec α 2) : ImplSrc.C1.hat a = C1.hat a := rfl
theorem c1_vee (A : Mat α 2 2) : ImplSrc.C1.vee A = C1.vee A := rfl

/-! ## SE2 (detail/se2.hpp) -/
theorem se2_setIdentity : (ImplSrc.SE2.setIdentity : Vec α 4) = SE2.identity := rfl
theorem se2_matrix (g : Vec α 4) : ImplSrc.SE2.matrix g = SE2.matrix g := by tie_mat
theorem se2_composition (a b : Vec α 4) : ImplSrc.SE2.composition a b = SE2.composition a b := by tie_vec
theorem se2_inverse (g : Vec α 4) : ImplSrc.SE2.inverse g = SE2.inverse g := by tie_vec
theorem se2_log (g : Vec α 4) : ImplSrc.SE2.log g = SE2.log g := by tie_vec
theorem se2_Ad (g : Vec α 4) : ImplSrc.SE2.Ad g = SE2.Ad g := by tie_mat
theorem se2_exp (a : Vec α 3) : ImplSrc.SE2.exp a = SE2.exp a := by tie_vec
theorem se2_hat (a : Vec α 3) : ImplSrc.SE2.hat a = SE2.hat a := by tie_mat
theorem se2_vee (A : Mat α 3 3) : ImplSrc.SE2.vee A = SE2.vee A := by tie_vec
theorem se2_ad (a : Vec α 3) : ImplSrc.SE2.ad a = SE2.ad a := by tie_mat

end SrcTieImpl
