/-
  SrcTieImplC01 — source ties (see SrcTieImpl.lean) for setIdentity, matrix, composition, inverse
  of SO2, C1, Tn, SE2, SO3, SE3, Galilei, SE_K(3).
-/
import SmoothProps.SrcTieImpl

open Scalar Lin EigenSem

set_option linter.unusedSectionVars false
namespace SrcTieImpl
variable {α : Type} [Scalar α]

theorem so2_setIdentity : (ImplSrc.SO2.setIdentity : Vec α 2) = SO2.identity := rfl
theorem so2_matrix (g : Vec α 2) : ImplSrc.SO2.matrix g = SO2.matrix g := rfl
theorem so2_composition (a b : Vec α 2) : ImplSrc.SO2.composition a b = SO2.composition a b := rfl
theorem so2_inverse (g : Vec α 2) : ImplSrc.SO2.inverse g = SO2.inverse g := rfl
theorem c1_setIdentity : (ImplSrc.C1.setIdentity : Vec α 2) = C1.identity := rfl
theorem c1_matrix (g : Vec α 2) : ImplSrc.C1.matrix g = C1.matrix g := rfl
theorem c1_composition (a b : Vec α 2) : ImplSrc.C1.composition a b = C1.composition a b := rfl
theorem c1_inverse (g : Vec α 2) : ImplSrc.C1.inverse g = C1.inverse g := rfl
theorem se2_setIdentity : (ImplSrc.SE2.setIdentity : Vec α 4) = SE2.identity := rfl
theorem se2_matrix (g : Vec α 4) : ImplSrc.SE2.matrix g = SE2.matrix g := by tie_mat
theorem se2_composition (a b : Vec α 4) : ImplSrc.SE2.composition a b = SE2.composition a b := by tie_vec
theorem se2_inverse (g : Vec α 4) : ImplSrc.SE2.inverse g = SE2.inverse g := by tie_vec
theorem tn_setIdentity {n : Nat} : (ImplSrc.Tn.setIdentity : Vec α n) = Tn.identity n := rfl
theorem tn_composition {n : Nat} (a b : Vec α n) : ImplSrc.Tn.composition a b = Tn.composition a b := rfl
theorem tn_inverse {n : Nat} (g : Vec α n) : ImplSrc.Tn.inverse g = Tn.inverse g := rfl
theorem tn_matrix {n : Nat} (g : Vec α n) : ImplSrc.Tn.matrix g = Tn.matrix g := by
  apply Mat.ext'; intro i j
  simp only [ImplSrc.Tn.matrix, Tn.matrix, setBlockCol, ident, Mat.of, Fin.ext_iff]
  have hi := i.isLt; have hj := j.isLt
  split_ifs <;> first | rfl | (exfalso; omega)
theorem so3_setIdentity : (ImplSrc.SO3.setIdentity : Vec α 4) = SO3.identity := rfl
theorem so3_matrix (g : Vec α 4) : ImplSrc.SO3.matrix g = SO3.matrix g := rfl
theorem so3_composition (a b : Vec α 4) : ImplSrc.SO3.composition a b = SO3.composition a b := rfl
theorem so3_inverse (g : Vec α 4) : ImplSrc.SO3.inverse g = SO3.inverse g := by
  unfold ImplSrc.SO3.inverse SO3.inverse quatInverse
  apply Vec.ext'; intro i
  simp only []
  split <;> (fin_cases i <;> rfl)
theorem se3_setIdentity : (ImplSrc.SE3.setIdentity : Vec α 7) = SE3.identity := by tie_vec
theorem se3_matrix (g : Vec α 7) : ImplSrc.SE3.matrix g = SE3.matrix g := by tie_mat
theorem se3_composition (a b : Vec α 7) : ImplSrc.SE3.composition a b = SE3.composition a b := by
  simp only [SE3.composition, memoM_eq]; tie_vec
theorem se3_inverse (g : Vec α 7) : ImplSrc.SE3.inverse g = SE3.inverse g := by
  simp only [ImplSrc.SE3.inverse, SE3.inverse, memoM_eq, memoV_eq, so3_inverse]
  tie_vec

/-! Galilei -/
theorem galilei_setIdentity : (ImplSrc.Galilei.setIdentity : Vec α 11) = Galilei.identity := by tie_vec
theorem galilei_matrix (g : Vec α 11) : ImplSrc.Galilei.matrix g = Galilei.matrix g := by tie_mat
theorem galilei_composition (a b : Vec α 11) : ImplSrc.Galilei.composition a b = Galilei.composition a b := by
  simp only [Galilei.composition, memoM_eq]; tie_vec
theorem galilei_inverse (g : Vec α 11) : ImplSrc.Galilei.inverse g = Galilei.inverse g := by
  simp only [ImplSrc.Galilei.inverse, Galilei.inverse, memoM_eq, memoV_eq, so3_inverse]
  tie_vec

/-! SE_K(3), every `k` -/
theorem sek3_setIdentity {k : Nat} : (ImplSrc.SEK3.setIdentity : Vec α (4 + 3 * k)) = SEK3.identity k := by
  simp only [ImplSrc.SEK3.setIdentity, SEK3.identity]
  apply Vec.ext'; intro idx
  by_cases h : idx.val < 3 * k
  · rw [mkG_lo _ _ _ h]
    simp only [setCoeffV, vzero, Vec.of]
    rw [if_neg (by omega)]
  · rw [mkG_hi _ _ _ h]
    have h4 := idx.isLt
    simp only [setCoeffV, vzero, Vec.of]
    by_cases h3 : idx.val = 3 + 3 * k
    · rw [if_pos h3]
      have e : (⟨idx.val - 3 * k, by omega⟩ : Fin 4) = 3 := Fin.ext (by simp only []; omega)
      rw [e]; rfl
    · rw [if_neg h3]
      have e : ∀ (r : Fin 4), r.val < 3 → (SO3.identity : Vec α 4) r = nat 0 := by
        intro r hr; fin_cases r <;> first | rfl | (exfalso; simp at hr)
      exact (e _ (by simp only []; omega)).symm
theorem sek3_matrix {k : Nat} (g : Vec α (4 + 3 * k)) : ImplSrc.SEK3.matrix g = SEK3.matrix k g := by
  simp only [ImplSrc.SEK3.matrix, SEK3.matrix, so3_matrix, seg_gq]
  apply Mat.ext'; intro r c
  rw [forLoop_setBlockCol_get]
  simp only [setBlock, ident, Mat.of, segment, Vec.of, Fin.ext_iff]
  have hr := r.isLt; have hc := c.isLt
  split_ifs <;> first | rfl | (exfalso; omega)
theorem sek3_composition {k : Nat} (a b : Vec α (4 + 3 * k)) :
    ImplSrc.SEK3.composition a b = SEK3.composition k a b := by
  simp only [ImplSrc.SEK3.composition, SEK3.composition, memoM_eq, so3_composition, so3_matrix, seg_gq]
  rw [forLoop_mkG _ _ (SO3.composition (SEK3.gq k a) (SEK3.gq k b)) (fun r => setSegment_hi _ _ _ r _)]
  rfl
theorem sek3_inverse {k : Nat} (g : Vec α (4 + 3 * k)) : ImplSrc.SEK3.inverse g = SEK3.inverse k g := by
  simp only [ImplSrc.SEK3.inverse, SEK3.inverse, memoM_eq, memoV_eq, so3_inverse, so3_matrix, seg_gq]
  apply Vec.ext'; intro idx
  by_cases h : idx.val < 3 * k
  · rw [mkG_lo _ _ _ h]
    simp only [setSegment, Vec.of]
    rw [dif_neg (by omega)]
    exact (forLoop_setSegment_get _ _ idx).trans (dif_pos h)
  · rw [mkG_hi _ _ _ h]
    simp only [setSegment, Vec.of]
    rw [dif_pos (by omega)]

/-! ### generic layer: `setIdentity()`, `Identity()`, `matrix()`, `operator*`, `operator*=`, `inverse()` of LieGroupBase.
`operator*=` and `setIdentity` write in place: their TEXT is pinned by the translator (an in-place composition would
alias its operands); the value they leave in the object is tied here (see SrcTieImpl.lean) -/
section base
variable (G : LieModel α)
theorem base_setIdentity (g : Vec α G.rep) : BaseSrc.setIdentity G g = G.identity := rfl
theorem base_Identity : BaseSrc.Identity G = G.identity := rfl
theorem base_matrix (g : Vec α G.rep) : BaseSrc.matrix G g = G.matrix g := rfl
theorem base_mul (a b : Vec α G.rep) : BaseSrc.mul G a b = G.composition a b := rfl
theorem base_imul (a b : Vec α G.rep) : BaseSrc.imul G a b = G.composition a b := rfl
theorem base_inverse (g : Vec α G.rep) : BaseSrc.inverse G g = G.inverse g := rfl
end base

end SrcTieImpl
