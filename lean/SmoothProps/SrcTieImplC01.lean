/-
  SrcTieImplC01 — source ties (see SrcTieImpl.lean) for setIdentity, matrix, composition, inverse.
-/
import SmoothProps.SrcTieImpl

open Scalar Lin EigenSem

namespace SrcTieImpl
variable {α : Type} [Scalar α]

theorem so2_setIdentity : (ImplSrc.SO2.setIdentity : Vec α 2) = SO2.identity := rfl
theorem so2_matrix (g : Vec α 2) : ImplSrc.SO2.matrix g = SO2.matrix g := rfl
theorem so2_composition (a b : Vec α 2) : ImplSrc.SO2.composition a b = SO2.composition a b := rfl
theorem so2_inverse (g : Vec α 2) : ImplSrc.SO2.inverse g = SO2.inverse g := rfl
theorem c1_setIdentity : (ImplSrc.C1.setIdentity : Vec α 2) = C1.identity := rfl
theorem c1_matrix (g : Vec α 2) : ImplSrc.C1.matrix g = C1.matrix g := rfl
theorem c1_composition (a b : Vec α 2) : ImplSrc.C1.composition a b = C1.composition a b := rfl
theorem c1_inverse (g : Vec α 2) : ImplSrc.C1.inverse g = C1.inverse g := rfl
theorem se2_setIdentity : (ImplSrc.SE2.setIdentity : Vec α 4) = SE2.identity := rfl
theorem se2_matrix (g : Vec α 4) : ImplSrc.SE2.matrix g = SE2.matrix g := by tie_mat
theorem se2_composition (a b : Vec α 4) : ImplSrc.SE2.composition a b = SE2.composition a b := by tie_vec
theorem se2_inverse (g : Vec α 4) : ImplSrc.SE2.inverse g = SE2.inverse g := by tie_vec
theorem tn_setIdentity {n : Nat} : (ImplSrc.Tn.setIdentity : Vec α n) = Tn.identity n := rfl
theorem tn_composition {n : Nat} (a b : Vec α n) : ImplSrc.Tn.composition a b = Tn.composition a b := rfl
theorem tn_inverse {n : Nat} (g : Vec α n) : ImplSrc.Tn.inverse g = Tn.inverse g := rfl
theorem tn_matrix {n : Nat} (g : Vec α n) : ImplSrc.Tn.matrix g = Tn.matrix g := by
  apply Mat.ext'; intro i j
  simp only [ImplSrc.Tn.matrix, Tn.matrix, setBlockCol, ident, Mat.of, Fin.ext_iff]
  have hi := i.isLt; have hj := j.isLt
  split_ifs <;> first | rfl | (exfalso; omega)
theorem so3_setIdentity : (ImplSrc.SO3.setIdentity : Vec α 4) = SO3.identity := rfl
theorem so3_matrix (g : Vec α 4) : ImplSrc.SO3.matrix g = SO3.matrix g := rfl
theorem so3_composition (a b : Vec α 4) : ImplSrc.SO3.composition a b = SO3.composition a b := rfl
theorem so3_inverse (g : Vec α 4) : ImplSrc.SO3.inverse g = SO3.inverse g := by
  unfold ImplSrc.SO3.inverse SO3.inverse quatInverse
  apply Vec.ext'; intro i
  simp only []
  split <;> (fin_cases i <;> rfl)
theorem se3_setIdentity : (ImplSrc.SE3.setIdentity : Vec α 7) = SE3.identity := by tie_vec
theorem se3_matrix (g : Vec α 7) : ImplSrc.SE3.matrix g = SE3.matrix g := by tie_mat
theorem se3_composition (a b : Vec α 7) : ImplSrc.SE3.composition a b = SE3.composition a b := by
  simp only [SE3.composition, memoM_eq]; tie_vec
theorem se3_inverse (g : Vec α 7) : ImplSrc.SE3.inverse g = SE3.inverse g := by
  simp only [ImplSrc.SE3.inverse, SE3.inverse, memoM_eq, memoV_eq, so3_inverse]
  tie_vec

end SrcTieImpl
