/-
  C03 — Ad, ad, hat, vee and the Lie bracket are the adjoint representation (property theorems).

  For every supported group `G` (SO2, C1, Tn n for every n, SO3, SE2, SE3, Galilei, SE_K(3) for every
  K, and Bundles of these nested arbitrarily) the model of the `Impl` functions — with the
  commutative short-cuts of lie_group_base.hpp (`Ad = 1`, `ad = 0`) applied at the `LieModel` level —
  satisfies, over ℝ,

    vee (hat a) = a                     hat (vee A) = A   for A of the documented shape (`InAlgebra A`)
    hat (a + b) = hat a + hat b         hat (s·a) = s·hat a
    matrix g · hat a = hat (Ad g · a) · matrix g          (inverse-free form of Ad g a = vee (M hat a M⁻¹))
    hat (ad a · b) = hat a · hat b − hat b · hat a        lie_bracket a b = ad a · b = vee [hat a, hat b]
    Ad (g₁ ∘ g₂) = Ad g₁ · Ad g₂       [a,b] = −[b,a]      [a,[b,c]] + [b,[c,a]] + [c,[a,b]] = 0

  under the representation constraint of the group (`UnitQ` / `IsUnit`: unit quaternion part; none for
  SO2, C1, Tn, SE2 — there the identities are polynomial).  For the commutative groups the
  short-cuts are shown to agree with the matrix definitions (`matrix g` commutes with `hat a`,
  `hat a` commutes with `hat b`).  `mmul msub madd msmul mulVec vadd vsmul vneg` are the model's
  matrix/vector operations (`C03.toM_mmul` … identify them with Mathlib's).

  `AdjointRep G U InAlg` (SmoothProofs/C03Adjoint.lean) packages the eight statements for one
  `LieModel ℝ`; it is proved for every group (`*_adjointRep`), is closed under `Bundle.prod`
  (`adjointRep_prod`) and hence holds for `Bundle.bundle ps` (`adjointRep_bundle`, induction over the
  list) and for the model of every group descriptor (`adjointRep_desc`).  Antisymmetry, Jacobi,
  `bracket = vee [hat, hat]`, `Ad g [a,b] = [Ad g a, Ad g b]` are derived once from `AdjointRep`
  (`bracket_antisymm`, `jacobi`, `bracket_eq_commutator`, `Ad_bracket`), so they hold for Bundles too.

  `Ad (exp a) = exp (ad a)` (Mathlib's matrix exponential): derived generically from `AdjointRep` and
  C02's `matrix (exp a) = exp (hat a)` (`Ad_exp_of_matrix_exp'`), instantiated for every group
  (`*_Ad_exp`; SO3-based groups and SE2 on the closed-form branch of `exp`, any magnitude) and
  closed under Bundles (`Ad_exp_prod`, `Ad_exp_bundle`).  Exactness fails on the Taylor branch
  (non-unit quaternion); that regime is C02's truncation bound + the audit.

  Helper lemmas: SmoothProofs/C03{Attr,Lin,SO3,Adjoint,Small,Tn,SE3,Galilei,SEK3,Desc,Cor,Hadamard,AdExpGen,AdExp}.lean
  (C03AdExp.lean uses SmoothProofs/C02{SO3,Exp,SE3,SEK3,Galilei,Bundle}.lean of property C02).
-/
import SmoothProofs.C03Cor
import SmoothProofs.C03AdExp
import Mathlib.Tactic.NormNum

open Lin Scalar

namespace C03

/-! ## Witnesses used by the non-vacuity examples -/

/-- a unit quaternion with all coefficients non-zero (rotation by 120° about (1,−1,1)/√3) -/
noncomputable def qA : Vec ℝ 4 := mk4 (1 / 2) (-1 / 2) (1 / 2) (1 / 2)
/-- half turn about y (`w = 0`) -/
noncomputable def qB : Vec ℝ 4 := mk4 0 1 0 0
/-- an SE2 element with unit complex part (sin, cos) = (3/5, 4/5) -/
noncomputable def gSE2 : Vec ℝ 4 := mk4 1 2 (3 / 5) (4 / 5)
/-- an SE3 element with translation (1,2,3) and rotation `qA` -/
noncomputable def gSE3 : Vec ℝ 7 := SE3.mk7 (mk3 1 2 3) qA
/-- a Galilei element: velocity (1,2,3), position (4,5,6), time 7, rotation `qA` -/
noncomputable def gGal : Vec ℝ 11 := Galilei.mkG (mk3 1 2 3) (mk3 4 5 6) 7 qA
/-- an SE_K(3) element: all `k` translations (1,2,3), rotation `qA` -/
noncomputable def gSEK (k : Nat) : Vec ℝ (4 + 3 * k) := SEK3.mkG k (fun _ => mk3 1 2 3) qA

theorem qA_unit : UnitQ qA := by simp [UnitQ, qA]; norm_num
theorem qB_unit : UnitQ qB := by simp [UnitQ, qB]
theorem gSE2_unit : SE2.IsUnit gSE2 := by simp [SE2.IsUnit, gSE2]; norm_num
theorem gSE3_unit : SE3.IsUnit gSE3 := by unfold SE3.IsUnit gSE3; rw [SE3.so3_mk7]; exact qA_unit
theorem gGal_unit : Galilei.IsUnit gGal := by unfold Galilei.IsUnit gGal; rw [Galilei.gq_mkG]; exact qA_unit
theorem gSEK_unit (k : Nat) : SEK3.IsUnit (gSEK k) := by
  unfold SEK3.IsUnit gSEK; rw [SEK3.gq_mkG]; exact qA_unit

/-! ## SO2 (commutative: API-level `Ad = 1`, `ad = 0`) -/

theorem so2_vee_hat (a : Vec ℝ 1) : SO2.vee (SO2.hat a) = a := SO2.vee_hat a

/-- `hat ∘ vee = id` on so(2) = skew 2×2 matrices -/
theorem so2_hat_vee (A : Mat ℝ 2 2) (h : SO2.InAlgebra A) : SO2.hat (SO2.vee A) = A := SO2.hat_vee A h
example : SO2.InAlgebra (SO2.hat (mk1 (3 : ℝ))) ∧ SO2.hat (mk1 (3 : ℝ)) 1 0 = 3 :=
  ⟨SO2.hat_inAlgebra _, by simp [SO2.hat]⟩

theorem so2_hat_add (a b : Vec ℝ 1) : SO2.hat (vadd a b) = madd (SO2.hat a) (SO2.hat b) := SO2.hat_add a b
theorem so2_hat_smul (s : ℝ) (a : Vec ℝ 1) : SO2.hat (vsmul s a) = msmul s (SO2.hat a) := SO2.hat_smul s a

/-- `Ad = 1` agrees with the matrix definition: `matrix g` commutes with every `hat a` (all `g`). -/
theorem so2_matrix_hat_comm (g : Vec ℝ 2) (a : Vec ℝ 1) :
    mmul (SO2.matrix g) (SO2.hat a) = mmul (SO2.hat a) (SO2.matrix g) := SO2.matrix_hat_comm g a

/-- `ad = 0` agrees with the matrix definition: all `hat a`, `hat b` commute. -/
theorem so2_hat_comm (a b : Vec ℝ 1) : mmul (SO2.hat a) (SO2.hat b) = mmul (SO2.hat b) (SO2.hat a) :=
  SO2.hat_comm a b

/-- the API-level statements (with `Ad = ident`, `ad = mzero`, `lie_bracket = 0`) -/
theorem so2_adjointRep : AdjointRep (SO2.model : LieModel ℝ) (fun _ => True) SO2.InAlgebra := SO2.adjointRep

/-! ## C1 (commutative) -/

theorem c1_vee_hat (a : Vec ℝ 2) : C1.vee (C1.hat a) = a := C1.vee_hat a

theorem c1_hat_vee (A : Mat ℝ 2 2) (h : C1.InAlgebra A) : C1.hat (C1.vee A) = A := C1.hat_vee A h
example : C1.InAlgebra (C1.hat (mk2 (2 : ℝ) 3)) ∧ C1.hat (mk2 (2 : ℝ) 3) 1 0 = 3 :=
  ⟨C1.hat_inAlgebra _, by simp [C1.hat]⟩

theorem c1_hat_add (a b : Vec ℝ 2) : C1.hat (vadd a b) = madd (C1.hat a) (C1.hat b) := C1.hat_add a b
theorem c1_hat_smul (s : ℝ) (a : Vec ℝ 2) : C1.hat (vsmul s a) = msmul s (C1.hat a) := C1.hat_smul s a

theorem c1_matrix_hat_comm (g a : Vec ℝ 2) :
    mmul (C1.matrix g) (C1.hat a) = mmul (C1.hat a) (C1.matrix g) := C1.matrix_hat_comm g a

theorem c1_hat_comm (a b : Vec ℝ 2) : mmul (C1.hat a) (C1.hat b) = mmul (C1.hat b) (C1.hat a) :=
  C1.hat_comm a b

theorem c1_adjointRep : AdjointRep (C1.model : LieModel ℝ) (fun _ => True) C1.InAlgebra := C1.adjointRep

/-! ## Tn n, every n (commutative) -/

theorem tn_vee_hat {n : Nat} (a : Vec ℝ n) : Tn.vee (Tn.hat a) = a := Tn.vee_hat a

theorem tn_hat_vee {n : Nat} (A : Mat ℝ (n + 1) (n + 1)) (h : Tn.InAlgebra A) : Tn.hat (Tn.vee A) = A :=
  Tn.hat_vee A h
example : Tn.InAlgebra (Tn.hat (mk3 (1 : ℝ) 2 3)) ∧ Tn.hat (mk3 (1 : ℝ) 2 3) 1 3 = 2 :=
  ⟨Tn.hat_inAlgebra _, by simp [Tn.hat]⟩

theorem tn_hat_add {n : Nat} (a b : Vec ℝ n) : Tn.hat (vadd a b) = madd (Tn.hat a) (Tn.hat b) := Tn.hat_add a b
theorem tn_hat_smul {n : Nat} (s : ℝ) (a : Vec ℝ n) : Tn.hat (vsmul s a) = msmul s (Tn.hat a) :=
  Tn.hat_smul s a

theorem tn_matrix_hat_comm {n : Nat} (g a : Vec ℝ n) :
    mmul (Tn.matrix g) (Tn.hat a) = mmul (Tn.hat a) (Tn.matrix g) := Tn.matrix_hat_comm g a

theorem tn_hat_comm {n : Nat} (a b : Vec ℝ n) : mmul (Tn.hat a) (Tn.hat b) = mmul (Tn.hat b) (Tn.hat a) :=
  Tn.hat_comm a b

theorem tn_adjointRep (n : Nat) : AdjointRep (Tn.model n : LieModel ℝ) (fun _ => True) Tn.InAlgebra :=
  Tn.adjointRep n

/-! ## SO3 -/

theorem so3_vee_hat (a : Vec ℝ 3) : SO3.vee (SO3.hat a) = a := SO3.vee_hat a

/-- `hat ∘ vee = id` on so(3) = skew-symmetric 3×3 matrices -/
theorem so3_hat_vee (A : Mat ℝ 3 3) (h : SO3.InAlgebra A) : SO3.hat (SO3.vee A) = A := SO3.hat_vee A h
example : SO3.InAlgebra (SO3.hat (mk3 (1 : ℝ) 2 3)) ∧ SO3.hat (mk3 (1 : ℝ) 2 3) 1 0 = 3 :=
  ⟨SO3.hat_inAlgebra _, by simp [SO3.hat]⟩

theorem so3_hat_add (a b : Vec ℝ 3) : SO3.hat (vadd a b) = madd (SO3.hat a) (SO3.hat b) := SO3.hat_add a b
theorem so3_hat_smul (s : ℝ) (a : Vec ℝ 3) : SO3.hat (vsmul s a) = msmul s (SO3.hat a) := SO3.hat_smul s a

/-- SO3: `matrix g · hat a = hat (Ad g · a) · matrix g` for unit quaternions. -/
theorem so3_Ad_def (g : Vec ℝ 4) (h : UnitQ g) (a : Vec ℝ 3) :
    mmul (SO3.matrix g) (SO3.hat a) = mmul (SO3.hat (mulVec (SO3.Ad g) a)) (SO3.matrix g) :=
  SO3.Ad_def g h a
example : UnitQ qA := qA_unit
example : UnitQ qB := qB_unit

/-- SO3: `hat (ad a · b) = [hat a, hat b]` (i.e. `hat (a × b) = [hat a, hat b]`). -/
theorem so3_ad_def (a b : Vec ℝ 3) :
    SO3.hat (mulVec (SO3.ad a) b) = msub (mmul (SO3.hat a) (SO3.hat b)) (mmul (SO3.hat b) (SO3.hat a)) :=
  SO3.ad_def a b

/-- SO3: `Ad (g₁∘g₂) = Ad g₁ · Ad g₂` on unit quaternions (`Ad` is the rotation matrix; the sign
    canonicalisation of `composition` is invisible). -/
theorem so3_Ad_composition (g₁ g₂ : Vec ℝ 4) (h₁ : UnitQ g₁) (h₂ : UnitQ g₂) :
    SO3.Ad (SO3.composition g₁ g₂) = mmul (SO3.Ad g₁) (SO3.Ad g₂) := SO3.Ad_composition g₁ g₂ h₁ h₂
example : UnitQ qA ∧ UnitQ qB := ⟨qA_unit, qB_unit⟩

theorem so3_adjointRep : AdjointRep (SO3.model : LieModel ℝ) UnitQ SO3.InAlgebra := SO3.adjointRep

/-! ## SE2 (all identities polynomial: no constraint needed) -/

theorem se2_vee_hat (a : Vec ℝ 3) : SE2.vee (SE2.hat a) = a := SE2.vee_hat a

theorem se2_hat_vee (A : Mat ℝ 3 3) (h : SE2.InAlgebra A) : SE2.hat (SE2.vee A) = A := SE2.hat_vee A h
example : SE2.InAlgebra (SE2.hat (mk3 (1 : ℝ) 2 3)) ∧ SE2.hat (mk3 (1 : ℝ) 2 3) 1 0 = 3 :=
  ⟨SE2.hat_inAlgebra _, by simp [SE2.hat]⟩

theorem se2_hat_add (a b : Vec ℝ 3) : SE2.hat (vadd a b) = madd (SE2.hat a) (SE2.hat b) := SE2.hat_add a b
theorem se2_hat_smul (s : ℝ) (a : Vec ℝ 3) : SE2.hat (vsmul s a) = msmul s (SE2.hat a) := SE2.hat_smul s a

theorem se2_Ad_def (g : Vec ℝ 4) (a : Vec ℝ 3) :
    mmul (SE2.matrix g) (SE2.hat a) = mmul (SE2.hat (mulVec (SE2.Ad g) a)) (SE2.matrix g) := SE2.Ad_def g a

theorem se2_ad_def (a b : Vec ℝ 3) :
    SE2.hat (mulVec (SE2.ad a) b) = msub (mmul (SE2.hat a) (SE2.hat b)) (mmul (SE2.hat b) (SE2.hat a)) :=
  SE2.ad_def a b

theorem se2_Ad_composition (g₁ g₂ : Vec ℝ 4) :
    SE2.Ad (SE2.composition g₁ g₂) = mmul (SE2.Ad g₁) (SE2.Ad g₂) := SE2.Ad_composition g₁ g₂

theorem se2_adjointRep : AdjointRep (SE2.model : LieModel ℝ) SE2.IsUnit SE2.InAlgebra := SE2.adjointRep
example : SE2.IsUnit gSE2 := gSE2_unit

/-! ## SE3 -/

theorem se3_vee_hat (a : Vec ℝ 6) : SE3.vee (SE3.hat a) = a := SE3.vee_hat a

/-- `hat ∘ vee = id` on se(3): skew 3×3 block, free last column, zero last row -/
theorem se3_hat_vee (A : Mat ℝ 4 4) (h : SE3.InAlgebra A) : SE3.hat (SE3.vee A) = A := SE3.hat_vee A h
example : SE3.InAlgebra (SE3.hat (SE3.mk6 (mk3 (1 : ℝ) 2 3) (mk3 4 5 6)))
    ∧ SE3.hat (SE3.mk6 (mk3 (1 : ℝ) 2 3) (mk3 4 5 6)) 1 0 = 6 :=
  ⟨SE3.hat_inAlgebra _, by simp [SE3.hat, SE3.tw, SE3.mk6, SO3.hat]⟩

theorem se3_hat_add (a b : Vec ℝ 6) : SE3.hat (vadd a b) = madd (SE3.hat a) (SE3.hat b) := SE3.hat_add a b
theorem se3_hat_smul (s : ℝ) (a : Vec ℝ 6) : SE3.hat (vsmul s a) = msmul s (SE3.hat a) := SE3.hat_smul s a

theorem se3_Ad_def (g : Vec ℝ 7) (h : SE3.IsUnit g) (a : Vec ℝ 6) :
    mmul (SE3.matrix g) (SE3.hat a) = mmul (SE3.hat (mulVec (SE3.Ad g) a)) (SE3.matrix g) := SE3.Ad_def g h a
example : SE3.IsUnit gSE3 := gSE3_unit

theorem se3_ad_def (a b : Vec ℝ 6) :
    SE3.hat (mulVec (SE3.ad a) b) = msub (mmul (SE3.hat a) (SE3.hat b)) (mmul (SE3.hat b) (SE3.hat a)) :=
  SE3.ad_def a b

theorem se3_Ad_composition (g₁ g₂ : Vec ℝ 7) (h₁ : SE3.IsUnit g₁) (h₂ : SE3.IsUnit g₂) :
    SE3.Ad (SE3.composition g₁ g₂) = mmul (SE3.Ad g₁) (SE3.Ad g₂) := SE3.Ad_composition g₁ g₂ h₁ h₂
example : SE3.IsUnit gSE3 ∧ SE3.IsUnit (SE3.mk7 (mk3 0 0 1) qB) :=
  ⟨gSE3_unit, by unfold SE3.IsUnit; rw [SE3.so3_mk7]; exact qB_unit⟩

theorem se3_adjointRep : AdjointRep (SE3.model : LieModel ℝ) SE3.IsUnit SE3.InAlgebra := SE3.adjointRep

/-! ## Galilei -/

theorem galilei_vee_hat (a : Vec ℝ 10) : Galilei.vee (Galilei.hat a) = a := Galilei.vee_hat a

/-- `hat ∘ vee = id` on the Galilei algebra `[[Ω̂, b, q], [0, 0, s], [0, 0, 0]]` -/
theorem galilei_hat_vee (A : Mat ℝ 5 5) (h : Galilei.InAlgebra A) : Galilei.hat (Galilei.vee A) = A :=
  Galilei.hat_vee A h
example : Galilei.InAlgebra (Galilei.hat (Galilei.mkT (mk3 (1 : ℝ) 2 3) (mk3 4 5 6) 7 (mk3 8 9 10)))
    ∧ Galilei.hat (Galilei.mkT (mk3 (1 : ℝ) 2 3) (mk3 4 5 6) 7 (mk3 8 9 10)) 3 4 = 7 :=
  ⟨Galilei.hat_inAlgebra _, by rw [Galilei.hat_34, Galilei.ts_mkT]⟩

theorem galilei_hat_add (a b : Vec ℝ 10) :
    Galilei.hat (vadd a b) = madd (Galilei.hat a) (Galilei.hat b) := Galilei.hat_add a b
theorem galilei_hat_smul (s : ℝ) (a : Vec ℝ 10) :
    Galilei.hat (vsmul s a) = msmul s (Galilei.hat a) := Galilei.hat_smul s a

theorem galilei_Ad_def (g : Vec ℝ 11) (h : Galilei.IsUnit g) (a : Vec ℝ 10) :
    mmul (Galilei.matrix g) (Galilei.hat a)
      = mmul (Galilei.hat (mulVec (Galilei.Ad g) a)) (Galilei.matrix g) := Galilei.Ad_def g h a
example : Galilei.IsUnit gGal := gGal_unit

theorem galilei_ad_def (a b : Vec ℝ 10) :
    Galilei.hat (mulVec (Galilei.ad a) b)
      = msub (mmul (Galilei.hat a) (Galilei.hat b)) (mmul (Galilei.hat b) (Galilei.hat a)) :=
  Galilei.ad_def a b

theorem galilei_Ad_composition (g₁ g₂ : Vec ℝ 11) (h₁ : Galilei.IsUnit g₁) (h₂ : Galilei.IsUnit g₂) :
    Galilei.Ad (Galilei.composition g₁ g₂) = mmul (Galilei.Ad g₁) (Galilei.Ad g₂) :=
  Galilei.Ad_composition g₁ g₂ h₁ h₂
example : Galilei.IsUnit gGal ∧ Galilei.IsUnit (Galilei.mkG (mk3 0 1 0) (mk3 1 0 0) (-2) qB) :=
  ⟨gGal_unit, by unfold Galilei.IsUnit; rw [Galilei.gq_mkG]; exact qB_unit⟩

theorem galilei_adjointRep : AdjointRep (Galilei.model : LieModel ℝ) Galilei.IsUnit Galilei.InAlgebra :=
  Galilei.adjointRep

/-! ## SE_K(3), every K -/

theorem sek3_vee_hat {k : Nat} (a : Vec ℝ (3 + 3 * k)) : SEK3.vee k (SEK3.hat k a) = a := SEK3.vee_hat a

/-- `hat ∘ vee = id` on se_k(3): skew 3×3 block, `k` free columns, zero rows below -/
theorem sek3_hat_vee {k : Nat} (A : Mat ℝ (3 + k) (3 + k)) (h : SEK3.InAlgebra A) :
    SEK3.hat k (SEK3.vee k A) = A := SEK3.hat_vee A h
example (k : Nat) : SEK3.InAlgebra (SEK3.hat k (SEK3.mkT k (fun _ => mk3 (1 : ℝ) 2 3) (mk3 4 5 6)))
    ∧ SEK3.tw k (SEK3.mkT k (fun _ => mk3 (1 : ℝ) 2 3) (mk3 4 5 6)) = mk3 4 5 6 :=
  ⟨SEK3.hat_inAlgebra _, SEK3.tw_mkT _ _⟩

theorem sek3_hat_add {k : Nat} (a b : Vec ℝ (3 + 3 * k)) :
    SEK3.hat k (vadd a b) = madd (SEK3.hat k a) (SEK3.hat k b) := SEK3.hat_add a b
theorem sek3_hat_smul {k : Nat} (s : ℝ) (a : Vec ℝ (3 + 3 * k)) :
    SEK3.hat k (vsmul s a) = msmul s (SEK3.hat k a) := SEK3.hat_smul s a

theorem sek3_Ad_def {k : Nat} (g : Vec ℝ (4 + 3 * k)) (h : SEK3.IsUnit g) (a : Vec ℝ (3 + 3 * k)) :
    mmul (SEK3.matrix k g) (SEK3.hat k a)
      = mmul (SEK3.hat k (mulVec (SEK3.Ad k g) a)) (SEK3.matrix k g) := SEK3.Ad_def g h a
example (k : Nat) : SEK3.IsUnit (gSEK k) := gSEK_unit k

theorem sek3_ad_def {k : Nat} (a b : Vec ℝ (3 + 3 * k)) :
    SEK3.hat k (mulVec (SEK3.ad k a) b)
      = msub (mmul (SEK3.hat k a) (SEK3.hat k b)) (mmul (SEK3.hat k b) (SEK3.hat k a)) := SEK3.ad_def a b

theorem sek3_Ad_composition {k : Nat} (g₁ g₂ : Vec ℝ (4 + 3 * k)) (h₁ : SEK3.IsUnit g₁) (h₂ : SEK3.IsUnit g₂) :
    SEK3.Ad k (SEK3.composition k g₁ g₂) = mmul (SEK3.Ad k g₁) (SEK3.Ad k g₂) :=
  SEK3.Ad_composition g₁ g₂ h₁ h₂
example (k : Nat) : SEK3.IsUnit (gSEK k) ∧ SEK3.IsUnit (SEK3.mkG k (fun _ => mk3 0 0 1) qB) :=
  ⟨gSEK_unit k, by unfold SEK3.IsUnit; rw [SEK3.gq_mkG]; exact qB_unit⟩

theorem sek3_adjointRep (k : Nat) : AdjointRep (SEK3.model k : LieModel ℝ) SEK3.IsUnit SEK3.InAlgebra :=
  SEK3.adjointRep k

/-! ## Consequences, for every model satisfying `AdjointRep` (all groups above, and Bundles) -/

section generic
variable {G : LieModel ℝ} {U : Vec ℝ G.rep → Prop} {InAlg : Mat ℝ G.dim G.dim → Prop}

/-- `hat` is injective -/
theorem hat_injective (h : AdjointRep G U InAlg) {a b : Vec ℝ G.dof} (e : G.hat a = G.hat b) : a = b :=
  h.hat_injective e

/-- `lie_bracket a b` (`= ad a · b` by definition of `LieModel.bracket`) `= vee (hat a·hat b − hat b·hat a)` -/
theorem bracket_eq_commutator (h : AdjointRep G U InAlg) (a b : Vec ℝ G.dof) :
    G.bracket a b = G.vee (msub (mmul (G.hat a) (G.hat b)) (mmul (G.hat b) (G.hat a))) :=
  h.bracket_eq_commutator a b

/-- `lie_bracket a b = ad a · b` (definition of the API function) -/
theorem bracket_eq_ad (a b : Vec ℝ G.dof) : G.bracket a b = mulVec (G.ad a) b := rfl

/-- antisymmetry of the bracket -/
theorem bracket_antisymm (h : AdjointRep G U InAlg) (a b : Vec ℝ G.dof) :
    G.bracket a b = vneg (G.bracket b a) := h.bracket_antisymm a b

/-- the Jacobi identity -/
theorem jacobi (h : AdjointRep G U InAlg) (a b c : Vec ℝ G.dof) :
    vadd (vadd (G.bracket a (G.bracket b c)) (G.bracket b (G.bracket c a))) (G.bracket c (G.bracket a b))
      = vzero G.dof := h.jacobi a b c

/-- `Ad (g₁∘g₂) = Ad g₁ · Ad g₂` -/
theorem Ad_composition (h : AdjointRep G U InAlg) (g₁ g₂ : Vec ℝ G.rep) (h₁ : U g₁) (h₂ : U g₂) :
    G.Ad (G.composition g₁ g₂) = mmul (G.Ad g₁) (G.Ad g₂) := h.Ad_comp g₁ g₂ h₁ h₂

/-- `Ad g` respects the bracket (given a right inverse `N` of `matrix g`) -/
theorem Ad_bracket (h : AdjointRep G U InAlg) (g : Vec ℝ G.rep) (hg : U g)
    (N : Mat ℝ G.dim G.dim) (hN : mmul (G.matrix g) N = ident G.dim) (a b : Vec ℝ G.dof) :
    mulVec (G.Ad g) (G.bracket a b) = G.bracket (mulVec (G.Ad g) a) (mulVec (G.Ad g) b) :=
  h.Ad_bracket g hg N hN a b

/-- `vee` is linear on the documented algebra (additivity) -/
theorem vee_add (h : AdjointRep G U InAlg) (A B : Mat ℝ G.dim G.dim) (hA : InAlg A) (hB : InAlg B) :
    G.vee (madd A B) = vadd (G.vee A) (G.vee B) := h.vee_add A B hA hB

/-- `vee` is linear on the documented algebra (homogeneity) -/
theorem vee_smul (h : AdjointRep G U InAlg) (s : ℝ) (A : Mat ℝ G.dim G.dim) (hA : InAlg A) :
    G.vee (msmul s A) = vsmul s (G.vee A) := h.vee_smul s A hA

/-- bilinearity of the bracket -/
theorem bracket_add_left (h : AdjointRep G U InAlg) (a a' b : Vec ℝ G.dof) :
    G.bracket (vadd a a') b = vadd (G.bracket a b) (G.bracket a' b) := h.bracket_add_left a a' b

theorem bracket_add_right (h : AdjointRep G U InAlg) (a b b' : Vec ℝ G.dof) :
    G.bracket a (vadd b b') = vadd (G.bracket a b) (G.bracket a b') := h.bracket_add_right a b b'

theorem bracket_smul_left (h : AdjointRep G U InAlg) (s : ℝ) (a b : Vec ℝ G.dof) :
    G.bracket (vsmul s a) b = vsmul s (G.bracket a b) := h.bracket_smul_left s a b

end generic

/- the hypotheses `AdjointRep G U InAlg`, `U g` are satisfiable non-trivially: -/
example : AdjointRep (Galilei.model : LieModel ℝ) Galilei.IsUnit Galilei.InAlgebra ∧ Galilei.IsUnit gGal :=
  ⟨galilei_adjointRep, gGal_unit⟩

/-- instances: SE3 bracket antisymmetry and Jacobi, SE_K(3) Jacobi, at the API level -/
theorem se3_bracket_antisymm (a b : Vec ℝ 6) :
    (SE3.model : LieModel ℝ).bracket a b = vneg ((SE3.model : LieModel ℝ).bracket b a) :=
  bracket_antisymm se3_adjointRep a b

theorem se3_jacobi (a b c : Vec ℝ 6) :
    let br := (SE3.model : LieModel ℝ).bracket
    vadd (vadd (br a (br b c)) (br b (br c a))) (br c (br a b)) = vzero 6 :=
  jacobi se3_adjointRep a b c

theorem so3_jacobi (a b c : Vec ℝ 3) :
    let br := (SO3.model : LieModel ℝ).bracket
    vadd (vadd (br a (br b c)) (br b (br c a))) (br c (br a b)) = vzero 3 :=
  jacobi so3_adjointRep a b c

theorem galilei_jacobi (a b c : Vec ℝ 10) :
    let br := (Galilei.model : LieModel ℝ).bracket
    vadd (vadd (br a (br b c)) (br b (br c a))) (br c (br a b)) = vzero 10 :=
  jacobi galilei_adjointRep a b c

theorem se2_bracket_antisymm (a b : Vec ℝ 3) :
    (SE2.model : LieModel ℝ).bracket a b = vneg ((SE2.model : LieModel ℝ).bracket b a) :=
  bracket_antisymm se2_adjointRep a b

theorem se2_jacobi (a b c : Vec ℝ 3) :
    let br := (SE2.model : LieModel ℝ).bracket
    vadd (vadd (br a (br b c)) (br b (br c a))) (br c (br a b)) = vzero 3 :=
  jacobi se2_adjointRep a b c

theorem so3_bracket_antisymm (a b : Vec ℝ 3) :
    (SO3.model : LieModel ℝ).bracket a b = vneg ((SO3.model : LieModel ℝ).bracket b a) :=
  bracket_antisymm so3_adjointRep a b

theorem galilei_bracket_antisymm (a b : Vec ℝ 10) :
    (Galilei.model : LieModel ℝ).bracket a b = vneg ((Galilei.model : LieModel ℝ).bracket b a) :=
  bracket_antisymm galilei_adjointRep a b

theorem sek3_bracket_antisymm (k : Nat) (a b : Vec ℝ (3 + 3 * k)) :
    (SEK3.model k : LieModel ℝ).bracket a b = vneg ((SEK3.model k : LieModel ℝ).bracket b a) :=
  bracket_antisymm (sek3_adjointRep k) a b

/-- commutative groups: the API `lie_bracket` is zero, in agreement with `[hat a, hat b] = 0` -/
theorem so2_bracket_zero (a b : Vec ℝ 1) : (SO2.model : LieModel ℝ).bracket a b = vzero 1 :=
  mulVec_mzero b
theorem c1_bracket_zero (a b : Vec ℝ 2) : (C1.model : LieModel ℝ).bracket a b = vzero 2 :=
  mulVec_mzero b
theorem tn_bracket_zero (n : Nat) (a b : Vec ℝ n) : (Tn.model n : LieModel ℝ).bracket a b = vzero n :=
  mulVec_mzero b

theorem sek3_jacobi (k : Nat) (a b c : Vec ℝ (3 + 3 * k)) :
    let br := (SEK3.model k : LieModel ℝ).bracket
    vadd (vadd (br a (br b c)) (br b (br c a))) (br c (br a b)) = vzero (3 + 3 * k) :=
  jacobi (sek3_adjointRep k) a b c

/-! ## Bundle -/

/-- C03 is closed under the binary direct product `Bundle.prod` (block-diagonal `hat`, `matrix`,
    `Ad`, `ad`; concatenated vectors). -/
theorem adjointRep_prod {A B : LieModel ℝ} {UA : Vec ℝ A.rep → Prop} {UB : Vec ℝ B.rep → Prop}
    {IA : Mat ℝ A.dim A.dim → Prop} {IB : Mat ℝ B.dim B.dim → Prop}
    (hA : AdjointRep A UA IA) (hB : AdjointRep B UB IB) :
    AdjointRep (Bundle.prod A B) (prodU UA UB) (prodInAlg IA IB) := AdjointRep.prod hA hB

/-- C03 for `Bundle.bundle` of any list of parts that satisfy it (induction over the list). -/
theorem adjointRep_bundle (ps : List Part) :
    AdjointRep (Bundle.bundle (ps.map Part.G)) (bundleU ps) (bundleInAlg ps) := AdjointRep.bundle ps

/-- C03 for the model of every group descriptor (`B[…]` nested arbitrarily): `descPart d` carries the
    model `GDesc.model d` (`descPart_model`), its constraint, its algebra and the proof. -/
theorem adjointRep_desc (d : GDesc) : AdjointRep (descPart d).G (descPart d).U (descPart d).InAlg :=
  descPart_ok d

theorem descPart_model (d : GDesc) : (descPart d).G = (GDesc.model d : LieModel ℝ) := descPart_G d

/-- for the model of EVERY group descriptor (Bundles nested arbitrarily): `vee (hat a) = a`,
    `hat (lie_bracket a b) = [hat a, hat b]`, antisymmetry, Jacobi -/
theorem gdesc_vee_hat (d : GDesc) (a : Vec ℝ (GDesc.model d : LieModel ℝ).dof) :
    (GDesc.model d : LieModel ℝ).vee ((GDesc.model d : LieModel ℝ).hat a) = a := desc_vee_hat d a

theorem gdesc_hat_bracket (d : GDesc) (a b : Vec ℝ (GDesc.model d : LieModel ℝ).dof) :
    (GDesc.model d : LieModel ℝ).hat ((GDesc.model d : LieModel ℝ).bracket a b)
      = msub (mmul ((GDesc.model d : LieModel ℝ).hat a) ((GDesc.model d : LieModel ℝ).hat b))
          (mmul ((GDesc.model d : LieModel ℝ).hat b) ((GDesc.model d : LieModel ℝ).hat a)) :=
  desc_hat_bracket d a b

theorem gdesc_bracket_antisymm (d : GDesc) (a b : Vec ℝ (GDesc.model d : LieModel ℝ).dof) :
    (GDesc.model d : LieModel ℝ).bracket a b = vneg ((GDesc.model d : LieModel ℝ).bracket b a) :=
  desc_bracket_antisymm d a b

theorem gdesc_jacobi (d : GDesc) (a b c : Vec ℝ (GDesc.model d : LieModel ℝ).dof) :
    vadd (vadd ((GDesc.model d : LieModel ℝ).bracket a ((GDesc.model d : LieModel ℝ).bracket b c))
        ((GDesc.model d : LieModel ℝ).bracket b ((GDesc.model d : LieModel ℝ).bracket c a)))
      ((GDesc.model d : LieModel ℝ).bracket c ((GDesc.model d : LieModel ℝ).bracket a b))
      = vzero _ := desc_jacobi d a b c

/-- a concrete bundle `B[SO3, T2, SE2, GAL]` and an element satisfying its constraint -/
noncomputable def exParts : List Part :=
  [⟨SO3.model, UnitQ, SO3.InAlgebra, so3_adjointRep⟩, ⟨Tn.model 2, fun _ => True, Tn.InAlgebra, tn_adjointRep 2⟩,
   ⟨SE2.model, SE2.IsUnit, SE2.InAlgebra, se2_adjointRep⟩,
   ⟨Galilei.model, Galilei.IsUnit, Galilei.InAlgebra, galilei_adjointRep⟩]

/-- an element of `B[SO3, T2, SE2, GAL]` with non-trivial parts -/
noncomputable def gEx : Vec ℝ (4 + (2 + (4 + (11 + 0)))) :=
  vcat qA (vcat (mk2 5 6) (vcat gSE2 (vcat gGal (vzero 0))))

example : bundleU exParts gEx := by
  have h1 : UnitQ (Bundle.fst gEx) := by unfold gEx; rw [fst_vcat]; exact qA_unit
  have h3 : SE2.IsUnit (Bundle.fst (Bundle.snd (Bundle.snd gEx))) := by
    unfold gEx; rw [snd_vcat, snd_vcat, fst_vcat]; exact gSE2_unit
  have h4 : Galilei.IsUnit (Bundle.fst (Bundle.snd (Bundle.snd (Bundle.snd gEx)))) := by
    unfold gEx; rw [snd_vcat, snd_vcat, snd_vcat, fst_vcat]; exact gGal_unit
  exact ⟨h1, trivial, h3, h4, trivial⟩

/-- Jacobi for the bundle `B[SO3, T2, SE2, GAL]` (an instance of the generic corollary) -/
theorem bundle_example_jacobi (a b c : Vec ℝ (Bundle.bundle (exParts.map Part.G)).dof) :
    let br := (Bundle.bundle (exParts.map Part.G)).bracket
    vadd (vadd (br a (br b c)) (br b (br c a))) (br c (br a b)) = vzero _ :=
  jacobi (adjointRep_bundle exParts) a b c

/-! ## Ad (exp a) = exp (ad a)

"Consequently … Ad(exp(a)) is the matrix exponential of ad(a)": derived, for EVERY model satisfying
`AdjointRep`, from `Ad_def`, `ad_def`, `vee_hat`, linearity of `hat` and property C02's
`matrix (exp a) = exp (hat a)` (`Ad_exp_of_matrix_exp`; the analytic step is the intertwining lemma
`hadamard_intertwine`: `hat (exp (t·ad a) b) = exp (t·hat a) · hat b · exp (−t·hat a)`).  The
instances use C02's theorems, hence carry C02's branch hypotheses: the SO3-based groups on the
closed-form branch of `exp` (`‖ω‖² > eps2`, any magnitude, also beyond π).  On the Taylor branch
(`0 < ‖ω‖² < eps2`) the returned quaternion is unit only up to the truncation error, so the exact
equality does not hold there; that regime is covered by C02's truncation bounds and by the
numerical audit of the C03 check, not by a theorem here. -/

/-- `AdExpAt G a` : `toM (G.Ad (G.exp a)) = NormedSpace.exp (toM (G.ad a))` (Mathlib's exponential) -/
theorem AdExpAt_iff (G : LieModel ℝ) (a : Vec ℝ G.dof) :
    AdExpAt G a ↔ C03.toM (G.Ad (G.exp a)) = NormedSpace.exp (C03.toM (G.ad a)) := Iff.rfl

/-- the full (exact) statement of the clause for a model: at every tangent vector.  Proved below for
    SO2, C1, Tn (`*_Ad_exp`); for SE2 / the SO3-based groups it holds on the closed-form branch
    (`*_Ad_exp`) and is NOT exact on the Taylor branch (see the section comment). -/
def Ad_exp_statement (G : LieModel ℝ) : Prop := ∀ a : Vec ℝ G.dof, AdExpAt G a

/-- generic: C03's `AdjointRep` + C02's `matrix (exp a) = exp (hat a)` ⟹ `Ad (exp a) = exp (ad a)`. -/
theorem Ad_exp_of_matrix_exp' {G : LieModel ℝ} {U : Vec ℝ G.rep → Prop} {InAlg : Mat ℝ G.dim G.dim → Prop}
    (h : AdjointRep G U InAlg) (a : Vec ℝ G.dof) (hU : U (G.exp a))
    (hexp : C03.toM (G.matrix (G.exp a)) = NormedSpace.exp (C03.toM (G.hat a))) :
    AdExpAt G a := Ad_exp_of_matrix_exp h a hU hexp
/- non-vacuity: SO3 at a rotation vector of norm 5 > π -/
example : UnitQ (SO3.exp (mk3 (3 : ℝ) 4 0)) ∧
    C03.toM (SO3.matrix (SO3.exp (mk3 (3 : ℝ) 4 0))) = NormedSpace.exp (C03.toM (SO3.hat (mk3 (3 : ℝ) 4 0))) := by
  have h : ¬ sqNorm (mk3 (3 : ℝ) 4 0) < Scalar.eps2 := by
    have : sqNorm (mk3 (3 : ℝ) 4 0) = 25 := by simp [sqNorm, dot, vsum]; norm_num
    rw [this]; show ¬ ((25 : ℝ) < 1 / 100000000); norm_num
  exact ⟨unitQ_so3_exp _ h, C02.so3_exp_is_matrix_exp_closed _ h⟩

theorem wBig_closed : Scalar.eps2 < sqNorm (mk3 (0 : ℝ) 0 4) := by
  have : sqNorm (mk3 (0 : ℝ) 0 4) = 16 := by simp [sqNorm, dot, vsum]; norm_num
  rw [this]; show (1 / 100000000 : ℝ) < 16; norm_num

/-- SO3: `Ad (exp a) = exp (ad a)`, closed-form branch, any magnitude of `a`. -/
theorem so3_Ad_exp (a : Vec ℝ 3) (h : ¬ sqNorm a < Scalar.eps2) :
    C03.toM (SO3.Ad (SO3.exp a)) = NormedSpace.exp (C03.toM (SO3.ad a)) := so3_AdExpAt a h
example : ¬ sqNorm (mk3 (0 : ℝ) 0 4) < Scalar.eps2 := not_lt.mpr wBig_closed.le

/-- SE2: closed-form branch (`θ² ≥ eps2`). -/
theorem se2_Ad_exp (a : Vec ℝ 3) (h : ¬ a 2 * a 2 < Scalar.eps2) :
    C03.toM (SE2.Ad (SE2.exp a)) = NormedSpace.exp (C03.toM (SE2.ad a)) := se2_AdExpAt a h
example : ¬ (mk3 (1 : ℝ) 2 4) 2 * (mk3 (1 : ℝ) 2 4) 2 < Scalar.eps2 := by
  simp only [mk3_2]; show ¬ ((4 : ℝ) * 4 < 1 / 100000000); norm_num

/-- SE3: closed-form branch (`‖ω‖² > eps2`). -/
theorem se3_Ad_exp (a : Vec ℝ 6) (h : Scalar.eps2 < sqNorm (SE3.tw a)) :
    C03.toM (SE3.Ad (SE3.exp a)) = NormedSpace.exp (C03.toM (SE3.ad a)) := se3_AdExpAt a h
example : Scalar.eps2 < sqNorm (SE3.tw (SE3.mk6 (mk3 (1 : ℝ) 2 3) (mk3 0 0 4))) := by
  have : SE3.tw (SE3.mk6 (mk3 (1 : ℝ) 2 3) (mk3 0 0 4)) = mk3 0 0 4 := by
    ext i; fin_cases i <;> simp [SE3.tw, SE3.mk6]
  rw [this]; exact wBig_closed

/-- Galilei: closed-form branch. -/
theorem galilei_Ad_exp (a : Vec ℝ 10) (h : Scalar.eps2 < sqNorm (Galilei.tw a)) :
    C03.toM (Galilei.Ad (Galilei.exp a)) = NormedSpace.exp (C03.toM (Galilei.ad a)) := galilei_AdExpAt a h
example : Scalar.eps2 < sqNorm (Galilei.tw (Galilei.mkT (mk3 (1 : ℝ) 2 3) (mk3 4 5 6) 7 (mk3 0 0 4))) := by
  rw [Galilei.tw_mkT]; exact wBig_closed

/-- SE_K(3), every K: closed-form branch. -/
theorem sek3_Ad_exp (k : Nat) (a : Vec ℝ (3 + 3 * k)) (h : Scalar.eps2 < sqNorm (SEK3.tw k a)) :
    C03.toM (SEK3.Ad k (SEK3.exp k a)) = NormedSpace.exp (C03.toM (SEK3.ad k a)) := sek3_AdExpAt k a h
example (k : Nat) : Scalar.eps2 < sqNorm (SEK3.tw k (SEK3.mkT k (fun _ => mk3 (1 : ℝ) 2 3) (mk3 0 0 4))) := by
  rw [SEK3.tw_mkT]; exact wBig_closed

/-- commutative groups: `Ad = 1 = exp 0 = exp (ad a)` at every `a` (the exact statement holds) -/
theorem so2_Ad_exp : Ad_exp_statement (SO2.model : LieModel ℝ) := so2_AdExpAt
theorem c1_Ad_exp : Ad_exp_statement (C1.model : LieModel ℝ) := c1_AdExpAt
theorem tn_Ad_exp (n : Nat) : Ad_exp_statement (Tn.model n : LieModel ℝ) := tn_AdExpAt n

/-- binary product: holds at `a` as soon as it holds for the parts at the two halves of `a` -/
theorem Ad_exp_prod (A B : LieModel ℝ) (a : Vec ℝ (A.dof + B.dof))
    (hA : AdExpAt A (Bundle.fst a)) (hB : AdExpAt B (Bundle.snd a)) : AdExpAt (Bundle.prod A B) a :=
  AdExpAt_prod A B a hA hB

/-- Bundle: holds at `a` as soon as it holds for every part at its slice of `a` -/
theorem Ad_exp_bundle (ps : List (LieModel ℝ)) (a : Vec ℝ (Bundle.bundle ps).dof)
    (h : bundleAll AdExpAt ps a) : AdExpAt (Bundle.bundle ps) a := AdExpAt_bundle ps a h
/- non-vacuity: `B[SO3, T2]` at `((0,0,4), (5,6))` -/
example : bundleAll AdExpAt [(SO3.model : LieModel ℝ), Tn.model 2]
    (vcat (mk3 (0 : ℝ) 0 4) (vcat (mk2 5 6) (vzero 0)) : Vec ℝ (3 + (2 + 0))) := by
  have congr : ∀ {G : LieModel ℝ} {a b : Vec ℝ G.dof}, a = b → AdExpAt G b → AdExpAt G a :=
    fun e h => e ▸ h
  exact ⟨congr (G := SO3.model) (fst_vcat _ _) (so3_AdExpAt _ (not_lt.mpr wBig_closed.le)),
    tn_AdExpAt 2 _, trivial⟩

end C03
