/-
  C06Round — what C06 ("Bundle is the direct product; vectors and scalars are translation groups") says in
  ROUNDED arithmetic (standard model of floating-point arithmetic, SmoothProofs/RoundModel.lean).

  The part-by-part theorems of SmoothProps/C06.lean are stated over ANY `[Scalar α]`, hence already hold for the
  rounded scalar type `RF`: a Bundle performs no arithmetic of its own.  What is added here:

  * `bundle_ops_partwise_rounded`: that instantiation spelled out — in rounded arithmetic the coefficients of a
    Bundle composition / inverse / exp / log ARE the rounded results of the parts, bit for bit (so the rounding
    error of a Bundle operation is exactly that of its parts; the accuracy clause lifts, SmoothProps/C01RoundC.lean:
    `bundle_prod_roundAcc`, `bundle_roundAcc`, `every_group_roundAcc`);
  * Tn (Eigen vectors, built-in scalars) as the additive group in rounded arithmetic, every n:
    `rplus`, `rminus` are ONE rounded addition (relative error `u` per coordinate), `exp`, `log`, `inverse` are
    exact, `Ad`, `dr_exp`, `dr_expinv` are the literal identity, and `lie_bracket` — the product of the literal
    zero matrix `ad` with a vector, `n` rounded multiplications and additions — is EXACTLY zero
    (`fl 0 = 0` in the standard model), as are the Hessians.
-/
import SmoothProofs.RoundBundle
import SmoothProps.C06

open Lin Scalar Rounding RF Round

set_option linter.unusedVariables false
set_option linter.unusedSectionVars false

noncomputable section
namespace C06Round

section Main
variable [Rounding]

/-! ## Bundles: no arithmetic of their own, also in rounded arithmetic -/

/-- in rounded arithmetic the coefficients of a Bundle operation are exactly the rounded results of its parts -/
theorem bundle_ops_partwise_rounded (A B : LieModel RF) (a b : Vec RF (A.rep + B.rep)) (t : Vec RF (A.dof + B.dof)) :
    (Bundle.fst ((Bundle.prod A B).composition a b) = A.composition (Bundle.fst a) (Bundle.fst b) ∧
      Bundle.snd ((Bundle.prod A B).composition a b) = B.composition (Bundle.snd a) (Bundle.snd b)) ∧
    (Bundle.fst ((Bundle.prod A B).inverse a) = A.inverse (Bundle.fst a) ∧
      Bundle.snd ((Bundle.prod A B).inverse a) = B.inverse (Bundle.snd a)) ∧
    (Bundle.fst ((Bundle.prod A B).exp t) = A.exp (Bundle.fst t) ∧
      Bundle.snd ((Bundle.prod A B).exp t) = B.exp (Bundle.snd t)) ∧
    (Bundle.fst ((Bundle.prod A B).log a) = A.log (Bundle.fst a) ∧
      Bundle.snd ((Bundle.prod A B).log a) = B.log (Bundle.snd a)) :=
  ⟨C06.prod_composition_parts A B a b, C06.prod_inverse_parts A B a, C06.prod_exp_parts A B t, C06.prod_log_parts A B a⟩

/-- … for any list of parts: part `i` of the rounded Bundle composition is the rounded composition of the parts `i` -/
theorem bundle_part_composition_rounded (ps : List (LieModel RF)) (i : Nat) (h : i < ps.length)
    (a b : Vec RF (Bundle.bundle ps).rep) :
    C06.repPart ps i h ((Bundle.bundle ps).composition a b)
      = (ps[i]).composition (C06.repPart ps i h a) (C06.repPart ps i h b) :=
  C06.bundle_part_composition ps i h a b

/-! ## Tn in rounded arithmetic, every n -/

/-- a left-to-right sum of rounded zeros is zero -/
theorem vsum_zero_rf : ∀ (n : Nat) (f : Fin n → RF), (∀ l, toReal (f l) = 0) → toReal (vsum n f) = 0
  | 0, _, _ => by simp [vsum]
  | n + 1, f, h => by
    have ih := vsum_zero_rf n (fun i => f i.castSucc) (fun i => h i.castSucc)
    simp only [vsum, toReal_add, ih, h (Fin.last n), add_zero, fl_zero]

/-- **`lie_bracket` of Tn is EXACTLY zero in rounded arithmetic** (zero matrix times vector, `n` rounded products and
    `n` rounded additions) -/
theorem tn_bracket_zero_rounded (n : Nat) (a b : Vec ℝ n) (i : Fin n) :
    toReal (((Tn.model n : LieModel RF).bracket (Vec.toRF a) (Vec.toRF b)) i) = 0 := by
  show toReal ((mulVec (mzero n n : Mat RF n n) (Vec.toRF b)) i) = 0
  simp only [mulVec, Vec.of_get]
  apply vsum_zero_rf
  intro l
  simp [mzero, Mat.of]

/-- `rplus g a = g + a`: one rounded addition, relative error `u` per coordinate -/
theorem tn_rplus_round (n : Nat) (g a : Vec ℝ n) (i : Fin n) :
    |toReal (((Tn.model n : LieModel RF).rplus (Vec.toRF g) (Vec.toRF a)) i) - ((Tn.model n : LieModel ℝ).rplus g a) i|
      ≤ u * |((Tn.model n : LieModel ℝ).rplus g a) i| := by
  show |toReal ((vadd (Vec.toRF g) (Vec.toRF a)) i) - (vadd g a) i| ≤ u * |(vadd g a) i|
  simpa [vadd, Vec.of] using spec (g i + a i)

/-- `rminus g₁ g₂ = (−g₂) + g₁`: negation exact, one rounded addition -/
theorem tn_rminus_round (n : Nat) (g₁ g₂ : Vec ℝ n) (i : Fin n) :
    |toReal (((Tn.model n : LieModel RF).rminus (Vec.toRF g₁) (Vec.toRF g₂)) i) - ((Tn.model n : LieModel ℝ).rminus g₁ g₂) i|
      ≤ u * |((Tn.model n : LieModel ℝ).rminus g₁ g₂) i| := by
  show |toReal ((vadd (vneg (Vec.toRF g₂)) (Vec.toRF g₁)) i) - (vadd (vneg g₂) g₁) i| ≤ u * |(vadd (vneg g₂) g₁) i|
  simpa [vadd, vneg, Vec.of] using spec (-(g₂ i) + g₁ i)

/-- `exp`, `log`, `inverse` of Tn are exact in rounded arithmetic -/
theorem tn_exp_log_inverse_exact (n : Nat) (a : Vec ℝ n) :
    Vec.toR ((Tn.model n : LieModel RF).exp (Vec.toRF a)) = (Tn.model n : LieModel ℝ).exp a ∧
    Vec.toR ((Tn.model n : LieModel RF).log (Vec.toRF a)) = (Tn.model n : LieModel ℝ).log a ∧
    Vec.toR ((Tn.model n : LieModel RF).inverse (Vec.toRF a)) = (Tn.model n : LieModel ℝ).inverse a := by
  refine ⟨?_, ?_, ?_⟩
  · ext i; rfl
  · ext i; rfl
  · exact tn_inverse_exact a

end Main

/-! ## Non-vacuity -/

example (i : Fin 3) :
    toReal ((@LieModel.bracket RF (@instScalarRF Rounding.binary64) (@Tn.model RF (@instScalarRF Rounding.binary64) 3)
      (Vec.toRF (mk3 1 (1 / 3) (-7))) (Vec.toRF (mk3 (1 / 10) 1000 (2 / 3)))) i) = 0 :=
  @tn_bracket_zero_rounded Rounding.binary64 3 _ _ i

example (i : Fin 2) :
    |toReal ((@LieModel.rplus RF (@Tn.model RF (@instScalarRF Rounding.binary32) 2)
        (Vec.toRF (mk2 (1 / 3) 1000)) (Vec.toRF (mk2 (1 / 7) (1 / 1000)))) i)
      - ((Tn.model 2 : LieModel ℝ).rplus (mk2 (1 / 3) 1000) (mk2 (1 / 7) (1 / 1000))) i|
      ≤ Rounding.binary32.u * |((Tn.model 2 : LieModel ℝ).rplus (mk2 (1 / 3) 1000) (mk2 (1 / 7) (1 / 1000))) i| :=
  @tn_rplus_round Rounding.binary32 2 _ _ i

end C06Round
end
