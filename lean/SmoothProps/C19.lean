/-
  C19 — sparse Lie-group derivative routines equal the dense ones in the designated block
  (property theorems about `SmoothModel/Sparse.lean`, dense values from the `LieModel`s over ℝ).

  Tie to the code: SmoothProofs/Gen/SparsePatterns.lean (published patterns dumped from the running
  code = `Sparse.adPattern/dPattern/d2Pattern`, T2) and the triplet-level correspondence of
  tools/props/c19.py (T1).  Modelled, not verified: Eigen `SparseMatrix` internals.
-/
import SmoothProofs.C19Sparse
import SmoothProofs.C19Leaves
import SmoothProofs.C19Writes
import SmoothProofs.C19Ad
import SmoothProofs.C19Bundle
import SmoothProofs.C19Hess

open Lin Scalar Mem Sparse

namespace C19

/-- **pattern_covers_support** (`dr_exp`, `dr_expinv`): for EVERY descriptor — SO2, SO3, SE2, SE3, C1,
    Rⁿ, Galilei, SE_K_3 and every Bundle list, nested or not — and for ALL tangent vectors `a` over
    ℝ, every entry outside the published `d_exp_sparse_pattern` vanishes in both dense Jacobians
    (SE2: row 2 columns 0,1; SE3: the lower-left block; commutative: off-diagonal; Bundles: the
    off-diagonal blocks and, recursively, the parts). -/
theorem pattern_covers_support (d : GDesc) (a : Vec ℝ (GDesc.model (α := ℝ) d).dof) (r c : Nat)
    (hr : r < dofSize d) (hc : c < dofSize d) (h : (r, c) ∉ dPattern d) :
    getN ((GDesc.model d).dr_exp a) r c = 0 ∧ getN ((GDesc.model d).dr_expinv a) r c = 0 := by
  have hp : inD d r c = false := by
    cases hq : inD d r c with
    | false => rfl
    | true => exact absurd ((mem_gridFilter _ _ _ r c).2 ⟨hr, hc, hq⟩) h
  have hd := model_dof (α := ℝ) d
  exact ⟨dr_exp_cov d a r c (hd ▸ hr) (hd ▸ hc) hp, dr_expinv_cov d a r c (hd ▸ hr) (hd ▸ hc) hp⟩

/-- **pattern_covers_support** (`d2r_exp`, `d2r_expinv`): every entry outside the published
    `d2_exp_sparse_pattern` vanishes in both dense Hessians, for all `a`, for every descriptor
    (SE2: column 8 and the upper-left entries; SE3: the placement of the SO3 Hessian and of `dQ`;
    Bundles: `H[off+r, D(off+j)+off+k]` placement by induction over the parts). -/
theorem pattern_covers_support_hessian (d : GDesc) (a : Vec ℝ (GDesc.model (α := ℝ) d).dof) (r c : Nat)
    (hr : r < dofSize d) (hc : c < dofSize d * dofSize d) (h : (r, c) ∉ d2Pattern d) :
    getN ((GDesc.model d).d2r_exp a) r c = 0 ∧ getN ((GDesc.model d).d2r_expinv a) r c = 0 := by
  have hp : inD2 d r c = false := by
    cases hq : inD2 d r c with
    | false => rfl
    | true => exact absurd ((mem_gridFilter _ _ _ r c).2 ⟨hr, hc, hq⟩) h
  have hd := model_dof (α := ℝ) d
  exact ⟨d2r_exp_cov d a r c (hd ▸ hr) (hd ▸ hc) hp, d2r_expinv_cov d a r c (hd ▸ hr) (hd ▸ hc) hp⟩

/-- **ad_sparse_pattern ⊇ support of ad** for EVERY descriptor (SO2, SO3, SE2, SE3, C1, Rⁿ, Galilei,
    SE_K_3 for every k, and all their Bundles, nested or not) and all tangents over ℝ: every entry
    outside the published `ad_sparse_pattern` vanishes in the dense `ad a` (linearity in `a` is not
    even needed: the entry is identically zero). -/
theorem ad_pattern_covers_support (d : GDesc) (a : Vec ℝ (GDesc.model (α := ℝ) d).dof) (r c : Nat)
    (hr : r < dofSize d) (hc : c < dofSize d) (h : (r, c) ∉ adPattern d) :
    getN ((GDesc.model d).ad a) r c = 0 := by
  have hp : inAd d r c = false := by
    cases hq : inAd d r c with
    | false => rfl
    | true => exact absurd ((mem_gridFilter _ _ _ r c).2 ⟨hr, hc, hq⟩) h
  have hd := model_dof (α := ℝ) d
  exact ad_cov d a r c (hd ▸ hr) (hd ▸ hc) hp

section block
variable {α : Type} [Scalar α]

/-- **only pattern-block entries are addressed**: every `coeffRef` issued by `dr_exp_sparse` /
    `dr_expinv_sparse` — any descriptor, any Bundle nesting, any offset `i0` — goes to
    `(i0 + r, i0 + c)` with `(r, c)` in the published pattern. -/
theorem writes_inside_block (d : GDesc) (inv : Bool) (a : Array α) (i0 : Nat) :
    ∀ w ∈ dWrites inv d a 0 i0,
      ∃ r c, (r, c) ∈ dPattern d ∧ w.1 = i0 + r ∧ w.2.1 = i0 + c := by
  intro w hw
  obtain ⟨r, c, hr, hc, hp, e1, e2⟩ := dWrites_inBlock inv d a 0 i0 w hw
  exact ⟨r, c, (mem_gridFilter _ _ _ r c).2 ⟨hr, hc, hp⟩, e1, e2⟩

/-- **block_write_frame**: if the host pattern contains every position the routine addresses (the
    shifted block), then after `dr_exp_sparse` / `dr_expinv_sparse` the pattern, the compression
    flag, the dimensions and `nonZeros` are unchanged, and every stored value at a position outside
    the shifted published pattern is untouched. -/
theorem block_write_frame (d : GDesc) (inv : Bool) (m : SpMat α) (a : Array α) (i0 : Nat)
    (hhost : ∀ w ∈ dWrites inv d a 0 i0, SpMat.hasKey (w.1, w.2.1) m.entries = true) :
    (drExpSparse d inv m a i0).pattern = m.pattern
    ∧ (drExpSparse d inv m a i0).compressed = m.compressed
    ∧ (drExpSparse d inv m a i0).rows = m.rows ∧ (drExpSparse d inv m a i0).cols = m.cols
    ∧ (drExpSparse d inv m a i0).nonZeros = m.nonZeros
    ∧ ∀ r c, (∀ r' c', (r', c') ∈ dPattern d → (i0 + r', i0 + c') ≠ (r, c)) →
        (drExpSparse d inv m a i0).get? r c = m.get? r c := by
  have hf := SpMat.blockWrite_frame m (dWrites inv d a 0 i0) hhost
  refine ⟨hf.1, hf.2.1, hf.2.2.1, hf.2.2.2.1, hf.2.2.2.2.1, ?_⟩
  intro r c hout
  apply hf.2.2.2.2.2 r c
  intro w hw e
  obtain ⟨r', c', hm, e1, e2⟩ := writes_inside_block d inv a i0 w hw
  exact hout r' c' hm (by rw [← e1, ← e2]; exact e)

/-- the same frame for the Hessian routines (any write list is covered by the general lemma) -/
theorem block_write_frame_hessian (d : GDesc) (inv : Bool) (m : SpMat α) (a : Array α) (i0 : Nat)
    (hhost : ∀ w ∈ d2Writes inv m.rows d a 0 i0, SpMat.hasKey (w.1, w.2.1) m.entries = true) :
    (d2rExpSparse d inv m a i0).pattern = m.pattern
    ∧ (d2rExpSparse d inv m a i0).compressed = m.compressed
    ∧ (d2rExpSparse d inv m a i0).nonZeros = m.nonZeros
    ∧ ∀ r c, (∀ w ∈ d2Writes inv m.rows d a 0 i0, (w.1, w.2.1) ≠ (r, c)) →
        (d2rExpSparse d inv m a i0).get? r c = m.get? r c := by
  have hf := SpMat.blockWrite_frame m (d2Writes inv m.rows d a 0 i0) hhost
  exact ⟨hf.1, hf.2.1, hf.2.2.2.2.1, hf.2.2.2.2.2⟩

/-- **missing_entry_uncompresses**: if the host pattern lacks a position the routine addresses
    (documented precondition violated), `coeffRef` inserts it: the result is NOT compressed and has
    more stored entries — the sparsity structure changed. -/
theorem missing_entry_uncompresses (d : GDesc) (inv : Bool) (m : SpMat α) (a : Array α) (i0 : Nat)
    (hmiss : ∃ w ∈ dWrites inv d a 0 i0, SpMat.hasKey (w.1, w.2.1) m.entries = false) :
    (drExpSparse d inv m a i0).compressed = false ∧ m.nonZeros < (drExpSparse d inv m a i0).nonZeros :=
  SpMat.blockWrite_missing m (dWrites inv d a 0 i0) hmiss

/-- **values_equal_dense** (dense-fallback / specialised-pattern branch: SO3, SE2, SE3, Galilei,
    SE_K_3): when the host contains the shifted block, every entry `(i0 + r, i0 + c)` of the block
    holds exactly the dense model value `dr_exp a r c` (resp. `dr_expinv`) — same `Impl` call. -/
theorem values_equal_dense (d : GDesc) (inv : Bool) (m : SpMat α) (a : Array α) (i0 : Nat)
    (hleaf : dWrites inv d a 0 i0 = denseWrites d inv a 0 i0)
    (hhost : ∀ k ∈ dPattern d, SpMat.hasKey (i0 + k.1, i0 + k.2) m.entries = true)
    (r c : Nat) (hrc : (r, c) ∈ dPattern d) :
    (drExpSparse d inv m a i0).get? (i0 + r) (i0 + c)
      = some (getN (if inv then (GDesc.model (α := α) d).dr_expinv (memoV (ofArray _ a 0))
                    else (GDesc.model (α := α) d).dr_exp (memoV (ofArray _ a 0))) r c) := by
  unfold drExpSparse
  rw [hleaf]
  have hkeys : ∀ w ∈ denseWrites d inv a 0 i0, SpMat.hasKey (w.1, w.2.1) m.entries = true := by
    intro w hw
    simp only [denseWrites, List.mem_map] at hw
    obtain ⟨k, hk, rfl⟩ := hw
    exact hhost k hk
  have hv := SpMat.blockWrite_values m (denseWrites d inv a 0 i0) hkeys (denseWrites_nodup d inv a 0 i0)
  have hmem : (i0 + r, i0 + c, getN (memoM (if inv then (GDesc.model (α := α) d).dr_expinv (memoV (ofArray _ a 0))
      else (GDesc.model (α := α) d).dr_exp (memoV (ofArray _ a 0)))) r c) ∈ denseWrites d inv a 0 i0 := by
    simp only [denseWrites, List.mem_map]
    exact ⟨(r, c), hrc, rfl⟩
  have := hv _ hmem
  simpa [memoM_eq] using this


/-- **values_equal_dense for every descriptor, Bundles included** (any nesting, commutative parts,
    tangent segment offsets and block offsets as the C++ passes them): when the host contains the
    shifted block, then for EVERY entry `(r, c)` of the published pattern of the whole descriptor the
    result holds at `(i0 + r, i0 + c)` exactly the dense model value `dr_exp a r c` (resp.
    `dr_expinv`) of the WHOLE descriptor — for `Bundle.prod A B` the dense `prod` value at the
    shifted indices (`Sparse.prod_block_values`), lifted by induction over `Bundle.bundle ps`. -/
theorem values_equal_dense_all (d : GDesc) (inv : Bool) (m : SpMat α) (a : Array α) (i0 : Nat)
    (hhost : ∀ k ∈ dPattern d, SpMat.hasKey (i0 + k.1, i0 + k.2) m.entries = true)
    (r c : Nat) (hrc : (r, c) ∈ dPattern d) :
    (drExpSparse d inv m a i0).get? (i0 + r) (i0 + c)
      = some (getN (selJ inv (GDesc.model (α := α) d) (ofArray _ a 0)) r c) := by
  have hpat := (mem_gridFilter _ _ _ r c).1 hrc
  have hkeys : ∀ w ∈ dWrites inv d a 0 i0, SpMat.hasKey (w.1, w.2.1) m.entries = true := by
    intro w hw
    obtain ⟨r', c', hm, e1, e2⟩ := writes_inside_block d inv a i0 w hw
    rw [e1, e2]
    exact hhost (r', c') hm
  obtain ⟨w, hw, e1, e2⟩ := dWrites_covers inv d a 0 i0 r c hpat.1 hpat.2.1 hpat.2.2
  obtain ⟨r', c', _, _, _, f1, f2, f3⟩ := dWrites_hasValue inv d a 0 i0 w hw
  have hr' : r' = r := by omega
  have hc' : c' = c := by omega
  subst hr'; subst hc'
  have hv := SpMat.blockWrite_values m (dWrites inv d a 0 i0) hkeys (dWrites_nodup inv d a 0 i0) w hw
  unfold drExpSparse
  rw [← e1, ← e2, hv, f3]

/-- **only pattern-block entries are addressed (Hessian routines)**: every `coeffRef` issued by
    `d2r_exp_sparse` / `d2r_expinv_sparse` — any descriptor, any Bundle nesting, any offset `i0`, any
    host height `rows = sp.rows()` — goes to `(i0 + r, rows·(i0 + c / Dof) + i0 + c % Dof)` with
    `(r, c)` in the published `d2_exp_sparse_pattern`. -/
theorem writes_inside_block_hessian (d : GDesc) (inv : Bool) (rows : Nat) (a : Array α) (i0 : Nat) :
    ∀ w ∈ d2Writes inv rows d a 0 i0,
      ∃ r c, (r, c) ∈ d2Pattern d ∧ w.1 = i0 + r
        ∧ w.2.1 = rows * (i0 + c / dofSize d) + (i0 + c % dofSize d) := by
  intro w hw
  obtain ⟨r, c, hr, hc, hp, e1, e2⟩ := d2Writes_inBlock inv rows d a 0 i0 w hw
  exact ⟨r, c, (mem_gridFilter _ _ _ r c).2 ⟨hr, hc, hp⟩, e1, e2⟩

/-- **values_equal_dense for the Hessian routines, every descriptor, Bundles included** (any
    nesting, commutative parts, tangent segment offsets and block offsets as the C++ passes them).
    When `i0 + Dof ≤ sp.rows()` (the routine's assertion) and the host contains the shifted block,
    then for EVERY entry `(r, c)` of the published `d2_exp_sparse_pattern` of the whole descriptor the
    result holds at `(i0 + r, rows·(i0 + c / Dof) + i0 + c % Dof)` exactly the dense model Hessian
    `d2r_exp a (r, c)` (resp. `d2r_expinv`) of the WHOLE descriptor — for Bundles the placed part
    Hessian `H[off+r, D(off+j)+off+k] = Hᵢ[r, dᵢ·j+k]`, by induction over `Bundle.bundle ps`.
    `ZeroLaws α` (`x + 0 = x`, `0 + x = x`; true for ℝ, ℚ) is needed only because the dense Bundle
    Hessian of the model is written as a sum of placed parts. -/
theorem hessian_values_equal_dense_all (hz : ZeroLaws α) (d : GDesc) (inv : Bool) (m : SpMat α) (a : Array α)
    (i0 : Nat) (hrows : i0 + dofSize d ≤ m.rows)
    (hhost : ∀ k ∈ d2Pattern d,
      SpMat.hasKey (i0 + k.1, m.rows * (i0 + k.2 / dofSize d) + (i0 + k.2 % dofSize d)) m.entries = true)
    (r c : Nat) (hrc : (r, c) ∈ d2Pattern d) :
    (d2rExpSparse d inv m a i0).get? (i0 + r) (m.rows * (i0 + c / dofSize d) + (i0 + c % dofSize d))
      = some (getN (selH inv (GDesc.model (α := α) d) (ofArray _ a 0)) r c) := by
  have hpat := (mem_gridFilter _ _ _ r c).1 hrc
  have hkeys : ∀ w ∈ d2Writes inv m.rows d a 0 i0, SpMat.hasKey (w.1, w.2.1) m.entries = true := by
    intro w hw
    obtain ⟨r', c', hm, e1, e2⟩ := writes_inside_block_hessian d inv m.rows a i0 w hw
    rw [e1, e2]
    exact hhost (r', c') hm
  obtain ⟨w, hw, e1, e2⟩ := d2Writes_covers inv m.rows d a 0 i0 r c hpat.1 hpat.2.1 hpat.2.2
  obtain ⟨r', c', _, hc', _, f1, f2, f3⟩ := d2Writes_hasValue hz inv m.rows d a 0 i0 w hw
  have hr' : r' = r := by omega
  have hc'' : c' = c := hkey_inj m.rows (dofSize d) i0 hrows c' c hc' hpat.2.1 (by rw [← f2, e2])
  subst hr'; subst hc''
  have hv := SpMat.blockWrite_values m (d2Writes inv m.rows d a 0 i0) hkeys
    (d2Writes_nodup inv m.rows d a 0 i0 hrows) w hw
  unfold d2rExpSparse
  rw [← e1, ← e2, hv, f3]

/-- the Hessian product step on its own: inside `Bundle.prod A B` (`D = d_A + d_B`) the dense
    Hessian at `(r, J·D + K)`, `r, J, K < d_A`, is `A`'s Hessian at `(r, J·d_A + K)`, and at
    `(d_A + r, (d_A + J)·D + d_A + K)` it is `B`'s (tangent segment at `ao + d_A`) at `(r, J·d_B + K)` -/
theorem prod_hessian_values (hz : ZeroLaws α) (inv : Bool) (A B : LieModel α) (a : Array α) (ao : Nat) :
    (∀ r J K, r < A.dof → J < A.dof → K < A.dof →
      getN (selH inv (Bundle.prod A B) (ofArray (A.dof + B.dof) a ao)) r (J * (A.dof + B.dof) + K)
        = getN (selH inv A (ofArray A.dof a ao)) r (J * A.dof + K))
    ∧ (∀ r J K, r < B.dof → J < B.dof → K < B.dof →
      getN (selH inv (Bundle.prod A B) (ofArray (A.dof + B.dof) a ao)) (A.dof + r)
          ((A.dof + J) * (A.dof + B.dof) + (A.dof + K))
        = getN (selH inv B (ofArray B.dof a (ao + A.dof))) r (J * B.dof + K)) :=
  ⟨fun r J K => (prod_hess_values hz inv A B a ao).1 A.dof B.dof rfl rfl r J K,
   fun r J K => (prod_hess_values hz inv A B a ao).2 A.dof B.dof rfl rfl r J K⟩

/-- the product step on its own: the block of `Bundle.prod A B` is `A`'s dense value in the
    top-left and `B`'s dense value (tangent segment at `ao + A.dof`) at the indices shifted by `A.dof` -/
theorem prod_values (inv : Bool) (A B : LieModel α) (a : Array α) (ao : Nat) :
    (∀ r c, r < A.dof → c < A.dof →
      getN (selJ inv (Bundle.prod A B) (ofArray (A.dof + B.dof) a ao)) r c
        = getN (selJ inv A (ofArray A.dof a ao)) r c)
    ∧ (∀ r c, r < B.dof → c < B.dof →
      getN (selJ inv (Bundle.prod A B) (ofArray (A.dof + B.dof) a ao)) (A.dof + r) (A.dof + c)
        = getN (selJ inv B (ofArray B.dof a (ao + A.dof))) r c) :=
  ⟨(prod_block_values inv A B a ao).1, fun r c hr hc => (prod_block_values inv A B a ao).2 A.dof rfl r c hr hc⟩

/-- commutative groups: the block is the identity (`sp.coeffRef(i0+i, i0+i) = 1`) -/
theorem values_equal_dense_commutative (n i0 : Nat) (m : SpMat α)
    (hhost : ∀ i, i < n → SpMat.hasKey (i0 + i, i0 + i) m.entries = true) (i : Nat) (hi : i < n) :
    (m.blockWrite (identWrites (α := α) n i0)).get? (i0 + i) (i0 + i) = some (nat 1) := by
  have hkeys : ∀ w ∈ identWrites (α := α) n i0, SpMat.hasKey (w.1, w.2.1) m.entries = true := by
    intro w hw
    simp only [identWrites, List.mem_map, List.mem_range] at hw
    obtain ⟨j, hj, rfl⟩ := hw
    exact hhost j hj
  have hnd : ((identWrites (α := α) n i0).map (fun w => (w.1, w.2.1))).Nodup := by
    simp only [identWrites, List.map_map]
    apply List.Nodup.map _ List.nodup_range
    intro x y h
    have := (Prod.mk.inj h).1
    dsimp only at this
    omega
  exact SpMat.blockWrite_values m _ hkeys hnd (i0 + i, i0 + i, nat 1)
    (by simp only [identWrites, List.mem_map, List.mem_range]; exact ⟨i, hi, rfl⟩)


/-- **ad_sparse keeps the structure**: `ad_sparse` on a compressed `Dof × Dof` host whose pattern
    contains the generators' patterns (e.g. a copy of `ad_sparse_pattern`, or any superset) returns
    a compressed matrix with exactly the host's pattern and `nonZeros`; every stored value is
    recomputed as `0 + Σ a_k · generator_k` (the whole matrix is the designated block). -/
theorem ad_sparse_frame (d : GDesc) (m : SpMat α) (a : Array α)
    (hdim : m.rows = dofSize d ∧ m.cols = dofSize d) (hs : SortedKeys m.entries)
    (hgen : ∀ k, k < dofSize d → ∀ key ∈ (generator (α := α) d k).map Prod.fst, key ∈ m.pattern) :
    ∃ m', adSparse d m a = some m' ∧ m'.pattern = m.pattern ∧ m'.compressed = true
      ∧ m'.nonZeros = m.nonZeros ∧ m'.rows = m.rows ∧ m'.cols = m.cols :=
  adSparse_frame d m a hdim hs hgen

/-- Bundles: the routine is the sequence of the parts' routines at the parts' offsets
    (`i0 + DofsPsum[k]`, tangent segment `a.segment(DofsPsum[k], Dof_k)`) -/
theorem bundle_writes_concat (inv : Bool) (p : GDesc) (ps : List GDesc) (a : Array α) (ao i0 : Nat) :
    dWritesL inv (p :: ps) a ao i0 = dWrites inv p a ao i0 ++ dWritesL inv ps a (ao + dofSize p) (i0 + dofSize p) := rfl

end block

/-- **The sparse Hessian IS the dense Hessian, over ℝ, for every descriptor**: for every
    `(r, c)` with `r < Dof`, `c < Dof²` — inside the published pattern the stored value of
    `d2r_exp_sparse` / `d2r_expinv_sparse` is the dense model value, outside the pattern (nothing is
    stored) the dense model value is `0`. -/
theorem hessian_sparse_equals_dense (d : GDesc) (inv : Bool) (m : SpMat ℝ) (a : Array ℝ) (i0 : Nat)
    (hrows : i0 + dofSize d ≤ m.rows)
    (hhost : ∀ k ∈ d2Pattern d,
      SpMat.hasKey (i0 + k.1, m.rows * (i0 + k.2 / dofSize d) + (i0 + k.2 % dofSize d)) m.entries = true)
    (r c : Nat) (hr : r < dofSize d) (hc : c < dofSize d * dofSize d) :
    ((r, c) ∈ d2Pattern d →
      (d2rExpSparse d inv m a i0).get? (i0 + r) (m.rows * (i0 + c / dofSize d) + (i0 + c % dofSize d))
        = some (getN (selH inv (GDesc.model (α := ℝ) d) (ofArray _ a 0)) r c))
    ∧ ((r, c) ∉ d2Pattern d → getN (selH inv (GDesc.model (α := ℝ) d) (ofArray _ a 0)) r c = 0) := by
  refine ⟨hessian_values_equal_dense_all zeroLaws_real d inv m a i0 hrows hhost r c, ?_⟩
  intro hn
  have h := pattern_covers_support_hessian d (ofArray _ a 0) r c hr hc hn
  cases inv
  · exact h.1
  · exact h.2

/-- non-vacuity of `hessian_values_equal_dense_all`: SE(2) inside a Bundle `[R¹, SE(2)]` (`Dof = 4`,
    10 pattern entries, all in rows/blocks 1..3), host = the published pattern itself, `i0 = 0` -/
example : ZeroLaws ℝ ∧ (d2Pattern (.bundle [.tn 1, .se2])).length = 10
    ∧ ∀ k ∈ d2Pattern (.bundle [.tn 1, .se2]),
      SpMat.hasKey (0 + k.1, 4 * (0 + k.2 / dofSize (.bundle [.tn 1, .se2])) + (0 + k.2 % dofSize (.bundle [.tn 1, .se2])))
        ((d2Pattern (.bundle [.tn 1, .se2])).map (fun k => (k, (0 : Nat)))) = true := by
  refine ⟨zeroLaws_real, by decide, by decide⟩

/- ### non-vacuity: the published patterns of the model (kernel-evaluated) and a concrete block write -/
example : dPattern .se2 = [(0, 0), (1, 0), (0, 1), (1, 1), (0, 2), (1, 2), (2, 2)] := by decide
example : (2, 0) ∉ dPattern .se2 ∧ (2, 1) ∉ dPattern .se2 := by decide
example : adPattern .so3 = [(1, 0), (2, 0), (0, 1), (2, 1), (0, 2), (1, 2)] := by decide
example : (d2Pattern .se2).length = 10 ∧ (d2Pattern .se3).length = 108 ∧ (dPattern .se3).length = 27 := by decide
example : dPattern (.bundle [.tn 1, .se2]) = [(0, 0), (1, 1), (2, 1), (1, 2), (2, 2), (1, 3), (2, 3), (3, 3)] := by decide
example : (adPattern .gal).length = 36 ∧ (adPattern (.bundle [.gal, .tn 4])).length = 36 := by decide
/-- a present entry is overwritten, a missing one is inserted and compression is lost -/
example : ((⟨2, 2, [((0, 0), (5 : Nat)), ((1, 1), 6)], true⟩ : SpMat Nat).coeffRef 1 1 9).entries = [((0, 0), 5), ((1, 1), 9)]
    ∧ ((⟨2, 2, [((0, 0), (5 : Nat)), ((1, 1), 6)], true⟩ : SpMat Nat).coeffRef 1 0 9).entries
        = [((0, 0), 5), ((1, 0), 9), ((1, 1), 6)]
    ∧ ((⟨2, 2, [((0, 0), (5 : Nat)), ((1, 1), 6)], true⟩ : SpMat Nat).coeffRef 1 0 9).compressed = false := by decide

end C19
