/-
  C14 — Curve construction meets its specification (property theorems).

  Models: SmoothModel/Fit.lean (`fit_spline_1d` rows / KKT assembly, `fit_spline` glue,
  `fit_bspline` sizes), SmoothModel/Dubins.lean, SmoothModel/Reparam.lean; executable at Float and
  tied to the running implementation by tools/props/c14.py (tables and rows bit for bit / to
  rounding, Dubins word and lengths bit for bit, B-spline sizes, reparameterisation bookkeeping
  with the implementation's own LP results).  Helper lemmas: SmoothProofs/C14{Rows,Bern,Mean,Glue,Scan,Kkt,Gram,Dubins,DubinsCcc,Global}.lean
  (`C14.seg`, `C14.P`, `C14.Q` — the segment polynomials — are defined in C14Mean.lean).

  Proved since round 2 (formerly `…_statement` only): `monomial_integral_gram/psd` (the cost table is
  the Gram matrix of the O-th monomial derivatives), `kkt_entries_are_block_matrix` +
  `kkt_cost_posdef` + `fit_kkt_solution_is_minimiser` (the triplet list IS `[Q Aᵀ; A 0]`, `Q` is
  symmetric positive definite, a solution of the assembled system is the strict minimiser), and
  `dubins_ccc_reaches_target` (RLR / LRL end pose, boundary `d13 = 4R` included).

  Parameters of the model (contract audited by the check, not proved): the sparse solves
  (`SparseLU` on the constraint system / on the KKT system) and `lp2d::solve`.  Every theorem below is about what the code
  does AROUND them: which linear system it poses and what its solutions mean (`rows_mean_constraints`
  — for every specification, every degree and every number of segments), what `fit_spline` does
  with ANY output of the 1-d solver (`fit_spline_interpolates`), which word the scan returns for
  ANY six candidates (`dubins_argmin`), and what the guards of `reparameterize_spline` guarantee
  for ANY result of the linear programme.

  Defects located with these theorems' hypotheses on the pinned tree, since fixed in /repo (the
  model follows the fixed code; a reappearance is a violation):
  * MinDerivative: the rows were right (`rows_mean_constraints`), the unpivoted LDLᵀ of the KKT
    matrix with cost blocks `dt^{1−2D}·P + 1e-6·I` (`costFac_minDerivative`) did not solve them
    for `dt ≲ 0.9` — now `SparseLU` on the full symmetric matrix (`kktEntries` mirrors `A`);
  * `fit_bspline`: the count rounded `(t1−t0+dt)/dt` separately from the window index
    `(t−t0)/dt` — now `bspline_window` holds for any monotone rounding;
  * `dubins`: exactly tangent circles were excluded (`d13 ≤ 2R`, `4R ≤ d13`) — now strict;
  * `reparameterize_spline`: `reparam_guard_needed` — the duration is 0 when a clamped speed meets
    a forced deceleration; the code now emits a segment only `if (dt > 0)`
    (`reparam_emitted_positive`) and clamps/initialises `v2max` (`reparam_v2max_nonneg`).
  Still open (known findings): stationary stretches are skipped (`s(0) ≠ t_min` for a curve at
  rest at `t_min`); `start_vel = 0` with `|ai| < eps` divides by `vi = 0`.
-/
import SmoothProofs.C14Mean
import SmoothProofs.C14Glue
import SmoothProofs.C14Scan
import SmoothProofs.C14Kkt
import SmoothProofs.C14Dubins
import SmoothProofs.C14Global
import SmoothProofs.C14Gram
import SmoothProofs.C14DubinsCcc
import SmoothProofs.C14KktFit
import Mathlib.Tactic.NormNum

open Polynomial Scalar Lin

namespace C14

/-! ## 1. `fit_spline_1d`: the rows mean the constraints of the specification -/

/-- the constraints of a spline specification on piecewise polynomials:
    interpolation `pᵢ(0) = 0`, `pᵢ(dtᵢ) = dxᵢ`; continuity of the derivatives of order
    `1..InnCnt` at the inner knots; boundary derivatives.  The boundary values are derivatives
    with respect to the normalised parameter of the first / last segment, as the code defines
    them (`dt₀^d · p₀^{(d)}(0) = value`; for the value 0 this is `p₀^{(d)}(0) = 0`). -/
def MeetsSpec (s : Fit.Spec) (dt dx lv rv : List ℝ) (x : ℕ → ℝ) : Prop :=
  (∀ p ∈ s.leftDeg.zip lv, (derivative^[p.1] (Q s x 0)).eval 0 = p.2) ∧
  (∀ i < Fit.nSeg dt dx, (P s dt x i).eval 0 = 0 ∧
      (0 ≤ s.innCnt → (P s dt x i).eval (dt.getD i 0) = dx.getD i 0)) ∧
  (∀ k < Fit.nSeg dt dx - 1, ∀ d, 1 ≤ d → d ≤ s.innCnt.toNat →
      (derivative^[d] (P s dt x k)).eval (dt.getD k 0) = (derivative^[d] (P s dt x (k + 1))).eval 0) ∧
  (∀ p ∈ s.rghtDeg.zip rv, (derivative^[p.1] (Q s x (Fit.nSeg dt dx - 1))).eval 1 = p.2)

/-- **rows_mean_constraints.**  For every spline specification (any degree `K`, any `InnCnt`, any
    boundary orders — in particular PiecewiseLinear, FixedDerCubic, MinDerivative⟨5|6⟩), any number
    of segments and any non-zero sampling intervals: a coefficient vector satisfies the linear
    system `A x = b` assembled by `fit_spline_1d` **iff** the piecewise polynomials it defines
    meet the specification. -/
theorem rows_mean_constraints (s : Fit.Spec) (dt dx lv rv : List ℝ) (x : ℕ → ℝ)
    (hdt : ∀ i < Fit.nSeg dt dx, dt.getD i 0 ≠ 0) :
    Fit.RowsSat (Fit.rows s dt dx lv rv) x ↔ MeetsSpec s dt dx lv rv x := by
  rw [Fit.rowsSat_rows_iff]
  unfold MeetsSpec
  refine and_congr ?_ (and_congr ?_ (and_congr ?_ ?_))
  · apply forall_congr'; intro p; apply imp_congr_right; intro _
    rw [segDot_u0, Q, Fit.bezier_deriv_eval_zero]
  · apply forall_congr'; intro i; apply imp_congr_right; intro hi
    have h := hdt i hi
    have e0 := P_deriv_at_start s dt x i 0 h
    have e1 := P_deriv_at_end s dt x i 0 h
    simp only [Function.iterate_zero, id_eq, pow_zero, one_mul] at e0 e1
    rw [segDot_u0, segDot_u1, e0, e1]
  · apply forall_congr'; intro k; apply imp_congr_right; intro hk
    have hk0 : dt.getD k 0 ≠ 0 := hdt k (by omega)
    have hk1 : dt.getD (k + 1) 0 ≠ 0 := hdt (k + 1) (by omega)
    constructor
    · intro h d hd1 hd2
      obtain ⟨d', rfl⟩ : ∃ d', d = d' + 1 := ⟨d - 1, by omega⟩
      have := h d' (by omega)
      rw [segDot_u1, segDot_u0] at this
      rw [P_deriv_at_end s dt x k _ hk0, P_deriv_at_start s dt x (k + 1) _ hk1, one_div_pow, one_div_pow]
      linarith
    · intro h d' hd'
      have := h (d' + 1) (by omega) (by omega)
      rw [P_deriv_at_end s dt x k _ hk0, P_deriv_at_start s dt x (k + 1) _ hk1, one_div_pow, one_div_pow] at this
      rw [segDot_u1, segDot_u0]
      linarith
  · apply forall_congr'; intro p; apply imp_congr_right; intro _
    rw [segDot_u1, Q, Fit.bezier_deriv_eval_one]

/-- `A.prune(1e-9)` removes only entries that do not matter: with threshold 0 exactly the zeros,
    and with the code's threshold `τ = 1e-21` nothing else as long as every non-zero entry
    exceeds it (entries are integers times `dt^{−d}`, `d ≤ 3`, `dt ≤ 1e2`: at least 1e-6). -/
theorem prune_harmless (τ : ℝ) (r : Fit.Row ℝ) (x : ℕ → ℝ)
    (h : ∀ e ∈ r.ent, e.2 = 0 ∨ τ < |e.2|) :
    Fit.rowDot (Fit.pruneRow τ r) x = Fit.rowDot r x := by
  obtain ⟨ent, rhs⟩ := r
  unfold Fit.rowDot Fit.pruneRow
  simp only [Fit.lsum_eq_sum]
  induction ent with
  | nil => simp
  | cons e t ih =>
    have ht : ∀ e ∈ t, e.2 = 0 ∨ τ < |e.2| := fun e he => h e (List.mem_cons_of_mem _ he)
    have ih' := ih ht
    simp only [List.filter_cons]
    split
    · simp only [List.map_cons, List.sum_cons]
      rw [ih']
    · rename_i hk
      have h0 : e.2 = 0 := by
        rcases h e (List.mem_cons_self ..) with h0 | h0
        · exact h0
        · exfalso; apply hk; simp only [decide_eq_true_eq]; rw [Reparam.abs_real]; exact h0
      simp only [List.map_cons, List.sum_cons, h0, zero_mul, zero_add]
      exact ih'

/-- the number of rows is the code's `N_eq` -/
theorem rows_length (s : Fit.Spec) (dt dx lv rv : List ℝ) (h0 : 0 ≤ s.innCnt)
    (hl : lv.length = s.leftDeg.length) (hr : rv.length = s.rghtDeg.length) :
    (Fit.rows s dt dx lv rv).length = s.nEq (Fit.nSeg dt dx) := by
  rw [Fit.length_rows s dt dx lv rv hl hr]
  unfold Fit.Spec.nEq
  simp only [h0, if_true]
  by_cases hp : 0 < s.innCnt
  · simp only [hp, if_true]; ring
  · have : s.innCnt.toNat = 0 := by omega
    simp only [hp, if_false, this]; ring

/-- the interpolating specifications pose SQUARE systems (`assert(N_eq == N_coef)`), the
    derivative-minimising ones under-determined ones (`assert(N_coef >= N_eq)`) -/
theorem square_piecewiseLinear (N : ℕ) : Fit.piecewiseLinear.nEq N = Fit.piecewiseLinear.nCoef N := by
  simp [Fit.Spec.nEq, Fit.Spec.nCoef, Fit.piecewiseLinear]; ring

theorem square_fixedDerCubic (p1 p2 N : ℕ) (hN : 1 ≤ N) :
    (Fit.fixedDerCubic p1 p2).nEq N = (Fit.fixedDerCubic p1 p2).nCoef N := by
  simp [Fit.Spec.nEq, Fit.Spec.nCoef, Fit.fixedDerCubic]; omega

theorem underdetermined_minDerivative (K N : ℕ) (hK : 5 ≤ K) (hN : 1 ≤ N) :
    (Fit.minDerivative K 3 3).nEq N ≤ (Fit.minDerivative K 3 3).nCoef N := by
  obtain ⟨n, rfl⟩ : ∃ n, N = n + 1 := ⟨N - 1, by omega⟩
  have h6 : 6 * (n + 1) ≤ (K + 1) * (n + 1) := Nat.mul_le_mul_right _ (by omega)
  simp [Fit.Spec.nEq, Fit.Spec.nCoef, Fit.minDerivative]
  omega

/-- the cost-block factor of `MinDerivative<K,3,3>` is `dt^{−5} = dt^{1−2D}` with `D = 3` the
    maximal constrained derivative (which here equals `OptDeg`) -/
theorem costFac_minDerivative (K : ℕ) (dt : ℝ) :
    Fit.costFac (Fit.minDerivative K 3 3) dt = 1 / dt ^ 5 := by
  have hD : (Fit.minDerivative K 3 3).D = 3 := rfl
  unfold Fit.costFac
  rw [hD, Fit.ipow_real]
  simp

/-- **kkt_minimiser** — the optimising specifications.  For a symmetric cost matrix `Q` that is
    positive semidefinite on `ker A`, the primal part `x` of ANY solution `(x, l)` of the KKT system
    `[Q Aᵀ; A 0][x; l] = [0; b]` that `fit_spline_1d` assembles and hands to the sparse solver
    minimises `½ xᵀQx` over `{y | A y = b}`. -/
theorem kkt_minimiser {n m : Type} [Fintype n] [Fintype m] (Q : Matrix n n ℝ) (A : Matrix m n ℝ) (b : m → ℝ)
    (hQ : Q.transpose = Q) (hpsd : ∀ d, A.mulVec d = 0 → 0 ≤ Fit.Kkt.quad Q d)
    (x : n → ℝ) (l : m → ℝ) (h : Fit.Kkt.IsKKT Q A b x l) (y : n → ℝ) (hy : A.mulVec y = b) :
    Fit.Kkt.quad Q x / 2 ≤ Fit.Kkt.quad Q y / 2 :=
  Fit.Kkt.kkt_minimises Q A b hQ hpsd x l h y hy

/-- … and if `Q` is positive definite on `ker A` the minimiser is strict and `x` is unique -/
theorem kkt_minimiser_unique {n m : Type} [Fintype n] [Fintype m] (Q : Matrix n n ℝ) (A : Matrix m n ℝ) (b : m → ℝ)
    (hQ : Q.transpose = Q) (hpd : ∀ d, A.mulVec d = 0 → d ≠ 0 → 0 < Fit.Kkt.quad Q d)
    (x : n → ℝ) (l : m → ℝ) (h : Fit.Kkt.IsKKT Q A b x l) :
    (∀ y, A.mulVec y = b → y ≠ x → Fit.Kkt.quad Q x < Fit.Kkt.quad Q y) ∧
    (∀ x' l', Fit.Kkt.IsKKT Q A b x' l' → x' = x) :=
  ⟨fun y hy hne => Fit.Kkt.kkt_strict Q A b hQ hpd x l h y hy hne,
   fun x' l' h' => Fit.Kkt.kkt_unique Q A b hQ hpd x x' l l' h h'⟩

/-- the code's cost blocks `dt^{1−2D}·P + 1e-6·I` are symmetric positive definite (everywhere, hence
    on `ker A`) as soon as `P = BᵀMB` is positive semidefinite, which it inherits from the Gram
    matrix `M = ∫₀¹ u^{(O)} u^{(O)ᵀ}du` of `monomial_integral` -/
theorem cost_block_posdef {n : Type} [Fintype n] [DecidableEq n] (M B : Matrix n n ℝ)
    (hM : ∀ d, 0 ≤ Fit.Kkt.quad M d) (hMs : M.transpose = M) (fac ε : ℝ) (hfac : 0 ≤ fac) (hε : 0 < ε) :
    (fac • (B.transpose * M * B) + ε • (1 : Matrix n n ℝ)).transpose
        = fac • (B.transpose * M * B) + ε • (1 : Matrix n n ℝ) ∧
    ∀ d, d ≠ 0 → 0 < Fit.Kkt.quad (fac • (B.transpose * M * B) + ε • (1 : Matrix n n ℝ)) d := by
  refine ⟨Fit.Kkt.reg_symm _ ?_ fac ε, fun d hd => Fit.Kkt.quad_reg_pos _ (Fit.Kkt.congr_psd M B hM) fac ε hfac hε d hd⟩
  rw [Matrix.transpose_mul, Matrix.transpose_mul, Matrix.transpose_transpose, hMs, Matrix.mul_assoc]

/-- **monomial_integral_gram**: `monomial_integral<K,O>()[i][j]` is the `L²[0,1]` inner product of
    the `O`-th derivatives of the monomials `xⁱ`, `xʲ` — for every `K`, every `O` (for `i < O` or
    `j < O` the derivative vanishes and the code writes 0; for `O > K` the whole matrix is 0) -/
theorem monomial_integral_gram (K O : ℕ) (i j : Fin (K + 1)) :
    (Fit.monoIntegral (α := ℝ) K O) i j =
      ∫ x in (0 : ℝ)..1, (derivative^[O] (X ^ i.val : ℝ[X])).eval x * (derivative^[O] (X ^ j.val : ℝ[X])).eval x :=
  Fit.monoIntegral_gram K O i j

/-- … in closed form: `c_i c_j / (i + j − 2O + 1)` with `c_i = i!/(i−O)!`, zero unless `i, j ≥ O` -/
theorem monomial_integral_entries (K O : ℕ) (i j : Fin (K + 1)) :
    (Fit.monoIntegral (α := ℝ) K O) i j =
      if O ≤ i.val ∧ O ≤ j.val then
        ((i.val.descFactorial O * j.val.descFactorial O : ℕ) : ℝ) / ((i.val + j.val - 2 * O + 1 : ℕ) : ℝ)
      else 0 :=
  Fit.monoIntegral_apply K O i j

/-- **monomial_integral_psd**: the quadratic form of `monomial_integral<K,O>` is
    `∫₀¹ (Σᵢ dᵢ (xⁱ)^{(O)})² dx`, hence positive semidefinite (the hypothesis `hM` of
    `cost_block_posdef`), and the matrix is symmetric (`hMs`) -/
theorem monomial_integral_psd (K O : ℕ) (d : Fin (K + 1) → ℝ) :
    Fit.Kkt.quad (Matrix.of (fun i j : Fin (K + 1) => (Fit.monoIntegral (α := ℝ) K O) i j)) d
      = ∫ x in (0 : ℝ)..1, (∑ i : Fin (K + 1), d i * (derivative^[O] (X ^ i.val : ℝ[X])).eval x) ^ 2 ∧
    0 ≤ Fit.Kkt.quad (Matrix.of (fun i j : Fin (K + 1) => (Fit.monoIntegral (α := ℝ) K O) i j)) d ∧
    (Matrix.of (fun i j : Fin (K + 1) => (Fit.monoIntegral (α := ℝ) K O) i j)).transpose
      = Matrix.of (fun i j : Fin (K + 1) => (Fit.monoIntegral (α := ℝ) K O) i j) :=
  ⟨Fit.quad_monoIntegral K O d, Fit.monoIntegral_psd K O d,
    by ext i j; exact Fit.monoIntegral_symm K O j i⟩

/-- the statement under its historical name (formerly open) … -/
def monomial_integral_psd_statement : Prop :=
  ∀ (K O : ℕ) (d : Fin (K + 1) → ℝ),
    0 ≤ Fit.Kkt.quad (Matrix.of (fun i j : Fin (K + 1) => (Fit.monoIntegral (α := ℝ) K O) i j)) d

/-- … now a theorem -/
theorem monomial_integral_psd_statement_holds : monomial_integral_psd_statement :=
  fun K O d => (monomial_integral_psd K O d).2.1

/-- the code's cost block of a segment, `dt^{1−2D}·BᵀMB + 1e-6·I` with `M = monomial_integral<K,O>`
    and `B` the Bernstein→monomial matrix, is symmetric positive definite for every `K`, `O`, and
    every factor `fac ≥ 0` (`cost_block_posdef` with its hypotheses discharged) -/
theorem cost_block_posdef_monomial (K O : ℕ) (B : Matrix (Fin (K + 1)) (Fin (K + 1)) ℝ) (fac ε : ℝ)
    (hfac : 0 ≤ fac) (hε : 0 < ε) (d : Fin (K + 1) → ℝ) (hd : d ≠ 0) :
    0 < Fit.Kkt.quad (fac • (B.transpose *
        Matrix.of (fun i j : Fin (K + 1) => (Fit.monoIntegral (α := ℝ) K O) i j) * B)
        + ε • (1 : Matrix (Fin (K + 1)) (Fin (K + 1)) ℝ)) d :=
  (cost_block_posdef _ B (fun d => (monomial_integral_psd K O d).2.1) (monomial_integral_psd K O d).2.2
    fac ε hfac hε).2 d hd

/-- **kkt_entries_are_block_matrix**: the triplet list `kktEntries` that `fit_spline_1d` inserts
    into `H` (cost blocks, then every entry of the pruned `A` at `(nC + row, col)` and mirrored at
    `(col, nC + row)`) IS the block matrix `[Q Aᵀ; A 0]` of `kkt_minimiser`: a vector `z` solves
    `H z = [0; b]` iff its head `x = z|_{< nC}` and tail `l = z|_{≥ nC}` satisfy
    `Q x + Aᵀ l = 0`, `A x = b`, with `Q = tripMat qPart` the block-diagonal matrix of the segment
    cost blocks, `A = rowMat` the dense matrix of the pruned constraint rows and `b` their
    right-hand sides.  (Entries at equal places add up in `tripMul`; `SparseMatrix::insert` is only
    defined for distinct places, where this is the entry.) -/
theorem kkt_entries_are_block_matrix (s : Fit.Spec) (O : ℕ) (τ : ℝ) (dt dx lv rv : List ℝ)
    (hN : 1 ≤ Fit.nSeg dt dx) (h0 : 0 ≤ s.innCnt)
    (hl : lv.length = s.leftDeg.length) (hr : rv.length = s.rghtDeg.length) (z : ℕ → ℝ) :
    (∀ r < s.nCoef (Fit.nSeg dt dx) + s.nEq (Fit.nSeg dt dx),
        Fit.Kkt.tripMul (Fit.kktEntries s O τ dt dx lv rv) z r = (Fit.kktRhs s dt dx lv rv).getD r 0) ↔
      Fit.Kkt.IsKKT (Fit.Kkt.tripMat (s.nCoef (Fit.nSeg dt dx)) (Fit.Kkt.qPart s O dt dx))
        (Fit.Kkt.rowMat (s.nCoef (Fit.nSeg dt dx)) ((Fit.rows s dt dx lv rv).map (Fit.pruneRow τ)))
        (fun k => ((Fit.rows s dt dx lv rv).map (Fit.pruneRow τ))[k].rhs)
        (fun c => z c.val) (fun k => z (s.nCoef (Fit.nSeg dt dx) + k.val)) :=
  Fit.Kkt.kktEntries_iff_isKKT s O τ dt dx lv rv hN (rows_length s dt dx lv rv h0 hl hr) z

/-- the assembled cost matrix `Q` is symmetric, and positive definite as soon as every sampling
    interval is positive: its quadratic form is `Σ_segments d_segᵀ (dt^{1−2D}·BᵀMB + 1e-6·I) d_seg`
    and every block is positive definite by `monomial_integral_psd` -/
theorem kkt_cost_posdef (s : Fit.Spec) (O : ℕ) (dt dx : List ℝ)
    (hdt : ∀ i < Fit.nSeg dt dx, 0 < dt.getD i 0) :
    (Fit.Kkt.tripMat (s.nCoef (Fit.nSeg dt dx)) (Fit.Kkt.qPart s O dt dx)).transpose
        = Fit.Kkt.tripMat (s.nCoef (Fit.nSeg dt dx)) (Fit.Kkt.qPart s O dt dx) ∧
    ∀ d, d ≠ 0 → 0 < Fit.Kkt.quad (Fit.Kkt.tripMat (s.nCoef (Fit.nSeg dt dx)) (Fit.Kkt.qPart s O dt dx)) d :=
  ⟨Fit.Kkt.qPart_symm s O dt dx _, fun d hd => Fit.Kkt.qPart_posdef s O dt dx hdt d hd⟩

/-- **fit_kkt_solution_is_minimiser** — the chain closed, for every optimising specification, every
    degree, every number of segments: if `z` solves the linear system that `fit_spline_1d`
    assembles (`H z = rhs`, the contract of `SparseLU`), then its first `nC` entries satisfy every
    (pruned) constraint row and have strictly smaller cost `xᵀQx` than any other coefficient
    vector that satisfies them. -/
theorem fit_kkt_solution_is_minimiser (s : Fit.Spec) (O : ℕ) (τ : ℝ) (dt dx lv rv : List ℝ)
    (hN : 1 ≤ Fit.nSeg dt dx) (h0 : 0 ≤ s.innCnt)
    (hl : lv.length = s.leftDeg.length) (hr : rv.length = s.rghtDeg.length)
    (hdt : ∀ i < Fit.nSeg dt dx, 0 < dt.getD i 0) (z : ℕ → ℝ)
    (hsol : ∀ r < s.nCoef (Fit.nSeg dt dx) + s.nEq (Fit.nSeg dt dx),
        Fit.Kkt.tripMul (Fit.kktEntries s O τ dt dx lv rv) z r = (Fit.kktRhs s dt dx lv rv).getD r 0) :
    Fit.RowsSat ((Fit.rows s dt dx lv rv).map (Fit.pruneRow τ)) z ∧
    ∀ y : ℕ → ℝ, Fit.RowsSat ((Fit.rows s dt dx lv rv).map (Fit.pruneRow τ)) y →
      (fun c : Fin (s.nCoef (Fit.nSeg dt dx)) => y c.val) ≠ (fun c => z c.val) →
      Fit.Kkt.quad (Fit.Kkt.tripMat (s.nCoef (Fit.nSeg dt dx)) (Fit.Kkt.qPart s O dt dx)) (fun c => z c.val)
        < Fit.Kkt.quad (Fit.Kkt.tripMat (s.nCoef (Fit.nSeg dt dx)) (Fit.Kkt.qPart s O dt dx)) (fun c => y c.val) := by
  have hk := (kkt_entries_are_block_matrix s O τ dt dx lv rv hN h0 hl hr z).1 hsol
  have hcols := Fit.Kkt.pruned_cols s τ dt dx lv rv hN
  obtain ⟨hsym, hpd⟩ := kkt_cost_posdef s O dt dx hdt
  refine ⟨(Fit.Kkt.rowMat_mulVec_eq_iff _ _ hcols z).1 hk.2, fun y hy hne => ?_⟩
  exact (kkt_minimiser_unique _ _ _ hsym (fun d _ hd => hpd d hd) _ _ hk).1 _
    ((Fit.Kkt.rowMat_mulVec_eq_iff _ _ hcols y).2 hy) hne

/-! ### first / last cumulative coefficient and rest at the ends -/

/-- **rest at the start** (K ∈ {3,5,6}: FixedDerCubic<1,·>, MinDerivative<5|6>): if the
    specification asks for zero boundary velocity, every solution of the rows has
    `x₀,₁ = x₀,₀`, i.e. the first cumulative coefficient `V(·,1) − V(·,0)` that `fit_spline`
    forms is 0 — and the body velocity of a cumulative spline at the start of a segment is
    `K·v₁/dt` (C11). -/
theorem rest_at_start (s : Fit.Spec) (hK : s.K = 3 ∨ s.K = 5 ∨ s.K = 6) (dt dx lv rv : List ℝ) (x : ℕ → ℝ)
    (hsat : Fit.RowsSat (Fit.rows s dt dx lv rv) x) (h1 : (1, (0 : ℝ)) ∈ s.leftDeg.zip lv) :
    x 1 - x 0 = 0 := by
  have h := ((Fit.rowsSat_rows_iff s dt dx lv rv x).1 hsat).1 _ h1
  rw [segDot_u0] at h
  have hseg : seg s.K x 0 = x := by funext j; simp [seg]
  rw [hseg] at h
  rcases hK with hK | hK | hK <;> rw [hK] at h
  · rw [D0_one_3] at h; linarith
  · rw [D0_one_5] at h; linarith
  · rw [D0_one_6] at h; linarith

/-! ## 2. `fit_spline`: every segment ends exactly at the next data point -/

/-- **fit_spline_interpolates** (degree `K > 2`).  Whatever the 1-d solver returned (`cum` is
    arbitrary), the segment `Spline(dt, cum_coefs, g)` built after the middle coefficient has been
    re-solved ends at `g_next`: `g · exp(v₁) ⋯ exp(v_K) = g_next` in any multiplicative
    interpretation `I` of the group model (C01), given `exp ∘ log = id` at the re-solved value
    (C02).  Since `concat_global` starts the next segment at `g_next` and `Spline::operator()`
    evaluates `g ∘ cspline_eval_vs` (C11/C12), the curve passes through every data point from
    both sides. -/
theorem fit_spline_interpolates {G : LieModel ℝ} {H : Type*} [Group H] (I : Fit.Interp G H)
    (K : ℕ) (hK : 2 < K) (cum : ℕ → Vec ℝ G.dof) (g gnext : Vec ℝ G.rep) (hg : I.V g) (hn : I.V gnext)
    (hEL : I.M (G.exp (G.log (Fit.midValue G K cum g gnext))) = I.M (Fit.midValue G K cum g gnext)) :
    I.M (Fit.segEnd G K (Fit.resolveMid G K cum g gnext) g) = I.M gnext :=
  Fit.segEnd_resolveMid I K hK cum g gnext hg hn hEL

/-- degree 1 (PiecewiseLinear): the segment ends at the next data point when the 1-d systems are
    solved exactly (`x₁ − x₀ = dx = rminus(g_next, g)`, by `rows_mean_constraints`) -/
theorem fit_spline_interpolates_linear {G : LieModel ℝ} {H : Type*} [Group H] (I : Fit.Interp G H)
    (cum : ℕ → Vec ℝ G.dof) (g gnext : Vec ℝ G.rep) (hg : I.V g) (hn : I.V gnext)
    (hcum : cum 0 = G.rminus gnext g)
    (hEL : I.M (G.exp (G.log (G.composition (G.inverse g) gnext))) = I.M (G.composition (G.inverse g) gnext)) :
    I.M (Fit.segEnd G 1 (Fit.resolveMid G 1 cum g gnext) g) = I.M gnext :=
  Fit.segEnd_linear I cum g gnext hg hn hcum hEL

/-! ## 3. Dubins -/

/-- the six candidates are scanned in the order LSL, LSR, RSL, RSR, RLR, LRL -/
theorem dubins_scan_order (target : Vec ℝ 4) (R : ℝ) :
    (Dubins.candidates target R).map (·.w) =
      [(.L, .S, .L), (.L, .S, .R), (.R, .S, .L), (.R, .S, .R), (.R, .L, .R), (.L, .R, .L)] := rfl

/-- **dubins_argmin** — over any linear order: the word the scan returns is no longer than each
    of the candidates, shorter than the initial `+∞`, and is the FIRST minimiser in scan order
    (every earlier candidate is strictly longer). -/
theorem dubins_argmin {β : Type} [LinearOrder β] (top : β) (cs : List (Dubins.Cand β)) (c : Dubins.Cand β)
    (h : (Dubins.scan Dubins.ltB top cs).2 = some c) :
    (∀ d ∈ cs, c.len ≤ d.len) ∧ c.len < top ∧
      ∃ pre post, cs = pre ++ c :: post ∧ ∀ d ∈ pre, c.len < d.len := by
  obtain ⟨_, h2, _, h4⟩ := Dubins.scanInv top cs
  obtain ⟨e1, e2, pre, post, e3, e4⟩ := h4 c h
  refine ⟨fun d hd => by rw [e1]; exact h2 d hd, by rw [e1]; exact e2, pre, post, e3, ?_⟩
  intro d hd; rw [e1]; exact e4 d hd

/-- nothing is returned only if no candidate is below `+∞` -/
theorem dubins_none {β : Type} [LinearOrder β] (top : β) (cs : List (Dubins.Cand β))
    (h : (Dubins.scan Dubins.ltB top cs).2 = none) : ∀ d ∈ cs, top ≤ d.len :=
  ((Dubins.scanInv top cs).2.2.1 h).2

/-- **dubins_unit_speed_curvature**: every emitted segment is `ConstantVelocity((1, 0, κ), T)`
    with `κ ∈ {0, 1/R, −1/R}`, hence `|κ| ≤ 1/R` (C12: constant body velocity `(1,0,κ)` is a
    unit-speed arc of curvature `κ`). -/
theorem dubins_unit_speed_curvature (R : ℝ) (hR : 0 < R) (c : Dubins.Cand ℝ) :
    ∀ e ∈ Dubins.emit R c, e.vx = 1 ∧ e.vy = 0 ∧ (e.kappa = 0 ∨ e.kappa = 1 / R ∨ e.kappa = -(1 / R))
      ∧ |e.kappa| ≤ 1 / R := by
  intro e he
  obtain ⟨h1, h2, h3⟩ := Dubins.emit_spec R c e he
  exact ⟨h1, h2, h3, Dubins.emit_curvature_bound R hR c e he⟩

/-- **dubins_reaches_target, CSC words** (LSL, LSR, RSL, RSR).  Traversing the three emitted
    segments as exact unit-speed arcs / straight lines (the flow of the constant body velocity
    `(1, 0, κ)` — what `ConstantVelocity` segments are by C12 and C02) from the identity pose ends
    exactly at the target pose (position and heading), whenever the word is feasible:
    the circle centres are distinct, and at least `2R` apart for opposite turning directions. -/
theorem dubins_csc_reaches_target (target : Vec ℝ 4) (R len : ℝ) (hR : 0 < R)
    (hunit : target 2 ^ 2 + target 3 ^ 2 = 1) (c1 c3 : Dubins.Seg) (h1 : c1 ≠ .S) (h3 : c3 ≠ .S)
    (hfeas : Dubins.CscFeasible target R c1 c3) :
    Dubins.idealEnd (Dubins.emit R ⟨(c1, .S, c3), Dubins.csc target R c1 c3, len⟩) = Dubins.poseC target :=
  Dubins.csc_reaches_target target R len hR hunit c1 c3 h1 h3 hfeas

/-- **dubins_reaches_target, CCC words** (RLR, LRL).  The three arcs emitted for
    `dubins_ccc(target, R, c13, c2)`, traversed as exact unit-speed arcs from the identity pose, end
    exactly at the target pose whenever the word is feasible: the centres of the first and third
    circle are distinct and at most `4R` apart — the boundary `d13 = 4R` (middle arc exactly `π`)
    included, and every wrap of `dubins_angle` accounted for.  The middle arc is the long one,
    `a₂ = π + 2α` with `cos α = d13/(4R)` (`A_12_32 = −Ā²`). -/
theorem dubins_ccc_reaches_target (target : Vec ℝ 4) (R len : ℝ) (hR : 0 < R)
    (hunit : target 2 ^ 2 + target 3 ^ 2 = 1) (c13 c2 : Dubins.Seg)
    (hw : (c13 = .R ∧ c2 = .L) ∨ (c13 = .L ∧ c2 = .R)) (hfeas : Dubins.CccFeasible target R c13) :
    Dubins.idealEnd (Dubins.emit R ⟨(c13, c2, c13), Dubins.ccc target R c13 c2, len⟩) = Dubins.poseC target :=
  Dubins.ccc_reaches_target target R len hR hunit c13 c2 hw hfeas

/-- the statement under its historical name (formerly open) … -/
def dubins_ccc_reaches_target_statement : Prop :=
  ∀ (target : Vec ℝ 4) (R len : ℝ), 0 < R → target 2 ^ 2 + target 3 ^ 2 = 1 →
    ∀ (c13 c2 : Dubins.Seg), (c13 = .R ∧ c2 = .L) ∨ (c13 = .L ∧ c2 = .R) →
      (let d13 := Dubins.norm2 (vsub (SE2.act target (mk2 0 (Dubins.sideR c13 R))) (mk2 0 (Dubins.sideR c13 R)))
       0 < d13 ∧ d13 ≤ 4 * R) →
      Dubins.idealEnd (Dubins.emit R ⟨(c13, c2, c13), Dubins.ccc target R c13 c2, len⟩) = Dubins.poseC target

/-- … now a theorem, exactly as it was posed -/
theorem dubins_ccc_reaches_target_statement_holds : dubins_ccc_reaches_target_statement := by
  intro target R len hR hunit c13 c2 hw hf
  refine dubins_ccc_reaches_target target R len hR hunit c13 c2 hw ?_
  simpa [Dubins.CccFeasible] using hf

/-! ## 4. `fit_bspline` -/

/-- **fit_bspline_covers**: the returned `BSpline(t0, dt, ctrl_pts)` has `t_min = t0 = min ts` by
    construction, at least `K+1` control points, `t_max > t1 = max ts` (exact arithmetic), and every
    data time has its window of `K+1` control points — the last for ANY monotone float→integer
    conversion and any quotient `q ≤ (t1−t0)/dt` (so it survives rounding, which is monotone). -/
theorem fit_bspline_covers (K : ℕ) (t0 t1 dt : ℝ) (hdt : 0 < dt) :
    K + 1 ≤ Fit.bsplineNumPts Fit.truncR K t0 t1 dt ∧
    t1 < Fit.bsplineTmax Fit.truncR K t0 t1 dt ∧
    (∀ t, t ≤ t1 → Fit.truncR ((t - t0) / dt) + K + 1 ≤ Fit.bsplineNumPts Fit.truncR K t0 t1 dt) ∧
    (∀ (trunc : ℝ → ℕ), Monotone trunc → ∀ q, q ≤ (t1 - t0) / dt →
        trunc q + K + 1 ≤ Fit.bsplineNumPts trunc K t0 t1 dt) :=
  ⟨Fit.bsplineNumPts_ge _ K t0 t1 dt, Fit.bsplineTmax_covers K t0 t1 dt hdt,
    fun t h1 => Fit.bspline_window_exact K t0 t1 dt t hdt h1,
    fun trunc htr q hq => Fit.bspline_window trunc htr K t0 t1 dt q hq⟩

/-! ## 5. `reparameterize_spline` -/

/-- **reparam_monotone** (per emitted segment, for ANY result of the linear programmes).
    With current speed `vi ≥ 0`, `vi² ≥ eps` (the `max(eps,·)` clamp of the previous step) and
    `|ai| ≥ eps`: the duration is `≥ 0` — `> 0` when accelerating or when `vi² > eps` — both
    cumulative coefficients are `≥ 0`, so `s` is non-decreasing on the segment; while
    decelerating it ends at or before the next grid point, where `concat_global` restarts it
    (an upward jump keeps `s` non-decreasing). -/
theorem reparam_monotone (si ds vi ai : ℝ) (hds : 0 < ds) (hvi : 0 ≤ vi) (hv2 : Reparam.eps ≤ vi ^ 2)
    (hai : Reparam.eps ≤ ai ∨ ai ≤ -Reparam.eps) :
    let dt := Reparam.segDt ds vi (vi ^ 2) ai
    let sg := Reparam.mkSeg si vi ai dt
    0 ≤ dt ∧ (Reparam.eps ≤ ai ∨ Reparam.eps < vi ^ 2 → 0 < dt) ∧ 0 ≤ sg.c1 ∧ 0 ≤ sg.c2 ∧
    (∀ u v, 0 ≤ u → u ≤ v → v ≤ 1 → Reparam.segVal sg u ≤ Reparam.segVal sg v) ∧
    (ai ≤ -Reparam.eps → Reparam.segVal sg 1 ≤ si + ds) := by
  intro dt sg
  have hna : ¬ |ai| < Reparam.eps := by
    have := Reparam.eps_pos
    rcases hai with h | h
    · rw [abs_of_pos (by linarith)]; exact not_lt.2 h
    · rw [abs_of_neg (by linarith)]; intro h'; linarith
  have hdt0 : 0 ≤ dt := by
    rcases hai with h | h
    · exact le_of_lt (Reparam.segDt_pos_accel ds vi ai hds hvi h)
    · exact Reparam.segDt_nonneg_decel ds vi ai hds hvi h hv2
  obtain ⟨hc1, hc2⟩ := Reparam.mkSeg_coeffs_nonneg si ds vi (vi ^ 2) ai hvi hna hdt0
  refine ⟨hdt0, ?_, hc1, hc2, fun u v hu huv hv => Reparam.segVal_mono sg hc1 hc2 u v hu huv hv, ?_⟩
  · intro h
    rcases hai with ha | ha
    · exact Reparam.segDt_pos_accel ds vi ai hds hvi ha
    · rcases h with h | h
      · have := Reparam.eps_pos; linarith
      · exact Reparam.segDt_pos_decel ds vi ai hds hvi ha h
  · intro ha
    by_cases hg : vi ^ 2 + 2 * ds * ai ≤ Reparam.eps
    · exact Reparam.mkSeg_end_le_decel si ds vi ai ha hg
    · exact le_of_eq (Reparam.mkSeg_end_exact si ds vi ai hna (le_of_lt (not_le.1 hg)))

/-- why the guard `if (dt > 0)` is needed: a clamped speed and a forced deceleration give a
    duration of exactly 0 (on the pinned tree `Spline(T)` then tripped over `assert(T > 0)`) -/
theorem reparam_guard_needed (ds ai : ℝ) (hds : 0 < ds) (hai : ai ≤ -Reparam.eps) :
    Reparam.segDt ds (Real.sqrt Reparam.eps) Reparam.eps ai = 0 :=
  Reparam.segDt_zero_at_clamp ds ai hds hai

/-- **no segment of non-positive duration is ever emitted**, for any state, any curve values and
    any result of the linear programmes -/
theorem reparam_emitted_positive {n : ℕ} (b : Reparam.Bounds ℝ n) (ds si v2next v2m : ℝ)
    (p : Reparam.Sample ℝ n) (sg : Reparam.SegOut ℝ)
    (h : (Reparam.fwdStep b ds si v2next v2m p).2 = some sg) : 0 < sg.dt :=
  Reparam.fwdStep_emits_positive b ds si v2next v2m p sg h

/-- the squared speed bounds of the reverse pass are non-negative (every entry is written: clamped
    optimum, `inf`, or 0), whatever `lp2d::solve` returned -/
theorem reparam_v2max_nonneg (lpres : List (ℝ × ℝ × ℕ)) (v2end : ℝ) (h : 0 ≤ v2end) :
    ∀ y ∈ Reparam.backward lpres v2end, 0 ≤ y :=
  Reparam.backward_nonneg lpres v2end h

/-- small-acceleration branch `|ai| < eps` (`dt = ds/vi`) -/
theorem reparam_monotone_small (si ds vi ai : ℝ) (hds : 0 < ds) (hvi : 0 < vi) (h : |ai| < Reparam.eps)
    (hend : 0 ≤ vi ^ 2 + ai * ds) :
    let dt := Reparam.segDt ds vi (vi ^ 2) ai
    let sg := Reparam.mkSeg si vi ai dt
    0 < dt ∧ 0 ≤ sg.c1 ∧ 0 ≤ sg.c2 ∧
    (∀ u v, 0 ≤ u → u ≤ v → v ≤ 1 → Reparam.segVal sg u ≤ Reparam.segVal sg v) := by
  intro dt sg
  obtain ⟨h0, h1, h2⟩ := Reparam.mkSeg_coeffs_nonneg_small si ds vi (vi ^ 2) ai hds hvi h hend
  exact ⟨h0, h1, h2, fun u v hu huv hv => Reparam.segVal_mono sg h1 h2 u v hu huv hv⟩

/-- **start_speed**: the first segment starts at `s0` with speed `√min(start_vel², v2max₀) ≤ |start_vel|`,
    whatever the linear programmes returned -/
theorem start_speed (s0 startVel v2max0 ai dt : ℝ) (hdt : dt ≠ 0) :
    let vi := Real.sqrt (Scalar.min (startVel * startVel) v2max0)
    let sg := Reparam.mkSeg s0 vi ai dt
    Reparam.segVal sg 0 = s0 ∧ 2 * sg.c1 / dt = vi ∧ vi ≤ |startVel| := by
  intro vi sg
  obtain ⟨h1, h2⟩ := Reparam.mkSeg_start s0 vi ai dt hdt
  exact ⟨h1, h2, Reparam.start_speed_le startVel v2max0⟩

/-- **reparam_global** — the whole forward pass, for ANY curve values and ANY results of the linear
    programmes.  By construction (list induction over the fold, `Reparam.forward_grid`) the emitted
    segments have positive durations and start at distinct grid points `s0 + ds·i`, `i < N`, in
    increasing order.  If moreover every emitted segment has non-negative cumulative coefficients
    and ends at or before the next grid point (what `reparam_monotone` / `reparam_monotone_small`
    give per segment under their branch conditions), then the assembled map `s = evalMap` is
    non-decreasing on `[0, ∞)`, takes values in `[s(0), t_max]`, starts at the first emitted
    segment's grid point and equals `t_max = s0 + ds·N` from the total duration `T` on. -/
theorem reparam_global {n : ℕ} (b : Reparam.Bounds ℝ n) (s0 ds sv : ℝ) (hds : 0 < ds) (v2max : List ℝ)
    (samples : List (Reparam.Sample ℝ n))
    (hok : ∀ sg ∈ Reparam.forward b s0 ds sv v2max samples,
      0 ≤ sg.c1 ∧ 0 ≤ sg.c2 ∧ Reparam.segVal sg 1 ≤ sg.s0 + ds) :
    let segs := Reparam.forward b s0 ds sv v2max samples
    let tmax := s0 + ds * (samples.length : ℝ)
    let s := Reparam.evalMap segs tmax
    Reparam.Grid s0 ds samples.length segs ∧
    (∀ t1 t2, 0 ≤ t1 → t1 ≤ t2 → s t1 ≤ s t2) ∧
    (∀ t, 0 ≤ t → Reparam.headStart segs tmax ≤ s t ∧ s t ≤ tmax) ∧
    s 0 = Reparam.headStart segs tmax ∧
    (∀ t, Reparam.totalTime segs ≤ t → s t = tmax) := by
  intro segs tmax s
  have hg := Reparam.forward_grid b s0 ds sv hds v2max samples
  have hc : Reparam.Chain segs tmax := Reparam.chain_of_grid hds segs hg hok
  refine ⟨hg, fun t1 t2 h0 h12 => Reparam.evalMap_mono segs tmax hc t1 t2 h0 h12,
    fun t ht => Reparam.evalMap_bounds segs tmax hc t ht, ?_, ?_⟩
  · cases hsegs : segs with
    | nil => simp [s, hsegs, Reparam.evalMap, Reparam.headStart]
    | cons sg rest =>
      have hmem : sg ∈ Reparam.forward b s0 ds sv v2max samples := by
        show sg ∈ segs
        rw [hsegs]; exact List.mem_cons_self ..
      have hdt : 0 < sg.dt := (hg.1 sg hmem).1
      simp only [s, hsegs, Reparam.headStart]
      exact Reparam.evalMap_start sg rest tmax hdt
  · intro t ht
    rw [Reparam.totalTime_eq_total] at ht
    exact Reparam.evalMap_end segs tmax hc t ht

/-! ## Non-vacuity -/

/-- two linear segments through 0 → 3 → 2 with `dt = (1, 2)`: the code's rows are satisfiable -/
example : Fit.RowsSat (Fit.rows Fit.piecewiseLinear [1, 2] [3, -1] [] [])
    (fun c => ([0, 3, 0, -1] : List ℝ).getD c 0) := by
  rw [Fit.rowsSat_rows_iff]
  refine ⟨by simp [Fit.piecewiseLinear], ?_, ?_, by simp [Fit.piecewiseLinear]⟩
  · intro i hi
    have : i = 0 ∨ i = 1 := by simp [Fit.nSeg] at hi; omega
    rcases this with rfl | rfl <;>
      simp [Fit.piecewiseLinear, Fit.segDot, Fit.u0tB, Fit.u1tB, Fit.u0tBI, Fit.u1tBI, Fit.bernI, Fit.choose,
        Fit.fact, Fit.descFact, Finset.sum_range_succ, List.range_succ]
  · intro k _ d' hd'
    simp [Fit.piecewiseLinear] at hd'

/-- a natural cubic (FixedDerCubic<2,2>) on one segment: `x = (0, 1, 2, 3)` (the straight line
    `p(t) = 3t/2`, `dt = 2`, `dx = 3`) satisfies all four rows; the hypothesis `dt ≠ 0` holds -/
example : Fit.RowsSat (Fit.rows (Fit.fixedDerCubic 2 2) [2] [3] [0] [0])
    (fun c => ([0, 1, 2, 3] : List ℝ).getD c 0) ∧ (∀ i < Fit.nSeg [(2 : ℝ)] [(3 : ℝ)], ([2] : List ℝ).getD i 0 ≠ 0) := by
  constructor
  · rw [Fit.rowsSat_rows_iff]
    refine ⟨?_, ?_, ?_, ?_⟩
    · intro p hp
      simp [Fit.fixedDerCubic] at hp
      rw [hp]
      simp [Fit.fixedDerCubic, Fit.segDot, Fit.u0tB, Fit.u0tBI, Fit.bernI, Fit.choose, Fit.fact,
        Finset.sum_range_succ]
      norm_num
    · intro i hi
      have : i = 0 := by simp [Fit.nSeg] at hi; omega
      subst this
      simp [Fit.fixedDerCubic, Fit.segDot, Fit.u0tB, Fit.u1tB, Fit.u0tBI, Fit.u1tBI, Fit.bernI, Fit.choose,
        Fit.fact, Fit.descFact, Finset.sum_range_succ, List.range_succ]
      norm_num
    · intro k hk
      simp [Fit.nSeg] at hk
    · intro p hp
      simp [Fit.fixedDerCubic] at hp
      rw [hp]
      simp [Fit.fixedDerCubic, Fit.nSeg, Fit.segDot, Fit.u1tB, Fit.u1tBI, Fit.bernI, Fit.choose, Fit.descFact,
        Finset.sum_range_succ, List.range_succ]
      norm_num
  · intro i hi
    have : i = 0 := by simp [Fit.nSeg] at hi; omega
    subst this; simp

/-- an interpretation exists: translations of ℝ (the 1-d vector group of `fit_spline_1d` itself) -/
noncomputable def interpT1 : Fit.Interp (Tn.model (α := ℝ) 1) (Multiplicative ℝ) where
  V := fun _ => True
  M := fun g => Multiplicative.ofAdd (g.get ⟨0, Nat.zero_lt_one⟩)
  V_comp := fun _ _ _ _ => trivial
  V_inv := fun _ _ => trivial
  V_exp := fun _ => trivial
  comp := fun a b _ _ => by
    show Multiplicative.ofAdd ((Tn.composition a b).get ⟨0, Nat.zero_lt_one⟩) = _
    simp [Tn.composition, vadd, ofAdd_add]
  inv := fun a _ => by
    show Multiplicative.ofAdd ((Tn.inverse a).get ⟨0, Nat.zero_lt_one⟩) = _
    simp [Tn.inverse, vneg, ofAdd_neg]
  exp_neg := fun v => by
    show Multiplicative.ofAdd ((Tn.exp (vneg v)).get ⟨0, Nat.zero_lt_one⟩) = (Multiplicative.ofAdd ((Tn.exp v).get ⟨0, Nat.zero_lt_one⟩))⁻¹
    simp [Tn.exp, vneg, ofAdd_neg]

example (cum : ℕ → Vec ℝ 1) (g gnext : Vec ℝ 1) :
    interpT1.M (Fit.segEnd (Tn.model 1) 3 (Fit.resolveMid (Tn.model 1) 3 cum g gnext) g) = interpT1.M gnext :=
  fit_spline_interpolates interpT1 3 (by norm_num) cum g gnext trivial trivial rfl

/-- the scan on six concrete lengths (two equal minima: the FIRST one is returned) -/
example :
    (Dubins.scan Dubins.ltB (10 : ℕ)
      [⟨(.L, .S, .L), (0, 0, 0), 7⟩, ⟨(.L, .S, .R), (0, 0, 0), 5⟩, ⟨(.R, .S, .L), (0, 0, 0), 10⟩,
       ⟨(.R, .S, .R), (0, 0, 0), 5⟩, ⟨(.R, .L, .R), (0, 0, 0), 6⟩, ⟨(.L, .R, .L), (0, 0, 0), 9⟩]).2.map (·.w)
      = some (.L, .S, .R) := by decide

/-- emission of an LSR word with radius 2 -/
example := dubins_unit_speed_curvature 2 (by norm_num) ⟨(.L, .S, .R), (1, 2, 3), 9⟩

/-- B-spline sizes: data on [2, 6] with knot spacing 1, cubic (the repository's own test case) -/
example := fit_bspline_covers 3 2 6 1 (by norm_num)

/-- reparameterisation: `ds = 0.1`, `vi = 1`, decelerating with `ai = −1` -/
example := reparam_monotone 0 (1 / 10) 1 (-1) (by norm_num) (by norm_num)
  (by rw [Reparam.eps_real]; norm_num) (Or.inr (by rw [Reparam.eps_real]; norm_num))

/-- … and accelerating from the clamp `vi² = eps` -/
example := reparam_monotone 0 (1 / 10) (Real.sqrt Reparam.eps) 1 (by norm_num) (Real.sqrt_nonneg _)
  (by rw [Real.sq_sqrt (le_of_lt Reparam.eps_pos)]) (Or.inl (by rw [Reparam.eps_real]; norm_num))

example := start_speed 0 1 (1 / 2) 1 1 (by norm_num)

/-- a KKT point of a 1×1 programme (`min ½x²` s.t. `x = 1`): `x = 1`, `l = −1` -/
example : Fit.Kkt.IsKKT (1 : Matrix (Fin 1) (Fin 1) ℝ) (1 : Matrix (Fin 1) (Fin 1) ℝ) (fun _ => 1)
    (fun _ => 1) (fun _ => -1) := by
  constructor
  · funext i; simp
  · funext i; simp

/-- LSL towards the pose 3 ahead with the same heading is feasible (`|C1C3| = 3 > 0`) -/
example : Dubins.CscFeasible (mk4 3 0 0 1) 1 .L .L := by
  constructor
  · have h : Dubins.norm2 (vsub (SE2.act (mk4 (3 : ℝ) 0 0 1) (mk2 (nat 0) (Dubins.sideR .L 1)))
        (mk2 (nat 0) (Dubins.sideR .L 1))) = 3 := by
      simp [Dubins.norm2, Dubins.sideR, SE2.act, SE2.so2, SE2.r2, SO2.act, SO2.matrix, vsub, vadd, mulVec,
        vsum, mk2, mk4, mat2, Vec.of, Mat.of, Scalar.sqrt]
    rw [h]; norm_num
  · intro h; exact absurd rfl h

/-- RLR / LRL towards the pose 3 ahead with the same heading are feasible (`|C1C3| = 3 ≤ 4R`, `R = 1`) -/
example : Dubins.CccFeasible (mk4 3 0 0 1) 1 .R ∧ Dubins.CccFeasible (mk4 3 0 0 1) 1 .L := by
  have h : ∀ c, Dubins.norm2 (vsub (SE2.act (mk4 (3 : ℝ) 0 0 1) (mk2 (nat 0) (Dubins.sideR c 1)))
      (mk2 (nat 0) (Dubins.sideR c 1))) = 3 := by
    intro c
    simp [Dubins.norm2, SE2.act, SE2.so2, SE2.r2, SO2.act, SO2.matrix, vsub, vadd, mulVec,
      vsum, mk2, mk4, mat2, Vec.of, Mat.of, Scalar.sqrt]
  constructor <;> (unfold Dubins.CccFeasible; rw [h]; norm_num)

/-- the Gram identity on a concrete entry: `monomial_integral<3,1>()[2][3] = 2·3/(2+3−2+1) = 3/2` -/
example : (Fit.monoIntegral (α := ℝ) 3 1) 2 3 = 3 / 2 := by
  rw [monomial_integral_entries]
  norm_num [Nat.descFactorial]

/-- a tiny optimising specification (degree 1, `OptDeg = 1`, one segment from 0 to 1, `dt = 1`):
    `nC = 2`, two value rows, `Q = [[1+ε, −1], [−1, 1+ε]]`; the vector `z = (0, 1, 1, −(1+ε))`
    solves the assembled 4 × 4 system, so every hypothesis of `fit_kkt_solution_is_minimiser` holds -/
def specTiny : Fit.Spec := ⟨1, some 1, 0, [], []⟩

example : ∀ r < specTiny.nCoef (Fit.nSeg [(1 : ℝ)] [(1 : ℝ)]) + specTiny.nEq (Fit.nSeg [(1 : ℝ)] [(1 : ℝ)]),
    Fit.Kkt.tripMul (Fit.kktEntries specTiny 1 0 [1] [1] [] [])
        (fun c => ([0, 1, 1, -(1 + 1 / 1000000)] : List ℝ).getD c 0) r
      = (Fit.kktRhs specTiny [1] [1] [] []).getD r 0 := by
  intro r hr
  have hr' : r < 4 := by simpa [specTiny, Fit.Spec.nCoef, Fit.Spec.nEq, Fit.nSeg] using hr
  have hP : ∀ i j : Fin 2, (Fit.costP (α := ℝ) 1 1) i j = if i = j then 1 else -1 := by
    intro i j
    fin_cases i <;> fin_cases j <;>
      simp [Fit.costP, memoM_eq, mmul, vsum, transpose, Fit.bern, Fit.monoIntegral, Fit.bernI, Fit.choose,
        Fit.descFact, Fit.ofInt, Mat.of]
  interval_cases r <;>
    simp [Fit.Kkt.tripMul, Fit.kktEntries, Fit.kktRhs, Fit.rows, Fit.leftRows, Fit.rightRows, Fit.valueRows,
      Fit.contRows, Fit.segEnt, Fit.pruneRow, Fit.u0tB, Fit.u1tB, Fit.u0tBI, Fit.u1tBI, Fit.bernI, Fit.choose,
      Fit.fact, Fit.descFact, Fit.ofInt, specTiny, Fit.Spec.nCoef, Fit.Spec.nEq, Fit.nSeg, Fit.costFac, Fit.Spec.D,
      Fit.ipow, Fit.regEps, hP, List.range_succ, List.finRange_succ, Scalar.abs] <;>
    norm_num [List.filter_cons, List.flatMap_cons]

example : 1 ≤ Fit.nSeg [(1 : ℝ)] [(1 : ℝ)] ∧ 0 ≤ specTiny.innCnt ∧
    ([] : List ℝ).length = specTiny.leftDeg.length ∧ ([] : List ℝ).length = specTiny.rghtDeg.length ∧
    (∀ i < Fit.nSeg [(1 : ℝ)] [(1 : ℝ)], 0 < ([1] : List ℝ).getD i 0) := by
  refine ⟨by simp [Fit.nSeg], by simp [specTiny], rfl, rfl, ?_⟩
  intro i hi
  have : i = 0 := by simp [Fit.nSeg] at hi; omega
  subst this; simp

/-- a one-segment chain: from 0 to 0.1 in time 1 (coefficients 0.05, 0.05), `t_max = 0.1` -/
example : Reparam.Chain [⟨1, 1 / 20, 1 / 20, 0⟩] (1 / 10) := by
  refine ⟨by norm_num, by norm_num, by norm_num, ?_, trivial⟩
  simp [Reparam.segVal, Reparam.headStart]; norm_num

end C14
