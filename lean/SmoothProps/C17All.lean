/- aggregator: property theorems of C17 plus the source-tie theorems of the conversion members regenerated from the C++ (tools/gen_conv.py) -/
import SmoothProps.C17
import SmoothProps.SrcTieConv
