/-
  C01RoundB — the ROUNDING part of C01, continued (standard model of floating-point arithmetic,
  SmoothProofs/RoundModel.lean; first part: SmoothProps/C01Round.lean).

  1. The group ACTIONS `g * v`: the model's `SO2.act`, `C1.act`, `SO3.act` (Eigen `_transformVector`),
     `SE2.act`, `SE3.act`, `Galilei.act` instantiated at `RF` (every operation rounded) against the
     MATRIX action `matrix(g)·(v,1)` over ℝ — componentwise bounds for all inputs, then the accuracy clause
     "1e-12 in double, 1e-5 in single" relative to the size `T` of the point / translation.
  2. `Galilei` and `SE_K_3` (every K) `composition` and `inverse`: componentwise bounds for all inputs and the
     accuracy clause at matrix level, as for SE3 in C01Round.
  3. The associativity clause: `(g₁g₂)g₃` and `g₁(g₂g₃)`, both computed in rounded arithmetic, agree at matrix
     level to `1e-12·max(1,T)²` (two uses of the composition bound).

  The Bundle lift (every nested Bundle of these groups) is in SmoothProps/C01RoundC.lean.
  Helper lemmas: SmoothProofs/RoundAct.lean, RoundGal.lean.
-/
import SmoothProps.C01Round
import SmoothProofs.RoundGal
import SmoothProofs.RoundAssoc

open Lin Scalar Rounding RF Round

set_option linter.unusedVariables false
set_option linter.unnecessarySeqFocus false

noncomputable section
namespace C01Round

/-! ## Witnesses -/

/-- a point of the plane of norm 1e3 -/
def pA : Vec ℝ 2 := mk2 (-800) 600
/-- a point of space with coordinates up to 1e3 -/
def vA : Vec ℝ 3 := mk3 1000 (-1 / 3) 250
theorem pA_nrm : nrm2 pA ≤ 1000 := by
  simp only [nrm2, pA, mk2, Vec.of]
  rw [show ((-800 : ℝ)) ^ 2 + 600 ^ 2 = 1000 ^ 2 by norm_num, Real.sqrt_sq (by norm_num)]
theorem vA_bound (l : Fin 3) : |vA l| ≤ 1000 := by
  fin_cases l <;> simp [vA, mk3, Vec.of] <;> norm_num

/-- exact facts: the complex / rotation action multiplies norms -/
theorem nrm2_c1_act (g x : Vec ℝ 2) : nrm2 (C1.act g x) = nrm2 g * nrm2 x := by
  unfold nrm2
  rw [← Real.sqrt_mul (by positivity), C1.act_eq]
  congr 1
  simp only [mk2, Vec.of]
  ring

section Main
variable [Rounding]

/-! ## 1. Actions -/

/-! ### SO2, C1 -/

/-- **SO2 action, all inputs, componentwise**: 3 roundings (product, `0 + ·`, sum); majorant `|M(g)|·|x|` -/
theorem so2_action_round (g x : Vec ℝ 2) (i : Fin 2) :
    |toReal ((SO2.act (Vec.toRF g) (Vec.toRF x)) i) - (mulVec (SO2.matrix g) x) i|
      ≤ theta 3 * actAbs2 g x i := (so2_act_appr g x i).err

theorem so2_action_round_norm (g x : Vec ℝ 2) (i : Fin 2) :
    |toReal ((SO2.act (Vec.toRF g) (Vec.toRF x)) i) - (mulVec (SO2.matrix g) x) i|
      ≤ theta 3 * (nrm2 g * nrm2 x) := by
  refine (so2_action_round g x i).trans ?_
  have := actAbs2_le g x i
  have := theta_nonneg 3
  gcongr

/-- approximately unit `g`: error `≤ 3.01·ū·‖x‖` -/
theorem so2_action_acc (g x : Vec ℝ 2) (hg : nrm2 g ≤ 1 + 1 / 10 ^ 8) (X : ℝ) (hx : nrm2 x ≤ X) (i : Fin 2) :
    |toReal ((SO2.act (Vec.toRF g) (Vec.toRF x)) i) - (mulVec (SO2.matrix g) x) i| ≤ 301 / 100 * ubar * X := by
  refine (so2_action_round_norm g x i).trans ?_
  have n1 := nrm2_nonneg g; have n2 := nrm2_nonneg x
  have hX : 0 ≤ X := n2.trans hx
  have := theta_mul_le 3 (by norm_num) (nrm2 g * nrm2 x) ((1 + 1 / 10 ^ 8) * X) (301 / 100 * X)
    (by positivity) (mul_le_mul hg hx n2 (by norm_num)) (by norm_num; nlinarith)
  calc _ ≤ _ := this
    _ = _ := by ring
example : nrm2 zA ≤ 1 + 1 / 10 ^ 8 ∧ nrm2 pA ≤ 1000 := ⟨by rw [zA_nrm]; norm_num, pA_nrm⟩

/-- **C01 accuracy clause, SO2 action, double**: `g * x` vs `matrix(g)·x` to `1e-12·‖x‖` -/
theorem so2_action_double (h : IsDouble) (g x : Vec ℝ 2) (hg : nrm2 g ≤ 1 + 1 / 10 ^ 8) (X : ℝ)
    (hx : nrm2 x ≤ X) (i : Fin 2) :
    |toReal ((SO2.act (Vec.toRF g) (Vec.toRF x)) i) - (mulVec (SO2.matrix g) x) i| ≤ 1 / 10 ^ 12 * X := by
  refine (so2_action_acc g x hg X hx i).trans ?_
  have := ubar_double h
  have hX : 0 ≤ X := (nrm2_nonneg x).trans hx
  gcongr
  norm_num at *; linarith

theorem so2_action_single (h : IsSingle) (g x : Vec ℝ 2) (hg : nrm2 g ≤ 1 + 1 / 10 ^ 8) (X : ℝ)
    (hx : nrm2 x ≤ X) (i : Fin 2) :
    |toReal ((SO2.act (Vec.toRF g) (Vec.toRF x)) i) - (mulVec (SO2.matrix g) x) i| ≤ 1 / 10 ^ 5 * X := by
  refine (so2_action_acc g x hg X hx i).trans ?_
  have := ubar_single h
  have hX : 0 ≤ X := (nrm2_nonneg x).trans hx
  gcongr
  norm_num at *; linarith

/-- **C1 action, all inputs**: genuinely RELATIVE — every coordinate is within `θ₃` times the norm of the
    exact result (`‖g·x‖ = ‖g‖‖x‖`) -/
theorem c1_action_round_rel (g x : Vec ℝ 2) (i : Fin 2) :
    |toReal ((C1.act (Vec.toRF g) (Vec.toRF x)) i) - (mulVec (C1.matrix g) x) i|
      ≤ theta 3 * nrm2 (mulVec (C1.matrix g) x) := by
  have e : mulVec (C1.matrix g) x = C1.act g x := rfl
  rw [e, nrm2_c1_act]
  refine (c1_act_appr g x i).err.trans ?_
  have := actAbs2_le g x i
  have := theta_nonneg 3
  gcongr

/-! ### SO3 -/

/-- **SO3 action (Eigen `_transformVector`), all quaternions and points, componentwise**: 6 roundings,
    majorant = the same expression on absolute values; the reference is the MATRIX action -/
theorem so3_action_round (g : Vec ℝ 4) (v : Vec ℝ 3) (i : Fin 3) :
    |toReal ((SO3.act (Vec.toRF g) (Vec.toRF v)) i) - (mulVec (SO3.matrix g) v) i|
      ≤ theta 6 * so3ActAbs g v i := by
  rw [← SO3.act_eq_matrix]
  exact (so3_act_appr g v i).err

/-- `‖q‖² ≤ n`, `|v_l| ≤ V`: error `≤ θ₆·(1+4n)·V` -/
theorem so3_action_round_V (g : Vec ℝ 4) (n : ℝ) (hn : SO3.sqn g ≤ n) (v : Vec ℝ 3) (V : ℝ)
    (hv : ∀ l, |v l| ≤ V) (i : Fin 3) :
    |toReal ((SO3.act (Vec.toRF g) (Vec.toRF v)) i) - (mulVec (SO3.matrix g) v) i|
      ≤ theta 6 * ((1 + 4 * n) * V) := by
  refine (so3_action_round g v i).trans ?_
  have := so3ActAbs_le g n hn v V hv i
  have := theta_nonneg 6
  gcongr
example : SO3.sqn qC ≤ 1 ∧ ∀ l, |vA l| ≤ 1000 := ⟨(show SO3.sqn qC = 1 from qC_unit).le, vA_bound⟩

theorem so3_action_acc (g : Vec ℝ 4) (hg : SO3.sqn g ≤ 1 + 1 / 10 ^ 8) (v : Vec ℝ 3) (V : ℝ)
    (hv : ∀ l, |v l| ≤ V) (i : Fin 3) :
    |toReal ((SO3.act (Vec.toRF g) (Vec.toRF v)) i) - (mulVec (SO3.matrix g) v) i| ≤ 3001 / 100 * ubar * V := by
  refine (so3_action_round_V g _ hg v V hv i).trans ?_
  have hV : 0 ≤ V := (abs_nonneg _).trans (hv 0)
  have := theta_mul_le 6 (by norm_num) ((1 + 4 * (1 + 1 / 10 ^ 8)) * V) ((1 + 4 * (1 + 1 / 10 ^ 8)) * V)
    (3001 / 100 * V) (by positivity) (le_refl _) (by norm_num; nlinarith)
  calc _ ≤ _ := this
    _ = _ := by ring

/-- **C01 accuracy clause, SO3 action, double**: `q * v` vs `matrix(q)·v` to `1e-12·|v|_∞` -/
theorem so3_action_double (h : IsDouble) (g : Vec ℝ 4) (hg : SO3.Unit g) (v : Vec ℝ 3) (V : ℝ)
    (hv : ∀ l, |v l| ≤ V) (i : Fin 3) :
    |toReal ((SO3.act (Vec.toRF g) (Vec.toRF v)) i) - (mulVec (SO3.matrix g) v) i| ≤ 1 / 10 ^ 12 * V := by
  have e1 : SO3.sqn g = 1 := hg
  refine (so3_action_acc g (by rw [e1]; norm_num) v V hv i).trans ?_
  have := ubar_double h
  have hV : 0 ≤ V := (abs_nonneg _).trans (hv 0)
  gcongr
  norm_num at *; linarith

theorem so3_action_single (h : IsSingle) (g : Vec ℝ 4) (hg : SO3.Unit g) (v : Vec ℝ 3) (V : ℝ)
    (hv : ∀ l, |v l| ≤ V) (i : Fin 3) :
    |toReal ((SO3.act (Vec.toRF g) (Vec.toRF v)) i) - (mulVec (SO3.matrix g) v) i| ≤ 1 / 10 ^ 5 * V := by
  have e1 : SO3.sqn g = 1 := hg
  refine (so3_action_acc g (by rw [e1]; norm_num) v V hv i).trans ?_
  have := ubar_single h
  have hV : 0 ≤ V := (abs_nonneg _).trans (hv 0)
  gcongr
  norm_num at *; linarith

/-! ### SE2 -/

omit [Rounding] in
theorem se2_embed_act (g : Vec ℝ 4) (v : Vec ℝ 2) (i : Fin 2) :
    (mulVec (SE2.matrix g) (SE2.embed v)) ⟨i.val, by omega⟩ = (SE2.act g v) i := by
  rw [SE2.act_eq_matrix]
  fin_cases i <;> simp [SE2.embed, mk3, Vec.of]

/-- **SE2 action, all inputs, componentwise**: 4 roundings; reference = point part of `matrix(g)·(v,1)` -/
theorem se2_action_round (g : Vec ℝ 4) (v : Vec ℝ 2) (i : Fin 2) :
    |toReal ((SE2.act (Vec.toRF g) (Vec.toRF v)) i) - (mulVec (SE2.matrix g) (SE2.embed v)) ⟨i.val, by omega⟩|
      ≤ theta 4 * se2ActAbs g v i := by
  rw [se2_embed_act]
  exact (se2_act_appr g v i).err

/-- approximately unit rotation part, `‖v‖, ‖t‖ ≤ T`: error `≤ 8.01·ū·T` -/
theorem se2_action_acc (g : Vec ℝ 4) (hg : nrm2 (SE2.so2 g) ≤ 1 + 1 / 10 ^ 8) (v : Vec ℝ 2) (T : ℝ)
    (hv : nrm2 v ≤ T) (ht : nrm2 (SE2.r2 g) ≤ T) (i : Fin 2) :
    |toReal ((SE2.act (Vec.toRF g) (Vec.toRF v)) i) - (mulVec (SE2.matrix g) (SE2.embed v)) ⟨i.val, by omega⟩|
      ≤ 801 / 100 * ubar * T := by
  refine (se2_action_round g v i).trans ?_
  have hT : 0 ≤ T := (nrm2_nonneg _).trans hv
  have n1 := nrm2_nonneg (SE2.so2 g); have n2 := nrm2_nonneg v
  have hle := se2ActAbs_le g v i
  have hgi : |g ⟨i.val, by omega⟩| ≤ T := by
    fin_cases i
    · exact (abs_le_nrm2 (SE2.r2 g) 0).trans ht
    · exact (abs_le_nrm2 (SE2.r2 g) 1).trans ht
  have h1 : nrm2 (SE2.so2 g) * nrm2 v ≤ (1 + 1 / 10 ^ 8) * T := mul_le_mul hg hv n2 (by norm_num)
  have hX0 : 0 ≤ se2ActAbs g v i := by
    fin_cases i <;> simp only [se2ActAbs, mk2, Vec.of] <;> positivity
  have := theta_mul_le 4 (by norm_num) (se2ActAbs g v i) ((1 + 1 / 10 ^ 8) * T + T) (801 / 100 * T)
    hX0 (by linarith) (by norm_num; nlinarith)
  calc _ ≤ _ := this
    _ = _ := by ring
example : nrm2 (SE2.so2 se2A) ≤ 1 + 1 / 10 ^ 8 ∧ nrm2 pA ≤ 1000 ∧ nrm2 (SE2.r2 se2A) ≤ 1000 :=
  ⟨by rw [nrm2_so2_of_unit _ se2A_unit]; norm_num, pA_nrm, se2A_trans⟩

/-- **C01 accuracy clause, SE2 action, double** -/
theorem se2_action_double (h : IsDouble) (g : Vec ℝ 4) (hg : SE2.Unit g) (v : Vec ℝ 2) (T : ℝ)
    (hv : nrm2 v ≤ T) (ht : nrm2 (SE2.r2 g) ≤ T) (i : Fin 2) :
    |toReal ((SE2.act (Vec.toRF g) (Vec.toRF v)) i) - (mulVec (SE2.matrix g) (SE2.embed v)) ⟨i.val, by omega⟩|
      ≤ 1 / 10 ^ 12 * T := by
  refine (se2_action_acc g (by rw [nrm2_so2_of_unit g hg]; norm_num) v T hv ht i).trans ?_
  have := ubar_double h
  have hT : 0 ≤ T := (nrm2_nonneg _).trans hv
  gcongr
  norm_num at *; linarith

theorem se2_action_single (h : IsSingle) (g : Vec ℝ 4) (hg : SE2.Unit g) (v : Vec ℝ 2) (T : ℝ)
    (hv : nrm2 v ≤ T) (ht : nrm2 (SE2.r2 g) ≤ T) (i : Fin 2) :
    |toReal ((SE2.act (Vec.toRF g) (Vec.toRF v)) i) - (mulVec (SE2.matrix g) (SE2.embed v)) ⟨i.val, by omega⟩|
      ≤ 1 / 10 ^ 5 * T := by
  refine (se2_action_acc g (by rw [nrm2_so2_of_unit g hg]; norm_num) v T hv ht i).trans ?_
  have := ubar_single h
  have hT : 0 ≤ T := (nrm2_nonneg _).trans hv
  gcongr
  norm_num at *; linarith

/-! ### SE3 -/

omit [Rounding] in
theorem se3_embed_act (g : Vec ℝ 7) (v : Vec ℝ 3) (i : Fin 3) :
    (mulVec (SE3.matrix g) (SE3.embed v)) ⟨i.val, by omega⟩ = (SE3.act g v) i := by
  rw [SE3.act_eq_matrix]
  fin_cases i <;> simp [SE3.embed, mk4, Vec.of]

/-- **SE3 action, all inputs, componentwise**: 7 roundings (6 in `q·v`, 1 for `+ t`) -/
theorem se3_action_round (g : Vec ℝ 7) (v : Vec ℝ 3) (i : Fin 3) :
    |toReal ((SE3.act (Vec.toRF g) (Vec.toRF v)) i) - (mulVec (SE3.matrix g) (SE3.embed v)) ⟨i.val, by omega⟩|
      ≤ theta 7 * se3ActAbs g v i := by
  rw [se3_embed_act]
  exact (se3_act_appr g v i).err

theorem se3_action_round_T (g : Vec ℝ 7) (n : ℝ) (hn : SO3.sqn (SE3.so3 g) ≤ n) (v : Vec ℝ 3) (T : ℝ)
    (hv : ∀ l, |v l| ≤ T) (ht : ∀ l, |SE3.r3 g l| ≤ T) (i : Fin 3) :
    |toReal ((SE3.act (Vec.toRF g) (Vec.toRF v)) i) - (mulVec (SE3.matrix g) (SE3.embed v)) ⟨i.val, by omega⟩|
      ≤ theta 7 * ((1 + 4 * n) * T + T) := by
  refine (se3_action_round g v i).trans ?_
  have := so3ActAbs_le (SE3.so3 g) n hn v T hv i
  have := ht i
  have := theta_nonneg 7
  unfold se3ActAbs
  gcongr
example : SO3.sqn (SE3.so3 se3A) ≤ 1 ∧ (∀ l, |vA l| ≤ 1000) ∧ ∀ l, |SE3.r3 se3A l| ≤ 1000 :=
  ⟨(show SO3.sqn (SE3.so3 se3A) = 1 from se3A_unit).le, vA_bound, se3A_trans⟩

theorem se3_action_acc (g : Vec ℝ 7) (hg : SO3.sqn (SE3.so3 g) ≤ 1 + 1 / 10 ^ 8) (v : Vec ℝ 3) (T : ℝ)
    (hv : ∀ l, |v l| ≤ T) (ht : ∀ l, |SE3.r3 g l| ≤ T) (i : Fin 3) :
    |toReal ((SE3.act (Vec.toRF g) (Vec.toRF v)) i) - (mulVec (SE3.matrix g) (SE3.embed v)) ⟨i.val, by omega⟩|
      ≤ 4201 / 100 * ubar * T := by
  refine (se3_action_round_T g _ hg v T hv ht i).trans ?_
  have hT : 0 ≤ T := (abs_nonneg _).trans (hv 0)
  have := theta_mul_le 7 (by norm_num) ((1 + 4 * (1 + 1 / 10 ^ 8)) * T + T) ((1 + 4 * (1 + 1 / 10 ^ 8)) * T + T)
    (4201 / 100 * T) (by positivity) (le_refl _) (by norm_num; nlinarith)
  calc _ ≤ _ := this
    _ = _ := by ring

/-- **C01 accuracy clause, SE3 action, double**: `g * v` vs the point part of `matrix(g)·(v,1)` to
    `1e-12·T`, `T ≥ |v|_∞, |t|_∞` -/
theorem se3_action_double (h : IsDouble) (g : Vec ℝ 7) (hg : SE3.Unit g) (v : Vec ℝ 3) (T : ℝ)
    (hv : ∀ l, |v l| ≤ T) (ht : ∀ l, |SE3.r3 g l| ≤ T) (i : Fin 3) :
    |toReal ((SE3.act (Vec.toRF g) (Vec.toRF v)) i) - (mulVec (SE3.matrix g) (SE3.embed v)) ⟨i.val, by omega⟩|
      ≤ 1 / 10 ^ 12 * T := by
  have e1 : SO3.sqn (SE3.so3 g) = 1 := hg
  refine (se3_action_acc g (by rw [e1]; norm_num) v T hv ht i).trans ?_
  have := ubar_double h
  have hT : 0 ≤ T := (abs_nonneg _).trans (hv 0)
  gcongr
  norm_num at *; linarith

theorem se3_action_single (h : IsSingle) (g : Vec ℝ 7) (hg : SE3.Unit g) (v : Vec ℝ 3) (T : ℝ)
    (hv : ∀ l, |v l| ≤ T) (ht : ∀ l, |SE3.r3 g l| ≤ T) (i : Fin 3) :
    |toReal ((SE3.act (Vec.toRF g) (Vec.toRF v)) i) - (mulVec (SE3.matrix g) (SE3.embed v)) ⟨i.val, by omega⟩|
      ≤ 1 / 10 ^ 5 * T := by
  have e1 : SO3.sqn (SE3.so3 g) = 1 := hg
  refine (se3_action_acc g (by rw [e1]; norm_num) v T hv ht i).trans ?_
  have := ubar_single h
  have hT : 0 ≤ T := (abs_nonneg _).trans (hv 0)
  gcongr
  norm_num at *; linarith

/-! ### Galilei -/

/-- "moderate" Galilei element: velocity, position coordinates and time bounded by `T` -/
def GalBounded (T : ℝ) (g : Vec ℝ 11) : Prop :=
  (∀ l, |Galilei.gv g l| ≤ T) ∧ (∀ l, |Galilei.gp g l| ≤ T) ∧ |Galilei.gt g| ≤ T

omit [Rounding] in
theorem galilei_embed_act (g : Vec ℝ 11) (x : Vec ℝ 4) (i : Fin 4) :
    (mulVec (Galilei.matrix g) (Galilei.embed x)) ⟨i.val, by omega⟩ = (Galilei.act g x) i := by
  rw [Galilei.act_eq_matrix]
  fin_cases i <;> simp [Galilei.embed, Vec.of]

/-- **Galilei action, spatial coordinates `R x + v·t + p`, all inputs, componentwise**: 8 roundings -/
theorem galilei_action_space_round (g : Vec ℝ 11) (x : Vec ℝ 4) (i : Fin 3) :
    |toReal ((Galilei.act (Vec.toRF g) (Vec.toRF x)) ⟨i.val, by omega⟩)
        - (mulVec (Galilei.matrix g) (Galilei.embed x)) ⟨i.val, by omega⟩| ≤ theta 8 * galActAbs g x i := by
  have : (mulVec (Galilei.matrix g) (Galilei.embed x)) ⟨i.val, by omega⟩ = (Galilei.act g x) ⟨i.val, by omega⟩ :=
    galilei_embed_act g x ⟨i.val, by omega⟩
  rw [this]
  exact (gal_act_space_appr g x i).err

/-- **Galilei action, time coordinate `t + τ`**: one rounding, relative -/
theorem galilei_action_time_round (g : Vec ℝ 11) (x : Vec ℝ 4) :
    |toReal ((Galilei.act (Vec.toRF g) (Vec.toRF x)) 3) - (mulVec (Galilei.matrix g) (Galilei.embed x)) 3|
      ≤ u * |(mulVec (Galilei.matrix g) (Galilei.embed x)) 3| := by
  have : (mulVec (Galilei.matrix g) (Galilei.embed x)) 3 = (Galilei.act g x) 3 := galilei_embed_act g x 3
  rw [this]
  exact gal_act_time_err g x

/-- approximately unit rotation part, everything bounded by `T`: every coordinate of `g * x` is within
    `48.01·ū·(T + T²)` of the matrix action -/
theorem galilei_action_acc (g : Vec ℝ 11) (hg : SO3.sqn (Galilei.gq g) ≤ 1 + 1 / 10 ^ 8) (x : Vec ℝ 4) (T : ℝ)
    (hx : ∀ l, |x l| ≤ T) (hb : GalBounded T g) (i : Fin 4) :
    |toReal ((Galilei.act (Vec.toRF g) (Vec.toRF x)) i) - (mulVec (Galilei.matrix g) (Galilei.embed x)) ⟨i.val, by omega⟩|
      ≤ 4801 / 100 * ubar * (T + T ^ 2) := by
  have hT : 0 ≤ T := (abs_nonneg _).trans (hx 0)
  have hub := ubar_nonneg
  by_cases hi : i.val < 3
  · have e : i = ⟨(⟨i.val, hi⟩ : Fin 3).val, by omega⟩ := rfl
    rw [e]
    refine (galilei_action_space_round g x ⟨i.val, hi⟩).trans ?_
    have hle := galActAbs_le g x _ T hg hx hb.1 hb.2.1 ⟨i.val, hi⟩
    have hX0 : 0 ≤ galActAbs g x ⟨i.val, hi⟩ := by
      unfold galActAbs
      have := so3ActAbs_nonneg (Galilei.gq g) (mk3 (x 0) (x 1) (x 2)) ⟨i.val, hi⟩
      positivity
    have := theta_mul_le 8 (by norm_num) _ _ (4801 / 100 * (T + T ^ 2)) hX0 hle (by norm_num; nlinarith)
    calc _ ≤ _ := this
      _ = _ := by ring
  · have e : i = 3 := Fin.ext (by have := i.isLt; omega)
    subst e
    refine (galilei_action_time_round g x).trans ?_
    have h3 : (mulVec (Galilei.matrix g) (Galilei.embed x)) 3 = (Galilei.act g x) 3 := galilei_embed_act g x 3
    rw [h3]
    have hval : |(Galilei.act g x) 3| ≤ 2 * T := by
      have h1 := hx 3; have h2 := hb.2.2
      have : (Galilei.act g x) 3 = x 3 + Galilei.gt g := by simp [Galilei.act, mk4, Vec.of]
      rw [this]
      exact (abs_add_le _ _).trans (by linarith)
    have hu := theta_le_ubar 1 (by norm_num)
    rw [theta_one] at hu
    have hu0 := u_nonneg
    calc u * |(Galilei.act g x) 3| ≤ (1 * ubar) * (2 * T) := mul_le_mul (by simpa using hu) hval (abs_nonneg _) (by positivity)
      _ ≤ 4801 / 100 * ubar * (T + T ^ 2) := by nlinarith [mul_nonneg hub hT, mul_nonneg hub (sq_nonneg T)]

/-- **C01 accuracy clause, Galilei action, double** -/
theorem galilei_action_double (h : IsDouble) (g : Vec ℝ 11) (hg : Galilei.Unit g) (x : Vec ℝ 4) (T : ℝ)
    (hx : ∀ l, |x l| ≤ T) (hb : GalBounded T g) (i : Fin 4) :
    |toReal ((Galilei.act (Vec.toRF g) (Vec.toRF x)) i) - (mulVec (Galilei.matrix g) (Galilei.embed x)) ⟨i.val, by omega⟩|
      ≤ 1 / 10 ^ 12 * (T + T ^ 2) := by
  have e1 : SO3.sqn (Galilei.gq g) = 1 := hg
  refine (galilei_action_acc g (by rw [e1]; norm_num) x T hx hb i).trans ?_
  have := ubar_double h
  have hT : 0 ≤ T := (abs_nonneg _).trans (hx 0)
  gcongr
  norm_num at *; linarith

theorem galilei_action_single (h : IsSingle) (g : Vec ℝ 11) (hg : Galilei.Unit g) (x : Vec ℝ 4) (T : ℝ)
    (hx : ∀ l, |x l| ≤ T) (hb : GalBounded T g) (i : Fin 4) :
    |toReal ((Galilei.act (Vec.toRF g) (Vec.toRF x)) i) - (mulVec (Galilei.matrix g) (Galilei.embed x)) ⟨i.val, by omega⟩|
      ≤ 1 / 10 ^ 5 * (T + T ^ 2) := by
  have e1 : SO3.sqn (Galilei.gq g) = 1 := hg
  refine (galilei_action_acc g (by rw [e1]; norm_num) x T hx hb i).trans ?_
  have := ubar_single h
  have hT : 0 ≤ T := (abs_nonneg _).trans (hx 0)
  gcongr
  norm_num at *; linarith

/-! ## 2. Galilei composition and inverse -/

/-- **Galilei composition, velocity `R(q₁)v₂ + v₁`, all inputs, componentwise**: 9 roundings -/
theorem galilei_composition_v_round (a b : Vec ℝ 11) (i : Fin 3) :
    |toReal ((Galilei.gv (Galilei.composition (Vec.toRF a) (Vec.toRF b))) i) - (Galilei.gv (Galilei.composition a b)) i|
      ≤ theta 9 * (rowAbs (so3MatAbs (absV (Galilei.gq a))) (Galilei.gv b) i + |Galilei.gv a i|) :=
  (gal_composition_v_appr a b i).err

/-- **… position `(R(q₁)p₂ + v₁·τ₂) + p₁`**: 10 roundings, majorant `|R|(|q₁|)|p₂| + |v₁||τ₂| + |p₁|` -/
theorem galilei_composition_p_round (a b : Vec ℝ 11) (i : Fin 3) :
    |toReal ((Galilei.gp (Galilei.composition (Vec.toRF a) (Vec.toRF b))) i) - (Galilei.gp (Galilei.composition a b)) i|
      ≤ theta 10 * galCompPAbs a b i := (gal_composition_p_appr a b i).err

/-- **… time `τ₁ + τ₂`**: relative error `u` -/
theorem galilei_composition_t_round (a b : Vec ℝ 11) :
    |toReal (Galilei.gt (Galilei.composition (Vec.toRF a) (Vec.toRF b))) - Galilei.gt (Galilei.composition a b)|
      ≤ u * |Galilei.gt (Galilei.composition a b)| := gal_composition_t_err a b

/-- **… rotation part through the rotation matrix (sign-free)** -/
theorem galilei_composition_rot_round (a b : Vec ℝ 11) (i j : Fin 3) :
    |(SO3.matrix (Vec.toR (Galilei.gq (Galilei.composition (Vec.toRF a) (Vec.toRF b))))) i j
        - (SO3.matrix (Galilei.gq (Galilei.composition a b))) i j|
      ≤ theta 10 * (1 + 4 * (SO3.sqn (Galilei.gq a) * SO3.sqn (Galilei.gq b))) := by
  rw [gal_comp_gq, gal_comp_gq, gal_gq_toRF, gal_gq_toRF]
  exact so3_composition_matrix_round _ _ i j

/-- Galilei composition, whole 5×5 matrix: `≤ 60.01·ū·max(1, T + T²)` -/
theorem galilei_matrix_composition_acc (a b : Vec ℝ 11) (T : ℝ)
    (hna : SO3.sqn (Galilei.gq a) ≤ 1 + 1 / 10 ^ 8) (hnb : SO3.sqn (Galilei.gq b) ≤ 1 + 1 / 10 ^ 8)
    (ha : GalBounded T a) (hb : GalBounded T b) :
    ∀ i j : Fin 5, |(Galilei.matrix (Vec.toR (Galilei.composition (Vec.toRF a) (Vec.toRF b)))) i j
        - (Galilei.matrix (Galilei.composition a b)) i j| ≤ 6001 / 100 * ubar * scale2 T := by
  have hT : 0 ≤ T := (abs_nonneg _).trans ha.2.2
  have hs1 := one_le_scale2 T
  have hsT := le_scale2 T
  have hs0 := scale2_nonneg T
  have hub := ubar_nonneg
  have hT2 := sq_nonneg T
  apply fin5_cases
  · intro i j
    rw [gal_matrix_rot, gal_matrix_rot, gal_gq_toR]
    refine (galilei_composition_rot_round a b i j).trans ?_
    have n1 := sqn_nonneg (Galilei.gq a); have n2 := sqn_nonneg (Galilei.gq b)
    have hn : SO3.sqn (Galilei.gq a) * SO3.sqn (Galilei.gq b) ≤ (1 + 1 / 10 ^ 8) * (1 + 1 / 10 ^ 8) :=
      mul_le_mul hna hnb n2 (by norm_num)
    have := theta_mul_le 10 (by norm_num) (1 + 4 * (SO3.sqn (Galilei.gq a) * SO3.sqn (Galilei.gq b)))
      (1 + 4 * ((1 + 1 / 10 ^ 8) * (1 + 1 / 10 ^ 8))) (6001 / 100) (by positivity) (by linarith) (by norm_num)
    refine this.trans ?_
    nlinarith [mul_nonneg hub (sub_nonneg.mpr hs1)]
  · intro i
    rw [gal_matrix_v, gal_matrix_v, gal_gv_toR]
    have hle := rowAbs_rot_le (Galilei.gq a) _ hna (Galilei.gv b) T hb.1 i
    have hX0 : 0 ≤ rowAbs (so3MatAbs (absV (Galilei.gq a))) (Galilei.gv b) i + |Galilei.gv a i| :=
      (gal_composition_v_appr a b i).X_nonneg
    have := theta_mul_le 9 (by norm_num) _ ((1 + 4 * (1 + 1 / 10 ^ 8)) * T + T) (6001 / 100 * scale2 T) hX0
      (by have := ha.1 i; linarith) (by norm_num; nlinarith)
    refine (galilei_composition_v_round a b i).trans ?_
    calc _ ≤ _ := this
      _ = _ := by ring
  · intro i
    rw [gal_matrix_p, gal_matrix_p, gal_gp_toR]
    have hle := galCompPAbs_le a b _ T hna hb.2.1 ha.1 ha.2.1 hb.2.2 i
    have hX0 : 0 ≤ galCompPAbs a b i := (gal_composition_p_appr a b i).X_nonneg
    have := theta_mul_le 10 (by norm_num) _ _ (6001 / 100 * scale2 T) hX0 hle (by norm_num; nlinarith)
    refine (galilei_composition_p_round a b i).trans ?_
    calc _ ≤ _ := this
      _ = _ := by ring
  · rw [gal_matrix_t, gal_matrix_t, gal_gt_toR]
    refine (galilei_composition_t_round a b).trans ?_
    rw [gal_comp_gt]
    have hval : |Galilei.gt a + Galilei.gt b| ≤ 2 * T := (abs_add_le _ _).trans (by linarith [ha.2.2, hb.2.2])
    have hu := theta_le_ubar 1 (by norm_num)
    rw [theta_one] at hu
    calc u * |Galilei.gt a + Galilei.gt b| ≤ (1 * ubar) * (2 * T) :=
          mul_le_mul (by simpa using hu) hval (abs_nonneg _) (by positivity)
      _ ≤ 6001 / 100 * ubar * scale2 T := by nlinarith [mul_nonneg hub hT, mul_nonneg hub hT2, mul_nonneg hub hs0]
  · intro i j hi hij
    rw [gal_matrix_const _ (Galilei.composition a b) i j hi hij]
    simp only [sub_self, abs_zero]
    positivity

/-- a Galilei element with velocity / position / time up to 1e3 -/
def galB : Vec ℝ 11 := Galilei.mkG (mk3 1000 (-2) 3) (mk3 4 (-999) 6) 500 qC
/-- a half-turn Galilei element -/
def galC : Vec ℝ 11 := Galilei.mkG (mk3 1 2 (-1000)) (mk3 (1 / 7) 5 6) (-1000) qB
omit [Rounding] in
theorem galB_unit : Galilei.Unit galB := by unfold Galilei.Unit galB; rw [Galilei.gq_mkG]; exact qC_unit
omit [Rounding] in
theorem galC_unit : Galilei.Unit galC := by unfold Galilei.Unit galC; rw [Galilei.gq_mkG]; exact qB_unit
omit [Rounding] in
theorem galB_bounded : GalBounded 1000 galB := by
  refine ⟨fun l => ?_, fun l => ?_, ?_⟩
  · rw [show Galilei.gv galB = mk3 1000 (-2) 3 from gal_gv_mkG _ _ _ _]
    fin_cases l <;> simp [mk3, Vec.of] <;> norm_num
  · rw [show Galilei.gp galB = mk3 4 (-999) 6 from gal_gp_mkG _ _ _ _]
    fin_cases l <;> simp [mk3, Vec.of] <;> norm_num
  · rw [show Galilei.gt galB = 500 from gal_gt_mkG _ _ _ _]; norm_num
omit [Rounding] in
theorem galC_bounded : GalBounded 1000 galC := by
  refine ⟨fun l => ?_, fun l => ?_, ?_⟩
  · rw [show Galilei.gv galC = mk3 1 2 (-1000) from gal_gv_mkG _ _ _ _]
    fin_cases l <;> simp [mk3, Vec.of] <;> norm_num
  · rw [show Galilei.gp galC = mk3 (1 / 7) 5 6 from gal_gp_mkG _ _ _ _]
    fin_cases l <;> simp [mk3, Vec.of] <;> norm_num
  · rw [show Galilei.gt galC = -1000 from gal_gt_mkG _ _ _ _]; norm_num
example : GalBounded 1000 galB ∧ GalBounded 1000 galC := ⟨galB_bounded, galC_bounded⟩

/-- **C01 accuracy clause, Galilei composition, double**: for unit rotation parts and velocity / position /
    time bounded by `T`, `matrix(g₁*g₂)` agrees with `matrix g₁ · matrix g₂` to `1e-12·max(1, T + T²)` -/
theorem galilei_matrix_composition_double (h : IsDouble) (a b : Vec ℝ 11) (ha : Galilei.Unit a)
    (hb : Galilei.Unit b) (T : ℝ) (hTa : GalBounded T a) (hTb : GalBounded T b) (i j : Fin 5) :
    |(Galilei.matrix (Vec.toR (Galilei.composition (Vec.toRF a) (Vec.toRF b)))) i j
        - (mmul (Galilei.matrix a) (Galilei.matrix b)) i j| ≤ 1 / 10 ^ 12 * scale2 T := by
  rw [← Galilei.matrix_composition a b ha hb]
  have e1 : SO3.sqn (Galilei.gq a) = 1 := ha
  have e2 : SO3.sqn (Galilei.gq b) = 1 := hb
  refine (galilei_matrix_composition_acc a b T (by rw [e1]; norm_num) (by rw [e2]; norm_num) hTa hTb i j).trans ?_
  have := ubar_double h
  have := scale2_nonneg T
  gcongr
  norm_num at *; linarith

theorem galilei_matrix_composition_single (h : IsSingle) (a b : Vec ℝ 11) (ha : Galilei.Unit a)
    (hb : Galilei.Unit b) (T : ℝ) (hTa : GalBounded T a) (hTb : GalBounded T b) (i j : Fin 5) :
    |(Galilei.matrix (Vec.toR (Galilei.composition (Vec.toRF a) (Vec.toRF b)))) i j
        - (mmul (Galilei.matrix a) (Galilei.matrix b)) i j| ≤ 1 / 10 ^ 5 * scale2 T := by
  rw [← Galilei.matrix_composition a b ha hb]
  have e1 : SO3.sqn (Galilei.gq a) = 1 := ha
  have e2 : SO3.sqn (Galilei.gq b) = 1 := hb
  refine (galilei_matrix_composition_acc a b T (by rw [e1]; norm_num) (by rw [e2]; norm_num) hTa hTb i j).trans ?_
  have := ubar_single h
  have := scale2_nonneg T
  gcongr
  norm_num at *; linarith

/-- **Galilei inverse, velocity `−R(q⁻¹)v`**: 22 roundings -/
theorem galilei_inverse_v_round (g : Vec ℝ 11) (i : Fin 3) :
    |toReal ((Galilei.gv (Galilei.inverse (Vec.toRF g))) i) - (Galilei.gv (Galilei.inverse g)) i|
      ≤ theta 22 * rowAbs (so3MatAbs (qinvAbs (Galilei.gq g))) (Galilei.gv g) i := (gal_inverse_v_appr g i).err

/-- **Galilei inverse, position `R(q⁻¹)(−p + τ·v)`**: 24 roundings, majorant `|R|(|q⁻¹|)(|p| + |τ||v|)` -/
theorem galilei_inverse_p_round (g : Vec ℝ 11) (i : Fin 3) :
    |toReal ((Galilei.gp (Galilei.inverse (Vec.toRF g))) i) - (Galilei.gp (Galilei.inverse g)) i|
      ≤ theta 24 * galInvPAbs g i := (gal_inverse_p_appr g i).err

/-- **Galilei inverse, time `−τ`**: exact -/
theorem galilei_inverse_t_round (g : Vec ℝ 11) :
    toReal (Galilei.gt (Galilei.inverse (Vec.toRF g))) = Galilei.gt (Galilei.inverse g) := gal_inverse_t_exact g

theorem galilei_inverse_rot_round (g : Vec ℝ 11) (hg : SO3.sqn (Galilei.gq g) ≠ 0) (i j : Fin 3) :
    |(SO3.matrix (Vec.toR (Galilei.gq (Galilei.inverse (Vec.toRF g))))) i j
        - (SO3.matrix (Galilei.gq (Galilei.inverse g))) i j| ≤ theta 14 * (1 + 4 / SO3.sqn (Galilei.gq g)) := by
  rw [gal_inv_gq, gal_inv_gq, gal_gq_toRF]
  exact so3_inverse_matrix_round _ hg i j

/-- Galilei inverse, whole matrix: `≤ 120.01·ū·max(1, T + T²)` -/
theorem galilei_matrix_inverse_acc (g : Vec ℝ 11) (T : ℝ) (hlo : 1 - 1 / 10 ^ 8 ≤ SO3.sqn (Galilei.gq g))
    (hb : GalBounded T g) :
    ∀ i j : Fin 5, |(Galilei.matrix (Vec.toR (Galilei.inverse (Vec.toRF g)))) i j
        - (Galilei.matrix (Galilei.inverse g)) i j| ≤ 12001 / 100 * ubar * scale2 T := by
  have hT : 0 ≤ T := (abs_nonneg _).trans hb.2.2
  have hs1 := one_le_scale2 T
  have hsT := le_scale2 T
  have hs0 := scale2_nonneg T
  have hub := ubar_nonneg
  have hT2 := sq_nonneg T
  have hpos : 0 < SO3.sqn (Galilei.gq g) := lt_of_lt_of_le (by norm_num) hlo
  apply fin5_cases
  · intro i j
    rw [gal_matrix_rot, gal_matrix_rot, gal_gq_toR]
    refine (galilei_inverse_rot_round g hpos.ne' i j).trans ?_
    have h4 : 4 / SO3.sqn (Galilei.gq g) ≤ 4 / (1 - 1 / 10 ^ 8) := by gcongr
    have := theta_mul_le 14 (by norm_num) (1 + 4 / SO3.sqn (Galilei.gq g)) (1 + 4 / (1 - 1 / 10 ^ 8))
      (12001 / 100) (by positivity) (by linarith) (by norm_num)
    refine this.trans ?_
    nlinarith [mul_nonneg hub (sub_nonneg.mpr hs1)]
  · intro i
    rw [gal_matrix_v, gal_matrix_v, gal_gv_toR]
    have hle := rowAbs_rotinv_le (Galilei.gq g) (1 - 1 / 10 ^ 8) (by norm_num) hlo (Galilei.gv g) T hb.1 i
    have hX0 := (gal_inverse_v_appr g i).X_nonneg
    have := theta_mul_le 22 (by norm_num) _ _ (12001 / 100 * scale2 T) hX0 hle (by norm_num; nlinarith)
    refine (galilei_inverse_v_round g i).trans ?_
    calc _ ≤ _ := this
      _ = _ := by ring
  · intro i
    rw [gal_matrix_p, gal_matrix_p, gal_gp_toR]
    have hle := galInvPAbs_le g (1 - 1 / 10 ^ 8) T (by norm_num) hlo hb.2.1 hb.1 hb.2.2 i
    have hX0 := (gal_inverse_p_appr g i).X_nonneg
    have := theta_mul_le 24 (by norm_num) _ _ (12001 / 100 * scale2 T) hX0 hle (by norm_num; nlinarith)
    refine (galilei_inverse_p_round g i).trans ?_
    calc _ ≤ _ := this
      _ = _ := by ring
  · rw [gal_matrix_t, gal_matrix_t, gal_gt_toR, galilei_inverse_t_round]
    simp only [sub_self, abs_zero]
    positivity
  · intro i j hi hij
    rw [gal_matrix_const _ (Galilei.inverse g) i j hi hij]
    simp only [sub_self, abs_zero]
    positivity
example : 1 - 1 / 10 ^ 8 ≤ SO3.sqn (Galilei.gq galC) := by
  rw [show SO3.sqn (Galilei.gq galC) = 1 from galC_unit]; norm_num

/-- **C01 accuracy clause, Galilei inverse, double** -/
theorem galilei_matrix_inverse_double (h : IsDouble) (g : Vec ℝ 11) (hg : Galilei.Unit g) (T : ℝ)
    (hb : GalBounded T g) :
    ∃ Minv : Mat ℝ 5 5, mmul Minv (Galilei.matrix g) = ident 5 ∧ mmul (Galilei.matrix g) Minv = ident 5 ∧
      ∀ i j, |(Galilei.matrix (Vec.toR (Galilei.inverse (Vec.toRF g)))) i j - Minv i j| ≤ 1 / 10 ^ 12 * scale2 T := by
  refine ⟨Galilei.matrix (Galilei.inverse g), Galilei.matrix_inverse_left g hg, Galilei.matrix_inverse_right g hg,
    fun i j => ?_⟩
  have e1 : SO3.sqn (Galilei.gq g) = 1 := hg
  refine (galilei_matrix_inverse_acc g T (by rw [e1]; norm_num) hb i j).trans ?_
  have := ubar_double h
  have := scale2_nonneg T
  gcongr
  norm_num at *; linarith

theorem galilei_matrix_inverse_single (h : IsSingle) (g : Vec ℝ 11) (hg : Galilei.Unit g) (T : ℝ)
    (hb : GalBounded T g) :
    ∃ Minv : Mat ℝ 5 5, mmul Minv (Galilei.matrix g) = ident 5 ∧ mmul (Galilei.matrix g) Minv = ident 5 ∧
      ∀ i j, |(Galilei.matrix (Vec.toR (Galilei.inverse (Vec.toRF g)))) i j - Minv i j| ≤ 1 / 10 ^ 5 * scale2 T := by
  refine ⟨Galilei.matrix (Galilei.inverse g), Galilei.matrix_inverse_left g hg, Galilei.matrix_inverse_right g hg,
    fun i j => ?_⟩
  have e1 : SO3.sqn (Galilei.gq g) = 1 := hg
  refine (galilei_matrix_inverse_acc g T (by rw [e1]; norm_num) hb i j).trans ?_
  have := ubar_single h
  have := scale2_nonneg T
  gcongr
  norm_num at *; linarith

/-! ## SE_K_3, every K -/

/-- "moderate" SE_K_3 element: every coordinate of every translation block bounded by `T` -/
def SekBounded (k : Nat) (T : ℝ) (g : Vec ℝ (4 + 3 * k)) : Prop := ∀ (j : Fin k) (l : Fin 3), |SEK3.gp k g j l| ≤ T

/-- **SE_K_3 composition, every K, block `j`, `R(q₁)p₂ⱼ + p₁ⱼ`, all inputs, componentwise**: 9 roundings -/
theorem sek3_composition_p_round (k : Nat) (a b : Vec ℝ (4 + 3 * k)) (j : Fin k) (i : Fin 3) :
    |toReal ((SEK3.gp k (SEK3.composition k (Vec.toRF a) (Vec.toRF b)) j) i) - (SEK3.gp k (SEK3.composition k a b) j) i|
      ≤ theta 9 * (rowAbs (so3MatAbs (absV (SEK3.gq k a))) (SEK3.gp k b j) i + |SEK3.gp k a j i|) :=
  (sek_composition_p_appr k a b j i).err

/-- **… rotation part through the rotation matrix (sign-free)** -/
theorem sek3_composition_rot_round (k : Nat) (a b : Vec ℝ (4 + 3 * k)) (i j : Fin 3) :
    |(SO3.matrix (Vec.toR (SEK3.gq k (SEK3.composition k (Vec.toRF a) (Vec.toRF b))))) i j
        - (SO3.matrix (SEK3.gq k (SEK3.composition k a b))) i j|
      ≤ theta 10 * (1 + 4 * (SO3.sqn (SEK3.gq k a) * SO3.sqn (SEK3.gq k b))) := by
  rw [sek_comp_gq, sek_comp_gq, sek_gq_toRF, sek_gq_toRF]
  exact so3_composition_matrix_round _ _ i j

/-- SE_K_3 composition, whole `(3+K)×(3+K)` matrix, every K: `≤ 54.01·ū·max(1,T)` (the SE3 constant) -/
theorem sek3_matrix_composition_acc (k : Nat) (a b : Vec ℝ (4 + 3 * k)) (T : ℝ)
    (hna : SO3.sqn (SEK3.gq k a) ≤ 1 + 1 / 10 ^ 8) (hnb : SO3.sqn (SEK3.gq k b) ≤ 1 + 1 / 10 ^ 8)
    (ha : SekBounded k T a) (hb : SekBounded k T b) :
    ∀ i j : Fin (3 + k), |(SEK3.matrix k (Vec.toR (SEK3.composition k (Vec.toRF a) (Vec.toRF b)))) i j
        - (SEK3.matrix k (SEK3.composition k a b)) i j| ≤ 5401 / 100 * ubar * scale T := by
  have hs1 := one_le_scale T
  have hsT := le_scale T
  have hs0 := scale_nonneg T
  have hub := ubar_nonneg
  apply sek_cases
  · intro i j
    rw [sek_matrix_rot, sek_matrix_rot, sek_gq_toR]
    refine (sek3_composition_rot_round k a b i j).trans ?_
    have n1 := sqn_nonneg (SEK3.gq k a); have n2 := sqn_nonneg (SEK3.gq k b)
    have hn : SO3.sqn (SEK3.gq k a) * SO3.sqn (SEK3.gq k b) ≤ (1 + 1 / 10 ^ 8) * (1 + 1 / 10 ^ 8) :=
      mul_le_mul hna hnb n2 (by norm_num)
    have := theta_mul_le 10 (by norm_num) (1 + 4 * (SO3.sqn (SEK3.gq k a) * SO3.sqn (SEK3.gq k b)))
      (1 + 4 * ((1 + 1 / 10 ^ 8) * (1 + 1 / 10 ^ 8))) (5401 / 100) (by positivity) (by linarith) (by norm_num)
    refine this.trans ?_
    nlinarith [mul_nonneg hub (sub_nonneg.mpr hs1)]
  · intro i j
    rw [sek_matrix_p, sek_matrix_p, sek_gp_toR]
    have hle := rowAbs_rot_le (SEK3.gq k a) _ hna (SEK3.gp k b j) (scale T) (fun l => (hb j l).trans hsT) i
    have hX0 := (sek_composition_p_appr k a b j i).X_nonneg
    have := theta_mul_le 9 (by norm_num) _ ((1 + 4 * (1 + 1 / 10 ^ 8)) * scale T + scale T) (5401 / 100 * scale T) hX0
      (by have := (ha j i).trans hsT; linarith) (by norm_num; nlinarith)
    refine (sek3_composition_p_round k a b j i).trans ?_
    calc _ ≤ _ := this
      _ = _ := by ring
  · intro i j hi
    rw [sek_matrix_const k _ (SEK3.composition k a b) i j hi]
    simp only [sub_self, abs_zero]
    positivity

/-- SE_K_3 witnesses for every K: generic and half-turn rotation part, translations up to 1e3 -/
def sekB (k : Nat) : Vec ℝ (4 + 3 * k) := SEK3.mkG k (fun _ => mk3 1000 (-2) 3) qC
def sekC (k : Nat) : Vec ℝ (4 + 3 * k) := SEK3.mkG k (fun _ => mk3 (1 / 3) (-999) 7) qB
omit [Rounding] in
theorem sekB_unit (k : Nat) : SEK3.Unit k (sekB k) := by unfold SEK3.Unit sekB; rw [SEK3.gq_mkG]; exact qC_unit
omit [Rounding] in
theorem sekC_unit (k : Nat) : SEK3.Unit k (sekC k) := by unfold SEK3.Unit sekC; rw [SEK3.gq_mkG]; exact qB_unit
omit [Rounding] in
theorem sekB_bounded (k : Nat) : SekBounded k 1000 (sekB k) := by
  intro j l
  rw [show SEK3.gp k (sekB k) j = mk3 1000 (-2) 3 from sek_gp_mkG _ _ _ _]
  fin_cases l <;> simp [mk3, Vec.of] <;> norm_num
omit [Rounding] in
theorem sekC_bounded (k : Nat) : SekBounded k 1000 (sekC k) := by
  intro j l
  rw [show SEK3.gp k (sekC k) j = mk3 (1 / 3) (-999) 7 from sek_gp_mkG _ _ _ _]
  fin_cases l <;> simp [mk3, Vec.of] <;> norm_num
example (k : Nat) : SekBounded k 1000 (sekB k) ∧ SekBounded k 1000 (sekC k) := ⟨sekB_bounded k, sekC_bounded k⟩

/-- **C01 accuracy clause, SE_K_3 composition, every K, double** -/
theorem sek3_matrix_composition_double (h : IsDouble) (k : Nat) (a b : Vec ℝ (4 + 3 * k)) (ha : SEK3.Unit k a)
    (hb : SEK3.Unit k b) (T : ℝ) (hTa : SekBounded k T a) (hTb : SekBounded k T b) (i j : Fin (3 + k)) :
    |(SEK3.matrix k (Vec.toR (SEK3.composition k (Vec.toRF a) (Vec.toRF b)))) i j
        - (mmul (SEK3.matrix k a) (SEK3.matrix k b)) i j| ≤ 1 / 10 ^ 12 * scale T := by
  rw [← SEK3.matrix_composition k a b ha hb]
  have e1 : SO3.sqn (SEK3.gq k a) = 1 := ha
  have e2 : SO3.sqn (SEK3.gq k b) = 1 := hb
  refine (sek3_matrix_composition_acc k a b T (by rw [e1]; norm_num) (by rw [e2]; norm_num) hTa hTb i j).trans ?_
  have := ubar_double h
  have := scale_nonneg T
  gcongr
  norm_num at *; linarith

theorem sek3_matrix_composition_single (h : IsSingle) (k : Nat) (a b : Vec ℝ (4 + 3 * k)) (ha : SEK3.Unit k a)
    (hb : SEK3.Unit k b) (T : ℝ) (hTa : SekBounded k T a) (hTb : SekBounded k T b) (i j : Fin (3 + k)) :
    |(SEK3.matrix k (Vec.toR (SEK3.composition k (Vec.toRF a) (Vec.toRF b)))) i j
        - (mmul (SEK3.matrix k a) (SEK3.matrix k b)) i j| ≤ 1 / 10 ^ 5 * scale T := by
  rw [← SEK3.matrix_composition k a b ha hb]
  have e1 : SO3.sqn (SEK3.gq k a) = 1 := ha
  have e2 : SO3.sqn (SEK3.gq k b) = 1 := hb
  refine (sek3_matrix_composition_acc k a b T (by rw [e1]; norm_num) (by rw [e2]; norm_num) hTa hTb i j).trans ?_
  have := ubar_single h
  have := scale_nonneg T
  gcongr
  norm_num at *; linarith

/-- **SE_K_3 inverse, every K, block `j`, `−R(q⁻¹)pⱼ`**: 22 roundings -/
theorem sek3_inverse_p_round (k : Nat) (g : Vec ℝ (4 + 3 * k)) (j : Fin k) (i : Fin 3) :
    |toReal ((SEK3.gp k (SEK3.inverse k (Vec.toRF g)) j) i) - (SEK3.gp k (SEK3.inverse k g) j) i|
      ≤ theta 22 * rowAbs (so3MatAbs (qinvAbs (SEK3.gq k g))) (SEK3.gp k g j) i := (sek_inverse_p_appr k g j i).err

theorem sek3_inverse_rot_round (k : Nat) (g : Vec ℝ (4 + 3 * k)) (hg : SO3.sqn (SEK3.gq k g) ≠ 0) (i j : Fin 3) :
    |(SO3.matrix (Vec.toR (SEK3.gq k (SEK3.inverse k (Vec.toRF g))))) i j
        - (SO3.matrix (SEK3.gq k (SEK3.inverse k g))) i j| ≤ theta 14 * (1 + 4 / SO3.sqn (SEK3.gq k g)) := by
  rw [sek_inv_gq, sek_inv_gq, sek_gq_toRF]
  exact so3_inverse_matrix_round _ hg i j

/-- SE_K_3 inverse, whole matrix, every K: `≤ 110.01·ū·max(1,T)` -/
theorem sek3_matrix_inverse_acc (k : Nat) (g : Vec ℝ (4 + 3 * k)) (T : ℝ)
    (hlo : 1 - 1 / 10 ^ 8 ≤ SO3.sqn (SEK3.gq k g)) (hb : SekBounded k T g) :
    ∀ i j : Fin (3 + k), |(SEK3.matrix k (Vec.toR (SEK3.inverse k (Vec.toRF g)))) i j
        - (SEK3.matrix k (SEK3.inverse k g)) i j| ≤ 11001 / 100 * ubar * scale T := by
  have hs1 := one_le_scale T
  have hsT := le_scale T
  have hs0 := scale_nonneg T
  have hub := ubar_nonneg
  have hpos : 0 < SO3.sqn (SEK3.gq k g) := lt_of_lt_of_le (by norm_num) hlo
  apply sek_cases
  · intro i j
    rw [sek_matrix_rot, sek_matrix_rot, sek_gq_toR]
    refine (sek3_inverse_rot_round k g hpos.ne' i j).trans ?_
    have h4 : 4 / SO3.sqn (SEK3.gq k g) ≤ 4 / (1 - 1 / 10 ^ 8) := by gcongr
    have := theta_mul_le 14 (by norm_num) (1 + 4 / SO3.sqn (SEK3.gq k g)) (1 + 4 / (1 - 1 / 10 ^ 8))
      (11001 / 100) (by positivity) (by linarith) (by norm_num)
    refine this.trans ?_
    nlinarith [mul_nonneg hub (sub_nonneg.mpr hs1)]
  · intro i j
    rw [sek_matrix_p, sek_matrix_p, sek_gp_toR]
    have hle := rowAbs_rotinv_le (SEK3.gq k g) (1 - 1 / 10 ^ 8) (by norm_num) hlo (SEK3.gp k g j) (scale T)
      (fun l => (hb j l).trans hsT) i
    have hX0 := (sek_inverse_p_appr k g j i).X_nonneg
    have := theta_mul_le 22 (by norm_num) _ _ (11001 / 100 * scale T) hX0 hle (by norm_num; nlinarith)
    refine (sek3_inverse_p_round k g j i).trans ?_
    calc _ ≤ _ := this
      _ = _ := by ring
  · intro i j hi
    rw [sek_matrix_const k _ (SEK3.inverse k g) i j hi]
    simp only [sub_self, abs_zero]
    positivity
example (k : Nat) : 1 - 1 / 10 ^ 8 ≤ SO3.sqn (SEK3.gq k (sekC k)) := by
  rw [show SO3.sqn (SEK3.gq k (sekC k)) = 1 from sekC_unit k]; norm_num

/-- **C01 accuracy clause, SE_K_3 inverse, every K, double** -/
theorem sek3_matrix_inverse_double (h : IsDouble) (k : Nat) (g : Vec ℝ (4 + 3 * k)) (hg : SEK3.Unit k g) (T : ℝ)
    (hb : SekBounded k T g) :
    ∃ Minv : Mat ℝ (3 + k) (3 + k), mmul Minv (SEK3.matrix k g) = ident (3 + k) ∧
      mmul (SEK3.matrix k g) Minv = ident (3 + k) ∧
      ∀ i j, |(SEK3.matrix k (Vec.toR (SEK3.inverse k (Vec.toRF g)))) i j - Minv i j| ≤ 1 / 10 ^ 12 * scale T := by
  refine ⟨SEK3.matrix k (SEK3.inverse k g), SEK3.matrix_inverse_left k g hg, SEK3.matrix_inverse_right k g hg,
    fun i j => ?_⟩
  have e1 : SO3.sqn (SEK3.gq k g) = 1 := hg
  refine (sek3_matrix_inverse_acc k g T (by rw [e1]; norm_num) hb i j).trans ?_
  have := ubar_double h
  have := scale_nonneg T
  gcongr
  norm_num at *; linarith

theorem sek3_matrix_inverse_single (h : IsSingle) (k : Nat) (g : Vec ℝ (4 + 3 * k)) (hg : SEK3.Unit k g) (T : ℝ)
    (hb : SekBounded k T g) :
    ∃ Minv : Mat ℝ (3 + k) (3 + k), mmul Minv (SEK3.matrix k g) = ident (3 + k) ∧
      mmul (SEK3.matrix k g) Minv = ident (3 + k) ∧
      ∀ i j, |(SEK3.matrix k (Vec.toR (SEK3.inverse k (Vec.toRF g)))) i j - Minv i j| ≤ 1 / 10 ^ 5 * scale T := by
  refine ⟨SEK3.matrix k (SEK3.inverse k g), SEK3.matrix_inverse_left k g hg, SEK3.matrix_inverse_right k g hg,
    fun i j => ?_⟩
  have e1 : SO3.sqn (SEK3.gq k g) = 1 := hg
  refine (sek3_matrix_inverse_acc k g T (by rw [e1]; norm_num) hb i j).trans ?_
  have := ubar_single h
  have := scale_nonneg T
  gcongr
  norm_num at *; linarith

/-! ## 3. Associativity: `(g₁g₂)g₃` and `g₁(g₂g₃)`, BOTH products computed in rounded arithmetic -/

/-! ### SO3 -/

/-- `(a∘b)∘c` through the rotation matrix (sign-free), all quaternions: 20 roundings along the worst path -/
theorem so3_assoc_left_round (a b c : Vec ℝ 4) (i j : Fin 3) :
    |(SO3.matrix (Vec.toR (SO3.composition (SO3.composition (Vec.toRF a) (Vec.toRF b)) (Vec.toRF c)))) i j
        - (SO3.matrix (SO3.qmul (SO3.qmul a b) c)) i j|
      ≤ theta 20 * (1 + 16 * (SO3.sqn a * SO3.sqn b * SO3.sqn c)) := by
  obtain ⟨s, hs, h⟩ := so3_triple_left_appr a b c
  have hm := so3_matrix_appr0 _ _ _ h i j
  rw [matrix_sV s hs] at hm
  have hle : so3MatAbs (qabsM (qabs a b) (absV c)) i j ≤ 1 + 16 * (SO3.sqn a * SO3.sqn b * SO3.sqn c) := by
    have := so3MatAbs_le (qabsM (qabs a b) (absV c)) (2 * (nrm4 a * nrm4 b) * nrm4 c)
      (qabsM_nonneg _ _ (qabs_nonneg a b) (absV_nonneg c))
      (qabsM_le _ _ _ _ (qabs_nonneg a b) (qabs_le a b) (absV_nonneg c) (absV_sq c).le (nrm4_nonneg c)) i j
    have e : (2 * (nrm4 a * nrm4 b) * nrm4 c) ^ 2 = 4 * (SO3.sqn a * SO3.sqn b * SO3.sqn c) := by
      rw [← nrm4_sq a, ← nrm4_sq b, ← nrm4_sq c]; ring
    rw [e] at this
    linarith
  exact hm.err_le (le_refl _) hle

/-- `a∘(b∘c)` through the rotation matrix -/
theorem so3_assoc_right_round (a b c : Vec ℝ 4) (i j : Fin 3) :
    |(SO3.matrix (Vec.toR (SO3.composition (Vec.toRF a) (SO3.composition (Vec.toRF b) (Vec.toRF c))))) i j
        - (SO3.matrix (SO3.qmul (SO3.qmul a b) c)) i j|
      ≤ theta 20 * (1 + 16 * (SO3.sqn a * SO3.sqn b * SO3.sqn c)) := by
  obtain ⟨s, hs, h⟩ := so3_triple_right_appr a b c
  have hm := so3_matrix_appr0 _ _ _ h i j
  rw [matrix_sV s hs] at hm
  have hle : so3MatAbs (qabsM (absV a) (qabs b c)) i j ≤ 1 + 16 * (SO3.sqn a * SO3.sqn b * SO3.sqn c) := by
    have := so3MatAbs_le (qabsM (absV a) (qabs b c)) (2 * (nrm4 b * nrm4 c) * nrm4 a)
      (qabsM_nonneg _ _ (absV_nonneg a) (qabs_nonneg b c))
      (qabsM_comm_le _ _ _ _ (qabs_nonneg b c) (qabs_le b c) (absV_nonneg a) (absV_sq a).le (nrm4_nonneg a)) i j
    have e : (2 * (nrm4 b * nrm4 c) * nrm4 a) ^ 2 = 4 * (SO3.sqn a * SO3.sqn b * SO3.sqn c) := by
      rw [← nrm4_sq a, ← nrm4_sq b, ← nrm4_sq c]; ring
    rw [e] at this
    linarith
  exact hm.err_le (le_refl _) hle

omit [Rounding] in
theorem so3_matrix_triple (a b c : Vec ℝ 4) (ha : SO3.Unit a) (hb : SO3.Unit b) (hc : SO3.Unit c) :
    SO3.matrix (SO3.qmul (SO3.qmul a b) c) = mmul (mmul (SO3.matrix a) (SO3.matrix b)) (SO3.matrix c) := by
  rw [SO3.matrix_qmul _ _ (SO3.unit_qmul a b ha hb) hc, SO3.matrix_qmul a b ha hb]

/-- unit quaternions: both bracketings are within `340.01·ū` of `matrix a · matrix b · matrix c` -/
theorem so3_assoc_acc (a b c : Vec ℝ 4) (ha : SO3.Unit a) (hb : SO3.Unit b) (hc : SO3.Unit c) (i j : Fin 3) :
    |(SO3.matrix (Vec.toR (SO3.composition (SO3.composition (Vec.toRF a) (Vec.toRF b)) (Vec.toRF c)))) i j
        - (mmul (mmul (SO3.matrix a) (SO3.matrix b)) (SO3.matrix c)) i j| ≤ 34001 / 100 * ubar ∧
    |(SO3.matrix (Vec.toR (SO3.composition (Vec.toRF a) (SO3.composition (Vec.toRF b) (Vec.toRF c))))) i j
        - (mmul (mmul (SO3.matrix a) (SO3.matrix b)) (SO3.matrix c)) i j| ≤ 34001 / 100 * ubar := by
  rw [← so3_matrix_triple a b c ha hb hc]
  have e1 : SO3.sqn a = 1 := ha
  have e2 : SO3.sqn b = 1 := hb
  have e3 : SO3.sqn c = 1 := hc
  have hl := so3_assoc_left_round a b c i j
  have hr := so3_assoc_right_round a b c i j
  rw [e1, e2, e3] at hl hr
  have := theta_mul_le 20 (by norm_num) (1 + 16 * (1 * 1 * 1)) 17 (34001 / 100) (by norm_num) (by norm_num) (by norm_num)
  exact ⟨hl.trans this, hr.trans this⟩
example : SO3.Unit qB ∧ SO3.Unit qC := ⟨qB_unit, qC_unit⟩

/-- **C01 associativity clause, SO3, double**: `(q₁q₂)q₃` and `q₁(q₂q₃)`, both computed in rounded arithmetic,
    agree at matrix level with the exact triple product — and with each other — to `1e-12` -/
theorem so3_assoc_double (h : IsDouble) (a b c : Vec ℝ 4) (ha : SO3.Unit a) (hb : SO3.Unit b) (hc : SO3.Unit c)
    (i j : Fin 3) :
    |(SO3.matrix (Vec.toR (SO3.composition (SO3.composition (Vec.toRF a) (Vec.toRF b)) (Vec.toRF c)))) i j
        - (mmul (mmul (SO3.matrix a) (SO3.matrix b)) (SO3.matrix c)) i j| ≤ 1 / 10 ^ 12 ∧
    |(SO3.matrix (Vec.toR (SO3.composition (Vec.toRF a) (SO3.composition (Vec.toRF b) (Vec.toRF c))))) i j
        - (mmul (mmul (SO3.matrix a) (SO3.matrix b)) (SO3.matrix c)) i j| ≤ 1 / 10 ^ 12 ∧
    |(SO3.matrix (Vec.toR (SO3.composition (SO3.composition (Vec.toRF a) (Vec.toRF b)) (Vec.toRF c)))) i j
        - (SO3.matrix (Vec.toR (SO3.composition (Vec.toRF a) (SO3.composition (Vec.toRF b) (Vec.toRF c))))) i j|
      ≤ 1 / 10 ^ 12 := by
  obtain ⟨hl, hr⟩ := so3_assoc_acc a b c ha hb hc i j
  have hu := ubar_double h
  have hub := ubar_nonneg
  have hlr := abs_sub_le ((SO3.matrix (Vec.toR (SO3.composition (SO3.composition (Vec.toRF a) (Vec.toRF b)) (Vec.toRF c)))) i j)
    ((mmul (mmul (SO3.matrix a) (SO3.matrix b)) (SO3.matrix c)) i j)
    ((SO3.matrix (Vec.toR (SO3.composition (Vec.toRF a) (SO3.composition (Vec.toRF b) (Vec.toRF c))))) i j)
  rw [abs_sub_comm ((mmul (mmul (SO3.matrix a) (SO3.matrix b)) (SO3.matrix c)) i j)] at hlr
  refine ⟨?_, ?_, ?_⟩ <;> norm_num at * <;> linarith

/-- single precision: the worst-case componentwise majorant gives `340.01·ū ≤ 2.1e-5` for each bracketing
    (NOT the `1e-5` of the property: the all-signs-positive majorant of a double quaternion product loses a
    factor 2 per level; each single product does meet `1e-5`, `so3_matrix_composition_single`) -/
theorem so3_assoc_single_weak (h : IsSingle) (a b c : Vec ℝ 4) (ha : SO3.Unit a) (hb : SO3.Unit b)
    (hc : SO3.Unit c) (i j : Fin 3) :
    |(SO3.matrix (Vec.toR (SO3.composition (SO3.composition (Vec.toRF a) (Vec.toRF b)) (Vec.toRF c)))) i j
        - (mmul (mmul (SO3.matrix a) (SO3.matrix b)) (SO3.matrix c)) i j| ≤ 21 / 10 ^ 6 ∧
    |(SO3.matrix (Vec.toR (SO3.composition (Vec.toRF a) (SO3.composition (Vec.toRF b) (Vec.toRF c))))) i j
        - (mmul (mmul (SO3.matrix a) (SO3.matrix b)) (SO3.matrix c)) i j| ≤ 21 / 10 ^ 6 := by
  obtain ⟨hl, hr⟩ := so3_assoc_acc a b c ha hb hc i j
  have hu := ubar_single h
  refine ⟨?_, ?_⟩ <;> norm_num at * <;> linarith

/-! ### SE3 -/

omit [Rounding] in
theorem se3_matrix_triple (a b c : Vec ℝ 7) (ha : SE3.Unit a) (hb : SE3.Unit b) (hc : SE3.Unit c) :
    SE3.matrix (SE3.composition (SE3.composition a b) c) = mmul (mmul (SE3.matrix a) (SE3.matrix b)) (SE3.matrix c) ∧
    SE3.matrix (SE3.composition a (SE3.composition b c)) = mmul (mmul (SE3.matrix a) (SE3.matrix b)) (SE3.matrix c) := by
  constructor
  · rw [SE3.matrix_composition _ _ (SE3.unit_composition a b ha hb) hc, SE3.matrix_composition a b ha hb]
  · rw [SE3.matrix_composition _ _ ha (SE3.unit_composition b c hb hc), SE3.matrix_composition b c hb hc, mmul_assoc]

/-- `(a∘b)∘c`, whole 4×4 matrix, approximately unit rotation parts, translations bounded by `T`: `≤ 437.01·ū·max(1,T)` -/
theorem se3_assoc_left_acc (a b c : Vec ℝ 7) (T : ℝ) (hna : SO3.sqn (SE3.so3 a) ≤ 1 + 1 / 10 ^ 8)
    (hnb : SO3.sqn (SE3.so3 b) ≤ 1 + 1 / 10 ^ 8) (hnc : SO3.sqn (SE3.so3 c) ≤ 1 + 1 / 10 ^ 8)
    (ha : ∀ l, |SE3.r3 a l| ≤ T) (hb : ∀ l, |SE3.r3 b l| ≤ T) (hc : ∀ l, |SE3.r3 c l| ≤ T) :
    ∀ i j : Fin 4, |(SE3.matrix (Vec.toR (SE3.composition (SE3.composition (Vec.toRF a) (Vec.toRF b)) (Vec.toRF c)))) i j
        - (SE3.matrix (SE3.composition (SE3.composition a b) c)) i j| ≤ 43701 / 100 * ubar * scale T := by
  have hs1 := one_le_scale T
  have hsT := le_scale T
  have hs0 := scale_nonneg T
  have hub := ubar_nonneg
  have n1 := sqn_nonneg (SE3.so3 a); have n2 := sqn_nonneg (SE3.so3 b); have n3 := sqn_nonneg (SE3.so3 c)
  apply fin4_cases
  · intro i j
    rw [se3_matrix_rot, se3_matrix_rot, se3_so3_toR, se3_comp_so3, se3_comp_so3, se3_comp_so3, se3_comp_so3,
      se3_so3_toRF, se3_so3_toRF, se3_so3_toRF, so3_matrix_comp_comp]
    refine (so3_assoc_left_round _ _ _ i j).trans ?_
    have hn : SO3.sqn (SE3.so3 a) * SO3.sqn (SE3.so3 b) * SO3.sqn (SE3.so3 c)
        ≤ (1 + 1 / 10 ^ 8) * (1 + 1 / 10 ^ 8) * (1 + 1 / 10 ^ 8) :=
      mul_le_mul (mul_le_mul hna hnb n2 (by norm_num)) hnc n3 (by norm_num)
    have := theta_mul_le 20 (by norm_num) (1 + 16 * (SO3.sqn (SE3.so3 a) * SO3.sqn (SE3.so3 b) * SO3.sqn (SE3.so3 c)))
      (1 + 16 * ((1 + 1 / 10 ^ 8) * (1 + 1 / 10 ^ 8) * (1 + 1 / 10 ^ 8))) (43701 / 100) (by positivity) (by linarith)
      (by norm_num)
    refine this.trans ?_
    nlinarith [mul_nonneg hub (sub_nonneg.mpr hs1)]
  · intro i
    rw [se3_matrix_trans, se3_matrix_trans, se3_r3_toR]
    have hle := se3TripleLeftAbs_le a b c (1 + 1 / 10 ^ 8) (scale T) hna hnb (fun l => (ha l).trans hsT)
      (fun l => (hb l).trans hsT) (fun l => (hc l).trans hsT) i
    have hX0 := (se3_triple_left_trans_appr a b c i).X_nonneg
    have := theta_mul_le 19 (by norm_num) _ _ (43701 / 100 * scale T) hX0 hle (by norm_num; nlinarith)
    refine (se3_triple_left_trans_appr a b c i).err.trans ?_
    calc _ ≤ _ := this
      _ = _ := by ring
  · intro j
    rw [se3_matrix_last _ (SE3.composition (SE3.composition a b) c)]
    simp only [sub_self, abs_zero]
    positivity

/-- `a∘(b∘c)`, whole matrix: `≤ 558.01·ū·max(1,T)` -/
theorem se3_assoc_right_acc (a b c : Vec ℝ 7) (T : ℝ) (hna : SO3.sqn (SE3.so3 a) ≤ 1 + 1 / 10 ^ 8)
    (hnb : SO3.sqn (SE3.so3 b) ≤ 1 + 1 / 10 ^ 8) (hnc : SO3.sqn (SE3.so3 c) ≤ 1 + 1 / 10 ^ 8)
    (ha : ∀ l, |SE3.r3 a l| ≤ T) (hb : ∀ l, |SE3.r3 b l| ≤ T) (hc : ∀ l, |SE3.r3 c l| ≤ T) :
    ∀ i j : Fin 4, |(SE3.matrix (Vec.toR (SE3.composition (Vec.toRF a) (SE3.composition (Vec.toRF b) (Vec.toRF c))))) i j
        - (SE3.matrix (SE3.composition a (SE3.composition b c))) i j| ≤ 55801 / 100 * ubar * scale T := by
  have hs1 := one_le_scale T
  have hsT := le_scale T
  have hs0 := scale_nonneg T
  have hub := ubar_nonneg
  have n1 := sqn_nonneg (SE3.so3 a); have n2 := sqn_nonneg (SE3.so3 b); have n3 := sqn_nonneg (SE3.so3 c)
  apply fin4_cases
  · intro i j
    rw [se3_matrix_rot, se3_matrix_rot, se3_so3_toR, se3_comp_so3, se3_comp_so3, se3_comp_so3, se3_comp_so3,
      se3_so3_toRF, se3_so3_toRF, se3_so3_toRF, so3_matrix_comp_comp']
    refine (so3_assoc_right_round _ _ _ i j).trans ?_
    have hn : SO3.sqn (SE3.so3 a) * SO3.sqn (SE3.so3 b) * SO3.sqn (SE3.so3 c)
        ≤ (1 + 1 / 10 ^ 8) * (1 + 1 / 10 ^ 8) * (1 + 1 / 10 ^ 8) :=
      mul_le_mul (mul_le_mul hna hnb n2 (by norm_num)) hnc n3 (by norm_num)
    have := theta_mul_le 20 (by norm_num) (1 + 16 * (SO3.sqn (SE3.so3 a) * SO3.sqn (SE3.so3 b) * SO3.sqn (SE3.so3 c)))
      (1 + 16 * ((1 + 1 / 10 ^ 8) * (1 + 1 / 10 ^ 8) * (1 + 1 / 10 ^ 8))) (55801 / 100) (by positivity) (by linarith)
      (by norm_num)
    refine this.trans ?_
    nlinarith [mul_nonneg hub (sub_nonneg.mpr hs1)]
  · intro i
    rw [se3_matrix_trans, se3_matrix_trans, se3_r3_toR]
    have hle := se3TripleRightAbs_le a b c (1 + 1 / 10 ^ 8) (scale T) hna hnb (fun l => (ha l).trans hsT)
      (fun l => (hb l).trans hsT) (fun l => (hc l).trans hsT) i
    have hX0 := (se3_triple_right_trans_appr a b c i).X_nonneg
    have := theta_mul_le 18 (by norm_num) _ _ (55801 / 100 * scale T) hX0 hle (by norm_num; nlinarith)
    refine (se3_triple_right_trans_appr a b c i).err.trans ?_
    calc _ ≤ _ := this
      _ = _ := by ring
  · intro j
    rw [se3_matrix_last _ (SE3.composition a (SE3.composition b c))]
    simp only [sub_self, abs_zero]
    positivity

/-- **C01 associativity clause, SE3, double**: for unit rotation parts and translations bounded by `T`, the two
    bracketings — every product computed in rounded arithmetic — agree at matrix level with
    `matrix g₁ · matrix g₂ · matrix g₃`, and with each other, to `1e-12·max(1,T)` -/
theorem se3_assoc_double (h : IsDouble) (a b c : Vec ℝ 7) (ha : SE3.Unit a) (hb : SE3.Unit b) (hc : SE3.Unit c)
    (T : ℝ) (hta : ∀ l, |SE3.r3 a l| ≤ T) (htb : ∀ l, |SE3.r3 b l| ≤ T) (htc : ∀ l, |SE3.r3 c l| ≤ T) (i j : Fin 4) :
    |(SE3.matrix (Vec.toR (SE3.composition (SE3.composition (Vec.toRF a) (Vec.toRF b)) (Vec.toRF c)))) i j
        - (mmul (mmul (SE3.matrix a) (SE3.matrix b)) (SE3.matrix c)) i j| ≤ 1 / 10 ^ 12 * scale T ∧
    |(SE3.matrix (Vec.toR (SE3.composition (Vec.toRF a) (SE3.composition (Vec.toRF b) (Vec.toRF c))))) i j
        - (mmul (mmul (SE3.matrix a) (SE3.matrix b)) (SE3.matrix c)) i j| ≤ 1 / 10 ^ 12 * scale T ∧
    |(SE3.matrix (Vec.toR (SE3.composition (SE3.composition (Vec.toRF a) (Vec.toRF b)) (Vec.toRF c)))) i j
        - (SE3.matrix (Vec.toR (SE3.composition (Vec.toRF a) (SE3.composition (Vec.toRF b) (Vec.toRF c))))) i j|
      ≤ 1 / 10 ^ 12 * scale T := by
  have e1 : SO3.sqn (SE3.so3 a) = 1 := ha
  have e2 : SO3.sqn (SE3.so3 b) = 1 := hb
  have e3 : SO3.sqn (SE3.so3 c) = 1 := hc
  have hl := se3_assoc_left_acc a b c T (by rw [e1]; norm_num) (by rw [e2]; norm_num) (by rw [e3]; norm_num) hta htb htc i j
  have hr := se3_assoc_right_acc a b c T (by rw [e1]; norm_num) (by rw [e2]; norm_num) (by rw [e3]; norm_num) hta htb htc i j
  obtain ⟨m1, m2⟩ := se3_matrix_triple a b c ha hb hc
  rw [m1] at hl
  rw [m2] at hr
  have hu := ubar_double h
  have hub := ubar_nonneg
  have hs0 := scale_nonneg T
  have hus : 0 ≤ ubar * scale T := mul_nonneg hub hs0
  have hus' : ubar * scale T ≤ 112 / 10 ^ 18 * scale T := mul_le_mul_of_nonneg_right hu hs0
  have hlr := abs_sub_le ((SE3.matrix (Vec.toR (SE3.composition (SE3.composition (Vec.toRF a) (Vec.toRF b)) (Vec.toRF c)))) i j)
    ((mmul (mmul (SE3.matrix a) (SE3.matrix b)) (SE3.matrix c)) i j)
    ((SE3.matrix (Vec.toR (SE3.composition (Vec.toRF a) (SE3.composition (Vec.toRF b) (Vec.toRF c))))) i j)
  rw [abs_sub_comm ((mmul (mmul (SE3.matrix a) (SE3.matrix b)) (SE3.matrix c)) i j)] at hlr
  refine ⟨?_, ?_, ?_⟩ <;> nlinarith
example : SE3.Unit se3A ∧ SE3.Unit se3B ∧ (∀ l, |SE3.r3 se3A l| ≤ 1000) ∧ ∀ l, |SE3.r3 se3B l| ≤ 1000 :=
  ⟨se3A_unit, se3B_unit, se3A_trans, se3B_trans⟩

end Main

end C01Round

namespace C01Round

/-! ## Non-vacuity: instantiation at the genuinely rounding instances `Rounding.binary64` / `binary32` -/

/-- SO3 action of the half-turn quaternion on a point with coordinates up to 1e3, in binary64 -/
example (i : Fin 3) :
    |toReal ((@SO3.act RF (@instScalarRF Rounding.binary64) (Vec.toRF qB) (Vec.toRF vA)) i)
        - (mulVec (SO3.matrix qB) vA) i| ≤ 1 / 10 ^ 12 * 1000 :=
  @so3_action_double Rounding.binary64 (le_refl _) qB qB_unit vA 1000 vA_bound i

/-- SE3 action, binary32 -/
example (i : Fin 3) :
    |toReal ((@SE3.act RF (@instScalarRF Rounding.binary32) (Vec.toRF se3B) (Vec.toRF vA)) i)
        - (mulVec (SE3.matrix se3B) (SE3.embed vA)) ⟨i.val, by omega⟩| ≤ 1 / 10 ^ 5 * 1000 :=
  @se3_action_single Rounding.binary32 (le_refl _) se3B se3B_unit vA 1000 vA_bound se3B_trans i

/-- SE2 action, binary64 -/
example (i : Fin 2) :
    |toReal ((@SE2.act RF (@instScalarRF Rounding.binary64) (Vec.toRF se2A) (Vec.toRF pA)) i)
        - (mulVec (SE2.matrix se2A) (SE2.embed pA)) ⟨i.val, by omega⟩| ≤ 1 / 10 ^ 12 * 1000 :=
  @se2_action_double Rounding.binary64 (le_refl _) se2A se2A_unit pA 1000 pA_nrm se2A_trans i

/-- Galilei: generic × half-turn element, velocity / position / time up to 1e3, binary64 and binary32 -/
example (i j : Fin 5) :
    |(@Galilei.matrix ℝ _ (Vec.toR (@Galilei.composition RF (@instScalarRF Rounding.binary64) (Vec.toRF galB) (Vec.toRF galC)))) i j
        - (mmul (Galilei.matrix galB) (Galilei.matrix galC)) i j| ≤ 1 / 10 ^ 12 * scale2 1000 :=
  @galilei_matrix_composition_double Rounding.binary64 (le_refl _) galB galC galB_unit galC_unit 1000
    galB_bounded galC_bounded i j

example : ∃ Minv : Mat ℝ 5 5, mmul Minv (Galilei.matrix galC) = ident 5 ∧ mmul (Galilei.matrix galC) Minv = ident 5 ∧
    ∀ i j, |(@Galilei.matrix ℝ _ (Vec.toR (@Galilei.inverse RF (@instScalarRF Rounding.binary32) (Vec.toRF galC)))) i j
      - Minv i j| ≤ 1 / 10 ^ 5 * scale2 1000 :=
  @galilei_matrix_inverse_single Rounding.binary32 (le_refl _) galC galC_unit 1000 galC_bounded

/-- SE_K_3 for every K, binary64 -/
example (k : Nat) (i j : Fin (3 + k)) :
    |(@SEK3.matrix ℝ _ k (Vec.toR (@SEK3.composition RF (@instScalarRF Rounding.binary64) k (Vec.toRF (sekB k)) (Vec.toRF (sekC k))))) i j
        - (mmul (SEK3.matrix k (sekB k)) (SEK3.matrix k (sekC k))) i j| ≤ 1 / 10 ^ 12 * scale 1000 :=
  @sek3_matrix_composition_double Rounding.binary64 (le_refl _) k (sekB k) (sekC k) (sekB_unit k) (sekC_unit k) 1000
    (sekB_bounded k) (sekC_bounded k) i j

/-- associativity of SE3 in binary64: generic, half-turn, generic -/
example (i j : Fin 4) :
    |(@SE3.matrix ℝ _ (Vec.toR (@SE3.composition RF (@instScalarRF Rounding.binary64)
          (@SE3.composition RF (@instScalarRF Rounding.binary64) (Vec.toRF se3A) (Vec.toRF se3B)) (Vec.toRF se3A)))) i j
      - (@SE3.matrix ℝ _ (Vec.toR (@SE3.composition RF (@instScalarRF Rounding.binary64) (Vec.toRF se3A)
          (@SE3.composition RF (@instScalarRF Rounding.binary64) (Vec.toRF se3B) (Vec.toRF se3A))))) i j|
      ≤ 1 / 10 ^ 12 * scale 1000 :=
  (@se3_assoc_double Rounding.binary64 (le_refl _) se3A se3B se3A se3A_unit se3B_unit se3A_unit 1000
    se3A_trans se3B_trans se3A_trans i j).2.2

end C01Round
end
