/-
  SrcTieLogicC10 — `optim/tr_solver.hpp` regenerated from the C++ source on every run
  (`SmoothModel/Gen/LogicSrcC10.lean`, written by tools/gen_logic2.py) IS the specification of the step solver in
  `SmoothModel/Optim.lean` the theorems of C10 are about: the assembly `H = JᵀJ`, `H(i,i) += λ d(i) d(i)`, the right-hand
  side `−Jᵀ r`, the `dphi` formula and its second solve, and `λ = 1/Δ` of `solve_trust_region`.

  NOTE (pinned tree): `solve_trust_region` sets `λ = 1/Δ` and solves ONCE — there is no bisection / Newton iteration on
  `λ` in this version of the library (`dphi` is computed only on request and not used by `solve_trust_region`).

  `ldlt.solve` is a parameter `solve`; its contract (`H x = b`) is `Optim.IsStep`.  Theorem prefix: `trsolver_`.
-/
import SmoothModel.Optim
import SmoothModel.Gen.LogicSrcC10

open Scalar Lin

namespace SrcTieLogic
variable {α : Type} [Scalar α] {m n : Nat}

section trsolver
open Optim

/-- `Ht H = J.transpose() * J; for i: H.coeffRef(i, i) += lambda * d(i) * d(i)` and `-J.transpose() * r`: the matrix and
    the right-hand side handed to the factorisation are the model's `hessian` and `negJtr` -/
theorem trsolver_system (solve : Mat α n n → Vec α n → Vec α n) (J : Mat α m n) (d : Vec α n) (r : Vec α m) (lam : α) (w : Bool) :
    (LogicSrc.TrSolver_solve_linear_ldlt solve J d r lam w).1 = solve (hessian J d lam) (negJtr J r) := rfl

/-- hence: if `ldlt.solve` meets its contract `H x = b`, the returned `x` is a step in the sense of `Optim.IsStep` -/
theorem trsolver_isStep (solve : Mat α n n → Vec α n → Vec α n) (J : Mat α m n) (d : Vec α n) (r : Vec α m) (lam : α) (w : Bool)
    (hs : ∀ i, (mulVec (hessian J d lam) (solve (hessian J d lam) (negJtr J r))) i = (negJtr J r) i) :
    IsStep J d r lam (LogicSrc.TrSolver_solve_linear_ldlt solve J d r lam w).1 := hs

/-- the `dphi` output: absent unless requested; `Dx = −d∘x`, `d_q = d∘Dx`, `y = ldlt.solve(d_q)` with the SAME
    factorisation, `dphi = −(d∘Dx.normalized())·y` -/
theorem trsolver_dphi (solve : Mat α n n → Vec α n → Vec α n) (J : Mat α m n) (d : Vec α n) (r : Vec α m) (lam : α) :
    (LogicSrc.TrSolver_solve_linear_ldlt solve J d r lam false).2 = none ∧
    (LogicSrc.TrSolver_solve_linear_ldlt solve J d r lam true).2 =
      (let x := solve (hessian J d lam) (negJtr J r)
       some (dphiExpr d x (solve (hessian J d lam) (dphiRhs d x)))) := ⟨rfl, rfl⟩

/-- `solve_trust_region`: `lambda = 1. / Delta`, one call of `solve_linear_ldlt` without `dphi`, result `{dx, lambda}` -/
theorem trsolver_trust_region (solve : Mat α n n → Vec α n → Vec α n) (J : Mat α m n) (d : Vec α n) (r : Vec α m) (delta : α) :
    LogicSrc.TrSolver_solve_trust_region solve J d r delta =
      (solve (hessian J d (lambdaOf delta)) (negJtr J r), lambdaOf delta) := rfl

end trsolver
end SrcTieLogic
