/-
  C15 — Representation invariants and accuracy survive any history of operations
  (property theorems; lemmas in SmoothProofs/C15*.lean, model in SmoothModel/Hist.lean).

  Histories are programs of the two-sorted register machine `Hist.run` over a `LieModel` `G` and
  its companion type `C : Hist.Lifting G` (SO3 for SO2, SE3 for SE2, `Lifting.triv` otherwise):
  element registers `E`, lifted registers `L`, ops
  `compose inverse exp rplus *= += cast<S> lift project lift∘project setTan odeint-step`
  (`lift : E → L` is `lift_so3()` / `lift_se3()`, `project : L → E` is `project_so2()` / `project_se2()`).
  `Hist.opWeight ops w₀ r` / `Hist.opWeightL ops w₀ r` is the size of the expression tree of element /
  lifted register `r` (every primitive operation counts 1; `rplus`, `lift∘project` and an odeint step
  count 2); for a history that keeps extending one accumulator it is at most twice the number of
  executed ops.

  What is proved (over ℝ):
  * `reachable_unit_canon` — SO3, ALL tangents: after every history every register keeps the
    canonical sign `q_w ≥ 0` and `|‖q‖² − 1| ≤ D0^W − 1` (`D0 = 1 + 10⁻¹⁸`, `W` = tree size): the
    explicit slack is forced by the series branch of `exp`, which is NOT exactly unit
    (`exp_taylor_unit_defect`).  `reachable_unit_canon_exact`: exactly unit when every exp
    argument of the history takes the closed-form branch.
  * `reachable_unit_so2`, `reachable_unit_se2` (exact, all tangents, over the full alphabet: every
    element register is unit AND every lifted SO3 / SE3 register is unit with `q_w ≥ 0`, the half
    turn included), `lift_of_history` (the lifted element is the canonical half-angle quaternion
    `(0,0,q_z,q_w)`, `q_w = √((1+c)/2)`, and as a rotation the block embedding of the exact SO2
    history value — what the audit oracle replays), `lift_homomorphism_history`,
    `lift_half_turn`; `reachable_unit_canon_se3/galilei/sek3` (quaternion part),
    `reachable_bundle` (componentwise).
  * `drift_recurrence` (sequence form of the property text), `drift_history` (any model whose
    ops are ε-accurate in norm², any history: `|‖q‖² − 1| ≤ 2·W·ε`, element and lifted registers).
  * `rk_constant_velocity` / `rk_constant_velocity_group`: any explicit Runge–Kutta tableau with
    `Σ b = 1` driven through the adaptor integrates a constant body velocity exactly.
  Not proved (measured by the audit on every run): the IEEE value of ε per op, and the distance
  to the exact group result (`accuracy_statement`).
-/
import SmoothProofs.C15Inv
import SmoothProofs.C15Lift
import SmoothProofs.C15RK
import Mathlib.Tactic.NormNum
import Mathlib.Tactic.FinCases

open Lin Scalar Hist

namespace C15

-- =============================================================================================
-- 1. invariants by induction over op lists
-- =============================================================================================

/-- **SO3, all histories, all tangents.**  Starting from unit, canonical registers, after any
    finite history every register is canonical and its norm² is within `D0^W − 1` of 1, `W` the
    size of its expression tree.  (SO3 has no lifts: `lift`/`project` copy between the two register
    files.) -/
theorem reachable_unit_canon (ops : List (Op ℝ (SO3.model : LieModel ℝ).dof))
    (s0 : State ℝ SO3.model (Lifting.triv _))
    (h0 : ∀ r, SO3.Unit (s0.E r) ∧ SO3.Canon (s0.E r))
    (hL : ∀ r, SO3.Unit (s0.L r) ∧ SO3.Canon (s0.L r)) (r : Nat) :
    SO3.Canon ((run SO3.model (Lifting.triv _) ops s0).E r) ∧
    |SO3.sqn ((run SO3.model (Lifting.triv _) ops s0).E r) - 1| ≤ D0 ^ (opWeight ops W0 r) - 1 := by
  have h := (run_graded so3_graded ops s0 W0 (fun r => (near_zero_iff _).2 (h0 r))
    (fun r => (near_zero_iff _).2 (hL r)) (fun _ _ => trivial)).1 r
  exact ⟨h.2.2, near_defect h⟩

/-- the slack is negligible: `D0^W − 1 ≤ 2·W·10⁻¹⁸` for every tree size `W ≤ 10¹⁸` -/
theorem slack_bound (W : Nat) (hW : (W : ℝ) ≤ 10 ^ 18) : D0 ^ W - 1 ≤ 2 * W * (1 / 10 ^ 18) := by
  unfold D0
  apply pow_sub_one_le _ (by norm_num) W
  have : (W : ℝ) * (1 / 10 ^ 18) ≤ 10 ^ 18 * (1 / 10 ^ 18) := mul_le_mul_of_nonneg_right hW (by norm_num)
  linarith [show (10 : ℝ) ^ 18 * (1 / 10 ^ 18) = 1 by norm_num]

/-- **SO3, exact.**  If every tangent that reaches `exp` during the history takes the closed-form
    branch (`θ² ≥ eps2`), every register is exactly unit and canonical. -/
theorem reachable_unit_canon_exact (ops : List (Op ℝ (SO3.model : LieModel ℝ).dof))
    (s0 : State ℝ SO3.model (Lifting.triv _))
    (h0 : ∀ r, SO3.Unit (s0.E r) ∧ SO3.Canon (s0.E r))
    (hL : ∀ r, SO3.Unit (s0.L r) ∧ SO3.Canon (s0.L r))
    (hT : ∀ a ∈ expArgs SO3.model (Lifting.triv _) ops s0, ClosedBranch a) (r : Nat) :
    SO3.Unit ((run SO3.model (Lifting.triv _) ops s0).E r) ∧
    SO3.Canon ((run SO3.model (Lifting.triv _) ops s0).E r) :=
  (run_graded so3_exact ops s0 W0 h0 hL hT).1 r

/-- **SO2 with lifted SO3 registers**, full alphabet (`lift`, `project`, `lift∘project` included),
    all tangents, every element (the half turn included): after every history every element
    register is exactly unit and every lifted register is an exactly unit quaternion with
    `q_w ≥ 0`. -/
theorem reachable_unit_so2 (ops : List (Op ℝ (SO2.model : LieModel ℝ).dof)) (s0 : State ℝ SO2.model so2Lifting)
    (h0 : ∀ r, SO2.Unit (s0.E r)) (hL : ∀ r, SO3.Unit (s0.L r) ∧ SO3.Canon (s0.L r)) :
    (∀ r, SO2.Unit ((run SO2.model so2Lifting ops s0).E r)) ∧
    (∀ r, SO3.Unit ((run SO2.model so2Lifting ops s0).L r) ∧ SO3.Canon ((run SO2.model so2Lifting ops s0).L r)) :=
  run_graded so2_graded ops s0 W0 h0 hL (fun _ _ => trivial)

/-- **SE2 with lifted SE3 registers**: rotation part of every element register exactly unit,
    quaternion part of every lifted register exactly unit and canonical. -/
theorem reachable_unit_se2 (ops : List (Op ℝ (SE2.model : LieModel ℝ).dof)) (s0 : State ℝ SE2.model se2Lifting)
    (h0 : ∀ r, SE2.Unit (s0.E r))
    (hL : ∀ r, SO3.Unit (SE3.so3 (s0.L r)) ∧ SO3.Canon (SE3.so3 (s0.L r))) :
    (∀ r, SE2.Unit ((run SE2.model se2Lifting ops s0).E r)) ∧
    (∀ r, SO3.Unit (SE3.so3 ((run SE2.model se2Lifting ops s0).L r)) ∧
          SO3.Canon (SE3.so3 ((run SE2.model se2Lifting ops s0).L r))) :=
  run_graded se2_graded ops s0 W0 h0 hL (fun _ _ => trivial)

/-- **the value of a lift step.**  After any SO2 history, lifting element register `r = (s, c)`
    yields the canonical half-angle quaternion `(0, 0, q_z, q_w)` with `q_w = √((1+c)/2) ≥ 0`,
    `q_z² = (1−c)/2`, `2 q_z q_w = s`, and as a rotation it is the block embedding
    `diag(R(s,c), 1)` of the exact history value — the reference the audit replays. -/
theorem lift_of_history (ops : List (Op ℝ (SO2.model : LieModel ℝ).dof)) (s0 : State ℝ SO2.model so2Lifting)
    (h0 : ∀ r, SO2.Unit (s0.E r)) (hL : ∀ r, SO3.Unit (s0.L r) ∧ SO3.Canon (s0.L r)) (d r : Nat) :
    let g : Vec ℝ 2 := (run SO2.model so2Lifting ops s0).E r
    let q : Vec ℝ 4 := (run SO2.model so2Lifting (ops ++ [.lift d r]) s0).L d
    q = Conv.lift_so3 g ∧ q 0 = 0 ∧ q 1 = 0 ∧ q 3 = Real.sqrt ((1 + g 1) / 2) ∧ q 2 ^ 2 = (1 - g 1) / 2 ∧
      2 * q 2 * q 3 = g 0 ∧ SO3.matrix q = C17P.blockDiag21 (SO2.matrix g) := by
  intro g q
  have hg : SO2.Unit g := (reachable_unit_so2 ops s0 h0 hL).1 r
  have hq : q = Conv.lift_so3 g := by
    show (run SO2.model so2Lifting (ops ++ [.lift d r]) s0).L d = _
    unfold run
    rw [List.foldl_append]
    simp [step, upd_same, memoV_eq]
    rfl
  obtain ⟨a0, a1, a3, a2, a23⟩ := lift_half_angle g hg
  rw [hq]
  exact ⟨rfl, a0, a1, a3, a2, a23, lift_matrix g hg⟩

/-- **lift is a homomorphism along histories** (as rotations, i.e. up to the canonical sign of
    the quaternion): for element registers `a`, `b` of any SO2 history,
    `lift (E[a]·E[b])` and `lift E[a] · lift E[b]` (SO3 composition) are the same rotation. -/
theorem lift_homomorphism_history (ops : List (Op ℝ (SO2.model : LieModel ℝ).dof))
    (s0 : State ℝ SO2.model so2Lifting)
    (h0 : ∀ r, SO2.Unit (s0.E r)) (hL : ∀ r, SO3.Unit (s0.L r) ∧ SO3.Canon (s0.L r)) (a b : Nat) :
    let s := run SO2.model so2Lifting ops s0
    SO3.matrix (Conv.lift_so3 (SO2.composition (s.E a) (s.E b)))
      = SO3.matrix (SO3.composition (Conv.lift_so3 (s.E a)) (Conv.lift_so3 (s.E b))) := by
  intro s
  have hu := (reachable_unit_so2 ops s0 h0 hL).1
  exact C17P.lift_homomorphism' _ _ (hu a) (hu b)

/-- the half turn: lifted to `(0,0,1,0)` — while the quotient `s/(2 q_w)` of the half-angle
    identities is `0/0` there -/
theorem lift_half_turn' :
    Conv.lift_so3 C17P.halfTurn = mk4 0 0 1 0 ∧
    C17P.halfTurn 0 / (2 * Real.sqrt ((1 + C17P.halfTurn 1) / 2)) = 0 := lift_half_turn

/-- **SE3**: quaternion part canonical and unit up to the explicit slack. -/
theorem reachable_unit_canon_se3 (ops : List (Op ℝ (SE3.model : LieModel ℝ).dof))
    (s0 : State ℝ SE3.model (Lifting.triv _))
    (h0 : ∀ r, SO3.Unit (SE3.so3 (s0.E r)) ∧ SO3.Canon (SE3.so3 (s0.E r)))
    (hL : ∀ r, SO3.Unit (SE3.so3 (s0.L r)) ∧ SO3.Canon (SE3.so3 (s0.L r))) (r : Nat) :
    Near (opWeight ops W0 r) (SE3.so3 ((run SE3.model (Lifting.triv _) ops s0).E r)) :=
  (run_graded se3_graded ops s0 W0 (fun r => (near_zero_iff _).2 (h0 r))
    (fun r => (near_zero_iff _).2 (hL r)) (fun _ _ => trivial)).1 r

/-- **Galilei** -/
theorem reachable_unit_canon_galilei (ops : List (Op ℝ (Galilei.model : LieModel ℝ).dof))
    (s0 : State ℝ Galilei.model (Lifting.triv _))
    (h0 : ∀ r, SO3.Unit (Galilei.gq (s0.E r)) ∧ SO3.Canon (Galilei.gq (s0.E r)))
    (hL : ∀ r, SO3.Unit (Galilei.gq (s0.L r)) ∧ SO3.Canon (Galilei.gq (s0.L r))) (r : Nat) :
    Near (opWeight ops W0 r) (Galilei.gq ((run Galilei.model (Lifting.triv _) ops s0).E r)) :=
  (run_graded galilei_graded ops s0 W0 (fun r => (near_zero_iff _).2 (h0 r))
    (fun r => (near_zero_iff _).2 (hL r)) (fun _ _ => trivial)).1 r

/-- **SE_K(3)** for every `k` -/
theorem reachable_unit_canon_sek3 (k : Nat) (ops : List (Op ℝ (SEK3.model k : LieModel ℝ).dof))
    (s0 : State ℝ (SEK3.model k) (Lifting.triv _))
    (h0 : ∀ r, SO3.Unit (SEK3.gq k (s0.E r)) ∧ SO3.Canon (SEK3.gq k (s0.E r)))
    (hL : ∀ r, SO3.Unit (SEK3.gq k (s0.L r)) ∧ SO3.Canon (SEK3.gq k (s0.L r))) (r : Nat) :
    Near (opWeight ops W0 r) (SEK3.gq k ((run (SEK3.model k) (Lifting.triv _) ops s0).E r)) :=
  (run_graded (sek3_graded k) ops s0 W0 (fun r => (near_zero_iff _).2 (h0 r))
    (fun r => (near_zero_iff _).2 (hL r)) (fun _ _ => trivial)).1 r

/-- **Bundle**: a graded invariant of each factor is a graded invariant of the direct product
    (apply repeatedly along `Bundle.bundle`; vector factors carry `graded_trivial`; a factor with a
    companion type contributes its element-register part `graded_ops`). -/
theorem reachable_bundle {A B : LieModel ℝ} {IA : Nat → Vec ℝ A.rep → Prop} {IB : Nat → Vec ℝ B.rep → Prop}
    (HA : GradedOps A IA (fun _ => True)) (HB : GradedOps B IB (fun _ => True))
    (mA : ∀ m a, IA m a → IA (m + 1) a) (mB : ∀ m b, IB m b → IB (m + 1) b)
    (ops : List (Op ℝ (Bundle.prod A B).dof)) (s0 : State ℝ (Bundle.prod A B) (Lifting.triv _)) (w0 : Weights)
    (h0 : ∀ r, IA (w0.1 r) (Bundle.fst (s0.E r)) ∧ IB (w0.1 r) (Bundle.snd (s0.E r)))
    (hL : ∀ r, IA (w0.2 r) (Bundle.fst (s0.L r)) ∧ IB (w0.2 r) (Bundle.snd (s0.L r))) (r : Nat) :
    IA (opWeight ops w0 r) (Bundle.fst ((run (Bundle.prod A B) (Lifting.triv _) ops s0).E r)) ∧
    IB (opWeight ops w0 r) (Bundle.snd ((run (Bundle.prod A B) (Lifting.triv _) ops s0).E r)) :=
  (run_graded (graded_prod HA HB mA mB) ops s0 w0 h0 hL (fun _ _ => ⟨trivial, trivial⟩)).1 r

-- =============================================================================================
-- 2. the one producer that is not exactly norm-preserving
-- =============================================================================================

/-- **series branch of `SO3.exp`**: `‖exp a‖² − 1 = −θ⁴/192 + θ⁶/2304` exactly (`θ² = ‖a‖² < eps2`),
    hence `|‖exp a‖² − 1| ≤ θ⁴/192 + θ⁶/2304 ≤ 6·10⁻¹⁹`. -/
theorem exp_taylor_unit_defect (a : Vec ℝ 3) (h : sqNorm a < (Scalar.eps2 : ℝ)) :
    SO3.sqn (SO3.exp a) - 1 = -(sqNorm a) ^ 2 / 192 + (sqNorm a) ^ 3 / 2304 ∧
    |SO3.sqn (SO3.exp a) - 1| ≤ (sqNorm a) ^ 2 / 192 + (sqNorm a) ^ 3 / 2304 ∧
    |SO3.sqn (SO3.exp a) - 1| ≤ 6 / 10 ^ 19 := by
  have hs := sqn_exp_series a h
  have h0 : 0 ≤ sqNorm a := sqNorm3_nonneg a
  rw [scalar_eps2] at h
  generalize sqNorm a = t at *
  have h2 : t ^ 2 ≤ (1 / 100000000) ^ 2 := pow_le_pow_left₀ h0 h.le 2
  have h3 : t ^ 3 ≤ (1 / 100000000) ^ 3 := pow_le_pow_left₀ h0 h.le 3
  have p2 : 0 ≤ t ^ 2 := pow_nonneg h0 2
  have p3 : 0 ≤ t ^ 3 := pow_nonneg h0 3
  refine ⟨by rw [hs]; ring, ?_, ?_⟩
  · rw [hs, abs_le]; constructor <;> nlinarith
  · rw [hs, abs_le]; constructor <;> nlinarith

/-- the defect is not zero: the series branch really leaves the unit sphere -/
theorem exp_taylor_not_unit (a : Vec ℝ 3) (h : sqNorm a < (Scalar.eps2 : ℝ)) (hne : sqNorm a ≠ 0) :
    SO3.sqn (SO3.exp a) ≠ 1 := by
  have hs := sqn_exp_series a h
  have h0 : 0 ≤ sqNorm a := sqNorm3_nonneg a
  rw [scalar_eps2] at h
  generalize sqNorm a = t at *
  intro hc
  rw [hc] at hs
  have hpos : 0 < t := lt_of_le_of_ne h0 (Ne.symm hne)
  have : t ^ 2 * (t / 2304 - 1 / 192) = 0 := by nlinarith
  rcases mul_eq_zero.1 this with h' | h'
  · exact hne (pow_eq_zero_iff (by norm_num) |>.1 h')
  · nlinarith

/-- the closed-form branch is exactly unit -/
theorem exp_closed_unit (a : Vec ℝ 3) (h : ¬ sqNorm a < (Scalar.eps2 : ℝ)) : SO3.sqn (SO3.exp a) = 1 :=
  sqn_exp_closed a h

-- =============================================================================================
-- 3. drift
-- =============================================================================================

/-- **drift recurrence** (the sequence form of the property text): if every executed op returns
    `q̃` with `|‖q̃‖² − ‖a‖²‖b‖²| ≤ ε‖a‖²‖b‖²` (the other operand `b` unit) then after `n` ops
    `|‖q‖² − 1| ≤ (1+ε)ⁿ − 1`, and `≤ 2nε` when `nε ≤ 1`. -/
theorem drift_recurrence (ε : ℝ) (h0 : 0 ≤ ε) (h1 : ε ≤ 1) (N m : ℕ → ℝ) (hN0 : N 0 = 1) (hm : ∀ k, m k = 1)
    (hstep : ∀ k, |N (k + 1) - N k * m k| ≤ ε * (N k * m k)) (n : ℕ) :
    |N n - 1| ≤ (1 + ε) ^ n - 1 ∧ ((n : ℝ) * ε ≤ 1 → |N n - 1| ≤ 2 * n * ε) := by
  have h := chain_bound ε h0 h1 N m hN0 hm hstep n
  exact ⟨h, fun hn => h.trans (pow_sub_one_le ε h0 n hn)⟩

/-- **drift over arbitrary histories, for any ε-accurate implementation.**  `G`, `C` is ANY model
    (e.g. the floating-point implementation read as real functions) whose operations — `lift` and
    `project` included — are accurate to relative error `ε` in the multiplicative functionals
    `nrm` / `nrmL` (norm² of the constrained part of an element / lifted element).  After any
    history started from `nrm = nrmL = 1`, a register with expression tree of size `W` satisfies
    `|nrm − 1| ≤ 2·W·ε` (for `W·ε ≤ 1/2`).  With the measured `ε ≤ 5·10⁻¹⁶` this is the property's
    `(n+1)·10⁻¹⁴` for every history whose trees have at most `10·(n+1)` operations. -/
theorem drift_history {G : LieModel ℝ} {C : Lifting ℝ G} {nrm : Vec ℝ G.rep → ℝ} {nrmL : Vec ℝ C.lrep → ℝ} {ε : ℝ}
    (h0 : 0 ≤ ε) (h1 : ε < 1) (H : EpsAccurate G C nrm nrmL ε)
    (ops : List (Op ℝ G.dof)) (s0 : State ℝ G C) (hs : ∀ r, nrm (s0.E r) = 1) (hl : ∀ r, nrmL (s0.L r) = 1) (r : Nat) :
    ((opWeight ops W0 r : ℝ) * ε ≤ 1 / 2 →
      |nrm ((run G C ops s0).E r) - 1| ≤ 2 * (opWeight ops W0 r) * ε) ∧
    ((opWeightL ops W0 r : ℝ) * ε ≤ 1 / 2 →
      |nrmL ((run G C ops s0).L r) - 1| ≤ 2 * (opWeightL ops W0 r) * ε) := by
  have h := run_graded (eps_graded h0 h1 H) ops s0 W0
    (fun r => (band_zero_iff _).2 (hs r)) (fun r => (band_zero_iff _).2 (hl r)) (fun _ _ => trivial)
  exact ⟨fun hW => band_abs h0 h1 (h.1 r) hW, fun hW => band_abs h0 h1 (h.2 r) hW⟩

-- =============================================================================================
-- 4. Runge–Kutta through the odeint adaptor
-- =============================================================================================

/-- **constant body velocity, adaptor level.**  For any explicit tableau with `|b| = stages` and
    `Σ b = 1`, `n` fixed steps of size `h` of `ẋ = x·v̂` through `scale_sum` give `x₀ ⊕ (n·h)·v`,
    given the one-parameter law of `rplus` along `v`. -/
theorem rk_constant_velocity {X V : Type} (A : OdeAlg X V ℝ) (v : V) (L : Lawful A v)
    (tab : Tableau ℝ) (hlen : tab.b.length = tab.rows.length + 1) (hb : tab.b.sum = 1)
    (hflow : ∀ (x : X) (s u : ℝ), A.rplus (A.rplus x (A.smul s v)) (A.smul u v) = A.rplus x (A.smul (s + u) v))
    (hzero : ∀ x : X, A.rplus x (A.smul 0 v) = x) (h : ℝ) (n : ℕ) (t : ℝ) (x0 : X) :
    rkSteps A (fun _ _ => v) tab h n t x0 = A.rplus x0 (A.smul (n * h) v) :=
  rkSteps_const L tab hlen hb hflow hzero h n t x0

/-- **constant body velocity, abstract group.**  `G` any group, `e : V → G` with the
    one-parameter law `e((s+t)v) = e(sv) e(tv)`: the integration gives `x₀ · e(h v)ⁿ = x₀ · e(n h v)`. -/
theorem rk_constant_velocity_group {Gp W : Type} [Group Gp] [AddCommGroup W] [Module ℝ W] (e : W → Gp) (v : W)
    (hlaw : ∀ s t : ℝ, e ((s + t) • v) = e (s • v) * e (t • v))
    (tab : Tableau ℝ) (hlen : tab.b.length = tab.rows.length + 1) (hb : tab.b.sum = 1)
    (h : ℝ) (n : ℕ) (t : ℝ) (x0 : Gp) :
    rkSteps (grpAlg e) (fun _ _ => v) tab h n t x0 = x0 * e (h • v) ^ n ∧
    x0 * e (h • v) ^ n = x0 * e (((n : ℝ) * h) • v) := by
  have hpow : e (h • v) ^ n = e (((n : ℝ) * h) • v) := by
    induction n with
    | zero =>
      have hz := exp_zero_of_law e v hlaw
      simp only [pow_zero, Nat.cast_zero, zero_mul]
      exact hz.symm
    | succ n ih =>
      rw [pow_succ, ih, ← hlaw]
      congr 2
      push_cast; ring
  have hflow : ∀ (x : Gp) (s u : ℝ), (grpAlg e).rplus ((grpAlg e).rplus x ((grpAlg e).smul s v)) ((grpAlg e).smul u v)
      = (grpAlg e).rplus x ((grpAlg e).smul (s + u) v) := by
    intro x s u
    show x * e (s • v) * e (u • v) = x * e ((s + u) • v)
    rw [hlaw, mul_assoc]
  have hzero : ∀ x : Gp, (grpAlg e).rplus x ((grpAlg e).smul 0 v) = x := by
    intro x
    show x * e ((0 : ℝ) • v) = x
    rw [exp_zero_of_law e v hlaw, mul_one]
  refine ⟨?_, by rw [hpow]⟩
  rw [rkSteps_const (grpAlg_lawful e v) tab hlen hb hflow hzero h n t x0, hpow]
  rfl

/-- one step, any system-independent stage structure: the adaptor's `+1` index offset and right
    fold reduce to `x ⊕ (Σ b · h)·v` -/
theorem rk_step_tangent {X V : Type} (A : OdeAlg X V ℝ) (v : V) (L : Lawful A v)
    (tab : Tableau ℝ) (hlen : tab.b.length = tab.rows.length + 1) (t h : ℝ) (x : X) :
    rkStep A (fun _ _ => v) tab t h x = A.rplus x (A.smul (tab.b.sum * h) v) := by
  unfold rkStep
  rw [rkTangent_const L tab hlen]

-- =============================================================================================
-- 5. what is measured, not proved
-- =============================================================================================

/-- The accuracy clause of the property for a floating-point implementation `F` against the exact
    model `G`: after any history of `n` ops the registers of `F` stay within `(n+1)·10⁻¹³`
    (relative, `dist`) of the registers of the exact history.  This depends on the IEEE rounding of
    every formula and is AUDITED on every run (exact replay in 320-bit arithmetic), not proved. -/
def accuracy_statement (G F : LieModel ℝ) (hrep : F.rep = G.rep) (hdof : F.dof = G.dof)
    (dist : Vec ℝ G.rep → Vec ℝ G.rep → ℝ) : Prop :=
  ∀ (ops : List (Op ℝ G.dof)) (s0 : State ℝ G (Lifting.triv _)) (r : Nat),
    dist ((run G (Lifting.triv _) ops s0).E r)
      (hrep ▸ (run F (Lifting.triv _) (hdof ▸ ops)
        ⟨fun i => hrep ▸ s0.E i, fun i => hdof ▸ s0.T i, fun i => (show Vec ℝ F.rep from hrep ▸ (show Vec ℝ G.rep from s0.L i))⟩).E r)
      ≤ ((ops.length : ℝ) + 1) * (1 / 10 ^ 13)

/-- the same clause for the lifted registers of the two-sorted SO2 machine: `stepF` = the
    floating-point implementation read as a step function on real registers; its lifted registers
    stay within `(n+1)·10⁻¹³` of those of the exact history.  AUDITED (exact replay: block embedding
    of the exact history value, see `lift_of_history`), not proved. -/
def lift_accuracy_statement
    (stepF : State ℝ SO2.model so2Lifting → Op ℝ (SO2.model : LieModel ℝ).dof → State ℝ SO2.model so2Lifting)
    (dist : Vec ℝ 4 → Vec ℝ 4 → ℝ) : Prop :=
  ∀ (ops : List (Op ℝ (SO2.model : LieModel ℝ).dof)) (s0 : State ℝ SO2.model so2Lifting) (r : Nat),
    dist ((run SO2.model so2Lifting ops s0).L r) ((ops.foldl stepF s0).L r)
      ≤ ((ops.length : ℝ) + 1) * (1 / 10 ^ 13)

-- =============================================================================================
-- non-vacuity
-- =============================================================================================

/-- the identity register file satisfies the hypotheses of `reachable_unit_canon` -/
example : ∀ r : Nat,
    SO3.Unit ((⟨fun _ => SO3.identity, fun _ => mk3 1 2 3, fun _ => SO3.identity⟩ :
      State ℝ SO3.model (Lifting.triv _)).E r) ∧
    SO3.Canon ((⟨fun _ => SO3.identity, fun _ => mk3 1 2 3, fun _ => SO3.identity⟩ :
      State ℝ SO3.model (Lifting.triv _)).E r) := by
  intro r
  refine ⟨SO3.unit_identity, ?_⟩
  simp [SO3.Canon, SO3.identity, mk4, Vec.of]

/-- a register file at the half turn with a non-planar lifted register satisfies the hypotheses
    of `reachable_unit_so2` / `lift_of_history` -/
example : (∀ r : Nat, SO2.Unit ((⟨fun _ => C17P.halfTurn, fun _ => mk1 1, fun _ => mk4 (1 / 2) (1 / 2) (1 / 2) (1 / 2)⟩ :
      State ℝ SO2.model so2Lifting).E r)) ∧
    (∀ r : Nat, SO3.Unit ((⟨fun _ => C17P.halfTurn, fun _ => mk1 1, fun _ => mk4 (1 / 2) (1 / 2) (1 / 2) (1 / 2)⟩ :
      State ℝ SO2.model so2Lifting).L r) ∧
      SO3.Canon ((⟨fun _ => C17P.halfTurn, fun _ => mk1 1, fun _ => mk4 (1 / 2) (1 / 2) (1 / 2) (1 / 2)⟩ :
      State ℝ SO2.model so2Lifting).L r)) := by
  refine ⟨fun _ => ?_, fun _ => ⟨?_, ?_⟩⟩
  · simp [SO2.Unit, C17P.halfTurn, mk2, Vec.of]
  · simp [SO3.Unit, mk4, Vec.of]; norm_num
  · simp [SO3.Canon, mk4, Vec.of]

/-- a history that lifts a half turn reached by composition (quarter · quarter) and projects a
    lifted register back: tree sizes of the registers involved -/
example : opWeightL (α := ℝ) (dof := 1) [.compose 1 0 0, .lift 0 1, .project 2 0, .liftproj 3 2] W0 0 = 2
    ∧ opWeight (α := ℝ) (dof := 1) [.compose 1 0 0, .lift 0 1, .project 2 0, .liftproj 3 2] W0 2 = 3
    ∧ opWeight (α := ℝ) (dof := 1) [.compose 1 0 0, .lift 0 1, .project 2 0, .liftproj 3 2] W0 3 = 5 := by
  refine ⟨?_, ?_, ?_⟩ <;> rfl

/-- a non-trivial history and its tree sizes: `E0 = exp T0; E1 = E0 * E0; E1 *= E1; E0 += T0` -/
example : opWeight (α := ℝ) (dof := 3) [.exp 0 0, .compose 1 0 0, .mulAssign 1 1, .plusAssign 0 0] W0 1 = 7
    ∧ opWeight (α := ℝ) (dof := 3) [.exp 0 0, .compose 1 0 0, .mulAssign 1 1, .plusAssign 0 0] W0 0 = 3 := by
  constructor <;> rfl

/-- a tangent in the series branch with non-zero defect, and one in the closed branch -/
example : sqNorm (mk3 (1 / 100000 : ℝ) 0 0) < (Scalar.eps2 : ℝ) ∧ sqNorm (mk3 (1 / 100000 : ℝ) 0 0) ≠ 0 := by
  rw [sqNorm3, scalar_eps2]
  simp only [mk3, Vec.of]
  constructor <;> norm_num

example : ClosedBranch (mk3 (1 : ℝ) 0 0) := by
  unfold ClosedBranch
  rw [sqNorm3, scalar_eps2]
  simp only [mk3, Vec.of]
  norm_num

/-- the tableaux of the harness satisfy the hypotheses of `rk_constant_velocity` -/
example : (euler : Tableau ℝ).b.length = (euler : Tableau ℝ).rows.length + 1 ∧ (euler : Tableau ℝ).b.sum = 1 := by
  constructor <;> simp [euler]

example : (rk4 : Tableau ℝ).b.length = (rk4 : Tableau ℝ).rows.length + 1 ∧ (rk4 : Tableau ℝ).b.sum = 1 := by
  constructor
  · simp [rk4]
  · simp [rk4, q]; norm_num

example : (cashKarp54 : Tableau ℝ).b.length = (cashKarp54 : Tableau ℝ).rows.length + 1 ∧
    (cashKarp54 : Tableau ℝ).b.sum = 1 := by
  constructor
  · simp [cashKarp54]
  · simp [cashKarp54, q]; norm_num

example : (dopri5 : Tableau ℝ).b.length = (dopri5 : Tableau ℝ).rows.length + 1 ∧ (dopri5 : Tableau ℝ).b.sum = 1 := by
  constructor
  · simp [dopri5]
  · simp [dopri5, q, qn]; norm_num

example : (fehlberg78 : Tableau ℝ).b.length = (fehlberg78 : Tableau ℝ).rows.length + 1 ∧
    (fehlberg78 : Tableau ℝ).b.sum = 1 := by
  constructor
  · simp [fehlberg78, Tableau.ofB]
  · simp [fehlberg78, Tableau.ofB, q]; norm_num

/-- the additive group of ℝ with `e = id` is a model of the abstract group statement
    (written multiplicatively): the one-parameter law holds -/
example : ∀ s t : ℝ, (fun w : ℝ => Multiplicative.ofAdd w) ((s + t) • (1 : ℝ))
    = (fun w : ℝ => Multiplicative.ofAdd w) (s • (1 : ℝ)) * (fun w : ℝ => Multiplicative.ofAdd w) (t • (1 : ℝ)) := by
  intro s t
  simp [ofAdd_add]

/-- `EpsAccurate` is inhabited with ε = 0 by the exact SO2 model and its SO3 companion
    (`nrm`, `nrmL` = norm²; `lift` and `project` renormalise) -/
example : EpsAccurate (SO2.model : LieModel ℝ) so2Lifting (fun (g : Vec ℝ 2) => g 0 ^ 2 + g 1 ^ 2)
    (fun (q : Vec ℝ 4) => SO3.sqn q) 0 where
  comp := fun (a b : Vec ℝ 2) => by
    have h : (SO2.composition a b) 0 ^ 2 + (SO2.composition a b) 1 ^ 2
        = (a 0 ^ 2 + a 1 ^ 2) * (b 0 ^ 2 + b 1 ^ 2) := by
      simp only [SO2.composition, mk2, Vec.of]
      show (a 0 * b 1 + a 1 * b 0) ^ 2 + (a 1 * b 1 - a 0 * b 0) ^ 2 = _
      ring
    show |(SO2.composition a b) 0 ^ 2 + (SO2.composition a b) 1 ^ 2 - (a 0 ^ 2 + a 1 ^ 2) * (b 0 ^ 2 + b 1 ^ 2)| ≤ _
    rw [h]; simp
  inv := fun (a : Vec ℝ 2) => by
    left
    have h : (SO2.inverse a) 0 ^ 2 + (SO2.inverse a) 1 ^ 2 = a 0 ^ 2 + a 1 ^ 2 := by
      simp only [SO2.inverse, mk2, Vec.of]
      show (-(a 0)) ^ 2 + a 1 ^ 2 = _
      ring
    show |(SO2.inverse a) 0 ^ 2 + (SO2.inverse a) 1 ^ 2 - (a 0 ^ 2 + a 1 ^ 2)| ≤ _
    rw [h]; simp
  exp := fun (a : Vec ℝ 1) => by
    have h : (SO2.exp a) 0 ^ 2 + (SO2.exp a) 1 ^ 2 = 1 := so2_unit_exp a
    show |(SO2.exp a) 0 ^ 2 + (SO2.exp a) 1 ^ 2 - 1| ≤ 0
    rw [h]; simp
  lift := fun (a : Vec ℝ 2) => by
    right
    have h : SO3.sqn (Conv.lift_so3 a) = 1 := (lift_unit_canon a).1
    show |SO3.sqn (Conv.lift_so3 a) - 1| ≤ 0
    rw [h]; simp
  project := fun (q : Vec ℝ 4) => by
    right
    have h : (Conv.project_so2 q) 0 ^ 2 + (Conv.project_so2 q) 1 ^ 2 = 1 := project_unit q
    show |(Conv.project_so2 q) 0 ^ 2 + (Conv.project_so2 q) 1 ^ 2 - 1| ≤ 0
    rw [h]; simp

end C15
