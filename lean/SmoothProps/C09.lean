/-
  C09 — minimize never makes things worse, terminates, and reports why it stopped
  (property theorems; helper lemmas in SmoothProofs/C09Loop.lean, C09Mono.lean, C09Euclid.lean).

  Object: the state machine `Optim.minimize` (SmoothModel/Optim.lean) transcribed from
  include/smooth/optim.hpp, with the residual function and the trust-region step solver as
  PARAMETERS (`Optim.Problem`) and the strategy behind the virtual interface (`Optim.StrategyOps`).
  * structural theorems (`iter_le_max_iter`, `status_MaxIters_iff`, `callback_count`) hold over every
    scalar type, in particular for the executable `Float` instance that replays logged runs;
  * the cost theorems are over ℝ and assume `StepOK` — norms are non-negative, the step solver has the
    properties C10 proves (`C10.descent`, `C10.pred_zero_iff_dx_zero`), differentiation restores the
    arguments — and `StratOK` (take_step ⇒ rho > 0, Δ stays positive), which `builtin_strategies_ok`
    proves for Ceres and Disney.  `stepOK_of_C10` discharges `StepOK` from the C10 contract.
  Not covered by a theorem: IEEE rounding (a float `pred_red` can be ≤ 0 by rounding with `dx ≠ 0`;
  numerical differentiation restores the arguments only up to rounding) — audited on every run.
-/
import SmoothProofs.C09Loop
import SmoothProofs.C09Mono
import SmoothProofs.C09Euclid
import SmoothProofs.C09Linear

open Scalar

namespace C09

open Optim C09Loop C09Mono

section structural
variable {α : Type} [Scalar α] {X σ : Type}

/-- `minimize` performs at most `max_iter` iterations. -/
theorem iter_le_max_iter (P : Problem X α) (ops : StrategyOps σ α) (opts : Opts α) (x0 : X) (st : σ) :
    (minimize P ops opts x0 st).iter ≤ opts.maxIter :=
  loop_iter_le P ops opts opts.maxIter (initState x0 st) (Nat.zero_le _)

/-- the loop of `minimize` stops only because its guard `iter < max_iter && !status` fails -/
theorem loop_exit (P : Problem X α) (ops : StrategyOps σ α) (opts : Opts α) (x0 : X) (st : σ) :
    loopGuard opts (loop P ops opts opts.maxIter (initState x0 st)) = false :=
  C09Loop.loop_exit P ops opts opts.maxIter (initState x0 st) (by simp [initState])

/-- `MaxIters` is reported exactly when the loop ended without a convergence test having fired, and then
    all `max_iter` iterations were performed. -/
theorem status_MaxIters_iff (P : Problem X α) (ops : StrategyOps σ α) (opts : Opts α) (x0 : X) (st : σ) :
    (minimize P ops opts x0 st).status = .MaxIters ↔
      ((loop P ops opts opts.maxIter (initState x0 st)).status = none
        ∧ (minimize P ops opts x0 st).iter = opts.maxIter) := by
  have hne := loop_status_ne P ops opts opts.maxIter (initState x0 st) (by simp [initState])
  have hex := loop_exit P ops opts x0 st
  have hle := iter_le_max_iter P ops opts x0 st
  unfold minimize finish at *
  dsimp only at *
  set s := loop P ops opts opts.maxIter (initState x0 st) with hs
  constructor
  · intro h
    cases hst : s.status with
    | none =>
      refine ⟨rfl, ?_⟩
      unfold loopGuard at hex
      rw [hst] at hex
      simp only [Option.isNone_none, Bool.and_true, decide_eq_false_iff_not] at hex
      omega
    | some v =>
      rw [hst] at h hne
      simp only [Option.getD_some] at h
      exact absurd (by rw [h]) hne
  · rintro ⟨h, _⟩
    rw [h]
    rfl

/-- A reported `Ftol`/`Ptol` is the status a convergence test set inside the loop. -/
theorem status_converged_iff (P : Problem X α) (ops : StrategyOps σ α) (opts : Opts α) (x0 : X) (st : σ)
    (v : Status) (hv : v ≠ .MaxIters) :
    (minimize P ops opts x0 st).status = v ↔ (loop P ops opts opts.maxIter (initState x0 st)).status = some v := by
  have hne := loop_status_ne P ops opts opts.maxIter (initState x0 st) (by simp [initState])
  unfold minimize finish
  dsimp only
  cases hst : (loop P ops opts opts.maxIter (initState x0 st)).status with
  | none =>
    simp only [Option.getD_none]
    constructor
    · intro h; exact absurd h.symm hv
    · intro h; cases h
  | some w => simp

/-- The callback is called once on the start and once per accepted step. -/
theorem callback_count (P : Problem X α) (ops : StrategyOps σ α) (opts : Opts α) (x0 : X) (st : σ) :
    (minimize P ops opts x0 st).callbacks.length
      = 1 + acceptedCount P ops opts opts.maxIter (initState x0 st) := by
  unfold minimize finish
  dsimp only
  rw [List.length_reverse, loop_log_length]
  simp [initState]

end structural

section cost
variable {X σ : Type}

/-- Consecutive (indeed all ordered pairs of) callback points have non-increasing cost. -/
theorem accepted_cost_nonincreasing {P : Problem X ℝ} {ops : StrategyOps σ ℝ} {Inv : σ → Prop}
    (hS : StratOK ops Inv) (hP : StepOK P) (opts : Opts ℝ) (x0 : X) (st : σ) (hst : Inv st) :
    (minimize P ops opts x0 st).callbacks.Pairwise (fun earlier later => P.cost later ≤ P.cost earlier) := by
  have hg := good_loop hS hP opts opts.maxIter _ (good_init P x0 st hst)
  unfold minimize finish
  dsimp only
  rw [List.pairwise_reverse]
  exact hg.mono

/-- The first callback point is the start, the last one is what the arguments finally hold. -/
theorem final_args_are_last_iterate {P : Problem X ℝ} {ops : StrategyOps σ ℝ} {Inv : σ → Prop}
    (hS : StratOK ops Inv) (hP : StepOK P) (opts : Opts ℝ) (x0 : X) (st : σ) (hst : Inv st) :
    (minimize P ops opts x0 st).callbacks.head? = some x0
      ∧ (minimize P ops opts x0 st).callbacks.getLast? = some (minimize P ops opts x0 st).x := by
  have hg := good_loop hS hP opts opts.maxIter _ (good_init P x0 st hst)
  unfold minimize finish
  dsimp only
  rw [List.head?_reverse, List.getLast?_reverse]
  exact ⟨hg.start, hg.head⟩

/-- `minimize` never returns a point worse than its start. -/
theorem never_worse_than_start {P : Problem X ℝ} {ops : StrategyOps σ ℝ} {Inv : σ → Prop}
    (hS : StratOK ops Inv) (hP : StepOK P) (opts : Opts ℝ) (x0 : X) (st : σ) (hst : Inv st) :
    P.cost (minimize P ops opts x0 st).x ≤ P.cost x0 := by
  have hg := good_loop hS hP opts opts.maxIter _ (good_init P x0 st hst)
  have hmem : x0 ∈ (loop P ops opts opts.maxIter (initState x0 st)).log :=
    List.mem_of_getLast? hg.start
  exact good_cost_le hg x0 hmem

/-- Ceres and Disney only take steps with `rho > 0` and keep `Δ > 0` (and `m_reduce > 0`). -/
theorem builtin_strategies_ok : StratOK (builtinOps (α := ℝ)) StratInv := builtin_ok

/-- `Δ` stays positive under both strategies for EVERY sequence of `rho` values (±∞ and NaN included),
    so `λ = 1/Δ` is always defined and positive. -/
theorem strategy_delta_positive (rhos : List (Rho ℝ)) :
    0 < (runStrat Strat.ceresInit rhos).delta ∧ 0 < (runStrat Strat.disneyInit rhos).delta :=
  ⟨(stratInv_run _ stratInv_ceresInit rhos).1, (stratInv_run _ stratInv_disneyInit rhos).1⟩

/-- The hypotheses on the step are what C10 proves: any solver satisfying the contract of
    `solve_trust_region`, with any matrix as Jacobian (whichever differentiation mode supplied it), positive
    scaling and a retraction with `x ⊕ 0 = x`. -/
theorem stepOK_of_C10 {m n : ℕ} (N : C09Euclid.NLS X m n) (h : N.Spec) : StepOK N.problem :=
  C09Euclid.stepOK N h

/-- Zero residual (`r_n == 0`, where the code computes `rho = NaN`): the step is accepted, no strategy takes
    it (`Δ` shrinks), the `Ftol` TEST cannot fire, `Ptol` fires iff `‖D dx‖ < ptol·n`.  With the model switch
    `Optim.zeroResidualConverged` (the repaired optim.hpp, /repo 04fbd01) the status is `Ftol` instead. -/
theorem nan_rho_paths (opts : Opts ℝ) (s : State X (Strat ℝ)) (o : Obs ℝ) (xp xa : X) (h : o.rn = 0) :
    rhoOf o = .nan
      ∧ (advance builtinOps opts s o xp xa).2.take = false
      ∧ (advance builtinOps opts s o xp xa).2.accepted = true
      ∧ (advance builtinOps opts s o xp xa).1.x = xp
      ∧ (advance builtinOps opts s o xp xa).1.status
          = (if zeroResidualConverged then some .Ftol else if ptolTest opts o then some .Ptol else s.status)
      ∧ (advance builtinOps opts s o xp xa).1.strat.delta
          = (match s.strat.kind with | .ceres => s.strat.delta / s.strat.reduce | .disney => s.strat.delta / 10) := by
  have hz : IsZero o.rn := (isZero_iff _).2 h
  have hrho : rhoOf o = .nan := by unfold rhoOf; rw [if_pos hz]
  have htake : (builtinOps.update s.strat (rhoOf o)).2 = false := by
    rw [hrho]
    unfold builtinOps Strat.stepAndUpdate
    cases hk : s.strat.kind <;> simp [Rho.gt, hk]
  have hacc : acceptRule o (builtinOps.update s.strat (rhoOf o)).2 = true := by
    unfold acceptRule
    simp [IsZero, h]
  have hft : ftolTest opts o (rhoOf o) = false := by
    unfold ftolTest
    simp [IsZero, h]
  refine ⟨hrho, ?_, ?_, ?_, ?_, ?_⟩
  · unfold advance; dsimp only; rw [if_pos hacc]; exact htake
  · rw [advance_accepted]; exact hacc
  · exact (advance_of_accept _ _ _ _ _ _ hacc).1
  · unfold advance; dsimp only; rw [if_pos hacc]
    dsimp only
    rw [hft]
    have hzd : decide (IsZero o.rn) = true := by simp [IsZero, h]
    rw [hzd]
    cases zeroResidualConverged <;> simp
  · rw [advance_strat, hrho]
    unfold builtinOps Strat.stepAndUpdate
    cases hk : s.strat.kind <;> simp [Rho.gt, hk]

end cost

/-! ### non-vacuity: the linear problem `f(x) = x − 1` on ℝ¹ with the exact solver satisfies the hypotheses -/

noncomputable def exampleNLS : C09Euclid.NLS (Fin 1 → ℝ) 1 1 where
  f x := fun i => x i - 1
  Jf _ := 1
  dOf _ := fun _ => 1
  plus x a := x + a
  solve x Δ := C09Euclid.exactSolve 1 (fun _ => 1) (fun i => x i - 1) Δ

example : exampleNLS.Spec :=
  ⟨fun _ _ => one_pos, fun x => add_zero x,
   fun x _ hΔ => C09Euclid.exactSolve_spec 1 (fun i => x i - 1) (fun _ => one_pos) hΔ⟩

example : StratInv (Strat.ceresInit (α := ℝ)) ∧ StratInv (Strat.disneyInit (α := ℝ)) :=
  ⟨stratInv_ceresInit, stratInv_disneyInit⟩


/-! ### linear least squares: no step is ever rejected -/

/-- On a LINEAR problem the trial residual is the linearised one (`‖f(x ⊕ dx)‖ = ‖r + J dx‖`), so `actu_red = pred_red`
    and the gain ratio the loop computes is exactly `1` whenever the C++ quotient is finite (`r_n ≠ 0`, `pred_red ≠ 0`). -/
theorem linear_problem_rho_one {o : Obs ℝ} (hlin : o.fxpn = o.linn) (hr : o.rn ≠ 0) (hp : predRed o ≠ 0) :
    rhoOf o = .fin 1 := C09Linear.rho_one hlin hr hp

/-- what the two built-in strategies do with `rho = 1`: both take the step; Ceres triples `Δ`
    (`Δ / max(1/3, 1 − (2·1−1)³)`) and resets `m_reduce` to 2; Disney resets `Δ` to 1000. -/
theorem linear_problem_strategy_updates (s : Strat ℝ) :
    (s.stepAndUpdate (.fin 1)).2 = true
    ∧ (s.kind = .ceres → (s.stepAndUpdate (.fin 1)).1.delta = 3 * s.delta ∧ (s.stepAndUpdate (.fin 1)).1.reduce = 2)
    ∧ (s.kind = .disney → (s.stepAndUpdate (.fin 1)).1.delta = 1000) :=
  ⟨C09Linear.builtin_takes_one s, fun hk => (C09Linear.ceres_on_one s hk).2, fun hk => (C09Linear.disney_on_one s hk).2⟩

/-- `minimize` with a built-in strategy NEVER rejects an iteration on a linear problem, whatever `Δ`, the tolerances and
    the point are: every iteration hands a new point to the callback (so `callback_count = 1 + iter`). -/
theorem linear_problem_never_rejects (opts : Opts ℝ) {X : Type} (s : State X (Strat ℝ)) (o : Obs ℝ) (xp xa : X)
    (hlin : o.fxpn = o.linn) : (advance builtinOps opts s o xp xa).2.accepted = true :=
  C09Linear.linear_iteration_accepted opts s o xp xa hlin

/-- non-vacuity: a linear step that halves the residual (`r_n = 2`, `‖r + J dx‖ = ‖f(xp)‖ = 1`) has `pred_red = 3/4 ≠ 0` -/
example : let o : Obs ℝ := ⟨2, 1, 1, 1, 3⟩; o.fxpn = o.linn ∧ o.rn ≠ 0 ∧ predRed o ≠ 0 := by
  refine ⟨rfl, by norm_num, ?_⟩
  unfold predRed
  rw [C09Mono.sq_real]
  norm_num [Scalar.nat_real]

end C09
