/-
  C07 — Manifold axioms hold for every Manifold model (property theorems).

  Objects: `Manif.Man` (what `traits::man<M>` offers) and the adaptors of SmoothModel/Manifold.lean,
  which are the executable model tied to the implementation by the correspondence check.
  `ManLaws A Valid Dom Compat` (SmoothProofs/C07Vector.lean) is the conjunction of the axioms of the
  property for the model `A`:
      rminus (rplus m a) m = a   (a in the injectivity domain `Dom`, |a| = dof m),
      rplus m (rminus m₂ m) = m₂,   rminus m m = 0,
      dof m = length accepted by rplus = length returned by rminus,
  relative to `Valid` (representation invariant) and `Compat` (operands of one shape).
  Partial: rounding (audited on every run), the injectivity radius in floating point.
-/
import SmoothProofs.C07Laws
import SmoothProofs.C07GlueRound
import SmoothProofs.C07GlueBundle
import Mathlib.Analysis.SpecialFunctions.Trigonometric.Bounds
import Mathlib.Analysis.Real.Pi.Bounds

open Scalar Lin Manif

set_option linter.unusedSectionVars false
set_option linter.unusedSimpArgs false

namespace C07
variable {α : Type} [Scalar α]

/-! ## Lie groups: `traits::man<G>` -/

/-- abstract form: any group with `log ∘ exp = id` on `D` -/
theorem group_rminus_rplus {G T : Type} [Group G] (exp : T → G) (log : G → T) (D : Set T)
    (hle : ∀ a ∈ D, log (exp a) = a) (m : G) (a : T) (ha : a ∈ D) :
    log (m⁻¹ * (m * exp a)) = a := abstract_rminus_rplus exp log D hle m a ha

theorem group_rplus_rminus {G T : Type} [Group G] (exp : T → G) (log : G → T)
    (hel : ∀ g, exp (log g) = g) (m m2 : G) : m * exp (log (m⁻¹ * m2)) = m2 :=
  abstract_rplus_rminus exp log hel m m2

theorem group_rminus_self {G T : Type} [Group G] [Zero T] (exp : T → G) (log : G → T) (D : Set T)
    (hle : ∀ a ∈ D, log (exp a) = a) (h0 : (0 : T) ∈ D) (he0 : exp 0 = 1) (m : G) :
    log (m⁻¹ * m) = 0 := abstract_rminus_self exp log D hle h0 he0 m

/-- the model's groups: for every group model satisfying the group laws on `Valid` (C01) and
    `log (exp a) = a` on `D`, `exp (log g) = g` (C02) -/
theorem rminus_rplus {G : LieModel α} {Valid : Vec α G.rep → Prop} {D : Vec α G.dof → Prop}
    (h : LieLaws G Valid D) (g : Vec α G.rep) (a : Vec α G.dof) (hg : Valid g) (ha : D a) :
    G.rminus (G.rplus g a) g = a := lie_rminus_rplus h g a hg ha

theorem rplus_rminus {G : LieModel α} {Valid : Vec α G.rep → Prop} {D : Vec α G.dof → Prop}
    (h : LieLaws G Valid D) (g g2 : Vec α G.rep) (hg : Valid g) (hg2 : Valid g2) :
    G.rplus g (G.rminus g2 g) = g2 := lie_rplus_rminus h g g2 hg hg2

theorem rminus_self {G : LieModel α} {Valid : Vec α G.rep → Prop} {D : Vec α G.dof → Prop}
    (h : LieLaws G Valid D) (g : Vec α G.rep) (hg : Valid g) : G.rminus g g = vzero G.dof :=
  lie_rminus_self h g hg

/-- the Manifold interface of a Lie group satisfies all axioms (incl. the tangent lengths) -/
theorem lie_manifold_axioms {G : LieModel α} {Valid : Vec α G.rep → Prop} {D : Vec α G.dof → Prop}
    (h : LieLaws G Valid D) :
    ManLaws (ofLie G) Valid (fun _ a => D (vecOfList a)) (fun _ _ => True) := lie_laws h

-- non-vacuity: `Eigen::Vector<N>` over ℝ satisfies the hypotheses, with D = everything
example (n : Nat) : LieLaws (Tn.model n : LieModel ℝ) (fun _ => True) (fun _ => True) := tn_lieLaws n
example : (Tn.model 2 : LieModel ℝ).rminus ((Tn.model 2 : LieModel ℝ).rplus (mk2 1 2) (mk2 3 5)) (mk2 1 2)
    = mk2 3 5 := rminus_rplus (tn_lieLaws 2) _ _ trivial trivial

/-! ## `std::vector<M>` -/

/-- `dof(v) = Σ dof(vᵢ)` (both branches of the code: `size·Dof` and `accumulate`) -/
theorem dof_vector {M : Type} (A : Man α M) (hs : DofStatic A) (u : Nat → α) (ms : List M) :
    (vector A u).dof ms = (ms.map A.dof).sum := vectorDof_eq_sum A hs ms

/-- `rplus` acts element-wise on consecutive tangent segments: the dof-counter loop equals the
    split of `a` into pieces of lengths `dof vᵢ` (all lists, including `[]`) -/
theorem vector_rplus_concat {M : Type} (A : Man α M) (u : Nat → α) (ms : List M) (a : List α) :
    (vector A u).rplus ms a = specRplus A ms a := vectorRplus_eq_spec A ms a

/-- `rminus` of equally long vectors is the concatenation of the element differences, whatever
    the uninitialised return buffer held -/
theorem vector_rminus_concat {M : Type} (A : Man α M) (hs : DofStatic A) (u : Nat → α)
    {m1 m2 : List M} (h : PairsOk A m1 m2) : (vector A u).rminus m1 m2 = specRminus A m1 m2 :=
  vectorRminus_eq_spec A hs u h

/-- zip semantics: when the second vector is shorter only the common prefix is written; the
    rest of the returned vector is whatever the uninitialised memory held -/
theorem vector_rminus_shorter_second {M : Type} (A : Man α M) (u : Nat → α) (m : M) :
    A.sdof = none → (vector A u).rminus [m] [] = .ok ((List.range (A.dof m)).map u) := by
  intro h
  change vectorRminus A u [m] [] = _
  simp [vectorRminus, vectorRminusLoop, vectorRminusSize, h, pure, Except.pure]

/-- the axioms lift element-wise -/
theorem vector_axioms_lift {M : Type} {A : Man α M} {Valid : M → Prop} {Dom : M → List α → Prop}
    {Compat : M → M → Prop} (hA : ManLaws A Valid Dom Compat) (hs : DofStatic A) (u : Nat → α) :
    ManLaws (vector A u) (fun ms => ∀ m ∈ ms, Valid m) (DomSegs A Dom) (List.Forall₂ Compat) :=
  vector_laws hA hs u

-- non-vacuity: std::vector<Eigen::Vector2d>, and the nested std::vector<std::vector<…>>
example : ManLaws (vector (ofLie (Tn.model 2 : LieModel ℝ)))
    (fun ms => ∀ m ∈ ms, True) (DomSegs (ofLie (Tn.model 2 : LieModel ℝ)) (fun _ _ => True))
    (List.Forall₂ (fun _ _ => True)) :=
  vector_axioms_lift (lie_laws (tn_lieLaws 2)) (by intro d hd m; simp [ofLie] at hd; exact hd) _
example : (vector (scalar : Man ℝ ℝ)).rplus [1, 2, 3] [10, 20, 30] = [11, 22, 33] := by
  simp [vector_rplus_concat, specRplus, scalar]; norm_num

/-! ## `SubManifold<M>` -/

/-- the constructor sorts: any duplicate-free list of fixed dims becomes the strictly increasing
    list with the same members -/
theorem ctor_sorts {M : Type} (m0 m : M) (fixed : List Nat) (h : fixed.Nodup) :
    (SubMan.ctor m0 m fixed).fixed.Pairwise (· < ·) ∧
      (∀ x, x ∈ (SubMan.ctor m0 m fixed).fixed ↔ x ∈ fixed) ∧
      (SubMan.ctor m0 m fixed).fixed.length = fixed.length :=
  ⟨isort_pairwise_lt fixed h, isort_mem fixed, isort_length fixed⟩

/-- for every strictly increasing `fixed ⊆ [0,n)`: the free coordinates survive scatter + gather -/
theorem gather_scatter (n : Nat) (fixed : List Nat) (a : List α) (hf : FixedIn 0 n fixed)
    (hl : a.length + fixed.length = n) : gather fixed (scatter n fixed a) = a :=
  gatherLoop_scatterLoop _ n 0 fixed a hf hl

/-- the lifted tangent is zero on every fixed coordinate: SubManifold moves only along its free
    directions -/
theorem scatter_zero_on_fixed (n : Nat) (fixed : List Nat) (a : List α) (hf : FixedIn 0 n fixed) :
    ∀ f ∈ fixed, (scatter n fixed a)[f]? = some (nat 0 : α) := by
  intro f hfm
  have := scatterLoop_zero_on_fixed (nat 0 : α) n 0 fixed a hf f hfm
  simpa [scatter] using this

/-- `rminus` reports `n − |fixed|` numbers -/
theorem length_gather (fixed : List Nat) (x : List α) (hf : FixedIn 0 x.length fixed) :
    (gather fixed x).length = x.length - fixed.length := by
  have := gatherLoop_length 0 fixed x hf
  simp only [gather]; omega

/-- `rplus` keeps the origin and the fixed dims -/
theorem m0_preserved {M : Type} (A : Man α M) (s : SubMan M) (a : List α)
    (hs : s.fixed.Pairwise (· < ·)) :
    ((sub A).rplus s a).m0 = s.m0 ∧ ((sub A).rplus s a).fixed = s.fixed :=
  ⟨rfl, isort_of_sorted _ hs⟩

/-- `rminus` reports differences only in the free coordinates: it is the gather of the
    difference in the embedding manifold -/
theorem sub_rminus_free_only {M : Type} (A : Man α M) (s o : SubMan M) (c : List α)
    (hc : A.rminus s.m o.m = .ok c) (hl : c.length = A.dof s.m0)
    (hf : FixedIn 0 (A.dof s.m0) s.fixed) :
    (sub A).rminus s o = .ok (gather s.fixed c) ∧
      (gather s.fixed c).length = A.dof s.m0 - s.fixed.length := by
  have hlen := length_gather s.fixed c (by rw [hl]; exact hf)
  rw [hl] at hlen
  refine ⟨?_, hlen⟩
  change subRminus A s o = _
  simp only [subRminus, hc, bind, Except.bind, pure, Except.pure]
  rw [fitZero_of_length _ _ (by simpa [subDof] using hlen)]

/-- all axioms, restricted to the free directions -/
theorem sub_axioms_lift {M : Type} {A : Man α M} {Valid : M → Prop} {Dom : M → List α → Prop}
    {Compat : M → M → Prop} (hA : ManLaws A Valid Dom Compat) :
    ManLaws (sub A) (SubValid A Valid) (SubDom A Dom) (SubCompat A Compat) := sub_laws hA

-- non-vacuity: n = 3, fixed = [1]
example : gather [1] (scatter 3 [1] ([5, 7] : List ℝ)) = [5, 7] :=
  gather_scatter 3 [1] [5, 7] ⟨by simp, by simp⟩ rfl
example : scatter 3 [1] ([5, 7] : List ℝ) = [5, 0, 7] := by
  simp [scatter, scatterLoop]
example : FixedIn 0 6 [0, 2, 5] := ⟨by simp, by simp⟩

/-! ## cast to the same scalar type -/

/-- the property's claim about `cast`: the result is the same value (hence an object that
    behaves identically under every operation of the model) -/
def cast_same_scalar_behaves_identically_statement {M : Type} (A : Man α M) (Valid : M → Prop) : Prop :=
  ∀ s, Valid s → ∀ c, A.cast s = .ok c → c = s

/-- `CastOk` (the cast succeeds and returns the same value) gives the statement -/
theorem cast_statement_of_castOk {M : Type} {A : Man α M} {Valid : M → Prop} (h : CastOk A Valid) :
    cast_same_scalar_behaves_identically_statement A Valid := by
  intro s hs c hc
  rw [h s hs] at hc
  exact (Except.ok.inj hc).symm

/-- Lie groups, Eigen vectors and scalars -/
theorem cast_same_scalar_behaves_identically_base (G : LieModel α) :
    CastOk (ofLie G) (fun _ => True) ∧ CastOk (scalar : Man α α) (fun _ => True) ∧
      CastOk (vecX : Man α (List α)) (fun _ => True) :=
  ⟨castOk_lie G, castOk_scalar, castOk_vecX⟩

/-- std::vector: element-wise -/
theorem cast_same_scalar_behaves_identically_vector {M : Type} {A : Man α M} {Valid : M → Prop}
    (hA : CastOk A Valid) (u : Nat → α) : CastOk (vector A u) (fun ms => ∀ m ∈ ms, Valid m) :=
  castOk_vector A hA u

/-- std::variant: the held alternative -/
theorem cast_same_scalar_behaves_identically_variant {ι : Type} [DecidableEq ι] {Ms : ι → Type}
    {A : ∀ i, Man α (Ms i)} {Valid : ∀ i, Ms i → Prop} (hA : ∀ i, CastOk (A i) (Valid i)) (first : ι) :
    CastOk (variant A first) (fun v => Valid v.1 v.2) := castOk_variant hA first

/-- **SubManifold**: the cast to the same scalar type is the identity on `(m0, m, fixed)` -/
theorem cast_same_scalar_behaves_identically_submanifold {M : Type} {A : Man α M} {Valid : M → Prop}
    (hA : CastOk A Valid) : CastOk (sub A) (SubValid A Valid) := castOk_sub A hA

/-- hence the full statement for SubManifold (and, by the lifts above, for every nesting of
    vector / variant / SubManifold over groups, vectors and scalars) -/
theorem cast_same_scalar_behaves_identically {M : Type} {A : Man α M} {Valid : M → Prop}
    (hA : CastOk A Valid) :
    cast_same_scalar_behaves_identically_statement (sub A) (SubValid A Valid) :=
  cast_statement_of_castOk (castOk_sub A hA)

/-- AnyManifold does not support casting (it throws): the statement holds vacuously there -/
theorem cast_same_scalar_any_vacuous {ι : Type} [DecidableEq ι] {Ms : ι → Type}
    (A : ∀ i, Man α (Ms i)) (Valid : (Σ i, Ms i) → Prop) :
    cast_same_scalar_behaves_identically_statement (any A) Valid := by
  intro s _ c h
  simp [any] at h

/-- sensitivity of the statement: with the argument order of the tree before commit 9680871
    (`(cast m, cast m0, fixed)` into the `(m0, m, fixed)` constructor) origin and value come back
    exchanged, and the cast is not the identity (witness: origin 0, value 1) -/
theorem swapped_cast_is_not_identity :
    (∀ {M : Type} (A : Man α M) (s : SubMan M), (∀ m : M, A.cast m = .ok m) →
      ∃ c, subCastSwapped A s = .ok c ∧ c.m0 = s.m ∧ c.m = s.m0) ∧
    subCastSwapped (scalar : Man ℝ ℝ) ⟨0, 1, []⟩ ≠ .ok ⟨0, 1, []⟩ := by
  refine ⟨?_, ?_⟩
  · intro M A s hid
    obtain ⟨c, hc, h0, h1, _⟩ := subCastSwapped_swaps A s s.m s.m0 (hid _) (hid _)
    exact ⟨c, hc, h0, h1⟩
  · intro h
    simp [subCastSwapped, scalar, SubMan.ctor, isort, bind, Except.bind, pure, Except.pure] at h

-- non-vacuity: SubManifold<std::vector<Eigen::Vector3d>> over ℝ, and a concrete value
example : CastOk (sub (vector (ofLie (Tn.model 3 : LieModel ℝ))))
    (SubValid (vector (ofLie (Tn.model 3 : LieModel ℝ))) (fun ms => ∀ m ∈ ms, True)) :=
  cast_same_scalar_behaves_identically_submanifold
    (cast_same_scalar_behaves_identically_vector (castOk_lie _) _)
example : (sub (scalar : Man ℝ ℝ)).cast ⟨0, 1, []⟩ = .ok ⟨0, 1, []⟩ :=
  cast_same_scalar_behaves_identically_submanifold castOk_scalar _
    ⟨trivial, trivial, rfl, ⟨List.Pairwise.nil, by simp⟩⟩

/-! ## `std::variant` and `AnyManifold` -/

theorem variant_axioms_lift {ι : Type} [DecidableEq ι] {Ms : ι → Type} {A : ∀ i, Man α (Ms i)}
    {Valid : ∀ i, Ms i → Prop} {Dom : ∀ i, Ms i → List α → Prop} {Compat : ∀ i, Ms i → Ms i → Prop}
    (hA : ∀ i, ManLaws (A i) (Valid i) (Dom i) (Compat i)) (first : ι) :
    ManLaws (variant A first) (fun v => Valid v.1 v.2) (fun v a => Dom v.1 v.2 a)
      (SigmaCompat Compat) := variant_laws hA first

theorem variant_rminus_across_alternatives_throws {ι : Type} [DecidableEq ι] {Ms : ι → Type}
    (A : ∀ i, Man α (Ms i)) (first : ι) (v w : Σ i, Ms i) (h : w.1 ≠ v.1) :
    (variant A first).rminus v w = .error "bad_variant_access" := variant_rminus_mismatch first v w h

theorem any_axioms_lift {ι : Type} [DecidableEq ι] {Ms : ι → Type} {A : ∀ i, Man α (Ms i)}
    {Valid : ∀ i, Ms i → Prop} {Dom : ∀ i, Ms i → List α → Prop} {Compat : ∀ i, Ms i → Ms i → Prop}
    (hA : ∀ i, ManLaws (A i) (Valid i) (Dom i) (Compat i)) :
    ManLaws (any A) (fun v => Valid v.1 v.2) (fun v a => Dom v.1 v.2 a) (SigmaCompat Compat) :=
  any_laws hA

/-- the error branch: `AnyManifold()`, `Default` and `cast` throw -/
theorem any_default_and_cast_throw {ι : Type} [DecidableEq ι] {Ms : ι → Type} (A : ∀ i, Man α (Ms i))
    (v : Σ i, Ms i) (n : Nat) :
    (any A).cast v = .error "AnyManifold: cast not supported" ∧
      (any A).default n = .error "AnyManifold: default not supported" ∧
      (anyDefaultCtor : Except String (Σ i, Ms i)) = .error "Can not default-construct" :=
  ⟨rfl, rfl, rfl⟩

/-- copies of an `AnyManifold` are independent objects holding the same value -/
theorem copy_independent {V : Type} (h h' : AnyHeap.Heap V) (a c : AnyHeap.Handle)
    (hc : AnyHeap.copy h a = some (h', c)) :
    AnyHeap.read h' c = AnyHeap.read h a ∧ c ≠ a ∧
      (∀ v, AnyHeap.read (AnyHeap.write h' c v) a = AnyHeap.read h a) ∧
      (∀ v, AnyHeap.read (AnyHeap.write h' a v) c = AnyHeap.read h a) :=
  Heap.copy_independent h h' a c hc

-- non-vacuity: a copy exists whenever the source holds a value; and sharing the pointer instead
-- of cloning would break independence
example : AnyHeap.copy (⟨[7]⟩ : AnyHeap.Heap Nat) ⟨some 0⟩ = some (⟨[7, 7]⟩, ⟨some 1⟩) := rfl
example : ∃ (h : AnyHeap.Heap Nat) (a : AnyHeap.Handle) (v : Nat),
    AnyHeap.read (AnyHeap.write (AnyHeap.shallowCopy h a).1 (AnyHeap.shallowCopy h a).2 v) a
      ≠ AnyHeap.read h a := Heap.shallowCopy_not_independent

-- the adaptors compose: std::vector<SubManifold<std::variant-free Eigen::Vector3d>> over ℝ
example : ∃ V D C, ManLaws (vector (sub (ofLie (Tn.model 3 : LieModel ℝ)))) V D C :=
  ⟨_, _, _, vector_axioms_lift (sub_axioms_lift (lie_laws (tn_lieLaws 3)))
    (by intro d hd; simp [sub] at hd) _⟩

/-! ## the concrete group models (glue to C01 + C02)

  C01 gives `IsMatrixGroup G Valid` (the coefficient operations realise a matrix group), C02 the
  exp/log round trips in the closed-form branches.  Coefficient-level associativity FAILS for the
  quaternion groups (C01 `so3_composition_not_assoc`), so the axioms are derived through the
  matrix: the transformation determines the canonical coefficient vector (`CanonRep`; for
  quaternions: `w ≥ 0` for every composition result, `w > 0` for the element to be recovered).
  Every hypothesis of the C02 theorems appears explicitly. -/

/-- generic: a matrix group with canonical representatives satisfies the manifold axioms on the
    tangents / pairs whose exp/log round trip is exact (`RoundTripDom`, `RoundTripCompat`) -/
theorem matrix_group_manifold_axioms {G : LieModel ℝ} {Valid Canon Strict : Vec ℝ G.rep → Prop}
    (h : IsMatrixGroup G Valid) (c : CanonRep G Valid Canon Strict) :
    ManLaws (ofLie G) Valid (fun g a => RoundTripDom G Valid Strict g (vecOfList a))
      (RoundTripCompat G Strict) :=
  (lieAxioms_of_matrixGroup h c).manLaws

/-- SO2 (`a ∈ (−π, π]`, unit complex numbers) -/
theorem so2_manifold_axioms :
    (∀ (g : Vec ℝ 2) (a : Vec ℝ 1), SO2.Unit g → -Real.pi < a 0 → a 0 ≤ Real.pi →
      (SO2.model : LieModel ℝ).rminus ((SO2.model : LieModel ℝ).rplus g a) g = a) ∧
    (∀ g g2 : Vec ℝ 2, SO2.Unit g → SO2.Unit g2 →
      (SO2.model : LieModel ℝ).rplus g ((SO2.model : LieModel ℝ).rminus g2 g) = g2) ∧
    (∀ g : Vec ℝ 2, SO2.Unit g → (SO2.model : LieModel ℝ).rminus g g = vzero 1) := by
  refine ⟨?_, ?_, ?_⟩
  · intro g a hg h1 h2
    exact matrix_rminus_rplus SO2.isMatrixGroup so2_canonRep g a hg (so2_exp_unit a) trivial
      (C02.so2_log_exp a h1 h2)
  · intro g g2 hg hg2
    refine matrix_rplus_rminus SO2.isMatrixGroup so2_canonRep g g2 hg hg2 trivial ?_
    have hy : SO2.Unit (SO2.composition (SO2.inverse g) g2) :=
      SO2.unit_composition _ _ (SO2.unit_inverse g hg) hg2
    have hy' : (SO2.composition (SO2.inverse g) g2) 0 * (SO2.composition (SO2.inverse g) g2) 0
        + (SO2.composition (SO2.inverse g) g2) 1 * (SO2.composition (SO2.inverse g) g2) 1 = 1 := by
      unfold SO2.Unit at hy; nlinarith [hy]
    exact C02.so2_exp_log (SO2.composition (SO2.inverse g) g2) hy'
  · intro g hg
    exact matrix_rminus_self SO2.isMatrixGroup so2_canonRep g hg

/-- C1 (`a₁ ∈ (−π, π]`, non-zero complex numbers) -/
theorem c1_manifold_axioms :
    (∀ (g : Vec ℝ 2) (a : Vec ℝ 2), C1.Valid g → -Real.pi < a 1 → a 1 ≤ Real.pi →
      (C1.model : LieModel ℝ).rminus ((C1.model : LieModel ℝ).rplus g a) g = a) ∧
    (∀ g g2 : Vec ℝ 2, C1.Valid g → C1.Valid g2 →
      (C1.model : LieModel ℝ).rplus g ((C1.model : LieModel ℝ).rminus g2 g) = g2) ∧
    (∀ g : Vec ℝ 2, C1.Valid g → (C1.model : LieModel ℝ).rminus g g = vzero 2) := by
  refine ⟨?_, ?_, ?_⟩
  · intro g a hg h1 h2
    exact matrix_rminus_rplus C1.isMatrixGroup c1_canonRep g a hg (c1_exp_valid a) trivial
      (C02.c1_log_exp a h1 h2)
  · intro g g2 hg hg2
    refine matrix_rplus_rminus C1.isMatrixGroup c1_canonRep g g2 hg hg2 trivial ?_
    have hy : C1.Valid (C1.composition (C1.inverse g) g2) :=
      C1.isMatrixGroup.valid_composition _ _ (C1.isMatrixGroup.valid_inverse g hg) hg2
    have hy' : (C1.composition (C1.inverse g) g2) 0 * (C1.composition (C1.inverse g) g2) 0
        + (C1.composition (C1.inverse g) g2) 1 * (C1.composition (C1.inverse g) g2) 1 ≠ 0 := by
      unfold C1.Valid at hy; intro h0; apply hy; nlinarith [h0]
    exact C02.c1_exp_log (C1.composition (C1.inverse g) g2) hy'
  · intro g hg
    exact matrix_rminus_self C1.isMatrixGroup c1_canonRep g hg

/-- Eigen vectors of any size: unconditional -/
theorem tn_manifold_axioms (n : Nat) :
    (∀ g a : Vec ℝ n, (Tn.model n : LieModel ℝ).rminus ((Tn.model n : LieModel ℝ).rplus g a) g = a) ∧
    (∀ g g2 : Vec ℝ n, (Tn.model n : LieModel ℝ).rplus g ((Tn.model n : LieModel ℝ).rminus g2 g) = g2) ∧
    (∀ g : Vec ℝ n, (Tn.model n : LieModel ℝ).rminus g g = vzero n) :=
  ⟨fun g a => matrix_rminus_rplus (Tn.isMatrixGroup n) (tn_canonRep n) g a trivial trivial trivial rfl,
   fun g g2 => matrix_rplus_rminus (Tn.isMatrixGroup n) (tn_canonRep n) g g2 trivial trivial trivial rfl,
   fun g => matrix_rminus_self (Tn.isMatrixGroup n) (tn_canonRep n) g trivial⟩

/-- SE2: principal angle; the closed-form branch (`θ² ≥ eps2`) or exactly `θ = 0`; for
    `rplus ∘ rminus` the same about the angle of the relative element `y = g⁻¹ ∘ g₂` -/
theorem se2_manifold_axioms :
    (∀ (g : Vec ℝ 4) (a : Vec ℝ 3), SE2.Unit g → -Real.pi < a 2 → a 2 ≤ Real.pi →
      (¬ a 2 * a 2 < Scalar.eps2 ∨ a 2 = 0) →
      (SE2.model : LieModel ℝ).rminus ((SE2.model : LieModel ℝ).rplus g a) g = a) ∧
    (∀ g g2 : Vec ℝ 4, SE2.Unit g → SE2.Unit g2 →
      (let y := SE2.composition (SE2.inverse g) g2
       ¬ Complex.arg ⟨y 3, y 2⟩ * Complex.arg ⟨y 3, y 2⟩ < Scalar.eps2 ∨ (y 2 = 0 ∧ y 3 = 1)) →
      (SE2.model : LieModel ℝ).rplus g ((SE2.model : LieModel ℝ).rminus g2 g) = g2) ∧
    (∀ g : Vec ℝ 4, SE2.Unit g → (SE2.model : LieModel ℝ).rminus g g = vzero 3) := by
  refine ⟨?_, ?_, ?_⟩
  · intro g a hg h1 h2 hb
    refine matrix_rminus_rplus SE2.isMatrixGroup se2_canonRep g a hg (se2_exp_unit a) trivial ?_
    rcases hb with hb | hb
    · exact C02.se2_log_exp a h1 h2 hb
    · exact C02.se2_log_exp_zero a hb
  · intro g g2 hg hg2 hb
    refine matrix_rplus_rminus SE2.isMatrixGroup se2_canonRep g g2 hg hg2 trivial ?_
    have hy : SE2.Unit (SE2.composition (SE2.inverse g) g2) :=
      SE2.isMatrixGroup.valid_composition _ _ (SE2.isMatrixGroup.valid_inverse g hg) hg2
    rcases hb with hb | hb
    · have hy' : (SE2.composition (SE2.inverse g) g2) 2 * (SE2.composition (SE2.inverse g) g2) 2
          + (SE2.composition (SE2.inverse g) g2) 3 * (SE2.composition (SE2.inverse g) g2) 3 = 1 := by
        unfold SE2.Unit at hy; nlinarith [hy]
      exact C02.se2_exp_log (SE2.composition (SE2.inverse g) g2) hy' hb
    · exact C02.se2_exp_log_zero (SE2.composition (SE2.inverse g) g2) hb.1 hb.2
  · intro g hg
    exact matrix_rminus_self SE2.isMatrixGroup se2_canonRep g hg

/-- SO3: unit quaternions; `SO3Dom a` = closed-form branch of `exp` and of `log ∘ exp`, `‖a‖ < π`;
    for `rplus ∘ rminus`: the target has `w > 0` (at `w = 0`, a half turn, the result can be the
    other quaternion `−g₂` of the same rotation) and the relative rotation is in the closed-form
    branch of `log` -/
theorem so3_manifold_axioms :
    (∀ (g : Vec ℝ 4) (a : Vec ℝ 3), SO3.Unit g → SO3Dom a →
      (SO3.model : LieModel ℝ).rminus ((SO3.model : LieModel ℝ).rplus g a) g = a) ∧
    (∀ g g2 : Vec ℝ 4, SO3.Unit g → SO3.Unit g2 → 0 < g2 3 →
      ¬ C02.xyz2 (SO3.composition (SO3.inverse g) g2) < Scalar.eps2 →
      (SO3.model : LieModel ℝ).rplus g ((SO3.model : LieModel ℝ).rminus g2 g) = g2) ∧
    (∀ g : Vec ℝ 4, SO3.Unit g → (SO3.model : LieModel ℝ).rminus g g = vzero 3) := by
  refine ⟨?_, ?_, ?_⟩
  · intro g a hg hd
    exact matrix_rminus_rplus SO3.isMatrixGroup so3_canonRep g a hg (so3_exp_unit a hd.1)
      (so3_exp_w_pos a hd.1 hd.2.2) (C02.so3_log_exp a hd.1 hd.2.1 hd.2.2)
  · intro g g2 hg hg2 hs hb
    refine matrix_rplus_rminus SO3.isMatrixGroup so3_canonRep g g2 hg hg2 hs ?_
    have hy : SO3.Unit (SO3.composition (SO3.inverse g) g2) :=
      SO3.unit_composition _ _ (SO3.unit_inverse g hg) hg2
    exact C02.so3_exp_log _ (unitQ_of_so3Unit _ hy) (SO3.canon_composition _ _) hb
  · intro g hg
    exact matrix_rminus_self SO3.isMatrixGroup so3_canonRep g hg

/-- SE3: unit rotation part; `RotDom ω` for the rotation part `ω` of the tangent -/
theorem se3_manifold_axioms :
    (∀ (g : Vec ℝ 7) (a : Vec ℝ 6), SE3.Unit g → RotDom (SE3.tw a) →
      (SE3.model : LieModel ℝ).rminus ((SE3.model : LieModel ℝ).rplus g a) g = a) ∧
    (∀ g g2 : Vec ℝ 7, SE3.Unit g → SE3.Unit g2 → 0 < (SE3.so3 g2) 3 →
      ¬ C02.xyz2 (SE3.so3 (SE3.composition (SE3.inverse g) g2)) < Scalar.eps2 →
      (SE3.model : LieModel ℝ).rplus g ((SE3.model : LieModel ℝ).rminus g2 g) = g2) ∧
    (∀ g : Vec ℝ 7, SE3.Unit g → (SE3.model : LieModel ℝ).rminus g g = vzero 6) := by
  refine ⟨?_, ?_, ?_⟩
  · intro g a hg hd
    have hnb : ¬ sqNorm (SE3.tw a) < Scalar.eps2 := not_lt.mpr hd.1.le
    refine matrix_rminus_rplus SE3.isMatrixGroup se3_canonRep g a hg ?_ ?_
      (C02.se3_log_exp a hd.1 hd.2.1 hd.2.2)
    · show SO3.Unit (SE3.so3 (SE3.exp a))
      rw [se3_so3_exp]; exact so3_exp_unit _ hnb
    · show 0 < (SE3.so3 (SE3.exp a)) 3
      rw [se3_so3_exp]; exact so3_exp_w_pos _ hnb hd.2.2
  · intro g g2 hg hg2 hs hb
    refine matrix_rplus_rminus SE3.isMatrixGroup se3_canonRep g g2 hg hg2 hs ?_
    have hy : SE3.Unit (SE3.composition (SE3.inverse g) g2) :=
      SE3.unit_composition _ _ (SE3.unit_inverse g hg) hg2
    exact C02.se3_exp_log _ (unitQ_of_so3Unit _ hy) (se3_canon_comp _ _) hb
  · intro g hg
    exact matrix_rminus_self SE3.isMatrixGroup se3_canonRep g hg

/-- Galilei -/
theorem galilei_manifold_axioms :
    (∀ (g : Vec ℝ 11) (a : Vec ℝ 10), Galilei.Unit g → RotDom (Galilei.tw a) →
      (Galilei.model : LieModel ℝ).rminus ((Galilei.model : LieModel ℝ).rplus g a) g = a) ∧
    (∀ g g2 : Vec ℝ 11, Galilei.Unit g → Galilei.Unit g2 → 0 < (Galilei.gq g2) 3 →
      ¬ C02.xyz2 (Galilei.gq (Galilei.composition (Galilei.inverse g) g2)) < Scalar.eps2 →
      (Galilei.model : LieModel ℝ).rplus g ((Galilei.model : LieModel ℝ).rminus g2 g) = g2) ∧
    (∀ g : Vec ℝ 11, Galilei.Unit g → (Galilei.model : LieModel ℝ).rminus g g = vzero 10) := by
  refine ⟨?_, ?_, ?_⟩
  · intro g a hg hd
    have hnb : ¬ sqNorm (Galilei.tw a) < Scalar.eps2 := not_lt.mpr hd.1.le
    refine matrix_rminus_rplus Galilei.isMatrixGroup galilei_canonRep g a hg ?_ ?_
      (C02.galilei_log_exp a hd.1 hd.2.1 hd.2.2)
    · show SO3.Unit (Galilei.gq (Galilei.exp a))
      rw [gal_gq_exp]; exact so3_exp_unit _ hnb
    · show 0 < (Galilei.gq (Galilei.exp a)) 3
      rw [gal_gq_exp]; exact so3_exp_w_pos _ hnb hd.2.2
  · intro g g2 hg hg2 hs hb
    refine matrix_rplus_rminus Galilei.isMatrixGroup galilei_canonRep g g2 hg hg2 hs ?_
    have hy : Galilei.Unit (Galilei.composition (Galilei.inverse g) g2) :=
      Galilei.unit_composition _ _ (Galilei.unit_inverse g hg) hg2
    exact C02.galilei_exp_log _ (unitQ_of_so3Unit _ hy) (galilei_canon_comp _ _) hb
  · intro g hg
    exact matrix_rminus_self Galilei.isMatrixGroup galilei_canonRep g hg

/-- SE_K_3 for every K -/
theorem sek3_manifold_axioms (k : Nat) :
    (∀ (g : Vec ℝ (4 + 3 * k)) (a : Vec ℝ (3 + 3 * k)), SEK3.Unit k g → RotDom (SEK3.tw k a) →
      (SEK3.model k : LieModel ℝ).rminus ((SEK3.model k : LieModel ℝ).rplus g a) g = a) ∧
    (∀ g g2 : Vec ℝ (4 + 3 * k), SEK3.Unit k g → SEK3.Unit k g2 → 0 < (SEK3.gq k g2) 3 →
      ¬ C02.xyz2 (SEK3.gq k (SEK3.composition k (SEK3.inverse k g) g2)) < Scalar.eps2 →
      (SEK3.model k : LieModel ℝ).rplus g ((SEK3.model k : LieModel ℝ).rminus g2 g) = g2) ∧
    (∀ g : Vec ℝ (4 + 3 * k), SEK3.Unit k g →
      (SEK3.model k : LieModel ℝ).rminus g g = vzero (3 + 3 * k)) := by
  refine ⟨?_, ?_, ?_⟩
  · intro g a hg hd
    have hnb : ¬ sqNorm (SEK3.tw k a) < Scalar.eps2 := not_lt.mpr hd.1.le
    refine matrix_rminus_rplus (SEK3.isMatrixGroup k) (sek3_canonRep k) g a hg ?_ ?_
      (C02.sek3_log_exp k a hd.1 hd.2.1 hd.2.2)
    · show SO3.Unit (SEK3.gq k (SEK3.exp k a))
      rw [sek3_gq_exp]; exact so3_exp_unit _ hnb
    · show 0 < (SEK3.gq k (SEK3.exp k a)) 3
      rw [sek3_gq_exp]; exact so3_exp_w_pos _ hnb hd.2.2
  · intro g g2 hg hg2 hs hb
    refine matrix_rplus_rminus (SEK3.isMatrixGroup k) (sek3_canonRep k) g g2 hg hg2 hs ?_
    have hy : SEK3.Unit k (SEK3.composition k (SEK3.inverse k g) g2) :=
      SEK3.unit_composition k _ _ (SEK3.unit_inverse k g hg) hg2
    exact C02.sek3_exp_log k _ (unitQ_of_so3Unit _ hy) (sek3_canon_comp k _ _) hb
  · intro g hg
    exact matrix_rminus_self (SEK3.isMatrixGroup k) (sek3_canonRep k) g hg

/-- `Bundle<Gs...>`: the axioms of any list of parts lift to the Bundle (validity, domain and
    compatibility part by part on the prefix-sum layout), by induction over the list -/
theorem bundle_manifold_axioms (ps : List AModel)
    (h : ∀ p ∈ ps, LieAxioms p.G p.Valid p.Dom p.Compat) :
    LieAxioms (Bundle.bundle (ps.map AModel.G)) (bundleValidA ps) (bundleDomA ps) (bundleCompatA ps) :=
  bundle_lieAxioms ps h

/-! ### non-vacuity of the SO3 hypotheses and the concrete adaptor corollaries -/

/-- the tangent `(1, 0, 0)` (a rotation by 1 rad) satisfies `SO3Dom`, hence `RotDom` -/
theorem so3Dom_e1 : SO3Dom (mk3 1 0 0) ∧ RotDom (mk3 1 0 0) := by
  have hn : sqNorm (mk3 (1 : ℝ) 0 0) = 1 := by rw [C02.sqNorm3]; simp [mk3]
  have hclosed : ¬ sqNorm (mk3 (1 : ℝ) 0 0) < Scalar.eps2 := by
    rw [hn, C02.scalar_eps2]; norm_num
  have hpi : Real.sqrt (sqNorm (mk3 (1 : ℝ) 0 0)) < Real.pi := by
    rw [hn, Real.sqrt_one]; linarith [Real.pi_gt_three]
  have hc : 0 < Real.cos (1 / 2) := by
    apply Real.cos_pos_of_mem_Ioo
    constructor <;> linarith [Real.pi_gt_three]
  have hs : (15 : ℝ) / 32 < Real.sin (1 / 2) := by
    have := Real.sin_gt_sub_cube (x := 1 / 2) (by norm_num)
    norm_num at this ⊢
    linarith
  have hx : ¬ C02.xyz2 (SO3.exp (mk3 (1 : ℝ) 0 0)) < Scalar.eps2 := by
    rw [C02.so3_exp_eq_closed _ hclosed]
    unfold C02.so3ExpClosed
    simp only [hn, Real.sqrt_one]
    rw [SO3.canon_of_nonneg _ (by simpa [mk4, Vec.of] using hc.le)]
    simp only [C02.xyz2, mk4, mk3, Vec.of_get, C02.scalar_eps2]
    norm_num
    nlinarith [hs]
  refine ⟨⟨hclosed, hx, hpi⟩, ⟨?_, hx, hpi⟩⟩
  rw [hn, C02.scalar_eps2]; norm_num

/-- `std::vector<SO3>`: all axioms, element by element -/
theorem vector_so3_manifold_axioms (u : Nat → ℝ) :
    ManLaws (vector (ofLie (SO3.model : LieModel ℝ)) u) (fun ms => ∀ m ∈ ms, SO3.Unit m)
      (DomSegs (ofLie (SO3.model : LieModel ℝ))
        (fun g a => RoundTripDom (SO3.model : LieModel ℝ) SO3.Unit (fun q : Vec ℝ 4 => 0 < q 3) g (vecOfList a)))
      (List.Forall₂ (RoundTripCompat (SO3.model : LieModel ℝ) (fun q : Vec ℝ 4 => 0 < q 3))) :=
  vector_axioms_lift (matrix_group_manifold_axioms SO3.isMatrixGroup so3_canonRep)
    (by intro d hd m; simp [ofLie] at hd; exact hd) u

/-- `SubManifold<SE3>` -/
theorem sub_se3_manifold_axioms :
    ManLaws (sub (ofLie (SE3.model : LieModel ℝ)))
      (SubValid (ofLie (SE3.model : LieModel ℝ)) SE3.Unit)
      (SubDom (ofLie (SE3.model : LieModel ℝ))
        (fun g a => RoundTripDom (SE3.model : LieModel ℝ) SE3.Unit
          (fun g : Vec ℝ 7 => 0 < (SE3.so3 g) 3) g (vecOfList a)))
      (SubCompat (ofLie (SE3.model : LieModel ℝ))
        (RoundTripCompat (SE3.model : LieModel ℝ) (fun g : Vec ℝ 7 => 0 < (SE3.so3 g) 3))) :=
  sub_axioms_lift (matrix_group_manifold_axioms SE3.isMatrixGroup se3_canonRep)

/-- `std::vector<SubManifold<SE2>>` (adaptors compose) -/
theorem vector_sub_se2_manifold_axioms (u : Nat → ℝ) :
    ∃ V D C, ManLaws (vector (sub (ofLie (SE2.model : LieModel ℝ))) u) V D C :=
  ⟨_, _, _, vector_axioms_lift
    (sub_axioms_lift (matrix_group_manifold_axioms SE2.isMatrixGroup se2_canonRep))
    (by intro d hd; simp [sub] at hd) u⟩

/-- the SO3 round-trip domain is implied by the C02 hypotheses plus `w > 0` of the result -/
theorem so3_roundTripDom (g : Vec ℝ 4) (a : Vec ℝ 3) (hd : SO3Dom a)
    (hs : 0 < (SO3.composition g (SO3.exp a)) 3) :
    RoundTripDom (SO3.model : LieModel ℝ) SO3.Unit (fun q : Vec ℝ 4 => 0 < q 3) g a :=
  ⟨so3_exp_unit a hd.1, so3_exp_w_pos a hd.1 hd.2.2, C02.so3_log_exp a hd.1 hd.2.1 hd.2.2, hs⟩

-- non-vacuity: at the identity, the tangent (1,0,0) is in the round-trip domain
example : RoundTripDom (SO3.model : LieModel ℝ) SO3.Unit (fun q : Vec ℝ 4 => 0 < q 3)
    (SO3.identity : Vec ℝ 4) (mk3 1 0 0) := by
  refine so3_roundTripDom _ _ so3Dom_e1.1 ?_
  -- identity ∘ exp a = canon (exp a) = exp a, whose w is positive
  have hw := so3_exp_w_pos (mk3 (1 : ℝ) 0 0) so3Dom_e1.1.1 so3Dom_e1.1.2.2
  have hu := so3_exp_unit (mk3 (1 : ℝ) 0 0) so3Dom_e1.1.1
  have : SO3.composition (SO3.identity : Vec ℝ 4) (SO3.exp (mk3 1 0 0)) = SO3.exp (mk3 1 0 0) := by
    apply so3_matrix_inj _ _ (SO3.unit_composition _ _ SO3.unit_identity hu) hu
      (SO3.canon_composition _ _) hw
    rw [SO3.matrix_composition _ _ SO3.unit_identity hu, SO3.matrix_identity, ident_mmul]
  rw [this]; exact hw


end C07
