/-
  C07 — Manifold axioms hold for every Manifold model (property theorems).

  Objects: `Manif.Man` (what `traits::man<M>` offers) and the adaptors of SmoothModel/Manifold.lean,
  which are the executable model tied to the implementation by the correspondence check.
  `ManLaws A Valid Dom Compat` (SmoothProofs/C07Vector.lean) is the conjunction of the axioms of the
  property for the model `A`:
      rminus (rplus m a) m = a   (a in the injectivity domain `Dom`, |a| = dof m),
      rplus m (rminus m₂ m) = m₂,   rminus m m = 0,
      dof m = length accepted by rplus = length returned by rminus,
  relative to `Valid` (representation invariant) and `Compat` (operands of one shape).
  Partial: rounding (audited on every run), the injectivity radius in floating point.
-/
import SmoothProofs.C07Laws

open Scalar Lin Manif

set_option linter.unusedSectionVars false
set_option linter.unusedSimpArgs false

namespace C07
variable {α : Type} [Scalar α]

/-! ## Lie groups: `traits::man<G>` -/

/-- abstract form: any group with `log ∘ exp = id` on `D` -/
theorem group_rminus_rplus {G T : Type} [Group G] (exp : T → G) (log : G → T) (D : Set T)
    (hle : ∀ a ∈ D, log (exp a) = a) (m : G) (a : T) (ha : a ∈ D) :
    log (m⁻¹ * (m * exp a)) = a := abstract_rminus_rplus exp log D hle m a ha

theorem group_rplus_rminus {G T : Type} [Group G] (exp : T → G) (log : G → T)
    (hel : ∀ g, exp (log g) = g) (m m2 : G) : m * exp (log (m⁻¹ * m2)) = m2 :=
  abstract_rplus_rminus exp log hel m m2

theorem group_rminus_self {G T : Type} [Group G] [Zero T] (exp : T → G) (log : G → T) (D : Set T)
    (hle : ∀ a ∈ D, log (exp a) = a) (h0 : (0 : T) ∈ D) (he0 : exp 0 = 1) (m : G) :
    log (m⁻¹ * m) = 0 := abstract_rminus_self exp log D hle h0 he0 m

/-- the model's groups: for every group model satisfying the group laws on `Valid` (C01) and
    `log (exp a) = a` on `D`, `exp (log g) = g` (C02) -/
theorem rminus_rplus {G : LieModel α} {Valid : Vec α G.rep → Prop} {D : Vec α G.dof → Prop}
    (h : LieLaws G Valid D) (g : Vec α G.rep) (a : Vec α G.dof) (hg : Valid g) (ha : D a) :
    G.rminus (G.rplus g a) g = a := lie_rminus_rplus h g a hg ha

theorem rplus_rminus {G : LieModel α} {Valid : Vec α G.rep → Prop} {D : Vec α G.dof → Prop}
    (h : LieLaws G Valid D) (g g2 : Vec α G.rep) (hg : Valid g) (hg2 : Valid g2) :
    G.rplus g (G.rminus g2 g) = g2 := lie_rplus_rminus h g g2 hg hg2

theorem rminus_self {G : LieModel α} {Valid : Vec α G.rep → Prop} {D : Vec α G.dof → Prop}
    (h : LieLaws G Valid D) (g : Vec α G.rep) (hg : Valid g) : G.rminus g g = vzero G.dof :=
  lie_rminus_self h g hg

/-- the Manifold interface of a Lie group satisfies all axioms (incl. the tangent lengths) -/
theorem lie_manifold_axioms {G : LieModel α} {Valid : Vec α G.rep → Prop} {D : Vec α G.dof → Prop}
    (h : LieLaws G Valid D) :
    ManLaws (ofLie G) Valid (fun _ a => D (vecOfList a)) (fun _ _ => True) := lie_laws h

-- non-vacuity: `Eigen::Vector<N>` over ℝ satisfies the hypotheses, with D = everything
example (n : Nat) : LieLaws (Tn.model n : LieModel ℝ) (fun _ => True) (fun _ => True) := tn_lieLaws n
example : (Tn.model 2 : LieModel ℝ).rminus ((Tn.model 2 : LieModel ℝ).rplus (mk2 1 2) (mk2 3 5)) (mk2 1 2)
    = mk2 3 5 := rminus_rplus (tn_lieLaws 2) _ _ trivial trivial

/-! ## `std::vector<M>` -/

/-- `dof(v) = Σ dof(vᵢ)` (both branches of the code: `size·Dof` and `accumulate`) -/
theorem dof_vector {M : Type} (A : Man α M) (hs : DofStatic A) (u : Nat → α) (ms : List M) :
    (vector A u).dof ms = (ms.map A.dof).sum := vectorDof_eq_sum A hs ms

/-- `rplus` acts element-wise on consecutive tangent segments: the dof-counter loop equals the
    split of `a` into pieces of lengths `dof vᵢ` (all lists, including `[]`) -/
theorem vector_rplus_concat {M : Type} (A : Man α M) (u : Nat → α) (ms : List M) (a : List α) :
    (vector A u).rplus ms a = specRplus A ms a := vectorRplus_eq_spec A ms a

/-- `rminus` of equally long vectors is the concatenation of the element differences, whatever
    the uninitialised return buffer held -/
theorem vector_rminus_concat {M : Type} (A : Man α M) (hs : DofStatic A) (u : Nat → α)
    {m1 m2 : List M} (h : PairsOk A m1 m2) : (vector A u).rminus m1 m2 = specRminus A m1 m2 :=
  vectorRminus_eq_spec A hs u h

/-- zip semantics: when the second vector is shorter only the common prefix is written; the
    rest of the returned vector is whatever the uninitialised memory held -/
theorem vector_rminus_shorter_second {M : Type} (A : Man α M) (u : Nat → α) (m : M) :
    A.sdof = none → (vector A u).rminus [m] [] = .ok ((List.range (A.dof m)).map u) := by
  intro h
  change vectorRminus A u [m] [] = _
  simp [vectorRminus, vectorRminusLoop, vectorRminusSize, h, pure, Except.pure]

/-- the axioms lift element-wise -/
theorem vector_axioms_lift {M : Type} {A : Man α M} {Valid : M → Prop} {Dom : M → List α → Prop}
    {Compat : M → M → Prop} (hA : ManLaws A Valid Dom Compat) (hs : DofStatic A) (u : Nat → α) :
    ManLaws (vector A u) (fun ms => ∀ m ∈ ms, Valid m) (DomSegs A Dom) (List.Forall₂ Compat) :=
  vector_laws hA hs u

-- non-vacuity: std::vector<Eigen::Vector2d>, and the nested std::vector<std::vector<…>>
example : ManLaws (vector (ofLie (Tn.model 2 : LieModel ℝ)))
    (fun ms => ∀ m ∈ ms, True) (DomSegs (ofLie (Tn.model 2 : LieModel ℝ)) (fun _ _ => True))
    (List.Forall₂ (fun _ _ => True)) :=
  vector_axioms_lift (lie_laws (tn_lieLaws 2)) (by intro d hd m; simp [ofLie] at hd; exact hd) _
example : (vector (scalar : Man ℝ ℝ)).rplus [1, 2, 3] [10, 20, 30] = [11, 22, 33] := by
  simp [vector_rplus_concat, specRplus, scalar]; norm_num

/-! ## `SubManifold<M>` -/

/-- the constructor sorts: any duplicate-free list of fixed dims becomes the strictly increasing
    list with the same members -/
theorem ctor_sorts {M : Type} (m0 m : M) (fixed : List Nat) (h : fixed.Nodup) :
    (SubMan.ctor m0 m fixed).fixed.Pairwise (· < ·) ∧
      (∀ x, x ∈ (SubMan.ctor m0 m fixed).fixed ↔ x ∈ fixed) ∧
      (SubMan.ctor m0 m fixed).fixed.length = fixed.length :=
  ⟨isort_pairwise_lt fixed h, isort_mem fixed, isort_length fixed⟩

/-- for every strictly increasing `fixed ⊆ [0,n)`: the free coordinates survive scatter + gather -/
theorem gather_scatter (n : Nat) (fixed : List Nat) (a : List α) (hf : FixedIn 0 n fixed)
    (hl : a.length + fixed.length = n) : gather fixed (scatter n fixed a) = a :=
  gatherLoop_scatterLoop _ n 0 fixed a hf hl

/-- the lifted tangent is zero on every fixed coordinate: SubManifold moves only along its free
    directions -/
theorem scatter_zero_on_fixed (n : Nat) (fixed : List Nat) (a : List α) (hf : FixedIn 0 n fixed) :
    ∀ f ∈ fixed, (scatter n fixed a)[f]? = some (nat 0 : α) := by
  intro f hfm
  have := scatterLoop_zero_on_fixed (nat 0 : α) n 0 fixed a hf f hfm
  simpa [scatter] using this

/-- `rminus` reports `n − |fixed|` numbers -/
theorem length_gather (fixed : List Nat) (x : List α) (hf : FixedIn 0 x.length fixed) :
    (gather fixed x).length = x.length - fixed.length := by
  have := gatherLoop_length 0 fixed x hf
  simp only [gather]; omega

/-- `rplus` keeps the origin and the fixed dims -/
theorem m0_preserved {M : Type} (A : Man α M) (s : SubMan M) (a : List α)
    (hs : s.fixed.Pairwise (· < ·)) :
    ((sub A).rplus s a).m0 = s.m0 ∧ ((sub A).rplus s a).fixed = s.fixed :=
  ⟨rfl, isort_of_sorted _ hs⟩

/-- `rminus` reports differences only in the free coordinates: it is the gather of the
    difference in the embedding manifold -/
theorem sub_rminus_free_only {M : Type} (A : Man α M) (s o : SubMan M) (c : List α)
    (hc : A.rminus s.m o.m = .ok c) (hl : c.length = A.dof s.m0)
    (hf : FixedIn 0 (A.dof s.m0) s.fixed) :
    (sub A).rminus s o = .ok (gather s.fixed c) ∧
      (gather s.fixed c).length = A.dof s.m0 - s.fixed.length := by
  have hlen := length_gather s.fixed c (by rw [hl]; exact hf)
  rw [hl] at hlen
  refine ⟨?_, hlen⟩
  change subRminus A s o = _
  simp only [subRminus, hc, bind, Except.bind, pure, Except.pure]
  rw [fitZero_of_length _ _ (by simpa [subDof] using hlen)]

/-- all axioms, restricted to the free directions -/
theorem sub_axioms_lift {M : Type} {A : Man α M} {Valid : M → Prop} {Dom : M → List α → Prop}
    {Compat : M → M → Prop} (hA : ManLaws A Valid Dom Compat) :
    ManLaws (sub A) (SubValid A Valid) (SubDom A Dom) (SubCompat A Compat) := sub_laws hA

-- non-vacuity: n = 3, fixed = [1]
example : gather [1] (scatter 3 [1] ([5, 7] : List ℝ)) = [5, 7] :=
  gather_scatter 3 [1] [5, 7] ⟨by simp, by simp⟩ rfl
example : scatter 3 [1] ([5, 7] : List ℝ) = [5, 0, 7] := by
  simp [scatter, scatterLoop]
example : FixedIn 0 6 [0, 2, 5] := ⟨by simp, by simp⟩

/-! ## cast to the same scalar type -/

/-- the property's claim about `cast`: the result is the same value (hence an object that
    behaves identically under every operation of the model) -/
def cast_same_scalar_behaves_identically_statement {M : Type} (A : Man α M) (Valid : M → Prop) : Prop :=
  ∀ s, Valid s → ∀ c, A.cast s = .ok c → c = s

/-- `CastOk` (the cast succeeds and returns the same value) gives the statement -/
theorem cast_statement_of_castOk {M : Type} {A : Man α M} {Valid : M → Prop} (h : CastOk A Valid) :
    cast_same_scalar_behaves_identically_statement A Valid := by
  intro s hs c hc
  rw [h s hs] at hc
  exact (Except.ok.inj hc).symm

/-- Lie groups, Eigen vectors and scalars -/
theorem cast_same_scalar_behaves_identically_base (G : LieModel α) :
    CastOk (ofLie G) (fun _ => True) ∧ CastOk (scalar : Man α α) (fun _ => True) ∧
      CastOk (vecX : Man α (List α)) (fun _ => True) :=
  ⟨castOk_lie G, castOk_scalar, castOk_vecX⟩

/-- std::vector: element-wise -/
theorem cast_same_scalar_behaves_identically_vector {M : Type} {A : Man α M} {Valid : M → Prop}
    (hA : CastOk A Valid) (u : Nat → α) : CastOk (vector A u) (fun ms => ∀ m ∈ ms, Valid m) :=
  castOk_vector A hA u

/-- std::variant: the held alternative -/
theorem cast_same_scalar_behaves_identically_variant {ι : Type} [DecidableEq ι] {Ms : ι → Type}
    {A : ∀ i, Man α (Ms i)} {Valid : ∀ i, Ms i → Prop} (hA : ∀ i, CastOk (A i) (Valid i)) (first : ι) :
    CastOk (variant A first) (fun v => Valid v.1 v.2) := castOk_variant hA first

/-- **SubManifold**: the cast to the same scalar type is the identity on `(m0, m, fixed)` -/
theorem cast_same_scalar_behaves_identically_submanifold {M : Type} {A : Man α M} {Valid : M → Prop}
    (hA : CastOk A Valid) : CastOk (sub A) (SubValid A Valid) := castOk_sub A hA

/-- hence the full statement for SubManifold (and, by the lifts above, for every nesting of
    vector / variant / SubManifold over groups, vectors and scalars) -/
theorem cast_same_scalar_behaves_identically {M : Type} {A : Man α M} {Valid : M → Prop}
    (hA : CastOk A Valid) :
    cast_same_scalar_behaves_identically_statement (sub A) (SubValid A Valid) :=
  cast_statement_of_castOk (castOk_sub A hA)

/-- AnyManifold does not support casting (it throws): the statement holds vacuously there -/
theorem cast_same_scalar_any_vacuous {ι : Type} [DecidableEq ι] {Ms : ι → Type}
    (A : ∀ i, Man α (Ms i)) (Valid : (Σ i, Ms i) → Prop) :
    cast_same_scalar_behaves_identically_statement (any A) Valid := by
  intro s _ c h
  simp [any] at h

/-- sensitivity of the statement: with the argument order of the tree before commit 9680871
    (`(cast m, cast m0, fixed)` into the `(m0, m, fixed)` constructor) origin and value come back
    exchanged, and the cast is not the identity (witness: origin 0, value 1) -/
theorem swapped_cast_is_not_identity :
    (∀ {M : Type} (A : Man α M) (s : SubMan M), (∀ m : M, A.cast m = .ok m) →
      ∃ c, subCastSwapped A s = .ok c ∧ c.m0 = s.m ∧ c.m = s.m0) ∧
    subCastSwapped (scalar : Man ℝ ℝ) ⟨0, 1, []⟩ ≠ .ok ⟨0, 1, []⟩ := by
  refine ⟨?_, ?_⟩
  · intro M A s hid
    obtain ⟨c, hc, h0, h1, _⟩ := subCastSwapped_swaps A s s.m s.m0 (hid _) (hid _)
    exact ⟨c, hc, h0, h1⟩
  · intro h
    simp [subCastSwapped, scalar, SubMan.ctor, isort, bind, Except.bind, pure, Except.pure] at h

-- non-vacuity: SubManifold<std::vector<Eigen::Vector3d>> over ℝ, and a concrete value
example : CastOk (sub (vector (ofLie (Tn.model 3 : LieModel ℝ))))
    (SubValid (vector (ofLie (Tn.model 3 : LieModel ℝ))) (fun ms => ∀ m ∈ ms, True)) :=
  cast_same_scalar_behaves_identically_submanifold
    (cast_same_scalar_behaves_identically_vector (castOk_lie _) _)
example : (sub (scalar : Man ℝ ℝ)).cast ⟨0, 1, []⟩ = .ok ⟨0, 1, []⟩ :=
  cast_same_scalar_behaves_identically_submanifold castOk_scalar _
    ⟨trivial, trivial, rfl, ⟨List.Pairwise.nil, by simp⟩⟩

/-! ## `std::variant` and `AnyManifold` -/

theorem variant_axioms_lift {ι : Type} [DecidableEq ι] {Ms : ι → Type} {A : ∀ i, Man α (Ms i)}
    {Valid : ∀ i, Ms i → Prop} {Dom : ∀ i, Ms i → List α → Prop} {Compat : ∀ i, Ms i → Ms i → Prop}
    (hA : ∀ i, ManLaws (A i) (Valid i) (Dom i) (Compat i)) (first : ι) :
    ManLaws (variant A first) (fun v => Valid v.1 v.2) (fun v a => Dom v.1 v.2 a)
      (SigmaCompat Compat) := variant_laws hA first

theorem variant_rminus_across_alternatives_throws {ι : Type} [DecidableEq ι] {Ms : ι → Type}
    (A : ∀ i, Man α (Ms i)) (first : ι) (v w : Σ i, Ms i) (h : w.1 ≠ v.1) :
    (variant A first).rminus v w = .error "bad_variant_access" := variant_rminus_mismatch first v w h

theorem any_axioms_lift {ι : Type} [DecidableEq ι] {Ms : ι → Type} {A : ∀ i, Man α (Ms i)}
    {Valid : ∀ i, Ms i → Prop} {Dom : ∀ i, Ms i → List α → Prop} {Compat : ∀ i, Ms i → Ms i → Prop}
    (hA : ∀ i, ManLaws (A i) (Valid i) (Dom i) (Compat i)) :
    ManLaws (any A) (fun v => Valid v.1 v.2) (fun v a => Dom v.1 v.2 a) (SigmaCompat Compat) :=
  any_laws hA

/-- the error branch: `AnyManifold()`, `Default` and `cast` throw -/
theorem any_default_and_cast_throw {ι : Type} [DecidableEq ι] {Ms : ι → Type} (A : ∀ i, Man α (Ms i))
    (v : Σ i, Ms i) (n : Nat) :
    (any A).cast v = .error "AnyManifold: cast not supported" ∧
      (any A).default n = .error "AnyManifold: default not supported" ∧
      (anyDefaultCtor : Except String (Σ i, Ms i)) = .error "Can not default-construct" :=
  ⟨rfl, rfl, rfl⟩

/-- copies of an `AnyManifold` are independent objects holding the same value -/
theorem copy_independent {V : Type} (h h' : AnyHeap.Heap V) (a c : AnyHeap.Handle)
    (hc : AnyHeap.copy h a = some (h', c)) :
    AnyHeap.read h' c = AnyHeap.read h a ∧ c ≠ a ∧
      (∀ v, AnyHeap.read (AnyHeap.write h' c v) a = AnyHeap.read h a) ∧
      (∀ v, AnyHeap.read (AnyHeap.write h' a v) c = AnyHeap.read h a) :=
  Heap.copy_independent h h' a c hc

-- non-vacuity: a copy exists whenever the source holds a value; and sharing the pointer instead
-- of cloning would break independence
example : AnyHeap.copy (⟨[7]⟩ : AnyHeap.Heap Nat) ⟨some 0⟩ = some (⟨[7, 7]⟩, ⟨some 1⟩) := rfl
example : ∃ (h : AnyHeap.Heap Nat) (a : AnyHeap.Handle) (v : Nat),
    AnyHeap.read (AnyHeap.write (AnyHeap.shallowCopy h a).1 (AnyHeap.shallowCopy h a).2 v) a
      ≠ AnyHeap.read h a := Heap.shallowCopy_not_independent

-- the adaptors compose: std::vector<SubManifold<std::variant-free Eigen::Vector3d>> over ℝ
example : ∃ V D C, ManLaws (vector (sub (ofLie (Tn.model 3 : LieModel ℝ)))) V D C :=
  ⟨_, _, _, vector_axioms_lift (sub_axioms_lift (lie_laws (tn_lieLaws 3)))
    (by intro d hd; simp [sub] at hd) _⟩

end C07
