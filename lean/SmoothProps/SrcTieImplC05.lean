/-
  SrcTieImplC05 — source ties (see SrcTieImpl.lean) for d2r_exp, d2r_expinv (SE2, SO3).
-/
import SmoothProps.SrcTieImpl

open Scalar Lin EigenSem

namespace SrcTieImpl
variable {α : Type} [Scalar α]

set_option maxRecDepth 4096 in
theorem se2_d2r_exp (a : Vec α 3) : ImplSrc.SE2.d2r_exp a = SE2.d2r_exp a := by
  simp only [SE2.d2r_exp, memoM_eq]; tie_mat
set_option maxRecDepth 4096 in
theorem se2_d2r_expinv (a : Vec α 3) : ImplSrc.SE2.d2r_expinv a = SE2.d2r_expinv a := by
  simp only [SE2.d2r_expinv, memoM_eq]; tie_mat
set_option maxRecDepth 4096 in
theorem so3_d2r_exp (a : Vec α 3) : ImplSrc.SO3.d2r_exp a = SO3.d2r_exp a := by
  simp only [SO3.d2r_exp, memoM_eq]; tie_mat
set_option maxRecDepth 4096 in
theorem so3_d2r_expinv (a : Vec α 3) : ImplSrc.SO3.d2r_expinv a = SO3.d2r_expinv a := by
  simp only [SO3.d2r_expinv, memoM_eq]; tie_mat

end SrcTieImpl
