/-
  SrcTieImplC05 — source ties (see SrcTieImpl.lean) for d2r_exp, d2r_expinv (SE2, SO3, SE3) and
  SE3 calculate_Q_dQ.
-/
import SmoothProps.SrcTieImplC04

open Scalar Lin EigenSem

set_option linter.unusedSectionVars false
namespace SrcTieImpl
variable {α : Type} [Scalar α]

set_option maxRecDepth 4096 in
theorem se2_d2r_exp (a : Vec α 3) : ImplSrc.SE2.d2r_exp a = SE2.d2r_exp a := by
  simp only [SE2.d2r_exp, memoM_eq]; tie_mat
set_option maxRecDepth 4096 in
theorem se2_d2r_expinv (a : Vec α 3) : ImplSrc.SE2.d2r_expinv a = SE2.d2r_expinv a := by
  simp only [SE2.d2r_expinv, memoM_eq]; tie_mat
set_option maxRecDepth 4096 in
theorem so3_d2r_exp (a : Vec α 3) : ImplSrc.SO3.d2r_exp a = SO3.d2r_exp a := by
  simp only [SO3.d2r_exp, memoM_eq]; tie_mat
set_option maxRecDepth 4096 in
theorem so3_d2r_expinv (a : Vec α 3) : ImplSrc.SO3.d2r_expinv a = SO3.d2r_expinv a := by
  simp only [SO3.d2r_expinv, memoM_eq]; tie_mat

/-! SE3: `calculate_Q_dQ` whole (the pair `(Q, dQ)`: coefficient lambda, `PA PB PC`, the 3×18 table and the nine
    column updates), `d2r_exp`, `d2r_expinv` (the latter through the opaque callee `d_matrix_product`, mapped to the
    hand model `Derivs.d_matrix_product`) -/
set_option maxRecDepth 8192 in
theorem se3_calculate_Q_dQ_1 (a : Vec α 6) : (ImplSrc.SE3.calculate_Q_dQ a).1 = (SE3.calculate_Q_dQ a).1 := by
  simp only [SE3.calculate_Q_dQ, SE3.PABC, memoM_eq]; tie_mat

set_option maxRecDepth 16384 in
set_option maxHeartbeats 4000000 in
theorem se3_calculate_Q_dQ_2 (a : Vec α 6) : (ImplSrc.SE3.calculate_Q_dQ a).2 = (SE3.calculate_Q_dQ a).2 := by
  simp only [SE3.calculate_Q_dQ, SE3.PABC, memoM_eq]; tie_mat

theorem se3_calculate_Q_dQ (a : Vec α 6) : ImplSrc.SE3.calculate_Q_dQ a = SE3.calculate_Q_dQ a :=
  Prod.ext (se3_calculate_Q_dQ_1 a) (se3_calculate_Q_dQ_2 a)

set_option maxRecDepth 16384 in
set_option maxHeartbeats 4000000 in
theorem se3_d2r_exp (a : Vec α 6) : ImplSrc.SE3.d2r_exp a = SE3.d2r_exp a := by
  simp only [ImplSrc.SE3.d2r_exp, SE3.d2r_exp, memoM_eq, so3_d2r_exp, se3_calculate_Q_dQ, tail3_tw]
  tie_mat

set_option maxRecDepth 16384 in
set_option maxHeartbeats 4000000 in
theorem se3_d2r_expinv (a : Vec α 6) : ImplSrc.SE3.d2r_expinv a = SE3.d2r_expinv a := by
  simp only [ImplSrc.SE3.d2r_expinv, SE3.d2r_expinv, memoM_eq, so3_d2r_expinv, so3_dr_expinv, se3_calculate_Q_dQ, tail3_tw]
  tie_mat

/-! ### generic layer: `d2r_exp`, `d2r_expinv`, `d2l_exp`, `d2l_expinv` of LieGroupBase; `d2r_rminus` (its loop over
`Dof` by induction, `forLoop_applyRightBlock`), `d2r_rminus_squarednorm` (through `d2_fog`, whose text is pinned and whose
hand model `Derivs.d2_fog` is tied by execution) of derivatives_impl.hpp (see SrcTieImpl.lean) -/
section base
variable (G : LieModel α)
theorem base_d2r_exp (h : G.ShortCut) (a : Vec α G.dof) : BaseSrc.d2r_exp G a = G.d2r_exp a := by
  unfold BaseSrc.d2r_exp
  cases hc : G.comm
  · rfl
  · exact (h.d2r_exp hc a).symm
theorem base_d2r_expinv (h : G.ShortCut) (a : Vec α G.dof) : BaseSrc.d2r_expinv G a = G.d2r_expinv a := by
  unfold BaseSrc.d2r_expinv
  cases hc : G.comm
  · rfl
  · exact (h.d2r_expinv hc a).symm
theorem base_d2l_exp (h : G.ShortCut) (a : Vec α G.dof) : BaseSrc.d2l_exp G a = G.d2l_exp a := by
  unfold BaseSrc.d2l_exp LieModel.d2l_exp; rw [base_d2r_exp G h]
theorem base_d2l_expinv (h : G.ShortCut) (a : Vec α G.dof) : BaseSrc.d2l_expinv G a = G.d2l_expinv a := by
  unfold BaseSrc.d2l_expinv LieModel.d2l_expinv; rw [base_d2r_expinv G h]
theorem derivs_d2r_rminus (h : G.ShortCut) (e : Vec α G.dof) : BaseSrc.d2r_rminus G e = Derivs.d2r_rminus G e := by
  simp only [BaseSrc.d2r_rminus, Derivs.d2r_rminus, memoM_eq, base_dr_expinv G h, base_d2r_expinv G h]
  exact forLoop_applyRightBlock _ _
theorem derivs_d2r_rminus_squarednorm (h : G.ShortCut) (e : Vec α G.dof) :
    BaseSrc.d2r_rminus_squarednorm G e = Derivs.d2r_rminus_squarednorm G e := by
  simp only [BaseSrc.d2r_rminus_squarednorm, Derivs.d2r_rminus_squarednorm, memoM_eq, derivs_dr_rminus G h,
    derivs_d2r_rminus G h]
  rfl
end base

end SrcTieImpl
