/- aggregator: property theorems of C08 plus the source-tie theorems of the logic regenerated from the C++ (tools/gen_logic2.py) -/
import SmoothProps.C08
import SmoothProps.SrcTieLogicC08
