/-
  SrcTieBundlePub — `include/smooth/bundle.hpp` (class `BundleBase`: `BundleSize`, `PartType<Idx>`, `PartStart<Idx>`,
  `PartDof<Idx>`, BOTH overloads of `part<Idx>()`; `liebase_info<Bundle<_Gs...>>::PartPlainObject`; the constructor of
  `Bundle` from parts), regenerated from the C++ source on every run (`SmoothModel/Gen/BundlePubSrc.lean`, written by
  tools/gen_bundle.py), agrees with the sub-view table `Mem.subview` of SmoothModel/Mem.lean the theorems of C16 are about
  (row `bundle.hpp: part<i> = data() + RepSizesPsum[i]`, length `RepSize` of part `i`) and with the prefix sums of C06.

  Theorem prefix `pub_`.  The mutable and the const overload are tied SEPARATELY (`pub_part_mut`, `pub_part_const`): a wrong
  offset in one of them leaves the other theorem intact and breaks its own.
-/
import SmoothProofs.BundleTie
import SmoothProofs.C06Psum
import SmoothProofs.C16Mem
import SmoothModel.Gen.BundlePubSrc
import SmoothProps.SrcTieBundle

open Scalar Lin BundleSem BundleTie Mem
set_option linter.unusedSectionVars false
set_option linter.unusedVariables false

namespace SrcTieBundlePub
variable {α : Type} [Scalar α]

theorem models_map_rep (ps : List GDesc) : (GDesc.models (α := α) ps).map LieModel.rep = ps.map repSize := by
  induction ps with
  | nil => rfl
  | cons p ps ih =>
    show (GDesc.model p).rep :: (GDesc.models ps).map LieModel.rep = repSize p :: ps.map repSize
    rw [ih, model_rep]

theorem models_map_dof (ps : List GDesc) : (GDesc.models (α := α) ps).map LieModel.dof = ps.map dofSize := by
  induction ps with
  | nil => rfl
  | cons p ps ih =>
    show (GDesc.model p).dof :: (GDesc.models ps).map LieModel.dof = dofSize p :: ps.map dofSize
    rw [ih, model_dof]

theorem models_length (ps : List GDesc) : (GDesc.models (α := α) ps).length = ps.length := by
  induction ps with
  | nil => rfl
  | cons p ps ih => show (GDesc.models ps).length + 1 = ps.length + 1; rw [ih]

theorem tupleElement_models (ps : List GDesc) (i : Nat) (h : i < ps.length) :
    tupleElement i (GDesc.models (α := α) ps) = GDesc.model ps[i] := by
  induction ps generalizing i with
  | nil => simp at h
  | cons p ps ih =>
    cases i with
    | zero => rfl
    | succ j => exact ih j (by simpa using h)

/-- `BundleSize` is the number of parts -/
theorem pub_BundleSize (Gs : List (LieModel α)) : BundlePubSrc.BundleSize Gs = Gs.length := rfl

/-- `PartType<Idx>` (through `liebase_info<…>::PartPlainObject<Idx>`) is part `Idx` of the list -/
theorem pub_PartType (Gs : List (LieModel α)) (i : Nat) (h : i < Gs.length) : BundlePubSrc.PartType Gs i = Gs[i] :=
  SrcTieBundle.bundle_PartImpl Gs i h

/-- `PartStart<Idx> = DofsPsum[Idx]`, `PartDof<Idx> = Dofs[Idx]`: the model's tangent layout -/
theorem pub_PartStart (Gs : List (LieModel α)) (i : Nat) :
    BundlePubSrc.PartStart Gs i = (Bundle.psum (Gs.map LieModel.dof)).getD i 0 := by
  rw [BundlePubSrc.PartStart, (SrcTieBundle.bundle_psum_arrays Gs).2.1, stdGet_eq_getD]

theorem pub_PartDof (Gs : List (LieModel α)) (i : Nat) : BundlePubSrc.PartDof Gs i = (Gs.map LieModel.dof).getD i 0 := by
  rw [BundlePubSrc.PartDof, stdGet_eq_getD]; rfl

/-- … for every descriptor list of the catalogue language: `Mem.dofPsum` -/
theorem pub_PartStart_desc (ps : List GDesc) (i : Nat) :
    BundlePubSrc.PartStart (GDesc.models (α := α) ps) i = (dofPsum ps).getD i 0 := by
  rw [pub_PartStart, models_map_dof]; rfl

section part
variable (ps : List GDesc) (i : Nat) (h : i < ps.length)

theorem subview_part : subview (.bundle ps) (.part i) = some ((repPsum ps).getD i 0, repSize ps[i], ps[i]) := by
  simp [subview, List.getElem?_eq_getElem h]

/-- **mutable `part<Idx>()`** is the row `(.bundle ps, .part i)` of the model's sub-view table: it starts at
    `data() + RepSizesPsum[i]`, covers `RepSize` of part `i`, has the type of part `i`, and is writable -/
theorem pub_part_mut :
    subview (.bundle ps) (.part i)
      = some ((BundlePubSrc.part_mut (GDesc.models (α := α) ps) i).off,
              (BundlePubSrc.part_mut (GDesc.models (α := α) ps) i).G.rep, ps[i])
    ∧ (BundlePubSrc.part_mut (GDesc.models (α := α) ps) i).G = GDesc.model ps[i]
    ∧ (BundlePubSrc.part_mut (GDesc.models (α := α) ps) i).writable = true := by
  have hG : (BundlePubSrc.part_mut (GDesc.models (α := α) ps) i).G = GDesc.model ps[i] := tupleElement_models ps i h
  refine ⟨?_, hG, rfl⟩
  rw [subview_part ps i h, hG, model_rep]
  show _ = some (stdGet i (BundleSrc.RepSizesPsum (GDesc.models (α := α) ps)), _, _)
  rw [(SrcTieBundle.bundle_psum_arrays _).1, stdGet_eq_getD, models_map_rep]; rfl

/-- **const `part<Idx>()`**: the same row, not writable -/
theorem pub_part_const :
    subview (.bundle ps) (.part i)
      = some ((BundlePubSrc.part_const (GDesc.models (α := α) ps) i).off,
              (BundlePubSrc.part_const (GDesc.models (α := α) ps) i).G.rep, ps[i])
    ∧ (BundlePubSrc.part_const (GDesc.models (α := α) ps) i).G = GDesc.model ps[i]
    ∧ (BundlePubSrc.part_const (GDesc.models (α := α) ps) i).writable = false := by
  have hG : (BundlePubSrc.part_const (GDesc.models (α := α) ps) i).G = GDesc.model ps[i] := tupleElement_models ps i h
  refine ⟨?_, hG, rfl⟩
  rw [subview_part ps i h, hG, model_rep]
  show _ = some (stdGet i (BundleSrc.RepSizesPsum (GDesc.models (α := α) ps)), _, _)
  rw [(SrcTieBundle.bundle_psum_arrays _).1, stdGet_eq_getD, models_map_rep]; rfl
end part

/-- the coefficient vector of the Bundle whose parts are `gs 0, gs 1, …` (nested-pair layout of `Bundle.bundle`) -/
def packParts : (Gs : List (LieModel α)) → (gs : Nat → VBuf α) → Vec α (Bundle.bundle Gs).rep
  | [], _ => vzero 0
  | p :: ps, gs => vcat (asVec (gs 0) : Vec α p.rep) (packParts ps (fun i => gs (i + 1)))

theorem ofVec_asVec_seg {n : Nat} (x : VBuf α) (init : VBuf α) :
    copySegment init n 0 x = copySegment init n 0 (ofVec (asVec x : Vec α n)) := by
  funext k
  simp only [copySegment, ofVec, asVec, Vec.of, Nat.zero_le, true_and, Nat.zero_add, Nat.sub_zero]
  by_cases h : k < n
  · simp [h]
  · simp [h]

theorem ctor_step (p : LieModel α) (ps : List (LieModel α))
    (ih : ∀ (gs : Nat → VBuf α) (init : VBuf α), BundlePubSrc.ctor ps gs init = overV (packParts ps gs) init)
    (gs : Nat → VBuf α) (init : VBuf α) :
    BundlePubSrc.ctor (p :: ps) gs init = overV (vcat (asVec (gs 0) : Vec α p.rep) (packParts ps (fun i => gs (i + 1)))) init := by
  simp only [BundlePubSrc.ctor, SrcTieBundle.sizeofPack_cons]
  rw [loopV_step p.rep (sizeofPack ps) _ (fun i self => assignView self (BundlePubSrc.part_mut ps i) (gs (i + 1)))]
  · have e : staticFor (sizeofPack ps) (fun i self => assignView self (BundlePubSrc.part_mut ps i) (gs (i + 1)))
        = overV (packParts ps (fun i => gs (i + 1))) := by funext o; exact ih _ o
    rw [e]
    have e0 : assignView init (BundlePubSrc.part_mut (p :: ps) 0) (gs 0) = copySegment init p.rep 0 (ofVec (asVec (gs 0) : Vec α p.rep)) := by
      show (if true = true then copySegment init p.rep (stdGet 0 (BundleSrc.RepSizesPsum (p :: ps))) (gs 0) else init) = _
      rw [if_pos rfl, SrcTieBundle.RepSizesPsum_zero]
      exact ofVec_asVec_seg _ _
    rw [e0]
    exact liftV_overV _ _ init
  · intro i hi
    funext self
    show (if true = true then copySegment self (BundleSrc.PartImpl ps i).rep (stdGet (i + 1) (BundleSrc.RepSizesPsum (p :: ps))) (gs (i + 1)) else self) = _
    rw [if_pos rfl, SrcTieBundle.RepSizesPsum_succ p ps i hi, copySegment_shift]
    rfl

/-- **the constructor from parts** writes part `i` into ITS segment `[RepSizesPsum[i], + RepSize_i)`: the result is the
    model's nested-pair coefficient vector of the parts, every coefficient written, nothing outside -/
theorem pub_ctor (Gs : List (LieModel α)) (gs : Nat → VBuf α) (init : VBuf α) :
    BundlePubSrc.ctor Gs gs init = overV (packParts Gs gs) init := by
  induction Gs generalizing gs init with
  | nil => exact (SrcTieBundle.overV_nil _ init).symm
  | cons p ps ih => exact ctor_step p ps ih gs init

/- non-vacuity: `Bundle<SO3, R2, SE3>::part<2>()` starts at coefficient 6 and covers 7 -/
example : (BundlePubSrc.part_const (GDesc.models (α := ℝ) [.so3, .tn 2, .se3]) 2).off = 6
    ∧ (BundlePubSrc.part_mut (GDesc.models (α := ℝ) [.so3, .tn 2, .se3]) 2).G.rep = 7 := by
  constructor <;> decide

end SrcTieBundlePub
