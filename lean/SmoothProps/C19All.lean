/- aggregator: property theorems of C19 plus the source-tie theorems of the logic regenerated from the C++ (tools/gen_logic2.py) -/
import SmoothProps.C19
import SmoothProps.SrcTieLogicC19
