/-
  C06 (layout part) — the Bundle prefix-sum layouts are `array_psum` of the part sizes, the part
  segments partition the coefficient / tangent / matrix index ranges, and the nested-pair layout of
  the model's `Bundle.bundle` (fold of binary products) has exactly these offsets.

  The tie to the code (T2) is SmoothProofs/Gen/BundleLayout.lean: `RepSizesPsum / DofsPsum /
  DimsPsum`, `PartStart<i> / PartDof<i>` as the compiler evaluated them for every catalogued Bundle
  type equal `Mem.repPsum / dofPsum / dimPsum` of the model descriptor (re-proved by `decide`
  on every run).  The operation-level theorems of C06 live in SmoothProps/C06.lean.
-/
import SmoothProofs.C06Psum
import SmoothProofs.C16Mem

open Mem

namespace C06L

/-- `utils::array_psum` (the model's `Bundle.psum`) is the running sum `[0, x₀, x₀+x₁, …]`. -/
theorem psum_spec (l : List Nat) : Bundle.psum l = l.scanl (· + ·) 0 :=
  Bundle.psum_eq_scanl l

/-- entry `i` of the prefix sums is the total size of the first `i` parts; the last one is the total. -/
theorem psum_entry (l : List Nat) (i : Nat) (h : i ≤ l.length) :
    (Bundle.psum l).getD i 0 = (l.take i).sum ∧ (Bundle.psum l).length = l.length + 1
      ∧ (Bundle.psum l).getD l.length 0 = l.sum :=
  ⟨Bundle.psum_getD l i h, Bundle.psum_length l, Bundle.psum_last l⟩

/-- the segment table `[(psum[i], size[i])]` of a list of part sizes -/
def segments (sizes : List Nat) : List (Nat × Nat) :=
  (List.range sizes.length).map (fun i => ((Bundle.psum sizes).getD i 0, sizes.getD i 0))

/-- **segments_partition**: for every list of part sizes, the ranges `[psum i, psum i + size i)` lie
    inside `[0, total)`, are pairwise disjoint (in order) and cover `[0, total)`. -/
theorem segments_partition (sizes : List Nat) :
    (∀ v ∈ segments sizes, v.1 + v.2 ≤ sizes.sum)
    ∧ (segments sizes).Pairwise (fun a b => a.1 + a.2 ≤ b.1)
    ∧ (∀ i, i < sizes.sum → ∃ v ∈ segments sizes, v.1 ≤ i ∧ i < v.1 + v.2) := by
  have ht : Tiles (segments sizes) 0 sizes.sum := by
    unfold segments
    rw [Bundle.psum_segments]
    simpa using tiles_segs 0 sizes
  exact ⟨fun v hv => (ht.inside v hv).2, ht.disjoint, fun i hi => ht.cover i (Nat.zero_le _) hi⟩

/-- … for the coefficient (`RepSizes`), tangent (`Dofs`) and matrix (`Dims`) layouts of every Bundle list -/
theorem segments_partition_rep (ps : List GDesc) :
    (∀ v ∈ segments (ps.map repSize), v.1 + v.2 ≤ repSize (.bundle ps))
    ∧ (segments (ps.map repSize)).Pairwise (fun a b => a.1 + a.2 ≤ b.1)
    ∧ (∀ i, i < repSize (.bundle ps) → ∃ v ∈ segments (ps.map repSize), v.1 ≤ i ∧ i < v.1 + v.2) := by
  have := segments_partition (ps.map repSize)
  simpa [repSize, repSizeL_eq_sum] using this

theorem segments_partition_dof (ps : List GDesc) :
    (∀ v ∈ segments (ps.map dofSize), v.1 + v.2 ≤ dofSize (.bundle ps))
    ∧ (segments (ps.map dofSize)).Pairwise (fun a b => a.1 + a.2 ≤ b.1)
    ∧ (∀ i, i < dofSize (.bundle ps) → ∃ v ∈ segments (ps.map dofSize), v.1 ≤ i ∧ i < v.1 + v.2) := by
  have := segments_partition (ps.map dofSize)
  simpa [dofSize, dofSizeL_eq_sum] using this

theorem segments_partition_dim (ps : List GDesc) :
    (∀ v ∈ segments (ps.map dimSize), v.1 + v.2 ≤ dimSize (.bundle ps))
    ∧ (segments (ps.map dimSize)).Pairwise (fun a b => a.1 + a.2 ≤ b.1)
    ∧ (∀ i, i < dimSize (.bundle ps) → ∃ v ∈ segments (ps.map dimSize), v.1 ≤ i ∧ i < v.1 + v.2) := by
  have := segments_partition (ps.map dimSize)
  simpa [dimSize, dimSizeL_eq_sum] using this

/-- offset of part `i` in the nested-pair layout of `Bundle.bundle [p₀, p₁, …] = prod p₀ (prod p₁ …)`:
    part 0 is the `fst` half, part `i+1` is part `i` of the `snd` half, which starts at `size p₀`. -/
def nestedOffset : List Nat → Nat → Nat
  | [], _ => 0
  | _ :: _, 0 => 0
  | x :: xs, i + 1 => x + nestedOffset xs i

/-- **nested layout = prefix sums**: the offset at which the model's nested binary products place
    part `i` is `psum[i]` — the C++ `RepSizesPsum[i]` / `DofsPsum[i]` / `DimsPsum[i]`. -/
theorem nested_offset_eq_psum (sizes : List Nat) (i : Nat) (h : i ≤ sizes.length) :
    nestedOffset sizes i = (Bundle.psum sizes).getD i 0 := by
  rw [Bundle.psum_getD sizes i h]
  induction sizes generalizing i with
  | nil => cases i <;> simp [nestedOffset]
  | cons x xs ih =>
    cases i with
    | zero => simp [nestedOffset]
    | succ j =>
      simp only [nestedOffset, List.take_succ_cons, List.sum_cons]
      rw [ih j (by simpa using h)]

/-- the two halves of a binary product's coefficient vector are the index ranges `[0, n)` and
    `[n, n+m)` — the base case the nested offsets are built from -/
theorem prod_layout {α : Type} {n m : Nat} (g : Vec α (n + m)) :
    (∀ i : Fin n, (Bundle.fst g) i = g ⟨i.val, by omega⟩)
    ∧ (∀ i : Fin m, (Bundle.snd g) i = g ⟨n + i.val, by omega⟩) :=
  ⟨fun _ => rfl, fun _ => rfl⟩

/-- sizes of the model of a descriptor are the descriptor sizes (all Bundle lists, all nestings) -/
theorem model_sizes {α : Type} [Scalar α] (d : GDesc) :
    (GDesc.model (α := α) d).rep = repSize d ∧ (GDesc.model (α := α) d).dof = dofSize d
      ∧ (GDesc.model (α := α) d).dim = dimSize d ∧ (GDesc.model (α := α) d).comm = isComm d :=
  ⟨model_rep d, model_dof d, model_dim d, model_comm d⟩

/-- `part<i>()` of a Bundle view starts at `RepSizesPsum[i]` = nested offset, has the part's RepSize -/
theorem part_subview (ps : List GDesc) (i : Nat) (h : i < ps.length) :
    subview (.bundle ps) (.part i)
      = some (nestedOffset (ps.map repSize) i, repSize ps[i], ps[i]) := by
  rw [nested_offset_eq_psum _ _ (by simpa using Nat.le_of_lt h)]
  simp [subview, List.getElem?_eq_getElem h, repPsum]

/- non-vacuity: concrete layouts -/
example : Bundle.psum [4, 2, 7] = [0, 4, 6, 13] := by decide
example : segments [4, 2, 7] = [(0, 4), (4, 2), (6, 7)] := by decide
example : nestedOffset [4, 2, 7] 2 = 6 := by decide
example : subview (.bundle [.so3, .tn 2, .se3]) (.part 2) = some (6, 7, .se3) :=
  part_subview [.so3, .tn 2, .se3] 2 (by decide)
example : repPsum [.bundle [.so3, .tn 3], .se2] = [0, 7, 11] := by decide

end C06L
