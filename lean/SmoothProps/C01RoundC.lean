/-
  C01RoundC — the accuracy clause of C01 for EVERY supported group type, Bundles of arbitrary length and
  nesting included, in the standard model of floating-point arithmetic (SmoothProofs/RoundModel.lean).

  `Round.RoundAcc tol σ GR G Mod` (SmoothProofs/RoundBundle.lean): for the model of one group type at `RF`
  (`GR`, every operation rounded) and the same model at ℝ (`G`), for all elements that are "moderate with
  bound `T`" (`Mod T`: unit rotation part, translation-like coordinates bounded by `T`), every entry of
  `matrix(fl(g₁*g₂)) − matrix(g₁*g₂)` and of `matrix(fl(inverse g)) − matrix(inverse g)` is at most `tol·σ(T)`.

  * base cases: SO2, C1, Tn (every n), SO3, SE2, SE3, Galilei, SE_K_3 (every K), each from the bounds of
    C01Round / C01RoundB with its own constant;
  * `bundle_prod_roundAcc`, `bundle_roundAcc`: closed under `Bundle.prod`, hence `Bundle.bundle` of any list of
    parts (generic, by induction — a Bundle performs no arithmetic of its own);
  * `every_group_roundAcc`: every group descriptor `GDesc` (SO2 SO3 SE2 SE3 C1 GAL T<n> SEK<k> B[…], nested
    arbitrarily) with the uniform constant `120.01·ū` and the scale `GDesc.sigma d` (`max(1,T)`; `max(1,T+T²)` as
    soon as a Galilei part occurs);
  * `every_group_composition_double/_single`, `every_group_inverse_double/_single`: the clause in the property's
    own terms (`matrix g₁ · matrix g₂`, a two-sided inverse of `matrix g`), `1e-12` resp. `1e-5`.
-/
import SmoothProps.C01RoundB
import SmoothProofs.RoundBundle

open Lin Scalar Rounding RF Round

set_option linter.unusedVariables false
set_option linter.unusedSectionVars false

noncomputable section
namespace C01Round

/-! ## what "moderate with bound `T`" means for each group type -/

def so2Mod (T : ℝ) (g : Vec ℝ 2) : Prop := SO2.Unit g
/-- C1 = scaling × rotation: squared scaling between `1/max(1,T)` and `max(1,T)` -/
def c1Mod (T : ℝ) (g : Vec ℝ 2) : Prop := nrm2 g ^ 2 ≤ scale T ∧ 1 ≤ nrm2 g ^ 2 * scale T
def tnMod (n : Nat) (T : ℝ) (g : Vec ℝ n) : Prop := ∀ i, |g i| ≤ T
def so3Mod (T : ℝ) (g : Vec ℝ 4) : Prop := SO3.Unit g
def se2Mod (T : ℝ) (g : Vec ℝ 4) : Prop := SE2.Unit g ∧ nrm2 (SE2.r2 g) ≤ T
def se3Mod (T : ℝ) (g : Vec ℝ 7) : Prop := SE3.Unit g ∧ ∀ l, |SE3.r3 g l| ≤ T
def galMod (T : ℝ) (g : Vec ℝ 11) : Prop := Galilei.Unit g ∧ GalBounded T g
def sekMod (k : Nat) (T : ℝ) (g : Vec ℝ (4 + 3 * k)) : Prop := SEK3.Unit k g ∧ SekBounded k T g

theorem nrm2_of_so2_unit (g : Vec ℝ 2) (h : SO2.Unit g) : nrm2 g = 1 := by
  unfold nrm2 SO2.Unit at *
  rw [h, Real.sqrt_one]

theorem nrm2_sq (g : Vec ℝ 2) : nrm2 g ^ 2 = g 0 ^ 2 + g 1 ^ 2 := Real.sq_sqrt (by positivity)

/-- entries of the 2×2 rotation/scaling matrix are `± coefficients` -/
theorem mat2c_dist (r g : Vec ℝ 2) (E : ℝ) (h : ∀ k, |r k - g k| ≤ E) (i j : Fin 2) :
    |(C1.matrix r) i j - (C1.matrix g) i j| ≤ E := by
  have h0 := h 0; have h1 := h 1
  fin_cases i <;> fin_cases j <;> simp only [C1.matrix, mat2, Mat.of] <;>
    first
    | exact h0
    | exact h1
    | (rw [neg_sub_neg, abs_sub_comm]; exact h0)

section Main
variable [Rounding]

/-! ## base cases -/

theorem so2_roundAcc : RoundAcc (201 / 100 * ubar) scale (SO2.model : LieModel RF) (SO2.model : LieModel ℝ) so2Mod where
  rep_eq := rfl
  nonneg := fun T => by have := ubar_nonneg; have := scale_nonneg T; positivity
  comp := by
    intro T (a : Vec ℝ 2) (b : Vec ℝ 2) (ah : Vec RF 2) (bh : Vec RF 2) sa sb ma mb
    have ea := sa.eq_toRF; have eb := sb.eq_toRF
    subst ea eb
    refine ⟨Vec.toR (SO2.composition (Vec.toRF a) (Vec.toRF b)), same_toR _, fun (i j : Fin 2) => ?_⟩
    show |(SO2.matrix (Vec.toR (SO2.composition (Vec.toRF a) (Vec.toRF b)))) i j - (SO2.matrix (SO2.composition a b)) i j| ≤ _
    rw [SO2.matrix_composition]
    have := so2_matrix_composition_acc a b (by rw [nrm2_of_so2_unit a ma]; norm_num)
      (by rw [nrm2_of_so2_unit b mb]; norm_num) i j
    have hub := ubar_nonneg; have hs := one_le_scale T
    nlinarith [mul_nonneg hub (sub_nonneg.mpr hs)]
  inv := by
    intro T (a : Vec ℝ 2) (ah : Vec RF 2) sa ma
    have ea := sa.eq_toRF
    subst ea
    refine ⟨Vec.toR (SO2.inverse (Vec.toRF a)), same_toR _, fun (i j : Fin 2) => ?_⟩
    show |(SO2.matrix (Vec.toR (SO2.inverse (Vec.toRF a)))) i j - (SO2.matrix (SO2.inverse a)) i j| ≤ _
    rw [so2_inverse_round]
    have hub := ubar_nonneg; have hs := scale_nonneg T
    simp only [sub_self, abs_zero]; positivity

theorem c1_roundAcc : RoundAcc (401 / 100 * ubar) scale (C1.model : LieModel RF) (C1.model : LieModel ℝ) c1Mod where
  rep_eq := rfl
  nonneg := fun T => by have := ubar_nonneg; have := scale_nonneg T; positivity
  comp := by
    intro T (a : Vec ℝ 2) (b : Vec ℝ 2) (ah : Vec RF 2) (bh : Vec RF 2) sa sb ma mb
    have ea := sa.eq_toRF; have eb := sb.eq_toRF
    subst ea eb
    refine ⟨Vec.toR (C1.composition (Vec.toRF a) (Vec.toRF b)), same_toR _, fun (i j : Fin 2) => ?_⟩
    show |(C1.matrix (Vec.toR (C1.composition (Vec.toRF a) (Vec.toRF b)))) i j - (C1.matrix (C1.composition a b)) i j| ≤ _
    apply mat2c_dist
    intro k
    have h := c1_composition_round a b k
    rw [← theta_two] at h
    refine h.trans ?_
    have n1 := nrm2_nonneg a; have n2 := nrm2_nonneg b
    have hs := scale_nonneg T
    have hab : nrm2 a * nrm2 b ≤ scale T := by
      have : (nrm2 a * nrm2 b) ^ 2 ≤ scale T ^ 2 := by
        rw [mul_pow, sq (scale T)]
        exact mul_le_mul ma.1 mb.1 (by positivity) hs
      exact (pow_le_pow_iff_left₀ (by positivity) hs (by norm_num)).mp this
    have hX0 : 0 ≤ compAbs2 a b k := (so2_composition_appr a b k).X_nonneg
    have := theta_mul_le 2 (by norm_num) (compAbs2 a b k) (scale T) (401 / 100 * scale T) hX0
      ((compAbs2_le a b k).trans hab) (by norm_num; nlinarith)
    calc _ ≤ _ := this
      _ = _ := by ring
  inv := by
    intro T (a : Vec ℝ 2) (ah : Vec RF 2) sa ma
    have ea := sa.eq_toRF
    subst ea
    refine ⟨Vec.toR (C1.inverse (Vec.toRF a)), same_toR _, fun (i j : Fin 2) => ?_⟩
    show |(C1.matrix (Vec.toR (C1.inverse (Vec.toRF a)))) i j - (C1.matrix (C1.inverse a)) i j| ≤ _
    apply mat2c_dist
    intro k
    have hs1 := one_le_scale T
    have hs := scale_nonneg T
    have hpos : 0 < nrm2 a ^ 2 := by
      by_contra hc
      have : nrm2 a ^ 2 = 0 := le_antisymm (not_lt.mp hc) (by positivity)
      have h2 := ma.2
      rw [this] at h2; norm_num at h2
    have hv : C1.Valid a := by
      unfold C1.Valid; rw [← nrm2_sq]; exact hpos.ne'
    refine (c1_inverse_round a hv k).trans ?_
    rw [← nrm2_sq]
    -- |a_k| / ‖a‖² ≤ 1/‖a‖ ≤ max(1,T)
    have hk : |a k| ≤ nrm2 a := abs_le_nrm2 a k
    have n1 : 0 < nrm2 a := by
      rcases (nrm2_nonneg a).lt_or_eq with h | h
      · exact h
      · rw [← h] at hpos; norm_num at hpos
    have hX : |a k| / nrm2 a ^ 2 ≤ scale T := by
      rw [div_le_iff₀ hpos]
      have h2 := ma.2
      have : nrm2 a ≤ scale T * nrm2 a ^ 2 := by
        -- 1 ≤ ‖a‖² S  and ‖a‖ ≤ max(1, ‖a‖²·…): split on ‖a‖ ≤ 1
        by_cases h1 : nrm2 a ≤ 1
        · nlinarith
        · have : 1 ≤ nrm2 a := le_of_lt (not_le.mp h1)
          nlinarith
      linarith
    have := theta_mul_le 4 (by norm_num) (|a k| / nrm2 a ^ 2) (scale T) (401 / 100 * scale T) (by positivity)
      hX (by norm_num; nlinarith)
    calc _ ≤ _ := this
      _ = _ := by ring

theorem tn_roundAcc (n : Nat) :
    RoundAcc (201 / 100 * ubar) scale (Tn.model n : LieModel RF) (Tn.model n : LieModel ℝ) (tnMod n) where
  rep_eq := rfl
  nonneg := fun T => by have := ubar_nonneg; have := scale_nonneg T; positivity
  comp := by
    intro T (a : Vec ℝ n) (b : Vec ℝ n) (ah : Vec RF n) (bh : Vec RF n) sa sb ma mb
    have ea := sa.eq_toRF; have eb := sb.eq_toRF
    subst ea eb
    refine ⟨Vec.toR (Tn.composition (Vec.toRF a) (Vec.toRF b)), same_toR _, ?_⟩
    show ∀ i j : Fin (n + 1), |(Tn.matrix (Vec.toR (Tn.composition (Vec.toRF a) (Vec.toRF b)))) i j
      - (Tn.matrix (Tn.composition a b)) i j| ≤ _
    intro i j
    have hub := ubar_nonneg; have hs := scale_nonneg T; have hsT := le_scale T; have hs1 := one_le_scale T
    have h0 : (0 : ℝ) ≤ 201 / 100 * ubar * scale T := by positivity
    induction i using Fin.lastCases with
    | last =>
      induction j using Fin.lastCases with
      | last => simpa [Tn.matrix_ll] using h0
      | cast j => simpa [Tn.matrix_lc] using h0
    | cast i =>
      induction j using Fin.lastCases with
      | last =>
        rw [Tn.matrix_cl, Tn.matrix_cl]
        refine (tn_composition_round a b i).trans ?_
        have hval : |(Tn.composition a b) i| ≤ 2 * scale T := by
          have : (Tn.composition a b) i = a i + b i := by simp [Tn.composition, vadd, Vec.of]
          rw [this]
          exact (abs_add_le _ _).trans (by linarith [ma i, mb i])
        have hu := theta_le_ubar 1 (by norm_num)
        rw [theta_one] at hu
        calc u * |(Tn.composition a b) i| ≤ (1 * ubar) * (2 * scale T) :=
              mul_le_mul (by simpa using hu) hval (abs_nonneg _) (by positivity)
          _ ≤ 201 / 100 * ubar * scale T := by nlinarith [mul_nonneg hub hs]
      | cast j => simpa [Tn.matrix_cc] using h0
  inv := by
    intro T (a : Vec ℝ n) (ah : Vec RF n) sa ma
    have ea := sa.eq_toRF
    subst ea
    refine ⟨Vec.toR (Tn.inverse (Vec.toRF a)), same_toR _, fun (i j : Fin (n + 1)) => ?_⟩
    show |(Tn.matrix (Vec.toR (Tn.inverse (Vec.toRF a)))) i j - (Tn.matrix (Tn.inverse a)) i j| ≤ _
    rw [tn_inverse_round]
    have hub := ubar_nonneg; have hs := scale_nonneg T
    simp only [sub_self, abs_zero]; positivity

theorem so3_roundAcc : RoundAcc (7001 / 100 * ubar) scale (SO3.model : LieModel RF) (SO3.model : LieModel ℝ) so3Mod where
  rep_eq := rfl
  nonneg := fun T => by have := ubar_nonneg; have := scale_nonneg T; positivity
  comp := by
    intro T (a : Vec ℝ 4) (b : Vec ℝ 4) (ah : Vec RF 4) (bh : Vec RF 4) sa sb ma mb
    have ea := sa.eq_toRF; have eb := sb.eq_toRF
    subst ea eb
    refine ⟨Vec.toR (SO3.composition (Vec.toRF a) (Vec.toRF b)), same_toR _, fun (i j : Fin 3) => ?_⟩
    have e1 : SO3.sqn a = 1 := ma
    have e2 : SO3.sqn b = 1 := mb
    have := so3_composition_matrix_acc a b (by rw [e1]; norm_num) (by rw [e2]; norm_num) i j
    have hub := ubar_nonneg; have hs := one_le_scale T
    refine this.trans ?_
    nlinarith [mul_nonneg hub (sub_nonneg.mpr hs)]
  inv := by
    intro T (a : Vec ℝ 4) (ah : Vec RF 4) sa ma
    have ea := sa.eq_toRF
    subst ea
    refine ⟨Vec.toR (SO3.inverse (Vec.toRF a)), same_toR _, fun (i j : Fin 3) => ?_⟩
    have e1 : SO3.sqn a = 1 := ma
    have := so3_inverse_matrix_acc a (by rw [e1]; norm_num) i j
    have hub := ubar_nonneg; have hs := one_le_scale T
    refine this.trans ?_
    nlinarith [mul_nonneg hub (sub_nonneg.mpr hs)]

theorem se2_roundAcc : RoundAcc (1201 / 100 * ubar) scale (SE2.model : LieModel RF) (SE2.model : LieModel ℝ) se2Mod where
  rep_eq := rfl
  nonneg := fun T => by have := ubar_nonneg; have := scale_nonneg T; positivity
  comp := by
    intro T (a : Vec ℝ 4) (b : Vec ℝ 4) (ah : Vec RF 4) (bh : Vec RF 4) sa sb ma mb
    have ea := sa.eq_toRF; have eb := sb.eq_toRF
    subst ea eb
    refine ⟨Vec.toR (SE2.composition (Vec.toRF a) (Vec.toRF b)), same_toR _, fun (i j : Fin 3) => ?_⟩
    show |(SE2.matrix (Vec.toR (SE2.composition (Vec.toRF a) (Vec.toRF b)))) i j - (SE2.matrix (SE2.composition a b)) i j| ≤ _
    rw [SE2.matrix_composition]
    exact se2_matrix_composition_acc a b T (by rw [nrm2_so2_of_unit a ma.1]; norm_num)
      (by rw [nrm2_so2_of_unit b mb.1]; norm_num) ma.2 mb.2 i j
  inv := by
    intro T (a : Vec ℝ 4) (ah : Vec RF 4) sa ma
    have ea := sa.eq_toRF
    subst ea
    refine ⟨Vec.toR (SE2.inverse (Vec.toRF a)), same_toR _, fun (i j : Fin 3) => ?_⟩
    have := se2_matrix_inverse_acc a T (by rw [nrm2_so2_of_unit a ma.1]; norm_num) ma.2 i j
    have hub := ubar_nonneg; have hs := scale_nonneg T
    refine this.trans ?_
    nlinarith [mul_nonneg hub hs]

theorem se3_roundAcc : RoundAcc (11001 / 100 * ubar) scale (SE3.model : LieModel RF) (SE3.model : LieModel ℝ) se3Mod where
  rep_eq := rfl
  nonneg := fun T => by have := ubar_nonneg; have := scale_nonneg T; positivity
  comp := by
    intro T (a : Vec ℝ 7) (b : Vec ℝ 7) (ah : Vec RF 7) (bh : Vec RF 7) sa sb ma mb
    have ea := sa.eq_toRF; have eb := sb.eq_toRF
    subst ea eb
    refine ⟨Vec.toR (SE3.composition (Vec.toRF a) (Vec.toRF b)), same_toR _, fun (i j : Fin 4) => ?_⟩
    have e1 : SO3.sqn (SE3.so3 a) = 1 := ma.1
    have e2 : SO3.sqn (SE3.so3 b) = 1 := mb.1
    have := se3_matrix_composition_acc a b T (by rw [e1]; norm_num) (by rw [e2]; norm_num) ma.2 mb.2 i j
    have hub := ubar_nonneg; have hs := scale_nonneg T
    refine this.trans ?_
    nlinarith [mul_nonneg hub hs]
  inv := by
    intro T (a : Vec ℝ 7) (ah : Vec RF 7) sa ma
    have ea := sa.eq_toRF
    subst ea
    refine ⟨Vec.toR (SE3.inverse (Vec.toRF a)), same_toR _, fun (i j : Fin 4) => ?_⟩
    have e1 : SO3.sqn (SE3.so3 a) = 1 := ma.1
    exact se3_matrix_inverse_acc a T (by rw [e1]; norm_num) ma.2 i j

theorem galilei_roundAcc :
    RoundAcc (12001 / 100 * ubar) scale2 (Galilei.model : LieModel RF) (Galilei.model : LieModel ℝ) galMod where
  rep_eq := rfl
  nonneg := fun T => by have := ubar_nonneg; have := scale2_nonneg T; positivity
  comp := by
    intro T (a : Vec ℝ 11) (b : Vec ℝ 11) (ah : Vec RF 11) (bh : Vec RF 11) sa sb ma mb
    have ea := sa.eq_toRF; have eb := sb.eq_toRF
    subst ea eb
    refine ⟨Vec.toR (Galilei.composition (Vec.toRF a) (Vec.toRF b)), same_toR _, fun (i j : Fin 5) => ?_⟩
    have e1 : SO3.sqn (Galilei.gq a) = 1 := ma.1
    have e2 : SO3.sqn (Galilei.gq b) = 1 := mb.1
    have := galilei_matrix_composition_acc a b T (by rw [e1]; norm_num) (by rw [e2]; norm_num) ma.2 mb.2 i j
    have hub := ubar_nonneg; have hs := scale2_nonneg T
    refine this.trans ?_
    nlinarith [mul_nonneg hub hs]
  inv := by
    intro T (a : Vec ℝ 11) (ah : Vec RF 11) sa ma
    have ea := sa.eq_toRF
    subst ea
    refine ⟨Vec.toR (Galilei.inverse (Vec.toRF a)), same_toR _, fun (i j : Fin 5) => ?_⟩
    have e1 : SO3.sqn (Galilei.gq a) = 1 := ma.1
    exact galilei_matrix_inverse_acc a T (by rw [e1]; norm_num) ma.2 i j

theorem sek3_roundAcc (k : Nat) :
    RoundAcc (11001 / 100 * ubar) scale (SEK3.model k : LieModel RF) (SEK3.model k : LieModel ℝ) (sekMod k) where
  rep_eq := rfl
  nonneg := fun T => by have := ubar_nonneg; have := scale_nonneg T; positivity
  comp := by
    intro T (a : Vec ℝ (4 + 3 * k)) (b : Vec ℝ (4 + 3 * k)) (ah : Vec RF (4 + 3 * k)) (bh : Vec RF (4 + 3 * k)) sa sb ma mb
    have ea := sa.eq_toRF; have eb := sb.eq_toRF
    subst ea eb
    refine ⟨Vec.toR (SEK3.composition k (Vec.toRF a) (Vec.toRF b)), same_toR _, fun (i j : Fin (3 + k)) => ?_⟩
    have e1 : SO3.sqn (SEK3.gq k a) = 1 := ma.1
    have e2 : SO3.sqn (SEK3.gq k b) = 1 := mb.1
    have := sek3_matrix_composition_acc k a b T (by rw [e1]; norm_num) (by rw [e2]; norm_num) ma.2 mb.2 i j
    have hub := ubar_nonneg; have hs := scale_nonneg T
    refine this.trans ?_
    nlinarith [mul_nonneg hub hs]
  inv := by
    intro T (a : Vec ℝ (4 + 3 * k)) (ah : Vec RF (4 + 3 * k)) sa ma
    have ea := sa.eq_toRF
    subst ea
    refine ⟨Vec.toR (SEK3.inverse k (Vec.toRF a)), same_toR _, fun (i j : Fin (3 + k)) => ?_⟩
    have e1 : SO3.sqn (SEK3.gq k a) = 1 := ma.1
    exact sek3_matrix_inverse_acc k a T (by rw [e1]; norm_num) ma.2 i j

/-! ## Bundles: generic in the parts -/

/-- the accuracy clause is closed under the binary product of the Bundle model -/
theorem bundle_prod_roundAcc {tol : ℝ} {σ : ℝ → ℝ} {AR BR : LieModel RF} {A B : LieModel ℝ}
    {MA : ℝ → Vec ℝ A.rep → Prop} {MB : ℝ → Vec ℝ B.rep → Prop}
    (hA : RoundAcc tol σ AR A MA) (hB : RoundAcc tol σ BR B MB) :
    RoundAcc tol σ (Bundle.prod AR BR) (Bundle.prod A B) (prodMod MA MB) := RoundAcc.prod hA hB
example : RoundAcc (7001 / 100 * ubar) scale (SO3.model : LieModel RF) (SO3.model : LieModel ℝ) so3Mod := so3_roundAcc

/-- … hence it holds for `Bundle.bundle` of ANY list of parts that satisfy it (induction over the list;
    "moderate" for a bundle element = every part is) -/
theorem bundle_roundAcc {tol : ℝ} {σ : ℝ → ℝ} (h0 : ∀ T, 0 ≤ tol * σ T) (ps : List RModel)
    (h : ∀ p ∈ ps, RoundAcc tol σ p.GR p.G p.Mod) :
    RoundAcc tol σ (Bundle.bundle (ps.map RModel.GR)) (Bundle.bundle (ps.map RModel.G)) (bundleMod ps) :=
  RoundAcc.bundle h0 ps h
example : ∀ p ∈ [RModel.mk (SE3.model : LieModel RF) SE3.model se3Mod, ⟨SEK3.model 2, SEK3.model 2, sekMod 2⟩],
    RoundAcc (11001 / 100 * ubar) scale p.GR p.G p.Mod := by
  intro p hp
  simp only [List.mem_cons, List.not_mem_nil, or_false] at hp
  rcases hp with rfl | rfl
  · exact se3_roundAcc
  · exact sek3_roundAcc 2

end Main

/-! ## every group descriptor -/

namespace GDesc'
open GDesc

mutual
  /-- the scale of the bound: `max(1,T)`; `max(1, T + T²)` as soon as a Galilei part occurs -/
  def sigma : GDesc → ℝ → ℝ
    | .gal => scale2
    | .bundle ps => sigmaL ps
    | _ => scale
  def sigmaL : List GDesc → ℝ → ℝ
    | [] => scale
    | p :: ps => fun T => Max.max (sigma p T) (sigmaL ps T)
end

mutual
  /-- "moderate with bound `T`" for the group named by a descriptor -/
  def Mod : (d : GDesc) → ℝ → Vec ℝ (GDesc.model d : LieModel ℝ).rep → Prop
    | .so2 => so2Mod
    | .so3 => so3Mod
    | .se2 => se2Mod
    | .se3 => se3Mod
    | .c1 => c1Mod
    | .gal => galMod
    | .tn n => tnMod n
    | .sek3 k => sekMod k
    | .bundle ps => ModL ps
  def ModL : (ps : List GDesc) → ℝ → Vec ℝ (Bundle.bundle (GDesc.models ps : List (LieModel ℝ))).rep → Prop
    | [] => fun _ _ => True
    | p :: ps => prodMod (A := GDesc.model p) (B := Bundle.bundle (GDesc.models ps)) (Mod p) (ModL ps)
end

mutual
  theorem one_le_sigma : (d : GDesc) → ∀ T, 1 ≤ sigma d T
    | .so2 => one_le_scale | .so3 => one_le_scale | .se2 => one_le_scale | .se3 => one_le_scale
    | .c1 => one_le_scale | .tn _ => one_le_scale | .sek3 _ => one_le_scale
    | .gal => one_le_scale2
    | .bundle ps => one_le_sigmaL ps
  theorem one_le_sigmaL : (ps : List GDesc) → ∀ T, 1 ≤ sigmaL ps T
    | [] => one_le_scale
    | p :: ps => fun T => (one_le_sigma p T).trans (le_max_left _ _)
end

mutual
  theorem scale_le_sigma : (d : GDesc) → ∀ T, scale T ≤ sigma d T
    | .so2 => fun _ => le_refl _ | .so3 => fun _ => le_refl _ | .se2 => fun _ => le_refl _
    | .se3 => fun _ => le_refl _ | .c1 => fun _ => le_refl _ | .tn _ => fun _ => le_refl _
    | .sek3 _ => fun _ => le_refl _
    | .gal => scale_le_scale2
    | .bundle ps => scale_le_sigmaL ps
  theorem scale_le_sigmaL : (ps : List GDesc) → ∀ T, scale T ≤ sigmaL ps T
    | [] => fun _ => le_refl _
    | p :: ps => fun T => (scale_le_sigma p T).trans (le_max_left _ _)
end

mutual
  /-- a moderate element satisfies the representation constraint of C01 -/
  theorem mod_valid : (d : GDesc) → ∀ T g, Mod d T g → GDesc.Valid d g
    | .so2 => fun _ _ h => h
    | .so3 => fun _ _ h => h
    | .se2 => fun _ _ h => h.1
    | .se3 => fun _ _ h => h.1
    | .c1 => fun T (g : Vec ℝ 2) h => by
        show g 0 ^ 2 + g 1 ^ 2 ≠ 0
        intro e
        have h2 : 1 ≤ nrm2 g ^ 2 * scale T := h.2
        rw [nrm2_sq, e] at h2
        norm_num at h2
    | .gal => fun _ _ h => h.1
    | .tn _ => fun _ _ _ => trivial
    | .sek3 _ => fun _ _ h => h.1
    | .bundle ps => mod_validL ps
  theorem mod_validL : (ps : List GDesc) → ∀ T g, ModL ps T g → GDesc.ValidL ps g
    | [] => fun _ _ _ => trivial
    | p :: ps => fun T g h => ⟨mod_valid p T _ h.1, mod_validL ps T _ h.2⟩
end

end GDesc'

open GDesc'

section Main2
variable [Rounding]

theorem tol_sigma_nonneg (C : ℝ) (hC : 0 ≤ C) (σ : ℝ → ℝ) (hσ : ∀ T, 1 ≤ σ T) (T : ℝ) : 0 ≤ C * ubar * σ T := by
  have := ubar_nonneg; have := hσ T
  have : 0 ≤ σ T := by linarith
  positivity

theorem tol_mono (C : ℝ) (hC : C ≤ 12001 / 100) (T : ℝ) : C * ubar * scale T ≤ 12001 / 100 * ubar * scale T := by
  have := mul_nonneg ubar_nonneg (scale_nonneg T)
  nlinarith

mutual
  /-- **C01 accuracy clause for every supported group type, Bundles nested arbitrarily**, constant
      `120.01·ū` (the worst part: Galilei inverse), scale `sigma d` -/
  theorem every_group_roundAcc : (d : GDesc) →
      RoundAcc (12001 / 100 * ubar) (sigma d) (GDesc.model d : LieModel RF) (GDesc.model d : LieModel ℝ) (Mod d)
    | .so2 => so2_roundAcc.mono (fun T => tol_mono _ (by norm_num) T)
    | .so3 => so3_roundAcc.mono (fun T => tol_mono _ (by norm_num) T)
    | .se2 => se2_roundAcc.mono (fun T => tol_mono _ (by norm_num) T)
    | .se3 => se3_roundAcc.mono (fun T => tol_mono _ (by norm_num) T)
    | .c1 => c1_roundAcc.mono (fun T => tol_mono _ (by norm_num) T)
    | .gal => galilei_roundAcc
    | .tn n => (tn_roundAcc n).mono (fun T => tol_mono _ (by norm_num) T)
    | .sek3 k => (sek3_roundAcc k).mono (fun T => tol_mono _ (by norm_num) T)
    | .bundle ps => every_group_roundAccL ps
  theorem every_group_roundAccL : (ps : List GDesc) →
      RoundAcc (12001 / 100 * ubar) (sigmaL ps) (Bundle.bundle (GDesc.models ps : List (LieModel RF)))
        (Bundle.bundle (GDesc.models ps : List (LieModel ℝ))) (ModL ps)
    | [] => RoundAcc.unit (tol_sigma_nonneg _ (by norm_num) _ one_le_scale)
    | p :: ps => RoundAcc.prod
        ((every_group_roundAcc p).mono (fun T =>
          mul_le_mul_of_nonneg_left (le_max_left _ _) (by have := ubar_nonneg; positivity)))
        ((every_group_roundAccL ps).mono (fun T =>
          mul_le_mul_of_nonneg_left (le_max_right _ _) (by have := ubar_nonneg; positivity)))
end

/-- **C01, composition, every group type incl. nested Bundles, in the property's own terms**: for moderate
    `g₁ g₂` the matrix of the coefficients computed in rounded arithmetic agrees with `matrix g₁ · matrix g₂`
    to `tol·sigma d T` in every entry, `tol = 120.01·ū` -/
theorem every_group_composition_acc (d : GDesc) (T : ℝ) (a b : Vec ℝ (GDesc.model d : LieModel ℝ).rep)
    (ha : Mod d T a) (hb : Mod d T b) (ah bh : Vec RF (GDesc.model d : LieModel RF).rep)
    (sa : Same ah a) (sb : Same bh b) :
    ∃ r : Vec ℝ (GDesc.model d : LieModel ℝ).rep, Same ((GDesc.model d : LieModel RF).composition ah bh) r ∧
      ∀ i j, |((GDesc.model d).matrix r) i j - (mmul ((GDesc.model d).matrix a) ((GDesc.model d).matrix b)) i j|
        ≤ 12001 / 100 * ubar * sigma d T := by
  obtain ⟨r, sr, hr⟩ := (every_group_roundAcc d).comp T a b ah bh sa sb ha hb
  refine ⟨r, sr, ?_⟩
  rw [← (GDesc.isMatrixGroup d).matrix_composition a b (mod_valid d T a ha) (mod_valid d T b hb)]
  exact hr

theorem every_group_inverse_acc (d : GDesc) (T : ℝ) (a : Vec ℝ (GDesc.model d : LieModel ℝ).rep)
    (ha : Mod d T a) (ah : Vec RF (GDesc.model d : LieModel RF).rep) (sa : Same ah a) :
    ∃ (r : Vec ℝ (GDesc.model d : LieModel ℝ).rep) (Minv : Mat ℝ (GDesc.model d : LieModel ℝ).dim (GDesc.model d : LieModel ℝ).dim),
      Same ((GDesc.model d : LieModel RF).inverse ah) r ∧
      mmul Minv ((GDesc.model d).matrix a) = ident _ ∧ mmul ((GDesc.model d).matrix a) Minv = ident _ ∧
      ∀ i j, |((GDesc.model d).matrix r) i j - Minv i j| ≤ 12001 / 100 * ubar * sigma d T := by
  obtain ⟨r, sr, hr⟩ := (every_group_roundAcc d).inv T a ah sa ha
  have hv := mod_valid d T a ha
  exact ⟨r, (GDesc.model d).matrix ((GDesc.model d).inverse a), sr,
    (GDesc.isMatrixGroup d).matrix_inverse_left a hv, (GDesc.isMatrixGroup d).matrix_inverse_right a hv, hr⟩

theorem tol_double (h : IsDouble) : 12001 / 100 * ubar ≤ 1 / 10 ^ 12 := by
  have := ubar_double h
  norm_num at *; linarith
theorem tol_single (h : IsSingle) : 12001 / 100 * ubar ≤ 1 / 10 ^ 5 := by
  have := ubar_single h
  norm_num at *; linarith

/-- **C01 accuracy clause, composition, every group type and every nested Bundle, double: `1e-12`** -/
theorem every_group_composition_double (h : IsDouble) (d : GDesc) (T : ℝ)
    (a b : Vec ℝ (GDesc.model d : LieModel ℝ).rep) (ha : Mod d T a) (hb : Mod d T b)
    (ah bh : Vec RF (GDesc.model d : LieModel RF).rep) (sa : Same ah a) (sb : Same bh b) :
    ∃ r : Vec ℝ (GDesc.model d : LieModel ℝ).rep, Same ((GDesc.model d : LieModel RF).composition ah bh) r ∧
      ∀ i j, |((GDesc.model d).matrix r) i j - (mmul ((GDesc.model d).matrix a) ((GDesc.model d).matrix b)) i j|
        ≤ 1 / 10 ^ 12 * sigma d T := by
  obtain ⟨r, sr, hr⟩ := every_group_composition_acc d T a b ha hb ah bh sa sb
  have hs : 0 ≤ sigma d T := le_trans zero_le_one (one_le_sigma d T)
  exact ⟨r, sr, fun i j => (hr i j).trans (mul_le_mul_of_nonneg_right (tol_double h) hs)⟩

/-- … single: `1e-5` -/
theorem every_group_composition_single (h : IsSingle) (d : GDesc) (T : ℝ)
    (a b : Vec ℝ (GDesc.model d : LieModel ℝ).rep) (ha : Mod d T a) (hb : Mod d T b)
    (ah bh : Vec RF (GDesc.model d : LieModel RF).rep) (sa : Same ah a) (sb : Same bh b) :
    ∃ r : Vec ℝ (GDesc.model d : LieModel ℝ).rep, Same ((GDesc.model d : LieModel RF).composition ah bh) r ∧
      ∀ i j, |((GDesc.model d).matrix r) i j - (mmul ((GDesc.model d).matrix a) ((GDesc.model d).matrix b)) i j|
        ≤ 1 / 10 ^ 5 * sigma d T := by
  obtain ⟨r, sr, hr⟩ := every_group_composition_acc d T a b ha hb ah bh sa sb
  have hs : 0 ≤ sigma d T := le_trans zero_le_one (one_le_sigma d T)
  exact ⟨r, sr, fun i j => (hr i j).trans (mul_le_mul_of_nonneg_right (tol_single h) hs)⟩

/-- **C01 accuracy clause, inverse, every group type and every nested Bundle, double** -/
theorem every_group_inverse_double (h : IsDouble) (d : GDesc) (T : ℝ) (a : Vec ℝ (GDesc.model d : LieModel ℝ).rep)
    (ha : Mod d T a) (ah : Vec RF (GDesc.model d : LieModel RF).rep) (sa : Same ah a) :
    ∃ (r : Vec ℝ (GDesc.model d : LieModel ℝ).rep) (Minv : Mat ℝ (GDesc.model d : LieModel ℝ).dim (GDesc.model d : LieModel ℝ).dim),
      Same ((GDesc.model d : LieModel RF).inverse ah) r ∧
      mmul Minv ((GDesc.model d).matrix a) = ident _ ∧ mmul ((GDesc.model d).matrix a) Minv = ident _ ∧
      ∀ i j, |((GDesc.model d).matrix r) i j - Minv i j| ≤ 1 / 10 ^ 12 * sigma d T := by
  obtain ⟨r, Minv, sr, h1, h2, hr⟩ := every_group_inverse_acc d T a ha ah sa
  have hs : 0 ≤ sigma d T := le_trans zero_le_one (one_le_sigma d T)
  exact ⟨r, Minv, sr, h1, h2, fun i j => (hr i j).trans (mul_le_mul_of_nonneg_right (tol_double h) hs)⟩

theorem every_group_inverse_single (h : IsSingle) (d : GDesc) (T : ℝ) (a : Vec ℝ (GDesc.model d : LieModel ℝ).rep)
    (ha : Mod d T a) (ah : Vec RF (GDesc.model d : LieModel RF).rep) (sa : Same ah a) :
    ∃ (r : Vec ℝ (GDesc.model d : LieModel ℝ).rep) (Minv : Mat ℝ (GDesc.model d : LieModel ℝ).dim (GDesc.model d : LieModel ℝ).dim),
      Same ((GDesc.model d : LieModel RF).inverse ah) r ∧
      mmul Minv ((GDesc.model d).matrix a) = ident _ ∧ mmul ((GDesc.model d).matrix a) Minv = ident _ ∧
      ∀ i j, |((GDesc.model d).matrix r) i j - Minv i j| ≤ 1 / 10 ^ 5 * sigma d T := by
  obtain ⟨r, Minv, sr, h1, h2, hr⟩ := every_group_inverse_acc d T a ha ah sa
  have hs : 0 ≤ sigma d T := le_trans zero_le_one (one_le_sigma d T)
  exact ⟨r, Minv, sr, h1, h2, fun i j => (hr i j).trans (mul_le_mul_of_nonneg_right (tol_single h) hs)⟩

end Main2

/-! ## Non-vacuity: a nested Bundle `B[SE3, B[GAL, T2]]` with translations up to 1e3, at `Rounding.binary64/32` -/

/-- the descriptor `B[SE3, B[GAL, T2]]` -/
def dNest : GDesc := .bundle [.se3, .bundle [.gal, .tn 2]]

/-- element `(se3A, (galB, (1, −1000)))` -/
def bunN : Vec ℝ (7 + ((11 + (2 + 0)) + 0)) :=
  vcat se3A (vcat (vcat galB (vcat (mk2 1 (-1000) : Vec ℝ 2) (vzero 0))) (vzero 0))
/-- element `(se3B, (galC, (−7, 1/3)))` -/
def bunM : Vec ℝ (7 + ((11 + (2 + 0)) + 0)) :=
  vcat se3B (vcat (vcat galC (vcat (mk2 (-7) (1 / 3) : Vec ℝ 2) (vzero 0))) (vzero 0))

theorem tn2_mod (x y : ℝ) (hx : |x| ≤ 1000) (hy : |y| ≤ 1000) : tnMod 2 1000 (mk2 x y) := by
  intro i; fin_cases i <;> simpa [mk2, Vec.of]

theorem bunN_mod : Mod dNest 1000 bunN := by
  refine ⟨?_, ⟨?_, ?_, trivial⟩, trivial⟩
  · show se3Mod 1000 (Bundle.fst (n := 7) (m := (11 + (2 + 0)) + 0) bunN)
    unfold bunN; rw [Bundle.fst_vcat]; exact ⟨se3A_unit, se3A_trans⟩
  · show galMod 1000 (Bundle.fst (n := 11) (m := 2 + 0) (Bundle.fst (n := 11 + (2 + 0)) (m := 0)
      (Bundle.snd (n := 7) (m := (11 + (2 + 0)) + 0) bunN)))
    unfold bunN; rw [Bundle.snd_vcat, Bundle.fst_vcat, Bundle.fst_vcat]; exact ⟨galB_unit, galB_bounded⟩
  · show tnMod 2 1000 (Bundle.fst (n := 2) (m := 0) (Bundle.snd (n := 11) (m := 2 + 0)
      (Bundle.fst (n := 11 + (2 + 0)) (m := 0) (Bundle.snd (n := 7) (m := (11 + (2 + 0)) + 0) bunN))))
    unfold bunN; rw [Bundle.snd_vcat, Bundle.fst_vcat, Bundle.snd_vcat, Bundle.fst_vcat]
    exact tn2_mod _ _ (by norm_num) (by norm_num)

theorem bunM_mod : Mod dNest 1000 bunM := by
  refine ⟨?_, ⟨?_, ?_, trivial⟩, trivial⟩
  · show se3Mod 1000 (Bundle.fst (n := 7) (m := (11 + (2 + 0)) + 0) bunM)
    unfold bunM; rw [Bundle.fst_vcat]; exact ⟨se3B_unit, se3B_trans⟩
  · show galMod 1000 (Bundle.fst (n := 11) (m := 2 + 0) (Bundle.fst (n := 11 + (2 + 0)) (m := 0)
      (Bundle.snd (n := 7) (m := (11 + (2 + 0)) + 0) bunM)))
    unfold bunM; rw [Bundle.snd_vcat, Bundle.fst_vcat, Bundle.fst_vcat]; exact ⟨galC_unit, galC_bounded⟩
  · show tnMod 2 1000 (Bundle.fst (n := 2) (m := 0) (Bundle.snd (n := 11) (m := 2 + 0)
      (Bundle.fst (n := 11 + (2 + 0)) (m := 0) (Bundle.snd (n := 7) (m := (11 + (2 + 0)) + 0) bunM))))
    unfold bunM; rw [Bundle.snd_vcat, Bundle.fst_vcat, Bundle.snd_vcat, Bundle.fst_vcat]
    exact tn2_mod _ _ (by norm_num) (by rw [abs_of_pos (by norm_num)]; norm_num)
example : Mod dNest 1000 bunN ∧ Mod dNest 1000 bunM := ⟨bunN_mod, bunM_mod⟩

/-- the nested Bundle in genuine 53-digit arithmetic -/
example : ∃ r : Vec ℝ (GDesc.model dNest : LieModel ℝ).rep,
    Same ((@GDesc.model RF (@instScalarRF Rounding.binary64) dNest).composition (Vec.toRF bunN) (Vec.toRF bunM)) r ∧
    ∀ i j, |((GDesc.model dNest).matrix r) i j
        - (mmul ((GDesc.model dNest).matrix bunN) ((GDesc.model dNest).matrix bunM)) i j| ≤ 1 / 10 ^ 12 * sigma dNest 1000 :=
  @every_group_composition_double Rounding.binary64 (le_refl _) dNest 1000 bunN bunM bunN_mod bunM_mod
    (Vec.toRF bunN) (Vec.toRF bunM) (same_toRF _) (same_toRF _)

/-- … and its inverse in genuine 24-digit arithmetic -/
example : ∃ (r : Vec ℝ (GDesc.model dNest : LieModel ℝ).rep) (Minv : Mat ℝ _ _),
    Same ((@GDesc.model RF (@instScalarRF Rounding.binary32) dNest).inverse (Vec.toRF bunM)) r ∧
    mmul Minv ((GDesc.model dNest).matrix bunM) = ident _ ∧ mmul ((GDesc.model dNest).matrix bunM) Minv = ident _ ∧
    ∀ i j, |((GDesc.model dNest).matrix r) i j - Minv i j| ≤ 1 / 10 ^ 5 * sigma dNest 1000 :=
  @every_group_inverse_single Rounding.binary32 (le_refl _) dNest 1000 bunM bunM_mod (Vec.toRF bunM) (same_toRF _)

/-- the scale of this Bundle is `max(1, T + T²)` (it has a Galilei part): `1001000` at `T = 1000` -/
example : sigma dNest 1000 = 1001000 := by
  simp [sigma, sigmaL, dNest, scale2, scale]
  norm_num

end C01Round
end
