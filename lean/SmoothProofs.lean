import SmoothProofs.Real
import SmoothProofs.C18Conc
import SmoothProofs.C18Inventory
import SmoothProofs.Gen.SharedState
