import SmoothProofs.Real
