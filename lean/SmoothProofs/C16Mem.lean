/-
  C16Mem.lean — helper lemmas of property C16 about the buffer model `SmoothModel/Mem.lean`:
  `write` / `load` algebra, sizes of the descriptors vs the `LieModel`s, the sub-view tables.
-/
import Mathlib.Data.List.Basic
import SmoothModel.Mem
import SmoothProofs.C06Psum

namespace Mem

/-! ### `write` / `load` -/

@[simp] theorem write_size (b : Buf) (off : Nat) (vs : List Word) : (write b off vs).size = b.size := by
  induction vs generalizing b off with
  | nil => rfl
  | cons w ws ih => simp [write, ih]

/-- a word outside `[off, off + |vs|)` is not touched -/
theorem write_frame (b : Buf) (off : Nat) (vs : List Word) (i : Nat)
    (h : i < off ∨ off + vs.length ≤ i) : (write b off vs)[i]? = b[i]? := by
  induction vs generalizing b off with
  | nil => rfl
  | cons w ws ih =>
    simp only [write]
    rw [ih (b.setIfInBounds off w) (off + 1) (by simp only [List.length_cons] at h; omega)]
    rw [Array.getElem?_setIfInBounds]
    have : off ≠ i := by simp only [List.length_cons] at h; omega
    simp [this]

/-- the words written are read back -/
theorem write_read (b : Buf) (off : Nat) (vs : List Word) (j : Nat)
    (hb : off + vs.length ≤ b.size) (hj : j < vs.length) : (write b off vs)[off + j]? = vs[j]? := by
  induction vs generalizing b off j with
  | nil => simp at hj
  | cons w ws ih =>
    simp only [write]
    simp only [List.length_cons] at hb hj
    cases j with
    | zero =>
      rw [write_frame _ _ _ _ (Or.inl (by omega)), Array.getElem?_setIfInBounds]
      have : off < b.size := by omega
      simp [this]
    | succ k =>
      have := ih (b.setIfInBounds off w) (off + 1) k (by simp; omega) (by omega)
      rw [show off + (k + 1) = off + 1 + k by omega, this]
      simp

theorem load_length (b : Buf) (off len : Nat) : (load b off len).length = len := by
  simp [load]

theorem load_getElem? (b : Buf) (off len j : Nat) :
    (load b off len)[j]? = if j < len then some (b[off + j]?.getD 0) else none := by
  unfold load
  by_cases h : j < len
  · simp [h, Array.getD_eq_getD_getElem?]
  · simp [h]

/-- reading back what was written: `load ∘ write = id` on an in-bounds range -/
theorem load_write (b : Buf) (off : Nat) (vs : List Word) (hb : off + vs.length ≤ b.size) :
    load (write b off vs) off vs.length = vs := by
  apply List.ext_getElem?
  intro j
  rw [load_getElem?]
  by_cases h : j < vs.length
  · rw [if_pos h, write_read b off vs j hb h, List.getElem?_eq_getElem h]; rfl
  · rw [if_neg h, List.getElem?_eq_none (by omega)]

/-- a range disjoint from the written one reads the same before and after -/
theorem load_write_disjoint (b : Buf) (off : Nat) (vs : List Word) (o len : Nat)
    (h : o + len ≤ off ∨ off + vs.length ≤ o) : load (write b off vs) o len = load b o len := by
  apply List.ext_getElem?
  intro j
  rw [load_getElem?, load_getElem?]
  by_cases hj : j < len
  · rw [if_pos hj, if_pos hj, write_frame _ _ _ _ (by omega)]
  · rw [if_neg hj, if_neg hj]

/-! ### descriptor sizes are the sizes of the models -/

section sizes
variable {α : Type} [Scalar α]

mutual
  theorem model_rep : (d : GDesc) → (GDesc.model (α := α) d).rep = repSize d
    | .so2 => rfl | .so3 => rfl | .se2 => rfl | .se3 => rfl | .c1 => rfl | .gal => rfl
    | .tn _ => rfl | .sek3 _ => rfl
    | .bundle ps => by
      show (Bundle.bundle (GDesc.models ps)).rep = repSizeL ps
      exact models_rep ps
  theorem models_rep : (ps : List GDesc) → (Bundle.bundle (GDesc.models (α := α) ps)).rep = repSizeL ps
    | [] => rfl
    | p :: ps => by
      show (GDesc.model p).rep + (Bundle.bundle (GDesc.models ps)).rep = repSize p + repSizeL ps
      rw [model_rep p, models_rep ps]
end

mutual
  theorem model_dof : (d : GDesc) → (GDesc.model (α := α) d).dof = dofSize d
    | .so2 => rfl | .so3 => rfl | .se2 => rfl | .se3 => rfl | .c1 => rfl | .gal => rfl
    | .tn _ => rfl | .sek3 _ => rfl
    | .bundle ps => by
      show (Bundle.bundle (GDesc.models ps)).dof = dofSizeL ps
      exact models_dof ps
  theorem models_dof : (ps : List GDesc) → (Bundle.bundle (GDesc.models (α := α) ps)).dof = dofSizeL ps
    | [] => rfl
    | p :: ps => by
      show (GDesc.model p).dof + (Bundle.bundle (GDesc.models ps)).dof = dofSize p + dofSizeL ps
      rw [model_dof p, models_dof ps]
end

mutual
  theorem model_dim : (d : GDesc) → (GDesc.model (α := α) d).dim = dimSize d
    | .so2 => rfl | .so3 => rfl | .se2 => rfl | .se3 => rfl | .c1 => rfl | .gal => rfl
    | .tn _ => rfl | .sek3 _ => rfl
    | .bundle ps => by
      show (Bundle.bundle (GDesc.models ps)).dim = dimSizeL ps
      exact models_dim ps
  theorem models_dim : (ps : List GDesc) → (Bundle.bundle (GDesc.models (α := α) ps)).dim = dimSizeL ps
    | [] => rfl
    | p :: ps => by
      show (GDesc.model p).dim + (Bundle.bundle (GDesc.models ps)).dim = dimSize p + dimSizeL ps
      rw [model_dim p, models_dim ps]
end

mutual
  theorem model_comm : (d : GDesc) → (GDesc.model (α := α) d).comm = isComm d
    | .so2 => rfl | .so3 => rfl | .se2 => rfl | .se3 => rfl | .c1 => rfl | .gal => rfl
    | .tn _ => rfl | .sek3 _ => rfl
    | .bundle ps => by
      show (Bundle.bundle (GDesc.models ps)).comm = isCommL ps
      exact models_comm ps
  theorem models_comm : (ps : List GDesc) → (Bundle.bundle (GDesc.models (α := α) ps)).comm = isCommL ps
    | [] => rfl
    | p :: ps => by
      show ((GDesc.model p).comm && (Bundle.bundle (GDesc.models ps)).comm) = (isComm p && isCommL ps)
      rw [model_comm p, models_comm ps]
end

end sizes

theorem repSizeL_eq_sum (ps : List GDesc) : repSizeL ps = (ps.map repSize).sum := by
  induction ps with
  | nil => rfl
  | cons p ps ih => simp [repSizeL, ih]

theorem dofSizeL_eq_sum (ps : List GDesc) : dofSizeL ps = (ps.map dofSize).sum := by
  induction ps with
  | nil => rfl
  | cons p ps ih => simp [dofSizeL, ih]

theorem dimSizeL_eq_sum (ps : List GDesc) : dimSizeL ps = (ps.map dimSize).sum := by
  induction ps with
  | nil => rfl
  | cons p ps ih => simp [dimSizeL, ih]

/-! ### the sub-view tables -/

/-- the table computed from `subview` is the closed form `subviewsSpec` -/
theorem subviews_eq_spec (d : GDesc) : subviews d = subviewsSpec d := by
  cases d with
  | so2 => rfl
  | so3 => rfl
  | se2 => rfl
  | se3 => rfl
  | c1 => rfl
  | gal => rfl
  | tn n => rfl
  | sek3 k =>
    simp only [subviews, accessors, subviewsSpec, List.filterMap_append, List.filterMap_map]
    congr 1
    rw [← List.filterMap_eq_map]
    apply List.filterMap_congr
    intro i hi
    have : i < k := List.mem_range.1 hi
    simp [subview, this]
  | bundle ps =>
    simp only [subviews, accessors, subviewsSpec, List.filterMap_map]
    rw [← List.filterMap_eq_map]
    apply List.filterMap_congr
    intro i hi
    have h : i < ps.length := List.mem_range.1 hi
    simp [subview, List.getElem?_eq_getElem h, List.getD_eq_getElem?_getD]

/-- SE_K_3: `k` translation triples followed by the quaternion tile `[0, 3k + 4)` -/
theorem tiles_r3 (k s : Nat) :
    Tiles ((List.range k).map (fun i => (s + 3 * i, 3))) s (s + 3 * k) := by
  induction k generalizing s with
  | zero => simpa using Tiles.nil s
  | succ n ih =>
    rw [List.range_succ_eq_map, List.map_cons, List.map_map]
    have h := ih (s + 3)
    have e : (fun i => (s + 3 + 3 * i, 3)) = ((fun i => (s + 3 * i, 3)) ∘ Nat.succ) := by
      funext i; simp only [Function.comp, Nat.succ_eq_add_one]; congr 1; omega
    rw [e] at h
    have h2 : s + 3 + 3 * n = s + 3 * (n + 1) := by omega
    rw [h2] at h
    simpa using Tiles.cons s 3 _ _ (by simpa using h)

theorem tiles_bundle (ps : List GDesc) :
    Tiles (subviewsSpec (.bundle ps)) 0 (repSize (.bundle ps)) := by
  have h1 : subviewsSpec (.bundle ps) = Bundle.segs 0 (ps.map repSize) := by
    rw [← Bundle.psum_segments]
    simp only [subviewsSpec, repPsum, List.length_map]
    apply List.map_congr_left
    intro i hi
    have h : i < ps.length := List.mem_range.1 hi
    simp [List.getD_eq_getElem?_getD, List.getElem?_eq_getElem h]
  rw [h1]
  have := tiles_segs 0 (ps.map repSize)
  simpa [repSize, repSizeL_eq_sum] using this


/-! ### lengths of the value-level results -/

section lengths
set_option linter.unusedSectionVars false
variable {α : Type} [Scalar α] [WordRep α]

theorem wordsOfVec_length {n : Nat} (v : Vec α n) : (wordsOfVec v).length = n := by
  simp [wordsOfVec, Lin.toArray]

theorem valIdentity_length (G : LieModel α) : (valIdentity G).length = G.rep := wordsOfVec_length _
theorem valCompose_length (G : LieModel α) (x y : List Word) : (valCompose G x y).length = G.rep :=
  wordsOfVec_length _
theorem valPlus_length (G : LieModel α) (x a : List Word) : (valPlus G x a).length = G.rep :=
  wordsOfVec_length _

end lengths

/-- the length of a resolved sub-view is the RepSize of the sub-part's descriptor -/
theorem resolvePath_len : ∀ (p : List Acc) (d : GDesc) (o l : Nat) (sd : GDesc),
    resolvePath d p = some (o, l, sd) → l = repSize sd
  | [], d, o, l, sd, h => by
    simp only [resolvePath, Option.some.injEq, Prod.mk.injEq] at h
    obtain ⟨_, rfl, rfl⟩ := h; rfl
  | a :: rest, d, o, l, sd, h => by
    simp only [resolvePath] at h
    cases hs : subview d a with
    | none => simp [hs] at h
    | some t =>
      obtain ⟨o1, l1, d1⟩ := t
      simp only [hs] at h
      cases hr : resolvePath d1 rest with
      | none => simp [hr] at h
      | some t2 =>
        obtain ⟨o2, l2, d2⟩ := t2
        simp only [hr, Option.some.injEq, Prod.mk.injEq] at h
        obtain ⟨_, rfl, rfl⟩ := h
        exact resolvePath_len rest d1 o2 l2 d2 hr

end Mem
