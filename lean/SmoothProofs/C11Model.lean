/-
  C11Model.lean — lemmas about the executable model of the cumulative spline (SmoothModel/CSpline.lean,
  CSplineJac.lean) used by the property theorems C11 / C13: fold projections, the reduction order
  `treeSum` is a sum, `monomial_derivative` rows are the derivatives of the monomials.
  Everything is in namespace `C11`.
-/
import SmoothProofs.Real
import Mathlib.Algebra.BigOperators.Fin
import Mathlib.Algebra.BigOperators.Intervals
import Mathlib.Algebra.Order.BigOperators.Group.Finset
import Mathlib.Data.Nat.Factorial.Basic
import Mathlib.Data.Nat.Choose.Basic
import Mathlib.Tactic.Ring
import Mathlib.Tactic.Linarith

open Lin Scalar

namespace C11

/-- a projection that commutes with the step function commutes with the fold -/
theorem foldl_proj {σ τ ι : Type*} (f : σ → ι → σ) (fg : τ → ι → τ) (p : σ → τ)
    (h : ∀ s i, p (f s i) = fg (p s) i) (l : List ι) (s : σ) :
    p (l.foldl f s) = l.foldl fg (p s) := by
  induction l generalizing s with
  | nil => rfl
  | cons a l ih => simp only [List.foldl_cons]; rw [ih, h]

/-- left-to-right `vsum` is the `Finset` sum -/
theorem vsum_eq_sum : ∀ (n : Nat) (f : Fin n → ℝ), vsum n f = ∑ i, f i
  | 0, f => by simp [vsum]
  | n + 1, f => by rw [vsum, vsum_eq_sum n, Fin.sum_univ_castSucc]

/-- Eigen's unrolled tree reduction computes the sum (over ℝ) -/
theorem treeSum_eq (f : Nat → ℝ) : ∀ (n s : Nat), CSpline.treeSum f s n = ∑ i ∈ Finset.range n, f (s + i) := by
  intro n
  induction n using Nat.strong_induction_on with
  | _ n ih =>
    intro s
    rw [CSpline.treeSum]
    by_cases h0 : n = 0
    · subst h0; simp
    · by_cases h1 : n = 1
      · subst h1; simp
      · rw [if_neg h0, if_neg h1]
        have hlt : n / 2 < n := by omega
        have hlt2 : n - n / 2 < n := by omega
        rw [ih _ hlt, ih _ hlt2]
        have hn : n = n / 2 + (n - n / 2) := by omega
        conv_rhs => rw [hn, Finset.sum_range_add]
        simp [Nat.add_assoc]

theorem monoDerivP1_eq (u : ℝ) : ∀ n, CSpline.monoDerivP1 u n = u ^ n
  | 0 => by simp [CSpline.monoDerivP1]
  | n + 1 => by rw [CSpline.monoDerivP1, monoDerivP1_eq u n, pow_succ]

/-- the integer factor `P2` of `monomial_derivative` is the falling factorial `i (i−1) ⋯ (i−p+1)` -/
theorem monoDerivP2_eq (p : Nat) : ∀ n, CSpline.monoDerivP2 p (p + n) = (p + n).descFactorial p := by
  have hfac : (List.range p).foldl (fun acc t => acc * (t + 1)) 1 = p.factorial := by
    induction p with
    | zero => rfl
    | succ p ih => rw [List.range_succ, List.foldl_append, ih]; simp [Nat.factorial_succ, Nat.mul_comm]
  intro n
  unfold CSpline.monoDerivP2
  rw [if_neg (by omega), Nat.add_sub_cancel_left, hfac]
  induction n with
  | zero => simp [Nat.descFactorial_self]
  | succ n ih =>
    rw [List.range_succ, List.foldl_append, ih]
    simp only [List.foldl_cons, List.foldl_nil]
    have h := Nat.succ_descFactorial (p + n) p
    -- (p+n+1-p) * (p+n+1).descFactorial p = (p+n+1) * (p+n).descFactorial p
    have h' : (n + 1) * (p + n + 1).descFactorial p = (p + n).descFactorial p * (p + 1 + n) := by
      have : p + n + 1 - p = n + 1 := by omega
      rw [this] at h; rw [h]; ring
    rw [← h', Nat.mul_div_cancel_left _ (Nat.succ_pos n)]
    rfl

theorem monoDerivP2_lt {p i : Nat} (h : i < p) : CSpline.monoDerivP2 p i = 0 := by
  unfold CSpline.monoDerivP2; rw [if_pos h]

/-- entries of `monomial_derivative K u p` over ℝ: `d^p/du^p u^i = i^{(p)} u^{i−p}` -/
theorem monomial_derivative_apply (K : Nat) (u : ℝ) (p : Nat) (i : Fin (K + 1)) :
    (CSpline.monomial_derivative K u p) i = (i.val.descFactorial p : ℝ) * u ^ (i.val - p) := by
  unfold CSpline.monomial_derivative
  simp only [Vec.of_get]
  by_cases hK : p > K
  · rw [if_pos hK]
    have : i.val < p := by have := i.isLt; omega
    rw [Nat.descFactorial_of_lt this]; simp
  · rw [if_neg hK]
    by_cases hi : i.val < p
    · rw [if_pos hi, Nat.descFactorial_of_lt hi]; simp
    · rw [if_neg hi]
      obtain ⟨n, hn⟩ : ∃ n, i.val = p + n := ⟨i.val - p, by omega⟩
      rw [monoDerivP1_eq, hn, monoDerivP2_eq, Nat.add_sub_cancel_left]
      simp [Scalar.nat_real, mul_comm]

/-- `uvec.dot(Bcum.col(j))` over ℝ is the sum `Σ_r U_r B_{rj}` -/
theorem bdot_eq_sum {K : Nat} (U : Vec ℝ (K + 1)) (B : Mat ℝ (K + 1) (K + 1)) (j : Fin (K + 1)) :
    CSpline.bdot U B j = ∑ r : Fin (K + 1), U r * B r j := by
  unfold CSpline.bdot
  rw [treeSum_eq]
  simp only [Nat.zero_add]
  rw [Finset.sum_range]
  apply Finset.sum_congr rfl
  intro r _
  simp [r.isLt]

end C11
