/-
  C02Log.lean — `log` is the principal inverse of `exp`: SO2, C1, Tn (this file),
  SE2 and SO3 (C02LogSO3.lean).  `atan2 y x` is `Complex.arg ⟨x, y⟩`.
-/
import SmoothProofs.C02Basic
import Mathlib.Analysis.SpecialFunctions.Complex.Arg
import Mathlib.Analysis.SpecialFunctions.Log.Basic
import Mathlib.Analysis.SpecialFunctions.Sqrt
import Mathlib.Tactic.Linarith
import Mathlib.Tactic.FieldSimp

open Lin Scalar

namespace C02

/-! ### facts about `Complex.arg ⟨x, y⟩` -/

theorem norm_mk (x y : ℝ) : ‖(⟨x, y⟩ : ℂ)‖ = Real.sqrt (x * x + y * y) := by
  rw [Complex.norm_def, Complex.normSq_mk]

theorem sin_arg_mk (x y : ℝ) :
    Real.sin (Complex.arg ⟨x, y⟩) = y / Real.sqrt (x * x + y * y) := by
  rw [Complex.sin_arg, norm_mk]

theorem cos_arg_mk (x y : ℝ) (h : x * x + y * y ≠ 0) :
    Real.cos (Complex.arg ⟨x, y⟩) = x / Real.sqrt (x * x + y * y) := by
  have hz : (⟨x, y⟩ : ℂ) ≠ 0 := by
    intro h0
    have h1 := congrArg Complex.re h0
    have h2 := congrArg Complex.im h0
    simp at h1 h2
    apply h; rw [h1, h2]; ring
  rw [Complex.cos_arg hz, norm_mk]

theorem sin_arg_mk_unit (x y : ℝ) (h : x * x + y * y = 1) : Real.sin (Complex.arg ⟨x, y⟩) = y := by
  rw [sin_arg_mk, h, Real.sqrt_one, div_one]

theorem cos_arg_mk_unit (x y : ℝ) (h : x * x + y * y = 1) : Real.cos (Complex.arg ⟨x, y⟩) = x := by
  rw [cos_arg_mk x y (by rw [h]; exact one_ne_zero), h, Real.sqrt_one, div_one]

theorem arg_mk_polar (r θ : ℝ) (hr : 0 < r) (h1 : -Real.pi < θ) (h2 : θ ≤ Real.pi) :
    Complex.arg ⟨r * Real.cos θ, r * Real.sin θ⟩ = θ := by
  have : (⟨r * Real.cos θ, r * Real.sin θ⟩ : ℂ)
      = (r : ℂ) * (Complex.cos θ + Complex.sin θ * Complex.I) := by
    apply Complex.ext <;> simp [← Complex.ofReal_cos, ← Complex.ofReal_sin]
  rw [this, Complex.arg_mul_cos_add_sin_mul_I hr ⟨h1, h2⟩]

theorem arg_mk_cos_sin (θ : ℝ) (h1 : -Real.pi < θ) (h2 : θ ≤ Real.pi) :
    Complex.arg ⟨Real.cos θ, Real.sin θ⟩ = θ := by
  have := arg_mk_polar 1 θ one_pos h1 h2
  simpa using this

/-! ### SO2 -/

/-- the SO2 logarithm is the principal angle -/
theorem so2_log_range (g : Vec ℝ 2) :
    -Real.pi < (SO2.log g) 0 ∧ (SO2.log g) 0 ≤ Real.pi := by
  simp only [SO2.log, mk1, Vec.of_get, scalar_atan2]
  exact ⟨Complex.neg_pi_lt_arg _, Complex.arg_le_pi _⟩

theorem so2_log_abs_le_pi (g : Vec ℝ 2) : |(SO2.log g) 0| ≤ Real.pi :=
  abs_le.2 ⟨(so2_log_range g).1.le, (so2_log_range g).2⟩

theorem so2_exp_log (g : Vec ℝ 2) (h : g 0 * g 0 + g 1 * g 1 = 1) :
    SO2.exp (SO2.log g) = g := by
  have h' : g 1 * g 1 + g 0 * g 0 = 1 := by rw [add_comm]; exact h
  ext i
  fin_cases i <;>
    simp [SO2.exp, SO2.log, mk1, mk2, sin_arg_mk_unit _ _ h', cos_arg_mk_unit _ _ h']

theorem so2_log_exp (a : Vec ℝ 1) (h1 : -Real.pi < a 0) (h2 : a 0 ≤ Real.pi) :
    SO2.log (SO2.exp a) = a := by
  ext i
  fin_cases i
  simp [SO2.exp, SO2.log, mk1, mk2, arg_mk_cos_sin _ h1 h2]

/-! ### C1 -/

theorem c1_exp_log (g : Vec ℝ 2) (h : g 0 * g 0 + g 1 * g 1 ≠ 0) :
    C1.exp (C1.log g) = g := by
  have h' : g 1 * g 1 + g 0 * g 0 ≠ 0 := by rw [add_comm]; exact h
  have hpos : 0 < g 0 * g 0 + g 1 * g 1 :=
    lt_of_le_of_ne (add_nonneg (mul_self_nonneg _) (mul_self_nonneg _)) (Ne.symm h)
  have hs : 0 < Real.sqrt (g 0 * g 0 + g 1 * g 1) := Real.sqrt_pos.2 hpos
  have hc : g 1 * g 1 + g 0 * g 0 = g 0 * g 0 + g 1 * g 1 := add_comm _ _
  have e0 : (C1.exp (C1.log g)) 0 = Real.sqrt (g 0 * g 0 + g 1 * g 1) *
      (g 0 / Real.sqrt (g 0 * g 0 + g 1 * g 1)) := by
    simp [C1.exp, C1.log, mk2, sin_arg_mk, Real.exp_log hs, hc]
  have e1 : (C1.exp (C1.log g)) 1 = Real.sqrt (g 0 * g 0 + g 1 * g 1) *
      (g 1 / Real.sqrt (g 0 * g 0 + g 1 * g 1)) := by
    simp [C1.exp, C1.log, mk2, cos_arg_mk _ _ h', Real.exp_log hs, hc]
  ext i
  fin_cases i
  · exact e0.trans (mul_div_cancel₀ _ hs.ne')
  · exact e1.trans (mul_div_cancel₀ _ hs.ne')

theorem c1_log_exp (a : Vec ℝ 2) (h1 : -Real.pi < a 1) (h2 : a 1 ≤ Real.pi) :
    C1.log (C1.exp a) = a := by
  have hn : Real.exp (a 0) * Real.sin (a 1) * (Real.exp (a 0) * Real.sin (a 1)) +
      Real.exp (a 0) * Real.cos (a 1) * (Real.exp (a 0) * Real.cos (a 1))
      = Real.exp (a 0) * Real.exp (a 0) := by
    have := Real.sin_sq_add_cos_sq (a 1)
    linear_combination (Real.exp (a 0) * Real.exp (a 0)) * this
  ext i
  fin_cases i
  · simp only [C1.exp, C1.log, mk2, Vec.of_get, scalar_exp, scalar_sin, scalar_cos, scalar_sqrt,
      scalar_log, Fin.zero_eta, Fin.isValue]
    rw [hn, Real.sqrt_mul_self (Real.exp_pos _).le, Real.log_exp]
  · simp only [C1.exp, C1.log, mk2, Vec.of_get, scalar_exp, scalar_sin, scalar_cos, scalar_atan2,
      Fin.mk_one, Fin.isValue]
    exact arg_mk_polar _ _ (Real.exp_pos _) h1 h2

/-! ### Tn -/

theorem tn_exp_log {n : Nat} (g : Vec ℝ n) : Tn.exp (Tn.log g) = g := rfl
theorem tn_log_exp {n : Nat} (a : Vec ℝ n) : Tn.log (Tn.exp a) = a := rfl

end C02
