/-
  C02SO3.lean — SO3: the quaternion `exp` (closed-form branch) has the Rodrigues rotation matrix,
  which is the matrix exponential of `hat a`, for every magnitude of `a`.
-/
import SmoothProofs.C02Exp

open Lin Scalar

namespace C02

/-- `hat a` as a literal 3×3 matrix -/
def K3 (x y z : ℝ) : Matrix (Fin 3) (Fin 3) ℝ := !![0, -z, y; z, 0, -x; -y, x, 0]

theorem so3_hat_toM (a : Vec ℝ 3) : toM (SO3.hat a) = K3 (a 0) (a 1) (a 2) := by
  ext i j; fin_cases i <;> fin_cases j <;> simp [toM, SO3.hat, mat3, K3]

/-- `K³ = −‖a‖² K` -/
theorem K3_cube (x y z : ℝ) :
    K3 x y z * (K3 x y z * K3 x y z) = (-(x*x + y*y + z*z)) • K3 x y z := by
  ext i j
  fin_cases i <;> fin_cases j <;>
    simp [K3, Matrix.mul_apply, Fin.sum_univ_three] <;> ring

/-- Rodrigues matrix with coefficient functions `f, g`: `1 + f K + g K²` -/
def rodrigues (f g : ℝ) (x y z : ℝ) : Matrix (Fin 3) (Fin 3) ℝ :=
  1 + f • K3 x y z + g • (K3 x y z * K3 x y z)

/-- the Rodrigues curve `u ↦ 1 + (sin uθ/θ) K + ((1−cos uθ)/θ²) K²` -/
noncomputable def rodCurve (x y z θ u : ℝ) : Matrix (Fin 3) (Fin 3) ℝ :=
  rodrigues (Real.sin (u*θ) / θ) ((1 - Real.cos (u*θ)) / (θ*θ)) x y z

/-- it solves `Φ' = K Φ` entrywise (`θ² = ‖a‖²`, `θ ≠ 0`) -/
theorem rodCurve_hasDerivAt (x y z θ : ℝ) (hθ : θ ≠ 0) (hn : θ * θ = x*x + y*y + z*z)
    (t : ℝ) (i j : Fin 3) :
    HasDerivAt (fun u => rodCurve x y z θ u i j) ((K3 x y z * rodCurve x y z θ t) i j) t := by
  set K := K3 x y z with hK
  have hl : HasDerivAt (fun u : ℝ => u * θ) θ t := by
    simpa using (hasDerivAt_id t).mul_const θ
  have hmul : K * rodCurve x y z θ t = K + (Real.sin (t*θ) / θ) • (K * K)
      + ((1 - Real.cos (t*θ)) / (θ*θ)) • ((-(x*x + y*y + z*z)) • K) := by
    simp only [rodCurve, rodrigues, mul_add, mul_one, Matrix.mul_smul, ← hK, hK ▸ K3_cube x y z]
  rw [hmul]
  have hd := (((hl.sin.div_const θ).mul_const (K i j)).add
    (((hl.cos.const_sub 1).div_const (θ*θ)).mul_const ((K * K) i j))).const_add
      ((1 : Matrix (Fin 3) (Fin 3) ℝ) i j)
  have he : (fun u => rodCurve x y z θ u i j) = fun u => (1 : Matrix (Fin 3) (Fin 3) ℝ) i j +
      (Real.sin (u*θ) / θ * K i j + (1 - Real.cos (u*θ)) / (θ*θ) * (K * K) i j) := by
    funext u
    simp only [rodCurve, rodrigues, ← hK, Matrix.add_apply, Matrix.smul_apply, smul_eq_mul]
    ring
  rw [he]
  refine hd.congr_deriv ?_
  simp only [Matrix.add_apply, Matrix.smul_apply, smul_eq_mul]
  rw [← hn]
  field_simp
  ring

theorem rodCurve_zero (x y z θ : ℝ) : rodCurve x y z θ 0 = 1 := by
  simp [rodCurve, rodrigues]

/-- Rodrigues' formula is the matrix exponential, `θ² = ‖a‖²`, `θ ≠ 0`. -/
theorem rodrigues_eq_exp (x y z θ : ℝ) (hθ : θ ≠ 0) (hn : θ * θ = x*x + y*y + z*z) :
    rodrigues (Real.sin θ / θ) ((1 - Real.cos θ) / (θ * θ)) x y z
      = NormedSpace.exp (K3 x y z) := by
  have h := Matrix.eq_exp_of_entry_hasDerivAt_one (K3 x y z) (rodCurve x y z θ)
    (rodCurve_zero x y z θ) (rodCurve_hasDerivAt x y z θ hθ hn)
  rw [← h]
  simp [rodCurve]

/-- `K = 0` case (`a = 0`) -/
theorem rodrigues_zero (f g : ℝ) : rodrigues f g 0 0 0 = NormedSpace.exp (K3 0 0 0) := by
  have h0 : K3 0 0 0 = 0 := by
    ext i j; fin_cases i <;> fin_cases j <;> simp [K3]
  simp [rodrigues, h0, NormedSpace.exp_zero]

/-- the canonical sign flip does not change the rotation matrix -/
theorem so3_matrix_canon (q : Vec ℝ 4) : SO3.matrix (SO3.canon q) = SO3.matrix q := by
  unfold SO3.canon
  split_ifs with h
  · ext i j
    fin_cases i <;> fin_cases j <;> simp [SO3.matrix, mat3]
  · rfl

/-- closed-form branch of `SO3.exp` -/
noncomputable def so3ExpClosed (a : Vec ℝ 3) : Vec ℝ 4 :=
  let th := Real.sqrt (sqNorm a)
  SO3.canon (mk4 (Real.sin (th / 2) / th * a 0) (Real.sin (th / 2) / th * a 1)
    (Real.sin (th / 2) / th * a 2) (Real.cos (th / 2)))

theorem so3_exp_eq_closed (a : Vec ℝ 3) (h : ¬ sqNorm a < Scalar.eps2) :
    SO3.exp a = so3ExpClosed a := by
  simp [SO3.exp, SO3.expAB, so3ExpClosed, h]

/-- the quaternion `(s/θ · a, c)` with `s = sin(θ/2)`, `c = cos(θ/2)` has the Rodrigues matrix -/
theorem so3_quat_matrix_rodrigues (x y z θ : ℝ) :
    toM (SO3.matrix (mk4 (Real.sin (θ / 2) / θ * x) (Real.sin (θ / 2) / θ * y)
      (Real.sin (θ / 2) / θ * z) (Real.cos (θ / 2))))
    = rodrigues (Real.sin θ / θ) ((1 - Real.cos θ) / (θ * θ)) x y z := by
  have hs : Real.sin θ = 2 * Real.sin (θ/2) * Real.cos (θ/2) := by
    rw [← Real.sin_two_mul]; congr 1; ring
  have hc : Real.cos θ = 1 - 2 * Real.sin (θ/2) * Real.sin (θ/2) := by
    have : Real.cos θ = Real.cos (2 * (θ/2)) := by congr 1; ring
    rw [this, Real.cos_two_mul, Real.cos_sq']; ring
  rw [hs, hc]
  generalize Real.sin (θ/2) = s
  generalize Real.cos (θ/2) = c
  ext i j
  fin_cases i <;> fin_cases j <;>
    simp [toM, SO3.matrix, mat3, mk4, rodrigues, K3] <;>
    ring

/-- SO3, closed form, ANY magnitude of `a` (including `‖a‖ > π` and `a = 0`). -/
theorem so3_expClosed_is_matrix_exp (a : Vec ℝ 3) :
    toM (SO3.matrix (so3ExpClosed a)) = NormedSpace.exp (toM (SO3.hat a)) := by
  rw [so3_hat_toM]
  unfold so3ExpClosed
  simp only []
  rw [so3_matrix_canon, so3_quat_matrix_rodrigues]
  have hnn : 0 ≤ sqNorm a := sqNorm3_nonneg a
  by_cases h0 : Real.sqrt (sqNorm a) = 0
  · have hz : sqNorm a = 0 := (Real.sqrt_eq_zero hnn).1 h0
    rw [sqNorm3] at hz
    have hx : a 0 = 0 := by nlinarith [mul_self_nonneg (a 0), mul_self_nonneg (a 1), mul_self_nonneg (a 2)]
    have hy : a 1 = 0 := by nlinarith [mul_self_nonneg (a 0), mul_self_nonneg (a 1), mul_self_nonneg (a 2)]
    have hzz : a 2 = 0 := by nlinarith [mul_self_nonneg (a 0), mul_self_nonneg (a 1), mul_self_nonneg (a 2)]
    rw [hx, hy, hzz]
    exact rodrigues_zero _ _
  · apply rodrigues_eq_exp _ _ _ _ h0
    rw [Real.mul_self_sqrt hnn, sqNorm3]

/-- SO3, actual model function, closed-form branch. -/
theorem so3_exp_is_matrix_exp_closed (a : Vec ℝ 3) (h : ¬ sqNorm a < Scalar.eps2) :
    toM (SO3.matrix (SO3.exp a)) = NormedSpace.exp (toM (SO3.hat a)) := by
  rw [so3_exp_eq_closed a h]; exact so3_expClosed_is_matrix_exp a

end C02
