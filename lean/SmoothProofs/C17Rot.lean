/-
  C17Rot.lean — `rot_x / rot_y / rot_z (t) = exp (t e_i)`:
  * as coefficient vectors whenever `exp` takes its closed-form branch (`t² ≥ eps2`), for every such
    `t` incl. `|t| > π` where the canonical sign flip fires in both;
  * as rotations for ALL `t`: `matrix (rot_i t)` is the matrix exponential of `hat (t e_i)`.
-/
import SmoothProofs.C02SO3
import SmoothProofs.C17Lift

open Lin Scalar

namespace C17P

noncomputable def rotAxis (i : Fin 3) (t : ℝ) : Vec ℝ 4 :=
  match i with
  | 0 => SO3.rot_x t
  | 1 => SO3.rot_y t
  | 2 => SO3.rot_z t

theorem sqNorm_axisTangent (i : Fin 3) (t : ℝ) : sqNorm (Conv.axisTangent i t) = t * t := by
  rw [C02.sqNorm3]
  fin_cases i <;> simp [Conv.axisTangent, Vec.of]

/-- `sin(|t|/2)/|t| · t = sin(t/2)` -/
theorem half_sinc_abs (t : ℝ) : Real.sin (Real.sqrt (t * t) / 2) / Real.sqrt (t * t) * t = Real.sin (t / 2) := by
  rw [Real.sqrt_mul_self_eq_abs]
  rcases lt_trichotomy t 0 with h | h | h
  · rw [abs_of_neg h]
    have : -t / 2 = -(t / 2) := by ring
    rw [this, Real.sin_neg]
    have ht : t ≠ 0 := ne_of_lt h
    field_simp
  · subst h; simp
  · rw [abs_of_pos h]
    have ht : t ≠ 0 := ne_of_gt h
    field_simp

theorem half_cos_abs (t : ℝ) : Real.cos (Real.sqrt (t * t) / 2) = Real.cos (t / 2) := by
  rw [Real.sqrt_mul_self_eq_abs]
  rcases le_or_gt 0 t with h | h
  · rw [abs_of_nonneg h]
  · rw [abs_of_neg h]
    have : -t / 2 = -(t / 2) := by ring
    rw [this, Real.cos_neg]

theorem axisTangent_get (i j : Fin 3) (t : ℝ) : (Conv.axisTangent i t) j = if j = i then t else 0 := by
  simp [Conv.axisTangent, Vec.of]

theorem rot_x_eq_expClosed (t : ℝ) : SO3.rot_x t = C02.so3ExpClosed (Conv.axisTangent 0 t) := by
  unfold C02.so3ExpClosed
  simp only [sqNorm_axisTangent, axisTangent_get, SO3.rot_x, C02.scalar_sin, C02.scalar_cos, Scalar.nat_real]
  congr 1
  ext k
  fin_cases k <;> simp [mk4, Vec.of, half_sinc_abs, half_cos_abs]

theorem rot_y_eq_expClosed (t : ℝ) : SO3.rot_y t = C02.so3ExpClosed (Conv.axisTangent 1 t) := by
  unfold C02.so3ExpClosed
  simp only [sqNorm_axisTangent, axisTangent_get, SO3.rot_y, C02.scalar_sin, C02.scalar_cos, Scalar.nat_real]
  congr 1
  ext k
  fin_cases k <;> simp [mk4, Vec.of, half_sinc_abs, half_cos_abs]

theorem rot_z_eq_expClosed (t : ℝ) : SO3.rot_z t = C02.so3ExpClosed (Conv.axisTangent 2 t) := by
  unfold C02.so3ExpClosed
  simp only [sqNorm_axisTangent, axisTangent_get, SO3.rot_z, C02.scalar_sin, C02.scalar_cos, Scalar.nat_real]
  congr 1
  ext k
  fin_cases k <;> simp [mk4, Vec.of, half_sinc_abs, half_cos_abs]

/-- `rot_i t` is the closed form of `exp` at `t e_i`, for every `t` -/
theorem rotAxis_eq_expClosed (i : Fin 3) (t : ℝ) : rotAxis i t = C02.so3ExpClosed (Conv.axisTangent i t) := by
  fin_cases i
  · exact rot_x_eq_expClosed t
  · exact rot_y_eq_expClosed t
  · exact rot_z_eq_expClosed t

/-- coefficients: `exp (t e_i) = rot_i t` whenever `exp` evaluates its closed form -/
theorem exp_axis_eq_rotAxis (i : Fin 3) (t : ℝ) (h : ¬ t * t < Scalar.eps2) :
    SO3.exp (Conv.axisTangent i t) = rotAxis i t := by
  rw [rotAxis_eq_expClosed, C02.so3_exp_eq_closed]
  rwa [sqNorm_axisTangent]

/-- rotations: `matrix (rot_i t) = exp (hat (t e_i))` — the matrix exponential — for all `t` -/
theorem rotAxis_matrix_is_exp (i : Fin 3) (t : ℝ) :
    C02.toM (SO3.matrix (rotAxis i t)) = NormedSpace.exp (C02.toM (SO3.hat (Conv.axisTangent i t))) := by
  rw [rotAxis_eq_expClosed]; exact C02.so3_expClosed_is_matrix_exp _

theorem unit_rotAxis (i : Fin 3) (t : ℝ) : SO3.Unit (rotAxis i t) := by
  fin_cases i
  · exact SO3.unit_canon _ (by simp [SO3.Unit, mk4, Vec.of])
  · exact SO3.unit_canon _ (by simp [SO3.Unit, mk4, Vec.of])
  · exact SO3.unit_canon _ (by simp [SO3.Unit, mk4, Vec.of])

theorem canon_rotAxis (i : Fin 3) (t : ℝ) : SO3.Canon (rotAxis i t) := by
  fin_cases i <;> exact SO3.canon_canon _

/-- `rot_z` is the lift of the planar rotation: same rotation matrix as `lift_so3 (SO2(t))` -/
theorem rot_z_matrix (t : ℝ) :
    SO3.matrix (SO3.rot_z t) = blockDiag21 (SO2.matrix (Conv.so2OfAngle t)) := by
  have : SO3.rot_z t = SO3.canon (zQuat t) := by
    simp [SO3.rot_z, zQuat]
  rw [this, SO3.matrix_canon, matrix_zQuat]

end C17P
