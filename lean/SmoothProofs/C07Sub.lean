/-
  C07Sub.lean — lemmas about the SubManifold loops (`scatterLoop`, `gatherLoop`), the sorting
  constructor, and the lifting of the Manifold laws to `SubManifold<M>`.
-/
import SmoothProofs.C07Vector
import Mathlib.Data.List.Sort
import Mathlib.Order.Basic

open Scalar Lin Manif

set_option linter.unusedSectionVars false
set_option linter.unusedSimpArgs false

namespace C07
variable {α : Type} [Scalar α] {M : Type}

/-! ### the sorting constructor -/

theorem insertSorted_perm (x : Nat) (l : List Nat) : (insertSorted x l).Perm (x :: l) := by
  induction l with
  | nil => exact List.Perm.refl _
  | cons y ys ih =>
    simp only [insertSorted]
    split
    · exact List.Perm.refl _
    · exact (List.Perm.cons y ih).trans (List.Perm.swap x y ys)

theorem isort_perm (l : List Nat) : (isort l).Perm l := by
  induction l with
  | nil => exact List.Perm.refl _
  | cons x xs ih => exact (insertSorted_perm x (isort xs)).trans (List.Perm.cons x ih)

theorem insertSorted_pairwise (x : Nat) (l : List Nat) (h : l.Pairwise (· ≤ ·)) :
    (insertSorted x l).Pairwise (· ≤ ·) := by
  induction l with
  | nil => simp [insertSorted]
  | cons y ys ih =>
    simp only [insertSorted]
    split
    · rename_i hxy
      refine List.Pairwise.cons ?_ h
      intro z hz
      rcases List.mem_cons.1 hz with rfl | hz
      · exact hxy
      · exact le_trans hxy (List.rel_of_pairwise_cons h hz)
    · rename_i hxy
      have hyx : y ≤ x := by omega
      refine List.Pairwise.cons ?_ (ih (List.Pairwise.of_cons h))
      intro z hz
      rcases List.mem_cons.1 ((insertSorted_perm x ys).subset hz) with rfl | hz
      · exact hyx
      · exact List.rel_of_pairwise_cons h hz

theorem isort_pairwise_le (l : List Nat) : (isort l).Pairwise (· ≤ ·) := by
  induction l with
  | nil => simp [isort]
  | cons x xs ih => exact insertSorted_pairwise x _ ih

/-- the constructor turns any duplicate-free list of fixed dims into the strictly increasing one -/
theorem isort_pairwise_lt (l : List Nat) (h : l.Nodup) : (isort l).Pairwise (· < ·) := by
  have hn : (isort l).Nodup := (isort_perm l).nodup_iff.2 h
  exact ((isort_pairwise_le l).and hn).imp (fun ⟨h1, h2⟩ => lt_of_le_of_ne h1 h2)

theorem isort_of_sorted (l : List Nat) (h : l.Pairwise (· < ·)) : isort l = l := by
  induction l with
  | nil => rfl
  | cons x xs ih =>
    rw [isort, ih (List.Pairwise.of_cons h)]
    cases xs with
    | nil => rfl
    | cons y ys =>
      have : x ≤ y := Nat.le_of_lt (List.rel_of_pairwise_cons h (by simp))
      simp [insertSorted, this]

theorem isort_mem (l : List Nat) (x : Nat) : x ∈ isort l ↔ x ∈ l := (isort_perm l).mem_iff

theorem isort_length (l : List Nat) : (isort l).length = l.length := (isort_perm l).length_eq

/-! ### scatter / gather -/

/-- `fixed` is strictly increasing and lies in the index window `[i, i + n)` -/
def FixedIn (i n : Nat) (fixed : List Nat) : Prop :=
  fixed.Pairwise (· < ·) ∧ ∀ f ∈ fixed, i ≤ f ∧ f < i + n

theorem fixedIn_length {i n : Nat} {fixed : List Nat} (h : FixedIn i n fixed) : fixed.length ≤ n := by
  induction fixed generalizing i n with
  | nil => simp
  | cons f fs ih =>
    obtain ⟨hp, hb⟩ := h
    have hf := hb f (by simp)
    have : FixedIn (f + 1) (i + n - (f + 1)) fs := by
      refine ⟨List.Pairwise.of_cons hp, ?_⟩
      intro g hg
      have h1 := List.rel_of_pairwise_cons hp hg
      have h2 := hb g (by simp [hg])
      omega
    have := ih this
    simp only [List.length_cons]
    omega

theorem fixedIn_tail_eq {i n f : Nat} {fs : List Nat} (h : FixedIn i (n + 1) (f :: fs)) (hif : i = f) :
    FixedIn (i + 1) n fs := by
  obtain ⟨hp, hb⟩ := h
  refine ⟨List.Pairwise.of_cons hp, ?_⟩
  intro g hg
  have h1 := List.rel_of_pairwise_cons hp hg
  have h2 := hb g (by simp [hg])
  omega

theorem fixedIn_step_ne {i n f : Nat} {fs : List Nat} (h : FixedIn i (n + 1) (f :: fs)) (hif : i ≠ f) :
    FixedIn (i + 1) n (f :: fs) := by
  obtain ⟨hp, hb⟩ := h
  refine ⟨hp, ?_⟩
  intro g hg
  have h2 := hb g hg
  have hf := hb f (by simp)
  rcases List.mem_cons.1 hg with rfl | hg'
  · omega
  · have h1 := List.rel_of_pairwise_cons hp hg'
    omega

theorem scatterLoop_length (z : α) (rem i : Nat) (fixed : List Nat) (a : List α) :
    (scatterLoop z rem i fixed a).length = rem := by
  induction rem generalizing i fixed a with
  | zero => simp [scatterLoop]
  | succ rem ih =>
    cases fixed with
    | nil => simp [scatterLoop, ih]
    | cons f fs =>
      simp only [scatterLoop]
      split <;> simp [ih]

/-- **gather ∘ scatter = id**: the free coordinates come back unchanged -/
theorem gatherLoop_scatterLoop (z : α) (rem i : Nat) (fixed : List Nat) (a : List α)
    (hf : FixedIn i rem fixed) (hl : a.length + fixed.length = rem) :
    gatherLoop i fixed (scatterLoop z rem i fixed a) = a := by
  induction rem generalizing i fixed a with
  | zero =>
    have ha : a = [] := by
      have : a.length = 0 := by omega
      simpa using this
    subst ha
    simp [scatterLoop, gatherLoop]
  | succ rem ih =>
    cases fixed with
    | nil =>
      cases a with
      | nil => simp at hl
      | cons h t =>
        simp only [scatterLoop, List.headD_cons, List.tail_cons, gatherLoop]
        rw [ih (i + 1) [] t ⟨List.Pairwise.nil, by simp⟩ (by simpa using hl)]
    | cons f fs =>
      simp only [scatterLoop]
      by_cases hif : i = f
      · simp only [hif, ne_eq, not_true_eq_false, if_false, gatherLoop]
        have := fixedIn_tail_eq hf hif
        rw [hif] at this
        exact ih (f + 1) fs a this (by simp at hl; omega)
      · simp only [ne_eq, hif, not_false_eq_true, if_true]
        have hfi := fixedIn_step_ne hf hif
        have hlen := fixedIn_length hfi
        cases a with
        | nil => simp at hl; simp at hlen; omega
        | cons h t =>
          simp only [List.headD_cons, List.tail_cons, gatherLoop, ne_eq, hif, not_false_eq_true,
            if_true]
          rw [ih (i + 1) (f :: fs) t hfi (by simp at hl ⊢; omega)]

/-- **scatter puts zero on every fixed coordinate** -/
theorem scatterLoop_zero_on_fixed (z : α) (rem i : Nat) (fixed : List Nat) (a : List α)
    (hf : FixedIn i rem fixed) :
    ∀ f ∈ fixed, (scatterLoop z rem i fixed a)[f - i]? = some z := by
  induction rem generalizing i fixed a with
  | zero =>
    intro f hfm
    have := hf.2 f hfm
    omega
  | succ rem ih =>
    intro g hg
    cases fixed with
    | nil => simp at hg
    | cons f fs =>
      simp only [scatterLoop]
      by_cases hif : i = f
      · subst hif
        simp only [ne_eq, not_true_eq_false, if_false]
        have hfi := fixedIn_tail_eq hf rfl
        rcases List.mem_cons.1 hg with rfl | hg'
        · simp
        · have hgt := List.rel_of_pairwise_cons hf.1 hg'
          have h1 := ih (i + 1) fs a hfi g hg'
          have : g - i = (g - (i + 1)) + 1 := by omega
          rw [this, List.getElem?_cons_succ]
          exact h1
      · simp only [ne_eq, hif, not_false_eq_true, if_true]
        have hfi := fixedIn_step_ne hf hif
        have hgi := (hfi.2 g hg).1
        have h1 := ih (i + 1) (f :: fs) a.tail hfi g hg
        have : g - i = (g - (i + 1)) + 1 := by omega
        rw [this, List.getElem?_cons_succ]
        exact h1

/-- number of entries `gather` writes: the free coordinates -/
theorem gatherLoop_length (i : Nat) (fixed : List Nat) (x : List α) (hf : FixedIn i x.length fixed) :
    (gatherLoop i fixed x).length + fixed.length = x.length := by
  induction x generalizing i fixed with
  | nil =>
    have := fixedIn_length hf
    cases fixed with
    | nil => simp [gatherLoop]
    | cons f fs => simp at this
  | cons c cs ih =>
    cases fixed with
    | nil =>
      simp only [gatherLoop, List.length_cons, List.length_nil]
      have := ih (i + 1) [] ⟨List.Pairwise.nil, by simp⟩
      simp at this
      omega
    | cons f fs =>
      simp only [gatherLoop]
      by_cases hif : i = f
      · simp only [hif, ne_eq, not_true_eq_false, if_false]
        have := fixedIn_tail_eq (n := cs.length) (by simpa using hf) hif
        rw [hif] at this
        have := ih (f + 1) fs this
        simp only [List.length_cons]
        omega
      · simp only [ne_eq, hif, not_false_eq_true, if_true]
        have := ih (i + 1) (f :: fs) (fixedIn_step_ne (n := cs.length) (by simpa using hf) hif)
        simp only [List.length_cons] at this ⊢
        omega

/-- `c` vanishes on the fixed coordinates (window starting at `i`) -/
def ZeroOn (z : α) (i : Nat) (fixed : List Nat) (c : List α) : Prop :=
  ∀ f ∈ fixed, c[f - i]? = some z

/-- **scatter ∘ gather = id on vectors that vanish on the fixed coordinates** -/
theorem scatterLoop_gatherLoop (z : α) (i : Nat) (fixed : List Nat) (c : List α)
    (hf : FixedIn i c.length fixed) (hz : ZeroOn z i fixed c) :
    scatterLoop z c.length i fixed (gatherLoop i fixed c) = c := by
  induction c generalizing i fixed with
  | nil => simp [scatterLoop]
  | cons h t ih =>
    cases fixed with
    | nil =>
      simp only [gatherLoop, List.length_cons, scatterLoop, List.headD_cons, List.tail_cons]
      rw [ih (i + 1) [] ⟨List.Pairwise.nil, by simp⟩ (by intro f hf; simp at hf)]
    | cons f fs =>
      simp only [gatherLoop, List.length_cons, scatterLoop]
      by_cases hif : i = f
      · simp only [hif, ne_eq, not_true_eq_false, if_false]
        have hfi := fixedIn_tail_eq (n := t.length) (by simpa using hf) hif
        rw [hif] at hfi
        have hh : h = z := by
          have := hz f (by simp)
          rw [hif] at this
          simpa using this
        rw [hh, ih (f + 1) fs hfi]
        intro g hg
        have hgt := List.rel_of_pairwise_cons hf.1 hg
        have := hz g (by simp [hg])
        rw [hif] at this
        have e : g - f = (g - (f + 1)) + 1 := by omega
        rw [e, List.getElem?_cons_succ] at this
        exact this
      · simp only [ne_eq, hif, not_false_eq_true, if_true, List.headD_cons, List.tail_cons]
        have hfi := fixedIn_step_ne (n := t.length) (by simpa using hf) hif
        rw [ih (i + 1) (f :: fs) hfi]
        intro g hg
        have hgi := (hfi.2 g hg).1
        have := hz g hg
        have e : g - i = (g - (i + 1)) + 1 := by omega
        rw [e, List.getElem?_cons_succ] at this
        exact this

theorem fitZero_of_length (n : Nat) (l : List α) (h : l.length = n) : fitZero n l = l := by
  simp [fitZero, ← h]

theorem fitZero_length (n : Nat) (l : List α) : (fitZero n l).length = n := by
  simp [fitZero]

/-! ### the laws lift to `SubManifold<M>` -/

section sublaws
variable {A : Man α M} {Valid : M → Prop} {Dom : M → List α → Prop} {Compat : M → M → Prop}

/-- a well-formed SubManifold: both points valid and of the origin's dof, fixed dims strictly
    increasing inside `[0, dof m0)` (what the constructor produces from any duplicate-free list) -/
def SubValid (A : Man α M) (Valid : M → Prop) (s : SubMan M) : Prop :=
  Valid s.m0 ∧ Valid s.m ∧ A.dof s.m = A.dof s.m0 ∧ FixedIn 0 (A.dof s.m0) s.fixed

/-- the tangent lifted to the embedding manifold lies in the domain -/
def SubDom (A : Man α M) (Dom : M → List α → Prop) (s : SubMan M) (a : List α) : Prop :=
  Dom s.m (scatter (A.dof s.m0) s.fixed a)

/-- binary operations are documented for identical origin and fixed dims; the value of the first
    must be reachable from the second along the free directions -/
def SubCompat (A : Man α M) (Compat : M → M → Prop) (s o : SubMan M) : Prop :=
  Compat s.m o.m ∧ s.fixed = o.fixed ∧ s.m0 = o.m0 ∧
    ∀ c, A.rminus s.m o.m = .ok c → ZeroOn (nat 0 : α) 0 s.fixed c

theorem subRplus_eq (s : SubMan M) (a : List α) (hs : SubValid A Valid s) :
    subRplus A s a = ⟨s.m0, A.rplus s.m (scatter (A.dof s.m0) s.fixed a), s.fixed⟩ := by
  simp [subRplus, SubMan.ctor, isort_of_sorted _ hs.2.2.2.1]

theorem scatter_length (n : Nat) (fixed : List Nat) (a : List α) : (scatter n fixed a : List α).length = n :=
  scatterLoop_length _ _ _ _ _

theorem sub_laws (hA : ManLaws A Valid Dom Compat) :
    ManLaws (sub A) (SubValid A Valid) (SubDom A Dom) (SubCompat A Compat) where
  valid_rplus := by
    intro s a hs hl hd
    change SubValid A Valid (subRplus A s a)
    rw [subRplus_eq s a hs]
    obtain ⟨h0, h1, h2, h3⟩ := hs
    have hsl : (scatter (A.dof s.m0) s.fixed a).length = A.dof s.m := by rw [scatter_length, h2]
    exact ⟨h0, hA.valid_rplus _ _ h1 hsl hd, by simp [hA.dof_rplus _ _ h1 hsl hd, h2], h3⟩
  dof_rplus := by
    intro s a hs hl _
    change subDof A (subRplus A s a) = subDof A s
    rw [subRplus_eq s a hs]
    rfl
  compat_rplus := by
    intro s a hs hl hd
    change SubCompat A Compat (subRplus A s a) s
    rw [subRplus_eq s a hs]
    obtain ⟨h0, h1, h2, h3⟩ := hs
    have hsl : (scatter (A.dof s.m0) s.fixed a).length = A.dof s.m := by rw [scatter_length, h2]
    refine ⟨hA.compat_rplus _ _ h1 hsl hd, rfl, rfl, ?_⟩
    intro c hc
    simp only at hc
    rw [hA.rminus_rplus _ _ h1 hsl hd] at hc
    cases hc
    intro f hf
    exact scatterLoop_zero_on_fixed _ _ 0 _ a h3 f hf
  compat_dof := by
    intro s o hc
    change subDof A s = subDof A o
    simp [subDof, hc.2.1, hc.2.2.1]
  rminus_length := by
    intro s o hs ho hc
    obtain ⟨c, hcr, _⟩ := hA.rminus_length s.m o.m hs.2.1 ho.2.1 hc.1
    refine ⟨fitZero (subDof A s) (gather s.fixed c), ?_, fitZero_length _ _⟩
    change subRminus A s o = _
    simp [subRminus, hcr, bind, Except.bind, pure, Except.pure]
  rminus_rplus := by
    intro s a hs hl hd
    change subRminus A (subRplus A s a) s = _
    rw [subRplus_eq s a hs]
    obtain ⟨h0, h1, h2, h3⟩ := hs
    have hsl : (scatter (A.dof s.m0) s.fixed a).length = A.dof s.m := by rw [scatter_length, h2]
    have hlen := fixedIn_length h3
    have hl' : a.length + s.fixed.length = A.dof s.m0 := by
      change a.length = subDof A s at hl
      simp only [subDof] at hl
      omega
    have hg : gather s.fixed (scatter (A.dof s.m0) s.fixed a) = a :=
      gatherLoop_scatterLoop _ _ 0 _ a h3 hl'
    simp only [subRminus, hA.rminus_rplus _ _ h1 hsl hd, bind, Except.bind, pure, Except.pure, hg]
    rw [fitZero_of_length]
    simp only [subDof]; omega
  rplus_rminus := by
    intro s s2 d hs hs2 hc hd
    change subRminus A s2 s = _ at hd
    obtain ⟨c, hcr, hcl⟩ := hA.rminus_length s2.m s.m hs2.2.1 hs.2.1 hc.1
    simp only [subRminus, hcr, bind, Except.bind, pure, Except.pure, Except.ok.injEq] at hd
    change subRplus A s d = s2
    rw [subRplus_eq s d hs]
    have hfix : s2.fixed = s.fixed := hc.2.1
    have hm0 : s2.m0 = s.m0 := hc.2.2.1
    have hz := hc.2.2.2 c hcr
    have hcl0 : c.length = A.dof s.m0 := by rw [hcl, hs2.2.2.1, hm0]
    have hfi : FixedIn 0 c.length s.fixed := by rw [hcl0]; exact hs.2.2.2
    have hgl := gatherLoop_length 0 s.fixed c hfi
    have hd' : d = gather s.fixed c := by
      rw [← hd, hfix, fitZero_of_length]
      simp only [subDof, gather, hm0, hfix]
      omega
    have hsc : scatter (A.dof s.m0) s.fixed d = c := by
      rw [hd', ← hcl0]
      exact scatterLoop_gatherLoop _ 0 _ c hfi (by rw [← hfix]; exact hz)
    rw [hsc, hA.rplus_rminus s.m s2.m c hs.2.1 hs2.2.1 hc.1 hcr]
    cases s2
    simp_all
  rminus_self := by
    intro s hs
    change subRminus A s s = _
    simp only [subRminus, hA.rminus_self _ hs.2.1, bind, Except.bind, pure, Except.pure]
    congr 1
    change _ = zeros α (subDof A s)
    have hfi : FixedIn 0 (zeros α (A.dof s.m)).length s.fixed := by
      simp only [zeros, List.length_replicate, hs.2.2.1]; exact hs.2.2.2
    have hgl := gatherLoop_length 0 s.fixed (zeros α (A.dof s.m)) hfi
    have hlen : (gather s.fixed (zeros α (A.dof s.m))).length = subDof A s := by
      have hfl := fixedIn_length hs.2.2.2
      have hz : (zeros α (A.dof s.m)).length = A.dof s.m0 := by simp [zeros, hs.2.2.1]
      rw [hz] at hgl
      simp only [subDof, gather]; omega
    rw [fitZero_of_length _ _ hlen]
    -- every entry gathered from the zero vector is zero
    have hall : ∀ (i : Nat) (fx : List Nat) (n : Nat) , ∀ y ∈ gatherLoop i fx (zeros α n), y = (nat 0 : α) := by
      intro i fx n
      induction n generalizing i fx with
      | zero => intro y hy; simp [zeros, gatherLoop] at hy
      | succ n ih =>
        intro y hy
        cases fx with
        | nil =>
          simp only [zeros, List.replicate_succ, gatherLoop, List.mem_cons] at hy
          rcases hy with rfl | hy
          · rfl
          · exact ih (i + 1) [] y hy
        | cons f fs =>
          simp only [zeros, List.replicate_succ, gatherLoop] at hy
          split at hy
          · rcases List.mem_cons.1 hy with rfl | hy
            · rfl
            · exact ih (i + 1) (f :: fs) y hy
          · exact ih (i + 1) fs y hy
    rw [← hlen]
    exact List.eq_replicate_of_mem (hall 0 s.fixed (A.dof s.m))

end sublaws

end C07
