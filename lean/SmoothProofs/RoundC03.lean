/-
  RoundC03.lean — helpers for SmoothProps/C03Round.lean (hat / vee / Ad / ad / lie_bracket in the standard
  model of floating-point arithmetic, RoundModel.lean): left-to-right sums and matrix–vector / matrix–matrix
  products of ANY size with approximate operands, and the block accessors of `SE3.blk22`.
-/
import SmoothProofs.RoundAct

set_option linter.unusedSimpArgs false
set_option linter.unusedVariables false
set_option linter.unusedSectionVars false

open RF Rounding Lin Scalar

noncomputable section
namespace Round

/-! ## block accessors (any scalar type) -/
section Generic
variable {α : Type} [Scalar α]

theorem blk22_tl (A B C D : Mat α 3 3) (i j : Fin 3) :
    (SE3.blk22 A B C D) ⟨i.val, by omega⟩ ⟨j.val, by omega⟩ = A i j := by
  simp [SE3.blk22, Mat.of, i.isLt, j.isLt]
theorem blk22_tr (A B C D : Mat α 3 3) (i j : Fin 3) :
    (SE3.blk22 A B C D) ⟨i.val, by omega⟩ ⟨3 + j.val, by omega⟩ = B i j := by
  simp [SE3.blk22, Mat.of, i.isLt]
theorem blk22_bl (A B C D : Mat α 3 3) (i j : Fin 3) :
    (SE3.blk22 A B C D) ⟨3 + i.val, by omega⟩ ⟨j.val, by omega⟩ = C i j := by
  simp [SE3.blk22, Mat.of, j.isLt]
theorem blk22_br (A B C D : Mat α 3 3) (i j : Fin 3) :
    (SE3.blk22 A B C D) ⟨3 + i.val, by omega⟩ ⟨3 + j.val, by omega⟩ = D i j := by
  simp [SE3.blk22, Mat.of]

end Generic

/-- case split of a 6×6 matrix into four 3×3 blocks -/
theorem fin6_cases (P : Fin 6 → Fin 6 → Prop)
    (htl : ∀ i j : Fin 3, P ⟨i.val, by omega⟩ ⟨j.val, by omega⟩)
    (htr : ∀ i j : Fin 3, P ⟨i.val, by omega⟩ ⟨3 + j.val, by omega⟩)
    (hbl : ∀ i j : Fin 3, P ⟨3 + i.val, by omega⟩ ⟨j.val, by omega⟩)
    (hbr : ∀ i j : Fin 3, P ⟨3 + i.val, by omega⟩ ⟨3 + j.val, by omega⟩) : ∀ i j, P i j := by
  intro i j
  by_cases hi : i.val < 3 <;> by_cases hj : j.val < 3
  · exact htl ⟨i.val, hi⟩ ⟨j.val, hj⟩
  · have := htr ⟨i.val, hi⟩ ⟨j.val - 3, by omega⟩
    have e : (⟨3 + (j.val - 3), by omega⟩ : Fin 6) = j := Fin.ext (by simp; omega)
    simpa [e] using this
  · have := hbl ⟨i.val - 3, by omega⟩ ⟨j.val, hj⟩
    have e : (⟨3 + (i.val - 3), by omega⟩ : Fin 6) = i := Fin.ext (by simp; omega)
    simpa [e] using this
  · have := hbr ⟨i.val - 3, by omega⟩ ⟨j.val - 3, by omega⟩
    have e1 : (⟨3 + (i.val - 3), by omega⟩ : Fin 6) = i := Fin.ext (by simp; omega)
    have e2 : (⟨3 + (j.val - 3), by omega⟩ : Fin 6) = j := Fin.ext (by simp; omega)
    simpa [e1, e2] using this

theorem Mat.toRF_eq_of_toR {n m : Nat} (Ah : Mat RF n m) (A : Mat ℝ n m) (h : Mat.toR Ah = A) : Ah = Mat.toRF A := by
  subst h
  ext i j; rfl

section
variable [Rounding]

/-! ## sums and products of any size -/

/-- the model's left-to-right sum `((0 + f 0) + f 1) + …` of `n` terms each carrying `k` roundings:
    `k + n` roundings, majorant = the sum of the majorants -/
theorem vsum_appr {k : ℕ} : ∀ (n : Nat) (fh : Fin n → RF) (f F : Fin n → ℝ),
    (∀ i, Appr k (F i) (toReal (fh i)) (f i)) → Appr (k + n) (vsum n F) (toReal (vsum n fh)) (vsum n f)
  | 0, _, _, _, _ => by
    simpa [vsum] using (Appr.natCast 0).mono (Nat.zero_le _) (le_refl _)
  | n + 1, fh, f, F, h => by
    have ih := vsum_appr n (fun i => fh i.castSucc) (fun i => f i.castSucc) (fun i => F i.castSucc)
      (fun i => h i.castSucc)
    have hl := h (Fin.last n)
    have := ih.add hl
    refine Appr.mono (j := Max.max (k + n) k + 1) ?_ (by omega) (le_refl _)
    simpa [vsum] using this

/-- rounded matrix–vector product of any size: `kA + kv + 1 + m` roundings -/
theorem mulVec_appr_gen {kA kv n m : ℕ} (Ah : Mat RF n m) (A AA : Mat ℝ n m) (vh : Vec RF m) (v V : Vec ℝ m)
    (hA : ∀ i j, Appr kA (AA i j) (toReal (Ah i j)) (A i j))
    (hv : ∀ i, Appr kv (V i) (toReal (vh i)) (v i)) (i : Fin n) :
    Appr (kA + kv + 1 + m) (vsum m (fun l => AA i l * V l)) (toReal ((mulVec Ah vh) i)) ((mulVec A v) i) := by
  have := vsum_appr (k := kA + kv + 1) m (fun l => Ah i l * vh l) (fun l => A i l * v l) (fun l => AA i l * V l)
    (fun l => by simpa using (hA i l).mul (hv l))
  simpa [mulVec, Vec.of] using this

/-- rounded matrix–matrix product of any size -/
theorem mmul_appr_gen {kA kB n p m : ℕ} (Ah : Mat RF n p) (A AA : Mat ℝ n p) (Bh : Mat RF p m) (B BB : Mat ℝ p m)
    (hA : ∀ i j, Appr kA (AA i j) (toReal (Ah i j)) (A i j))
    (hB : ∀ i j, Appr kB (BB i j) (toReal (Bh i j)) (B i j)) (i : Fin n) (j : Fin m) :
    Appr (kA + kB + 1 + p) (vsum p (fun l => AA i l * BB l j)) (toReal ((mmul Ah Bh) i j)) ((mmul A B) i j) := by
  have := vsum_appr (k := kA + kB + 1) p (fun l => Ah i l * Bh l j) (fun l => A i l * B l j) (fun l => AA i l * BB l j)
    (fun l => by simpa using (hA i l).mul (hB l j))
  simpa [mmul, Mat.of] using this

end

/-- `Σ_l α·β = n·α·β` bound of a real left-to-right sum -/
theorem vsum_le_const (n : Nat) (F : Fin n → ℝ) (c : ℝ) (h : ∀ l, F l ≤ c) : vsum n F ≤ n * c := by
  rw [Lin.vsum_eq_sum]
  calc ∑ i, F i ≤ ∑ _i : Fin n, c := Finset.sum_le_sum (fun i _ => h i)
    _ = n * c := by simp

theorem vsum_nonneg (n : Nat) (F : Fin n → ℝ) (h : ∀ l, 0 ≤ F l) : 0 ≤ vsum n F := by
  rw [Lin.vsum_eq_sum]
  exact Finset.sum_nonneg (fun i _ => h i)

end Round
end
