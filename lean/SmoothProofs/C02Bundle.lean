/-
  C02Bundle.lean — the matrix exponential of a block-diagonal matrix (the `hat` of a Bundle /
  direct product) is the block-diagonal matrix of the exponentials, on the `Fin (n + m)` index
  type the Bundle model uses; with it `exp` of a binary product model is the matrix exponential
  as soon as it is for both parts.
-/
import SmoothProofs.C02Basic
import SmoothProofs.ExpODE
open Lin Scalar
namespace C02

/-- block-diagonal matrix on `Fin (n + m)` (entry pattern of `Bundle.bdiag`) -/
def bd {n m : Nat} (A : Matrix (Fin n) (Fin n) ℝ) (B : Matrix (Fin m) (Fin m) ℝ) :
    Matrix (Fin (n + m)) (Fin (n + m)) ℝ := fun i j =>
  if hi : i.val < n then
    if hj : j.val < n then A ⟨i.val, hi⟩ ⟨j.val, hj⟩ else 0
  else
    if hj : j.val < n then 0 else B ⟨i.val - n, by omega⟩ ⟨j.val - n, by omega⟩

/-- a Mathlib matrix read as a model matrix (inverse of `toM`) -/
def ofM {n m : Nat} (M : Matrix (Fin n) (Fin m) ℝ) : Mat ℝ n m := Mat.of M

@[simp] theorem toM_ofM {n m : Nat} (M : Matrix (Fin n) (Fin m) ℝ) : toM (ofM M) = M := rfl

theorem bdiag_toM {n m : Nat} (A : Mat ℝ n n) (B : Mat ℝ m m) :
    toM (Bundle.bdiag A B) = bd (toM A) (toM B) := by
  ext i j
  simp only [toM, Bundle.bdiag, bd, Mat.of_get, Nat.cast_zero]

theorem bd_mul {n m : Nat} (A A' : Matrix (Fin n) (Fin n) ℝ) (B B' : Matrix (Fin m) (Fin m) ℝ) :
    bd A B * bd A' B' = bd (A * A') (B * B') := by
  ext i j
  rw [Matrix.mul_apply, Fin.sum_univ_add]
  by_cases hi : i.val < n <;> by_cases hj : j.val < n <;>
    simp [bd, hi, hj, Matrix.mul_apply]

theorem bd_one {n m : Nat} : bd (1 : Matrix (Fin n) (Fin n) ℝ) (1 : Matrix (Fin m) (Fin m) ℝ) = 1 := by
  ext i j
  by_cases hi : i.val < n <;> by_cases hj : j.val < n <;>
    simp [bd, hi, hj, Matrix.one_apply, Fin.ext_iff]
  · have : i.val ≠ j.val := by omega
    simp [this]
  · have : i.val ≠ j.val := by omega
    simp [this]
  · have : (i.val - n = j.val - n) ↔ (i.val = j.val) := by omega
    simp [this]


attribute [local instance] Matrix.linftyOpNormedRing Matrix.linftyOpNormedAlgebra in
/-- entries of `u ↦ exp (u • A)` are differentiable with derivative `(A * exp (t • A)) i j` -/
theorem exp_smul_entry_hasDerivAt {n : Nat} (A : Matrix (Fin n) (Fin n) ℝ) (t : ℝ) (i j : Fin n) :
    HasDerivAt (fun u : ℝ => (NormedSpace.exp (u • A) : Matrix (Fin n) (Fin n) ℝ) i j)
      ((A * NormedSpace.exp (t • A)) i j) t := by
  have h := hasDerivAt_exp_smul_const' (𝕂 := ℝ) A t
  have h1 : HasDerivAt (fun u : ℝ => ((NormedSpace.exp (u • A) : Matrix (Fin n) (Fin n) ℝ) :
      Fin n → Fin n → ℝ)) ((A * NormedSpace.exp (t • A) : Matrix (Fin n) (Fin n) ℝ) :
      Fin n → Fin n → ℝ) t := h
  exact hasDerivAt_pi.1 (hasDerivAt_pi.1 h1 i) j

/-- **exp of a block-diagonal matrix is block diagonal** (index type `Fin (n + m)`). -/
theorem exp_bd {n m : Nat} (A : Matrix (Fin n) (Fin n) ℝ) (B : Matrix (Fin m) (Fin m) ℝ) :
    NormedSpace.exp (bd A B) = bd (NormedSpace.exp A) (NormedSpace.exp B) := by
  let Φ : ℝ → Matrix (Fin (n + m)) (Fin (n + m)) ℝ := fun u =>
    bd (NormedSpace.exp (u • A)) (NormedSpace.exp (u • B))
  have h := Matrix.eq_exp_of_entry_hasDerivAt_one (bd A B) Φ
    (by simp only [Φ, zero_smul, NormedSpace.exp_zero]; exact bd_one)
    (by
      intro t i j
      simp only [Φ, bd_mul]
      by_cases hi : i.val < n
      · by_cases hj : j.val < n
        · simpa [bd, hi, hj] using exp_smul_entry_hasDerivAt A t ⟨i.val, hi⟩ ⟨j.val, hj⟩
        · simpa [bd, hi, hj] using hasDerivAt_const t (0:ℝ)
      · by_cases hj : j.val < n
        · simpa [bd, hi, hj] using hasDerivAt_const t (0:ℝ)
        · simpa [bd, hi, hj] using
            exp_smul_entry_hasDerivAt B t ⟨i.val - n, by omega⟩ ⟨j.val - n, by omega⟩)
  rw [← h]
  simp only [Φ, one_smul]

/-- the same on model matrices: `exp (bdiag A B) = bdiag (exp A) (exp B)` -/
theorem exp_bdiag {n m : Nat} (A : Mat ℝ n n) (B : Mat ℝ m m) :
    NormedSpace.exp (toM (Bundle.bdiag A B))
      = toM (Bundle.bdiag (ofM (NormedSpace.exp (toM A))) (ofM (NormedSpace.exp (toM B)))) := by
  rw [bdiag_toM, bdiag_toM, exp_bd, toM_ofM, toM_ofM]


/-! ### Bundle = iterated binary product -/

theorem fst_vcat' {n m : Nat} (a : Vec ℝ n) (b : Vec ℝ m) : Bundle.fst (vcat a b) = a := by
  ext i; simp [Bundle.fst, vcat]

theorem snd_vcat' {n m : Nat} (a : Vec ℝ n) (b : Vec ℝ m) : Bundle.snd (vcat a b) = b := by
  ext i; simp [Bundle.snd, vcat]

theorem vcat_fst_snd' {n m : Nat} (g : Vec ℝ (n + m)) : vcat (Bundle.fst g) (Bundle.snd g) = g := by
  ext i
  simp only [vcat, Bundle.fst, Bundle.snd, Vec.of_get]
  split_ifs with h
  · rfl
  · congr 1; ext; simp; omega

/-- "`exp` is the matrix exponential at `a`" for a group model -/
def ExpIsMatrixExpAt (G : LieModel ℝ) (a : Vec ℝ G.dof) : Prop :=
  toM (G.matrix (G.exp a)) = NormedSpace.exp (toM (G.hat a))

/-- binary product: holds at `a` as soon as it holds for the parts at the two halves of `a`. -/
theorem prod_expIsMatrixExpAt (A B : LieModel ℝ) (a : Vec ℝ (A.dof + B.dof))
    (hA : ExpIsMatrixExpAt A (Bundle.fst a)) (hB : ExpIsMatrixExpAt B (Bundle.snd a)) :
    ExpIsMatrixExpAt (Bundle.prod A B) a := by
  unfold ExpIsMatrixExpAt at *
  show toM (Bundle.prodMatrix A B (Bundle.prodExp A B a)) = NormedSpace.exp (toM (Bundle.prodHat A B a))
  simp only [Bundle.prodMatrix, Bundle.prodExp, Bundle.prodHat, fst_vcat', snd_vcat']
  rw [bdiag_toM, bdiag_toM, exp_bd, hA, hB]

theorem unit_expIsMatrixExpAt (a : Vec ℝ (Bundle.unit : LieModel ℝ).dof) :
    ExpIsMatrixExpAt Bundle.unit a := by
  unfold ExpIsMatrixExpAt
  ext i j
  exact i.elim0

/-- Bundle of any list of parts for which the property holds everywhere. -/
theorem bundle_expIsMatrixExp (ps : List (LieModel ℝ))
    (h : ∀ p ∈ ps, ∀ a, ExpIsMatrixExpAt p a) : ∀ a, ExpIsMatrixExpAt (Bundle.bundle ps) a := by
  induction ps with
  | nil => intro a; exact unit_expIsMatrixExpAt a
  | cons p ps ih =>
    intro a
    exact prod_expIsMatrixExpAt p (Bundle.bundle ps) a
      (h p (List.mem_cons_self) _) (ih (fun q hq => h q (List.mem_cons_of_mem _ hq)) _)

/-- `exp ∘ log` and `log ∘ exp` of a binary product reduce to the parts. -/
theorem prod_exp_log (A B : LieModel ℝ) (g : Vec ℝ (A.rep + B.rep))
    (hA : A.exp (A.log (Bundle.fst g)) = Bundle.fst g)
    (hB : B.exp (B.log (Bundle.snd g)) = Bundle.snd g) :
    (Bundle.prod A B).exp ((Bundle.prod A B).log g) = g := by
  show Bundle.prodExp A B (Bundle.prodLog A B g) = g
  simp only [Bundle.prodExp, Bundle.prodLog, fst_vcat', snd_vcat', hA, hB, vcat_fst_snd']

theorem prod_log_exp (A B : LieModel ℝ) (a : Vec ℝ (A.dof + B.dof))
    (hA : A.log (A.exp (Bundle.fst a)) = Bundle.fst a)
    (hB : B.log (B.exp (Bundle.snd a)) = Bundle.snd a) :
    (Bundle.prod A B).log ((Bundle.prod A B).exp a) = a := by
  show Bundle.prodLog A B (Bundle.prodExp A B a) = a
  simp only [Bundle.prodExp, Bundle.prodLog, fst_vcat', snd_vcat', hA, hB, vcat_fst_snd']


/-! ### lifting per-part statements to `Bundle.bundle ps` (induction over the part list) -/

/-- a property of (model, element) holds for every part of a bundle element -/
def BundleAllG (P : (G : LieModel ℝ) → Vec ℝ G.rep → Prop) :
    (ps : List (LieModel ℝ)) → Vec ℝ (Bundle.bundle ps).rep → Prop
  | [], _ => True
  | p :: ps, g => P p (Bundle.fst (n := p.rep) (m := (Bundle.bundle ps).rep) g) ∧
      BundleAllG P ps (Bundle.snd (n := p.rep) (m := (Bundle.bundle ps).rep) g)

/-- a property of (model, tangent vector) holds for every part of a bundle tangent vector -/
def BundleAllT (P : (G : LieModel ℝ) → Vec ℝ G.dof → Prop) :
    (ps : List (LieModel ℝ)) → Vec ℝ (Bundle.bundle ps).dof → Prop
  | [], _ => True
  | p :: ps, a => P p (Bundle.fst (n := p.dof) (m := (Bundle.bundle ps).dof) a) ∧
      BundleAllT P ps (Bundle.snd (n := p.dof) (m := (Bundle.bundle ps).dof) a)

theorem vec0_eq (u v : Vec ℝ 0) : u = v := by ext i; exact i.elim0

/-- `exp` is the matrix exponential at a bundle tangent vector as soon as it is for every part at
its slice (pointwise version: parts may be in different branches). -/
theorem bundle_expIsMatrixExpAt : (ps : List (LieModel ℝ)) → (a : Vec ℝ (Bundle.bundle ps).dof) →
    BundleAllT ExpIsMatrixExpAt ps a → ExpIsMatrixExpAt (Bundle.bundle ps) a
  | [], a, _ => unit_expIsMatrixExpAt a
  | p :: ps, a, h =>
    prod_expIsMatrixExpAt p (Bundle.bundle ps) a h.1 (bundle_expIsMatrixExpAt ps _ h.2)

/-- `exp (log g) = g` for a bundle element as soon as it holds for every part. -/
theorem bundle_exp_log : (ps : List (LieModel ℝ)) → (g : Vec ℝ (Bundle.bundle ps).rep) →
    BundleAllG (fun G x => G.exp (G.log x) = x) ps g →
    (Bundle.bundle ps).exp ((Bundle.bundle ps).log g) = g
  | [], _, _ => vec0_eq _ _
  | p :: ps, g, h => prod_exp_log p (Bundle.bundle ps) g h.1 (bundle_exp_log ps _ h.2)

/-- `log (exp a) = a` for a bundle tangent vector as soon as it holds for every part. -/
theorem bundle_log_exp : (ps : List (LieModel ℝ)) → (a : Vec ℝ (Bundle.bundle ps).dof) →
    BundleAllT (fun G x => G.log (G.exp x) = x) ps a →
    (Bundle.bundle ps).log ((Bundle.bundle ps).exp a) = a
  | [], _, _ => vec0_eq _ _
  | p :: ps, a, h => prod_log_exp p (Bundle.bundle ps) a h.1 (bundle_log_exp ps _ h.2)

/-- the parts of `log g` are the `log`s of the parts of `g`: any per-part property of the
logarithm (e.g. "rotation norm ≤ π") lifts to the bundle. -/
theorem bundle_log_all (Q : (G : LieModel ℝ) → Vec ℝ G.dof → Prop) :
    (ps : List (LieModel ℝ)) → (g : Vec ℝ (Bundle.bundle ps).rep) →
    BundleAllG (fun G x => Q G (G.log x)) ps g → BundleAllT Q ps ((Bundle.bundle ps).log g)
  | [], _, _ => trivial
  | p :: ps, g, h => by
    have e1 : Bundle.fst (n := p.dof) (m := (Bundle.bundle ps).dof)
        ((Bundle.bundle (p :: ps)).log g) = p.log (Bundle.fst g) := fst_vcat' _ _
    have e2 : Bundle.snd (n := p.dof) (m := (Bundle.bundle ps).dof)
        ((Bundle.bundle (p :: ps)).log g) = (Bundle.bundle ps).log (Bundle.snd g) := snd_vcat' _ _
    exact ⟨e1 ▸ h.1, e2 ▸ bundle_log_all Q ps _ h.2⟩

end C02
