/-
  C05Series.lean — small-angle (series) branches of the second-order coefficient functions:
  the returned `dA`, `dB` are the derivatives of the returned series `A`, `B` of the same branch
  (SE2 `d2r_exp`, SO3 `d2r_exp`, SO3 `d2r_expinv`).  These statements fail for the pre-fix
  coefficients (`−wz/48`, `−1/48`).  For SE2 `d2r_expinv` the returned `dA_dwz = 1/360` is NOT the
  derivative `wz/360` of the returned `A = 1/12 + wz²/720`: negation witness below.
-/
import SmoothProofs.C04SO3
import Mathlib.Analysis.Calculus.Deriv.Mul
import Mathlib.Analysis.Calculus.Deriv.Add
import Mathlib.Analysis.Calculus.Deriv.Pow
import Mathlib.Topology.Algebra.Monoid
import Mathlib.Tactic.Continuity

open Lin Scalar

namespace C05Series
open C04SO3

theorem eventually_series {wz : ℝ} (h : wz * wz < Scalar.eps2) :
    ∀ᶠ w in nhds wz, w * w < Scalar.eps2 := by
  have hc : ContinuousAt (fun w : ℝ => w * w) wz := (continuous_id.mul continuous_id).continuousAt
  exact hc.eventually (gt_mem_nhds h)

/-- `d/dw (c0 + w·w/c1) = 2w/c1` -/
theorem hasDerivAt_quad (c0 c1 wz : ℝ) :
    HasDerivAt (fun w : ℝ => c0 + w * w / c1) (2 * wz / c1) wz := by
  have h := (((hasDerivAt_id wz).mul (hasDerivAt_id wz)).div_const c1).const_add c0
  refine h.congr_deriv ?_
  simp only [id]; ring

theorem se2_d2rExpCoef_series {wz : ℝ} (h : wz * wz < Scalar.eps2) :
    SE2.d2rExpCoef wz = (1 / 2 - wz * wz / 24, 1 / 6 - wz * wz / 120, -wz / 12, -wz / 60) := by
  simp only [SE2.d2rExpCoef, if_pos h, Nat.cast_one, Nat.cast_ofNat]

/-- SE2 `d2r_exp`, series branch: `dA_dwz = dA/dwz`, `dB_dwz = dB/dwz` for the series `A`, `B`. -/
theorem se2_d2rExp_series_consistent {wz : ℝ} (h : wz * wz < Scalar.eps2) :
    HasDerivAt (fun w => (SE2.d2rExpCoef w).1) (SE2.d2rExpCoef wz).2.2.1 wz ∧
    HasDerivAt (fun w => (SE2.d2rExpCoef w).2.1) (SE2.d2rExpCoef wz).2.2.2 wz := by
  rw [se2_d2rExpCoef_series h]
  constructor
  · have hp := hasDerivAt_quad (1 / 2) (-24) wz
    refine (hp.congr_deriv (by ring)).congr_of_eventuallyEq ?_
    filter_upwards [eventually_series h] with w hw
    rw [se2_d2rExpCoef_series hw]; ring
  · have hp := hasDerivAt_quad (1 / 6) (-120) wz
    refine (hp.congr_deriv (by ring)).congr_of_eventuallyEq ?_
    filter_upwards [eventually_series h] with w hw
    rw [se2_d2rExpCoef_series hw]; ring

theorem so3_d2rExpCoef_series {n : ℝ} (h : n < Scalar.eps2) :
    SO3.d2rExpCoef n = (1 / 2 - n / 24, 1 / 6 - n / 120, -1 / 12, -1 / 60) := by
  simp only [SO3.d2rExpCoef, if_pos h, Nat.cast_one, Nat.cast_ofNat]

/-- SO3 `d2r_exp`, series branch: `θ·dA_over_th = dA/dθ`, `θ·dB_over_th = dB/dθ` with `A, B` the
    series in `θ²` returned by the same branch. -/
theorem so3_d2rExp_series_consistent {θ : ℝ} (h : θ * θ < Scalar.eps2) :
    HasDerivAt (fun w => (SO3.d2rExpCoef (w * w)).1) (θ * (SO3.d2rExpCoef (θ * θ)).2.2.1) θ ∧
    HasDerivAt (fun w => (SO3.d2rExpCoef (w * w)).2.1) (θ * (SO3.d2rExpCoef (θ * θ)).2.2.2) θ := by
  rw [so3_d2rExpCoef_series h]
  constructor
  · have hp := hasDerivAt_quad (1 / 2) (-24) θ
    refine (hp.congr_deriv (by ring)).congr_of_eventuallyEq ?_
    filter_upwards [eventually_series h] with w hw
    rw [so3_d2rExpCoef_series hw]; ring
  · have hp := hasDerivAt_quad (1 / 6) (-120) θ
    refine (hp.congr_deriv (by ring)).congr_of_eventuallyEq ?_
    filter_upwards [eventually_series h] with w hw
    rw [so3_d2rExpCoef_series hw]; ring

theorem so3_d2rExpinvCoef_series {n : ℝ} (h : n < Scalar.eps2) :
    SO3.d2rExpinvCoef n = (1 / 12 + n / 720, 1 / 360) := by
  simp only [SO3.d2rExpinvCoef, if_pos h, Nat.cast_one, Nat.cast_ofNat]

/-- SO3 `d2r_expinv`, series branch: `θ·dA_over_th = dA/dθ`. -/
theorem so3_d2rExpinv_series_consistent {θ : ℝ} (h : θ * θ < Scalar.eps2) :
    HasDerivAt (fun w => (SO3.d2rExpinvCoef (w * w)).1) (θ * (SO3.d2rExpinvCoef (θ * θ)).2) θ := by
  rw [so3_d2rExpinvCoef_series h]
  have hp := hasDerivAt_quad (1 / 12) 720 θ
  refine (hp.congr_deriv (by ring)).congr_of_eventuallyEq ?_
  filter_upwards [eventually_series h] with w hw
  rw [so3_d2rExpinvCoef_series hw]

theorem se2_d2rExpinvCoef_series {wz : ℝ} (h : wz * wz < Scalar.eps2) :
    SE2.d2rExpinvCoef wz = (1 / 12 + wz * wz / 720, 1 / 360) := by
  simp only [SE2.d2rExpinvCoef, if_pos h, Nat.cast_one, Nat.cast_ofNat]

/-- SE2 `d2r_expinv`, series branch: the derivative of the returned `A = 1/12 + wz²/720` is `wz/360`,
    but the branch returns `dA_dwz = 1/360` (used unmultiplied at se2.hpp:282) — they differ for
    every `wz` of the branch. -/
theorem se2_d2rExpinv_series_inconsistent {wz : ℝ} (h : wz * wz < Scalar.eps2) :
    HasDerivAt (fun w => (SE2.d2rExpinvCoef w).1) (wz / 360) wz ∧
    (SE2.d2rExpinvCoef wz).2 = 1 / 360 ∧ wz / 360 ≠ 1 / 360 := by
  refine ⟨?_, ?_, ?_⟩
  · have hp := hasDerivAt_quad (1 / 12) 720 wz
    refine (hp.congr_deriv (by ring)).congr_of_eventuallyEq ?_
    filter_upwards [eventually_series h] with w hw
    rw [se2_d2rExpinvCoef_series hw]
  · rw [se2_d2rExpinvCoef_series h]
  · intro hw
    have h1 : wz = 1 := by linarith
    rw [h1, eps2_real] at h
    norm_num at h

/-- hence: the returned `dA_dwz` is not the derivative of the returned `A` -/
theorem se2_d2rExpinv_small_angle_coefficient_wrong {wz : ℝ} (h : wz * wz < Scalar.eps2) :
    ¬ HasDerivAt (fun w => (SE2.d2rExpinvCoef w).1) (SE2.d2rExpinvCoef wz).2 wz := by
  obtain ⟨hd, he, hne⟩ := se2_d2rExpinv_series_inconsistent h
  intro hbad
  rw [he] at hbad
  exact hne (hd.unique hbad)

end C05Series
