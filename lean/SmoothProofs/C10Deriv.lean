/-
  C10Deriv.lean — the `dphi` output of `solve_linear_ldlt`:
  * `dphi_formula`: the expression the code evaluates equals `−(D²x)ᵀ H⁻¹ (D²x)/‖Dx‖`;
  * `hasDerivAt_xOf`, `hasDerivAt_norm`: `x(λ) = −H(λ)⁻¹Jᵀr` is differentiable in `λ > 0` with
    derivative `−H⁻¹D²x`, hence `d/dλ ‖D x(λ)‖` is that expression.
-/
import SmoothProofs.C10Lin
import Mathlib.Topology.Instances.Matrix
import Mathlib.Analysis.Calculus.Deriv.Slope
import Mathlib.Analysis.Calculus.Deriv.Prod
import Mathlib.Analysis.Calculus.Deriv.Mul
import Mathlib.Analysis.Calculus.Deriv.Add
import Mathlib.Analysis.Calculus.Deriv.Pow
import Mathlib.Analysis.SpecialFunctions.Sqrt

open Matrix C10Lin Filter Topology

namespace C10Deriv

set_option linter.unusedSectionVars false

variable {ι κ : Type} [Fintype ι] [Fintype κ] [DecidableEq κ]

/-- right-hand side of the second solve in the code: `d_q = d∘Dx`, `Dx = −d∘x` -/
def dq (d x : κ → ℝ) : κ → ℝ := fun j => d j * (-(d j * x j))

/-- the code's `dphi = −(d∘(Dx/‖Dx‖))·y` -/
noncomputable def dphiCode (d x y : κ → ℝ) : ℝ :=
  -((fun j => d j * (-(d j * x j) / Real.sqrt (nsq (fun j => -(d j * x j))))) ⬝ᵥ y)

theorem nsq_neg_scale (d x : κ → ℝ) : nsq (fun j => -(d j * x j)) = nsq (scale d x) := by
  unfold nsq scale dotProduct
  apply Finset.sum_congr rfl
  intro j _
  ring

theorem dq_eq (d x : κ → ℝ) : dq d x = -(scale d (scale d x)) := by
  funext j
  simp [dq, scale]

theorem diag_mulVec (d x : κ → ℝ) : Matrix.diagonal (fun j => d j * d j) *ᵥ x = scale d (scale d x) := by
  funext j
  rw [mulVec_diagonal]
  simp [scale]; ring

theorem dphi_formula {J : Matrix ι κ ℝ} {d : κ → ℝ} {lam : ℝ} {x y : κ → ℝ}
    (hd : ∀ j, 0 < d j) (hl : 0 < lam) (hy : H J d lam *ᵥ y = dq d x) :
    dphiCode d x y
      = -(scale d (scale d x) ⬝ᵥ ((H J d lam)⁻¹ *ᵥ scale d (scale d x))) / Real.sqrt (nsq (scale d x)) := by
  have hy' : y = (H J d lam)⁻¹ *ᵥ dq d x := solution_unique hd hl hy (solution_exists hd hl _)
  have e1 : dphiCode d x y = (scale d (scale d x) ⬝ᵥ y) / Real.sqrt (nsq (scale d x)) := by
    unfold dphiCode
    rw [nsq_neg_scale]
    unfold dotProduct scale
    rw [div_eq_mul_inv, Finset.sum_mul, ← Finset.sum_neg_distrib]
    apply Finset.sum_congr rfl
    intro j _
    ring
  rw [e1, hy', dq_eq, mulVec_neg, dotProduct_neg]

/-- `x(λ) = H(λ)⁻¹ (−Jᵀ r)` -/
noncomputable def xOf (J : Matrix ι κ ℝ) (d : κ → ℝ) (r : ι → ℝ) (lam : ℝ) : κ → ℝ :=
  (H J d lam)⁻¹ *ᵥ (-(Jᵀ *ᵥ r))

theorem normalEq_xOf {J : Matrix ι κ ℝ} {d : κ → ℝ} (r : ι → ℝ) {lam : ℝ} (hd : ∀ j, 0 < d j) (hl : 0 < lam) :
    NormalEq J d r lam (xOf J d r lam) := solution_exists hd hl _

theorem H_shift (J : Matrix ι κ ℝ) (d : κ → ℝ) (lam mu : ℝ) :
    H J d mu = H J d lam + (mu - lam) • Matrix.diagonal (fun j => d j * d j) := by
  unfold H
  rw [sub_smul]
  abel

/-- secant identity: `x(μ) − x(λ) = −(μ−λ) H(μ)⁻¹ D² x(λ)` -/
theorem secant {J : Matrix ι κ ℝ} {d : κ → ℝ} (r : ι → ℝ) {lam mu : ℝ} (hd : ∀ j, 0 < d j) (hl : 0 < lam)
    (hm : 0 < mu) :
    xOf J d r mu - xOf J d r lam
      = (mu - lam) • (-((H J d mu)⁻¹ *ᵥ scale d (scale d (xOf J d r lam)))) := by
  have h1 : H J d mu *ᵥ (xOf J d r mu - xOf J d r lam)
      = -((mu - lam) • scale d (scale d (xOf J d r lam))) := by
    rw [mulVec_sub, normalEq_xOf r hd hm, H_shift J d lam mu, add_mulVec, normalEq_xOf r hd hl, smul_mulVec,
      diag_mulVec]
    abel
  have h2 : H J d mu *ᵥ ((mu - lam) • (-((H J d mu)⁻¹ *ᵥ scale d (scale d (xOf J d r lam)))))
      = -((mu - lam) • scale d (scale d (xOf J d r lam))) := by
    rw [mulVec_smul, mulVec_neg, solution_exists hd hm, smul_neg]
  exact solution_unique hd hm h1 h2

theorem continuousAt_inv_mulVec {J : Matrix ι κ ℝ} {d : κ → ℝ} {lam : ℝ} (hd : ∀ j, 0 < d j) (hl : 0 < lam)
    (v : κ → ℝ) : ContinuousAt (fun mu => (H J d mu)⁻¹ *ᵥ v) lam := by
  have hH : Continuous (fun mu : ℝ => H J d mu) := by
    unfold H
    exact continuous_const.add (continuous_id.smul continuous_const)
  have hdet : (H J d lam).det ≠ 0 := by
    have := (Matrix.isUnit_iff_isUnit_det _).1 (H_isUnit (J := J) hd hl)
    exact this.ne_zero
  have hinv : ContinuousAt (Inv.inv : Matrix κ κ ℝ → Matrix κ κ ℝ) (H J d lam) := by
    apply continuousAt_matrix_inv
    rw [Ring.inverse_eq_inv']
    exact continuousAt_inv₀ hdet
  have hc : ContinuousAt (fun mu => (H J d mu)⁻¹) lam := hinv.comp hH.continuousAt
  have hm : Continuous (fun M : Matrix κ κ ℝ => M *ᵥ v) := Continuous.matrix_mulVec continuous_id continuous_const
  exact hm.continuousAt.comp hc

theorem hasDerivAt_xOf {J : Matrix ι κ ℝ} {d : κ → ℝ} (r : ι → ℝ) {lam : ℝ} (hd : ∀ j, 0 < d j) (hl : 0 < lam) :
    HasDerivAt (fun mu => xOf J d r mu) (-((H J d lam)⁻¹ *ᵥ scale d (scale d (xOf J d r lam)))) lam := by
  rw [hasDerivAt_iff_tendsto_slope]
  have hc := (continuousAt_inv_mulVec (J := J) hd hl (scale d (scale d (xOf J d r lam)))).neg
  have ht : Tendsto (fun mu => -((H J d mu)⁻¹ *ᵥ scale d (scale d (xOf J d r lam)))) (𝓝[≠] lam)
      (𝓝 (-((H J d lam)⁻¹ *ᵥ scale d (scale d (xOf J d r lam))))) :=
    hc.tendsto.mono_left nhdsWithin_le_nhds
  refine ht.congr' ?_
  have hpos : ∀ᶠ mu in 𝓝[≠] lam, 0 < mu := eventually_nhdsWithin_of_eventually_nhds (Ioi_mem_nhds hl)
  have hne : ∀ᶠ mu in 𝓝[≠] lam, mu ≠ lam := eventually_mem_nhdsWithin
  filter_upwards [hpos, hne] with mu hmu hmne
  rw [slope_def_module, secant r hd hl hmu, smul_smul, inv_mul_cancel₀ (sub_ne_zero.2 hmne), one_smul]

/-- `d/dλ ‖D x(λ)‖ = −(D²x)ᵀ H⁻¹ (D²x)/‖Dx‖` where `x(λ) ≠ 0` -/
theorem hasDerivAt_norm {J : Matrix ι κ ℝ} {d : κ → ℝ} {r : ι → ℝ} {lam : ℝ} (hd : ∀ j, 0 < d j) (hl : 0 < lam)
    (hx0 : xOf J d r lam ≠ 0) :
    HasDerivAt (fun mu => Real.sqrt (nsq (scale d (xOf J d r mu))))
      (-(scale d (scale d (xOf J d r lam)) ⬝ᵥ ((H J d lam)⁻¹ *ᵥ scale d (scale d (xOf J d r lam))))
        / Real.sqrt (nsq (scale d (xOf J d r lam)))) lam := by
  set x := xOf J d r lam with hxdef
  set x' := -((H J d lam)⁻¹ *ᵥ scale d (scale d x)) with hx'def
  have hx := hasDerivAt_xOf (J := J) r hd hl
  have hcoord : ∀ j, HasDerivAt (fun mu => xOf J d r mu j) (x' j) lam := fun j => (hasDerivAt_pi.1 hx) j
  have hg : HasDerivAt (fun mu => nsq (scale d (xOf J d r mu)))
      (∑ j, (d j * x' j * (d j * x j) + d j * x j * (d j * x' j))) lam := by
    unfold nsq dotProduct scale
    refine HasDerivAt.fun_sum (fun j _ => ?_)
    exact ((hcoord j).const_mul (d j)).mul ((hcoord j).const_mul (d j))
  have hne : nsq (scale d x) ≠ 0 := by
    intro h0
    exact hx0 (scale_eq_zero hd ((nsq_eq_zero _).1 h0))
  have hs := hg.sqrt hne
  refine hs.congr_deriv ?_
  have e : (∑ j, (d j * x' j * (d j * x j) + d j * x j * (d j * x' j)))
      = 2 * (scale d (scale d x) ⬝ᵥ x') := by
    unfold dotProduct scale
    rw [Finset.mul_sum]
    apply Finset.sum_congr rfl
    intro j _
    ring
  rw [e, hx'def, dotProduct_neg]
  field_simp
  rfl

end C10Deriv
