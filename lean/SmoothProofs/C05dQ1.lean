/-
  C05dQ1.lean — row 1 of the dQ table (18 entries): cubic expansions closed by `ring`.
-/
import SmoothProofs.C05dQBase

open Lin Scalar
namespace C05dQ

set_option maxRecDepth 8192 in
set_option maxHeartbeats 1000000 in
theorem expands_1_0 (A B C : ℝ) (a : Vec ℝ 6) : Expands A B C a 1 0 := by
  intro t; dq_simp; ring

set_option maxRecDepth 8192 in
set_option maxHeartbeats 1000000 in
theorem expands_1_1 (A B C : ℝ) (a : Vec ℝ 6) : Expands A B C a 1 1 := by
  intro t; dq_simp; ring

set_option maxRecDepth 8192 in
set_option maxHeartbeats 1000000 in
theorem expands_1_2 (A B C : ℝ) (a : Vec ℝ 6) : Expands A B C a 1 2 := by
  intro t; dq_simp; ring

set_option maxRecDepth 8192 in
set_option maxHeartbeats 1000000 in
theorem expands_1_3 (A B C : ℝ) (a : Vec ℝ 6) : Expands A B C a 1 3 := by
  intro t; dq_simp; ring

set_option maxRecDepth 8192 in
set_option maxHeartbeats 1000000 in
theorem expands_1_4 (A B C : ℝ) (a : Vec ℝ 6) : Expands A B C a 1 4 := by
  intro t; dq_simp; ring

set_option maxRecDepth 8192 in
set_option maxHeartbeats 1000000 in
theorem expands_1_5 (A B C : ℝ) (a : Vec ℝ 6) : Expands A B C a 1 5 := by
  intro t; dq_simp; ring

set_option maxRecDepth 8192 in
set_option maxHeartbeats 1000000 in
theorem expands_1_6 (A B C : ℝ) (a : Vec ℝ 6) : Expands A B C a 1 6 := by
  intro t; dq_simp; ring

set_option maxRecDepth 8192 in
set_option maxHeartbeats 1000000 in
theorem expands_1_7 (A B C : ℝ) (a : Vec ℝ 6) : Expands A B C a 1 7 := by
  intro t; dq_simp; ring

set_option maxRecDepth 8192 in
set_option maxHeartbeats 1000000 in
theorem expands_1_8 (A B C : ℝ) (a : Vec ℝ 6) : Expands A B C a 1 8 := by
  intro t; dq_simp; ring

set_option maxRecDepth 8192 in
set_option maxHeartbeats 1000000 in
theorem expands_1_9 (A B C : ℝ) (a : Vec ℝ 6) : Expands A B C a 1 9 := by
  intro t; dq_simp; ring

set_option maxRecDepth 8192 in
set_option maxHeartbeats 1000000 in
theorem expands_1_10 (A B C : ℝ) (a : Vec ℝ 6) : Expands A B C a 1 10 := by
  intro t; dq_simp; ring

set_option maxRecDepth 8192 in
set_option maxHeartbeats 1000000 in
theorem expands_1_11 (A B C : ℝ) (a : Vec ℝ 6) : Expands A B C a 1 11 := by
  intro t; dq_simp; ring

set_option maxRecDepth 8192 in
set_option maxHeartbeats 1000000 in
theorem expands_1_12 (A B C : ℝ) (a : Vec ℝ 6) : Expands A B C a 1 12 := by
  intro t; dq_simp; ring

set_option maxRecDepth 8192 in
set_option maxHeartbeats 1000000 in
theorem expands_1_13 (A B C : ℝ) (a : Vec ℝ 6) : Expands A B C a 1 13 := by
  intro t; dq_simp; ring

set_option maxRecDepth 8192 in
set_option maxHeartbeats 1000000 in
theorem expands_1_14 (A B C : ℝ) (a : Vec ℝ 6) : Expands A B C a 1 14 := by
  intro t; dq_simp; ring

set_option maxRecDepth 8192 in
set_option maxHeartbeats 1000000 in
theorem expands_1_15 (A B C : ℝ) (a : Vec ℝ 6) : Expands A B C a 1 15 := by
  intro t; dq_simp; ring

set_option maxRecDepth 8192 in
set_option maxHeartbeats 1000000 in
theorem expands_1_16 (A B C : ℝ) (a : Vec ℝ 6) : Expands A B C a 1 16 := by
  intro t; dq_simp; ring

set_option maxRecDepth 8192 in
set_option maxHeartbeats 1000000 in
theorem expands_1_17 (A B C : ℝ) (a : Vec ℝ 6) : Expands A B C a 1 17 := by
  intro t; dq_simp; ring

theorem expands_row1 (A B C : ℝ) (a : Vec ℝ 6) (c : Fin 18) : Expands A B C a 1 c := by
  fin_cases c
  · exact expands_1_0 A B C a
  · exact expands_1_1 A B C a
  · exact expands_1_2 A B C a
  · exact expands_1_3 A B C a
  · exact expands_1_4 A B C a
  · exact expands_1_5 A B C a
  · exact expands_1_6 A B C a
  · exact expands_1_7 A B C a
  · exact expands_1_8 A B C a
  · exact expands_1_9 A B C a
  · exact expands_1_10 A B C a
  · exact expands_1_11 A B C a
  · exact expands_1_12 A B C a
  · exact expands_1_13 A B C a
  · exact expands_1_14 A B C a
  · exact expands_1_15 A B C a
  · exact expands_1_16 A B C a
  · exact expands_1_17 A B C a

end C05dQ
