/-
  C06List.lean — `Bundle.bundle ps` for an arbitrary list `ps` of part models: offsets of the
  parts (`offs` = running sums = `utils::array_psum`, `offs_eq_psum`), the i-th part of a
  coefficient / tangent vector (`repPart`, `dofPart` = `segment(psum[i], size[i])`), the (i,j)
  block of a matrix (`dofBlock`, `dimBlock` = `block(psum[i], psum[j], size[i], size[j])`), and by
  induction over the list: every tuple-valued op acts part by part, every matrix-valued op is
  block diagonal with ZERO off-diagonal blocks.  Over any `[Scalar α]` (no arithmetic used).
-/
import SmoothProofs.C06Prod

open Lin Scalar
set_option linter.unusedSectionVars false
set_option linter.unusedVariables false

namespace C06
variable {α : Type} [Scalar α]

/-- start of part `i` in the layout with part sizes `S p`: the running sum of the sizes before it -/
def offs (S : LieModel α → Nat) : List (LieModel α) → Nat → Nat
  | [], _ => 0
  | _ :: _, 0 => 0
  | p :: ps, i + 1 => S p + offs S ps i

@[simp] theorem offs_zero (S : LieModel α → Nat) (ps : List (LieModel α)) : offs S ps 0 = 0 := by
  cases ps <;> rfl
@[simp] theorem offs_succ (S : LieModel α → Nat) (p : LieModel α) (ps : List (LieModel α)) (i : Nat) :
    offs S (p :: ps) (i + 1) = S p + offs S ps i := rfl

theorem offs_eq_sum_take (S : LieModel α → Nat) (ps : List (LieModel α)) (i : Nat) :
    offs S ps i = ((ps.map S).take i).sum := by
  induction ps generalizing i with
  | nil => simp [offs]
  | cons p ps ih =>
    cases i with
    | zero => simp
    | succ i => simp [ih]

/-- the offsets are the entries of `utils::array_psum` of the size array -/
theorem offs_eq_psum (S : LieModel α → Nat) (ps : List (LieModel α)) (i : Nat) (h : i ≤ ps.length) :
    (Bundle.psum (ps.map S))[i]? = some (offs S ps i) := by
  rw [psum_getElem? _ _ (by simpa using h), offs_eq_sum_take]

theorem rep_bound (ps : List (LieModel α)) (i : Nat) (h : i < ps.length) :
    offs LieModel.rep ps i + (ps[i]).rep ≤ (Bundle.bundle ps).rep := by
  induction ps generalizing i with
  | nil => simp at h
  | cons p ps ih =>
    cases i with
    | zero => show 0 + p.rep ≤ p.rep + (Bundle.bundle ps).rep; omega
    | succ i =>
      have h' : i < ps.length := by simpa using h
      have := ih i h'
      show p.rep + offs LieModel.rep ps i + (ps[i]).rep ≤ p.rep + (Bundle.bundle ps).rep
      omega

/-- the total size is the last entry of the prefix sums -/
theorem rep_total (ps : List (LieModel α)) : (Bundle.bundle ps).rep = offs LieModel.rep ps ps.length := by
  induction ps with
  | nil => rfl
  | cons p ps ih =>
    show p.rep + (Bundle.bundle ps).rep = p.rep + offs LieModel.rep ps ps.length
    rw [ih]

theorem dof_bound (ps : List (LieModel α)) (i : Nat) (h : i < ps.length) :
    offs LieModel.dof ps i + (ps[i]).dof ≤ (Bundle.bundle ps).dof := by
  induction ps generalizing i with
  | nil => simp at h
  | cons p ps ih =>
    cases i with
    | zero => show 0 + p.dof ≤ p.dof + (Bundle.bundle ps).dof; omega
    | succ i =>
      have h' : i < ps.length := by simpa using h
      have := ih i h'
      show p.dof + offs LieModel.dof ps i + (ps[i]).dof ≤ p.dof + (Bundle.bundle ps).dof
      omega

/-- the total size is the last entry of the prefix sums -/
theorem dof_total (ps : List (LieModel α)) : (Bundle.bundle ps).dof = offs LieModel.dof ps ps.length := by
  induction ps with
  | nil => rfl
  | cons p ps ih =>
    show p.dof + (Bundle.bundle ps).dof = p.dof + offs LieModel.dof ps ps.length
    rw [ih]

theorem dim_bound (ps : List (LieModel α)) (i : Nat) (h : i < ps.length) :
    offs LieModel.dim ps i + (ps[i]).dim ≤ (Bundle.bundle ps).dim := by
  induction ps generalizing i with
  | nil => simp at h
  | cons p ps ih =>
    cases i with
    | zero => show 0 + p.dim ≤ p.dim + (Bundle.bundle ps).dim; omega
    | succ i =>
      have h' : i < ps.length := by simpa using h
      have := ih i h'
      show p.dim + offs LieModel.dim ps i + (ps[i]).dim ≤ p.dim + (Bundle.bundle ps).dim
      omega

/-- the total size is the last entry of the prefix sums -/
theorem dim_total (ps : List (LieModel α)) : (Bundle.bundle ps).dim = offs LieModel.dim ps ps.length := by
  induction ps with
  | nil => rfl
  | cons p ps ih =>
    show p.dim + (Bundle.bundle ps).dim = p.dim + offs LieModel.dim ps ps.length
    rw [ih]

/-- part `i` of a `rep`-layout vector: `v.segment(repPsum[i], repSize[i])` -/
def repPart (ps : List (LieModel α)) (i : Nat) (h : i < ps.length) (v : Vec α (Bundle.bundle ps).rep) :
    Vec α (ps[i]).rep :=
  seg v (offs LieModel.rep ps i) (ps[i]).rep (rep_bound ps i h)

theorem repPart_apply (ps : List (LieModel α)) (i : Nat) (h : i < ps.length) (v : Vec α (Bundle.bundle ps).rep)
    (k : Fin (ps[i]).rep) :
    repPart ps i h v k = v ⟨offs LieModel.rep ps i + k.val, by have := rep_bound ps i h; omega⟩ := rfl

theorem repPart_zero (p : LieModel α) (ps : List (LieModel α)) (h : 0 < (p :: ps).length)
    (v : Vec α (Bundle.bundle (p :: ps)).rep) :
    repPart (p :: ps) 0 h v = (Bundle.fst (n := p.rep) (m := (Bundle.bundle ps).rep) v) := by
  unfold repPart
  exact seg_zero_fst (n := p.rep) (m := (Bundle.bundle ps).rep) v _

theorem repPart_succ (p : LieModel α) (ps : List (LieModel α)) (i : Nat) (h : i + 1 < (p :: ps).length)
    (v : Vec α (Bundle.bundle (p :: ps)).rep) :
    repPart (p :: ps) (i + 1) h v = repPart ps i (by simpa using h) (Bundle.snd (n := p.rep) (m := (Bundle.bundle ps).rep) v) := by
  unfold repPart
  exact seg_snd (n := p.rep) (m := (Bundle.bundle ps).rep) v _ _ _ _

/-- part `i` of a `dof`-layout vector: `v.segment(dofPsum[i], dofSize[i])` -/
def dofPart (ps : List (LieModel α)) (i : Nat) (h : i < ps.length) (v : Vec α (Bundle.bundle ps).dof) :
    Vec α (ps[i]).dof :=
  seg v (offs LieModel.dof ps i) (ps[i]).dof (dof_bound ps i h)

theorem dofPart_apply (ps : List (LieModel α)) (i : Nat) (h : i < ps.length) (v : Vec α (Bundle.bundle ps).dof)
    (k : Fin (ps[i]).dof) :
    dofPart ps i h v k = v ⟨offs LieModel.dof ps i + k.val, by have := dof_bound ps i h; omega⟩ := rfl

theorem dofPart_zero (p : LieModel α) (ps : List (LieModel α)) (h : 0 < (p :: ps).length)
    (v : Vec α (Bundle.bundle (p :: ps)).dof) :
    dofPart (p :: ps) 0 h v = (Bundle.fst (n := p.dof) (m := (Bundle.bundle ps).dof) v) := by
  unfold dofPart
  exact seg_zero_fst (n := p.dof) (m := (Bundle.bundle ps).dof) v _

theorem dofPart_succ (p : LieModel α) (ps : List (LieModel α)) (i : Nat) (h : i + 1 < (p :: ps).length)
    (v : Vec α (Bundle.bundle (p :: ps)).dof) :
    dofPart (p :: ps) (i + 1) h v = dofPart ps i (by simpa using h) (Bundle.snd (n := p.dof) (m := (Bundle.bundle ps).dof) v) := by
  unfold dofPart
  exact seg_snd (n := p.dof) (m := (Bundle.bundle ps).dof) v _ _ _ _

/-- block `(i,j)` of a `dof`-layout matrix: `M.block(dofPsum[i], dofPsum[j], size[i], size[j])` -/
def dofBlock (ps : List (LieModel α)) (i j : Nat) (hi : i < ps.length) (hj : j < ps.length)
    (M : Mat α (Bundle.bundle ps).dof (Bundle.bundle ps).dof) : Mat α (ps[i]).dof (ps[j]).dof :=
  block M (offs LieModel.dof ps i) (offs LieModel.dof ps j) (ps[i]).dof (ps[j]).dof (dof_bound ps i hi) (dof_bound ps j hj)

theorem dofBlock_apply (ps : List (LieModel α)) (i j : Nat) (hi : i < ps.length) (hj : j < ps.length)
    (M : Mat α (Bundle.bundle ps).dof (Bundle.bundle ps).dof) (r : Fin (ps[i]).dof) (c : Fin (ps[j]).dof) :
    dofBlock ps i j hi hj M r c =
      M ⟨offs LieModel.dof ps i + r.val, by have := dof_bound ps i hi; omega⟩
        ⟨offs LieModel.dof ps j + c.val, by have := dof_bound ps j hj; omega⟩ := rfl

theorem dofBlock_zero_zero (p : LieModel α) (ps : List (LieModel α)) (h : 0 < (p :: ps).length)
    (M : Mat α (Bundle.bundle (p :: ps)).dof (Bundle.bundle (p :: ps)).dof) :
    dofBlock (p :: ps) 0 0 h h M = Bundle.tl (n := p.dof) (m := (Bundle.bundle ps).dof) M := by
  unfold dofBlock
  exact block_zero_tl (n := p.dof) (m := (Bundle.bundle ps).dof) M _

theorem dofBlock_succ_succ (p : LieModel α) (ps : List (LieModel α)) (i j : Nat)
    (hi : i + 1 < (p :: ps).length) (hj : j + 1 < (p :: ps).length)
    (M : Mat α (Bundle.bundle (p :: ps)).dof (Bundle.bundle (p :: ps)).dof) :
    dofBlock (p :: ps) (i + 1) (j + 1) hi hj M =
      dofBlock ps i j (by simpa using hi) (by simpa using hj) (Bundle.br (n := p.dof) (m := (Bundle.bundle ps).dof) M) := by
  unfold dofBlock
  exact block_br (n := p.dof) (m := (Bundle.bundle ps).dof) M _ _ _ _ _ _ _ _

theorem dofBlock_bdiag_zero_zero (p : LieModel α) (ps : List (LieModel α)) (h : 0 < (p :: ps).length)
    (A : Mat α p.dof p.dof) (Bm : Mat α (Bundle.bundle ps).dof (Bundle.bundle ps).dof) :
    dofBlock (p :: ps) 0 0 h h (Bundle.bdiag A Bm) = A := by
  erw [dofBlock_zero_zero, tl_bdiag]

theorem dofBlock_bdiag_succ_succ (p : LieModel α) (ps : List (LieModel α)) (i j : Nat)
    (hi : i + 1 < (p :: ps).length) (hj : j + 1 < (p :: ps).length)
    (A : Mat α p.dof p.dof) (Bm : Mat α (Bundle.bundle ps).dof (Bundle.bundle ps).dof) :
    dofBlock (p :: ps) (i + 1) (j + 1) hi hj (Bundle.bdiag A Bm) =
      dofBlock ps i j (by simpa using hi) (by simpa using hj) Bm := by
  erw [dofBlock_succ_succ, br_bdiag]

theorem dofBlock_bdiag_zero_succ (p : LieModel α) (ps : List (LieModel α)) (j : Nat)
    (hi : 0 < (p :: ps).length) (hj : j + 1 < (p :: ps).length)
    (A : Mat α p.dof p.dof) (Bm : Mat α (Bundle.bundle ps).dof (Bundle.bundle ps).dof) :
    dofBlock (p :: ps) 0 (j + 1) hi hj (Bundle.bdiag A Bm) = mzero _ _ := by
  unfold dofBlock
  exact block_bdiag_tr A Bm _ _ _ _

theorem dofBlock_bdiag_succ_zero (p : LieModel α) (ps : List (LieModel α)) (i : Nat)
    (hi : i + 1 < (p :: ps).length) (hj : 0 < (p :: ps).length)
    (A : Mat α p.dof p.dof) (Bm : Mat α (Bundle.bundle ps).dof (Bundle.bundle ps).dof) :
    dofBlock (p :: ps) (i + 1) 0 hi hj (Bundle.bdiag A Bm) = mzero _ _ := by
  unfold dofBlock
  exact block_bdiag_bl A Bm _ _ _ _

/-- block `(i,j)` of a `dim`-layout matrix: `M.block(dimPsum[i], dimPsum[j], size[i], size[j])` -/
def dimBlock (ps : List (LieModel α)) (i j : Nat) (hi : i < ps.length) (hj : j < ps.length)
    (M : Mat α (Bundle.bundle ps).dim (Bundle.bundle ps).dim) : Mat α (ps[i]).dim (ps[j]).dim :=
  block M (offs LieModel.dim ps i) (offs LieModel.dim ps j) (ps[i]).dim (ps[j]).dim (dim_bound ps i hi) (dim_bound ps j hj)

theorem dimBlock_apply (ps : List (LieModel α)) (i j : Nat) (hi : i < ps.length) (hj : j < ps.length)
    (M : Mat α (Bundle.bundle ps).dim (Bundle.bundle ps).dim) (r : Fin (ps[i]).dim) (c : Fin (ps[j]).dim) :
    dimBlock ps i j hi hj M r c =
      M ⟨offs LieModel.dim ps i + r.val, by have := dim_bound ps i hi; omega⟩
        ⟨offs LieModel.dim ps j + c.val, by have := dim_bound ps j hj; omega⟩ := rfl

theorem dimBlock_zero_zero (p : LieModel α) (ps : List (LieModel α)) (h : 0 < (p :: ps).length)
    (M : Mat α (Bundle.bundle (p :: ps)).dim (Bundle.bundle (p :: ps)).dim) :
    dimBlock (p :: ps) 0 0 h h M = Bundle.tl (n := p.dim) (m := (Bundle.bundle ps).dim) M := by
  unfold dimBlock
  exact block_zero_tl (n := p.dim) (m := (Bundle.bundle ps).dim) M _

theorem dimBlock_succ_succ (p : LieModel α) (ps : List (LieModel α)) (i j : Nat)
    (hi : i + 1 < (p :: ps).length) (hj : j + 1 < (p :: ps).length)
    (M : Mat α (Bundle.bundle (p :: ps)).dim (Bundle.bundle (p :: ps)).dim) :
    dimBlock (p :: ps) (i + 1) (j + 1) hi hj M =
      dimBlock ps i j (by simpa using hi) (by simpa using hj) (Bundle.br (n := p.dim) (m := (Bundle.bundle ps).dim) M) := by
  unfold dimBlock
  exact block_br (n := p.dim) (m := (Bundle.bundle ps).dim) M _ _ _ _ _ _ _ _

theorem dimBlock_bdiag_zero_zero (p : LieModel α) (ps : List (LieModel α)) (h : 0 < (p :: ps).length)
    (A : Mat α p.dim p.dim) (Bm : Mat α (Bundle.bundle ps).dim (Bundle.bundle ps).dim) :
    dimBlock (p :: ps) 0 0 h h (Bundle.bdiag A Bm) = A := by
  erw [dimBlock_zero_zero, tl_bdiag]

theorem dimBlock_bdiag_succ_succ (p : LieModel α) (ps : List (LieModel α)) (i j : Nat)
    (hi : i + 1 < (p :: ps).length) (hj : j + 1 < (p :: ps).length)
    (A : Mat α p.dim p.dim) (Bm : Mat α (Bundle.bundle ps).dim (Bundle.bundle ps).dim) :
    dimBlock (p :: ps) (i + 1) (j + 1) hi hj (Bundle.bdiag A Bm) =
      dimBlock ps i j (by simpa using hi) (by simpa using hj) Bm := by
  erw [dimBlock_succ_succ, br_bdiag]

theorem dimBlock_bdiag_zero_succ (p : LieModel α) (ps : List (LieModel α)) (j : Nat)
    (hi : 0 < (p :: ps).length) (hj : j + 1 < (p :: ps).length)
    (A : Mat α p.dim p.dim) (Bm : Mat α (Bundle.bundle ps).dim (Bundle.bundle ps).dim) :
    dimBlock (p :: ps) 0 (j + 1) hi hj (Bundle.bdiag A Bm) = mzero _ _ := by
  unfold dimBlock
  exact block_bdiag_tr A Bm _ _ _ _

theorem dimBlock_bdiag_succ_zero (p : LieModel α) (ps : List (LieModel α)) (i : Nat)
    (hi : i + 1 < (p :: ps).length) (hj : 0 < (p :: ps).length)
    (A : Mat α p.dim p.dim) (Bm : Mat α (Bundle.bundle ps).dim (Bundle.bundle ps).dim) :
    dimBlock (p :: ps) (i + 1) 0 hi hj (Bundle.bdiag A Bm) = mzero _ _ := by
  unfold dimBlock
  exact block_bdiag_bl A Bm _ _ _ _

/-! ### tuple-valued operations act part by part -/

theorem bundle_cons_identity (p : LieModel α) (ps : List (LieModel α))  :
    (Bundle.bundle (p :: ps)).identity  = vcat (p.identity ) ((Bundle.bundle ps).identity ) := rfl
/-- part `i` of `identity` on the Bundle is `identity` of part `i` -/
theorem bundle_identity_part (ps : List (LieModel α)) (i : Nat) (h : i < ps.length)  :
    repPart ps i h ((Bundle.bundle ps).identity ) = (ps[i]).identity  := by
  induction ps generalizing i with
  | nil => simp at h
  | cons p ps ih =>
    cases i with
    | zero =>
      repeat rw [repPart_zero]
      rw [bundle_cons_identity, fst_vcat]
      try rfl
    | succ i =>
      repeat rw [repPart_succ]
      rw [bundle_cons_identity, snd_vcat]
      exact ih i _

theorem bundle_cons_composition (p : LieModel α) (ps : List (LieModel α)) (a : Vec α (Bundle.bundle (p :: ps)).rep) (b : Vec α (Bundle.bundle (p :: ps)).rep) :
    (Bundle.bundle (p :: ps)).composition a b = vcat (p.composition (Bundle.fst (n := p.rep) (m := (Bundle.bundle ps).rep) a) (Bundle.fst (n := p.rep) (m := (Bundle.bundle ps).rep) b)) ((Bundle.bundle ps).composition (Bundle.snd (n := p.rep) (m := (Bundle.bundle ps).rep) a) (Bundle.snd (n := p.rep) (m := (Bundle.bundle ps).rep) b)) := rfl
/-- part `i` of `composition` on the Bundle is `composition` of part `i` -/
theorem bundle_composition_part (ps : List (LieModel α)) (i : Nat) (h : i < ps.length) (a : Vec α (Bundle.bundle ps).rep) (b : Vec α (Bundle.bundle ps).rep) :
    repPart ps i h ((Bundle.bundle ps).composition a b) = (ps[i]).composition (repPart ps i h a) (repPart ps i h b) := by
  induction ps generalizing i with
  | nil => simp at h
  | cons p ps ih =>
    cases i with
    | zero =>
      repeat rw [repPart_zero]
      rw [bundle_cons_composition, fst_vcat]
      try rfl
    | succ i =>
      repeat rw [repPart_succ]
      rw [bundle_cons_composition, snd_vcat]
      exact ih i _ _ _

theorem bundle_cons_inverse (p : LieModel α) (ps : List (LieModel α)) (a : Vec α (Bundle.bundle (p :: ps)).rep) :
    (Bundle.bundle (p :: ps)).inverse a = vcat (p.inverse (Bundle.fst (n := p.rep) (m := (Bundle.bundle ps).rep) a)) ((Bundle.bundle ps).inverse (Bundle.snd (n := p.rep) (m := (Bundle.bundle ps).rep) a)) := rfl
/-- part `i` of `inverse` on the Bundle is `inverse` of part `i` -/
theorem bundle_inverse_part (ps : List (LieModel α)) (i : Nat) (h : i < ps.length) (a : Vec α (Bundle.bundle ps).rep) :
    repPart ps i h ((Bundle.bundle ps).inverse a) = (ps[i]).inverse (repPart ps i h a) := by
  induction ps generalizing i with
  | nil => simp at h
  | cons p ps ih =>
    cases i with
    | zero =>
      repeat rw [repPart_zero]
      rw [bundle_cons_inverse, fst_vcat]
      try rfl
    | succ i =>
      repeat rw [repPart_succ]
      rw [bundle_cons_inverse, snd_vcat]
      exact ih i _ _

theorem bundle_cons_exp (p : LieModel α) (ps : List (LieModel α)) (a : Vec α (Bundle.bundle (p :: ps)).dof) :
    (Bundle.bundle (p :: ps)).exp a = vcat (p.exp (Bundle.fst (n := p.dof) (m := (Bundle.bundle ps).dof) a)) ((Bundle.bundle ps).exp (Bundle.snd (n := p.dof) (m := (Bundle.bundle ps).dof) a)) := rfl
/-- part `i` of `exp` on the Bundle is `exp` of part `i` -/
theorem bundle_exp_part (ps : List (LieModel α)) (i : Nat) (h : i < ps.length) (a : Vec α (Bundle.bundle ps).dof) :
    repPart ps i h ((Bundle.bundle ps).exp a) = (ps[i]).exp (dofPart ps i h a) := by
  induction ps generalizing i with
  | nil => simp at h
  | cons p ps ih =>
    cases i with
    | zero =>
      repeat rw [dofPart_zero]
      repeat rw [repPart_zero]
      rw [bundle_cons_exp, fst_vcat]
      try rfl
    | succ i =>
      repeat rw [dofPart_succ]
      repeat rw [repPart_succ]
      rw [bundle_cons_exp, snd_vcat]
      exact ih i _ _

theorem bundle_cons_log (p : LieModel α) (ps : List (LieModel α)) (a : Vec α (Bundle.bundle (p :: ps)).rep) :
    (Bundle.bundle (p :: ps)).log a = vcat (p.log (Bundle.fst (n := p.rep) (m := (Bundle.bundle ps).rep) a)) ((Bundle.bundle ps).log (Bundle.snd (n := p.rep) (m := (Bundle.bundle ps).rep) a)) := rfl
/-- part `i` of `log` on the Bundle is `log` of part `i` -/
theorem bundle_log_part (ps : List (LieModel α)) (i : Nat) (h : i < ps.length) (a : Vec α (Bundle.bundle ps).rep) :
    dofPart ps i h ((Bundle.bundle ps).log a) = (ps[i]).log (repPart ps i h a) := by
  induction ps generalizing i with
  | nil => simp at h
  | cons p ps ih =>
    cases i with
    | zero =>
      repeat rw [dofPart_zero]
      repeat rw [repPart_zero]
      rw [bundle_cons_log, fst_vcat]
      try rfl
    | succ i =>
      repeat rw [dofPart_succ]
      repeat rw [repPart_succ]
      rw [bundle_cons_log, snd_vcat]
      exact ih i _ _

theorem bundle_cons_vee (p : LieModel α) (ps : List (LieModel α))
    (M : Mat α (Bundle.bundle (p :: ps)).dim (Bundle.bundle (p :: ps)).dim) :
    (Bundle.bundle (p :: ps)).vee M =
      vcat (p.vee (Bundle.tl (n := p.dim) (m := (Bundle.bundle ps).dim) M))
        ((Bundle.bundle ps).vee (Bundle.br (n := p.dim) (m := (Bundle.bundle ps).dim) M)) := rfl

/-- part `i` of `vee M` is `vee` of the `i`-th diagonal block of `M` (ANY matrix `M`: `vee` reads
    the diagonal blocks only) -/
theorem bundle_vee_part (ps : List (LieModel α)) (i : Nat) (h : i < ps.length)
    (M : Mat α (Bundle.bundle ps).dim (Bundle.bundle ps).dim) :
    dofPart ps i h ((Bundle.bundle ps).vee M) = (ps[i]).vee (dimBlock ps i i h h M) := by
  induction ps generalizing i with
  | nil => simp at h
  | cons p ps ih =>
    cases i with
    | zero =>
      rw [dofPart_zero, dimBlock_zero_zero, bundle_cons_vee, fst_vcat]
      try rfl
    | succ i =>
      rw [dofPart_succ, dimBlock_succ_succ, bundle_cons_vee, snd_vcat]
      exact ih i _ _

/-! ### matrix-valued operations are block diagonal, off-diagonal blocks are zero -/

theorem bundle_cons_matrix (p : LieModel α) (ps : List (LieModel α)) (x : Vec α (Bundle.bundle (p :: ps)).rep) :
    (Bundle.bundle (p :: ps)).matrix x =
      Bundle.bdiag (p.matrix (Bundle.fst (n := p.rep) (m := (Bundle.bundle ps).rep) x)) ((Bundle.bundle ps).matrix (Bundle.snd (n := p.rep) (m := (Bundle.bundle ps).rep) x)) := rfl

/-- diagonal block `i` of `matrix` on the Bundle is `matrix` of part `i` -/
theorem bundle_matrix_diag (ps : List (LieModel α)) (i : Nat) (h : i < ps.length) (x : Vec α (Bundle.bundle ps).rep) :
    dimBlock ps i i h h ((Bundle.bundle ps).matrix x) = (ps[i]).matrix (repPart ps i h x) := by
  induction ps generalizing i with
  | nil => simp at h
  | cons p ps ih =>
    cases i with
    | zero =>
      rw [dimBlock_zero_zero, repPart_zero, bundle_cons_matrix, tl_bdiag]
      try rfl
    | succ i =>
      rw [dimBlock_succ_succ, repPart_succ, bundle_cons_matrix, br_bdiag]
      exact ih i _ _

/-- every off-diagonal block of `matrix` on the Bundle is zero -/
theorem bundle_matrix_offdiag (ps : List (LieModel α)) (i j : Nat) (hi : i < ps.length) (hj : j < ps.length)
    (hij : i ≠ j) (x : Vec α (Bundle.bundle ps).rep) :
    dimBlock ps i j hi hj ((Bundle.bundle ps).matrix x) = mzero _ _ := by
  induction ps generalizing i j with
  | nil => simp at hi
  | cons p ps ih =>
    cases i with
    | zero =>
      cases j with
      | zero => exact absurd rfl hij
      | succ j =>
        exact dimBlock_bdiag_zero_succ p ps j hi hj (p.matrix (Bundle.fst (n := p.rep) (m := (Bundle.bundle ps).rep) x)) ((Bundle.bundle ps).matrix (Bundle.snd (n := p.rep) (m := (Bundle.bundle ps).rep) x))
    | succ i =>
      cases j with
      | zero =>
        exact dimBlock_bdiag_succ_zero p ps i hi hj (p.matrix (Bundle.fst (n := p.rep) (m := (Bundle.bundle ps).rep) x)) ((Bundle.bundle ps).matrix (Bundle.snd (n := p.rep) (m := (Bundle.bundle ps).rep) x))
      | succ j =>
        rw [dimBlock_succ_succ, bundle_cons_matrix, br_bdiag]
        exact ih i j _ _ (by omega) _

theorem bundle_cons_hat (p : LieModel α) (ps : List (LieModel α)) (x : Vec α (Bundle.bundle (p :: ps)).dof) :
    (Bundle.bundle (p :: ps)).hat x =
      Bundle.bdiag (p.hat (Bundle.fst (n := p.dof) (m := (Bundle.bundle ps).dof) x)) ((Bundle.bundle ps).hat (Bundle.snd (n := p.dof) (m := (Bundle.bundle ps).dof) x)) := rfl

/-- diagonal block `i` of `hat` on the Bundle is `hat` of part `i` -/
theorem bundle_hat_diag (ps : List (LieModel α)) (i : Nat) (h : i < ps.length) (x : Vec α (Bundle.bundle ps).dof) :
    dimBlock ps i i h h ((Bundle.bundle ps).hat x) = (ps[i]).hat (dofPart ps i h x) := by
  induction ps generalizing i with
  | nil => simp at h
  | cons p ps ih =>
    cases i with
    | zero =>
      rw [dimBlock_zero_zero, dofPart_zero, bundle_cons_hat, tl_bdiag]
      try rfl
    | succ i =>
      rw [dimBlock_succ_succ, dofPart_succ, bundle_cons_hat, br_bdiag]
      exact ih i _ _

/-- every off-diagonal block of `hat` on the Bundle is zero -/
theorem bundle_hat_offdiag (ps : List (LieModel α)) (i j : Nat) (hi : i < ps.length) (hj : j < ps.length)
    (hij : i ≠ j) (x : Vec α (Bundle.bundle ps).dof) :
    dimBlock ps i j hi hj ((Bundle.bundle ps).hat x) = mzero _ _ := by
  induction ps generalizing i j with
  | nil => simp at hi
  | cons p ps ih =>
    cases i with
    | zero =>
      cases j with
      | zero => exact absurd rfl hij
      | succ j =>
        exact dimBlock_bdiag_zero_succ p ps j hi hj (p.hat (Bundle.fst (n := p.dof) (m := (Bundle.bundle ps).dof) x)) ((Bundle.bundle ps).hat (Bundle.snd (n := p.dof) (m := (Bundle.bundle ps).dof) x))
    | succ i =>
      cases j with
      | zero =>
        exact dimBlock_bdiag_succ_zero p ps i hi hj (p.hat (Bundle.fst (n := p.dof) (m := (Bundle.bundle ps).dof) x)) ((Bundle.bundle ps).hat (Bundle.snd (n := p.dof) (m := (Bundle.bundle ps).dof) x))
      | succ j =>
        rw [dimBlock_succ_succ, bundle_cons_hat, br_bdiag]
        exact ih i j _ _ (by omega) _

theorem bundle_cons_Ad (p : LieModel α) (ps : List (LieModel α)) (x : Vec α (Bundle.bundle (p :: ps)).rep) :
    (Bundle.bundle (p :: ps)).Ad x =
      Bundle.bdiag (p.Ad (Bundle.fst (n := p.rep) (m := (Bundle.bundle ps).rep) x)) ((Bundle.bundle ps).Ad (Bundle.snd (n := p.rep) (m := (Bundle.bundle ps).rep) x)) := rfl

/-- diagonal block `i` of `Ad` on the Bundle is `Ad` of part `i` -/
theorem bundle_Ad_diag (ps : List (LieModel α)) (i : Nat) (h : i < ps.length) (x : Vec α (Bundle.bundle ps).rep) :
    dofBlock ps i i h h ((Bundle.bundle ps).Ad x) = (ps[i]).Ad (repPart ps i h x) := by
  induction ps generalizing i with
  | nil => simp at h
  | cons p ps ih =>
    cases i with
    | zero =>
      rw [dofBlock_zero_zero, repPart_zero, bundle_cons_Ad, tl_bdiag]
      try rfl
    | succ i =>
      rw [dofBlock_succ_succ, repPart_succ, bundle_cons_Ad, br_bdiag]
      exact ih i _ _

/-- every off-diagonal block of `Ad` on the Bundle is zero -/
theorem bundle_Ad_offdiag (ps : List (LieModel α)) (i j : Nat) (hi : i < ps.length) (hj : j < ps.length)
    (hij : i ≠ j) (x : Vec α (Bundle.bundle ps).rep) :
    dofBlock ps i j hi hj ((Bundle.bundle ps).Ad x) = mzero _ _ := by
  induction ps generalizing i j with
  | nil => simp at hi
  | cons p ps ih =>
    cases i with
    | zero =>
      cases j with
      | zero => exact absurd rfl hij
      | succ j =>
        exact dofBlock_bdiag_zero_succ p ps j hi hj (p.Ad (Bundle.fst (n := p.rep) (m := (Bundle.bundle ps).rep) x)) ((Bundle.bundle ps).Ad (Bundle.snd (n := p.rep) (m := (Bundle.bundle ps).rep) x))
    | succ i =>
      cases j with
      | zero =>
        exact dofBlock_bdiag_succ_zero p ps i hi hj (p.Ad (Bundle.fst (n := p.rep) (m := (Bundle.bundle ps).rep) x)) ((Bundle.bundle ps).Ad (Bundle.snd (n := p.rep) (m := (Bundle.bundle ps).rep) x))
      | succ j =>
        rw [dofBlock_succ_succ, bundle_cons_Ad, br_bdiag]
        exact ih i j _ _ (by omega) _

theorem bundle_cons_ad (p : LieModel α) (ps : List (LieModel α)) (x : Vec α (Bundle.bundle (p :: ps)).dof) :
    (Bundle.bundle (p :: ps)).ad x =
      Bundle.bdiag (p.ad (Bundle.fst (n := p.dof) (m := (Bundle.bundle ps).dof) x)) ((Bundle.bundle ps).ad (Bundle.snd (n := p.dof) (m := (Bundle.bundle ps).dof) x)) := rfl

/-- diagonal block `i` of `ad` on the Bundle is `ad` of part `i` -/
theorem bundle_ad_diag (ps : List (LieModel α)) (i : Nat) (h : i < ps.length) (x : Vec α (Bundle.bundle ps).dof) :
    dofBlock ps i i h h ((Bundle.bundle ps).ad x) = (ps[i]).ad (dofPart ps i h x) := by
  induction ps generalizing i with
  | nil => simp at h
  | cons p ps ih =>
    cases i with
    | zero =>
      rw [dofBlock_zero_zero, dofPart_zero, bundle_cons_ad, tl_bdiag]
      try rfl
    | succ i =>
      rw [dofBlock_succ_succ, dofPart_succ, bundle_cons_ad, br_bdiag]
      exact ih i _ _

/-- every off-diagonal block of `ad` on the Bundle is zero -/
theorem bundle_ad_offdiag (ps : List (LieModel α)) (i j : Nat) (hi : i < ps.length) (hj : j < ps.length)
    (hij : i ≠ j) (x : Vec α (Bundle.bundle ps).dof) :
    dofBlock ps i j hi hj ((Bundle.bundle ps).ad x) = mzero _ _ := by
  induction ps generalizing i j with
  | nil => simp at hi
  | cons p ps ih =>
    cases i with
    | zero =>
      cases j with
      | zero => exact absurd rfl hij
      | succ j =>
        exact dofBlock_bdiag_zero_succ p ps j hi hj (p.ad (Bundle.fst (n := p.dof) (m := (Bundle.bundle ps).dof) x)) ((Bundle.bundle ps).ad (Bundle.snd (n := p.dof) (m := (Bundle.bundle ps).dof) x))
    | succ i =>
      cases j with
      | zero =>
        exact dofBlock_bdiag_succ_zero p ps i hi hj (p.ad (Bundle.fst (n := p.dof) (m := (Bundle.bundle ps).dof) x)) ((Bundle.bundle ps).ad (Bundle.snd (n := p.dof) (m := (Bundle.bundle ps).dof) x))
      | succ j =>
        rw [dofBlock_succ_succ, bundle_cons_ad, br_bdiag]
        exact ih i j _ _ (by omega) _

theorem bundle_cons_dr_exp (p : LieModel α) (ps : List (LieModel α)) (x : Vec α (Bundle.bundle (p :: ps)).dof) :
    (Bundle.bundle (p :: ps)).dr_exp x =
      Bundle.bdiag (p.dr_exp (Bundle.fst (n := p.dof) (m := (Bundle.bundle ps).dof) x)) ((Bundle.bundle ps).dr_exp (Bundle.snd (n := p.dof) (m := (Bundle.bundle ps).dof) x)) := rfl

/-- diagonal block `i` of `dr_exp` on the Bundle is `dr_exp` of part `i` -/
theorem bundle_dr_exp_diag (ps : List (LieModel α)) (i : Nat) (h : i < ps.length) (x : Vec α (Bundle.bundle ps).dof) :
    dofBlock ps i i h h ((Bundle.bundle ps).dr_exp x) = (ps[i]).dr_exp (dofPart ps i h x) := by
  induction ps generalizing i with
  | nil => simp at h
  | cons p ps ih =>
    cases i with
    | zero =>
      rw [dofBlock_zero_zero, dofPart_zero, bundle_cons_dr_exp, tl_bdiag]
      try rfl
    | succ i =>
      rw [dofBlock_succ_succ, dofPart_succ, bundle_cons_dr_exp, br_bdiag]
      exact ih i _ _

/-- every off-diagonal block of `dr_exp` on the Bundle is zero -/
theorem bundle_dr_exp_offdiag (ps : List (LieModel α)) (i j : Nat) (hi : i < ps.length) (hj : j < ps.length)
    (hij : i ≠ j) (x : Vec α (Bundle.bundle ps).dof) :
    dofBlock ps i j hi hj ((Bundle.bundle ps).dr_exp x) = mzero _ _ := by
  induction ps generalizing i j with
  | nil => simp at hi
  | cons p ps ih =>
    cases i with
    | zero =>
      cases j with
      | zero => exact absurd rfl hij
      | succ j =>
        exact dofBlock_bdiag_zero_succ p ps j hi hj (p.dr_exp (Bundle.fst (n := p.dof) (m := (Bundle.bundle ps).dof) x)) ((Bundle.bundle ps).dr_exp (Bundle.snd (n := p.dof) (m := (Bundle.bundle ps).dof) x))
    | succ i =>
      cases j with
      | zero =>
        exact dofBlock_bdiag_succ_zero p ps i hi hj (p.dr_exp (Bundle.fst (n := p.dof) (m := (Bundle.bundle ps).dof) x)) ((Bundle.bundle ps).dr_exp (Bundle.snd (n := p.dof) (m := (Bundle.bundle ps).dof) x))
      | succ j =>
        rw [dofBlock_succ_succ, bundle_cons_dr_exp, br_bdiag]
        exact ih i j _ _ (by omega) _

theorem bundle_cons_dr_expinv (p : LieModel α) (ps : List (LieModel α)) (x : Vec α (Bundle.bundle (p :: ps)).dof) :
    (Bundle.bundle (p :: ps)).dr_expinv x =
      Bundle.bdiag (p.dr_expinv (Bundle.fst (n := p.dof) (m := (Bundle.bundle ps).dof) x)) ((Bundle.bundle ps).dr_expinv (Bundle.snd (n := p.dof) (m := (Bundle.bundle ps).dof) x)) := rfl

/-- diagonal block `i` of `dr_expinv` on the Bundle is `dr_expinv` of part `i` -/
theorem bundle_dr_expinv_diag (ps : List (LieModel α)) (i : Nat) (h : i < ps.length) (x : Vec α (Bundle.bundle ps).dof) :
    dofBlock ps i i h h ((Bundle.bundle ps).dr_expinv x) = (ps[i]).dr_expinv (dofPart ps i h x) := by
  induction ps generalizing i with
  | nil => simp at h
  | cons p ps ih =>
    cases i with
    | zero =>
      rw [dofBlock_zero_zero, dofPart_zero, bundle_cons_dr_expinv, tl_bdiag]
      try rfl
    | succ i =>
      rw [dofBlock_succ_succ, dofPart_succ, bundle_cons_dr_expinv, br_bdiag]
      exact ih i _ _

/-- every off-diagonal block of `dr_expinv` on the Bundle is zero -/
theorem bundle_dr_expinv_offdiag (ps : List (LieModel α)) (i j : Nat) (hi : i < ps.length) (hj : j < ps.length)
    (hij : i ≠ j) (x : Vec α (Bundle.bundle ps).dof) :
    dofBlock ps i j hi hj ((Bundle.bundle ps).dr_expinv x) = mzero _ _ := by
  induction ps generalizing i j with
  | nil => simp at hi
  | cons p ps ih =>
    cases i with
    | zero =>
      cases j with
      | zero => exact absurd rfl hij
      | succ j =>
        exact dofBlock_bdiag_zero_succ p ps j hi hj (p.dr_expinv (Bundle.fst (n := p.dof) (m := (Bundle.bundle ps).dof) x)) ((Bundle.bundle ps).dr_expinv (Bundle.snd (n := p.dof) (m := (Bundle.bundle ps).dof) x))
    | succ i =>
      cases j with
      | zero =>
        exact dofBlock_bdiag_succ_zero p ps i hi hj (p.dr_expinv (Bundle.fst (n := p.dof) (m := (Bundle.bundle ps).dof) x)) ((Bundle.bundle ps).dr_expinv (Bundle.snd (n := p.dof) (m := (Bundle.bundle ps).dof) x))
      | succ j =>
        rw [dofBlock_succ_succ, bundle_cons_dr_expinv, br_bdiag]
        exact ih i j _ _ (by omega) _

end C06
