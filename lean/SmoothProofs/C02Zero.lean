/-
  C02Zero.lean — rotation part exactly zero for SE_K_3 and Galilei: the series branches are taken
  and are exact (`hat a` is nilpotent: `exp = 1 + N` resp. `1 + N + N²/2`).
-/
import SmoothProofs.C02LogK

open Lin Scalar

namespace C02

/-- `A³ = 0 ⟹ exp A = 1 + A + A²/2` -/
theorem exp_eq_of_cube_zero {n : Nat} (A : Matrix (Fin n) (Fin n) ℝ) (h3 : A * (A * A) = 0) :
    NormedSpace.exp A = 1 + A + (1/2 : ℝ) • (A * A) := by
  let Φ : ℝ → Matrix (Fin n) (Fin n) ℝ := fun u => 1 + u • A + (u * u / 2) • (A * A)
  have h := Matrix.eq_exp_of_entry_hasDerivAt_one A Φ (by simp [Φ])
    (by
      intro t i j
      have hmul : A * Φ t = A + t • (A * A) := by
        simp only [Φ, mul_add, mul_one, Matrix.mul_smul, h3, smul_zero, add_zero]
      rw [hmul]
      have hsq : HasDerivAt (fun u : ℝ => u * u / 2) ((1 * t + t * 1) / 2) t :=
        ((hasDerivAt_id t).mul (hasDerivAt_id t)).div_const 2
      have hd := (((hasDerivAt_id t).mul_const (A i j)).const_add
        ((1 : Matrix (Fin n) (Fin n) ℝ) i j)).add (hsq.mul_const ((A * A) i j))
      have he : (fun u => Φ u i j) = fun u => (1 : Matrix (Fin n) (Fin n) ℝ) i j + u * A i j
          + u * u / 2 * (A * A) i j := by
        funext u; simp [Φ, Matrix.add_apply, Matrix.smul_apply]
      rw [he]
      refine hd.congr_deriv ?_
      simp only [Matrix.add_apply, Matrix.smul_apply, smul_eq_mul]
      ring)
  rw [← h]; simp [Φ]

theorem so3_calc_S1_zero (b : Vec ℝ 3) (h0 : b 0 = 0) (h1 : b 1 = 0) (h2 : b 2 = 0) :
    toM (SO3.calc_S1 b) = 1 := by
  have hK0 : K3 0 0 0 = 0 := by
    ext i j; fin_cases i <;> fin_cases j <;> simp [K3]
  rw [so3_calc_S1_toM, h0, h1, h2, hK0]; simp

theorem so3_calc_S2_zero (b : Vec ℝ 3) (h0 : b 0 = 0) (h1 : b 1 = 0) (h2 : b 2 = 0) :
    toM (SO3.calc_S2 b) = (1/2 : ℝ) • (1 : Matrix (Fin 3) (Fin 3) ℝ) := by
  have hK0 : K3 0 0 0 = 0 := by
    ext i j; fin_cases i <;> fin_cases j <;> simp [K3]
  rw [so3_calc_S2_toM, h0, h1, h2, hK0]; simp

theorem so3_matrix_identity_toM : toM (SO3.matrix (mk4 (0:ℝ) 0 0 1)) = 1 := by
  ext i j; fin_cases i <;> fin_cases j <;> simp [toM, SO3.matrix, mat3, mk4]

theorem K3_zero : K3 0 0 0 = 0 := by
  ext i j; fin_cases i <;> fin_cases j <;> simp [K3]

/-- SE_K_3 with zero rotation part: exact. -/
theorem sek3_exp_is_matrix_exp_zero (k : Nat) (a : Vec ℝ (3 + 3 * k))
    (h0 : (SEK3.tw k a) 0 = 0) (h1 : (SEK3.tw k a) 1 = 0) (h2 : (SEK3.tw k a) 2 = 0) :
    toM (SEK3.matrix k (SEK3.exp k a)) = NormedSpace.exp (toM (SEK3.hat k a)) := by
  have hsq : toM (SEK3.hat k a) * toM (SEK3.hat k a) = 0 := by
    rw [sek3_hat_toM, blkK_mul, h0, h1, h2, K3_zero]
    ext i j
    by_cases hi : i.val < 3 <;> by_cases hj : j.val < 3 <;> simp [blkK, hi, hj]
  rw [exp_eq_one_add_of_sq_zero _ hsq, sek3_hat_toM, h0, h1, h2, K3_zero]
  have hq := so3_exp_zero (SEK3.tw k a) h0 h1 h2
  have e0 : (vneg (SEK3.tw k a)) 0 = 0 := by show -((SEK3.tw k a) 0) = 0; rw [h0, neg_zero]
  have e1 : (vneg (SEK3.tw k a)) 1 = 0 := by show -((SEK3.tw k a) 1) = 0; rw [h1, neg_zero]
  have e2 : (vneg (SEK3.tw k a)) 2 = 0 := by show -((SEK3.tw k a) 2) = 0; rw [h2, neg_zero]
  have hJ := so3_calc_S1_zero (vneg (SEK3.tw k a)) e0 e1 e2
  rw [sek3_exp_unfold, hq, sek3_matrix_mkG, so3_matrix_identity_toM]
  ext i j
  by_cases hi : i.val < 3 <;> by_cases hj : j.val < 3
  · simp [blkK, hi, hj, Matrix.one_apply, Fin.ext_iff]
  · have hne : i ≠ j := fun h => hj (h ▸ hi)
    have := congrFun (mulVec3_get (mmul (SO3.matrix (mk4 (0:ℝ) 0 0 1))
      (SO3.calc_S1 (vneg (SEK3.tw k a)))) (SEK3.tv k a ⟨j.val - 3, by omega⟩)) ⟨i.val, hi⟩
    rw [toM_mmul3, so3_matrix_identity_toM, hJ, one_mul, Matrix.one_mulVec] at this
    simp [blkK, hi, hj, vMat, hne, this]
  · have hne : i ≠ j := fun h => hi (h ▸ hj)
    simp [blkK, hi, hj, hne]
  · have : (i.val - 3 = j.val - 3) ↔ (i = j) := by rw [Fin.ext_iff]; omega
    simp [blkK, hi, hj, Matrix.one_apply, Fin.ext_iff, this]


/-- Galilei with zero rotation part: exact (`hat a` is nilpotent of order 3). -/
theorem galilei_exp_is_matrix_exp_zero (a : Vec ℝ 10) (h7 : a 7 = 0) (h8 : a 8 = 0) (h9 : a 9 = 0) :
    toM (Galilei.matrix (Galilei.exp a)) = NormedSpace.exp (toM (Galilei.hat a)) := by
  have hx : (Galilei.tw a) 0 = 0 := h7
  have hy : (Galilei.tw a) 1 = 0 := h8
  have hz : (Galilei.tw a) 2 = 0 := h9
  have hN : toM (Galilei.hat a)
      = blkK 0 (vMat2 (Galilei.tb a).get (Galilei.tq a).get) (nMat (a 6)) := by
    rw [galilei_hat_toM, h7, h8, h9, K3_zero]
  have hnn : nMat (a 6) * nMat (a 6) = 0 := by
    ext i j; fin_cases i <;> fin_cases j <;> simp [nMat, Matrix.mul_apply, Fin.sum_univ_two]
  have h3 : toM (Galilei.hat a) * (toM (Galilei.hat a) * toM (Galilei.hat a)) = 0 := by
    rw [hN, blkK_mul, blkK_mul, hnn]
    ext i j
    by_cases hi : i.val < 3 <;> by_cases hj : j.val < 3 <;> simp [blkK, hi, hj]
  rw [exp_eq_of_cube_zero _ h3, hN, blkK_mul, hnn]
  have hq := so3_exp_zero (Galilei.tw a) hx hy hz
  have hS1 := so3_calc_S1_zero (Galilei.tw a) hx hy hz
  have hS2 := so3_calc_S2_zero (Galilei.tw a) hx hy hz
  have hv : (mulVec (SO3.calc_S1 (Galilei.tw a)) (Galilei.tb a)).get = (Galilei.tb a).get := by
    rw [mulVec3_get, hS1, Matrix.one_mulVec]
  have hp1 : (mulVec (SO3.calc_S1 (Galilei.tw a)) (Galilei.tq a)).get = (Galilei.tq a).get := by
    rw [mulVec3_get, hS1, Matrix.one_mulVec]
  have hp2 : (mulVec (SO3.calc_S2 (Galilei.tw a)) (Galilei.tb a)).get
      = (1/2 : ℝ) • (Galilei.tb a).get := by
    rw [mulVec3_get, hS2, Matrix.smul_mulVec, Matrix.one_mulVec]
  rw [galilei_exp_unfold, hq, galilei_matrix_mkG, so3_matrix_identity_toM]
  have hts : Galilei.ts a = a 6 := rfl
  ext i j
  fin_cases i <;> fin_cases j <;>
    simp [blkK, vMat2, nMat, dMat, Matrix.mul_apply, Fin.sum_univ_two, hts,
      congrFun hv, congrFun hp1, congrFun hp2] <;> ring

end C02
