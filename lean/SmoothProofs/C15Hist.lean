/-
  C15Hist.lean — induction over operation histories (`Hist.run`).

  `Hist.Graded G C Inv InvL TanOK`: families of predicates `Inv m` / `InvL m` on the coefficient
  vectors of the element / lifted registers, indexed by a weight `m`, that are respected by the
  group operations and by `lift` / `project` with the weights adding up exactly like the size of
  an expression tree (`Hist.opWeight`, `Hist.opWeightL`).  `Hist.run_graded`: after ANY history every
  register `r` satisfies `Inv (opWeight ops w₀ r)`.  With `Inv m` constant in `m` this is an
  invariant (unit norm, canonical sign); with `Inv m q := (1−ε)^m ≤ ‖q‖² ≤ (1+ε)^m` it is the
  drift recurrence over expression trees.
-/
import SmoothProofs.Real
import Mathlib.Tactic.Ring
import Mathlib.Tactic.Linarith

open Lin Scalar

namespace Hist

theorem upd_same {β : Type} (f : Nat → β) (d : Nat) (v : β) : upd f d v d = v := by simp [upd]

theorem upd_ne {β : Type} (f : Nat → β) (d : Nat) (v : β) {i : Nat} (h : i ≠ d) : upd f d v i = f i := by
  simp [upd, h]

variable {G : LieModel ℝ} {C : Lifting ℝ G}

/-- graded closure of a pair of predicates (`Inv` on element registers, `InvL` on lifted registers)
    under the operations of `G` and the lift / project maps of its companion type `C` -/
structure Graded (G : LieModel ℝ) (C : Lifting ℝ G) (Inv : Nat → Vec ℝ G.rep → Prop)
    (InvL : Nat → Vec ℝ C.lrep → Prop) (TanOK : Vec ℝ G.dof → Prop) : Prop where
  comp : ∀ m n a b, Inv m a → Inv n b → Inv (m + n + 1) (G.composition a b)
  inv : ∀ m a, Inv m a → Inv (m + 1) (G.inverse a)
  exp : ∀ a, TanOK a → Inv 1 (G.exp a)
  lift : ∀ m a, Inv m a → InvL (m + 1) (C.lift a)
  project : ∀ m a, InvL m a → Inv (m + 1) (C.project a)

theorem run_nil (s : State ℝ G C) : run G C [] s = s := rfl
theorem run_cons (o : Op ℝ G.dof) (ops : List (Op ℝ G.dof)) (s : State ℝ G C) :
    run G C (o :: ops) s = run G C ops (step G C s o) := rfl

theorem opWeights_nil (w : Weights) : opWeights (α := ℝ) (dof := G.dof) [] w = w := rfl
theorem opWeights_cons (o : Op ℝ G.dof) (ops : List (Op ℝ G.dof)) (w : Weights) :
    opWeights (o :: ops) w = opWeights ops (opWeightStep w o) := rfl

theorem expArgs_cons (o : Op ℝ G.dof) (ops : List (Op ℝ G.dof)) (s : State ℝ G C) :
    expArgs G C (o :: ops) s = expArgsOp G s o ++ expArgs G C ops (step G C s o) := rfl

section
variable {Inv : Nat → Vec ℝ G.rep → Prop} {InvL : Nat → Vec ℝ C.lrep → Prop} {TanOK : Vec ℝ G.dof → Prop}

/-- the round trip `lift().project()` costs two primitive operations -/
theorem Graded.lp (H : Graded G C Inv InvL TanOK) (m : Nat) (a : Vec ℝ G.rep) (h : Inv m a) :
    Inv (m + 1 + 1) (C.lp a) := by
  unfold Lifting.lp
  rw [memoV_eq]
  exact H.project _ _ (H.lift _ _ h)

/-- one op preserves the graded invariant of the element registers … -/
theorem step_graded (H : Graded G C Inv InvL TanOK) (s : State ℝ G C) (w : Weights)
    (hs : ∀ r, Inv (w.1 r) (s.E r)) (hl : ∀ r, InvL (w.2 r) (s.L r)) (o : Op ℝ G.dof)
    (hT : ∀ a ∈ expArgsOp G s o, TanOK a) :
    ∀ r, Inv ((opWeightStep w o).1 r) ((step G C s o).E r) := by
  intro r
  cases o with
  | compose d a b =>
    by_cases h : r = d
    · subst h; simp only [step, opWeightStep, upd_same, memoV_eq]; exact H.comp _ _ _ _ (hs a) (hs b)
    · simp only [step, opWeightStep, upd_ne _ _ _ h]; exact hs r
  | inverse d a =>
    by_cases h : r = d
    · subst h; simp only [step, opWeightStep, upd_same, memoV_eq]; exact H.inv _ _ (hs a)
    · simp only [step, opWeightStep, upd_ne _ _ _ h]; exact hs r
  | exp d t =>
    by_cases h : r = d
    · subst h; simp only [step, opWeightStep, upd_same, memoV_eq]
      exact H.exp _ (hT _ (by simp [expArgsOp]))
    · simp only [step, opWeightStep, upd_ne _ _ _ h]; exact hs r
  | rplus d a t =>
    by_cases h : r = d
    · subst h; simp only [step, opWeightStep, upd_same, memoV_eq, LieModel.rplus]
      exact H.comp _ _ _ _ (hs a) (H.exp _ (hT _ (by simp [expArgsOp])))
    · simp only [step, opWeightStep, upd_ne _ _ _ h]; exact hs r
  | mulAssign d a =>
    by_cases h : r = d
    · subst h; simp only [step, opWeightStep, upd_same, memoV_eq]; exact H.comp _ _ _ _ (hs r) (hs a)
    · simp only [step, opWeightStep, upd_ne _ _ _ h]; exact hs r
  | plusAssign d t =>
    by_cases h : r = d
    · subst h; simp only [step, opWeightStep, upd_same, memoV_eq, LieModel.rplus]
      exact H.comp _ _ _ _ (hs r) (H.exp _ (hT _ (by simp [expArgsOp])))
    · simp only [step, opWeightStep, upd_ne _ _ _ h]; exact hs r
  | castSame d a =>
    by_cases h : r = d
    · subst h; simp only [step, opWeightStep, upd_same]; exact hs a
    · simp only [step, opWeightStep, upd_ne _ _ _ h]; exact hs r
  | liftproj d a =>
    by_cases h : r = d
    · subst h; simp only [step, opWeightStep, upd_same, memoV_eq]; exact H.lp _ _ (hs a)
    · simp only [step, opWeightStep, upd_ne _ _ _ h]; exact hs r
  | setTan d v =>
    simp only [step, opWeightStep]; exact hs r
  | ode d a t tab h' =>
    by_cases h : r = d
    · subst h; simp only [step, opWeightStep, upd_same, memoV_eq, LieModel.rplus]
      exact H.comp _ _ _ _ (hs a) (H.exp _ (hT _ (by simp [expArgsOp])))
    · simp only [step, opWeightStep, upd_ne _ _ _ h]; exact hs r
  | lift d a =>
    simp only [step, opWeightStep]; exact hs r
  | project d a =>
    by_cases h : r = d
    · subst h; simp only [step, opWeightStep, upd_same, memoV_eq]; exact H.project _ _ (hl a)
    · simp only [step, opWeightStep, upd_ne _ _ _ h]; exact hs r

/-- … and of the lifted registers (only `lift` writes them) -/
theorem step_gradedL (H : Graded G C Inv InvL TanOK) (s : State ℝ G C) (w : Weights)
    (hs : ∀ r, Inv (w.1 r) (s.E r)) (hl : ∀ r, InvL (w.2 r) (s.L r)) (o : Op ℝ G.dof) :
    ∀ r, InvL ((opWeightStep w o).2 r) ((step G C s o).L r) := by
  intro r
  cases o with
  | lift d a =>
    by_cases h : r = d
    · subst h; simp only [step, opWeightStep, upd_same, memoV_eq]; exact H.lift _ _ (hs a)
    · simp only [step, opWeightStep, upd_ne _ _ _ h]; exact hl r
  | _ => simp only [step, opWeightStep]; exact hl r

/-- **Induction over histories.**  If the initial registers satisfy the graded invariants with
    weights `w₀` and every tangent that reaches `exp` is admissible, then after the whole history
    element register `r` satisfies `Inv` and lifted register `r` satisfies `InvL`, each at the
    weight of its expression tree. -/
theorem run_graded (H : Graded G C Inv InvL TanOK) (ops : List (Op ℝ G.dof)) :
    ∀ (s : State ℝ G C) (w : Weights), (∀ r, Inv (w.1 r) (s.E r)) → (∀ r, InvL (w.2 r) (s.L r)) →
      (∀ a ∈ expArgs G C ops s, TanOK a) →
      (∀ r, Inv (opWeight ops w r) ((run G C ops s).E r)) ∧
      (∀ r, InvL (opWeightL ops w r) ((run G C ops s).L r)) := by
  induction ops with
  | nil => intro s w hs hl _; exact ⟨hs, hl⟩
  | cons o ops ih =>
    intro s w hs hl hT
    rw [run_cons]
    unfold opWeight opWeightL
    rw [opWeights_cons]
    rw [expArgs_cons] at hT
    apply ih
    · exact step_graded H s w hs hl o (fun a ha => hT a (List.mem_append_left _ ha))
    · exact step_gradedL H s w hs hl o
    · exact fun a ha => hT a (List.mem_append_right _ ha)

/-- ungraded corollary: predicates closed under the operations hold after every history -/
theorem run_invariant {P : Vec ℝ G.rep → Prop} {Q : Vec ℝ C.lrep → Prop}
    (hcomp : ∀ a b, P a → P b → P (G.composition a b)) (hinv : ∀ a, P a → P (G.inverse a))
    (hexp : ∀ a, TanOK a → P (G.exp a)) (hlift : ∀ a, P a → Q (C.lift a)) (hproj : ∀ a, Q a → P (C.project a))
    (ops : List (Op ℝ G.dof)) (s : State ℝ G C) (hs : ∀ r, P (s.E r)) (hl : ∀ r, Q (s.L r))
    (hT : ∀ a ∈ expArgs G C ops s, TanOK a) :
    (∀ r, P ((run G C ops s).E r)) ∧ (∀ r, Q ((run G C ops s).L r)) := by
  have H : Graded G C (fun _ => P) (fun _ => Q) TanOK :=
    ⟨fun _ _ a b => hcomp a b, fun _ a => hinv a, hexp, fun _ a => hlift a, fun _ a => hproj a⟩
  exact run_graded H ops s W0 hs hl hT

end

end Hist
