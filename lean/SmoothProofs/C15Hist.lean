/-
  C15Hist.lean — induction over operation histories (`Hist.run`).

  `Hist.Graded G lp Inv TanOK`: a family of predicates `Inv m` on coefficient vectors, indexed by a
  weight `m`, that is respected by the group operations with the weights adding up exactly like
  the size of an expression tree (`Hist.opWeight`).  `Hist.run_graded`: after ANY history every
  register `r` satisfies `Inv (opWeight ops w₀ r)`.  With `Inv m` constant in `m` this is an
  invariant (unit norm, canonical sign); with `Inv m q := (1−ε)^m ≤ ‖q‖² ≤ (1+ε)^m` it is the
  drift recurrence over expression trees.
-/
import SmoothProofs.Real
import Mathlib.Tactic.Ring
import Mathlib.Tactic.Linarith

open Lin Scalar

namespace Hist

theorem upd_same {β : Type} (f : Nat → β) (d : Nat) (v : β) : upd f d v d = v := by simp [upd]

theorem upd_ne {β : Type} (f : Nat → β) (d : Nat) (v : β) {i : Nat} (h : i ≠ d) : upd f d v i = f i := by
  simp [upd, h]

variable {G : LieModel ℝ} {lp : Vec ℝ G.rep → Vec ℝ G.rep}

/-- graded closure of a predicate under the operations of `G` -/
structure Graded (G : LieModel ℝ) (lp : Vec ℝ G.rep → Vec ℝ G.rep) (Inv : Nat → Vec ℝ G.rep → Prop)
    (TanOK : Vec ℝ G.dof → Prop) : Prop where
  comp : ∀ m n a b, Inv m a → Inv n b → Inv (m + n + 1) (G.composition a b)
  inv : ∀ m a, Inv m a → Inv (m + 1) (G.inverse a)
  exp : ∀ a, TanOK a → Inv 1 (G.exp a)
  lp : ∀ m a, Inv m a → Inv (m + 1) (lp a)

theorem run_nil (s : State ℝ G) : run G lp [] s = s := rfl
theorem run_cons (o : Op ℝ G.dof) (ops : List (Op ℝ G.dof)) (s : State ℝ G) :
    run G lp (o :: ops) s = run G lp ops (step G lp s o) := rfl

theorem opWeight_nil (w : Nat → Nat) : opWeight (α := ℝ) (dof := G.dof) [] w = w := rfl
theorem opWeight_cons (o : Op ℝ G.dof) (ops : List (Op ℝ G.dof)) (w : Nat → Nat) :
    opWeight (o :: ops) w = opWeight ops (opWeightStep w o) := rfl

theorem expArgs_cons (o : Op ℝ G.dof) (ops : List (Op ℝ G.dof)) (s : State ℝ G) :
    expArgs G lp (o :: ops) s = expArgsOp G s o ++ expArgs G lp ops (step G lp s o) := rfl

section
variable {Inv : Nat → Vec ℝ G.rep → Prop} {TanOK : Vec ℝ G.dof → Prop}

/-- one op preserves the graded invariant -/
theorem step_graded (H : Graded G lp Inv TanOK) (s : State ℝ G) (w : Nat → Nat)
    (hs : ∀ r, Inv (w r) (s.E r)) (o : Op ℝ G.dof) (hT : ∀ a ∈ expArgsOp G s o, TanOK a) :
    ∀ r, Inv (opWeightStep w o r) ((step G lp s o).E r) := by
  intro r
  cases o with
  | compose d a b =>
    by_cases h : r = d
    · subst h; simp only [step, opWeightStep, upd_same, memoV_eq]; exact H.comp _ _ _ _ (hs a) (hs b)
    · simp only [step, opWeightStep, upd_ne _ _ _ h]; exact hs r
  | inverse d a =>
    by_cases h : r = d
    · subst h; simp only [step, opWeightStep, upd_same, memoV_eq]; exact H.inv _ _ (hs a)
    · simp only [step, opWeightStep, upd_ne _ _ _ h]; exact hs r
  | exp d t =>
    by_cases h : r = d
    · subst h; simp only [step, opWeightStep, upd_same, memoV_eq]
      exact H.exp _ (hT _ (by simp [expArgsOp]))
    · simp only [step, opWeightStep, upd_ne _ _ _ h]; exact hs r
  | rplus d a t =>
    by_cases h : r = d
    · subst h; simp only [step, opWeightStep, upd_same, memoV_eq, LieModel.rplus]
      exact H.comp _ _ _ _ (hs a) (H.exp _ (hT _ (by simp [expArgsOp])))
    · simp only [step, opWeightStep, upd_ne _ _ _ h]; exact hs r
  | mulAssign d a =>
    by_cases h : r = d
    · subst h; simp only [step, opWeightStep, upd_same, memoV_eq]; exact H.comp _ _ _ _ (hs r) (hs a)
    · simp only [step, opWeightStep, upd_ne _ _ _ h]; exact hs r
  | plusAssign d t =>
    by_cases h : r = d
    · subst h; simp only [step, opWeightStep, upd_same, memoV_eq, LieModel.rplus]
      exact H.comp _ _ _ _ (hs r) (H.exp _ (hT _ (by simp [expArgsOp])))
    · simp only [step, opWeightStep, upd_ne _ _ _ h]; exact hs r
  | castSame d a =>
    by_cases h : r = d
    · subst h; simp only [step, opWeightStep, upd_same]; exact hs a
    · simp only [step, opWeightStep, upd_ne _ _ _ h]; exact hs r
  | liftproj d a =>
    by_cases h : r = d
    · subst h; simp only [step, opWeightStep, upd_same, memoV_eq]; exact H.lp _ _ (hs a)
    · simp only [step, opWeightStep, upd_ne _ _ _ h]; exact hs r
  | setTan d v =>
    simp only [step, opWeightStep]; exact hs r
  | ode d a t tab h' =>
    by_cases h : r = d
    · subst h; simp only [step, opWeightStep, upd_same, memoV_eq, LieModel.rplus]
      exact H.comp _ _ _ _ (hs a) (H.exp _ (hT _ (by simp [expArgsOp])))
    · simp only [step, opWeightStep, upd_ne _ _ _ h]; exact hs r

/-- **Induction over histories.**  If the initial registers satisfy the graded invariant with
    weights `w₀` and every tangent that reaches `exp` is admissible, then after the whole history
    register `r` satisfies the invariant at the weight of its expression tree. -/
theorem run_graded (H : Graded G lp Inv TanOK) (ops : List (Op ℝ G.dof)) :
    ∀ (s : State ℝ G) (w : Nat → Nat), (∀ r, Inv (w r) (s.E r)) →
      (∀ a ∈ expArgs G lp ops s, TanOK a) →
      ∀ r, Inv (opWeight ops w r) ((run G lp ops s).E r) := by
  induction ops with
  | nil => intro s w hs _ r; exact hs r
  | cons o ops ih =>
    intro s w hs hT r
    rw [run_cons, opWeight_cons]
    rw [expArgs_cons] at hT
    apply ih
    · exact step_graded H s w hs o (fun a ha => hT a (List.mem_append_left _ ha))
    · exact fun a ha => hT a (List.mem_append_right _ ha)

/-- ungraded corollary: a predicate closed under the operations holds after every history -/
theorem run_invariant {P : Vec ℝ G.rep → Prop}
    (hcomp : ∀ a b, P a → P b → P (G.composition a b)) (hinv : ∀ a, P a → P (G.inverse a))
    (hexp : ∀ a, TanOK a → P (G.exp a)) (hlp : ∀ a, P a → P (lp a))
    (ops : List (Op ℝ G.dof)) (s : State ℝ G) (hs : ∀ r, P (s.E r))
    (hT : ∀ a ∈ expArgs G lp ops s, TanOK a) : ∀ r, P ((run G lp ops s).E r) := by
  have H : Graded G lp (fun _ => P) TanOK :=
    ⟨fun _ _ a b => hcomp a b, fun _ a => hinv a, hexp, fun _ a => hlp a⟩
  exact run_graded H ops s (fun _ => 0) hs hT

end

end Hist
