/-
  C04Alg.lean — algebra shared by the C04 proofs:
  * `so3_poly_mul` / `se2_poly_mul`: products of matrices of the form `I + α·M + β·M²`, `M = hat a`
    (resp. SE2 `ad a`), reduce with `M³ = −n·M` to the same form — a polynomial identity (`ring`);
  * model sums as explicit 3-term sums; entries of `hat`.
-/
import SmoothProofs.Real
import Mathlib.Tactic.Ring
import Mathlib.Tactic.FinCases
import Mathlib.Tactic.LinearCombination
import Mathlib.Tactic.FieldSimp

open Lin Scalar

namespace C04Alg

theorem mmul3 (A B : Mat ℝ 3 3) (i j : Fin 3) :
    (mmul A B) i j = A i 0 * B 0 j + A i 1 * B 1 j + A i 2 * B 2 j := by
  simp [mmul, vsum]

theorem sqNorm3 (a : Vec ℝ 3) : sqNorm a = a 0 * a 0 + a 1 * a 1 + a 2 * a 2 := by
  simp [sqNorm, dot, vsum]

theorem sqNorm3_neg (a : Vec ℝ 3) : sqNorm (vneg a) = sqNorm a := by
  simp [sqNorm, dot, vsum, vneg]

/-- `I + α·M + β·M²` for a 3×3 model matrix `M` -/
noncomputable def poly2 (M : Mat ℝ 3 3) (α β : ℝ) : Mat ℝ 3 3 :=
  .of (fun i j => (ident 3 i j + α * M i j) + β * (mmul M M) i j)

/-- `(I + αM + βM²)(I + γM + δM²) = I + pM + qM²` for `M = hat a`, `n = |a|²`:
    `p = α + γ − n(αδ + βγ)`, `q = β + αγ + δ − nβδ` (uses `M³ = −nM`, an identity of `hat`). -/
theorem so3_poly_mul (a : Vec ℝ 3) (α β γ δ : ℝ) (i j : Fin 3) :
    (mmul (poly2 (SO3.hat a) α β) (poly2 (SO3.hat a) γ δ)) i j
      = (poly2 (SO3.hat a) (α + γ - sqNorm a * (α * δ + β * γ))
          (β + α * γ + δ - sqNorm a * (β * δ))) i j := by
  rw [sqNorm3]
  fin_cases i <;> fin_cases j <;>
    simp [poly2, mmul, vsum, SO3.hat, mat3, ident] <;> ring

/-- same for the SE2 `ad a` matrix with `n = a_2²` (`ad³ = −θ²·ad`). -/
theorem se2_poly_mul (a : Vec ℝ 3) (α β γ δ : ℝ) (i j : Fin 3) :
    (mmul (poly2 (SE2.ad a) α β) (poly2 (SE2.ad a) γ δ)) i j
      = (poly2 (SE2.ad a) (α + γ - (a 2 * a 2) * (α * δ + β * γ))
          (β + α * γ + δ - (a 2 * a 2) * (β * δ))) i j := by
  fin_cases i <;> fin_cases j <;>
    simp [poly2, mmul, vsum, SE2.ad, mat3, ident] <;> ring

theorem poly2_zero_zero (M : Mat ℝ 3 3) (i j : Fin 3) : (poly2 M 0 0) i j = (ident 3 : Mat ℝ 3 3) i j := by
  simp [poly2]

end C04Alg
