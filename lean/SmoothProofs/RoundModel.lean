/-
  RoundModel.lean — the STANDARD MODEL of floating-point arithmetic as a `Scalar` instance.

  `class Rounding` packages a rounding function `fl : ℝ → ℝ` with unit roundoff `u` such that
      |fl x − x| ≤ u·|x|          for every real x                                   (`spec`)
  (Higham, Accuracy and Stability of Numerical Algorithms, (2.4): `fl(x ∘ y) = (x ∘ y)(1+δ)`, `|δ| ≤ u`,
  valid for IEEE arithmetic as long as no overflow/underflow occurs).  This is an ASSUMPTION about the
  arithmetic, not derived from a bit-level semantics of binary64; it is inhabited below by
  * `Rounding.exact`      (`fl = id`, `u = 0`: sanity), and
  * `Rounding.binary p`   (`p ≥ 6`): genuine round-to-nearest on `p`-digit binary significands with
                           unbounded exponent range, `u = 2^(−p)` (`binary64 = binary 53`,
                           `binary32 = binary 24`); `binary_lossy` shows it does round.

  `RF` is a synonym of ℝ carrying the instance `Scalar RF` in which every `+ − × ÷` (and every
  transcendental) is followed by `fl`; negation, comparison and the (small) integer literals are exact.
  The model functions of SmoothModel/*.lean instantiated at `RF` are therefore the SAME expression trees
  that are compared with the C++ (at `Float`, `Float32`), evaluated in the standard model.

  `Appr k X x̂ x` is the running-error invariant: `|x| ≤ X` and `|x̂ − x| ≤ ((1+u)^k − 1)·X`; the rules
  `Appr.add/sub/mul/neg/div…` propagate it through one rounded operation each, and the tactic `appr`
  applies them along an expression tree (`appr0`: the same for exact operations on perturbed inputs).

  Contents: (1) the class, `RF`, `Scalar RF`; (2) `theta`, `theta_le_gamma` (Higham's γ_k), `Appr` and
  its rules, incl. the rounded quotient `Appr.div` (cost `k + 2` roundings under `DivOK k`);
  (3) the two instances, `flBin_natCast` (integers `< 2^p` are fixed points of `fl`, which is why the
  literal conversion `nat n` is taken exact), `binary64_lossy`, `binary32_lossy`;
  (4) namespace `Round`: one `Appr` lemma per model function (`SO2/C1/SE2/SO3/SE3` `composition`,
  `inverse`, `SO3.matrix`, `mulVec`) — these unfold the MODEL's definitions at `RF`, nothing is restated;
  (5) norm forms of the majorants and the numbers for double / single precision.
  The property-level statements are in SmoothProps/C01Round.lean.
-/
import SmoothProofs.Real
import SmoothProofs.C01Small
import SmoothProofs.C01SO3
import SmoothProofs.C01SE3
import Mathlib.Data.Int.Log
import Mathlib.Algebra.Order.Round
import Mathlib.Tactic.Positivity
import Mathlib.Tactic.Linarith
import Mathlib.Tactic.GCongr
import Mathlib.Tactic.Ring
import Mathlib.Tactic.NormNum
import Mathlib.Tactic.FieldSimp
import Mathlib.Tactic.NormNum.NatLog

set_option linter.unusedSimpArgs false

/-- the standard model of floating-point arithmetic (no overflow / underflow) -/
class Rounding where
  fl : ℝ → ℝ
  u : ℝ
  u_nonneg : 0 ≤ u
  u_le : u ≤ 1 / 64
  spec : ∀ x : ℝ, |fl x - x| ≤ u * |x|

/-- ℝ with rounded arithmetic -/
def RF : Type := ℝ

namespace RF
def ofReal (x : ℝ) : RF := x
def toReal (x : RF) : ℝ := x
@[simp] theorem toReal_ofReal (x : ℝ) : toReal (ofReal x) = x := rfl
@[simp] theorem ofReal_toReal (x : RF) : ofReal (toReal x) = x := rfl
theorem toReal_inj {x y : RF} (h : toReal x = toReal y) : x = y := h
end RF

open RF Rounding

noncomputable section

open Classical in
instance instScalarRF [Rounding] : Scalar RF where
  add x y := ofReal (fl (toReal x + toReal y))
  sub x y := ofReal (fl (toReal x - toReal y))
  mul x y := ofReal (fl (toReal x * toReal y))
  div x y := ofReal (fl (toReal x / toReal y))
  neg x := ofReal (-(toReal x))
  natCast n := ofReal (n : ℝ)
  lt x y := toReal x < toReal y
  le x y := toReal x ≤ toReal y
  sin x := ofReal (fl (Real.sin (toReal x)))
  cos x := ofReal (fl (Real.cos (toReal x)))
  tan x := ofReal (fl (Real.tan (toReal x)))
  sqrt x := ofReal (fl (Real.sqrt (toReal x)))
  atan2 y x := ofReal (fl (Complex.arg ⟨toReal x, toReal y⟩))
  exp x := ofReal (fl (Real.exp (toReal x)))
  log x := ofReal (fl (Real.log (toReal x)))
  eps2 := ofReal (fl (1 / 100000000))
  macheps := ofReal (2 * u)
  pi := ofReal (fl Real.pi)
  decLt := fun a b => Classical.dec (toReal a < toReal b)
  decLe := fun a b => Classical.dec (toReal a ≤ toReal b)

namespace RF
variable [Rounding]

@[simp] theorem toReal_add (x y : RF) : toReal (x + y) = fl (toReal x + toReal y) := rfl
@[simp] theorem toReal_sub (x y : RF) : toReal (x - y) = fl (toReal x - toReal y) := rfl
@[simp] theorem toReal_mul (x y : RF) : toReal (x * y) = fl (toReal x * toReal y) := rfl
@[simp] theorem toReal_div (x y : RF) : toReal (x / y) = fl (toReal x / toReal y) := rfl
@[simp] theorem toReal_neg (x : RF) : toReal (-x) = -(toReal x) := rfl
@[simp] theorem toReal_nat (n : Nat) : toReal (Scalar.nat n : RF) = (n : ℝ) := rfl
theorem lt_def (x y : RF) : (x < y) ↔ toReal x < toReal y := Iff.rfl
theorem le_def (x y : RF) : (x ≤ y) ↔ toReal x ≤ toReal y := Iff.rfl

end RF

/-! ## vectors / matrices: the same real inputs read as `RF`, and results read back as reals -/

def Vec.toRF {n : Nat} (v : Vec ℝ n) : Vec RF n := .of (fun i => ofReal (v i))
def Vec.toR {n : Nat} (v : Vec RF n) : Vec ℝ n := .of (fun i => toReal (v i))
def Mat.toRF {n m : Nat} (A : Mat ℝ n m) : Mat RF n m := .of (fun i j => ofReal (A i j))
def Mat.toR {n m : Nat} (A : Mat RF n m) : Mat ℝ n m := .of (fun i j => toReal (A i j))

@[simp] theorem Vec.toRF_get {n : Nat} (v : Vec ℝ n) (i : Fin n) : toReal ((Vec.toRF v).get i) = v.get i := rfl
@[simp] theorem Vec.toR_get {n : Nat} (v : Vec RF n) (i : Fin n) : (Vec.toR v).get i = toReal (v.get i) := rfl
@[simp] theorem Mat.toRF_get {n m : Nat} (A : Mat ℝ n m) (i : Fin n) (j : Fin m) :
    toReal ((Mat.toRF A).get i j) = A.get i j := rfl
@[simp] theorem Mat.toR_get {n m : Nat} (A : Mat RF n m) (i : Fin n) (j : Fin m) :
    (Mat.toR A).get i j = toReal (A.get i j) := rfl
@[simp] theorem Vec.toR_toRF {n : Nat} (v : Vec ℝ n) : Vec.toR (Vec.toRF v) = v := by
  ext i; rfl

namespace Rounding
variable [Rounding]

/-! ## `θ k = (1+u)^k − 1` -/

/-- accumulated relative error of `k` roundings -/
def theta (k : ℕ) : ℝ := (1 + u) ^ k - 1

theorem one_le_one_add_u : (1 : ℝ) ≤ 1 + u := by linarith [u_nonneg]
theorem one_add_u_pos : (0 : ℝ) < 1 + u := by linarith [u_nonneg]
theorem one_le_pow (k : ℕ) : (1 : ℝ) ≤ (1 + u) ^ k := one_le_pow₀ one_le_one_add_u
theorem theta_nonneg (k : ℕ) : 0 ≤ theta k := by unfold theta; linarith [one_le_pow k]
@[simp] theorem theta_zero : theta 0 = 0 := by simp [theta]
theorem theta_one : theta 1 = u := by simp [theta]
theorem theta_two : theta 2 = 2 * u + u ^ 2 := by unfold theta; ring
theorem one_add_theta (k : ℕ) : 1 + theta k = (1 + u) ^ k := by unfold theta; ring
theorem theta_mono {j k : ℕ} (h : j ≤ k) : theta j ≤ theta k := by
  unfold theta
  have := pow_le_pow_right₀ one_le_one_add_u h
  linarith
theorem theta_succ (k : ℕ) : theta (k + 1) = theta k + u * (1 + theta k) := by
  unfold theta; ring
theorem theta_add (j k : ℕ) : theta (j + k) = theta j + theta k + theta j * theta k := by
  unfold theta; ring

/-- `(1+u)^k (1 − k u) ≤ 1` -/
theorem pow_mul_one_sub_le (k : ℕ) : (1 + u) ^ k * (1 - k * u) ≤ 1 := by
  induction k with
  | zero => simp
  | succ k ih =>
    have hu := u_nonneg
    have hp : 0 ≤ (1 + u) ^ k := by positivity
    have : (1 + u) ^ (k + 1) * (1 - ((k + 1 : ℕ) : ℝ) * u)
        = (1 + u) ^ k * (1 - k * u) - (1 + u) ^ k * ((k + 1) * u ^ 2) := by
      push_cast; ring
    rw [this]
    have : 0 ≤ (1 + u) ^ k * (((k : ℝ) + 1) * u ^ 2) := by positivity
    linarith

/-- Higham's `γ_k`: `θ k ≤ k u / (1 − k u)` -/
theorem theta_le_gamma (k : ℕ) (h : (k : ℝ) * u < 1) : theta k ≤ k * u / (1 - k * u) := by
  have hpos : 0 < 1 - (k : ℝ) * u := by linarith
  rw [le_div_iff₀ hpos]
  have := pow_mul_one_sub_le k
  unfold theta
  nlinarith

/-- linear form: `θ k ≤ k u / (1 − c)` when `k u ≤ c < 1` -/
theorem theta_le_lin (k : ℕ) (c : ℝ) (hc : c < 1) (h : (k : ℝ) * u ≤ c) : theta k ≤ k * u / (1 - c) := by
  have h1 : (k : ℝ) * u < 1 := by linarith
  refine (theta_le_gamma k h1).trans ?_
  have hk : 0 ≤ (k : ℝ) * u := by have := u_nonneg; positivity
  gcongr

/-- the condition under which a rounded division by a quantity carrying `k` roundings costs at most
    `k + 2` further roundings: `(1+u) θ_k² ≤ u` -/
def DivOK (k : ℕ) : Prop := (1 + u) * theta k ^ 2 ≤ u

theorem divOK_of (k : ℕ) (h1 : (k : ℝ) * u ≤ 1 / 8) (h2 : (k : ℝ) ^ 2 * u ≤ 3 / 4) : DivOK k := by
  have hu := u_nonneg
  have hul := u_le
  have ht : theta k ≤ k * u / (1 - 1 / 8) := theta_le_lin k (1 / 8) (by norm_num) h1
  have ht' : theta k ≤ 8 / 7 * (k * u) := by linarith [ht, show (k : ℝ) * u / (1 - 1 / 8) = 8 / 7 * (k * u) by ring]
  have h0 := theta_nonneg k
  have hku : 0 ≤ (k : ℝ) * u := by positivity
  have hsq : theta k ^ 2 ≤ (8 / 7 * (k * u)) ^ 2 := by gcongr
  unfold DivOK
  have e : (8 / 7 * ((k : ℝ) * u)) ^ 2 = 64 / 49 * ((k : ℝ) ^ 2 * u) * u := by ring
  have h3 : (8 / 7 * ((k : ℝ) * u)) ^ 2 ≤ 64 / 49 * (3 / 4) * u := by
    rw [e]; gcongr
  nlinarith

theorem divOK_le6 (k : ℕ) (hk : k ≤ 6) : DivOK k := by
  have hu := u_nonneg
  have hul := u_le
  have hk' : (k : ℝ) ≤ 6 := by exact_mod_cast hk
  have hk0 : (0 : ℝ) ≤ k := by positivity
  apply divOK_of
  · nlinarith
  · nlinarith

theorem theta_lt_one_of_divOK {k : ℕ} (h : DivOK k) : theta k < 1 := by
  unfold DivOK at h
  have hu := u_nonneg
  have hul := u_le
  have h0 := theta_nonneg k
  nlinarith

/-! ## the running-error invariant -/

/-- `x̂` approximates `x` after (at most) `k` roundings along every path, with absolute majorant `X` -/
structure Appr (k : ℕ) (X xh x : ℝ) : Prop where
  mag : |x| ≤ X
  err : |xh - x| ≤ theta k * X

namespace Appr
variable {j k : ℕ} {X Y xh yh x y : ℝ}

theorem X_nonneg (h : Appr k X xh x) : 0 ≤ X := (abs_nonneg x).trans h.mag

theorem exact (x : ℝ) : Appr 0 |x| x x := ⟨le_refl _, by simp⟩

theorem natCast (n : ℕ) : Appr 0 (n : ℝ) (n : ℝ) (n : ℝ) := ⟨by simp, by simp⟩

theorem mono (h : Appr j X xh x) (hjk : j ≤ k) (hX : X ≤ Y) : Appr k Y xh x :=
  ⟨h.mag.trans hX, h.err.trans (mul_le_mul (theta_mono hjk) hX h.X_nonneg (theta_nonneg k))⟩

/-- `|x̂| ≤ (1+u)^k X` -/
theorem habs (h : Appr k X xh x) : |xh| ≤ (1 + u) ^ k * X := by
  have h1 : |xh| ≤ |xh - x| + |x| := by
    have := abs_add_le (xh - x) x
    simpa using this
  have := h.err; have := h.mag
  rw [← one_add_theta k]; linarith

theorem neg (h : Appr k X xh x) : Appr k X (-xh) (-x) :=
  ⟨by simpa using h.mag, by
    have : -xh - -x = -(xh - x) := by ring
    rw [this, abs_neg]; exact h.err⟩

/-- one more rounding -/
theorem rnd (h : Appr k X xh x) : Appr (k + 1) X (fl xh) x := by
  refine ⟨h.mag, ?_⟩
  have h1 : |fl xh - x| ≤ |fl xh - xh| + |xh - x| := by
    have := abs_add_le (fl xh - xh) (xh - x)
    simpa using this
  have h2 := spec xh
  have h3 := h.habs
  have h4 := h.err
  have hu := u_nonneg
  have : u * |xh| ≤ u * ((1 + u) ^ k * X) := by gcongr
  rw [theta_succ, ← one_add_theta k] at *
  nlinarith

/-- exact sum of two approximations -/
theorem add0 (hx : Appr j X xh x) (hy : Appr k Y yh y) : Appr (max j k) (X + Y) (xh + yh) (x + y) := by
  refine ⟨(abs_add_le x y).trans (add_le_add hx.mag hy.mag), ?_⟩
  have h1 : |xh + yh - (x + y)| ≤ |xh - x| + |yh - y| := by
    have := abs_add_le (xh - x) (yh - y)
    have e : xh - x + (yh - y) = xh + yh - (x + y) := by ring
    rwa [e] at this
  have hj : theta j ≤ theta (max j k) := theta_mono (le_max_left _ _)
  have hk : theta k ≤ theta (max j k) := theta_mono (le_max_right _ _)
  have := hx.err; have := hy.err
  have := hx.X_nonneg; have := hy.X_nonneg
  nlinarith

theorem sub0 (hx : Appr j X xh x) (hy : Appr k Y yh y) : Appr (max j k) (X + Y) (xh - yh) (x - y) := by
  have := add0 hx hy.neg
  simpa [sub_eq_add_neg] using this

/-- exact product of two approximations -/
theorem mul0 (hx : Appr j X xh x) (hy : Appr k Y yh y) : Appr (j + k) (X * Y) (xh * yh) (x * y) := by
  refine ⟨by rw [abs_mul]; exact mul_le_mul hx.mag hy.mag (abs_nonneg _) hx.X_nonneg, ?_⟩
  have e : xh * yh - x * y = (xh - x) * yh + x * (yh - y) := by ring
  have h1 : |xh * yh - x * y| ≤ |xh - x| * |yh| + |x| * |yh - y| := by
    rw [e]; refine (abs_add_le _ _).trans ?_; rw [abs_mul, abs_mul]
  have hyh := hy.habs
  rw [← one_add_theta k] at hyh
  have hX := hx.X_nonneg; have hY := hy.X_nonneg
  have tj := theta_nonneg j; have tk := theta_nonneg k
  have a1 : |xh - x| * |yh| ≤ (theta j * X) * ((1 + theta k) * Y) :=
    mul_le_mul hx.err hyh (abs_nonneg _) (by positivity)
  have a2 : |x| * |yh - y| ≤ X * (theta k * Y) :=
    mul_le_mul hx.mag hy.err (abs_nonneg _) hX
  rw [theta_add]
  nlinarith

theorem add (hx : Appr j X xh x) (hy : Appr k Y yh y) :
    Appr (max j k + 1) (X + Y) (fl (xh + yh)) (x + y) := (add0 hx hy).rnd
theorem sub (hx : Appr j X xh x) (hy : Appr k Y yh y) :
    Appr (max j k + 1) (X + Y) (fl (xh - yh)) (x - y) := (sub0 hx hy).rnd
theorem mul (hx : Appr j X xh x) (hy : Appr k Y yh y) :
    Appr (j + k + 1) (X * Y) (fl (xh * yh)) (x * y) := (mul0 hx hy).rnd

/-- `0 + x` (the first step of the model's left-to-right sums) -/
theorem zero_add (hx : Appr k X xh x) : Appr (k + 1) X (fl (((0 : ℕ) : ℝ) + xh)) (((0 : ℕ) : ℝ) + x) := by
  have := hx.rnd
  simpa using this

/-- rounded quotient; the denominator's error is RELATIVE (`Y = |y|`), as for sums of squares -/
theorem div (hx : Appr j X xh x) (hy : Appr k |y| yh y) (hy0 : y ≠ 0) (hk : DivOK k) :
    Appr (j + k + 2) (X / |y|) (fl (xh / yh)) (x / y) := by
  have hypos : 0 < |y| := abs_pos.mpr hy0
  have tk1 := theta_lt_one_of_divOK hk
  have tk0 := theta_nonneg k
  have tj0 := theta_nonneg j
  have hX := hx.X_nonneg
  have hu := u_nonneg
  -- lower bound on the computed denominator
  have hyh : (1 - theta k) * |y| ≤ |yh| := by
    have h1 : |y| ≤ |y - yh| + |yh| := by
      have := abs_add_le (y - yh) yh
      simpa using this
    have h2 : |y - yh| = |yh - y| := abs_sub_comm _ _
    have := hy.err
    nlinarith
  have hyhpos : 0 < |yh| := lt_of_lt_of_le (by nlinarith) hyh
  have hyh0 : yh ≠ 0 := abs_pos.mp hyhpos
  have hmag : |x / y| ≤ X / |y| := by
    rw [abs_div]; gcongr; exact hx.mag
  -- exact quotient of the approximations
  have hq : |xh / yh - x / y| ≤ (theta j + theta k) / (1 - theta k) * (X / |y|) := by
    have e : xh / yh - x / y = ((xh - x) * y + x * (y - yh)) / (yh * y) := by
      field_simp; ring
    rw [e, abs_div, abs_mul yh y]
    have hnum : |(xh - x) * y + x * (y - yh)| ≤ (theta j * X) * |y| + X * (theta k * |y|) := by
      refine (abs_add_le _ _).trans ?_
      rw [abs_mul, abs_mul, abs_sub_comm y yh]
      have := hx.err; have := hy.err; have := hx.mag
      gcongr
    have hden : (1 - theta k) * |y| * |y| ≤ |yh| * |y| := by gcongr
    have hdpos : 0 < (1 - theta k) * |y| * |y| := by
      have : 0 < 1 - theta k := by linarith
      positivity
    calc |(xh - x) * y + x * (y - yh)| / (|yh| * |y|)
        ≤ ((theta j * X) * |y| + X * (theta k * |y|)) / ((1 - theta k) * |y| * |y|) := by
          apply div_le_div₀ _ hnum hdpos hden
          positivity
      _ = (theta j + theta k) / (1 - theta k) * (X / |y|) := by
          have : (1 - theta k) ≠ 0 := by linarith
          field_simp
  have hqabs : |xh / yh| ≤ (1 + theta j) / (1 - theta k) * (X / |y|) := by
    rw [abs_div]
    have hxh := hx.habs
    rw [← one_add_theta j] at hxh
    have hpos : 0 < (1 - theta k) * |y| := by
      have : 0 < 1 - theta k := by linarith
      positivity
    calc |xh| / |yh| ≤ ((1 + theta j) * X) / ((1 - theta k) * |y|) :=
          div_le_div₀ (by positivity) hxh hpos hyh
      _ = (1 + theta j) / (1 - theta k) * (X / |y|) := by
          have : (1 - theta k) ≠ 0 := by linarith
          field_simp
  refine ⟨hmag, ?_⟩
  have h1 : |fl (xh / yh) - x / y| ≤ |fl (xh / yh) - xh / yh| + |xh / yh - x / y| := by
    have := abs_add_le (fl (xh / yh) - xh / yh) (xh / yh - x / y)
    simpa using this
  have h2 := spec (xh / yh)
  have hXy : 0 ≤ X / |y| := by positivity
  -- total factor: (u (1+θj) + θj + θk)/(1−θk) ≤ θ (j+k+2)
  have hfac : (u * (1 + theta j) + theta j + theta k) / (1 - theta k) ≤ theta (j + k + 2) := by
    have hpos : 0 < 1 - theta k := by linarith
    rw [div_le_iff₀ hpos]
    have e : theta (j + k + 2) = (1 + theta j) * (1 + theta k) * (1 + u) ^ 2 - 1 := by
      rw [one_add_theta, one_add_theta]; unfold theta; ring
    rw [e]
    unfold DivOK at hk
    -- (1+θj)(1+u)[(1+θk)(1+u)(1−θk) − 1] ≥ 0  and the rest
    have key : 1 ≤ (1 + theta k) * (1 + u) * (1 - theta k) := by nlinarith
    have hA : 0 ≤ (1 + theta j) * (1 + u) := by positivity
    nlinarith [mul_le_mul_of_nonneg_left key hA]
  calc |fl (xh / yh) - x / y|
      ≤ u * |xh / yh| + |xh / yh - x / y| := by linarith
    _ ≤ u * ((1 + theta j) / (1 - theta k) * (X / |y|)) + (theta j + theta k) / (1 - theta k) * (X / |y|) := by
        gcongr
    _ = (u * (1 + theta j) + theta j + theta k) / (1 - theta k) * (X / |y|) := by ring
    _ ≤ theta (j + k + 2) * (X / |y|) := by gcongr

/-- read off the bound -/
theorem err_le {K : ℕ} (h : Appr k X xh x) (hk : k ≤ K) (hX : X ≤ Y) : |xh - x| ≤ theta K * Y :=
  (h.mono hk hX).err

end Appr

/-- walk down an expression tree of rounded operations -/
macro "appr" : tactic => `(tactic| repeat' first
  | exact Appr.natCast _
  | apply Appr.zero_add
  | apply Appr.sub
  | apply Appr.add
  | apply Appr.mul
  | apply Appr.neg
  | assumption
  | exact Appr.exact _)

/-- the same for exact (real) operations applied to approximations -/
macro "appr0" : tactic => `(tactic| repeat' first
  | exact Appr.natCast _
  | apply Appr.sub0
  | apply Appr.add0
  | apply Appr.mul0
  | apply Appr.neg
  | assumption
  | exact Appr.exact _)

/-! ## the class is inhabited -/

/-- exact arithmetic: `fl = id`, `u = 0` -/
@[reducible] def exact : Rounding where
  fl := id
  u := 0
  u_nonneg := le_refl _
  u_le := by norm_num
  spec := by intro x; simp

/-- spacing of the `p`-digit binary grid around `x`: `2^(⌊log₂|x|⌋ − p + 1)` -/
def ulp (p : ℕ) (x : ℝ) : ℝ := (2 : ℝ) ^ (Int.log 2 |x| - (p : ℤ) + 1)

/-- round-to-nearest onto `p`-digit binary significands, unbounded exponent range (ties: `round`,
    i.e. upward — the standard model does not depend on the tie rule) -/
def flBin (p : ℕ) (x : ℝ) : ℝ := (round (x / ulp p x) : ℝ) * ulp p x

omit [Rounding] in
theorem ulp_pos (p : ℕ) (x : ℝ) : 0 < ulp p x := by unfold ulp; positivity

omit [Rounding] in
theorem ulp_le (p : ℕ) (x : ℝ) (hx : x ≠ 0) : ulp p x ≤ 2 * (1 / 2) ^ p * |x| := by
  have hpos : 0 < |x| := abs_pos.mpr hx
  have h := Int.zpow_log_le_self (b := 2) (r := |x|) (by norm_num) hpos
  have h' : (2 : ℝ) ^ Int.log 2 |x| ≤ |x| := by exact_mod_cast h
  unfold ulp
  have e : (2 : ℝ) ^ (Int.log 2 |x| - (p : ℤ) + 1) = 2 * (1 / 2) ^ p * (2 : ℝ) ^ Int.log 2 |x| := by
    rw [zpow_add₀ (by norm_num : (2 : ℝ) ≠ 0), zpow_sub₀ (by norm_num : (2 : ℝ) ≠ 0)]
    simp only [zpow_natCast, zpow_one, one_div, inv_pow]
    field_simp
  rw [e]
  gcongr

omit [Rounding] in
theorem flBin_spec (p : ℕ) (x : ℝ) : |flBin p x - x| ≤ (1 / 2) ^ p * |x| := by
  by_cases hx : x = 0
  · subst hx; simp [flBin]
  have hs := ulp_pos p x
  have e : flBin p x - x = ((round (x / ulp p x) : ℝ) - x / ulp p x) * ulp p x := by
    unfold flBin; field_simp
  rw [e, abs_mul, abs_of_pos hs, abs_sub_comm]
  have h1 := abs_sub_round (x / ulp p x)
  have h2 := ulp_le p x hx
  have h3 : |x / ulp p x - (round (x / ulp p x) : ℝ)| * ulp p x ≤ 1 / 2 * ulp p x := by gcongr
  linarith

/-- `p`-digit binary floating point (`p ≥ 6`), `u = 2^(−p)` -/
@[reducible] def binary (p : ℕ) (hp : 6 ≤ p) : Rounding where
  fl := flBin p
  u := (1 / 2) ^ p
  u_nonneg := by positivity
  u_le := by
    have : ((1 : ℝ) / 2) ^ p ≤ (1 / 2) ^ 6 := pow_le_pow_of_le_one (by norm_num) (by norm_num) hp
    norm_num at this ⊢
    linarith
  spec := flBin_spec p

/-- IEEE binary64 significand length (exponent range unbounded) -/
@[reducible] def binary64 : Rounding := binary 53 (by norm_num)
/-- IEEE binary32 significand length -/
@[reducible] def binary32 : Rounding := binary 24 (by norm_num)

omit [Rounding] in
theorem binary64_u : binary64.u = (1 / 2) ^ 53 := rfl
omit [Rounding] in
theorem binary32_u : binary32.u = (1 / 2) ^ 24 := rfl

omit [Rounding] in
/-- integers below `2^p` are representable: the literal conversion `nat n` of the `Scalar RF` instance
    (taken exact) agrees with `fl n` for every literal of the model (all `< 2^24`) -/
theorem flBin_natCast (p n : ℕ) (hn : n < 2 ^ p) : flBin p (n : ℝ) = n := by
  rcases Nat.eq_zero_or_pos n with h0 | hpos
  · subst h0; simp [flBin]
  have hlog : Nat.log 2 n < p := Nat.log_lt_of_lt_pow (by omega) hn
  obtain ⟨m, hm⟩ : ∃ m : ℕ, (Nat.log 2 n : ℤ) - (p : ℤ) + 1 = -(m : ℤ) := ⟨p - 1 - Nat.log 2 n, by omega⟩
  have hu : ulp p (n : ℝ) = ((2 : ℝ) ^ m)⁻¹ := by
    unfold ulp
    rw [abs_of_nonneg (by positivity), Int.log_natCast, hm, zpow_neg, zpow_natCast]
  unfold flBin
  rw [hu]
  have e : (n : ℝ) / ((2 : ℝ) ^ m)⁻¹ = ((n * 2 ^ m : ℕ) : ℝ) := by
    push_cast; field_simp
  rw [e, round_natCast]
  push_cast
  field_simp

omit [Rounding] in
/-- the binary64 instance genuinely rounds: `2^53 + 1 ↦ 2^53 + 2` -/
theorem binary64_lossy : binary64.fl 9007199254740993 = 9007199254740994 := by
  have hu : ulp 53 9007199254740993 = 2 := by
    unfold ulp
    have h : Int.log 2 |(9007199254740993 : ℝ)| = 53 := by
      rw [abs_of_pos (by norm_num), show (9007199254740993 : ℝ) = ((9007199254740993 : ℕ) : ℝ) by norm_num,
        Int.log_natCast]
      norm_num
    rw [h]; norm_num
  show flBin 53 9007199254740993 = 9007199254740994
  unfold flBin
  rw [hu, round_eq]
  norm_num

omit [Rounding] in
/-- the binary32 instance genuinely rounds: `2^24 + 1 ↦ 2^24 + 2` -/
theorem binary32_lossy : binary32.fl 16777217 = 16777218 := by
  have hu : ulp 24 16777217 = 2 := by
    unfold ulp
    have h : Int.log 2 |(16777217 : ℝ)| = 24 := by
      rw [abs_of_pos (by norm_num), show (16777217 : ℝ) = ((16777217 : ℕ) : ℝ) by norm_num, Int.log_natCast]
      norm_num
    rw [h]; norm_num
  show flBin 24 16777217 = 16777218
  unfold flBin
  rw [hu, round_eq]
  norm_num

end Rounding


/-! # Group operations of the model in the standard model

  Each lemma below is about the model function of SmoothModel/*.lean instantiated at `RF` (every
  arithmetic operation rounded) versus the same function at ℝ on the same inputs. -/

section
open Lin Scalar
namespace Round
variable [Rounding]

/-! ### SO2 / C1 -/
def compAbs2 (a b : Vec ℝ 2) : Vec ℝ 2 :=
  mk2 (|a 0| * |b 1| + |a 1| * |b 0|) (|a 1| * |b 1| + |a 0| * |b 0|)

theorem so2_composition_appr (a b : Vec ℝ 2) (i : Fin 2) :
    Appr 2 (compAbs2 a b i) (toReal ((SO2.composition (Vec.toRF a) (Vec.toRF b)) i))
      ((SO2.composition a b) i) := by
  fin_cases i <;>
  · apply Appr.mono
    · simp only [SO2.composition, mk2, Vec.of, toReal_add, toReal_mul, toReal_sub, Vec.toRF_get]
      appr
    · decide
    · simp [compAbs2, mk2, Vec.of]

theorem so2_inverse_exact (g : Vec ℝ 2) : Vec.toR (SO2.inverse (Vec.toRF g)) = SO2.inverse g := by
  ext i; fin_cases i <;> simp [SO2.inverse, mk2, Vec.of, Vec.toR]

theorem c1_inverse_appr (g : Vec ℝ 2) (h : g 0 ^ 2 + g 1 ^ 2 ≠ 0) (i : Fin 2) :
    Appr 4 (|g i| / (g 0 ^ 2 + g 1 ^ 2)) (toReal ((C1.inverse (Vec.toRF g)) i)) ((C1.inverse g) i) := by
  have hpos : 0 ≤ g 0 * g 0 + g 1 * g 1 := by nlinarith [mul_self_nonneg (g 0), mul_self_nonneg (g 1)]
  have ht0 : g 0 * g 0 + g 1 * g 1 ≠ 0 := by
    intro e; apply h; rw [← e]; ring
  have ht : Appr 2 |g 0 * g 0 + g 1 * g 1| (fl (fl (g 0 * g 0) + fl (g 1 * g 1))) (g 0 * g 0 + g 1 * g 1) := by
    apply Appr.mono
    · appr
    · decide
    · rw [abs_of_nonneg hpos, ← abs_mul, ← abs_mul, abs_mul_self, abs_mul_self]
  have e : |g 0 * g 0 + g 1 * g 1| = g 0 ^ 2 + g 1 ^ 2 := by rw [abs_of_nonneg hpos]; ring
  fin_cases i
  · have := (Appr.exact (g 0)).neg.div ht ht0 (divOK_le6 2 (by norm_num))
    rw [e] at this
    simpa [C1.inverse, mk2, Vec.of] using this
  · have := (Appr.exact (g 1)).div ht ht0 (divOK_le6 2 (by norm_num))
    rw [e] at this
    simpa [C1.inverse, mk2, Vec.of] using this


/-! ### SO3 -/

@[simp] theorem fl_zero : fl 0 = 0 := by
  have := spec 0
  simpa using this

omit [Rounding] in
theorem sqNorm4_real (g : Vec ℝ 4) : sqNorm g = g 0 * g 0 + g 1 * g 1 + g 2 * g 2 + g 3 * g 3 := by
  simp [sqNorm, dot, vsum]

omit [Rounding] in
theorem sqNorm4_nonneg (g : Vec ℝ 4) : 0 ≤ sqNorm g := by
  rw [sqNorm4_real]
  nlinarith [mul_self_nonneg (g 0), mul_self_nonneg (g 1), mul_self_nonneg (g 2), mul_self_nonneg (g 3)]

theorem sqNorm4_appr (g : Vec ℝ 4) : Appr 5 |sqNorm g| (toReal (sqNorm (Vec.toRF g))) (sqNorm g) := by
  have hpos := sqNorm4_nonneg g
  have hsq : ∀ x : ℝ, |x| * |x| = x * x := fun x => by rw [← abs_mul, abs_mul_self]
  apply Appr.mono
  · simp only [sqNorm, dot, vsum, toReal_add, toReal_mul, toReal_nat, Vec.toRF_get, Scalar.nat_real]
    appr
  · decide
  · rw [abs_of_nonneg hpos, sqNorm4_real]
    simp [hsq]

/-- SO3 inverse (Eigen `conjugate / squaredNorm`) in the standard model, all quaternions (the branch
    `0 < ‖g‖²` is decided identically by the computed and the exact squared norm) -/
theorem so3_inverse_appr (g : Vec ℝ 4) (i : Fin 4) :
    Appr 7 (|g i| / sqNorm g) (toReal ((SO3.inverse (Vec.toRF g)) i)) ((SO3.inverse g) i) := by
  have hn := sqNorm4_appr g
  have hpos := sqNorm4_nonneg g
  have hok : DivOK 5 := divOK_le6 5 (by norm_num)
  by_cases h0 : sqNorm g = 0
  · -- g = 0: both sides take the `else` branch
    have hg : ∀ k, g k = 0 := by
      rw [sqNorm4_real] at h0
      have e0 : g 0 = 0 := by nlinarith [mul_self_nonneg (g 0), mul_self_nonneg (g 1), mul_self_nonneg (g 2), mul_self_nonneg (g 3)]
      have e1 : g 1 = 0 := by nlinarith [mul_self_nonneg (g 0), mul_self_nonneg (g 1), mul_self_nonneg (g 2), mul_self_nonneg (g 3)]
      have e2 : g 2 = 0 := by nlinarith [mul_self_nonneg (g 0), mul_self_nonneg (g 1), mul_self_nonneg (g 2), mul_self_nonneg (g 3)]
      have e3 : g 3 = 0 := by nlinarith [mul_self_nonneg (g 0), mul_self_nonneg (g 1), mul_self_nonneg (g 2), mul_self_nonneg (g 3)]
      intro k; fin_cases k <;> assumption
    have hh : toReal (sqNorm (Vec.toRF g)) = 0 := by
      have := hn.err
      rw [h0] at this
      simpa using this
    have c1 : ¬ ((Scalar.nat 0 : RF) < sqNorm (Vec.toRF g)) := by
      rw [RF.lt_def, hh]; simp
    have c2 : ¬ ((Scalar.nat 0 : ℝ) < sqNorm g) := by rw [h0]; simp
    have e1 : SO3.inverse (Vec.toRF g) = vzero 4 := by simp only [SO3.inverse, if_neg c1]
    have e2 : SO3.inverse g = vzero 4 := by simp only [SO3.inverse, if_neg c2]
    rw [e1, e2, hg i, h0]
    exact ⟨by simp [vzero, Vec.of], by simp [vzero, Vec.of]⟩
  · have hp : 0 < sqNorm g := lt_of_le_of_ne hpos (Ne.symm h0)
    have hh : 0 < toReal (sqNorm (Vec.toRF g)) := by
      have h1 := hn.err
      have h2 := theta_lt_one_of_divOK hok
      rw [abs_of_pos hp] at h1
      have := abs_le.mp h1
      nlinarith [this.1]
    have c1 : (Scalar.nat 0 : RF) < sqNorm (Vec.toRF g) := by
      rw [RF.lt_def]; simpa using hh
    have c2 : (Scalar.nat 0 : ℝ) < sqNorm g := by simpa using hp
    have e1 : SO3.inverse (Vec.toRF g) = mk4 (-(Vec.toRF g 0) / sqNorm (Vec.toRF g))
        (-(Vec.toRF g 1) / sqNorm (Vec.toRF g)) (-(Vec.toRF g 2) / sqNorm (Vec.toRF g))
        ((Vec.toRF g 3) / sqNorm (Vec.toRF g)) := by simp only [SO3.inverse, if_pos c1]
    have e2 : SO3.inverse g = mk4 (-(g 0) / sqNorm g) (-(g 1) / sqNorm g) (-(g 2) / sqNorm g)
        (g 3 / sqNorm g) := by simp only [SO3.inverse, if_pos c2]
    rw [e1, e2]
    have ea : |sqNorm g| = sqNorm g := abs_of_pos hp
    fin_cases i
    · have := (Appr.exact (g 0)).neg.div hn h0 hok
      rw [ea] at this
      simpa [mk4, Vec.of] using this
    · have := (Appr.exact (g 1)).neg.div hn h0 hok
      rw [ea] at this
      simpa [mk4, Vec.of] using this
    · have := (Appr.exact (g 2)).neg.div hn h0 hok
      rw [ea] at this
      simpa [mk4, Vec.of] using this
    · have := (Appr.exact (g 3)).div hn h0 hok
      rw [ea] at this
      simpa [mk4, Vec.of] using this

def qabs (a b : Vec ℝ 4) : Vec ℝ 4 :=
  mk4 (|a 3| * |b 0| + |a 0| * |b 3| + |a 1| * |b 2| + |a 2| * |b 1|)
      (|a 3| * |b 1| + |a 1| * |b 3| + |a 2| * |b 0| + |a 0| * |b 2|)
      (|a 3| * |b 2| + |a 2| * |b 3| + |a 0| * |b 1| + |a 1| * |b 0|)
      (|a 3| * |b 3| + |a 0| * |b 0| + |a 1| * |b 1| + |a 2| * |b 2|)

theorem qmul_appr (a b : Vec ℝ 4) (i : Fin 4) :
    Appr 4 (qabs a b i) (toReal ((SO3.qmul (Vec.toRF a) (Vec.toRF b)) i)) ((SO3.qmul a b) i) := by
  fin_cases i <;>
  · apply Appr.mono
    · simp only [SO3.qmul, mk4, Vec.of, toReal_add, toReal_mul, toReal_sub, Vec.toRF_get]
      appr
    · decide
    · simp [qabs, mk4, Vec.of]

omit [Rounding] in
theorem canon_real (q : Vec ℝ 4) : ∃ s : ℝ, (s = 1 ∨ s = -1) ∧ ∀ i, (SO3.canon q) i = s * q i := by
  by_cases h : q 3 < 0
  · exact ⟨-1, Or.inr rfl, fun i => by simp [SO3.canon, h, Vec.of]⟩
  · exact ⟨1, Or.inl rfl, fun i => by simp [SO3.canon, h]⟩

theorem canon_rf {k : ℕ} (g : Vec RF 4) (q Q : Vec ℝ 4) (h : ∀ i, Appr k (Q i) (toReal (g i)) (q i)) :
    ∃ s : ℝ, (s = 1 ∨ s = -1) ∧ ∀ i, Appr (k + 1) (Q i) (toReal ((SO3.canon g) i)) (s * q i) := by
  by_cases hc : g 3 < Scalar.nat 0
  · refine ⟨-1, Or.inr rfl, fun i => ?_⟩
    have := (h i).mul (Appr.natCast 1).neg
    have e : toReal ((SO3.canon g) i) = fl (toReal (g i) * -((1 : ℕ) : ℝ)) := by
      simp only [SO3.canon, if_pos hc, Vec.of, toReal_mul, toReal_neg, toReal_nat]
    rw [e]
    refine Appr.mono (j := k + 0 + 1) (X := Q i * ((1 : ℕ) : ℝ)) ?_ (by omega) (by simp)
    have e2 : -1 * q i = q i * -((1 : ℕ) : ℝ) := by simp
    rw [e2]; exact this
  · refine ⟨1, Or.inl rfl, fun i => ?_⟩
    have e : SO3.canon g = g := by simp only [SO3.canon, if_neg hc]
    rw [e, one_mul]
    exact (h i).mono (by omega) (le_refl _)

/-- SO3 composition in the standard model: equal to the exact composition UP TO A COMMON SIGN
    (the canonical-sign decision `q_w < 0` may differ when `q_w ≈ 0`) -/
theorem so3_composition_appr (a b : Vec ℝ 4) :
    ∃ s : ℝ, (s = 1 ∨ s = -1) ∧ ∀ i, Appr 5 (qabs a b i)
      (toReal ((SO3.composition (Vec.toRF a) (Vec.toRF b)) i)) (s * (SO3.composition a b) i) := by
  obtain ⟨s1, hs1, h1⟩ := canon_rf _ _ _ (qmul_appr a b)
  obtain ⟨s2, hs2, h2⟩ := canon_real (SO3.qmul a b)
  refine ⟨s1 * s2, ?_, fun i => ?_⟩
  · rcases hs1 with rfl | rfl <;> rcases hs2 with rfl | rfl <;> norm_num
  · have e : s1 * s2 * (SO3.composition a b) i = s1 * (SO3.qmul a b) i := by
      have : s2 * s2 = 1 := by rcases hs2 with rfl | rfl <;> norm_num
      simp only [SO3.composition, h2 i]
      calc s1 * s2 * (s2 * (SO3.qmul a b).get i) = s1 * (s2 * s2) * (SO3.qmul a b).get i := by ring
        _ = _ := by rw [this, mul_one]
    rw [e]
    exact h1 i

omit [Rounding] in
theorem so3_matrix_sign (s : ℝ) (hs : s = 1 ∨ s = -1) (q : Vec ℝ 4) :
    SO3.matrix (Vec.of (fun i => s * q i)) = SO3.matrix q := by
  rcases hs with rfl | rfl
  · congr 1; ext i; simp [Vec.of]
  · ext i j
    fin_cases i <;> fin_cases j <;> simp [SO3.matrix, mat3, Mat.of, Vec.of]


def so3MatAbs (Q : Vec ℝ 4) : Mat ℝ 3 3 :=
  let x := Q 0; let y := Q 1; let z := Q 2; let w := Q 3
  mat3 (1 + (2 * y * y + 2 * z * z)) (2 * y * x + 2 * z * w) (2 * z * x + 2 * y * w)
       (2 * y * x + 2 * z * w) (1 + (2 * x * x + 2 * z * z)) (2 * z * y + 2 * x * w)
       (2 * z * x + 2 * y * w) (2 * z * y + 2 * x * w) (1 + (2 * x * x + 2 * y * y))

theorem so3_matrix_appr {k : ℕ} (g : Vec RF 4) (q Q : Vec ℝ 4)
    (h : ∀ i, Appr k (Q i) (toReal (g i)) (q i)) (i j : Fin 3) :
    Appr (2 * k + 4) (so3MatAbs Q i j) (toReal ((SO3.matrix g) i j)) ((SO3.matrix q) i j) := by
  have h0 := h 0; have h1 := h 1; have h2 := h 2; have h3 := h 3
  fin_cases i <;> fin_cases j <;>
  · apply Appr.mono
    · simp only [SO3.matrix, mat3, Mat.of, toReal_add, toReal_mul, toReal_sub, toReal_nat]
      appr
    · simp only [Nat.zero_add]; omega
    · simp [so3MatAbs, mat3, Mat.of]

theorem so3_matrix_appr0 {k : ℕ} (g : Vec RF 4) (q Q : Vec ℝ 4)
    (h : ∀ i, Appr k (Q i) (toReal (g i)) (q i)) (i j : Fin 3) :
    Appr (2 * k) (so3MatAbs Q i j) ((SO3.matrix (Vec.toR g)) i j) ((SO3.matrix q) i j) := by
  have h0 := h 0; have h1 := h 1; have h2 := h 2; have h3 := h 3
  fin_cases i <;> fin_cases j <;>
  · apply Appr.mono
    · simp only [SO3.matrix, mat3, Mat.of, Vec.toR_get, Scalar.nat_real]
      appr0
    · simp only [Nat.zero_add]; omega
    · simp [so3MatAbs, mat3, Mat.of]

/-! ### matrix–vector products -/

/-- rounded 3×3 matrix–vector product (left-to-right sum starting from 0): `k + m + 4` roundings -/
theorem mulVec3_appr {k m : ℕ} (Ah : Mat RF 3 3) (A AA : Mat ℝ 3 3) (vh : Vec RF 3) (v V : Vec ℝ 3)
    (hA : ∀ i j, Appr k (AA i j) (toReal (Ah i j)) (A i j))
    (hv : ∀ i, Appr m (V i) (toReal (vh i)) (v i)) (i : Fin 3) :
    Appr (k + m + 4) (AA i 0 * V 0 + AA i 1 * V 1 + AA i 2 * V 2)
      (toReal ((mulVec Ah vh) i)) ((mulVec A v) i) := by
  have a0 := hA i 0; have a1 := hA i 1; have a2 := hA i 2
  have v0 := hv 0; have v1 := hv 1; have v2 := hv 2
  apply Appr.mono
  · simp only [mulVec, vsum, Vec.of, toReal_add, toReal_mul, toReal_nat, Scalar.nat_real]
    appr
  · omega
  · simp


omit [Rounding] in
theorem vsum2 {α : Type} [Scalar α] (f : Fin 2 → α) : vsum 2 f = (nat 0 + f 0) + f 1 := rfl
omit [Rounding] in
theorem vsum3 {α : Type} [Scalar α] (f : Fin 3 → α) : vsum 3 f = ((nat 0 + f 0) + f 1) + f 2 := rfl
omit [Rounding] in
theorem vsum4 {α : Type} [Scalar α] (f : Fin 4 → α) : vsum 4 f = (((nat 0 + f 0) + f 1) + f 2) + f 3 := rfl

/-! ### Tn -/
theorem tn_composition_err {n : Nat} (a b : Vec ℝ n) (i : Fin n) :
    |toReal ((Tn.composition (Vec.toRF a) (Vec.toRF b)) i) - (Tn.composition a b) i|
      ≤ u * |(Tn.composition a b) i| := by
  simpa [Tn.composition, vadd, Vec.of] using spec (a i + b i)

theorem tn_inverse_exact {n : Nat} (g : Vec ℝ n) : Vec.toR (Tn.inverse (Vec.toRF g)) = Tn.inverse g := by
  ext i; simp [Tn.inverse, vneg, Vec.of, Vec.toR]

/-! ### SE2 -/
def se2CompAbs (a b : Vec ℝ 4) : Vec ℝ 4 :=
  mk4 (|a 3| * |b 0| + |a 2| * |b 1| + |a 0|) (|a 2| * |b 0| + |a 3| * |b 1| + |a 1|)
      (|a 2| * |b 3| + |a 3| * |b 2|) (|a 3| * |b 3| + |a 2| * |b 2|)

/-- exponents: 4 roundings on the translation entries, 2 on the rotation entries -/
def se2CompK (i : Fin 4) : ℕ := if i.val < 2 then 4 else 2

theorem se2_composition_appr (a b : Vec ℝ 4) (i : Fin 4) :
    Appr (se2CompK i) (se2CompAbs a b i) (toReal ((SE2.composition (Vec.toRF a) (Vec.toRF b)) i))
      ((SE2.composition a b) i) := by
  fin_cases i <;>
  · apply Appr.mono
    · simp only [SE2.composition, SE2.so2, SE2.r2, SO2.composition, SO2.matrix, mat2, Mat.of, vadd, mulVec, vsum2,
        mk2, mk4, Vec.of, toReal_add, toReal_mul, toReal_sub, toReal_neg, toReal_nat, Vec.toRF_get,
        Scalar.nat_real]
      appr
    · decide
    · simp [se2CompAbs, mk4, Vec.of]

def se2InvAbs (g : Vec ℝ 4) : Vec ℝ 4 :=
  mk4 (|g 3| * |g 0| + |g 2| * |g 1|) (|g 2| * |g 0| + |g 3| * |g 1|) |g 2| |g 3|

def se2InvK (i : Fin 4) : ℕ := if i.val < 2 then 3 else 0

theorem se2_inverse_appr (g : Vec ℝ 4) (i : Fin 4) :
    Appr (se2InvK i) (se2InvAbs g i) (toReal ((SE2.inverse (Vec.toRF g)) i)) ((SE2.inverse g) i) := by
  fin_cases i <;>
  · apply Appr.mono
    · simp only [SE2.inverse, SE2.so2, SE2.r2, SO2.inverse, SO2.matrix, mat2, Mat.of, mneg, mulVec, vsum2,
        mk2, mk4, Vec.of, toReal_add, toReal_mul, toReal_sub, toReal_neg, toReal_nat, Vec.toRF_get,
        Scalar.nat_real]
      appr
    · decide
    · simp [se2InvAbs, mk4, Vec.of]

/-! ### SE3: accessors (any scalar type) -/
section
variable {α : Type} [Scalar α]
omit [Rounding] in
theorem se3_comp_so3 (a b : Vec α 7) :
    SE3.so3 (SE3.composition a b) = SO3.composition (SE3.so3 a) (SE3.so3 b) := by
  ext i; fin_cases i <;> simp [SE3.composition, SE3.so3, SE3.mk7, mk4, Vec.of]
omit [Rounding] in
theorem se3_comp_r3 (a b : Vec α 7) :
    SE3.r3 (SE3.composition a b) = vadd (mulVec (SO3.matrix (SE3.so3 a)) (SE3.r3 b)) (SE3.r3 a) := by
  ext i; fin_cases i <;> simp [SE3.composition, SE3.r3, SE3.mk7, mk3, Vec.of, memoM_eq]
omit [Rounding] in
theorem se3_inv_so3 (g : Vec α 7) : SE3.so3 (SE3.inverse g) = SO3.inverse (SE3.so3 g) := by
  ext i; fin_cases i <;> simp [SE3.inverse, SE3.so3, SE3.mk7, mk4, Vec.of, memoV_eq]
omit [Rounding] in
theorem se3_inv_r3 (g : Vec α 7) :
    SE3.r3 (SE3.inverse g) = mulVec (mneg (SO3.matrix (SO3.inverse (SE3.so3 g)))) (SE3.r3 g) := by
  ext i; fin_cases i <;> simp [SE3.inverse, SE3.r3, SE3.mk7, mk3, Vec.of, memoM_eq, memoV_eq]
end

omit [Rounding] in
theorem se3_so3_toRF (a : Vec ℝ 7) : SE3.so3 (Vec.toRF a) = Vec.toRF (SE3.so3 a) := by
  ext i; fin_cases i <;> rfl
omit [Rounding] in
theorem se3_r3_toRF (a : Vec ℝ 7) : SE3.r3 (Vec.toRF a) = Vec.toRF (SE3.r3 a) := by
  ext i; fin_cases i <;> rfl

omit [Rounding] in
theorem se3_matrix_rot (g : Vec ℝ 7) (i j : Fin 3) :
    (SE3.matrix g) ⟨i.val, by omega⟩ ⟨j.val, by omega⟩ = (SO3.matrix (SE3.so3 g)) i j := by
  fin_cases i <;> fin_cases j <;> simp [SE3.matrix, Mat.of]
omit [Rounding] in
theorem se3_matrix_trans (g : Vec ℝ 7) (i : Fin 3) :
    (SE3.matrix g) ⟨i.val, by omega⟩ 3 = (SE3.r3 g) i := by
  fin_cases i <;> simp [SE3.matrix, Mat.of, SE3.r3, mk3, Vec.of]
omit [Rounding] in
theorem se3_matrix_last (g h : Vec ℝ 7) (j : Fin 4) : (SE3.matrix g) 3 j = (SE3.matrix h) 3 j := by
  fin_cases j <;> simp [SE3.matrix, Mat.of]

/-- absolute-value majorant of the translation part of an SE3 product -/
def se3TransAbs (a b : Vec ℝ 7) (i : Fin 3) : ℝ :=
  so3MatAbs (.of (fun l => |SE3.so3 a l|)) i 0 * |SE3.r3 b 0|
    + so3MatAbs (.of (fun l => |SE3.so3 a l|)) i 1 * |SE3.r3 b 1|
    + so3MatAbs (.of (fun l => |SE3.so3 a l|)) i 2 * |SE3.r3 b 2| + |SE3.r3 a i|

/-- SE3 composition, translation part `R(q₁) t₂ + t₁`: 9 roundings -/
theorem se3_composition_trans_appr (a b : Vec ℝ 7) (i : Fin 3) :
    Appr 9 (se3TransAbs a b i) (toReal ((SE3.r3 (SE3.composition (Vec.toRF a) (Vec.toRF b))) i))
      ((SE3.r3 (SE3.composition a b)) i) := by
  rw [se3_comp_r3, se3_comp_r3, se3_so3_toRF, se3_r3_toRF, se3_r3_toRF]
  have hR := so3_matrix_appr (k := 0) (Vec.toRF (SE3.so3 a)) (SE3.so3 a) (.of (fun l => |SE3.so3 a l|))
    (fun l => Appr.exact _)
  have hv : ∀ l, Appr 0 ((Vec.of (fun l => |SE3.r3 b l|)) l) (toReal ((Vec.toRF (SE3.r3 b)) l)) (SE3.r3 b l) :=
    fun l => Appr.exact _
  have hm := mulVec3_appr _ _ _ _ _ _ hR hv i
  have := hm.add (Appr.exact (SE3.r3 a i))
  refine Appr.mono this (by decide) (le_of_eq ?_)
  simp [se3TransAbs, Vec.of]

/-- SE3 composition, rotation part: the SO3 composition (up to the common sign) -/
theorem se3_composition_rot_appr (a b : Vec ℝ 7) :
    ∃ s : ℝ, (s = 1 ∨ s = -1) ∧ ∀ i, Appr 5 (qabs (SE3.so3 a) (SE3.so3 b) i)
      (toReal ((SE3.so3 (SE3.composition (Vec.toRF a) (Vec.toRF b))) i))
      (s * (SE3.so3 (SE3.composition a b)) i) := by
  rw [se3_comp_so3, se3_comp_so3, se3_so3_toRF, se3_so3_toRF]
  exact so3_composition_appr _ _

/-- majorant of the coefficients of the inverse quaternion -/
def qinvAbs (q : Vec ℝ 4) : Vec ℝ 4 := .of (fun l => |q l| / sqNorm q)

def se3InvTransAbs (g : Vec ℝ 7) (i : Fin 3) : ℝ :=
  so3MatAbs (qinvAbs (SE3.so3 g)) i 0 * |SE3.r3 g 0| + so3MatAbs (qinvAbs (SE3.so3 g)) i 1 * |SE3.r3 g 1|
    + so3MatAbs (qinvAbs (SE3.so3 g)) i 2 * |SE3.r3 g 2|

/-- SE3 inverse, translation part `−R(q⁻¹) t`: 22 roundings (7 in `q⁻¹`, 2·7+4 in its matrix, 4 in the
    product) -/
theorem se3_inverse_trans_appr (g : Vec ℝ 7) (i : Fin 3) :
    Appr 22 (se3InvTransAbs g i) (toReal ((SE3.r3 (SE3.inverse (Vec.toRF g))) i))
      ((SE3.r3 (SE3.inverse g)) i) := by
  rw [se3_inv_r3, se3_inv_r3, se3_so3_toRF, se3_r3_toRF]
  have hq := so3_inverse_appr (SE3.so3 g)
  have hR := so3_matrix_appr (k := 7) (SO3.inverse (Vec.toRF (SE3.so3 g))) (SO3.inverse (SE3.so3 g))
    (qinvAbs (SE3.so3 g)) (fun l => by simpa [qinvAbs, Vec.of] using hq l)
  have hR' : ∀ i j, Appr 18 (so3MatAbs (qinvAbs (SE3.so3 g)) i j)
      (toReal ((mneg (SO3.matrix (SO3.inverse (Vec.toRF (SE3.so3 g))))) i j))
      ((mneg (SO3.matrix (SO3.inverse (SE3.so3 g)))) i j) := fun i j => by
    simpa [mneg, Mat.of] using (hR i j).neg
  have hv : ∀ l, Appr 0 ((Vec.of (fun l => |SE3.r3 g l|)) l) (toReal ((Vec.toRF (SE3.r3 g)) l)) (SE3.r3 g l) :=
    fun l => Appr.exact _
  have hm := mulVec3_appr _ _ _ _ _ _ hR' hv i
  refine Appr.mono hm (by decide) (le_of_eq ?_)
  simp [se3InvTransAbs, Vec.of]

theorem se3_inverse_rot_appr (g : Vec ℝ 7) (i : Fin 4) :
    Appr 7 (qinvAbs (SE3.so3 g) i) (toReal ((SE3.so3 (SE3.inverse (Vec.toRF g))) i))
      ((SE3.so3 (SE3.inverse g)) i) := by
  rw [se3_inv_so3, se3_inv_so3, se3_so3_toRF]
  simpa [qinvAbs, Vec.of] using so3_inverse_appr (SE3.so3 g) i

end Round
end

/-! # Norm forms of the majorants, and the numbers for double / single precision
    (helpers of SmoothProps/C01Round.lean) -/

section
open Lin Scalar
namespace Round

/-! ## Norm helpers -/

/-- Euclidean norm of a coefficient pair -/
def nrm2 (g : Vec ℝ 2) : ℝ := √(g 0 ^ 2 + g 1 ^ 2)

theorem cs2 (p q r s : ℝ) : |p| * |q| + |r| * |s| ≤ √(p ^ 2 + r ^ 2) * √(q ^ 2 + s ^ 2) := by
  have := Real.sum_mul_le_sqrt_mul_sqrt (Finset.univ : Finset (Fin 2)) ![|p|, |r|] ![|q|, |s|]
  simpa [Fin.sum_univ_two, sq_abs] using this

theorem cs4 (p0 p1 p2 p3 q0 q1 q2 q3 : ℝ) :
    |p0| * |q0| + |p1| * |q1| + |p2| * |q2| + |p3| * |q3|
      ≤ √(p0 ^ 2 + p1 ^ 2 + p2 ^ 2 + p3 ^ 2) * √(q0 ^ 2 + q1 ^ 2 + q2 ^ 2 + q3 ^ 2) := by
  have := Real.sum_mul_le_sqrt_mul_sqrt (Finset.univ : Finset (Fin 4)) ![|p0|, |p1|, |p2|, |p3|]
    ![|q0|, |q1|, |q2|, |q3|]
  simpa [Fin.sum_univ_four, sq_abs] using this

theorem compAbs2_le (a b : Vec ℝ 2) (i : Fin 2) : compAbs2 a b i ≤ nrm2 a * nrm2 b := by
  unfold nrm2
  fin_cases i
  · have := cs2 (a 0) (b 1) (a 1) (b 0)
    simp only [compAbs2, mk2, Vec.of]
    calc _ ≤ _ := this
      _ = _ := by rw [add_comm (b.get 1 ^ 2)]
  · have := cs2 (a 1) (b 1) (a 0) (b 0)
    simp only [compAbs2, mk2, Vec.of]
    calc _ ≤ _ := this
      _ = _ := by rw [add_comm (b.get 1 ^ 2), add_comm (a.get 1 ^ 2)]

theorem nrm2_nonneg (g : Vec ℝ 2) : 0 ≤ nrm2 g := Real.sqrt_nonneg _
theorem abs_le_nrm2 (g : Vec ℝ 2) (k : Fin 2) : |g k| ≤ nrm2 g := by
  apply Real.abs_le_sqrt
  fin_cases k <;> simp <;> positivity

/-- translation rows: `|R(a)|·|t_b| + |t_a| ≤ ‖so2 a‖·‖t_b‖ + |t_a|`; rotation rows: `≤ ‖so2 a‖·‖so2 b‖` -/
theorem se2CompAbs_le (a b : Vec ℝ 4) (i : Fin 4) :
    se2CompAbs a b i ≤ if i.val < 2 then nrm2 (SE2.so2 a) * nrm2 (SE2.r2 b) + |a i|
      else nrm2 (SE2.so2 a) * nrm2 (SE2.so2 b) := by
  unfold nrm2
  fin_cases i <;> simp [se2CompAbs, SE2.so2, SE2.r2, mk2, mk4, Vec.of]
  · have := cs2 (a 3) (b 0) (a 2) (b 1)
    rw [add_comm (a.get 3 ^ 2)] at this; exact this
  · exact cs2 (a 2) (b 0) (a 3) (b 1)
  · have := cs2 (a 2) (b 3) (a 3) (b 2)
    rw [add_comm (b.get 3 ^ 2)] at this; exact this
  · have := cs2 (a 3) (b 3) (a 2) (b 2)
    rw [add_comm (b.get 3 ^ 2), add_comm (a.get 3 ^ 2)] at this; exact this

/-- Euclidean norm of a quaternion -/
def nrm4 (q : Vec ℝ 4) : ℝ := √(SO3.sqn q)

theorem nrm4_nonneg (q : Vec ℝ 4) : 0 ≤ nrm4 q := Real.sqrt_nonneg _
theorem sqn_nonneg (q : Vec ℝ 4) : 0 ≤ SO3.sqn q := by unfold SO3.sqn; positivity
theorem nrm4_sq (q : Vec ℝ 4) : nrm4 q ^ 2 = SO3.sqn q := Real.sq_sqrt (sqn_nonneg q)
theorem sqNorm_eq_sqn (q : Vec ℝ 4) : sqNorm q = SO3.sqn q := by rw [sqNorm4_real, SO3.sqn]; ring

theorem qabs_le (a b : Vec ℝ 4) (i : Fin 4) : qabs a b i ≤ nrm4 a * nrm4 b := by
  unfold nrm4 SO3.sqn
  fin_cases i <;> simp only [qabs, mk4, Vec.of]
  · have := cs4 (a 3) (a 0) (a 1) (a 2) (b 0) (b 3) (b 2) (b 1)
    refine this.trans (le_of_eq ?_); congr 2 <;> ring
  · have := cs4 (a 3) (a 1) (a 2) (a 0) (b 1) (b 3) (b 0) (b 2)
    refine this.trans (le_of_eq ?_); congr 2 <;> ring
  · have := cs4 (a 3) (a 2) (a 0) (a 1) (b 2) (b 3) (b 1) (b 0)
    refine this.trans (le_of_eq ?_); congr 2 <;> ring
  · have := cs4 (a 3) (a 0) (a 1) (a 2) (b 3) (b 0) (b 1) (b 2)
    refine this.trans (le_of_eq ?_); congr 2 <;> ring

theorem qabs_nonneg (a b : Vec ℝ 4) (i : Fin 4) : 0 ≤ qabs a b i := by
  fin_cases i <;> simp only [qabs, mk4, Vec.of] <;> positivity

/-- entries of the absolute-value rotation matrix when every `Q k ∈ [0, m]` -/
theorem so3MatAbs_le (Q : Vec ℝ 4) (m : ℝ) (h0 : ∀ k, 0 ≤ Q k) (hm : ∀ k, Q k ≤ m) (i j : Fin 3) :
    so3MatAbs Q i j ≤ 1 + 4 * m ^ 2 := by
  have a0 := h0 0; have a1 := h0 1; have a2 := h0 2; have a3 := h0 3
  have b0 := hm 0; have b1 := hm 1; have b2 := hm 2; have b3 := hm 3
  have hm0 : 0 ≤ m := a0.trans b0
  have p : ∀ x y : ℝ, 0 ≤ x → 0 ≤ y → x ≤ m → y ≤ m → x * y ≤ m ^ 2 := fun x y hx hy hxm hym => by
    rw [sq]; exact mul_le_mul hxm hym hy hm0
  fin_cases i <;> fin_cases j <;> simp only [so3MatAbs, mat3, Mat.of] <;>
    nlinarith [p _ _ a0 a0 b0 b0, p _ _ a1 a1 b1 b1, p _ _ a2 a2 b2 b2, p _ _ a3 a3 b3 b3,
      p _ _ a1 a0 b1 b0, p _ _ a2 a3 b2 b3, p _ _ a2 a0 b2 b0, p _ _ a1 a3 b1 b3, p _ _ a2 a1 b2 b1,
      p _ _ a0 a3 b0 b3, sq_nonneg m]

theorem abs_le_nrm4 (g : Vec ℝ 4) (k : Fin 4) : |g k| ≤ nrm4 g := by
  apply Real.abs_le_sqrt
  unfold SO3.sqn
  fin_cases k <;> simp <;> nlinarith [sq_nonneg (g 0), sq_nonneg (g 1), sq_nonneg (g 2), sq_nonneg (g 3)]

/-- row sums of the absolute-value rotation matrix: `Σ_l |R|_il v_l ≤ (1 + 4n)·T` when `ΣQ² ≤ n`, `0 ≤ v ≤ T` -/
theorem so3MatAbs_row (Q : Vec ℝ 4) (h0 : ∀ k, 0 ≤ Q k) (n : ℝ)
    (hn : Q 0 ^ 2 + Q 1 ^ 2 + Q 2 ^ 2 + Q 3 ^ 2 ≤ n) (v0 v1 v2 T : ℝ)
    (p0 : 0 ≤ v0) (q0 : v0 ≤ T) (q1 : v1 ≤ T) (q2 : v2 ≤ T) (i : Fin 3) :
    so3MatAbs Q i 0 * v0 + so3MatAbs Q i 1 * v1 + so3MatAbs Q i 2 * v2 ≤ (1 + 4 * n) * T := by
  have a0 := h0 0; have a1 := h0 1; have a2 := h0 2; have a3 := h0 3
  have hT : 0 ≤ T := p0.trans q0
  have hE : ∀ j, 0 ≤ so3MatAbs Q i j := by
    intro j
    fin_cases i <;> fin_cases j <;> simp only [so3MatAbs, mat3, Mat.of] <;> positivity
  have hsum : so3MatAbs Q i 0 + so3MatAbs Q i 1 + so3MatAbs Q i 2 ≤ 1 + 4 * n := by
    fin_cases i <;> simp only [so3MatAbs, mat3, Mat.of] <;>
      nlinarith [sq_nonneg (Q 0 - Q 1), sq_nonneg (Q 2 - Q 3), sq_nonneg (Q 2 - Q 0), sq_nonneg (Q 1 - Q 3),
        sq_nonneg (Q 2 - Q 1), sq_nonneg (Q 0 - Q 3), sq_nonneg (Q 0), sq_nonneg (Q 1), sq_nonneg (Q 2),
        sq_nonneg (Q 3)]
  calc so3MatAbs Q i 0 * v0 + so3MatAbs Q i 1 * v1 + so3MatAbs Q i 2 * v2
      ≤ so3MatAbs Q i 0 * T + so3MatAbs Q i 1 * T + so3MatAbs Q i 2 * T := by
        have := hE 0; have := hE 1; have := hE 2
        gcongr
    _ = (so3MatAbs Q i 0 + so3MatAbs Q i 1 + so3MatAbs Q i 2) * T := by ring
    _ ≤ (1 + 4 * n) * T := by gcongr

theorem se3TransAbs_le (a b : Vec ℝ 7) (n T : ℝ) (hn : SO3.sqn (SE3.so3 a) ≤ n)
    (hb : ∀ l, |SE3.r3 b l| ≤ T) (i : Fin 3) (ha : |SE3.r3 a i| ≤ T) :
    se3TransAbs a b i ≤ (1 + 4 * n) * T + T := by
  unfold se3TransAbs
  have := so3MatAbs_row (.of (fun l => |SE3.so3 a l|)) (fun k => by simp [Vec.of]) n
    (by simpa [Vec.of, SO3.sqn] using hn) |SE3.r3 b 0| |SE3.r3 b 1| |SE3.r3 b 2| T
    (abs_nonneg _) (hb 0) (hb 1) (hb 2) i
  linarith

theorem se3InvTransAbs_le (g : Vec ℝ 7) (m T : ℝ) (hm0 : 0 < m) (hm : m ≤ SO3.sqn (SE3.so3 g))
    (hg : ∀ l, |SE3.r3 g l| ≤ T) (i : Fin 3) :
    se3InvTransAbs g i ≤ (1 + 4 / m) * T := by
  unfold se3InvTransAbs
  have hpos : 0 < SO3.sqn (SE3.so3 g) := lt_of_lt_of_le hm0 hm
  have hsum : qinvAbs (SE3.so3 g) 0 ^ 2 + qinvAbs (SE3.so3 g) 1 ^ 2 + qinvAbs (SE3.so3 g) 2 ^ 2
      + qinvAbs (SE3.so3 g) 3 ^ 2 ≤ 1 / m := by
    simp only [qinvAbs, Vec.of, sqNorm_eq_sqn, div_pow, sq_abs]
    have e : (SE3.so3 g) 0 ^ 2 / SO3.sqn (SE3.so3 g) ^ 2 + (SE3.so3 g) 1 ^ 2 / SO3.sqn (SE3.so3 g) ^ 2
        + (SE3.so3 g) 2 ^ 2 / SO3.sqn (SE3.so3 g) ^ 2 + (SE3.so3 g) 3 ^ 2 / SO3.sqn (SE3.so3 g) ^ 2
        = 1 / SO3.sqn (SE3.so3 g) := by
      have hne : SO3.sqn (SE3.so3 g) ≠ 0 := hpos.ne'
      rw [← add_div, ← add_div, ← add_div]
      rw [show (SE3.so3 g) 0 ^ 2 + (SE3.so3 g) 1 ^ 2 + (SE3.so3 g) 2 ^ 2 + (SE3.so3 g) 3 ^ 2
        = SO3.sqn (SE3.so3 g) from rfl]
      field_simp
    rw [e]
    exact one_div_le_one_div_of_le hm0 hm
  have := so3MatAbs_row (qinvAbs (SE3.so3 g))
    (fun k => by simp only [qinvAbs, Vec.of, sqNorm_eq_sqn]; positivity) (1 / m) hsum
    |SE3.r3 g 0| |SE3.r3 g 1| |SE3.r3 g 2| T
    (abs_nonneg _) (hg 0) (hg 1) (hg 2) i
  calc _ ≤ _ := this
    _ = _ := by ring



variable [Rounding]

/-- `u/(1 − 32u)` -/
def ubar : ℝ := u / (1 - 32 * u)

theorem ubar_nonneg : 0 ≤ ubar := by
  have := u_nonneg; have := u_le
  unfold ubar
  apply div_nonneg <;> linarith

theorem theta_le_ubar (k : ℕ) (hk : k ≤ 32) : theta k ≤ k * ubar := by
  have hu := u_nonneg; have hl := u_le
  have hk' : (k : ℝ) ≤ 32 := by exact_mod_cast hk
  have hk0 : (0 : ℝ) ≤ k := Nat.cast_nonneg k
  have h1 : (k : ℝ) * u ≤ 32 * u := by gcongr
  have := theta_le_lin k (32 * u) (by linarith) h1
  unfold ubar
  rw [mul_div_assoc] at this
  exact this

/-- double precision: `u ≤ 2⁻⁵³` -/
def IsDouble : Prop := u ≤ (1 / 2 : ℝ) ^ 53
/-- single precision: `u ≤ 2⁻²⁴` -/
def IsSingle : Prop := u ≤ (1 / 2 : ℝ) ^ 24

theorem ubar_double (h : IsDouble) : ubar ≤ 112 / 10 ^ 18 := by
  unfold IsDouble at h
  have hu := u_nonneg
  have h2 : (1 / 2 : ℝ) ^ 53 ≤ 1111 / 10 ^ 19 := by norm_num
  unfold ubar
  rw [div_le_iff₀ (by linarith)]
  linarith

theorem ubar_single (h : IsSingle) : ubar ≤ 597 / 10 ^ 10 := by
  unfold IsSingle at h
  have hu := u_nonneg
  have h2 : (1 / 2 : ℝ) ^ 24 ≤ 59605 / 10 ^ 12 := by norm_num
  unfold ubar
  rw [div_le_iff₀ (by linarith)]
  linarith

omit [Rounding] in
/-- case split of a 4×4 homogeneous matrix into rotation block, translation column, last row -/
theorem fin4_cases (P : Fin 4 → Fin 4 → Prop)
    (hrot : ∀ i j : Fin 3, P ⟨i.val, by omega⟩ ⟨j.val, by omega⟩)
    (htr : ∀ i : Fin 3, P ⟨i.val, by omega⟩ 3) (hlast : ∀ j, P 3 j) : ∀ i j, P i j := by
  intro i j
  fin_cases i
  · fin_cases j
    · exact hrot 0 0
    · exact hrot 0 1
    · exact hrot 0 2
    · exact htr 0
  · fin_cases j
    · exact hrot 1 0
    · exact hrot 1 1
    · exact hrot 1 2
    · exact htr 1
  · fin_cases j
    · exact hrot 2 0
    · exact hrot 2 1
    · exact hrot 2 2
    · exact htr 2
  · exact hlast j

omit [Rounding] in
theorem se3_so3_toR (v : Vec RF 7) : SE3.so3 (Vec.toR v) = Vec.toR (SE3.so3 v) := by
  ext i; fin_cases i <;> rfl
omit [Rounding] in
theorem se3_r3_toR (v : Vec RF 7) (i : Fin 3) : (SE3.r3 (Vec.toR v)) i = toReal ((SE3.r3 v) i) := by
  fin_cases i <;> rfl

/-- bookkeeping: `θ_k · X ≤ K·ū` when `X ≤ X₀` and `k·X₀ ≤ K` -/
theorem theta_mul_le (k : ℕ) (hk : k ≤ 32) (X X0 K : ℝ) (hX0 : 0 ≤ X) (hX : X ≤ X0)
    (hK : (k : ℝ) * X0 ≤ K) : theta k * X ≤ K * ubar := by
  have hub := ubar_nonneg
  have h1 := theta_le_ubar k hk
  have hk0 : (0 : ℝ) ≤ k := Nat.cast_nonneg k
  calc theta k * X ≤ (k * ubar) * X0 := mul_le_mul h1 hX hX0 (by positivity)
    _ = (k * X0) * ubar := by ring
    _ ≤ K * ubar := by gcongr

omit [Rounding] in
theorem nrm2_c1_composition (a b : Vec ℝ 2) : nrm2 (C1.composition a b) = nrm2 a * nrm2 b := by
  unfold nrm2
  rw [← Real.sqrt_mul (by positivity)]
  congr 1
  exact C1.sqnorm_composition a b

/-- the scale `max(1, T)` of the relative error -/
def scale (T : ℝ) : ℝ := Max.max 1 T
omit [Rounding] in
theorem one_le_scale (T : ℝ) : 1 ≤ scale T := le_max_left _ _
omit [Rounding] in
theorem le_scale (T : ℝ) : T ≤ scale T := le_max_right _ _
omit [Rounding] in
theorem scale_nonneg (T : ℝ) : 0 ≤ scale T := le_trans zero_le_one (one_le_scale T)

omit [Rounding] in
theorem se2InvAbs_le (g : Vec ℝ 4) (i : Fin 4) :
    se2InvAbs g i ≤ if i.val < 2 then nrm2 (SE2.so2 g) * nrm2 (SE2.r2 g) else nrm2 (SE2.so2 g) := by
  unfold nrm2
  fin_cases i <;> simp [se2InvAbs, SE2.so2, SE2.r2, mk2, mk4, Vec.of]
  · have := cs2 (g 3) (g 0) (g 2) (g 1)
    rw [add_comm (g.get 3 ^ 2)] at this; exact this
  · exact cs2 (g 2) (g 0) (g 3) (g 1)
  · apply Real.abs_le_sqrt; nlinarith [sq_nonneg (g 3)]
  · apply Real.abs_le_sqrt; nlinarith [sq_nonneg (g 2)]

omit [Rounding] in
theorem nrm2_so2_of_unit (g : Vec ℝ 4) (h : SE2.Unit g) : nrm2 (SE2.so2 g) = 1 := by
  unfold nrm2 SE2.Unit at *
  simp only [SE2.so2, mk2, Vec.of]
  rw [h, Real.sqrt_one]

end Round
end

end
