/-
  C12More.lean — (i) the hypothesis of the constant-velocity law derived from the product formula of the
  cumulative spline and the basis identity Σⱼ B̃ⱼ(u) = K·u (C20.sum_cumulative); (ii) arclength(t ≤ 0) = 0.
-/
import SmoothProofs.C12Crop
import Mathlib.Algebra.Module.Basic

set_option linter.unusedSectionVars false

open SplineSM SplineSM.TimeOps

namespace C12

variable {τ : Type} [Field τ] [LinearOrder τ] [IsStrictOrderedRing τ]
attribute [local instance] fieldTime
variable {G W : Type} [Group G] {C : Ker τ G W}

theorem prod_expo (expo : τ → W → G) (hzero : ∀ v, expo 0 v = 1) (hadd : ∀ a b v, expo (a + b) v = expo a v * expo b v)
    (f : Nat → τ) (v : W) (l : List Nat) : (l.map fun j => expo (f j) v).prod = expo (l.map f).sum v := by
  induction l with
  | nil => simp [hzero]
  | cons a r ih => simp [ih, hadd]

/-- `c_V(u) = Πⱼ exp(B̃ⱼ(u)·vⱼ)` with K equal velocities `s·v`, `exp` additive along the line of `v`, and
    `Σⱼ B̃ⱼ(u) = K·u` give `c_V(u) = exp(K·u·s·v)` — the hypothesis `hcv` of the constant-velocity law. -/
theorem constVel_of_product (expo : τ → W → G) (B : Nat → τ → τ)
    (hzero : ∀ v, expo 0 v = 1) (hadd : ∀ a b v, expo (a + b) v = expo a v * expo b v)
    (hsum : ∀ u, ((List.range C.K).map fun j => B j u).sum = (C.K : τ) * u)
    (hprod : ∀ (s : τ) (v : W) (u : τ), C.c (List.replicate C.K (C.wsmul s v)) u =
      ((List.range C.K).map fun j => expo (B j u * s) v).prod) :
    ∀ (s : τ) (v : W) (u : τ), C.c (List.replicate C.K (C.wsmul s v)) u = expo ((C.K : τ) * u * s) v := by
  intro s v u
  rw [hprod, prod_expo expo hzero hadd (fun j => B j u * s) v]
  congr 1
  rw [← hsum u]
  generalize List.range C.K = l
  induction l with
  | nil => simp
  | cons a r ih => simp [ih, add_mul]

/-- `arclength(t) = 0` for `t ≤ 0` (after the clamp `t = max(t, 0)`): the only term is an integral over the
    empty parameter interval `[T0, T0]` -/
theorem arclength_nonpos' (s : Spline τ G W) (hI : Inv C s) (habs : ∀ V (a : τ), C.absint V a a = C.wzero)
    (hw : C.wadd C.wzero C.wzero = C.wzero) {t : τ} (ht : t ≤ 0) : arclength C s t = C.wzero := by
  have h0 : tmax t (TimeOps.zero : τ) = 0 := by
    unfold tmax
    simp only [tzero]
    split
    · rfl
    · rename_i h; exact le_antisymm ht (not_lt.1 h)
  unfold arclength
  rw [h0]
  cases hs : s.segs with
  | nil => rfl
  | cons sg rest =>
    have hT : (0 : τ) < sg.tEnd := by
      have : InvFrom C s.g0 0 (sg :: rest) := by simpa [Inv, hs] using hI
      exact this.1
    have hmin : tmin (0 : τ) sg.tEnd = 0 := tmin_left (le_of_lt hT)
    cases rest with
    | nil => simp [arcFrom, hmin, habs, hw]
    | cons b r => simp [arcFrom, hmin, habs, hw, le_of_lt hT]

/-- hypothesis of the constant-velocity theorems: K equal control velocities `s·v` give `exp(K u s · v)` -/
def ConstVelKer (C : Ker τ G W) (expo : τ → W → G) : Prop :=
  ∀ (s : τ) (v : W) (u : τ), C.c (List.replicate C.K (C.wsmul s v)) u = expo ((C.K : τ) * u * s) v

/-! ### make_local -/

/-- `make_local()` only resets `m_g0`: on the first segment the curve is left-translated by `x.start()⁻¹`
    (same velocity / acceleration), from the first knot on it is UNCHANGED (the stored end points are kept),
    and so are `t_max` and `end()`. -/
theorem makeLocal_spec (hK : GroupKer C) (x : Spline τ G W) (sg : Seg τ G W) (post : List (Seg τ G W))
    (hx : x.segs = sg :: post) (hI : Inv C x) :
    start (makeLocal C x) = 1 ∧ tMax (makeLocal C x) = tMax x ∧ endG (makeLocal C x) = endG x ∧
    (∀ t, 0 ≤ t → (t < sg.tEnd ∨ (post = [] ∧ t ≤ sg.tEnd)) →
      eval C (makeLocal C x) t = liftL x.g0⁻¹ (eval C x t)) ∧
    (∀ t, sg.tEnd ≤ t → post ≠ [] → eval C (makeLocal C x) t = eval C x t) := by
  have hI' : InvFrom C x.g0 0 (sg :: post) := by simpa [Inv, hx] using hI
  obtain ⟨hT, ⟨h0, hD, h1, hg⟩, hrest⟩ := hI'
  have hle : sg.tEnd ≤ tMax x := by rw [tMax_eq, hx]; exact InvFrom_le_lastT C _ _ _ hrest
  have hsegs : (makeLocal C x).segs = sg :: post := hx
  have htm : tMax (makeLocal C x) = tMax x := by rw [tMax_eq, tMax_eq, hsegs, hx]
  have hen : endG (makeLocal C x) = endG x := by rw [endG_eq, endG_eq, hsegs, hx]; rfl
  refine ⟨hK.one_eq, htm, hen, ?_, ?_⟩
  · intro t ht0 ht
    have htle : t ≤ tMax x := by
      rcases ht with h | ⟨_, h⟩
      · exact le_trans (le_of_lt h) hle
      · exact le_trans h hle
    rw [eval_inside _ (by rw [hsegs]; simp) ht0 (by rw [htm]; exact htle), eval_inside x (by rw [hx]; simp) ht0 htle, hsegs, hx]
    have e1 : ∀ g : G, evalFrom C g 0 (sg :: post) t = evalSeg C g 0 sg t := by
      intro g
      rcases ht with h | ⟨h, _⟩
      · exact evalFrom_cons_lt h
      · subst h; rfl
    rw [e1, e1]
    apply evalSeg_reparam hK rfl h0 h0
    · show (makeLocal C x).g0 * _ = _
      simp [makeLocal, hK.one_eq]
    · rfl
    · rfl
  · intro t ht hne
    have ht0 : (0 : τ) ≤ t := le_trans (le_of_lt hT) ht
    by_cases hout : tMax x < t
    · rw [eval_after _ ht0 (by rw [htm]; exact hout), eval_after x ht0 hout, hen]
    · have hin : t ≤ tMax x := not_lt.1 hout
      rw [eval_inside _ (by rw [hsegs]; simp) ht0 (by rw [htm]; exact hin), eval_inside x (by rw [hx]; simp) ht0 hin, hsegs, hx,
        evalFrom_cons_ge (not_lt.2 ht) hne, evalFrom_cons_ge (not_lt.2 ht) hne]

/-- on a spline that already starts at the identity `make_local()` is the identity operation -/
theorem makeLocal_of_identity (hK : GroupKer C) (x : Spline τ G W) (h : x.g0 = 1) : makeLocal C x = x := by
  cases x with
  | mk g0 segs => simp only [makeLocal, hK.one_eq]; simp at h; rw [h]

/-! ### FixedCubic end velocities -/

/-- with `c_V'(0) = 3·V₀` and `c_V'(1) = 3·V₂` (cubic cumulative Bernstein basis: `B̃₁'(0) = 3`, `B̃₃'(1) = 3`,
    all other `B̃ⱼ'` vanish there — C11 `basis_rows_are_derivatives`), FixedCubic has body velocity `va`
    at `t = 0` and `vb` at `t = T` -/
theorem fixedCubic_velocities [AddCommGroup W] [Module τ W] (hsm : ∀ (s : τ) (v : W), C.wsmul s v = s • v)
    (hdv : ∀ (v : W) (s : τ), C.wdivs v s = s⁻¹ • v)
    (hc0 : ∀ a b c : W, (C.cev [a, b, c] 0).2.1 = (3 : τ) • a) (hc1 : ∀ a b c : W, (C.cev [a, b, c] 1).2.1 = (3 : τ) • c)
    (gb : G) (va vb : W) {T : τ} (hT : 0 < T) (ga : G) :
    (eval C (fixedCubic C gb va vb T ga) 0).2.1 = va ∧ (eval C (fixedCubic C gb va vb T ga) T).2.1 = vb := by
  have hne : T ≠ 0 := ne_of_gt hT
  have hs : ∀ w : W, ((1 : τ) / T) • (3 : τ) • (3 : τ)⁻¹ • T • w = w := by
    intro w
    rw [smul_smul, smul_smul, smul_smul]
    have : (1 : τ) / T * 3 * 3⁻¹ * T = 1 := by field_simp
    rw [this, one_smul]
  have e0 := eval_inside (C := C) (fixedCubic C gb va vb T ga) (t := 0) (by simp [fixedCubic, ctor]) (le_refl _)
    (by simpa [tMax, fixedCubic, ctor] using le_of_lt hT)
  have eT := eval_inside (C := C) (fixedCubic C gb va vb T ga) (t := T) (by simp [fixedCubic, ctor]) (le_of_lt hT)
    (by simp [tMax, fixedCubic, ctor])
  constructor
  · rw [e0]
    simp only [fixedCubic, ctor, evalFrom, evalSeg, tzero, tone, tofNat, sub_zero, zero_div, mul_zero, add_zero]
    rw [clamp01_id (le_refl _) zero_le_one, hc0, hsm, hdv, hsm]
    simpa using hs va
  · rw [eT]
    simp only [fixedCubic, ctor, evalFrom, evalSeg, tzero, tone, tofNat, sub_zero, zero_add, one_mul]
    rw [div_self hne, clamp01_id zero_le_one (le_refl _), hc1, hsm, hdv, hsm]
    simpa using hs vb

end C12
