/-
  C12More.lean — (i) the hypothesis of the constant-velocity law derived from the product formula of the
  cumulative spline and the basis identity Σⱼ B̃ⱼ(u) = K·u (C20.sum_cumulative); (ii) arclength(t ≤ 0) = 0.
-/
import SmoothProofs.C12Crop

set_option linter.unusedSectionVars false

open SplineSM SplineSM.TimeOps

namespace C12

variable {τ : Type} [Field τ] [LinearOrder τ] [IsStrictOrderedRing τ]
attribute [local instance] fieldTime
variable {G W : Type} [Group G] {C : Ker τ G W}

theorem prod_expo (expo : τ → W → G) (hzero : ∀ v, expo 0 v = 1) (hadd : ∀ a b v, expo (a + b) v = expo a v * expo b v)
    (f : Nat → τ) (v : W) (l : List Nat) : (l.map fun j => expo (f j) v).prod = expo (l.map f).sum v := by
  induction l with
  | nil => simp [hzero]
  | cons a r ih => simp [ih, hadd]

/-- `c_V(u) = Πⱼ exp(B̃ⱼ(u)·vⱼ)` with K equal velocities `s·v`, `exp` additive along the line of `v`, and
    `Σⱼ B̃ⱼ(u) = K·u` give `c_V(u) = exp(K·u·s·v)` — the hypothesis `hcv` of the constant-velocity law. -/
theorem constVel_of_product (expo : τ → W → G) (B : Nat → τ → τ)
    (hzero : ∀ v, expo 0 v = 1) (hadd : ∀ a b v, expo (a + b) v = expo a v * expo b v)
    (hsum : ∀ u, ((List.range C.K).map fun j => B j u).sum = (C.K : τ) * u)
    (hprod : ∀ (s : τ) (v : W) (u : τ), C.c (List.replicate C.K (C.wsmul s v)) u =
      ((List.range C.K).map fun j => expo (B j u * s) v).prod) :
    ∀ (s : τ) (v : W) (u : τ), C.c (List.replicate C.K (C.wsmul s v)) u = expo ((C.K : τ) * u * s) v := by
  intro s v u
  rw [hprod, prod_expo expo hzero hadd (fun j => B j u * s) v]
  congr 1
  rw [← hsum u]
  generalize List.range C.K = l
  induction l with
  | nil => simp
  | cons a r ih => simp [ih, add_mul]

/-- `arclength(t) = 0` for `t ≤ 0` (after the clamp `t = max(t, 0)`): the only term is an integral over the
    empty parameter interval `[T0, T0]` -/
theorem arclength_nonpos' (s : Spline τ G W) (hI : Inv C s) (habs : ∀ V (a : τ), C.absint V a a = C.wzero)
    (hw : C.wadd C.wzero C.wzero = C.wzero) {t : τ} (ht : t ≤ 0) : arclength C s t = C.wzero := by
  have h0 : tmax t (TimeOps.zero : τ) = 0 := by
    unfold tmax
    simp only [tzero]
    split
    · rfl
    · rename_i h; exact le_antisymm ht (not_lt.1 h)
  unfold arclength
  rw [h0]
  cases hs : s.segs with
  | nil => rfl
  | cons sg rest =>
    have hT : (0 : τ) < sg.tEnd := by
      have : InvFrom C s.g0 0 (sg :: rest) := by simpa [Inv, hs] using hI
      exact this.1
    have hmin : tmin (0 : τ) sg.tEnd = 0 := tmin_left (le_of_lt hT)
    cases rest with
    | nil => simp [arcFrom, hmin, habs, hw]
    | cons b r => simp [arcFrom, hmin, habs, hw, le_of_lt hT]

end C12
