/-
  BundleTie.lean — lemmas about the fixed meaning table SmoothModel/BundleSem.lean, used by the source tie
  SmoothProps/SrcTieBundle.lean (tools/gen_bundle.py): prefix sums (`array_psum` statement by statement, entries of the
  prefix sums of a `cons`), and the induction principle for `static_for` loops over the parts of a Bundle: the loop for
  `p :: ps` is the write of part 0 followed by the loop for `ps` run on the buffers shifted by the size of `p`
  (`loopV_step`, `loopM_step`, `liftV`, `liftM`).  No arithmetic law of the scalar is used (any `[Scalar α]`).
-/
import SmoothModel.BundleSem
import SmoothModel.BaseSem
open Scalar Lin BundleSem
set_option linter.unusedSectionVars false
set_option linter.unusedSimpArgs false

namespace BundleTie
variable {α : Type} [Scalar α]

theorem partialSumFrom_shift (x acc : Nat) (l : List Nat) :
    partialSumFrom (x + acc) l = (partialSumFrom acc l).map (fun s => x + s) := by
  induction l generalizing acc with
  | nil => rfl
  | cons y ys ih => simp [partialSumFrom, ih, Nat.add_assoc]

theorem partialSum_length (l : List Nat) : (partialSum l).length = l.length := by
  have h : ∀ acc (l : List Nat), (partialSumFrom acc l).length = l.length := by
    intro acc l
    induction l generalizing acc with
    | nil => rfl
    | cons y ys ih => simp [partialSumFrom, ih]
  cases l with
  | nil => rfl
  | cons x xs => simp [partialSum, h]

theorem writeFrom_replicate (pre : List Nat) (vs : List Nat) (n : Nat) (h : vs.length ≤ n) :
    writeFrom (pre ++ List.replicate n 0) pre.length vs = pre ++ vs ++ List.replicate (n - vs.length) 0 := by
  induction vs generalizing pre n with
  | nil => simp [writeFrom]
  | cons v vs ih =>
    cases n with
    | zero => simp at h
    | succ n =>
      have h' : vs.length ≤ n := by simpa using h
      simp only [writeFrom]
      have e : (pre ++ List.replicate (n + 1) 0).set pre.length v = (pre ++ [v]) ++ List.replicate n 0 := by
        simp [List.replicate_succ]
      rw [e]
      have := ih (pre ++ [v]) n h'
      simp only [List.length_append, List.length_cons, List.length_nil, Nat.zero_add] at this
      rw [this]
      simp

/-- what the three statements of `array_psum` compute -/
theorem psum_steps (x : List Nat) :
    writeFrom (setAt (newArray (sizeofPack x + 1)) 0 0) 1 (partialSum x) = 0 :: partialSum x := by
  have e : setAt (newArray (sizeofPack x + 1)) 0 0 = [0] ++ List.replicate x.length 0 := by
    simp [setAt, newArray, sizeofPack, List.replicate_succ]
  rw [e]
  have := writeFrom_replicate [0] (partialSum x) x.length (by rw [partialSum_length]; exact Nat.le_refl _)
  simp only [List.length_cons, List.length_nil, Nat.zero_add] at this
  rw [this, partialSum_length]
  simp

theorem partialSum_cons (x : Nat) (xs : List Nat) :
    partialSum (x :: xs) = x :: (partialSum xs).map (fun s => x + s) := by
  cases xs with
  | nil => rfl
  | cons y ys =>
    simp only [partialSum, partialSumFrom, List.map_cons]
    have := partialSumFrom_shift x y ys
    rw [this]

/-! ### shifting buffers -/
def shiftV (x : Nat) (v : VBuf α) : VBuf α := fun k => v (x + k)
def shiftM (x y : Nat) (M : MBuf α) : MBuf α := fun r c => M (x + r) (y + c)

/-- run a buffer transformer on the part of the buffer that starts at `x` -/
def liftV (x : Nat) (T : VBuf α → VBuf α) (out : VBuf α) : VBuf α :=
  fun k => if k < x then out k else T (shiftV x out) (k - x)
def liftM (x y : Nat) (T : MBuf α → MBuf α) (out : MBuf α) : MBuf α :=
  fun r c => if r < x ∨ c < y then out r c else T (shiftM x y out) (r - x) (c - y)

theorem shiftV_liftV (x : Nat) (T : VBuf α → VBuf α) (out : VBuf α) : shiftV x (liftV x T out) = T (shiftV x out) := by
  funext k
  have h : ¬ (x + k < x) := by omega
  simp [shiftV, liftV, h]

theorem liftV_comp (x : Nat) (F G : VBuf α → VBuf α) (out : VBuf α) :
    liftV x F (liftV x G out) = liftV x (fun o => F (G o)) out := by
  funext k
  by_cases h : k < x
  · simp [liftV, h]
  · simp only [liftV, h, if_false]
    rw [shiftV_liftV]

theorem staticFor_liftV (x n : Nat) (T : Nat → VBuf α → VBuf α) (out : VBuf α) :
    staticFor n (fun i => liftV x (T i)) out = liftV x (staticFor n T) out := by
  induction n generalizing T out with
  | zero =>
    funext k
    by_cases h : k < x
    · simp [staticFor, liftV, h]
    · simp only [staticFor, liftV, h, if_false, shiftV]; congr 1; omega
  | succ n ih =>
    simp only [staticFor]
    rw [ih (fun i => T (i + 1)), liftV_comp]

theorem shiftM_liftM (x y : Nat) (T : MBuf α → MBuf α) (out : MBuf α) : shiftM x y (liftM x y T out) = T (shiftM x y out) := by
  funext r c
  have h : ¬ (x + r < x ∨ y + c < y) := by omega
  simp [shiftM, liftM, h]

theorem liftM_comp (x y : Nat) (F G : MBuf α → MBuf α) (out : MBuf α) :
    liftM x y F (liftM x y G out) = liftM x y (fun o => F (G o)) out := by
  funext r c
  by_cases h : r < x ∨ c < y
  · simp [liftM, h]
  · simp only [liftM, h, if_false]
    rw [shiftM_liftM]

theorem staticFor_liftM (x y n : Nat) (T : Nat → MBuf α → MBuf α) (out : MBuf α) :
    staticFor n (fun i => liftM x y (T i)) out = liftM x y (staticFor n T) out := by
  induction n generalizing T out with
  | zero =>
    funext r c
    by_cases h : r < x ∨ c < y
    · simp [staticFor, liftM, h]
    · simp only [staticFor, liftM, h, if_false, shiftM]
      have h' : ¬ r < x ∧ ¬ c < y := by simpa [not_or] using h
      congr 1 <;> omega
  | succ n ih =>
    simp only [staticFor]
    rw [ih (fun i => T (i + 1)), liftM_comp]

/-! ### views and copies under a shift -/
theorem viewSegment_shift (v : VBuf α) (x len off : Nat) :
    viewSegment v len (x + off) = viewSegment (shiftV x v) len off := by
  funext k; simp [viewSegment, shiftV, Nat.add_assoc]

theorem viewBlock_shift (M : MBuf α) (x y nr nc r0 c0 : Nat) :
    viewBlock M nr nc (x + r0) (y + c0) = viewBlock (shiftM x y M) nr nc r0 c0 := by
  funext i j; simp [viewBlock, shiftM, Nat.add_assoc]

theorem copySegment_shift (out : VBuf α) (x len off : Nat) (src : VBuf α) :
    copySegment out len (x + off) src = liftV x (fun o => copySegment o len off src) out := by
  funext k
  by_cases h : k < x
  · have : ¬ (x + off ≤ k) := by omega
    simp [copySegment, liftV, h, this]
  · simp only [copySegment, liftV, h, if_false, shiftV]
    have e1 : (x + off ≤ k ∧ k < x + off + len) ↔ (off ≤ k - x ∧ k - x < off + len) := by omega
    by_cases h2 : x + off ≤ k ∧ k < x + off + len
    · rw [if_pos h2, if_pos (e1.1 h2)]; congr 1; omega
    · rw [if_neg h2, if_neg (fun h3 => h2 (e1.2 h3))]; congr 1; omega

theorem copyBlock_shift (out : MBuf α) (x y nr nc r0 c0 : Nat) (src : MBuf α) :
    copyBlock out nr nc (x + r0) (y + c0) src = liftM x y (fun o => copyBlock o nr nc r0 c0 src) out := by
  funext r c
  by_cases h : r < x ∨ c < y
  · have : ¬ (x + r0 ≤ r ∧ r < x + r0 + nr ∧ y + c0 ≤ c ∧ c < y + c0 + nc) := by omega
    simp [copyBlock, liftM, h, this]
  · simp only [copyBlock, liftM, h, if_false, shiftM]
    have h' : ¬ r < x ∧ ¬ c < y := by simpa [not_or] using h
    have e1 : (x + r0 ≤ r ∧ r < x + r0 + nr ∧ y + c0 ≤ c ∧ c < y + c0 + nc) ↔
        (r0 ≤ r - x ∧ r - x < r0 + nr ∧ c0 ≤ c - y ∧ c - y < c0 + nc) := by omega
    by_cases h2 : x + r0 ≤ r ∧ r < x + r0 + nr ∧ y + c0 ≤ c ∧ c < y + c0 + nc
    · rw [if_pos h2, if_pos (e1.1 h2)]; congr 1 <;> omega
    · rw [if_neg h2, if_neg (fun h3 => h2 (e1.2 h3))]; congr 1 <;> omega

/-! ### buffers of model vectors -/
theorem shiftV_ofVec {n m : Nat} (a : Vec α (n + m)) : shiftV n (ofVec a) = ofVec (Bundle.snd a) := by
  funext k
  simp only [shiftV, ofVec, Bundle.snd, Vec.of]
  by_cases h : k < m
  · have h' : n + k < n + m := by omega
    simp [h, h']
  · have h' : ¬ n + k < n + m := by omega
    simp [h, h']

theorem asVec_fst {n m : Nat} (a : Vec α (n + m)) : (asVec (viewSegment (ofVec a) n 0) : Vec α n) = Bundle.fst a := by
  apply Vec.ext'
  intro i
  have h1 : i.val < n := i.isLt
  have h2 : i.val < n + m := by omega
  simp [asVec, viewSegment, ofVec, Bundle.fst, Vec.of, h1, h2]

/-- the model result laid over the previous contents of the output buffer -/
def overV {n : Nat} (v : Vec α n) (init : VBuf α) : VBuf α := copySegment init n 0 (ofVec v)

theorem liftV_overV {n m : Nat} (L : Vec α n) (R : Vec α m) (init : VBuf α) :
    liftV n (overV R) (copySegment init n 0 (ofVec L)) = overV (vcat L R) init := by
  funext k
  simp only [liftV, overV, copySegment, shiftV, ofVec, vcat, Vec.of, Nat.zero_le, true_and, Nat.zero_add, Nat.sub_zero]
  by_cases h : k < n
  · have h2 : k < n + m := by omega
    simp [h, h2]
  · by_cases h3 : k - n < m
    · have h2 : k < n + m := by omega
      simp [h, h2, h3]
    · have h2 : ¬ k < n + m := by omega
      have h4 : ¬ (n + (k - n) < n) := by omega
      simp only [h, h2, h3, h4, if_false, dite_false]
      congr 1; omega


/-! ### entries of the prefix sums of a `cons` -/
theorem get_cons_zero (x : Nat) (xs : List Nat) : stdGet 0 (x :: xs) = x := rfl
theorem get_cons_succ (x : Nat) (xs : List Nat) (i : Nat) : stdGet (i + 1) (x :: xs) = stdGet i xs := rfl
theorem stdGet_eq_getD (i : Nat) (l : List Nat) : stdGet i l = l.getD i 0 := by
  induction l generalizing i with
  | nil => simp [stdGet]
  | cons x xs ih => cases i <;> simp [stdGet, ih]

theorem stdGet_map_add (x : Nat) (l : List Nat) (i : Nat) (h : i < l.length) :
    stdGet i (l.map (fun s => x + s)) = x + stdGet i l := by
  induction l generalizing i with
  | nil => simp at h
  | cons y ys ih =>
    cases i with
    | zero => rfl
    | succ j => exact ih j (by simpa using h)

theorem get_psum_zero (l : List Nat) : stdGet 0 (0 :: partialSum l) = 0 := rfl
theorem get_psum_succ (x : Nat) (xs : List Nat) (i : Nat) (h : i ≤ xs.length) :
    stdGet (i + 1) (0 :: partialSum (x :: xs)) = x + stdGet i (0 :: partialSum xs) := by
  rw [get_cons_succ, partialSum_cons]
  cases i with
  | zero => rfl
  | succ j =>
    have hj : j < (partialSum xs).length := by rw [partialSum_length]; omega
    exact stdGet_map_add x _ j hj

theorem getLastD_map_add (x : Nat) (ys : List Nat) (y : Nat) :
    (ys.map (fun s => x + s)).getLastD (x + y) = x + ys.getLastD y := by
  induction ys generalizing y with
  | nil => rfl
  | cons z zs ih => simp only [List.map_cons, List.getLastD_cons]; exact ih z

theorem back_psum_cons (x : Nat) (xs : List Nat) : back (0 :: partialSum (x :: xs)) = x + back (0 :: partialSum xs) := by
  rw [partialSum_cons]
  simp only [back, List.getLastD_cons]
  have := getLastD_map_add x (partialSum xs) 0
  simpa using this

theorem staticFor_congr {S : Type} (n : Nat) (f g : Nat → S → S) (h : ∀ i, i < n → f i = g i) (s : S) :
    staticFor n f s = staticFor n g s := by
  induction n generalizing f g s with
  | zero => rfl
  | succ n ih =>
    simp only [staticFor]
    rw [h 0 (by omega)]
    exact ih _ _ (fun i hi => h (i + 1) (by omega)) _


/-! ### buffers of model matrices -/
def overM {n m : Nat} (M : Mat α n m) (init : MBuf α) : MBuf α := copyBlock init n m 0 0 (ofMat M)

theorem shiftM_ofMat {n m : Nat} (M : Mat α (n + m) (n + m)) : shiftM n n (ofMat M) = ofMat (Bundle.br M) := by
  funext r c
  simp only [shiftM, ofMat, Bundle.br, Mat.of]
  by_cases h : r < m ∧ c < m
  · have h' : n + r < n + m ∧ n + c < n + m := by omega
    simp [h, h']
  · have h' : ¬ (n + r < n + m ∧ n + c < n + m) := by omega
    simp [h, h']

theorem asMat_tl {n m : Nat} (M : Mat α (n + m) (n + m)) :
    (asMat (viewBlock (ofMat M) n n 0 0) : Mat α n n) = Bundle.tl M := by
  apply Mat.ext'
  intro i j
  have h1 : i.val < n := i.isLt
  have h2 : j.val < n := j.isLt
  have h3 : i.val < n + m ∧ j.val < n + m := by omega
  simp [asMat, viewBlock, ofMat, Bundle.tl, Mat.of, h1, h2, h3]

theorem shiftM_setZeroM (x d : Nat) (W : MBuf α) :
    shiftM x x (setZeroM (x + d) (x + d) W) = setZeroM d d (shiftM x x W) := by
  funext r c
  simp only [shiftM, setZeroM]
  by_cases h : r < d ∧ c < d
  · have h' : x + r < x + d ∧ x + c < x + d := by omega
    simp [h, h']
  · have h' : ¬ (x + r < x + d ∧ x + c < x + d) := by omega
    simp [h, h']

theorem shiftM_copyBlock0 (x : Nat) (W src : MBuf α) : shiftM x x (copyBlock W x x 0 0 src) = shiftM x x W := by
  funext r c
  have h : ¬ (0 ≤ x + r ∧ x + r < 0 + x ∧ 0 ≤ x + c ∧ x + c < 0 + x) := by omega
  simp only [shiftM, copyBlock, h, if_false]

/-- the induction step of a block-diagonal matrix-valued loop: part 0 written into the zeroed output, then the loop of the
    remaining parts (which, by the induction hypothesis `hF`, lays `R` over its zeroed output) on the shifted buffer -/
theorem stepM_bdiag {x d : Nat} (L : Mat α x x) (R : Mat α d d) (F : MBuf α → MBuf α)
    (hF : ∀ W, F (setZeroM d d W) = overM R W) (init : MBuf α) :
    liftM x x F (copyBlock (setZeroM (x + d) (x + d) init) x x 0 0 (ofMat L)) = overM (Bundle.bdiag L R) init := by
  funext r c
  simp only [liftM]
  rw [shiftM_copyBlock0, shiftM_setZeroM, hF]
  simp only [overM, copyBlock, setZeroM, shiftM, ofMat, Bundle.bdiag, Mat.of, Nat.zero_le, true_and, Nat.zero_add, Nat.sub_zero]
  by_cases hr : r < x
  · by_cases hc : c < x
    · have h1 : r < x + d ∧ c < x + d := by omega
      simp [hr, hc, h1]
    · by_cases hc2 : c < x + d
      · have h1 : r < x + d ∧ c < x + d := by omega
        simp [hr, hc, h1]
      · have h1 : ¬ (r < x + d ∧ c < x + d) := by omega
        simp [hr, hc, h1]
  · by_cases hc : c < x
    · by_cases hr2 : r < x + d
      · have h1 : r < x + d ∧ c < x + d := by omega
        simp [hr, hc, h1]
      · have h1 : ¬ (r < x + d ∧ c < x + d) := by omega
        simp [hr, hc, h1]
    · by_cases h2 : r - x < d ∧ c - x < d
      · have h1 : r < x + d ∧ c < x + d := by omega
        simp [hr, hc, h1, h2]
      · have h1 : ¬ (r < x + d ∧ c < x + d) := by omega
        have e1 : x + (r - x) = r := by omega
        have e2 : x + (c - x) = c := by omega
        simp [hr, hc, h1, h2, e1, e2]

theorem copyBlock_identBuf (W : MBuf α) (x r0 c0 : Nat) :
    copyBlock W x x r0 c0 identBuf = copyBlock W x x r0 c0 (ofMat (ident x)) := by
  funext r c
  simp only [copyBlock, identBuf, ofMat, ident, Mat.of]
  by_cases h : r0 ≤ r ∧ r < r0 + x ∧ c0 ≤ c ∧ c < c0 + x
  · have h' : r - r0 < x ∧ c - c0 < x := by omega
    simp [h, h', Fin.ext_iff]
  · simp [h]

theorem copyBlock_mzero (init : MBuf α) (x d : Nat) :
    copyBlock (setZeroM (x + d) (x + d) init) x x 0 0 (ofMat (mzero x x)) = setZeroM (x + d) (x + d) init := by
  funext r c
  simp only [copyBlock, setZeroM, ofMat, mzero, Mat.of, Nat.zero_le, true_and, Nat.zero_add, Nat.sub_zero]
  by_cases h : r < x ∧ c < x
  · have h' : r < x + d ∧ c < x + d := by omega
    simp [h, h']
  · simp [h]

theorem loopV_step (x n : Nat) (B T : Nat → VBuf α → VBuf α) (hs : ∀ i, i < n → B (i + 1) = liftV x (T i)) (init : VBuf α) :
    staticFor (n + 1) B init = liftV x (staticFor n T) (B 0 init) := by
  simp only [staticFor]
  rw [staticFor_congr n (fun i => B (i + 1)) (fun i => liftV x (T i)) hs, staticFor_liftV]

theorem loopM_step (x y n : Nat) (B T : Nat → MBuf α → MBuf α) (hs : ∀ i, i < n → B (i + 1) = liftM x y (T i)) (init : MBuf α) :
    staticFor (n + 1) B init = liftM x y (staticFor n T) (B 0 init) := by
  simp only [staticFor]
  rw [staticFor_congr n (fun i => B (i + 1)) (fun i => liftM x y (T i)) hs, staticFor_liftM]

end BundleTie
