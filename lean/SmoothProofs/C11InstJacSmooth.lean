/-
  C11InstJacSmooth.lean — the Jacobian recursion of `cspline_eval_dg_dvs` (C11Jac.lean) in the concrete
  differential algebra `SM n` of C11InstSmooth.lean, now with the variable `ε` = size of a variation
  of the differences: `v_i(ε) = v_i + ε·w_i`.

  A factor is `E(ε) = exp(b₀ • (A + ε • W))` (`A = hat v`, `W = hat w`, `b₀, b₁, b₂` the (constant in ε)
  basis values).  `R := E⁻¹·δE` and `Rm := E·R·E⁻¹` make it a `C11.VFactor` with no further
  hypothesis; `jgood_foldl` then gives `HasDerivAt` statements for the pointwise loop `jcurveAt`.
-/
import SmoothProofs.C11InstSmooth
import SmoothProofs.C11Jac

open NormedSpace
open scoped ContDiff

namespace C11

attribute [local instance] Matrix.linftyOpNormedRing Matrix.linftyOpNormedAlgebra

/-- data of one factor for a variation: `V(ε) = A + ε•W`, basis values `b₀, b₁, b₂` -/
structure VData (n : ℕ) where
  A : Mx n
  W : Mx n
  b0 : ℝ
  b1 : ℝ
  b2 : ℝ

namespace VData
variable {n : ℕ} (F : VData n)

/-- `V(ε) = A + ε • W` -/
def Vat (ε : ℝ) : Mx n := F.A + ε • F.W

theorem contDiff_Vat : ContDiff ℝ ∞ F.Vat := by
  unfold Vat
  exact contDiff_const.add (contDiff_id.smul contDiff_const)

/-- `E(ε) = exp(b₀ • V(ε))` -/
noncomputable def Eat (ε : ℝ) : Mx n := NormedSpace.exp (F.b0 • F.Vat ε)
/-- `E(ε)⁻¹ = exp(−b₀ • V(ε))` -/
noncomputable def Eiat (ε : ℝ) : Mx n := NormedSpace.exp (-(F.b0 • F.Vat ε))

theorem contDiff_bV : ContDiff ℝ ∞ (fun ε => F.b0 • F.Vat ε) :=
  F.contDiff_Vat.const_smul F.b0

theorem contDiff_Eat : ContDiff ℝ ∞ F.Eat :=
  (contDiff_exp_mx n).comp F.contDiff_bV

theorem contDiff_Eiat : ContDiff ℝ ∞ F.Eiat :=
  (contDiff_exp_mx n).comp F.contDiff_bV.neg

noncomputable def Vs : SM n := ⟨F.Vat, F.contDiff_Vat⟩
noncomputable def Es : SM n := ⟨F.Eat, F.contDiff_Eat⟩
noncomputable def Eis : SM n := ⟨F.Eiat, F.contDiff_Eiat⟩
noncomputable def Rs : SM n := F.Eis * (dU n).D F.Es
noncomputable def Rms : SM n := F.Es * F.Rs * F.Eis

theorem Es_Eis : F.Es * F.Eis = 1 := by
  apply Subtype.ext; funext ε
  exact mx_exp_mul_exp_neg _

theorem Eis_Es : F.Eis * F.Es = 1 := by
  apply Subtype.ext; funext ε
  exact mx_exp_neg_mul_exp _

theorem hasDerivAt_Vat (ε : ℝ) : HasDerivAt F.Vat F.W ε := by
  have h := ((hasDerivAt_id ε).smul_const F.W).const_add F.A
  rw [one_smul] at h
  exact h

/-- the factor with its variation data in the smooth ring -/
noncomputable def toVFactor : VFactor (SM n) (dU n) where
  E := F.Es
  Ei := F.Eis
  V := F.Vs
  c1 := SM.const (algebraMap ℝ (Mx n) F.b1)
  c2 := SM.const (algebraMap ℝ (Mx n) F.b2)
  R := F.Rs
  Rm := F.Rms
  W := SM.const F.W
  E_Ei := F.Es_Eis
  Ei_E := F.Eis_Es
  δE := by
    unfold Rs
    rw [← mul_assoc, F.Es_Eis, one_mul]
  δV := by
    apply Subtype.ext; funext ε
    exact (F.hasDerivAt_Vat ε).deriv
  δc1 := by
    apply Subtype.ext; funext ε
    exact deriv_const ε _
  δc2 := by
    apply Subtype.ext; funext ε
    exact deriv_const ε _
  conj := by
    unfold Rms
    calc F.Eis * (F.Es * F.Rs * F.Eis) * F.Es = (F.Eis * F.Es) * F.Rs * (F.Eis * F.Es) := by noncomm_ring
      _ = F.Rs := by rw [F.Eis_Es, one_mul, mul_one]

/-- `R(ε) = E⁻¹·dE/dε` -/
noncomputable def Rat (ε : ℝ) : Mx n := F.Eiat ε * deriv F.Eat ε
/-- `Rm(ε) = E·R·E⁻¹` -/
noncomputable def Rmat (ε : ℝ) : Mx n := F.Eat ε * F.Rat ε * F.Eiat ε

/-- the loop body of `cspline_eval_dg_dvs` for this factor at the point `ε`, in the matrix ring -/
noncomputable def stepJAt (ε : ℝ) (s : JState (Mx n)) : JState (Mx n) :=
  stepJFormula (F.Eat ε) (F.Eiat ε) (F.Vat ε) (algebraMap ℝ (Mx n) F.b1) (algebraMap ℝ (Mx n) F.b2)
    (F.Rat ε) (F.Rmat ε) F.W s

end VData

/-- evaluation of a Jacobian-loop state of smooth functions at a point -/
def evalJ {n : ℕ} (ε : ℝ) (s : JState (SM n)) : JState (Mx n) :=
  ⟨s.g.1 ε, s.gi.1 ε, s.vel.1 ε, s.acc.1 ε, s.X.1 ε, s.Y.1 ε, s.Z.1 ε⟩

theorem evalJ_stepJ {n : ℕ} (F : VData n) (ε : ℝ) (s : JState (SM n)) :
    evalJ ε (stepJ F.toVFactor s) = F.stepJAt ε (evalJ ε s) := rfl

noncomputable def jcurveSM {n : ℕ} (l : List (VData n)) : JState (SM n) :=
  l.foldl (fun s F => stepJ F.toVFactor s) initJ

/-- the pointwise Jacobian loop -/
noncomputable def jcurveAt {n : ℕ} (l : List (VData n)) (ε : ℝ) : JState (Mx n) :=
  l.foldl (fun s F => F.stepJAt ε s) initJ

theorem evalJ_foldl {n : ℕ} (ε : ℝ) (l : List (VData n)) (s : JState (SM n)) :
    evalJ ε (l.foldl (fun s F => stepJ F.toVFactor s) s) = l.foldl (fun s F => F.stepJAt ε s) (evalJ ε s) := by
  induction l generalizing s with
  | nil => rfl
  | cons F l ih => simp only [List.foldl_cons]; rw [ih, evalJ_stepJ]

theorem evalJ_jcurveSM {n : ℕ} (l : List (VData n)) (ε : ℝ) : evalJ ε (jcurveSM l) = jcurveAt l ε := by
  unfold jcurveSM jcurveAt
  rw [evalJ_foldl]
  rfl

theorem jcurveSM_good {n : ℕ} (l : List (VData n)) : JGood (dU n) (jcurveSM l) := by
  have h := jgood_foldl (l.map VData.toVFactor) initJ (jgood_init (δ := dU n))
  rw [List.foldl_map] at h
  exact h

/-- **value Jacobian**: `d/dε g = g · X` -/
theorem jcurveAt_hasDerivAt_g {n : ℕ} (l : List (VData n)) (ε : ℝ) :
    HasDerivAt (fun ε => (jcurveAt l ε).g) ((jcurveAt l ε).g * (jcurveAt l ε).X) ε := by
  have hgood := jcurveSM_good l
  have hfun : (fun ε => (jcurveAt l ε).g) = (jcurveSM l).g.1 := by
    funext ε; rw [← evalJ_jcurveSM]; rfl
  have hd := SM.hasDerivAt (jcurveSM l).g ε
  have hv : (jcurveAt l ε).X = (jcurveSM l).gi.1 ε * deriv (jcurveSM l).g.1 ε := by
    rw [← evalJ_jcurveSM]
    show (jcurveSM l).X.1 ε = _
    rw [hgood.X]; rfl
  have hg : (jcurveAt l ε).g = (jcurveSM l).g.1 ε := by rw [← evalJ_jcurveSM]; rfl
  have hone : (jcurveSM l).g.1 ε * (jcurveSM l).gi.1 ε = 1 := by
    have := congrArg (fun f : SM n => f.1 ε) hgood.g_gi
    exact this
  rw [hfun, hv, hg, ← mul_assoc, hone, one_mul]
  exact hd

/-- **velocity Jacobian**: `d/dε vel = Y` -/
theorem jcurveAt_hasDerivAt_vel {n : ℕ} (l : List (VData n)) (ε : ℝ) :
    HasDerivAt (fun ε => (jcurveAt l ε).vel) ((jcurveAt l ε).Y) ε := by
  have hgood := jcurveSM_good l
  have hfun : (fun ε => (jcurveAt l ε).vel) = (jcurveSM l).vel.1 := by
    funext ε; rw [← evalJ_jcurveSM]; rfl
  have ha : (jcurveAt l ε).Y = deriv (jcurveSM l).vel.1 ε := by
    rw [← evalJ_jcurveSM]
    show (jcurveSM l).Y.1 ε = _
    rw [hgood.Y]; rfl
  rw [hfun, ha]
  exact SM.hasDerivAt _ ε

/-- **acceleration Jacobian**: `d/dε acc = Z` -/
theorem jcurveAt_hasDerivAt_acc {n : ℕ} (l : List (VData n)) (ε : ℝ) :
    HasDerivAt (fun ε => (jcurveAt l ε).acc) ((jcurveAt l ε).Z) ε := by
  have hgood := jcurveSM_good l
  have hfun : (fun ε => (jcurveAt l ε).acc) = (jcurveSM l).acc.1 := by
    funext ε; rw [← evalJ_jcurveSM]; rfl
  have ha : (jcurveAt l ε).Z = deriv (jcurveSM l).acc.1 ε := by
    rw [← evalJ_jcurveSM]
    show (jcurveSM l).Z.1 ε = _
    rw [hgood.Z]; rfl
  rw [hfun, ha]
  exact SM.hasDerivAt _ ε

/-- the `(g, vel, acc)` part of the Jacobian loop is the evaluation loop on the same factors -/
theorem jcurve_is_curve {n : ℕ} (ε : ℝ) (c3 : VData n → Mx n) (l : List (VData n)) (j : JState (Mx n))
    (a : AState (Mx n)) (h : j.g = a.g ∧ j.gi = a.gi ∧ j.vel = a.vel ∧ j.acc = a.acc) :
    let j' := l.foldl (fun s F => F.stepJAt ε s) j
    let a' := l.foldl (fun s (F : VData n) => stepFormula (F.Eat ε) (F.Eiat ε) (F.Vat ε)
      (algebraMap ℝ (Mx n) F.b1) (algebraMap ℝ (Mx n) F.b2) (c3 F) s) a
    j'.g = a'.g ∧ j'.gi = a'.gi ∧ j'.vel = a'.vel ∧ j'.acc = a'.acc := by
  induction l generalizing j a with
  | nil => exact h
  | cons F l ih =>
    simp only [List.foldl_cons]
    apply ih
    obtain ⟨h1, h2, h3, h4⟩ := h
    simp only [VData.stepJAt, stepJFormula, stepFormula, h1, h2, h3, h4]
    trivial

end C11
