/-
  C05dQ.lean — all 54 entries of the generated dQ table are the partial derivatives of `Qpoly`
  (A B C fixed) in the layout `dQ[r, 6·j + k] = ∂Q[j,r]/∂a_k`.
-/
import SmoothProofs.C05dQ0
import SmoothProofs.C05dQ1
import SmoothProofs.C05dQ2

open Lin Scalar
namespace C05dQ

theorem expands (A B C : ℝ) (a : Vec ℝ 6) (r : Fin 3) (c : Fin 18) : Expands A B C a r c := by
  fin_cases r
  · exact expands_row0 A B C a c
  · exact expands_row1 A B C a c
  · exact expands_row2 A B C a c

theorem dQ_entry_hasDerivAt (A B C : ℝ) (a : Vec ℝ 6) (j r : Fin 3) (k : Fin 6) :
    HasDerivAt (Qline A B C a k j r)
      ((SE3Gen.dQtab A B C (SE3.tv a) (SE3.tw a)) r
        ⟨6 * j.val + k.val, by have := j.isLt; have := k.isLt; omega⟩) 0 := by
  have hj := j.isLt
  have hk := k.isLt
  have h := expands A B C a r ⟨6 * j.val + k.val, by omega⟩
  have e1 : (⟨(6 * j.val + k.val) % 6, Nat.mod_lt _ (by decide)⟩ : Fin 6) = k := Fin.ext (by simp only []; omega)
  have e2 : (⟨(6 * j.val + k.val) / 6, by omega⟩ : Fin 3) = j := Fin.ext (by simp only []; omega)
  simp only [Expands, e1, e2] at h
  exact hasDerivAt_of_cubic_expansion h

/-- the model's `Q` (first component of `calculate_Q_dQ`) is `Qpoly` at the model's coefficients -/
theorem calculate_Q_eq_Qpoly (a : Vec ℝ 6) :
    (SE3.calculate_Q_dQ a).1
      = Qpoly (-(Trig.sin_3 (sqNorm (SE3.tw a)))) (Trig.cos_4 (sqNorm (SE3.tw a)))
          (-(Trig.sin_5 (sqNorm (SE3.tw a)))) (SE3.tv a) (SE3.tw a) := rfl

end C05dQ
