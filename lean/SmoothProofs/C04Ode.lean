/-
  C04Ode.lean — the right Jacobian of SO3 is `J(a) = ∫₀¹ Ad(exp(−s a)) ds`
  (equivalently `d/dt (t·J(t a)) = Ad(exp(−t a))`, `0·J(0) = 0`), the textbook definition that equals
  `Σ (−1)^k ad(a)^k/(k+1)!`.

  `F(u) = u·I + ((cos uθ − 1)/θ²)·â + ((uθ − sin uθ)/θ³)·â²` satisfies `F(0) = 0`,
  `F'(u) = Rod(u) := I − (sin uθ/θ)·â + ((1 − cos uθ)/θ²)·â²`, `F(1) = dr_exp a` (closed branch),
  `F(u) = u·dr_exp(u a)` and `Rod(u) = Ad(exp(−u a))` wherever the code is in its closed branch
  (`eps2 < u²θ²`).
-/
import SmoothProofs.C04SO3
import Mathlib.Analysis.SpecialFunctions.Trigonometric.Deriv
import Mathlib.Analysis.Calculus.Deriv.Mul
import Mathlib.Analysis.Calculus.Deriv.Add
import Mathlib.MeasureTheory.Integral.IntervalIntegral.FundThmCalculus
import Mathlib.Tactic.Continuity

open Lin Scalar

namespace C04Ode
open C04Alg C04SO3

/-- entry `(j, r)` of `u ↦ u·J(u a)` in closed form -/
noncomputable def F (a : Vec ℝ 3) (j r : Fin 3) (u : ℝ) : ℝ :=
  u * (ident 3 : Mat ℝ 3 3) j r
    + ((Real.cos (u * Real.sqrt (sqNorm a)) - 1) / sqNorm a) * (SO3.hat a) j r
    + ((u * Real.sqrt (sqNorm a) - Real.sin (u * Real.sqrt (sqNorm a)))
        / (sqNorm a * Real.sqrt (sqNorm a))) * (mmul (SO3.hat a) (SO3.hat a)) j r

/-- entry `(j, r)` of the Rodrigues rotation `exp(−u â)` -/
noncomputable def Rod (a : Vec ℝ 3) (j r : Fin 3) (u : ℝ) : ℝ :=
  (ident 3 : Mat ℝ 3 3) j r
    - (Real.sin (u * Real.sqrt (sqNorm a)) / Real.sqrt (sqNorm a)) * (SO3.hat a) j r
    + ((1 - Real.cos (u * Real.sqrt (sqNorm a))) / sqNorm a) * (mmul (SO3.hat a) (SO3.hat a)) j r

theorem F_zero (a : Vec ℝ 3) (j r : Fin 3) : F a j r 0 = 0 := by
  simp [F]

theorem F_one (a : Vec ℝ 3) (h : Scalar.eps2 < sqNorm a) (j r : Fin 3) :
    F a j r 1 = (SO3.dr_exp a) j r := by
  rw [dr_exp_closed a h]
  simp only [F, poly2, Mat.of_get, αr, βr, one_mul]
  ring

theorem hasDerivAt_F (a : Vec ℝ 3) (hn : 0 < sqNorm a) (j r : Fin 3) (u : ℝ) :
    HasDerivAt (F a j r) (Rod a j r u) u := by
  have hθ : Real.sqrt (sqNorm a) ≠ 0 := (Real.sqrt_pos.2 hn).ne'
  have hsq : Real.sqrt (sqNorm a) ^ 2 = sqNorm a := Real.sq_sqrt hn.le
  have hl : HasDerivAt (fun u : ℝ => u * Real.sqrt (sqNorm a)) (Real.sqrt (sqNorm a)) u := by
    simpa using (hasDerivAt_id u).mul_const (Real.sqrt (sqNorm a))
  have h1 := (hasDerivAt_id u).mul_const ((ident 3 : Mat ℝ 3 3) j r)
  have h2 := ((hl.cos.sub_const 1).div_const (sqNorm a)).mul_const ((SO3.hat a) j r)
  have h3 := ((hl.sub hl.sin).div_const (sqNorm a * Real.sqrt (sqNorm a))).mul_const
    ((mmul (SO3.hat a) (SO3.hat a)) j r)
  have h := (h1.add h2).add h3
  refine h.congr_deriv ?_
  simp only [Rod]
  rw [← hsq]
  simp only [Real.sqrt_sq (Real.sqrt_nonneg (sqNorm a))]
  field_simp
  ring

theorem continuous_Rod (a : Vec ℝ 3) (j r : Fin 3) : Continuous (Rod a j r) := by
  unfold Rod
  continuity

/-- `J(a)[j,r] = ∫₀¹ Rod(s)[j,r] ds` in the closed branch -/
theorem drExp_eq_integral (a : Vec ℝ 3) (h : Scalar.eps2 < sqNorm a) (j r : Fin 3) :
    (SO3.dr_exp a) j r = ∫ s in (0:ℝ)..1, Rod a j r s := by
  have hn : 0 < sqNorm a := lt_trans eps2_pos h
  have := intervalIntegral.integral_eq_sub_of_hasDerivAt
    (f := F a j r) (f' := Rod a j r) (a := 0) (b := 1)
    (fun u _ => hasDerivAt_F a hn j r u) ((continuous_Rod a j r).intervalIntegrable 0 1)
  rw [this, F_zero, F_one a h, sub_zero]

theorem sqNorm_vsmul (u : ℝ) (a : Vec ℝ 3) : sqNorm (vsmul u a) = u ^ 2 * sqNorm a := by
  simp only [sqNorm3, vsmul, Vec.of_get]; ring

theorem sqrt_scaled (u : ℝ) {n : ℝ} (_hn : 0 ≤ n) : Real.sqrt (u ^ 2 * n) = |u| * Real.sqrt n := by
  rw [Real.sqrt_mul (sq_nonneg u), Real.sqrt_sq_eq_abs]

theorem hat_vsmul (u : ℝ) (a : Vec ℝ 3) (i j : Fin 3) :
    (SO3.hat (vsmul u a)) i j = u * (SO3.hat a) i j := by
  fin_cases i <;> fin_cases j <;> simp [SO3.hat, vsmul, mat3]

/-- where the code is in its closed branch, `Rod u` is the model's `Ad (exp (−u a))` -/
theorem Rod_eq_Ad_exp (a : Vec ℝ 3) (u : ℝ) (h : Scalar.eps2 < sqNorm (vsmul u a)) (j r : Fin 3) :
    Rod a j r u = (SO3.Ad (SO3.exp (vneg (vsmul u a)))) j r := by
  have hm : Scalar.eps2 < sqNorm (vneg (vsmul u a)) := by rw [sqNorm3_neg]; exact h
  have hpos : 0 < u ^ 2 * sqNorm a := by rw [← sqNorm_vsmul]; exact lt_trans eps2_pos h
  have hu : u ≠ 0 := by
    rintro rfl
    simp at hpos
  have hn : 0 < sqNorm a := by
    have : 0 < u ^ 2 := by positivity
    exact (mul_pos_iff_of_pos_left this).1 hpos
  have hθ : Real.sqrt (sqNorm a) ≠ 0 := (Real.sqrt_pos.2 hn).ne'
  have hsq : Real.sqrt (sqNorm a) ^ 2 = sqNorm a := Real.sq_sqrt hn.le
  rw [SO3.Ad, matrix_exp_closed _ hm]
  simp only [poly2, Mat.of_get, C04Alg.mmul3, hat_neg, hat_vsmul, sqNorm3_neg, sqNorm_vsmul, ρr, σr,
    sqrt_scaled u hn.le, Rod]
  rcases abs_cases u with ⟨e, _⟩ | ⟨e, _⟩
  · rw [e]
    rw [← hsq]
    simp only [Real.sqrt_sq (Real.sqrt_nonneg (sqNorm a))]
    field_simp
    ring
  · rw [e, neg_mul, Real.sin_neg, Real.cos_neg]
    rw [← hsq]
    simp only [Real.sqrt_sq (Real.sqrt_nonneg (sqNorm a))]
    field_simp
    ring

/-- where the code is in its closed branch, `F u = u · dr_exp (u a)` -/
theorem F_eq_smul_drExp (a : Vec ℝ 3) (u : ℝ) (h : Scalar.eps2 < sqNorm (vsmul u a)) (j r : Fin 3) :
    F a j r u = u * (SO3.dr_exp (vsmul u a)) j r := by
  have hpos : 0 < u ^ 2 * sqNorm a := by rw [← sqNorm_vsmul]; exact lt_trans eps2_pos h
  have hu : u ≠ 0 := by
    rintro rfl
    simp at hpos
  have hn : 0 < sqNorm a := by
    have : 0 < u ^ 2 := by positivity
    exact (mul_pos_iff_of_pos_left this).1 hpos
  have hθ : Real.sqrt (sqNorm a) ≠ 0 := (Real.sqrt_pos.2 hn).ne'
  have hsq : Real.sqrt (sqNorm a) ^ 2 = sqNorm a := Real.sq_sqrt hn.le
  rw [dr_exp_closed _ h]
  simp only [poly2, Mat.of_get, C04Alg.mmul3, hat_vsmul, sqNorm_vsmul, αr, βr,
    sqrt_scaled u hn.le, F]
  rcases abs_cases u with ⟨e, _⟩ | ⟨e, _⟩
  · rw [e]
    rw [← hsq]
    simp only [Real.sqrt_sq (Real.sqrt_nonneg (sqNorm a))]
    field_simp
    ring
  · rw [e, neg_mul, Real.sin_neg, Real.cos_neg]
    rw [← hsq]
    simp only [Real.sqrt_sq (Real.sqrt_nonneg (sqNorm a))]
    field_simp
    ring

/-- the ODE on the model itself: `d/du (u·dr_exp(u a)) = Ad(exp(−t a))` at every `t` whose scaled
    argument is in the closed branch -/
theorem drExp_ode (a : Vec ℝ 3) (t : ℝ) (h : Scalar.eps2 < sqNorm (vsmul t a)) (j r : Fin 3) :
    HasDerivAt (fun u => u * (SO3.dr_exp (vsmul u a)) j r)
      ((SO3.Ad (SO3.exp (vneg (vsmul t a)))) j r) t := by
  have hpos : 0 < t ^ 2 * sqNorm a := by rw [← sqNorm_vsmul]; exact lt_trans eps2_pos h
  have hn : 0 < sqNorm a := by
    have ht : t ≠ 0 := by
      rintro rfl
      simp at hpos
    have : 0 < t ^ 2 := by positivity
    exact (mul_pos_iff_of_pos_left this).1 hpos
  rw [← Rod_eq_Ad_exp a t h]
  refine (hasDerivAt_F a hn j r t).congr_of_eventuallyEq ?_
  have hc : ContinuousAt (fun u : ℝ => sqNorm (vsmul u a)) t := by
    simp only [sqNorm_vsmul]
    apply Continuous.continuousAt
    continuity
  filter_upwards [hc.eventually (lt_mem_nhds h)] with u hu
  exact (F_eq_smul_drExp a u hu j r).symm

end C04Ode
