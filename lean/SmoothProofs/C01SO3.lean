/-
  C01SO3.lean — C01 for SO3 (unit quaternions, Eigen coefficient order x y z w).

  Route: `rotH q` is the homogeneous (degree-2) rotation matrix; `rotH (a·b) = rotH a · rotH b` for
  ALL quaternions by `ring`; `matrix q = rotH q + (1 − ‖q‖²)·1` entrywise, hence `matrix q = rotH q`
  under `Unit q`.  `matrix (−q) = matrix q`, so the sign canonicalisation in `composition` is
  invisible through `matrix`.
-/
import SmoothProofs.C01Group

open Lin Scalar

namespace SO3

/-- squared quaternion norm -/
def sqn (q : Vec ℝ 4) : ℝ := q 0 ^ 2 + q 1 ^ 2 + q 2 ^ 2 + q 3 ^ 2

/-- the representation constraint of SO3: unit quaternion -/
def Unit (q : Vec ℝ 4) : Prop := q 0 ^ 2 + q 1 ^ 2 + q 2 ^ 2 + q 3 ^ 2 = 1

/-- `Canon q`: the sign convention `q_w ≥ 0` -/
def Canon (q : Vec ℝ 4) : Prop := 0 ≤ q 3

/-- homogeneous rotation matrix of a quaternion (equals `‖q‖² · R(q/‖q‖)`) -/
def rotH (q : Vec ℝ 4) : Mat ℝ 3 3 :=
  let x := q 0; let y := q 1; let z := q 2; let w := q 3
  mat3 (w * w + x * x - y * y - z * z) (2 * (x * y - w * z)) (2 * (x * z + w * y))
       (2 * (x * y + w * z)) (w * w - x * x + y * y - z * z) (2 * (y * z - w * x))
       (2 * (x * z - w * y)) (2 * (y * z + w * x)) (w * w - x * x - y * y + z * z)

/-- `rotH` is multiplicative on all quaternions -/
theorem rotH_qmul (a b : Vec ℝ 4) : rotH (qmul a b) = mmul (rotH a) (rotH b) := by
  ext i j
  fin_cases i <;> fin_cases j <;>
    simp [rotH, qmul, mmul, mat3, mk4, vsum, Mat.of, Vec.of] <;> ring

/-- Eigen's `toRotationMatrix` differs from the homogeneous matrix by `(1 − ‖q‖²)·1` -/
theorem matrix_eq_rotH_add (q : Vec ℝ 4) (i j : Fin 3) :
    (SO3.matrix q) i j = (rotH q) i j + (1 - sqn q) * (ident 3 : Mat ℝ 3 3) i j := by
  fin_cases i <;> fin_cases j <;>
    simp [SO3.matrix, rotH, sqn, ident, mat3, Mat.of] <;> ring

theorem matrix_eq_rotH (q : Vec ℝ 4) (h : Unit q) : SO3.matrix q = rotH q := by
  ext i j
  have hs : sqn q = 1 := h
  rw [matrix_eq_rotH_add, hs]
  ring

/-- the quaternion norm is multiplicative -/
theorem sqn_qmul (a b : Vec ℝ 4) : sqn (qmul a b) = sqn a * sqn b := by
  simp only [sqn, qmul, mk4, Vec.of]
  show (a 3 * b 0 + a 0 * b 3 + a 1 * b 2 - a 2 * b 1) ^ 2
      + (a 3 * b 1 + a 1 * b 3 + a 2 * b 0 - a 0 * b 2) ^ 2
      + (a 3 * b 2 + a 2 * b 3 + a 0 * b 1 - a 1 * b 0) ^ 2
      + (a 3 * b 3 - a 0 * b 0 - a 1 * b 1 - a 2 * b 2) ^ 2 = _
  ring

theorem unit_qmul (a b : Vec ℝ 4) (ha : Unit a) (hb : Unit b) : Unit (qmul a b) := by
  have h := sqn_qmul a b
  have ha' : sqn a = 1 := ha
  have hb' : sqn b = 1 := hb
  rw [ha', hb', mul_one] at h
  exact h

/-- the sign flip of the model is negation -/
theorem flip_eq_vneg (q : Vec ℝ 4) : (Vec.of (fun i => q i * (-(nat 1 : ℝ))) : Vec ℝ 4) = vneg q := by
  ext i; simp [vneg]

theorem canon_eq_or (q : Vec ℝ 4) : canon q = q ∨ canon q = vneg q := by
  unfold canon
  split_ifs
  · right; exact flip_eq_vneg q
  · left; rfl

theorem canon_of_neg (q : Vec ℝ 4) (h : q 3 < 0) : canon q = vneg q := by
  unfold canon
  have h' : q 3 < (nat 0 : ℝ) := by simpa using h
  rw [if_pos h']
  exact flip_eq_vneg q

theorem canon_of_nonneg (q : Vec ℝ 4) (h : 0 ≤ q 3) : canon q = q := by
  unfold canon
  have h' : ¬ q 3 < (nat 0 : ℝ) := by simpa using h
  rw [if_neg h']

theorem sqn_vneg (q : Vec ℝ 4) : sqn (vneg q) = sqn q := by
  simp [sqn, vneg]

theorem matrix_vneg (q : Vec ℝ 4) : SO3.matrix (vneg q) = SO3.matrix q := by
  ext i j
  fin_cases i <;> fin_cases j <;>
    simp [SO3.matrix, vneg, mat3, Mat.of, Vec.of]

/-- the canonical sign does not change the matrix (for all quaternions) -/
theorem matrix_canon (q : Vec ℝ 4) : SO3.matrix (canon q) = SO3.matrix q := by
  rcases canon_eq_or q with h | h <;> rw [h]
  exact matrix_vneg q

theorem unit_vneg (q : Vec ℝ 4) (h : Unit q) : Unit (vneg q) := by
  have := sqn_vneg q
  have h' : sqn q = 1 := h
  rw [h'] at this
  exact this

theorem unit_canon (q : Vec ℝ 4) (h : Unit q) : Unit (canon q) := by
  rcases canon_eq_or q with h' | h' <;> rw [h']
  · exact h
  · exact unit_vneg q h

theorem canon_canon (q : Vec ℝ 4) : Canon (canon q) := by
  unfold Canon
  rcases lt_or_ge (q 3) 0 with h | h
  · rw [canon_of_neg q h]; simp [vneg]; exact h.le
  · rw [canon_of_nonneg q h]; exact h

theorem matrix_qmul (a b : Vec ℝ 4) (ha : Unit a) (hb : Unit b) :
    SO3.matrix (qmul a b) = mmul (SO3.matrix a) (SO3.matrix b) := by
  rw [matrix_eq_rotH _ (unit_qmul a b ha hb), matrix_eq_rotH a ha, matrix_eq_rotH b hb, rotH_qmul]

theorem matrix_composition (a b : Vec ℝ 4) (ha : Unit a) (hb : Unit b) :
    SO3.matrix (SO3.composition a b) = mmul (SO3.matrix a) (SO3.matrix b) := by
  unfold SO3.composition
  rw [matrix_canon, matrix_qmul a b ha hb]

theorem unit_composition (a b : Vec ℝ 4) (ha : Unit a) (hb : Unit b) : Unit (SO3.composition a b) :=
  unit_canon _ (unit_qmul a b ha hb)

theorem canon_composition (a b : Vec ℝ 4) : Canon (SO3.composition a b) := canon_canon _

theorem unit_identity : Unit (SO3.identity : Vec ℝ 4) := by
  simp [Unit, SO3.identity, mk4, Vec.of]

theorem matrix_identity : SO3.matrix (SO3.identity : Vec ℝ 4) = ident 3 := by
  ext i j
  fin_cases i <;> fin_cases j <;>
    simp [SO3.matrix, SO3.identity, ident, mat3, mk4, Mat.of, Vec.of]

theorem sqNorm_eq (g : Vec ℝ 4) : sqNorm g = sqn g := by
  simp [sqNorm, dot, vsum, sqn]; ring

/-- quaternion conjugate -/
def conj (g : Vec ℝ 4) : Vec ℝ 4 := mk4 (-(g 0)) (-(g 1)) (-(g 2)) (g 3)

/-- Eigen's `inverse()` (conjugate / squaredNorm) is the conjugate on unit quaternions -/
theorem inverse_of_unit (g : Vec ℝ 4) (h : Unit g) : SO3.inverse g = conj g := by
  have hs : sqNorm g = 1 := by rw [sqNorm_eq]; exact h
  unfold SO3.inverse
  simp only [hs]
  have : (nat 0 : ℝ) < 1 := by simp
  rw [if_pos this]
  ext i
  fin_cases i <;> simp [conj, mk4, Vec.of]

/-- for any non-zero quaternion: `inverse g = conj g / ‖g‖²` -/
theorem inverse_of_ne_zero (g : Vec ℝ 4) (h : sqn g ≠ 0) :
    SO3.inverse g = mk4 (-(g 0) / sqn g) (-(g 1) / sqn g) (-(g 2) / sqn g) (g 3 / sqn g) := by
  have hpos : (nat 0 : ℝ) < sqn g := by
    have h0 : 0 ≤ sqn g := by unfold sqn; positivity
    simpa using lt_of_le_of_ne h0 (Ne.symm h)
  unfold SO3.inverse
  simp only [sqNorm_eq, if_pos hpos]

theorem unit_conj (g : Vec ℝ 4) (h : Unit g) : Unit (conj g) := by
  unfold Unit at *
  simp only [conj, mk4, Vec.of]
  show (-(g 0)) ^ 2 + (-(g 1)) ^ 2 + (-(g 2)) ^ 2 + g 3 ^ 2 = 1
  linear_combination h

theorem unit_inverse (g : Vec ℝ 4) (h : Unit g) : Unit (SO3.inverse g) := by
  rw [inverse_of_unit g h]; exact unit_conj g h

/-- `q̄ q = ‖q‖²` and `q q̄ = ‖q‖²` -/
theorem qmul_conj_left (g : Vec ℝ 4) : qmul (conj g) g = mk4 0 0 0 (sqn g) := by
  ext i
  fin_cases i <;> simp [qmul, conj, sqn, mk4, Vec.of] <;> ring

theorem qmul_conj_right (g : Vec ℝ 4) : qmul g (conj g) = mk4 0 0 0 (sqn g) := by
  ext i
  fin_cases i <;> simp [qmul, conj, sqn, mk4, Vec.of] <;> ring

theorem identity_eq : (SO3.identity : Vec ℝ 4) = mk4 0 0 0 1 := by
  ext i; fin_cases i <;> simp [SO3.identity, mk4, Vec.of]

theorem matrix_inverse_left (g : Vec ℝ 4) (h : Unit g) :
    mmul (SO3.matrix (SO3.inverse g)) (SO3.matrix g) = ident 3 := by
  have hs : sqn g = 1 := h
  rw [inverse_of_unit g h, ← matrix_qmul _ _ (unit_conj g h) h, qmul_conj_left, hs, ← identity_eq,
    matrix_identity]

theorem matrix_inverse_right (g : Vec ℝ 4) (h : Unit g) :
    mmul (SO3.matrix g) (SO3.matrix (SO3.inverse g)) = ident 3 := by
  have hs : sqn g = 1 := h
  rw [inverse_of_unit g h, ← matrix_qmul _ _ h (unit_conj g h), qmul_conj_right, hs, ← identity_eq,
    matrix_identity]

/-- Eigen's `_transformVector` (`v + w·2(u×v) + u×(2(u×v))`) equals `toRotationMatrix · v`
    identically — no unit-norm hypothesis -/
theorem act_eq_matrix (g : Vec ℝ 4) (v : Vec ℝ 3) : SO3.act g v = mulVec (SO3.matrix g) v := by
  ext i
  fin_cases i <;>
    simp [SO3.act, SO3.matrix, cross, vadd, memoV_eq, mulVec, mat3, mk3, vsum, Mat.of, Vec.of] <;> ring

theorem isMatrixGroup : IsMatrixGroup (SO3.model : LieModel ℝ) Unit where
  valid_identity := unit_identity
  valid_composition := unit_composition
  valid_inverse := unit_inverse
  matrix_identity := matrix_identity
  matrix_composition := matrix_composition
  matrix_inverse_left := matrix_inverse_left
  matrix_inverse_right := matrix_inverse_right

/-! #### coefficient-level associativity up to the sign of the quaternion -/

theorem qmul_assoc (a b c : Vec ℝ 4) : qmul (qmul a b) c = qmul a (qmul b c) := by
  ext i
  fin_cases i <;> simp [qmul, mk4, Vec.of] <;> ring

theorem qmul_vneg_left (a b : Vec ℝ 4) : qmul (vneg a) b = vneg (qmul a b) := by
  ext i
  fin_cases i <;> simp [qmul, vneg, mk4, Vec.of] <;> ring

theorem qmul_vneg_right (a b : Vec ℝ 4) : qmul a (vneg b) = vneg (qmul a b) := by
  ext i
  fin_cases i <;> simp [qmul, vneg, mk4, Vec.of] <;> ring

theorem vneg_vneg (q : Vec ℝ 4) : vneg (vneg q) = q := by
  ext i; simp [vneg]

/-- `canon` forgets the sign of its argument unless `w = 0` -/
theorem canon_of_pm (p q : Vec ℝ 4) (h : q = p ∨ q = vneg p) (hw : p 3 ≠ 0) : canon q = canon p := by
  rcases h with h | h
  · rw [h]
  · rw [h]
    rcases lt_or_gt_of_ne hw with hlt | hgt
    · have h1 : 0 ≤ (vneg p) 3 := by simp [vneg]; exact hlt.le
      rw [canon_of_nonneg _ h1, canon_of_neg p hlt]
    · have h1 : (vneg p) 3 < 0 := by simp [vneg]; exact hgt
      rw [canon_of_neg _ h1, canon_of_nonneg p hgt.le, vneg_vneg]

theorem pm_canon (p q : Vec ℝ 4) (h : q = p ∨ q = vneg p) : canon q = p ∨ canon q = vneg p := by
  rcases canon_eq_or q with hc | hc <;> rcases h with h | h <;> rw [hc, h]
  · left; rfl
  · right; rfl
  · right; rfl
  · left; exact vneg_vneg p

/-- both bracketings are `± (a·b)·c` -/
theorem composition_left_pm (a b c : Vec ℝ 4) :
    qmul (SO3.composition a b) c = qmul (qmul a b) c ∨
    qmul (SO3.composition a b) c = vneg (qmul (qmul a b) c) := by
  unfold SO3.composition
  rcases canon_eq_or (qmul a b) with h | h <;> rw [h]
  · left; rfl
  · right; exact qmul_vneg_left _ _

theorem composition_right_pm (a b c : Vec ℝ 4) :
    qmul a (SO3.composition b c) = qmul (qmul a b) c ∨
    qmul a (SO3.composition b c) = vneg (qmul (qmul a b) c) := by
  unfold SO3.composition
  rw [qmul_assoc a b c]
  rcases canon_eq_or (qmul b c) with h | h <;> rw [h]
  · left; rfl
  · right; exact qmul_vneg_right _ _

/-- coefficient-level associativity holds exactly when the `w` of the triple product is non-zero -/
theorem composition_assoc_of_w_ne_zero (a b c : Vec ℝ 4) (hw : (qmul (qmul a b) c) 3 ≠ 0) :
    SO3.composition (SO3.composition a b) c = SO3.composition a (SO3.composition b c) := by
  show canon (qmul (SO3.composition a b) c) = canon (qmul a (SO3.composition b c))
  rw [canon_of_pm _ _ (composition_left_pm a b c) hw, canon_of_pm _ _ (composition_right_pm a b c) hw]

/-- in general the two bracketings agree up to the sign of the quaternion -/
theorem composition_assoc_pm (a b c : Vec ℝ 4) :
    SO3.composition (SO3.composition a b) c = SO3.composition a (SO3.composition b c) ∨
    SO3.composition (SO3.composition a b) c = vneg (SO3.composition a (SO3.composition b c)) := by
  have hl := pm_canon _ _ (composition_left_pm a b c)
  have hr := pm_canon _ _ (composition_right_pm a b c)
  show canon (qmul (SO3.composition a b) c) = canon (qmul a (SO3.composition b c)) ∨
    canon (qmul (SO3.composition a b) c) = vneg (canon (qmul a (SO3.composition b c)))
  rcases hl with hl | hl <;> rcases hr with hr | hr <;> rw [hl, hr]
  · left; rfl
  · right; exact (vneg_vneg _).symm
  · right; rfl
  · left; rfl

end SO3
