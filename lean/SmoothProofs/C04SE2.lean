/-
  C04SE2.lean — SE2 first-order Jacobians in the closed-form branch:
  `dr_exp a = I + α·ad + β·ad²`, `dr_expinv a = I + ad/2 + A·ad²`, product `= I`.
  (`Trig.cos_2/sin_3` take `θ²` and use `√θ² = |θ|`; both coefficients are even in θ.)
-/
import SmoothProofs.C04SO3

open Lin Scalar

namespace C04SE2
open C04Alg C04SO3

noncomputable def αe (θ : ℝ) : ℝ := (Real.cos θ - 1) / θ ^ 2
noncomputable def βe (θ : ℝ) : ℝ := -((Real.sin θ - θ) / (θ ^ 2 * θ))
noncomputable def Ae (θ : ℝ) : ℝ := 1 / θ ^ 2 - (1 + Real.cos θ) / (2 * θ * Real.sin θ)

theorem cos_2_sq {θ : ℝ} (h : Scalar.eps2 < θ * θ) : Trig.cos_2 (θ * θ) = αe θ := by
  rw [cos_2_closed h, Real.sqrt_mul_self_eq_abs, Real.cos_abs, αe, sq]

theorem sin_3_sq {θ : ℝ} (h : Scalar.eps2 < θ * θ) : -(Trig.sin_3 (θ * θ)) = βe θ := by
  rw [sin_3_closed h, Real.sqrt_mul_self_eq_abs, βe, sq]
  rcases abs_cases θ with ⟨e, _⟩ | ⟨e, _⟩
  · rw [e]
  · rw [e, Real.sin_neg]
    have hθ : θ ≠ 0 := by
      rintro rfl
      have := eps2_pos
      simp at h
      linarith
    field_simp
    ring

theorem drExpinvA_closed {θ : ℝ} (h : ¬ θ * θ < Scalar.eps2) : SE2.drExpinvA θ (θ * θ) = Ae θ := by
  simp only [SE2.drExpinvA, if_neg h, Nat.cast_one, Nat.cast_ofNat, Ae, sq]; rfl

theorem dr_exp_closed (a : Vec ℝ 3) (h : Scalar.eps2 < a 2 * a 2) :
    SE2.dr_exp a = poly2 (SE2.ad a) (αe (a 2)) (βe (a 2)) := by
  ext i j
  simp only [SE2.dr_exp, memoM_eq, Lin.mmul_msmul_get, cos_2_sq h, ← sin_3_sq h, Mat.of_get, poly2]
  ring

theorem dr_expinv_closed (a : Vec ℝ 3) (h : ¬ a 2 * a 2 < Scalar.eps2) :
    SE2.dr_expinv a = poly2 (SE2.ad a) (1 / 2) (Ae (a 2)) := by
  ext i j
  simp only [SE2.dr_expinv, memoM_eq, Lin.mmul_msmul_get, drExpinvA_closed h, Mat.of_get, poly2,
    Nat.cast_ofNat]
  ring

theorem coef_pq {θ : ℝ} (h : Scalar.eps2 < θ * θ) (hs : Real.sin θ ≠ 0) :
    αe θ + 1 / 2 - (θ * θ) * (αe θ * Ae θ + βe θ * (1 / 2)) = 0 ∧
    βe θ + αe θ * (1 / 2) + Ae θ - (θ * θ) * (βe θ * Ae θ) = 0 := by
  have hθ : θ ≠ 0 := by
    rintro rfl
    have := eps2_pos
    simp at h
    linarith
  have h1 := Real.sin_sq_add_cos_sq θ
  have p := coef_p hθ hs h1
  have q := coef_q (c := Real.cos θ) hθ hs
  rw [← sq]
  exact ⟨p, q⟩

theorem drExp_mul_drExpinv (a : Vec ℝ 3) (h : Scalar.eps2 < a 2 * a 2) (hs : Real.sin (a 2) ≠ 0) :
    mmul (SE2.dr_exp a) (SE2.dr_expinv a) = ident 3 := by
  obtain ⟨p, q⟩ := coef_pq h hs
  ext i j
  rw [dr_exp_closed a h, dr_expinv_closed a (not_lt.2 h.le), se2_poly_mul, p, q, poly2_zero_zero]

theorem drExpinv_mul_drExp (a : Vec ℝ 3) (h : Scalar.eps2 < a 2 * a 2) (hs : Real.sin (a 2) ≠ 0) :
    mmul (SE2.dr_expinv a) (SE2.dr_exp a) = ident 3 := by
  obtain ⟨p, q⟩ := coef_pq h hs
  ext i j
  rw [dr_exp_closed a h, dr_expinv_closed a (not_lt.2 h.le), se2_poly_mul]
  have p' : 1 / 2 + αe (a 2) - (a 2 * a 2) * (1 / 2 * βe (a 2) + Ae (a 2) * αe (a 2)) = 0 := by
    linear_combination p
  have q' : Ae (a 2) + 1 / 2 * αe (a 2) + βe (a 2) - (a 2 * a 2) * (Ae (a 2) * βe (a 2)) = 0 := by
    linear_combination q
  rw [p', q', poly2_zero_zero]

end C04SE2
