/-
  C02Series.lean — "either side of the switch": in the SERIES branch the matrix of `exp a`
  differs from the true matrix exponential `NormedSpace.exp (hat a)` by at most an explicit tiny
  bound (exact arithmetic); at `a = 0` it is exact.  Together with the closed-branch theorems
  this gives a bound for EVERY tangent vector.
-/
import SmoothProofs.C02Taylor
import SmoothProofs.C02SO3
import SmoothProofs.C02Exp

open Lin Scalar

namespace C02

/-- the quaternion `(A·a, B)` has matrix `1 + 2AB·K + 2A²·K²` (any `A, B`; no unit constraint) -/
theorem so3_quat_matrix_AB (A B x y z : ℝ) :
    toM (SO3.matrix (mk4 (A * x) (A * y) (A * z) B)) = rodrigues (2 * A * B) (2 * A * A) x y z := by
  ext i j
  fin_cases i <;> fin_cases j <;>
    simp [toM, SO3.matrix, mat3, mk4, rodrigues, K3] <;>
    ring

theorem K3_entry_le (x y z θ : ℝ) (hθ : 0 ≤ θ) (hn : θ * θ = x*x + y*y + z*z) (i j : Fin 3) :
    |K3 x y z i j| ≤ θ := by
  have hx : |x| ≤ θ := by
    rw [abs_le]; constructor <;> nlinarith [mul_self_nonneg y, mul_self_nonneg z]
  have hy : |y| ≤ θ := by
    rw [abs_le]; constructor <;> nlinarith [mul_self_nonneg x, mul_self_nonneg z]
  have hz : |z| ≤ θ := by
    rw [abs_le]; constructor <;> nlinarith [mul_self_nonneg x, mul_self_nonneg y]
  fin_cases i <;> fin_cases j <;> simp [K3, hθ, hx, hy, hz]


theorem K3sq_entry_le (x y z t : ℝ) (hn : t = x*x + y*y + z*z) (i j : Fin 3) :
    |(K3 x y z * K3 x y z) i j| ≤ t := by
  have hxx := mul_self_nonneg x
  have hyy := mul_self_nonneg y
  have hzz := mul_self_nonneg z
  have hxy := mul_self_nonneg (x - y)
  have hxy' := mul_self_nonneg (x + y)
  have hxz := mul_self_nonneg (x - z)
  have hxz' := mul_self_nonneg (x + z)
  have hyz := mul_self_nonneg (y - z)
  have hyz' := mul_self_nonneg (y + z)
  fin_cases i <;> fin_cases j <;>
    simp [K3, Matrix.mul_apply, Fin.sum_univ_three] <;>
    first
    | (rw [← abs_mul, abs_le]; constructor <;> nlinarith)
    | (rw [abs_le]; constructor <;> nlinarith)

theorem abs_combo_le {p q k k2 E1 E2 θ t : ℝ} (hp : |p| ≤ E1) (hq : |q| ≤ E2)
    (hk : |k| ≤ θ) (hk2 : |k2| ≤ t) : |2 * p * k + 2 * q * k2| ≤ 2 * (E1 * θ) + 2 * (E2 * t) := by
  have h1 : |p| * |k| ≤ E1 * θ := mul_le_mul hp hk (abs_nonneg _) ((abs_nonneg _).trans hp)
  have h2 : |q| * |k2| ≤ E2 * t := mul_le_mul hq hk2 (abs_nonneg _) ((abs_nonneg _).trans hq)
  calc |2 * p * k + 2 * q * k2| ≤ |2 * p * k| + |2 * q * k2| := abs_add_le _ _
    _ = 2 * (|p| * |k|) + 2 * (|q| * |k2|) := by
        rw [abs_mul, abs_mul, abs_mul, abs_mul]; simp; ring
    _ ≤ _ := by linarith

/-- SO3, series branch (`0 < ‖a‖² < eps2`): entrywise distance to the true matrix exponential
is at most `‖a‖⁵/100` (≤ 1e-22). -/
theorem so3_exp_series_error (a : Vec ℝ 3) (h0 : 0 < sqNorm a) (h1 : sqNorm a < Scalar.eps2)
    (i j : Fin 3) :
    |toM (SO3.matrix (SO3.exp a)) i j - (NormedSpace.exp (toM (SO3.hat a))) i j|
      ≤ (sqNorm a) ^ 2 * Real.sqrt (sqNorm a) / 100 := by
  rw [← so3_expClosed_is_matrix_exp a]
  obtain ⟨hs0, hs1, hs2⟩ := sqrt_small h0 h1.le
  obtain ⟨hA, hB⟩ := so3_expAB_series (sqNorm a) h0 h1
  set t := sqNorm a with ht
  set θ := Real.sqrt t with hθ
  set AT := (SO3.expAB t).1 with hAT
  set BT := (SO3.expAB t).2 with hBT
  set AC := Real.sin (θ / 2) / θ with hAC
  set BC := Real.cos (θ / 2) with hBC
  have hATv : AT = 1 / 2 - t / 48 := by simp [hAT, SO3.expAB, h1]
  have hBTv : BT = 1 - t / 8 := by simp [hBT, SO3.expAB, h1]
  have he : t < 1 / 100000000 := by rw [← scalar_eps2]; exact h1
  have hexpT : toM (SO3.matrix (SO3.exp a)) = rodrigues (2 * AT * BT) (2 * AT * AT) (a 0) (a 1) (a 2) := by
    rw [← so3_quat_matrix_AB]
    show toM (SO3.matrix (SO3.canon _)) = _
    rw [so3_matrix_canon]
  have hexpC : toM (SO3.matrix (so3ExpClosed a))
      = rodrigues (2 * AC * BC) (2 * AC * AC) (a 0) (a 1) (a 2) := by
    rw [← so3_quat_matrix_AB]
    show toM (SO3.matrix (SO3.canon _)) = _
    rw [so3_matrix_canon]
  rw [hexpT, hexpC]
  have hθθ : θ * θ = a 0 * a 0 + a 1 * a 1 + a 2 * a 2 := by
    rw [← sqNorm3, ← ht, ← sq]; exact hs2
  have hK := K3_entry_le (a 0) (a 1) (a 2) θ hs0.le hθθ i j
  have hK2 := K3sq_entry_le (a 0) (a 1) (a 2) t (by rw [ht, sqNorm3]) i j
  -- coefficient differences
  have hδA : |AT - AC| ≤ t ^ 2 * (1 / 3200) := hA
  have hδB : |BT - BC| ≤ t ^ 2 * (5 / 1536) := hB
  have ht2 : t ^ 2 ≤ 1 := by nlinarith
  have hBT1 : |BT| ≤ 1 := by rw [hBTv, abs_le]; constructor <;> linarith
  have hAT1 : |AT| ≤ 1 / 2 := by rw [hATv, abs_le]; constructor <;> linarith
  have hAC1 : |AC| ≤ 1 := by
    have : |AC| ≤ |AT| + |AT - AC| := by
      have := abs_sub_abs_le_abs_sub AC AT
      rw [abs_sub_comm AC AT] at this; linarith
    nlinarith
  have hp : |AT * BT - AC * BC| ≤ t ^ 2 * (1 / 3200) + t ^ 2 * (5 / 1536) := by
    have : AT * BT - AC * BC = (AT - AC) * BT + AC * (BT - BC) := by ring
    rw [this]
    calc _ ≤ |(AT - AC) * BT| + |AC * (BT - BC)| := abs_add_le _ _
      _ = |AT - AC| * |BT| + |AC| * |BT - BC| := by rw [abs_mul, abs_mul]
      _ ≤ t ^ 2 * (1 / 3200) * 1 + 1 * (t ^ 2 * (5 / 1536)) := by
          apply add_le_add
          · exact mul_le_mul hδA hBT1 (abs_nonneg _) (by positivity)
          · exact mul_le_mul hAC1 hδB (abs_nonneg _) (by norm_num)
      _ = _ := by ring
  have hq : |AT * AT - AC * AC| ≤ 2 * (t ^ 2 * (1 / 3200)) := by
    have : AT * AT - AC * AC = (AT - AC) * (AT + AC) := by ring
    rw [this, abs_mul]
    have h2 : |AT + AC| ≤ 2 := by
      calc |AT + AC| ≤ |AT| + |AC| := abs_add_le _ _
        _ ≤ 2 := by linarith
    calc _ ≤ t ^ 2 * (1 / 3200) * 2 := mul_le_mul hδA h2 (abs_nonneg _) (by positivity)
      _ = _ := by ring
  have hdiff : rodrigues (2 * AT * BT) (2 * AT * AT) (a 0) (a 1) (a 2) i j
      - rodrigues (2 * AC * BC) (2 * AC * AC) (a 0) (a 1) (a 2) i j
      = 2 * (AT * BT - AC * BC) * K3 (a 0) (a 1) (a 2) i j
        + 2 * (AT * AT - AC * AC) * (K3 (a 0) (a 1) (a 2) * K3 (a 0) (a 1) (a 2)) i j := by
    simp only [rodrigues, Matrix.add_apply, Matrix.smul_apply, smul_eq_mul]
    ring
  rw [hdiff]
  refine (abs_combo_le hp hq hK hK2).trans ?_
  have htθ : t = θ * θ := by rw [← sq]; exact hs2.symm
  have hθ1 : θ ≤ 1 := hs1
  have hpos : 0 ≤ t ^ 2 * θ := by positivity
  have : t ^ 2 * t ≤ t ^ 2 * θ := by
    apply mul_le_mul_of_nonneg_left _ (by positivity)
    rw [htθ]; nlinarith [hs0.le]
  nlinarith


/-- SO3 at `a = 0`: the series branch is exact. -/
theorem so3_exp_is_matrix_exp_zero (a : Vec ℝ 3) (h0 : sqNorm a = 0) :
    toM (SO3.matrix (SO3.exp a)) = NormedSpace.exp (toM (SO3.hat a)) := by
  have hz := h0
  rw [sqNorm3] at hz
  have hx : a 0 = 0 := by
    nlinarith [mul_self_nonneg (a 0), mul_self_nonneg (a 1), mul_self_nonneg (a 2)]
  have hy : a 1 = 0 := by
    nlinarith [mul_self_nonneg (a 0), mul_self_nonneg (a 1), mul_self_nonneg (a 2)]
  have hzz : a 2 = 0 := by
    nlinarith [mul_self_nonneg (a 0), mul_self_nonneg (a 1), mul_self_nonneg (a 2)]
  rw [so3_hat_toM, hx, hy, hzz, ← rodrigues_zero 0 0]
  have hb : (0 : ℝ) < Scalar.eps2 := eps2_pos
  have : SO3.exp a = SO3.canon (mk4 ((1/2 : ℝ) * 0) ((1/2 : ℝ) * 0) ((1/2 : ℝ) * 0) 1) := by
    simp [SO3.exp, SO3.expAB, h0, hb, hx, hy, hzz]
  rw [this, so3_matrix_canon, so3_quat_matrix_AB]
  have hK0 : K3 0 0 0 = 0 := by
    ext i j; fin_cases i <;> fin_cases j <;> simp [K3]
  simp [rodrigues, hK0]

/-- **SO3, every tangent vector**: entrywise distance between the model's `exp` matrix and the
true matrix exponential is at most `1e-22` in exact arithmetic (0 outside the series branch). -/
theorem so3_exp_is_matrix_exp_uniform (a : Vec ℝ 3) (i j : Fin 3) :
    |toM (SO3.matrix (SO3.exp a)) i j - (NormedSpace.exp (toM (SO3.hat a))) i j| ≤ 1 / 10 ^ 22 := by
  by_cases hb : sqNorm a < Scalar.eps2
  · rcases (sqNorm3_nonneg a).lt_or_eq with h0 | h0
    · refine (so3_exp_series_error a h0 hb i j).trans ?_
      obtain ⟨hs0, hs1, hs2⟩ := sqrt_small h0 hb.le
      have he : sqNorm a < 1 / 100000000 := by rw [← scalar_eps2]; exact hb
      set t := sqNorm a
      set θ := Real.sqrt t
      have hθ : θ ≤ 1 / 10000 := by
        have : θ ^ 2 ≤ (1 / 10000 : ℝ) ^ 2 := by rw [hs2]; norm_num; linarith
        exact le_of_sq_le_sq this (by norm_num) |> fun h => h
      have ht2 : t ^ 2 ≤ (1 / 100000000 : ℝ) ^ 2 := pow_le_pow_left₀ h0.le he.le 2
      have : t ^ 2 * θ ≤ (1 / 100000000 : ℝ) ^ 2 * (1 / 10000) :=
        mul_le_mul ht2 hθ hs0.le (by positivity)
      calc t ^ 2 * θ / 100 ≤ (1 / 100000000 : ℝ) ^ 2 * (1 / 10000) / 100 := by linarith
        _ = 1 / 10 ^ 22 := by norm_num
    · rw [so3_exp_is_matrix_exp_zero a h0.symm]; simp
  · rw [so3_exp_is_matrix_exp_closed a hb]; simp

/-- SE2, series branch, non-zero angle: rotation block and bottom row exact; translation column
within `θ⁴/100·(|x|+|y|)` of the true matrix exponential. -/
theorem se2_exp_series_error (a : Vec ℝ 3) (h0 : a 2 ≠ 0) (h1 : a 2 * a 2 < Scalar.eps2)
    (i j : Fin 3) :
    |toM (SE2.matrix (SE2.exp a)) i j - (NormedSpace.exp (toM (SE2.hat a))) i j|
      ≤ (a 2 * a 2) ^ 2 / 100 * (|a 0| + |a 1|) := by
  rw [← se2_expClosed_is_matrix_exp a h0]
  obtain ⟨hA, hB⟩ := se2_expAB_series (a 2) h0 h1
  have hle := abs_le_one_of_sq_small h1
  have hB' : |(SE2.expAB (a 2) (a 2 * a 2)).2 - (Real.cos (a 2) - 1) / a 2|
      ≤ (a 2 * a 2) ^ 2 * (1 / 100) := by
    refine hB.trans ?_
    have : (a 2 * a 2) ^ 2 * |a 2| ≤ (a 2 * a 2) ^ 2 * 1 :=
      mul_le_mul_of_nonneg_left hle (by positivity)
    nlinarith
  set AT := (SE2.expAB (a 2) (a 2 * a 2)).1
  set BT := (SE2.expAB (a 2) (a 2 * a 2)).2
  set E := (a 2 * a 2) ^ 2 * (1 / 100) with hE
  have hE0 : 0 ≤ E := by positivity
  have hrhs : (a 2 * a 2) ^ 2 / 100 * (|a 0| + |a 1|) = E * |a 0| + E * |a 1| := by
    rw [hE]; ring
  have hnn : 0 ≤ E * |a 0| + E * |a 1| := by positivity
  rw [hrhs]
  have e0 : toM (SE2.matrix (SE2.exp a)) 0 2 - toM (SE2.matrix (se2ExpClosed a)) 0 2
      = (AT - Real.sin (a 2) / a 2) * a 0 + (BT - (Real.cos (a 2) - 1) / a 2) * a 1 := by
    simp [toM, SE2.matrix, SE2.exp, se2ExpClosed, mulVec, vsum, mat2, mat3, mk2, mk4, AT, BT]
    ring
  have e1 : toM (SE2.matrix (SE2.exp a)) 1 2 - toM (SE2.matrix (se2ExpClosed a)) 1 2
      = -(BT - (Real.cos (a 2) - 1) / a 2) * a 0 + (AT - Real.sin (a 2) / a 2) * a 1 := by
    simp [toM, SE2.matrix, SE2.exp, se2ExpClosed, mulVec, vsum, mat2, mat3, mk2, mk4, AT, BT]
    ring
  fin_cases i <;> fin_cases j
  case «0».«2» =>
    show |toM (SE2.matrix (SE2.exp a)) 0 2 - toM (SE2.matrix (se2ExpClosed a)) 0 2| ≤ _
    rw [e0]
    calc _ ≤ |(AT - Real.sin (a 2) / a 2) * a 0| + |(BT - (Real.cos (a 2) - 1) / a 2) * a 1| :=
          abs_add_le _ _
      _ = |AT - Real.sin (a 2) / a 2| * |a 0| + |BT - (Real.cos (a 2) - 1) / a 2| * |a 1| := by
          rw [abs_mul, abs_mul]
      _ ≤ E * |a 0| + E * |a 1| := add_le_add
          (mul_le_mul_of_nonneg_right hA (abs_nonneg _))
          (mul_le_mul_of_nonneg_right hB' (abs_nonneg _))
  case «1».«2» =>
    show |toM (SE2.matrix (SE2.exp a)) 1 2 - toM (SE2.matrix (se2ExpClosed a)) 1 2| ≤ _
    rw [e1]
    calc _ ≤ |-(BT - (Real.cos (a 2) - 1) / a 2) * a 0| + |(AT - Real.sin (a 2) / a 2) * a 1| :=
          abs_add_le _ _
      _ = |BT - (Real.cos (a 2) - 1) / a 2| * |a 0| + |AT - Real.sin (a 2) / a 2| * |a 1| := by
          rw [abs_mul, abs_mul, abs_neg]
      _ ≤ E * |a 0| + E * |a 1| := add_le_add
          (mul_le_mul_of_nonneg_right hB' (abs_nonneg _))
          (mul_le_mul_of_nonneg_right hA (abs_nonneg _))
  all_goals
    simp [toM, SE2.matrix, SE2.exp, se2ExpClosed, SE2.so2, SO2.matrix, SO2.exp, mat2, mat3, mk1,
      mk2, mk4]
    exact hnn

end C02
