/-
  C14Kkt.lean — the equality-constrained quadratic programme behind the optimising spline
  specifications: any solution `(x, l)` of the KKT system `[Q Aᵀ; A 0][x; l] = [0; b]` minimises
  `½ xᵀQx` subject to `A x = b` when `Q` is symmetric positive semidefinite, and the minimiser is
  unique when `Q` is positive definite on `ker A`.  `Q = fac·P + ε·I` with `P` positive
  semidefinite, `fac ≥ 0`, `ε > 0` (the code's cost blocks) is positive definite everywhere.
-/
import Mathlib.Data.Matrix.Mul
import Mathlib.Data.Real.Basic
import Mathlib.LinearAlgebra.Matrix.DotProduct
import Mathlib.Tactic.Ring
import Mathlib.Tactic.Linarith
import Mathlib.Tactic.Positivity

open Matrix

namespace Fit
namespace Kkt

variable {n m : Type} [Fintype n] [Fintype m]

/-- the quadratic form `xᵀ Q x` -/
def quad (Q : Matrix n n ℝ) (x : n → ℝ) : ℝ := x ⬝ᵥ Q *ᵥ x

/-- `(x, l)` solves the KKT system -/
def IsKKT (Q : Matrix n n ℝ) (A : Matrix m n ℝ) (b : m → ℝ) (x : n → ℝ) (l : m → ℝ) : Prop :=
  Q *ᵥ x + Aᵀ *ᵥ l = 0 ∧ A *ᵥ x = b

theorem quad_add (Q : Matrix n n ℝ) (hQ : Qᵀ = Q) (x d : n → ℝ) :
    quad Q (x + d) = quad Q x + 2 * (d ⬝ᵥ Q *ᵥ x) + quad Q d := by
  unfold quad
  have hsym : x ⬝ᵥ Q *ᵥ d = d ⬝ᵥ Q *ᵥ x := by
    rw [dotProduct_mulVec, ← hQ, vecMul_transpose, hQ, dotProduct_comm]
  rw [mulVec_add, add_dotProduct, dotProduct_add, dotProduct_add, hsym]
  ring

/-- the cross term vanishes along the constraint set: `dᵀ Q x = −(A d)ᵀ l = 0` -/
theorem cross_zero {Q : Matrix n n ℝ} {A : Matrix m n ℝ} {x d : n → ℝ} {l : m → ℝ}
    (hst : Q *ᵥ x + Aᵀ *ᵥ l = 0) (hd : A *ᵥ d = 0) : d ⬝ᵥ Q *ᵥ x = 0 := by
  have h1 : Q *ᵥ x = -(Aᵀ *ᵥ l) := eq_neg_of_add_eq_zero_left hst
  rw [h1, dotProduct_neg, dotProduct_mulVec, vecMul_transpose, hd]
  simp

/-- **a KKT point minimises the cost on the constraint set** -/
theorem kkt_minimises (Q : Matrix n n ℝ) (A : Matrix m n ℝ) (b : m → ℝ) (hQ : Qᵀ = Q)
    (hpsd : ∀ d, A *ᵥ d = 0 → 0 ≤ quad Q d) (x : n → ℝ) (l : m → ℝ) (h : IsKKT Q A b x l)
    (y : n → ℝ) (hy : A *ᵥ y = b) : quad Q x / 2 ≤ quad Q y / 2 := by
  have hd : A *ᵥ (y - x) = 0 := by rw [mulVec_sub, hy, h.2, sub_self]
  have hyx : y = x + (y - x) := (add_sub_cancel x y).symm
  rw [hyx, quad_add Q hQ, cross_zero h.1 hd]
  have := hpsd _ hd
  linarith

/-- … and strictly so away from it when `Q` is positive definite on `ker A` -/
theorem kkt_strict (Q : Matrix n n ℝ) (A : Matrix m n ℝ) (b : m → ℝ) (hQ : Qᵀ = Q)
    (hpd : ∀ d, A *ᵥ d = 0 → d ≠ 0 → 0 < quad Q d) (x : n → ℝ) (l : m → ℝ) (h : IsKKT Q A b x l)
    (y : n → ℝ) (hy : A *ᵥ y = b) (hne : y ≠ x) : quad Q x < quad Q y := by
  have hd : A *ᵥ (y - x) = 0 := by rw [mulVec_sub, hy, h.2, sub_self]
  have hyx : y = x + (y - x) := (add_sub_cancel x y).symm
  rw [hyx, quad_add Q hQ, cross_zero h.1 hd]
  have := hpd _ hd (sub_ne_zero.2 hne)
  linarith

/-- **the primal part of a KKT solution is unique** -/
theorem kkt_unique (Q : Matrix n n ℝ) (A : Matrix m n ℝ) (b : m → ℝ) (hQ : Qᵀ = Q)
    (hpd : ∀ d, A *ᵥ d = 0 → d ≠ 0 → 0 < quad Q d)
    (x x' : n → ℝ) (l l' : m → ℝ) (h : IsKKT Q A b x l) (h' : IsKKT Q A b x' l') : x' = x := by
  by_contra hne
  have h1 := kkt_strict Q A b hQ hpd x l h x' h'.2 hne
  have h2 := kkt_strict Q A b hQ hpd x' l' h' x h.2 (Ne.symm hne)
  linarith

/-- the code's cost matrix: `fac·P + ε·I` with `P` positive semidefinite is positive definite -/
theorem quad_reg_pos [DecidableEq n] (P : Matrix n n ℝ) (hP : ∀ d, 0 ≤ quad P d) (fac ε : ℝ) (hfac : 0 ≤ fac)
    (hε : 0 < ε) (d : n → ℝ) (hd : d ≠ 0) : 0 < quad (fac • P + ε • (1 : Matrix n n ℝ)) d := by
  unfold quad
  rw [add_mulVec, smul_mulVec, smul_mulVec, one_mulVec, dotProduct_add, dotProduct_smul, dotProduct_smul]
  have h1 : 0 ≤ fac • (d ⬝ᵥ P *ᵥ d) := by
    have := hP d; unfold quad at this; simp only [smul_eq_mul]; positivity
  have h2 : 0 < d ⬝ᵥ d := by
    have hnn : 0 ≤ d ⬝ᵥ d := by
      unfold dotProduct; exact Finset.sum_nonneg (fun i _ => mul_self_nonneg (d i))
    exact lt_of_le_of_ne hnn (fun h0 => hd (dotProduct_self_eq_zero.1 h0.symm))
  have h3 : 0 < ε • (d ⬝ᵥ d) := by simp only [smul_eq_mul]; positivity
  linarith

omit [Fintype n] in
theorem reg_symm [DecidableEq n] (P : Matrix n n ℝ) (hP : Pᵀ = P) (fac ε : ℝ) :
    (fac • P + ε • (1 : Matrix n n ℝ))ᵀ = fac • P + ε • (1 : Matrix n n ℝ) := by
  rw [transpose_add, transpose_smul, transpose_smul, hP, transpose_one]

/-- `P = Bᵀ M B` inherits positive semidefiniteness from `M` (the Gram matrix
    `∫₀¹ u^{(O)} u^{(O)ᵀ} du` of `monomial_integral`): `dᵀ Bᵀ M B d = (B d)ᵀ M (B d)` -/
theorem quad_congr (M B : Matrix n n ℝ) (d : n → ℝ) : quad (Bᵀ * M * B) d = quad M (B *ᵥ d) := by
  unfold quad
  rw [← mulVec_mulVec, ← mulVec_mulVec, dotProduct_mulVec, vecMul_transpose, dotProduct_comm]

theorem congr_psd (M B : Matrix n n ℝ) (hM : ∀ d, 0 ≤ quad M d) : ∀ d, 0 ≤ quad (Bᵀ * M * B) d :=
  fun d => by rw [quad_congr]; exact hM _

end Kkt
end Fit
