/-
  C03Desc.lean — C03 for every group of the descriptor language (`SO2 SO3 SE2 SE3 C1 GAL T<n> SEK<k>
  B[…]`, bundles nested arbitrarily): `descPart d` packages `GDesc.model d` with its representation
  constraint, its algebra predicate and the `AdjointRep` proof.
-/
import SmoothProofs.C03Small
import SmoothProofs.C03Tn
import SmoothProofs.C03SE3
import SmoothProofs.C03Galilei
import SmoothProofs.C03SEK3

open Lin Scalar

namespace C03

/-- the bundle of a list of parts, as a part -/
noncomputable def Part.bundle (ps : List Part) : Part :=
  ⟨Bundle.bundle (ps.map Part.G), bundleU ps, bundleInAlg ps, AdjointRep.bundle ps⟩

mutual
  /-- model, constraint, algebra and C03 proof of a described group -/
  noncomputable def descPart : GDesc → Part
    | .so2 => ⟨SO2.model, fun _ => True, SO2.InAlgebra, SO2.adjointRep⟩
    | .so3 => ⟨SO3.model, UnitQ, SO3.InAlgebra, SO3.adjointRep⟩
    | .se2 => ⟨SE2.model, SE2.IsUnit, SE2.InAlgebra, SE2.adjointRep⟩
    | .se3 => ⟨SE3.model, SE3.IsUnit, SE3.InAlgebra, SE3.adjointRep⟩
    | .c1 => ⟨C1.model, fun _ => True, C1.InAlgebra, C1.adjointRep⟩
    | .gal => ⟨Galilei.model, Galilei.IsUnit, Galilei.InAlgebra, Galilei.adjointRep⟩
    | .tn n => ⟨Tn.model n, fun _ => True, Tn.InAlgebra, Tn.adjointRep n⟩
    | .sek3 k => ⟨SEK3.model k, SEK3.IsUnit, SEK3.InAlgebra, SEK3.adjointRep k⟩
    | .bundle ps => Part.bundle (descParts ps)
  noncomputable def descParts : List GDesc → List Part
    | [] => []
    | p :: ps => descPart p :: descParts ps
end

mutual
  theorem descPart_G : ∀ d : GDesc, (descPart d).G = (GDesc.model d : LieModel ℝ)
    | .so2 => by simp [descPart, GDesc.model]
    | .so3 => by simp [descPart, GDesc.model]
    | .se2 => by simp [descPart, GDesc.model]
    | .se3 => by simp [descPart, GDesc.model]
    | .c1 => by simp [descPart, GDesc.model]
    | .gal => by simp [descPart, GDesc.model]
    | .tn n => by simp [descPart, GDesc.model]
    | .sek3 k => by simp [descPart, GDesc.model]
    | .bundle ps => by
      simp only [descPart, GDesc.model, Part.bundle]
      rw [descParts_G ps]
  theorem descParts_G : ∀ ds : List GDesc, (descParts ds).map Part.G = (GDesc.models ds : List (LieModel ℝ))
    | [] => by simp [descParts, GDesc.models]
    | p :: ps => by
      simp only [descParts, GDesc.models, List.map_cons]
      rw [descPart_G p, descParts_G ps]
end

/-- C03 for the model of every group descriptor -/
theorem descPart_ok (d : GDesc) : AdjointRep (descPart d).G (descPart d).U (descPart d).InAlg :=
  (descPart d).ok

end C03
