/-
  C13DumpedAcc.lean — ACCELERATION continuity at a knot for basis tables that satisfy the knot
  identities only up to a tolerance `ε` (the double tables the implementation uses: ε = 2⁻⁴⁸,
  kernel-checked in C13Knot.lean for every order `d < K`), with an explicit error term.

  On top of `AdBounds` (C13Dumped.lean) the acceleration update
      a' = Ad_B a + B̃' · ad(x') v + B̃'' · v
  needs a bilinear bound on the bracket `(x, v) ↦ ad(x) v` in the sup norm (`adBound`, constant `C`;
  `C = 0` for commutative groups).
-/
import SmoothProofs.C13Dumped
import Mathlib.Logic.Function.Iterate

open Lin Scalar

namespace C13
open C11 (mv mv_add mv_sub mv_zero mv_get_mulVec)

variable (G : LieModel ℝ)

/-- bilinear bound on the bracket (sup norm on the tangent space): `‖ad(x)v‖ ≤ C‖x‖‖v‖` and the same
    for differences in `x` (`ad` is linear in `x` for every concrete group) -/
structure adBound (C : ℝ) : Prop where
  C_nonneg : 0 ≤ C
  bound : ∀ (x v : Vec ℝ G.dof), ‖mv (G.ad x) v.get‖ ≤ C * ‖x.get‖ * ‖v.get‖
  lip : ∀ (x y v : Vec ℝ G.dof), ‖mv (G.ad x) v.get - mv (G.ad y) v.get‖ ≤ C * ‖x.get - y.get‖ * ‖v.get‖

theorem stepVA_fst (xa : Vec ℝ G.dof × Vec ℝ G.dof) (B dB d2B : ℝ) (v : Vec ℝ G.dof) :
    (stepVA G xa B dB d2B v).1 = stepV G xa.1 B dB v := rfl

theorem stepVA_snd_get (xa : Vec ℝ G.dof × Vec ℝ G.dof) (B dB d2B : ℝ) (v : Vec ℝ G.dof) :
    (stepVA G xa B dB d2B v).2.get
      = mv (AdB G B v) xa.2.get + dB • mv (G.ad (stepV G xa.1 B dB v)) v.get + d2B • v.get := by
  funext i
  simp only [stepVA, AdB, Vec.of_get, Pi.add_apply, Pi.smul_apply, smul_eq_mul, ← mv_get_mulVec]

/-- one acceleration step, two different basis jets: the difference of the results, in terms of the
    NEW velocities `x'`, `y'` -/
theorem stepVA_acc_diff {M L C : ℝ} (h : AdBounds G M L) (hc : adBound G C)
    (xa yc : Vec ℝ G.dof × Vec ℝ G.dof) (B B' dB dB' d2B d2B' : ℝ) (v : Vec ℝ G.dof) :
    ‖(stepVA G xa B dB d2B v).2.get - (stepVA G yc B' dB' d2B' v).2.get‖
      ≤ M * ‖xa.2.get - yc.2.get‖ + L * |B - B'| * ‖yc.2.get‖
        + |dB| * (C * ‖(stepV G xa.1 B dB v).get - (stepV G yc.1 B' dB' v).get‖ * ‖v.get‖)
        + |dB - dB'| * (C * ‖(stepV G yc.1 B' dB' v).get‖ * ‖v.get‖)
        + |d2B - d2B'| * ‖v.get‖ := by
  rw [stepVA_snd_get, stepVA_snd_get]
  obtain ⟨x', hx'⟩ : ∃ x', x' = stepV G xa.1 B dB v := ⟨_, rfl⟩
  obtain ⟨y', hy'⟩ : ∃ y', y' = stepV G yc.1 B' dB' v := ⟨_, rfl⟩
  rw [← hx', ← hy']
  have e : mv (AdB G B v) xa.2.get + dB • mv (G.ad x') v.get + d2B • v.get
        - (mv (AdB G B' v) yc.2.get + dB' • mv (G.ad y') v.get + d2B' • v.get)
      = (mv (AdB G B v) (xa.2.get - yc.2.get) + (mv (AdB G B v) yc.2.get - mv (AdB G B' v) yc.2.get))
        + (dB • (mv (G.ad x') v.get - mv (G.ad y') v.get) + (dB - dB') • mv (G.ad y') v.get)
        + (d2B - d2B') • v.get := by
    rw [mv_sub]; module
  rw [e]
  have t1 : ‖mv (AdB G B v) (xa.2.get - yc.2.get)‖ ≤ M * ‖xa.2.get - yc.2.get‖ := h.bound _ _ _
  have t2 : ‖mv (AdB G B v) yc.2.get - mv (AdB G B' v) yc.2.get‖ ≤ L * |B - B'| * ‖yc.2.get‖ := h.lip _ _ _ _
  have t3 : ‖dB • (mv (G.ad x') v.get - mv (G.ad y') v.get)‖ ≤ |dB| * (C * ‖x'.get - y'.get‖ * ‖v.get‖) := by
    rw [norm_smul, Real.norm_eq_abs]
    exact mul_le_mul_of_nonneg_left (hc.lip _ _ _) (abs_nonneg _)
  have t4 : ‖(dB - dB') • mv (G.ad y') v.get‖ ≤ |dB - dB'| * (C * ‖y'.get‖ * ‖v.get‖) := by
    rw [norm_smul, Real.norm_eq_abs]
    exact mul_le_mul_of_nonneg_left (hc.bound _ _) (abs_nonneg _)
  have t5 : ‖(d2B - d2B') • v.get‖ = |d2B - d2B'| * ‖v.get‖ := by rw [norm_smul, Real.norm_eq_abs]
  have n1 := norm_add_le (mv (AdB G B v) (xa.2.get - yc.2.get)) (mv (AdB G B v) yc.2.get - mv (AdB G B' v) yc.2.get)
  have n2 := norm_add_le (dB • (mv (G.ad x') v.get - mv (G.ad y') v.get)) ((dB - dB') • mv (G.ad y') v.get)
  have n3 := norm_add₃_le
    (a := mv (AdB G B v) (xa.2.get - yc.2.get) + (mv (AdB G B v) yc.2.get - mv (AdB G B' v) yc.2.get))
    (b := dB • (mv (G.ad x') v.get - mv (G.ad y') v.get) + (dB - dB') • mv (G.ad y') v.get)
    (c := (d2B - d2B') • v.get)
  linarith

theorem stepVA_acc_norm {M L C : ℝ} (h : AdBounds G M L) (hc : adBound G C)
    (yc : Vec ℝ G.dof × Vec ℝ G.dof) (B dB d2B : ℝ) (v : Vec ℝ G.dof) :
    ‖(stepVA G yc B dB d2B v).2.get‖
      ≤ M * ‖yc.2.get‖ + |dB| * (C * ‖(stepV G yc.1 B dB v).get‖ * ‖v.get‖) + |d2B| * ‖v.get‖ := by
  rw [stepVA_snd_get]
  have t1 : ‖mv (AdB G B v) yc.2.get‖ ≤ M * ‖yc.2.get‖ := h.bound _ _ _
  have t2 : ‖dB • mv (G.ad (stepV G yc.1 B dB v)) v.get‖ ≤ |dB| * (C * ‖(stepV G yc.1 B dB v).get‖ * ‖v.get‖) := by
    rw [norm_smul, Real.norm_eq_abs]
    exact mul_le_mul_of_nonneg_left (hc.bound _ _) (abs_nonneg _)
  have t3 : ‖d2B • v.get‖ = |d2B| * ‖v.get‖ := by rw [norm_smul, Real.norm_eq_abs]
  have n := norm_add₃_le (a := mv (AdB G B v) yc.2.get) (b := dB • mv (G.ad (stepV G yc.1 B dB v)) v.get)
    (c := d2B • v.get)
  linarith

/-- state of the error recursion: velocity error, acceleration error, velocity and acceleration
    norm of the reference path -/
structure Err4 where
  eV : ℝ
  eA : ℝ
  yV : ℝ
  yA : ℝ

/-- one step of the error recursion.  `β`, `β₂` bound `|B̃'|`, `|B̃''|` of the reference jets,
    `V` the differences, `ε` the tolerance of the knot identities. -/
noncomputable def vaStep (M L C ε β β₂ V : ℝ) (s : Err4) : Err4 :=
  { eV := M * s.eV + L * ε * s.yV + ε * V
    yV := M * s.yV + β * V
    eA := M * s.eA + L * ε * s.yA + (β + ε) * (C * (M * s.eV + L * ε * s.yV + ε * V) * V)
            + ε * (C * (M * s.yV + β * V) * V) + ε * V
    yA := M * s.yA + β * (C * (M * s.yV + β * V) * V) + β₂ * V }

/-- `k` steps -/
noncomputable def vaIter (M L C ε β β₂ V : ℝ) (k : Nat) (s : Err4) : Err4 := (vaStep M L C ε β β₂ V)^[k] s

theorem vaIter_succ (M L C ε β β₂ V : ℝ) (k : Nat) (s : Err4) :
    vaIter M L C ε β β₂ V (k + 1) s = vaIter M L C ε β β₂ V k (vaStep M L C ε β β₂ V s) :=
  Function.iterate_succ_apply _ _ _

/-- two folds of `stepVA` whose jets differ by at most `ε` stay close (velocity AND acceleration) -/
theorem fold_close_va {M L C ε β β₂ V : ℝ} (h : AdBounds G M L) (hc : adBound G C) (hε : 0 ≤ ε) {ι : Type}
    (l : List ι) (bA dbA d2A bB dbB d2B : ι → ℝ) (vs : ι → Vec ℝ G.dof)
    (hb : ∀ i, |bA i - bB i| ≤ ε) (hdb : ∀ i, |dbA i - dbB i| ≤ ε) (hd2 : ∀ i, |d2A i - d2B i| ≤ ε)
    (hβ : ∀ i, |dbB i| ≤ β) (hβ₂ : ∀ i, |d2B i| ≤ β₂) (hV : ∀ i, ‖(vs i).get‖ ≤ V) :
    ∀ (xa yc : Vec ℝ G.dof × Vec ℝ G.dof) (s : Err4),
      ‖xa.1.get - yc.1.get‖ ≤ s.eV → ‖xa.2.get - yc.2.get‖ ≤ s.eA → ‖yc.1.get‖ ≤ s.yV → ‖yc.2.get‖ ≤ s.yA →
      let P := l.foldl (fun xa i => stepVA G xa (bA i) (dbA i) (d2A i) (vs i)) xa
      let Q := l.foldl (fun yc i => stepVA G yc (bB i) (dbB i) (d2B i) (vs i)) yc
      let r := vaIter M L C ε β β₂ V l.length s
      ‖P.1.get - Q.1.get‖ ≤ r.eV ∧ ‖P.2.get - Q.2.get‖ ≤ r.eA ∧ ‖Q.1.get‖ ≤ r.yV ∧ ‖Q.2.get‖ ≤ r.yA := by
  induction l with
  | nil => intro xa yc s h1 h2 h3 h4; exact ⟨h1, h2, h3, h4⟩
  | cons i l ih =>
    intro xa yc s h1 h2 h3 h4
    simp only [List.foldl_cons, List.length_cons, vaIter_succ]
    have hM := h.M_nonneg
    have hL := h.L_nonneg
    have hC := hc.C_nonneg
    have hV0 : 0 ≤ ‖(vs i).get‖ := norm_nonneg _
    have hVp : 0 ≤ V := le_trans hV0 (hV i)
    have hβ0 : 0 ≤ β := le_trans (abs_nonneg _) (hβ i)
    have hβ₂0 : 0 ≤ β₂ := le_trans (abs_nonneg _) (hβ₂ i)
    -- new velocities
    have hv1 : ‖(stepV G xa.1 (bA i) (dbA i) (vs i)).get - (stepV G yc.1 (bB i) (dbB i) (vs i)).get‖
        ≤ M * s.eV + L * ε * s.yV + ε * V := by
      refine le_trans (stepV_diff G h xa.1 yc.1 _ _ _ _ _) ?_
      have a1 : M * ‖xa.1.get - yc.1.get‖ ≤ M * s.eV := mul_le_mul_of_nonneg_left h1 hM
      have a2 : L * |bA i - bB i| * ‖yc.1.get‖ ≤ L * ε * s.yV :=
        mul_le_mul (mul_le_mul_of_nonneg_left (hb i) hL) h3 (norm_nonneg _) (mul_nonneg hL hε)
      have a3 : |dbA i - dbB i| * ‖(vs i).get‖ ≤ ε * V := mul_le_mul (hdb i) (hV i) hV0 hε
      linarith
    have hv2 : ‖(stepV G yc.1 (bB i) (dbB i) (vs i)).get‖ ≤ M * s.yV + β * V := by
      refine le_trans (stepV_norm G h yc.1 _ _ _) ?_
      have a1 : M * ‖yc.1.get‖ ≤ M * s.yV := mul_le_mul_of_nonneg_left h3 hM
      have a2 : |dbB i| * ‖(vs i).get‖ ≤ β * V := mul_le_mul (hβ i) (hV i) hV0 hβ0
      linarith
    have hdA : |dbA i| ≤ β + ε := by
      have := abs_sub_abs_le_abs_sub (dbA i) (dbB i)
      linarith [hdb i, hβ i]
    have hcv1 : C * ‖(stepV G xa.1 (bA i) (dbA i) (vs i)).get - (stepV G yc.1 (bB i) (dbB i) (vs i)).get‖ * ‖(vs i).get‖
        ≤ C * (M * s.eV + L * ε * s.yV + ε * V) * V :=
      mul_le_mul (mul_le_mul_of_nonneg_left hv1 hC) (hV i) hV0
        (mul_nonneg hC (le_trans (norm_nonneg _) hv1))
    have hcv2 : C * ‖(stepV G yc.1 (bB i) (dbB i) (vs i)).get‖ * ‖(vs i).get‖ ≤ C * (M * s.yV + β * V) * V :=
      mul_le_mul (mul_le_mul_of_nonneg_left hv2 hC) (hV i) hV0
        (mul_nonneg hC (le_trans (norm_nonneg _) hv2))
    have hcv1n : 0 ≤ C * ‖(stepV G xa.1 (bA i) (dbA i) (vs i)).get - (stepV G yc.1 (bB i) (dbB i) (vs i)).get‖ * ‖(vs i).get‖ :=
      mul_nonneg (mul_nonneg hC (norm_nonneg _)) hV0
    have hcv2n : 0 ≤ C * ‖(stepV G yc.1 (bB i) (dbB i) (vs i)).get‖ * ‖(vs i).get‖ :=
      mul_nonneg (mul_nonneg hC (norm_nonneg _)) hV0
    apply ih
    · exact hv1
    · refine le_trans (stepVA_acc_diff G h hc xa yc _ _ _ _ _ _ _) ?_
      have a1 : M * ‖xa.2.get - yc.2.get‖ ≤ M * s.eA := mul_le_mul_of_nonneg_left h2 hM
      have a2 : L * |bA i - bB i| * ‖yc.2.get‖ ≤ L * ε * s.yA :=
        mul_le_mul (mul_le_mul_of_nonneg_left (hb i) hL) h4 (norm_nonneg _) (mul_nonneg hL hε)
      have a3 := mul_le_mul hdA hcv1 hcv1n (by linarith)
      have a4 := mul_le_mul (hdb i) hcv2 hcv2n hε
      have a5 : |d2A i - d2B i| * ‖(vs i).get‖ ≤ ε * V := mul_le_mul (hd2 i) (hV i) hV0 hε
      simp only [vaStep]
      linarith
    · exact hv2
    · refine le_trans (stepVA_acc_norm G h hc yc _ _ _ _) ?_
      have a1 : M * ‖yc.2.get‖ ≤ M * s.yA := mul_le_mul_of_nonneg_left h4 hM
      have a2 := mul_le_mul (hβ i) hcv2 hcv2n hβ0
      have a3 : |d2B i| * ‖(vs i).get‖ ≤ β₂ * V := mul_le_mul (hβ₂ i) (hV i) hV0 hβ₂0
      simp only [vaStep]
      linarith

/-- the explicit bound of `knot_continuity_acc_tol`: start from the first factor of window A
    (`‖vel‖ ≤ εV`, `‖acc‖ ≤ εC(εV)V + εV`), run the recursion over the `n` shared factors, add the
    last factor of window B -/
noncomputable def accJumpBound (M L C ε β β₂ V : ℝ) (n : Nat) : ℝ :=
  let r := vaIter M L C ε β β₂ V n ⟨ε * V, ε * (C * (ε * V) * V) + ε * V, 0, 0⟩
  r.eA + L * ε * r.yA + ε * (C * (M * r.yV + ε * V) * V) + ε * V

/-- **Acceleration continuity at a knot up to `ε`**: jets that satisfy the knot identities of
    orders 0, 1 and 2 within `ε` give accelerations at `u = 1` of window A and `u = 0` of window B
    that differ by at most `accJumpBound M L C ε β β₂ V n` (every term carries a factor `ε`). -/
theorem knot_continuity_acc_tol {M L C ε β β₂ V : ℝ} (h : AdBounds G M L) (hc : adBound G C) (hε : 0 ≤ ε) {n : Nat}
    (vsA vsB : Fin (n + 1) → Vec ℝ G.dof) (Bcum : Mat ℝ (n + 2) (n + 2))
    (hvs : ∀ j : Fin n, vsA j.succ = vsB j.castSucc)
    (hfirst : |bd Bcum 1 1 (0 : Fin (n + 1))| ≤ ε ∧ |bd Bcum 1 2 (0 : Fin (n + 1))| ≤ ε)
    (hshift : ∀ j : Fin n, |bd Bcum 1 0 j.succ - bd Bcum 0 0 j.castSucc| ≤ ε ∧
      |bd Bcum 1 1 j.succ - bd Bcum 0 1 j.castSucc| ≤ ε ∧ |bd Bcum 1 2 j.succ - bd Bcum 0 2 j.castSucc| ≤ ε)
    (hlast : |bd Bcum 0 0 (Fin.last n)| ≤ ε ∧ |bd Bcum 0 1 (Fin.last n)| ≤ ε ∧ |bd Bcum 0 2 (Fin.last n)| ≤ ε)
    (hβ : ∀ j : Fin n, |bd Bcum 0 1 j.castSucc| ≤ β) (hβ₂ : ∀ j : Fin n, |bd Bcum 0 2 j.castSucc| ≤ β₂)
    (hV : ∀ j, ‖(vsA j).get‖ ≤ V) (hVl : ‖(vsB (Fin.last n)).get‖ ≤ V) :
    ‖(CSpline.eval_vs G vsA Bcum 1).acc.get - (CSpline.eval_vs G vsB Bcum 0).acc.get‖
      ≤ accJumpBound M L C ε β β₂ V n := by
  have hA := eval_vs_velacc G vsA Bcum 1
  have hB := eval_vs_velacc G vsB Bcum 0
  rw [List.finRange_succ] at hA
  rw [List.finRange_succ_last] at hB
  simp only [List.foldl_cons, List.foldl_map, List.foldl_append, List.foldl_nil] at hA hB
  have hAa : (CSpline.eval_vs G vsA Bcum 1).acc = _ := congrArg Prod.snd hA
  have hBa : (CSpline.eval_vs G vsB Bcum 0).acc = _ := congrArg Prod.snd hB
  rw [hAa, hBa]
  have hz : (vzero G.dof : Vec ℝ G.dof).get = 0 := by funext i; simp [vzero]
  have hC := hc.C_nonneg
  have hV00 : 0 ≤ ‖(vsA 0).get‖ := norm_nonneg _
  have hVp : 0 ≤ V := le_trans hV00 (hV 0)
  -- first factor of A: from zero velocity and acceleration
  obtain ⟨x0, hx0⟩ : ∃ x0, x0 = stepVA G (vzero _, vzero _) (bd Bcum 1 0 0) (bd Bcum 1 1 0) (bd Bcum 1 2 0) (vsA 0) :=
    ⟨_, rfl⟩
  rw [← hx0]
  have hx0v : ‖x0.1.get‖ ≤ ε * V := by
    rw [hx0, stepVA_fst, stepV_get, hz, mv_zero, zero_add, norm_smul, Real.norm_eq_abs]
    exact mul_le_mul hfirst.1 (hV 0) hV00 hε
  have hx0a : ‖x0.2.get‖ ≤ ε * (C * (ε * V) * V) + ε * V := by
    have hn := stepVA_acc_norm G h hc (vzero _, vzero _) (bd Bcum 1 0 0) (bd Bcum 1 1 0) (bd Bcum 1 2 0) (vsA 0)
    rw [← stepVA_fst G _ _ _ (bd Bcum 1 2 0), ← hx0] at hn
    simp only [hz, norm_zero, mul_zero, zero_add] at hn
    refine le_trans hn ?_
    have c1 : C * ‖x0.1.get‖ * ‖(vsA 0).get‖ ≤ C * (ε * V) * V :=
      mul_le_mul (mul_le_mul_of_nonneg_left hx0v hC) (hV 0) hV00 (mul_nonneg hC (mul_nonneg hε hVp))
    have c2 := mul_le_mul hfirst.1 c1 (mul_nonneg (mul_nonneg hC (norm_nonneg _)) hV00) hε
    have c3 := mul_le_mul hfirst.2 (hV 0) hV00 hε
    linarith
  -- the shared factors
  have hfold := fold_close_va G h hc hε (List.finRange n)
    (fun j => bd Bcum 1 0 j.succ) (fun j => bd Bcum 1 1 j.succ) (fun j => bd Bcum 1 2 j.succ)
    (fun j => bd Bcum 0 0 j.castSucc) (fun j => bd Bcum 0 1 j.castSucc) (fun j => bd Bcum 0 2 j.castSucc)
    (fun j => vsA j.succ)
    (fun j => (hshift j).1) (fun j => (hshift j).2.1) (fun j => (hshift j).2.2) hβ hβ₂ (fun j => hV j.succ)
    x0 (vzero _, vzero _) ⟨ε * V, ε * (C * (ε * V) * V) + ε * V, 0, 0⟩
    (by simpa [hz] using hx0v) (by simpa [hz] using hx0a) (by simp [hz]) (by simp [hz])
  simp only [List.length_finRange] at hfold
  obtain ⟨_, hEA, hYV, hYA⟩ := hfold
  have hfB : (fun (x : Vec ℝ G.dof × Vec ℝ G.dof) (j : Fin n) =>
        stepVA G x (bd Bcum 0 0 j.castSucc) (bd Bcum 0 1 j.castSucc) (bd Bcum 0 2 j.castSucc) (vsB j.castSucc))
      = fun x j => stepVA G x (bd Bcum 0 0 j.castSucc) (bd Bcum 0 1 j.castSucc) (bd Bcum 0 2 j.castSucc) (vsA j.succ) := by
    funext x j; rw [hvs j]
  rw [hfB]
  obtain ⟨xN, hxN⟩ : ∃ xN, xN = List.foldl (fun x (j : Fin n) =>
      stepVA G x (bd Bcum 1 0 j.succ) (bd Bcum 1 1 j.succ) (bd Bcum 1 2 j.succ) (vsA j.succ)) x0 (List.finRange n) := ⟨_, rfl⟩
  obtain ⟨yN, hyN⟩ : ∃ yN, yN = List.foldl (fun x (j : Fin n) =>
      stepVA G x (bd Bcum 0 0 j.castSucc) (bd Bcum 0 1 j.castSucc) (bd Bcum 0 2 j.castSucc) (vsA j.succ))
      (vzero _, vzero _) (List.finRange n) := ⟨_, rfl⟩
  rw [← hxN, ← hyN] at hEA
  rw [← hyN] at hYV hYA
  rw [← hxN, ← hyN]
  obtain ⟨r, hr⟩ : ∃ r, r = vaIter M L C ε β β₂ V n ⟨ε * V, ε * (C * (ε * V) * V) + ε * V, 0, 0⟩ := ⟨_, rfl⟩
  have hbound : accJumpBound M L C ε β β₂ V n
      = r.eA + L * ε * r.yA + ε * (C * (M * r.yV + ε * V) * V) + ε * V := by
    rw [hr]; rfl
  rw [hbound]
  rw [← hr] at hEA hYV hYA
  -- last factor of B: almost the identity
  have hVl0 : 0 ≤ ‖(vsB (Fin.last n)).get‖ := norm_nonneg _
  have hy' : ‖(stepV G yN.1 (bd Bcum 0 0 (Fin.last n)) (bd Bcum 0 1 (Fin.last n)) (vsB (Fin.last n))).get‖
      ≤ M * r.yV + ε * V := by
    refine le_trans (stepV_norm G h yN.1 _ _ _) ?_
    have a1 : M * ‖yN.1.get‖ ≤ M * r.yV := mul_le_mul_of_nonneg_left hYV h.M_nonneg
    have a2 := mul_le_mul hlast.2.1 hVl hVl0 hε
    linarith
  have hlastStep : ‖yN.2.get - (stepVA G yN (bd Bcum 0 0 (Fin.last n)) (bd Bcum 0 1 (Fin.last n))
        (bd Bcum 0 2 (Fin.last n)) (vsB (Fin.last n))).2.get‖
      ≤ L * ε * r.yA + ε * (C * (M * r.yV + ε * V) * V) + ε * V := by
    rw [stepVA_snd_get]
    obtain ⟨y', hy'e⟩ : ∃ y', y' = stepV G yN.1 (bd Bcum 0 0 (Fin.last n)) (bd Bcum 0 1 (Fin.last n)) (vsB (Fin.last n)) :=
      ⟨_, rfl⟩
    rw [← hy'e] at hy' ⊢
    have e : yN.2.get - (mv (AdB G (bd Bcum 0 0 (Fin.last n)) (vsB (Fin.last n))) yN.2.get
          + bd Bcum 0 1 (Fin.last n) • mv (G.ad y') (vsB (Fin.last n)).get
          + bd Bcum 0 2 (Fin.last n) • (vsB (Fin.last n)).get)
        = (mv (AdB G 0 (vsB (Fin.last n))) yN.2.get - mv (AdB G (bd Bcum 0 0 (Fin.last n)) (vsB (Fin.last n))) yN.2.get)
          - bd Bcum 0 1 (Fin.last n) • mv (G.ad y') (vsB (Fin.last n)).get
          - bd Bcum 0 2 (Fin.last n) • (vsB (Fin.last n)).get := by
      rw [h.zero]; module
    rw [e]
    have n1 := norm_sub_le
      ((mv (AdB G 0 (vsB (Fin.last n))) yN.2.get - mv (AdB G (bd Bcum 0 0 (Fin.last n)) (vsB (Fin.last n))) yN.2.get)
        - bd Bcum 0 1 (Fin.last n) • mv (G.ad y') (vsB (Fin.last n)).get)
      (bd Bcum 0 2 (Fin.last n) • (vsB (Fin.last n)).get)
    have n2 := norm_sub_le
      (mv (AdB G 0 (vsB (Fin.last n))) yN.2.get - mv (AdB G (bd Bcum 0 0 (Fin.last n)) (vsB (Fin.last n))) yN.2.get)
      (bd Bcum 0 1 (Fin.last n) • mv (G.ad y') (vsB (Fin.last n)).get)
    have h1 := h.lip 0 (bd Bcum 0 0 (Fin.last n)) (vsB (Fin.last n)) yN.2.get
    rw [zero_sub, abs_neg] at h1
    have h2 : L * |bd Bcum 0 0 (Fin.last n)| * ‖yN.2.get‖ ≤ L * ε * r.yA :=
      mul_le_mul (mul_le_mul_of_nonneg_left hlast.1 h.L_nonneg) hYA (norm_nonneg _) (mul_nonneg h.L_nonneg hε)
    have c1 : C * ‖y'.get‖ * ‖(vsB (Fin.last n)).get‖ ≤ C * (M * r.yV + ε * V) * V :=
      mul_le_mul (mul_le_mul_of_nonneg_left hy' hC) hVl hVl0 (mul_nonneg hC (le_trans (norm_nonneg _) hy'))
    have h3 : ‖bd Bcum 0 1 (Fin.last n) • mv (G.ad y') (vsB (Fin.last n)).get‖ ≤ ε * (C * (M * r.yV + ε * V) * V) := by
      rw [norm_smul, Real.norm_eq_abs]
      exact mul_le_mul hlast.2.1 (le_trans (hc.bound _ _) c1) (norm_nonneg _) hε
    have h4 : ‖bd Bcum 0 2 (Fin.last n) • (vsB (Fin.last n)).get‖ ≤ ε * V := by
      rw [norm_smul, Real.norm_eq_abs]
      exact mul_le_mul hlast.2.2 hVl hVl0 hε
    linarith
  have tri := norm_sub_le_norm_sub_add_norm_sub xN.2.get yN.2.get
    (stepVA G yN (bd Bcum 0 0 (Fin.last n)) (bd Bcum 0 1 (Fin.last n)) (bd Bcum 0 2 (Fin.last n)) (vsB (Fin.last n))).2.get
  linarith

/-! ### the bound in the commutative case (`M = 1`, `L = 0`, `C = 0`): `(n+2)·ε·V` -/

theorem vaIter_comm (ε β β₂ V : ℝ) : ∀ (k : Nat) (s : Err4),
    (vaIter 1 0 0 ε β β₂ V k s).eA = s.eA + k * (ε * V)
  | 0, s => by simp [vaIter]
  | k + 1, s => by
    rw [vaIter_succ, vaIter_comm ε β β₂ V k]
    simp only [vaStep]
    push_cast
    ring

theorem accJumpBound_comm (ε β β₂ V : ℝ) (n : Nat) : accJumpBound 1 0 0 ε β β₂ V n = ((n : ℝ) + 2) * (ε * V) := by
  unfold accJumpBound
  simp only [vaIter_comm]
  ring

/-! ### a non-commutative instance of `adBound`: SO(3), `C = 2` (sup norm of a cross product) -/

theorem so3_cross_bound (d v : Fin 3 → ℝ) (i : Fin 3) :
    |C11.mv (SO3.hat (α := ℝ) (.of d)) v i| ≤ 2 * ‖d‖ * ‖v‖ := by
  have hd : ∀ k, |d k| ≤ ‖d‖ := fun k => by simpa using norm_le_pi_norm d k
  have hv : ∀ k, |v k| ≤ ‖v‖ := fun k => by simpa using norm_le_pi_norm v k
  have hm : ∀ a b : Fin 3, |d a * v b| ≤ ‖d‖ * ‖v‖ := fun a b => by
    rw [abs_mul]; exact mul_le_mul (hd a) (hv b) (abs_nonneg _) (norm_nonneg _)
  fin_cases i
  · have e : C11.mv (SO3.hat (α := ℝ) (.of d)) v (0 : Fin 3) = -(d 2 * v 1) + d 1 * v 2 := by
      simp [C11.mv, SO3.hat, mat3, Fin.sum_univ_three, Mat.of, Vec.of]
    show |C11.mv (SO3.hat (α := ℝ) (.of d)) v (0 : Fin 3)| ≤ _
    rw [e]
    have := abs_add_le (-(d 2 * v 1)) (d 1 * v 2)
    rw [abs_neg] at this
    linarith [hm 2 1, hm 1 2]
  · have e : C11.mv (SO3.hat (α := ℝ) (.of d)) v (1 : Fin 3) = d 2 * v 0 + -(d 0 * v 2) := by
      simp [C11.mv, SO3.hat, mat3, Fin.sum_univ_three, Mat.of, Vec.of]
    show |C11.mv (SO3.hat (α := ℝ) (.of d)) v (1 : Fin 3)| ≤ _
    rw [e]
    have := abs_add_le (d 2 * v 0) (-(d 0 * v 2))
    rw [abs_neg] at this
    linarith [hm 2 0, hm 0 2]
  · have e : C11.mv (SO3.hat (α := ℝ) (.of d)) v (2 : Fin 3) = -(d 1 * v 0) + d 0 * v 1 := by
      simp [C11.mv, SO3.hat, mat3, Fin.sum_univ_three, Mat.of, Vec.of]
    show |C11.mv (SO3.hat (α := ℝ) (.of d)) v (2 : Fin 3)| ≤ _
    rw [e]
    have := abs_add_le (-(d 1 * v 0)) (d 0 * v 1)
    rw [abs_neg] at this
    linarith [hm 1 0, hm 0 1]

theorem so3_hat_sub (x y : Vec ℝ 3) (v : Fin 3 → ℝ) :
    C11.mv (SO3.hat x) v - C11.mv (SO3.hat y) v = C11.mv (SO3.hat (α := ℝ) (.of (x.get - y.get))) v := by
  funext i
  fin_cases i <;> simp [C11.mv, SO3.hat, mat3, Fin.sum_univ_three, Mat.of, Vec.of] <;> ring

end C13
