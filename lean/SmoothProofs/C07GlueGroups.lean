/-
  C07GlueGroups.lean — `CanonRep` for every concrete group model: the matrix determines the
  canonical coefficient vector (outright for SO2, C1, Tn, SE2; up to the quaternion sign, fixed by
  `w ≥ 0` / `w > 0`, for SO3, SE3, SE_K_3, Galilei), and `log identity = 0`.
-/
import SmoothProofs.C07Glue
import SmoothProofs.C02Log
import SmoothProofs.C02LogSE2
import SmoothProofs.C02LogSO3
import Mathlib.Tactic.FinCases
import Mathlib.Tactic.Linarith
import Mathlib.Tactic.LinearCombination

open Scalar Lin Manif

set_option linter.unusedSectionVars false
set_option linter.unusedSimpArgs false

namespace C07

theorem arg_mk_one_zero : Complex.arg (⟨1, 0⟩ : ℂ) = 0 := by
  have : (⟨1, 0⟩ : ℂ) = 1 := by apply Complex.ext <;> simp
  rw [this, Complex.arg_one]

theorem so2_matrix_inj (a b : Vec ℝ 2) (h : SO2.matrix a = SO2.matrix b) : a = b := by
  have h0 := congrArg (fun M : Mat ℝ 2 2 => M 1 0) h
  have h1 := congrArg (fun M : Mat ℝ 2 2 => M 0 0) h
  simp [SO2.matrix, mat2, Mat.of] at h0 h1
  ext i; fin_cases i <;> simp [h0, h1]

theorem so2_log_identity : SO2.log (SO2.identity : Vec ℝ 2) = vzero 1 := by
  ext i; fin_cases i
  simp [SO2.log, SO2.identity, mk1, mk2, vzero, Vec.of, Scalar.atan2, arg_mk_one_zero]

theorem so2_canonRep : CanonRep (SO2.model : LieModel ℝ) SO2.Unit (fun _ => True) (fun _ => True) where
  canon_comp := fun _ _ => trivial
  inj := fun a b _ _ _ _ hm => so2_matrix_inj a b hm
  strict_id := trivial
  log_id := so2_log_identity

theorem c1_matrix_inj (a b : Vec ℝ 2) (h : C1.matrix a = C1.matrix b) : a = b := by
  have h0 := congrArg (fun M : Mat ℝ 2 2 => M 1 0) h
  have h1 := congrArg (fun M : Mat ℝ 2 2 => M 0 0) h
  simp [C1.matrix, mat2, Mat.of] at h0 h1
  ext i; fin_cases i <;> simp [h0, h1]

theorem c1_log_identity : C1.log (C1.identity : Vec ℝ 2) = vzero 2 := by
  ext i; fin_cases i <;>
    simp [C1.log, C1.identity, mk2, vzero, Vec.of, Scalar.atan2, Scalar.log, Scalar.sqrt, arg_mk_one_zero]

theorem c1_canonRep : CanonRep (C1.model : LieModel ℝ) C1.Valid (fun _ => True) (fun _ => True) where
  canon_comp := fun _ _ => trivial
  inj := fun a b _ _ _ _ hm => c1_matrix_inj a b hm
  strict_id := trivial
  log_id := c1_log_identity

theorem tn_matrix_inj {n : Nat} (a b : Vec ℝ n) (h : Tn.matrix a = Tn.matrix b) : a = b := by
  ext i
  have h0 := congrArg (fun M : Mat ℝ (n+1) (n+1) => M ⟨i.val, by omega⟩ ⟨n, by omega⟩) h
  simpa [Tn.matrix, Mat.of, i.isLt] using h0

theorem tn_canonRep (n : Nat) : CanonRep (Tn.model n : LieModel ℝ) (fun _ => True) (fun _ => True) (fun _ => True) where
  canon_comp := fun _ _ => trivial
  inj := fun a b _ _ _ _ hm => tn_matrix_inj a b hm
  strict_id := trivial
  log_id := rfl

theorem se2_matrix_inj (a b : Vec ℝ 4) (h : SE2.matrix a = SE2.matrix b) : a = b := by
  have h0 := congrArg (fun M : Mat ℝ 3 3 => M 0 2) h
  have h1 := congrArg (fun M : Mat ℝ 3 3 => M 1 2) h
  have h2 := congrArg (fun M : Mat ℝ 3 3 => M 1 0) h
  have h3 := congrArg (fun M : Mat ℝ 3 3 => M 0 0) h
  simp [SE2.matrix, SE2.so2, SO2.matrix, mat2, mat3, mk2, Mat.of, Vec.of] at h0 h1 h2 h3
  ext i; fin_cases i <;> simp [h0, h1, h2, h3]

/-- all pairwise products of the coefficients of two unit quaternions with the same matrix agree -/
theorem so3_products_eq (a b : Vec ℝ 4) (ha : SO3.Unit a) (hb : SO3.Unit b)
    (h : SO3.matrix a = SO3.matrix b) :
    a 0 * a 0 = b 0 * b 0 ∧ a 1 * a 1 = b 1 * b 1 ∧ a 2 * a 2 = b 2 * b 2 ∧ a 3 * a 3 = b 3 * b 3 ∧
    a 0 * a 1 = b 0 * b 1 ∧ a 0 * a 2 = b 0 * b 2 ∧ a 0 * a 3 = b 0 * b 3 ∧
    a 1 * a 2 = b 1 * b 2 ∧ a 1 * a 3 = b 1 * b 3 ∧ a 2 * a 3 = b 2 * b 3 := by
  have e (i j : Fin 3) := congrArg (fun M : Mat ℝ 3 3 => M i j) h
  have e00 := e 0 0; have e01 := e 0 1; have e02 := e 0 2
  have e10 := e 1 0; have e11 := e 1 1; have e12 := e 1 2
  have e20 := e 2 0; have e21 := e 2 1; have e22 := e 2 2
  simp [SO3.matrix, mat3, Mat.of] at e00 e01 e02 e10 e11 e12 e20 e21 e22
  simp only [SO3.Unit] at ha hb
  refine ⟨?_, ?_, ?_, ?_, ?_, ?_, ?_, ?_, ?_, ?_⟩
  · linear_combination (1/4) * e11 + (1/4) * e22 - (1/4) * e00
  · linear_combination (1/4) * e00 + (1/4) * e22 - (1/4) * e11
  · linear_combination (1/4) * e00 + (1/4) * e11 - (1/4) * e22
  · linear_combination ha - hb - (1/4) * e00 - (1/4) * e11 - (1/4) * e22
  · linear_combination (1/4) * e01 + (1/4) * e10
  · linear_combination (1/4) * e02 + (1/4) * e20
  · linear_combination (1/4) * e21 - (1/4) * e12
  · linear_combination (1/4) * e12 + (1/4) * e21
  · linear_combination (1/4) * e02 - (1/4) * e20
  · linear_combination (1/4) * e10 - (1/4) * e01


/-- two unit quaternions with the same rotation matrix differ at most by the sign -/
theorem so3_matrix_pm (a b : Vec ℝ 4) (ha : SO3.Unit a) (hb : SO3.Unit b)
    (h : SO3.matrix a = SO3.matrix b) : b = a ∨ b = vneg a := by
  obtain ⟨p00, p11, p22, p33, p01, p02, p03, p12, p13, p23⟩ := so3_products_eq a b ha hb h
  simp only [SO3.Unit] at ha hb
  set s := a 0 * b 0 + a 1 * b 1 + a 2 * b 2 + a 3 * b 3 with hs
  have hb0 : b 0 = s * a 0 := by
    linear_combination (-(b 0)) * hb - (b 0) * p00 - (b 1) * p01 - (b 2) * p02 - (b 3) * p03
  have hb1 : b 1 = s * a 1 := by
    linear_combination (-(b 1)) * hb - (b 0) * p01 - (b 1) * p11 - (b 2) * p12 - (b 3) * p13
  have hb2 : b 2 = s * a 2 := by
    linear_combination (-(b 2)) * hb - (b 0) * p02 - (b 1) * p12 - (b 2) * p22 - (b 3) * p23
  have hb3 : b 3 = s * a 3 := by
    linear_combination (-(b 3)) * hb - (b 0) * p03 - (b 1) * p13 - (b 2) * p23 - (b 3) * p33
  have hs2 : s * s = 1 := by
    linear_combination (-(s * s)) * ha + hb - (b 0 + s * a 0) * hb0 - (b 1 + s * a 1) * hb1
      - (b 2 + s * a 2) * hb2 - (b 3 + s * a 3) * hb3
  have hcases : s = 1 ∨ s = -1 := by
    have : (s - 1) * (s + 1) = 0 := by linear_combination hs2
    rcases mul_eq_zero.1 this with h1 | h1
    · left; linarith
    · right; linarith
  rcases hcases with h1 | h1
  · left
    rw [h1] at hb0 hb1 hb2 hb3
    ext i; fin_cases i
    · simpa using hb0
    · simpa using hb1
    · simpa using hb2
    · simpa using hb3
  · right
    rw [h1] at hb0 hb1 hb2 hb3
    ext i; fin_cases i
    · simpa [vneg, Vec.of] using hb0
    · simpa [vneg, Vec.of] using hb1
    · simpa [vneg, Vec.of] using hb2
    · simpa [vneg, Vec.of] using hb3

/-- a canonical (`w ≥ 0`) and a strict (`w > 0`) unit quaternion with the same matrix are equal -/
theorem so3_matrix_inj (a b : Vec ℝ 4) (ha : SO3.Unit a) (hb : SO3.Unit b) (hca : 0 ≤ a 3)
    (hsb : 0 < b 3) (h : SO3.matrix a = SO3.matrix b) : a = b := by
  rcases so3_matrix_pm a b ha hb h with h1 | h1
  · exact h1.symm
  · exfalso
    have := congrArg (fun v : Vec ℝ 4 => v 3) h1
    simp [vneg, Vec.of] at this
    linarith


theorem vsum_zero (k : Nat) (f : Fin k → ℝ) (hf : ∀ l, f l = 0) : vsum k f = 0 := by
  induction k with
  | zero => simp [vsum]
  | succ k ih =>
    rw [vsum, ih (fun i => f i.castSucc) (fun l => hf _), hf]
    simp

theorem mulVec_vzero {n m : Nat} (M : Mat ℝ n m) : mulVec M (vzero m) = vzero n := by
  ext i
  simp only [mulVec, vzero, Vec.of]
  have := vsum_zero m (fun l => M i l * (nat 0 : ℝ)) (by intro l; simp)
  simpa using this

theorem se2_log_identity : SE2.log (SE2.identity : Vec ℝ 4) = vzero 3 := by
  have hth : (SO2.log (SE2.so2 (SE2.identity : Vec ℝ 4))) 0 = 0 := by
    simp [SO2.log, SE2.so2, SE2.identity, mk1, mk2, mk4, Vec.of, Scalar.atan2, arg_mk_one_zero]
  have hr : SE2.r2 (SE2.identity : Vec ℝ 4) = vzero 2 := by
    ext i; fin_cases i <;> simp [SE2.r2, SE2.identity, mk2, mk4, vzero, Vec.of]
  ext i
  simp only [SE2.log, hth, hr, mulVec_vzero]
  fin_cases i <;> simp [mk3, vzero, Vec.of]

theorem se2_canonRep : CanonRep (SE2.model : LieModel ℝ) SE2.Unit (fun _ => True) (fun _ => True) where
  canon_comp := fun _ _ => trivial
  inj := fun a b _ _ _ _ hm => se2_matrix_inj a b hm
  strict_id := trivial
  log_id := se2_log_identity

/-! ### SO3 -/

theorem so3_log_identity : SO3.log (SO3.identity : Vec ℝ 4) = vzero 3 := by
  ext i
  fin_cases i <;> simp [SO3.log, SO3.identity, mk3, mk4, vzero, Vec.of]

theorem so3_identity_strict : 0 < (SO3.identity : Vec ℝ 4) 3 := by
  simp [SO3.identity, mk4, Vec.of]

theorem so3_canonRep :
    CanonRep (SO3.model : LieModel ℝ) SO3.Unit (fun q : Vec ℝ 4 => 0 ≤ q 3)
      (fun q : Vec ℝ 4 => 0 < q 3) where
  canon_comp := fun a b => SO3.canon_composition a b
  inj := fun a b ha hb hca hsb hm => so3_matrix_inj a b ha hb hca hsb hm
  strict_id := so3_identity_strict
  log_id := so3_log_identity

/-! ### SE3 -/

theorem se3_matrix_inj (a b : Vec ℝ 7) (ha : SE3.Unit a) (hb : SE3.Unit b)
    (hca : 0 ≤ (SE3.so3 a) 3) (hsb : 0 < (SE3.so3 b) 3) (h : SE3.matrix a = SE3.matrix b) : a = b := by
  have hR : SO3.matrix (SE3.so3 a) = SO3.matrix (SE3.so3 b) := by
    ext i j
    have := congrArg (fun M : Mat ℝ 4 4 => M ⟨i.val, by omega⟩ ⟨j.val, by omega⟩) h
    simpa [SE3.matrix, Mat.of, i.isLt, j.isLt] using this
  have hq := so3_matrix_inj _ _ ha hb hca hsb hR
  have ht : ∀ k : Fin 3, a ⟨k.val, by omega⟩ = b ⟨k.val, by omega⟩ := by
    intro k
    have := congrArg (fun M : Mat ℝ 4 4 => M ⟨k.val, by omega⟩ ⟨3, by omega⟩) h
    simpa [SE3.matrix, Mat.of, k.isLt] using this
  have hq' : ∀ k : Fin 4, (SE3.so3 a) k = (SE3.so3 b) k := fun k => by rw [hq]
  ext i
  fin_cases i
  · exact ht 0
  · exact ht 1
  · exact ht 2
  · simpa [SE3.so3, mk4, Vec.of] using hq' 0
  · simpa [SE3.so3, mk4, Vec.of] using hq' 1
  · simpa [SE3.so3, mk4, Vec.of] using hq' 2
  · simpa [SE3.so3, mk4, Vec.of] using hq' 3

theorem se3_log_identity : SE3.log (SE3.identity : Vec ℝ 7) = vzero 6 := by
  have hw : SO3.log (SE3.so3 (SE3.identity : Vec ℝ 7)) = vzero 3 := by
    rw [SE3.so3_identity, so3_log_identity]
  have hr : SE3.r3 (SE3.identity : Vec ℝ 7) = vzero 3 := by
    simp [SE3.identity, SE3.r3_mk7]
  ext i
  simp only [SE3.log, memoV_eq, memoM_eq, hw, hr, mulVec_vzero]
  fin_cases i <;> simp [SE3.mk6, vzero, Vec.of]

theorem se3_canon_comp (a b : Vec ℝ 7) : 0 ≤ (SE3.so3 (SE3.composition a b)) 3 := by
  rw [SE3.so3_composition]; exact SO3.canon_composition _ _

theorem se3_identity_strict : 0 < (SE3.so3 (SE3.identity : Vec ℝ 7)) 3 := by
  rw [SE3.so3_identity]; exact so3_identity_strict

theorem se3_canonRep :
    CanonRep (SE3.model : LieModel ℝ) SE3.Unit (fun g : Vec ℝ 7 => 0 ≤ (SE3.so3 g) 3)
      (fun g : Vec ℝ 7 => 0 < (SE3.so3 g) 3) where
  canon_comp := se3_canon_comp
  inj := fun a b ha hb hca hsb hm => se3_matrix_inj a b ha hb hca hsb hm
  strict_id := se3_identity_strict
  log_id := se3_log_identity

/-! ### Galilei -/

theorem galilei_matrix_inj (a b : Vec ℝ 11) (ha : Galilei.Unit a) (hb : Galilei.Unit b)
    (hca : 0 ≤ (Galilei.gq a) 3) (hsb : 0 < (Galilei.gq b) 3)
    (h : Galilei.matrix a = Galilei.matrix b) : a = b := by
  have hR : SO3.matrix (Galilei.gq a) = SO3.matrix (Galilei.gq b) := by
    ext i j
    have := congrArg (fun M : Mat ℝ 5 5 => M ⟨i.val, by omega⟩ ⟨j.val, by omega⟩) h
    simpa [Galilei.matrix, Mat.of, i.isLt, j.isLt] using this
  have hq := so3_matrix_inj _ _ ha hb hca hsb hR
  have hv : ∀ k : Fin 3, a ⟨k.val, by omega⟩ = b ⟨k.val, by omega⟩ := by
    intro k
    have := congrArg (fun M : Mat ℝ 5 5 => M ⟨k.val, by omega⟩ ⟨3, by omega⟩) h
    simpa [Galilei.matrix, Mat.of, k.isLt] using this
  have hp : ∀ k : Fin 3, a ⟨3 + k.val, by omega⟩ = b ⟨3 + k.val, by omega⟩ := by
    intro k
    have := congrArg (fun M : Mat ℝ 5 5 => M ⟨k.val, by omega⟩ ⟨4, by omega⟩) h
    simpa [Galilei.matrix, Mat.of, k.isLt] using this
  have ht : a 6 = b 6 := by
    have := congrArg (fun M : Mat ℝ 5 5 => M ⟨3, by omega⟩ ⟨4, by omega⟩) h
    simpa [Galilei.matrix, Mat.of] using this
  have hq' : ∀ k : Fin 4, (Galilei.gq a) k = (Galilei.gq b) k := fun k => by rw [hq]
  ext i
  fin_cases i
  · exact hv 0
  · exact hv 1
  · exact hv 2
  · exact hp 0
  · exact hp 1
  · exact hp 2
  · exact ht
  · simpa [Galilei.gq, mk4, Vec.of] using hq' 0
  · simpa [Galilei.gq, mk4, Vec.of] using hq' 1
  · simpa [Galilei.gq, mk4, Vec.of] using hq' 2
  · simpa [Galilei.gq, mk4, Vec.of] using hq' 3

theorem galilei_log_identity : Galilei.log (Galilei.identity : Vec ℝ 11) = vzero 10 := by
  have hw : SO3.log (Galilei.gq (Galilei.identity : Vec ℝ 11)) = vzero 3 := by
    rw [Galilei.gq_identity, so3_log_identity]
  have hv : Galilei.gv (Galilei.identity : Vec ℝ 11) = vzero 3 := by
    ext i; fin_cases i <;> simp [Galilei.gv, Galilei.identity, Galilei.mkG, mk3, vzero, Vec.of]
  have hp : Galilei.gp (Galilei.identity : Vec ℝ 11) = vzero 3 := by
    ext i; fin_cases i <;> simp [Galilei.gp, Galilei.identity, Galilei.mkG, mk3, vzero, Vec.of]
  have ht : Galilei.gt (Galilei.identity : Vec ℝ 11) = 0 := by
    simp [Galilei.gt, Galilei.identity, Galilei.mkG, Vec.of]
  have hz : (Vec.of (fun i : Fin 3 => (vzero 3 : Vec ℝ 3) i - (vzero 3 : Vec ℝ 3) i * (0 : ℝ)) : Vec ℝ 3)
      = vzero 3 := by
    ext i; simp [vzero, Vec.of]
  ext i
  simp only [Galilei.log, memoV_eq, memoM_eq, hw, hv, hp, ht, mulVec_vzero, hz]
  fin_cases i <;> simp [Galilei.mkT, vzero, Vec.of]

theorem galilei_canon_comp (a b : Vec ℝ 11) : 0 ≤ (Galilei.gq (Galilei.composition a b)) 3 := by
  rw [Galilei.gq_composition]; exact SO3.canon_composition _ _

theorem galilei_identity_strict : 0 < (Galilei.gq (Galilei.identity : Vec ℝ 11)) 3 := by
  rw [Galilei.gq_identity]; exact so3_identity_strict

theorem galilei_canonRep :
    CanonRep (Galilei.model : LieModel ℝ) Galilei.Unit (fun g : Vec ℝ 11 => 0 ≤ (Galilei.gq g) 3)
      (fun g : Vec ℝ 11 => 0 < (Galilei.gq g) 3) where
  canon_comp := galilei_canon_comp
  inj := fun a b ha hb hca hsb hm => galilei_matrix_inj a b ha hb hca hsb hm
  strict_id := galilei_identity_strict
  log_id := galilei_log_identity

/-! ### SE_K_3, every K -/

theorem sek3_matrix_inj (k : Nat) (a b : Vec ℝ (4 + 3 * k)) (ha : SEK3.Unit k a) (hb : SEK3.Unit k b)
    (hca : 0 ≤ (SEK3.gq k a) 3) (hsb : 0 < (SEK3.gq k b) 3)
    (h : SEK3.matrix k a = SEK3.matrix k b) : a = b := by
  have hR : SO3.matrix (SEK3.gq k a) = SO3.matrix (SEK3.gq k b) := by
    ext i j
    have := congrArg (fun M : Mat ℝ (3 + k) (3 + k) => M ⟨i.val, by omega⟩ ⟨j.val, by omega⟩) h
    simpa [SEK3.matrix, Mat.of, i.isLt, j.isLt] using this
  have hq := so3_matrix_inj _ _ ha hb hca hsb hR
  ext n
  by_cases hn : n.val < 3 * k
  · -- a translation coefficient: entry (n % 3, 3 + n / 3)
    have h3 : n.val % 3 < 3 := Nat.mod_lt _ (by decide)
    have hd : n.val / 3 < k := by omega
    have := congrArg (fun M : Mat ℝ (3 + k) (3 + k) =>
      M ⟨n.val % 3, by omega⟩ ⟨3 + n.val / 3, by omega⟩) h
    simp only [SEK3.matrix, Mat.of_get, h3, dite_true, show ¬ (3 + n.val / 3 < 3) by omega,
      dite_false] at this
    have e : 3 * (3 + n.val / 3 - 3) + n.val % 3 = n.val := by omega
    have ea : (⟨3 * (3 + n.val / 3 - 3) + n.val % 3, by omega⟩ : Fin (4 + 3 * k)) = n := Fin.ext e
    rw [ea] at this
    exact this
  · -- a quaternion coefficient
    have hm : n.val - 3 * k < 4 := by have := n.isLt; omega
    have := congrArg (fun v : Vec ℝ 4 => v ⟨n.val - 3 * k, hm⟩) hq
    simp only [SEK3.gq, Vec.of_get] at this
    have ea : (⟨3 * k + (n.val - 3 * k), by omega⟩ : Fin (4 + 3 * k)) = n := Fin.ext (by simp; omega)
    rw [ea] at this
    exact this

theorem sek3_log_identity (k : Nat) : SEK3.log k (SEK3.identity k : Vec ℝ (4 + 3 * k)) = vzero (3 + 3 * k) := by
  have hw : SO3.log (SEK3.gq k (SEK3.identity k : Vec ℝ (4 + 3 * k))) = vzero 3 := by
    rw [SEK3.gq_identity, so3_log_identity]
  have hp : ∀ j, SEK3.gp k (SEK3.identity k : Vec ℝ (4 + 3 * k)) j = vzero 3 := by
    intro j; simp [SEK3.identity, SEK3.gp_mkG]
  ext i
  simp only [SEK3.log, memoV_eq, memoM_eq, hw, hp, mulVec_vzero, SEK3.mkT, Vec.of_get]
  split <;> simp [vzero, Vec.of]

theorem sek3_canon_comp (k : Nat) (a b : Vec ℝ (4 + 3 * k)) :
    0 ≤ (SEK3.gq k (SEK3.composition k a b)) 3 := by
  rw [SEK3.gq_composition]; exact SO3.canon_composition _ _

theorem sek3_identity_strict (k : Nat) : 0 < (SEK3.gq k (SEK3.identity k : Vec ℝ (4 + 3 * k))) 3 := by
  rw [SEK3.gq_identity]; exact so3_identity_strict

theorem sek3_canonRep (k : Nat) :
    CanonRep (SEK3.model k : LieModel ℝ) (SEK3.Unit k)
      (fun g : Vec ℝ (4 + 3 * k) => 0 ≤ (SEK3.gq k g) 3)
      (fun g : Vec ℝ (4 + 3 * k) => 0 < (SEK3.gq k g) 3) where
  canon_comp := sek3_canon_comp k
  inj := fun a b ha hb hca hsb hm => sek3_matrix_inj k a b ha hb hca hsb hm
  strict_id := sek3_identity_strict k
  log_id := sek3_log_identity k

end C07
