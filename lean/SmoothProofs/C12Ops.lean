/-
  C12Ops.lean — the register machine of the driver (`spl_script`): a LIST of operations applied to a
  register file of splines; every register satisfies the invariant after any operation list.
-/
import SmoothProofs.C12Crop

set_option linter.unusedSectionVars false

open SplineSM SplineSM.TimeOps

namespace C12

variable {τ : Type} [Field τ] [LinearOrder τ] [IsStrictOrderedRing τ]
attribute [local instance] fieldTime
variable {G W : Type} [Group G] {C : Ker τ G W}

/-- operations of a script; operands are register indices -/
inductive Op (τ G W : Type) where
  | empty (ga : G)
  | ctorV (T : τ) (V : List W) (ga : G)
  | ctorVs (T : τ) (vs : List W) (ga : G)
  | cv (v : W) (T : τ) (ga : G)
  | cvGoal (gb : G) (T : τ) (ga : G)
  | fixedCubic (gb : G) (va vb : W) (T : τ) (ga : G)
  | concatLocal (i j : Nat)
  | concatGlobal (i j : Nat)
  | crop (i : Nat) (ta tb : τ) (loc : Bool)

open Classical in
/-- one step: the result is appended as a new register; an operation whose precondition fails
    (non-positive duration, operand in the wrong frame, missing register) leaves the file unchanged -/
noncomputable def step (C : Ker τ G W) (regs : List (Spline τ G W)) : Op τ G W → List (Spline τ G W)
  | .empty ga => regs ++ [SplineSM.empty ga]
  | .ctorV T V ga => if 0 < T then regs ++ [ctor C T V ga] else regs
  | .ctorVs T V ga => if 0 < T then regs ++ [SplineSM.ctorVs C T V ga] else regs
  | .cv v T ga => regs ++ [constantVelocity C v T ga]
  | .cvGoal gb T ga => regs ++ [constantVelocityGoal C gb T ga]
  | .fixedCubic gb va vb T ga => if 0 < T then regs ++ [SplineSM.fixedCubic C gb va vb T ga] else regs
  | .concatLocal i j =>
    match regs[i]?, regs[j]? with
    | some s, some o => if s.segs = [] ∨ o.g0 = 1 then regs ++ [SplineSM.concatLocal C s o] else regs
    | _, _ => regs
  | .concatGlobal i j =>
    match regs[i]?, regs[j]? with
    | some s, some o => if s.segs = [] ∨ o.g0 = endG s then regs ++ [SplineSM.concatGlobal s o] else regs
    | _, _ => regs
  | .crop i ta tb loc =>
    match regs[i]? with
    | some x => regs ++ [SplineSM.crop C x ta tb loc]
    | none => regs

theorem step_inv (hK : GroupKer C) (regs : List (Spline τ G W)) (h : ∀ s ∈ regs, Inv C s) (op : Op τ G W) :
    ∀ s ∈ step C regs op, Inv C s := by
  have hadd : ∀ y : Spline τ G W, Inv C y → ∀ s ∈ regs ++ [y], Inv C s := by
    intro y hy s hs
    rcases List.mem_append.1 hs with hs | hs
    · exact h s hs
    · rw [List.mem_singleton.1 hs]; exact hy
  cases op with
  | empty ga => exact hadd _ (inv_empty ga)
  | ctorV T V ga =>
    simp only [step]; split
    · rename_i hT; exact hadd _ (inv_ctor hK hT V ga)
    · exact h
  | ctorVs T V ga =>
    simp only [step]; split
    · rename_i hT; exact hadd _ (inv_ctorVs hK hT V ga)
    · exact h
  | cv v T ga => exact hadd _ (inv_constantVelocity hK v T ga)
  | cvGoal gb T ga => exact hadd _ (inv_constantVelocityGoal hK gb T ga)
  | fixedCubic gb va vb T ga =>
    simp only [step]; split
    · rename_i hT; exact hadd _ (inv_fixedCubic hK gb va vb hT ga)
    · exact h
  | concatLocal i j =>
    simp only [step]
    split
    · rename_i s o hi hj
      split
      · rename_i hc
        exact hadd _ (inv_concatLocal hK (h s (List.mem_of_getElem? hi)) (h o (List.mem_of_getElem? hj)) hc)
      · exact h
    · exact h
  | concatGlobal i j =>
    simp only [step]
    split
    · rename_i s o hi hj
      split
      · rename_i hc
        exact hadd _ (inv_concatGlobal (h s (List.mem_of_getElem? hi)) (h o (List.mem_of_getElem? hj)) hc)
      · exact h
    · exact h
  | crop i ta tb loc =>
    simp only [step]
    split
    · rename_i x hi
      exact hadd _ (crop_inv hK x (h x (List.mem_of_getElem? hi)) ta tb loc)
    · exact h

/-- the invariant holds in every register after ANY list of operations -/
theorem ops_inv (hK : GroupKer C) (ops : List (Op τ G W)) (regs : List (Spline τ G W)) (h : ∀ s ∈ regs, Inv C s) :
    ∀ s ∈ ops.foldl (step C) regs, Inv C s := by
  induction ops generalizing regs with
  | nil => exact h
  | cons op r ih => exact ih _ (step_inv hK regs h op)

end C12
