/-
  C15Lift.lean — the lift / project steps of a history (SO2 ↔ SO3, SE2 ↔ SE3).

  The companion types `Hist.so2Lifting`, `Hist.se2Lifting` are the C17 conversions
  `Conv.lift_so3 / project_so2 / lift_se3 / project_se2`; everything about them over ℝ comes from
  SmoothProofs/C17Lift.lean.  Here:
  * the lifted element is exactly unit and canonical, whatever the SO2 / SE2 element (no
    hypothesis: `lift_so3` goes through `atan2`, so it renormalises), the projected element is
    exactly unit whatever the SO3 / SE3 element;
  * `lift_half_angle`: for a unit `(s, c)` the lift is `(0, 0, q_z, q_w)` with
    `q_w = √((1+c)/2) ≥ 0`, `q_z² = (1−c)/2`, `2 q_z q_w = s` — the exact value the audit oracle
    computes — and at the half turn it is `(0,0,1,0)` although `s / (2 q_w) = 0/0`;
  * `Hist.Graded` instances for the two-sorted machines, and the generic instance for groups
    without lifts (`graded_triv`).
-/
import SmoothProofs.C15Hist
import SmoothProofs.C15SO3
import SmoothProofs.C17Lift
import SmoothProofs.C01Small

open Lin Scalar

namespace C15
open Hist

-- ---------------------------------------------------------------- unfolding the companion records
@[simp] theorem so2Lifting_lift (g : Vec ℝ 2) :
    (so2Lifting : Lifting ℝ SO2.model).lift g = Conv.lift_so3 g := rfl
@[simp] theorem so2Lifting_project (q : Vec ℝ 4) :
    (so2Lifting : Lifting ℝ SO2.model).project q = Conv.project_so2 q := rfl
@[simp] theorem se2Lifting_lift (g : Vec ℝ 4) :
    (se2Lifting : Lifting ℝ SE2.model).lift g = Conv.lift_se3 g := rfl
@[simp] theorem se2Lifting_project (q : Vec ℝ 7) :
    (se2Lifting : Lifting ℝ SE2.model).project q = Conv.project_se2 q := rfl

-- ---------------------------------------------------------------- SO2 → SO3
/-- the lift of ANY coefficient pair is a unit quaternion in the canonical hemisphere -/
theorem lift_unit_canon (g : Vec ℝ 2) : SO3.Unit (Conv.lift_so3 g) ∧ SO3.Canon (Conv.lift_so3 g) :=
  ⟨C17P.unit_lift_so3 g, C17P.canon_lift_so3 g⟩

/-- the projection of ANY quaternion is a unit SO2 element -/
theorem project_unit (q : Vec ℝ 4) : SO2.Unit (Conv.project_so2 q) := C17P.unit_project_so2 q

/-- **half-angle form of the lift.**  For a unit `g = (s, c)`:
    `lift g = (0, 0, q_z, q_w)`, `q_w = √((1+c)/2)`, `q_z² = (1−c)/2`, `2·q_z·q_w = s`. -/
theorem lift_half_angle (g : Vec ℝ 2) (h : SO2.Unit g) :
    (Conv.lift_so3 g) 0 = 0 ∧ (Conv.lift_so3 g) 1 = 0 ∧
    (Conv.lift_so3 g) 3 = Real.sqrt ((1 + g 1) / 2) ∧
    (Conv.lift_so3 g) 2 ^ 2 = (1 - g 1) / 2 ∧
    2 * (Conv.lift_so3 g) 2 * (Conv.lift_so3 g) 3 = g 0 := by
  have hr := C17P.angle_range g
  have hg := C17P.so2OfAngle_angle g h
  have hs : Real.sin (Conv.angle g) = g 0 := by
    have := congrArg (fun v : Vec ℝ 2 => v 0) hg
    simpa [Conv.so2OfAngle, mk2, Vec.of] using this
  have hc : Real.cos (Conv.angle g) = g 1 := by
    have := congrArg (fun v : Vec ℝ 2 => v 1) hg
    simpa [Conv.so2OfAngle, mk2, Vec.of] using this
  rw [C17P.lift_so3_eq]
  generalize Conv.angle g = θ at *
  have e0 : (C17P.zQuat θ) 0 = 0 := by simp [C17P.zQuat, mk4, Vec.of]
  have e1 : (C17P.zQuat θ) 1 = 0 := by simp [C17P.zQuat, mk4, Vec.of]
  have e2 : (C17P.zQuat θ) 2 = Real.sin (θ / 2) := by simp [C17P.zQuat, mk4, Vec.of]
  have e3 : (C17P.zQuat θ) 3 = Real.cos (θ / 2) := by simp [C17P.zQuat, mk4, Vec.of]
  rw [e0, e1, e2, e3]
  refine ⟨rfl, rfl, ?_, ?_, ?_⟩
  · rw [Real.cos_half (le_of_lt hr.1) hr.2, hc]
  · have h1 : Real.sin (θ / 2) ^ 2 = 1 - Real.cos (θ / 2) ^ 2 := by
      have := Real.sin_sq_add_cos_sq (θ / 2); linarith
    have h2 : Real.cos (θ / 2) ^ 2 = 1 / 2 + Real.cos θ / 2 := by
      have h3 := Real.cos_sq (θ / 2)
      rw [show 2 * (θ / 2) = θ by ring] at h3
      exact h3
    rw [h1, h2, hc]; ring
  · have : Real.sin θ = 2 * Real.sin (θ / 2) * Real.cos (θ / 2) := by
      rw [← Real.sin_two_mul]; congr 1; ring
    rw [← hs, this]

/-- at the half turn the lift is `(0,0,1,0)`, where the quotient `s / (2 q_w)` of the half-angle
    identities is `0/0` (`= 0` in Lean): the identities determine `q_z` only up to sign there. -/
theorem lift_half_turn :
    Conv.lift_so3 C17P.halfTurn = mk4 0 0 1 0 ∧
    C17P.halfTurn 0 / (2 * Real.sqrt ((1 + C17P.halfTurn 1) / 2)) = 0 := by
  refine ⟨C17P.lift_halfTurn, ?_⟩
  simp [C17P.halfTurn, mk2, Vec.of]

/-- as a rotation the lift of a unit element is the block embedding of its matrix — what the
    audit oracle replays exactly -/
theorem lift_matrix (g : Vec ℝ 2) (h : SO2.Unit g) :
    SO3.matrix (Conv.lift_so3 g) = C17P.blockDiag21 (SO2.matrix g) := C17P.lift_matrix g h

-- ---------------------------------------------------------------- SE2 → SE3
theorem lift_se3_unit_canon (g : Vec ℝ 4) :
    SO3.Unit (SE3.so3 (Conv.lift_se3 g)) ∧ SO3.Canon (SE3.so3 (Conv.lift_se3 g)) := by
  rw [C17P.so3_lift_se3]; exact lift_unit_canon _

theorem project_se2_unit (q : Vec ℝ 7) : SE2.Unit (Conv.project_se2 q) := by
  have h := project_unit (SE3.so3 q)
  unfold SO2.Unit at h
  unfold SE2.Unit Conv.project_se2
  simpa [mk4, Vec.of] using h

-- ---------------------------------------------------------------- graded instances
/-- groups without lifts: `lift = project = id`; a monotone graded invariant of the group
    operations is a graded invariant of the two-sorted machine -/
theorem graded_triv {G : LieModel ℝ} {Inv : Nat → Vec ℝ G.rep → Prop} {TanOK : Vec ℝ G.dof → Prop}
    (hc : ∀ m n a b, Inv m a → Inv n b → Inv (m + n + 1) (G.composition a b))
    (hi : ∀ m a, Inv m a → Inv (m + 1) (G.inverse a))
    (he : ∀ a, TanOK a → Inv 1 (G.exp a))
    (mono : ∀ m a, Inv m a → Inv (m + 1) a) :
    Graded G (Lifting.triv G) Inv (fun m (a : Vec ℝ (Lifting.triv G).lrep) => Inv m a) TanOK where
  comp := hc
  inv := hi
  exp := he
  lift := fun m a h => mono m a h
  project := fun m a h => mono m a h

theorem so2_unit_exp (a : Vec ℝ 1) : SO2.Unit (SO2.exp a) := by
  unfold SO2.Unit SO2.exp
  simp only [mk2, Vec.of]
  show Real.sin (a 0) ^ 2 + Real.cos (a 0) ^ 2 = 1
  exact Real.sin_sq_add_cos_sq (a 0)

/-- SO2 with its SO3 companion: element registers exactly unit, lifted registers exactly unit and
    canonical — for ALL tangents and all elements (the half turn included) -/
theorem so2_graded : Graded (SO2.model : LieModel ℝ) so2Lifting (fun _ g => SO2.Unit g)
    (fun _ (q : Vec ℝ 4) => SO3.Unit q ∧ SO3.Canon q) (fun _ => True) where
  comp := fun _ _ a b ha hb => SO2.unit_composition a b ha hb
  inv := fun _ g hg => SO2.unit_inverse g hg
  exp := fun a _ => so2_unit_exp a
  lift := fun _ g _ => lift_unit_canon g
  project := fun _ q _ => project_unit q

theorem se2_unit_exp (a : Vec ℝ 3) : SE2.Unit (SE2.exp a) := by
  unfold SE2.Unit SE2.exp
  simp only [mk4, Vec.of, SO2.exp, mk2, mk1]
  show Real.sin (a 2) ^ 2 + Real.cos (a 2) ^ 2 = 1
  exact Real.sin_sq_add_cos_sq (a 2)

/-- SE2 with its SE3 companion -/
theorem se2_graded : Graded (SE2.model : LieModel ℝ) se2Lifting (fun _ g => SE2.Unit g)
    (fun _ (q : Vec ℝ 7) => SO3.Unit (SE3.so3 q) ∧ SO3.Canon (SE3.so3 q)) (fun _ => True) where
  comp := fun _ _ a b ha hb => SE2.unit_composition a b ha hb
  inv := fun _ g hg => SE2.unit_inverse g hg
  exp := fun a _ => se2_unit_exp a
  lift := fun _ g _ => lift_se3_unit_canon g
  project := fun _ q _ => project_se2_unit q

end C15
