/-
  C05SE3.lean — `calculate_Q_dQ` (se3.hpp): in the closed branch the returned `dQ` (generated table +
  the `dA, dB, dC` loop) is the derivative of the returned `Q`, all 54 entries, layout
  `dQ[r, 6·j + k] = ∂Q[j,r]/∂a_k`.

  `Q(a) = Qpoly (A(n)) (B(n)) (C(n)) v w`, `n = |w|²`, `A = −sin_3`, `B = cos_4`, `C = −sin_5`.
  Along `t ↦ a + t e_k`:  `Q(t) = Qline A₀ B₀ C₀ t + (A(n(t)) − A₀)·PA(t) + (B(n(t)) − B₀)·PB(t) + (C(n(t)) − C₀)·PC(t)`
  so `Q'(0) = table(A₀,B₀,C₀) + A'(n)·n'·PA + B'(n)·n'·PB + C'(n)·n'·PC` (the factors `A(n(0)) − A₀` vanish),
  `n' = 2 w_i` for `k = 3 + i`, `0` for `k < 3`.
-/
import SmoothProofs.C05dQ
import SmoothProofs.C05Calc
import Mathlib.Analysis.Calculus.Deriv.Comp
import Mathlib.Tactic.Continuity

open Lin Scalar

namespace C05SE3
open C04Alg C04SO3 C05Calc C05dQ

/-! ### scalar coefficient functions in the closed branch -/

noncomputable def B4 (n : ℝ) : ℝ := (Real.cos (Real.sqrt n) - 1 + n / 2) / (n * n)
noncomputable def C5 (n : ℝ) : ℝ :=
  -((Real.sin (Real.sqrt n) - Real.sqrt n + n * Real.sqrt n / 6) / (n * n * Real.sqrt n))

/-- the code's `dB_over_th`, `dC_over_th` of `calculate_Q_dQ` -/
noncomputable def dB4 (n : ℝ) : ℝ :=
  -1 / (n * n) - Real.sin (Real.sqrt n) / (n * Real.sqrt n * n)
    - 4 * Real.cos (Real.sqrt n) / (n * Real.sqrt n * (n * Real.sqrt n))
    + 4 / (n * Real.sqrt n * (n * Real.sqrt n))
noncomputable def dC5 (n : ℝ) : ℝ :=
  1 / (3 * (n * n)) - Real.cos (Real.sqrt n) / (n * Real.sqrt n * (n * Real.sqrt n))
    - 4 / (n * Real.sqrt n * (n * Real.sqrt n))
    + 5 * Real.sin (Real.sqrt n) / (n * n * (n * Real.sqrt n))

theorem cos_4_closed {x : ℝ} (h : Scalar.eps2 < x) : Trig.cos_4 x = B4 x := by
  simp only [Trig.cos_4, if_pos h, Nat.cast_one, Nat.cast_ofNat, B4]; rfl

theorem sin_5_closed {x : ℝ} (h : Scalar.eps2 < x) : -(Trig.sin_5 x) = C5 x := by
  simp only [Trig.sin_5, if_pos h, Nat.cast_one, Nat.cast_ofNat, C5]; rfl

theorem sin_3_closed' {x : ℝ} (h : Scalar.eps2 < x) : -(Trig.sin_3 x) = βr x := by
  rw [sin_3_closed h, βr]

theorem dQCoef_closed {n : ℝ} (h : ¬ n < Scalar.eps2) : SE3.dQCoef n = (dBc n, dB4 n, dC5 n) := by
  simp only [SE3.dQCoef, if_neg h, Nat.cast_one, Nat.cast_ofNat, dBc, dB4, dC5]
  rfl

theorem hasDerivAt_B4 {n : ℝ} (hn : 0 < n) : HasDerivAt B4 (dB4 n / 2) n := by
  have hθ : Real.sqrt n ≠ 0 := (Real.sqrt_pos.2 hn).ne'
  have hsq : Real.sqrt n ^ 2 = n := Real.sq_sqrt hn.le
  have hnn : n * n ≠ 0 := mul_ne_zero hn.ne' hn.ne'
  have h := (((hasDerivAt_cos_sqrt hn).sub_const 1).add ((hasDerivAt_id n).div_const 2)).div
    ((hasDerivAt_id n).mul (hasDerivAt_id n)) hnn
  refine h.congr_deriv ?_
  simp only [dB4, id, Pi.mul_apply, Pi.add_apply]
  rw [← hsq]
  simp only [Real.sqrt_sq (Real.sqrt_nonneg n)]
  field_simp
  ring

theorem hasDerivAt_C5 {n : ℝ} (hn : 0 < n) : HasDerivAt C5 (dC5 n / 2) n := by
  have hθ : Real.sqrt n ≠ 0 := (Real.sqrt_pos.2 hn).ne'
  have hsq : Real.sqrt n ^ 2 = n := Real.sq_sqrt hn.le
  have hden : n * n * Real.sqrt n ≠ 0 := mul_ne_zero (mul_ne_zero hn.ne' hn.ne') hθ
  have hs := Real.hasDerivAt_sqrt hn.ne'
  have h := (((((hasDerivAt_sin_sqrt hn).sub hs).add
      (((hasDerivAt_id n).mul hs).div_const 6)).div
    (((hasDerivAt_id n).mul (hasDerivAt_id n)).mul hs) hden)).neg
  refine h.congr_deriv ?_
  simp only [dC5, id, Pi.mul_apply, Pi.add_apply, Pi.sub_apply]
  rw [← hsq]
  simp only [Real.sqrt_sq (Real.sqrt_nonneg n)]
  field_simp
  ring

/-! ### structure of `Q` along a coordinate line -/

/-- half the derivative of `n = |w|²` in direction `k`: `w_{k−3}` for `k ≥ 3`, `0` for `k < 3` -/
noncomputable def ω (a : Vec ℝ 6) (k : Fin 6) : ℝ := if 3 ≤ k.val then a k else 0
noncomputable def ε (k : Fin 6) : ℝ := if 3 ≤ k.val then 1 else 0

theorem shift_zero {n : Nat} (a : Vec ℝ n) (k : Fin n) : shift a k 0 = a := by
  ext i; simp [shift]

theorem sqNorm_tw_shift (a : Vec ℝ 6) (k : Fin 6) (t : ℝ) :
    sqNorm (SE3.tw (shift a k t))
      = sqNorm (SE3.tw a) + t * (2 * ω a k) + t ^ 2 * ε k + t ^ 3 * 0 := by
  fin_cases k <;> simp [sqNorm3, SE3.tw, mk3, shift, ω, ε] <;> ring

theorem Qpoly_split (A B C A0 B0 C0 : ℝ) (v w : Vec ℝ 3) (j r : Fin 3) :
    (Qpoly A B C v w) j r = (Qpoly A0 B0 C0 v w) j r + (A - A0) * (SE3.PABC v w).1 j r
      + (B - B0) * (SE3.PABC v w).2.1 j r + (C - C0) * (SE3.PABC v w).2.2 j r := by
  simp only [Qpoly, Mat.of_get]; ring

theorem PA_eq (v w : Vec ℝ 3) (j r : Fin 3) :
    (SE3.PABC v w).1 j r = (Qpoly 1 0 0 v w) j r - (Qpoly 0 0 0 v w) j r := by
  simp only [Qpoly, Mat.of_get]; ring
theorem PB_eq (v w : Vec ℝ 3) (j r : Fin 3) :
    (SE3.PABC v w).2.1 j r = (Qpoly 0 1 0 v w) j r - (Qpoly 0 0 0 v w) j r := by
  simp only [Qpoly, Mat.of_get]; ring
theorem PC_eq (v w : Vec ℝ 3) (j r : Fin 3) :
    (SE3.PABC v w).2.2 j r = (Qpoly 0 0 1 v w) j r - (Qpoly 0 0 0 v w) j r := by
  simp only [Qpoly, Mat.of_get]; ring

/-- the three polynomial matrices along the line are differentiable at 0 (they are differences of
    `Qline`s, whose derivatives are table entries) -/
theorem P_differentiable (a : Vec ℝ 6) (j r : Fin 3) (k : Fin 6) :
    (∃ d, HasDerivAt (fun t => (SE3.PABC (SE3.tv (shift a k t)) (SE3.tw (shift a k t))).1 j r) d 0) ∧
    (∃ d, HasDerivAt (fun t => (SE3.PABC (SE3.tv (shift a k t)) (SE3.tw (shift a k t))).2.1 j r) d 0) ∧
    (∃ d, HasDerivAt (fun t => (SE3.PABC (SE3.tv (shift a k t)) (SE3.tw (shift a k t))).2.2 j r) d 0) := by
  have h0 := dQ_entry_hasDerivAt 0 0 0 a j r k
  have h1 := ((dQ_entry_hasDerivAt 1 0 0 a j r k).sub h0).congr_of_eventuallyEq
    (f₁ := fun t => (SE3.PABC (SE3.tv (shift a k t)) (SE3.tw (shift a k t))).1 j r)
    (Filter.Eventually.of_forall fun t => by simp only [PA_eq, Pi.sub_apply, Qline])
  have h2 := ((dQ_entry_hasDerivAt 0 1 0 a j r k).sub h0).congr_of_eventuallyEq
    (f₁ := fun t => (SE3.PABC (SE3.tv (shift a k t)) (SE3.tw (shift a k t))).2.1 j r)
    (Filter.Eventually.of_forall fun t => by simp only [PB_eq, Pi.sub_apply, Qline])
  have h3 := ((dQ_entry_hasDerivAt 0 0 1 a j r k).sub h0).congr_of_eventuallyEq
    (f₁ := fun t => (SE3.PABC (SE3.tv (shift a k t)) (SE3.tw (shift a k t))).2.2 j r)
    (Filter.Eventually.of_forall fun t => by simp only [PC_eq, Pi.sub_apply, Qline])
  exact ⟨⟨_, h1⟩, ⟨_, h2⟩, ⟨_, h3⟩⟩

/-- the model's `dQ` entry: table entry plus the `dA, dB, dC` loop (which touches `k ≥ 3` only) -/
theorem dQ_model_entry (a : Vec ℝ 6) (j r : Fin 3) (k : Fin 6) :
    (SE3.calculate_Q_dQ a).2 r ⟨6 * j.val + k.val, by have := j.isLt; have := k.isLt; omega⟩
      = (SE3Gen.dQtab (-(Trig.sin_3 (sqNorm (SE3.tw a)))) (Trig.cos_4 (sqNorm (SE3.tw a)))
            (-(Trig.sin_5 (sqNorm (SE3.tw a)))) (SE3.tv a) (SE3.tw a)) r
          ⟨6 * j.val + k.val, by have := j.isLt; have := k.isLt; omega⟩
        + ((((SE3.dQCoef (sqNorm (SE3.tw a))).1 * ω a k) * (SE3.PABC (SE3.tv a) (SE3.tw a)).1 j r
          + ((SE3.dQCoef (sqNorm (SE3.tw a))).2.1 * ω a k) * (SE3.PABC (SE3.tv a) (SE3.tw a)).2.1 j r)
          + ((SE3.dQCoef (sqNorm (SE3.tw a))).2.2 * ω a k) * (SE3.PABC (SE3.tv a) (SE3.tw a)).2.2 j r) := by
  simp only [SE3.calculate_Q_dQ, Mat.of_get]
  fin_cases j <;> fin_cases k <;> simp [ω, SE3.tw, mk3]

theorem eventually_closed (a : Vec ℝ 6) (k : Fin 6) (h : Scalar.eps2 < sqNorm (SE3.tw a)) :
    ∀ᶠ t in nhds (0:ℝ), Scalar.eps2 < sqNorm (SE3.tw (shift a k t)) := by
  have hc : ContinuousAt (fun t : ℝ => sqNorm (SE3.tw (shift a k t))) 0 := by
    simp only [sqNorm_tw_shift]
    apply Continuous.continuousAt
    continuity
  have h0 : Scalar.eps2 < sqNorm (SE3.tw (shift a k 0)) := by rw [shift_zero]; exact h
  exact hc.eventually (lt_mem_nhds h0)

/-- `calculate_Q_dQ`: the returned `dQ` is the derivative of the returned `Q` (closed branch) -/
theorem Q_dQ_hasDerivAt (a : Vec ℝ 6) (h : Scalar.eps2 < sqNorm (SE3.tw a)) (j r : Fin 3) (k : Fin 6) :
    HasDerivAt (fun t => (SE3.calculate_Q_dQ (shift a k t)).1 j r)
      ((SE3.calculate_Q_dQ a).2 r ⟨6 * j.val + k.val, by have := j.isLt; have := k.isLt; omega⟩) 0 := by
  have hn0 : 0 < sqNorm (SE3.tw a) := lt_trans eps2_pos h
  have hn : HasDerivAt (fun t => sqNorm (SE3.tw (shift a k t))) (2 * ω a k) 0 :=
    hasDerivAt_of_cubic_expansion (R2 := ε k) (R3 := 0)
      (fun t => by rw [sqNorm_tw_shift, sqNorm_tw_shift a k 0]; ring)
  have e0 : sqNorm (SE3.tw a) = sqNorm (SE3.tw (shift a k 0)) := by rw [shift_zero]
  have hA := ((hasDerivAt_βr hn0).comp_of_eq (0:ℝ) hn e0).sub_const (βr (sqNorm (SE3.tw a)))
  have hB := ((hasDerivAt_B4 hn0).comp_of_eq (0:ℝ) hn e0).sub_const (B4 (sqNorm (SE3.tw a)))
  have hC := ((hasDerivAt_C5 hn0).comp_of_eq (0:ℝ) hn e0).sub_const (C5 (sqNorm (SE3.tw a)))
  have hQ0 := dQ_entry_hasDerivAt (βr (sqNorm (SE3.tw a))) (B4 (sqNorm (SE3.tw a)))
    (C5 (sqNorm (SE3.tw a))) a j r k
  obtain ⟨⟨dPA, hPA⟩, ⟨dPB, hPB⟩, ⟨dPC, hPC⟩⟩ := P_differentiable a j r k
  have hg := ((hQ0.add (hA.mul hPA)).add (hB.mul hPB)).add (hC.mul hPC)
  rw [dQ_model_entry, dQCoef_closed (not_lt.2 h.le), sin_3_closed' h, cos_4_closed h, sin_5_closed h]
  refine (hg.congr_deriv ?_).congr_of_eventuallyEq ?_
  · simp only [Function.comp, shift_zero, sub_self, zero_mul, add_zero]
    ring
  · filter_upwards [eventually_closed a k h] with t ht
    rw [calculate_Q_eq_Qpoly, sin_3_closed' ht, cos_4_closed ht, sin_5_closed ht,
      Qpoly_split _ _ _ (βr (sqNorm (SE3.tw a))) (B4 (sqNorm (SE3.tw a))) (C5 (sqNorm (SE3.tw a)))]
    simp only [Pi.add_apply, Pi.mul_apply, Function.comp, Qline]

end C05SE3
