/-
  C07GlueRound.lean — the hypotheses of the C02 round-trip theorems, per concrete group, give what
  the generic glue needs: `exp a` is a valid, strict representative and `log (exp a) = a`;
  `exp (log y) = y` for the relative element `y = g⁻¹ ∘ g₂`.
-/
import SmoothProofs.C07GlueGroups
import SmoothProofs.C02LogSE3
import SmoothProofs.C02LogK
import SmoothProofs.C03AdExp

open Scalar Lin Manif

set_option linter.unusedSectionVars false
set_option linter.unusedSimpArgs false

namespace C07

/-! ### conversions between the unit predicates of the C01 / C02 / C03 files -/

theorem so3Unit_of_unitQ (q : Vec ℝ 4) (h : C02.UnitQ q) : SO3.Unit q := by
  unfold SO3.Unit; unfold C02.UnitQ at h; nlinarith [h]
theorem unitQ_of_so3Unit (q : Vec ℝ 4) (h : SO3.Unit q) : C02.UnitQ q := by
  unfold C02.UnitQ; unfold SO3.Unit at h; nlinarith [h]
theorem unitQ_c03 (q : Vec ℝ 4) (h : C03.UnitQ q) : C02.UnitQ q := h

/-! ### SO3 -/

/-- closed-form branch and `‖a‖ < π` -/
def SO3Dom (a : Vec ℝ 3) : Prop :=
  ¬ sqNorm a < Scalar.eps2 ∧ ¬ C02.xyz2 (SO3.exp a) < Scalar.eps2 ∧ Real.sqrt (sqNorm a) < Real.pi

theorem so3_exp_unit (a : Vec ℝ 3) (h : ¬ sqNorm a < Scalar.eps2) : SO3.Unit (SO3.exp a) :=
  so3Unit_of_unitQ _ (unitQ_c03 _ (C03.unitQ_so3_exp a h))

/-- in the closed-form branch with `‖a‖ < π` the `w` of `exp a` is `cos(‖a‖/2) > 0` -/
theorem so3_exp_w_pos (a : Vec ℝ 3) (h : ¬ sqNorm a < Scalar.eps2)
    (hπ : Real.sqrt (sqNorm a) < Real.pi) : 0 < (SO3.exp a) 3 := by
  rw [C02.so3_exp_eq_closed a h]
  have hth0 : 0 ≤ Real.sqrt (sqNorm a) := Real.sqrt_nonneg _
  have hc : 0 < Real.cos (Real.sqrt (sqNorm a) / 2) := by
    apply Real.cos_pos_of_mem_Ioo
    constructor <;> linarith [Real.pi_pos]
  unfold C02.so3ExpClosed
  simp only
  rw [SO3.canon_of_nonneg _ (by simpa [mk4, Vec.of] using hc.le)]
  simpa [mk4, Vec.of] using hc

/-! ### SE3, Galilei, SE_K_3: rotation part of `exp` -/

theorem se3_so3_exp (a : Vec ℝ 6) : SE3.so3 (SE3.exp a) = SO3.exp (SE3.tw a) := by
  simp only [SE3.exp, SE3.so3_mk7, memoV_eq]
theorem gal_gq_exp (a : Vec ℝ 10) : Galilei.gq (Galilei.exp a) = SO3.exp (Galilei.tw a) := by
  simp only [Galilei.exp, Galilei.gq_mkG]
theorem sek3_gq_exp (k : Nat) (a : Vec ℝ (3 + 3 * k)) :
    SEK3.gq k (SEK3.exp k a) = SO3.exp (SEK3.tw k a) := by
  simp only [SEK3.exp, SEK3.gq_mkG, memoV_eq]

/-- the rotation part `ω` of the tangent is in the closed-form branch and `‖ω‖ < π` -/
def RotDom (w : Vec ℝ 3) : Prop :=
  Scalar.eps2 < sqNorm w ∧ ¬ C02.xyz2 (SO3.exp w) < Scalar.eps2 ∧ Real.sqrt (sqNorm w) < Real.pi

/-! ### small groups -/

theorem so2_exp_unit (a : Vec ℝ 1) : SO2.Unit (SO2.exp a) := by
  unfold SO2.Unit SO2.exp
  simp only [mk2, Vec.of]
  exact Real.sin_sq_add_cos_sq (a 0)

theorem se2_exp_unit (a : Vec ℝ 3) : SE2.Unit (SE2.exp a) := by
  unfold SE2.Unit SE2.exp
  simp only [mk4, Vec.of, SO2.exp, mk2, mk1]
  exact Real.sin_sq_add_cos_sq (a 2)

theorem c1_exp_valid (a : Vec ℝ 2) : C1.Valid (C1.exp a) := by
  unfold C1.Valid C1.exp
  simp only [mk2, Vec.of]
  have ht : 0 < Real.exp (a 0) := Real.exp_pos _
  have : (Real.exp (a 0) * Real.sin (a 1)) ^ 2 + (Real.exp (a 0) * Real.cos (a 1)) ^ 2
      = Real.exp (a 0) ^ 2 := by
    have := Real.sin_sq_add_cos_sq (a 1)
    nlinarith [this]
  show (Scalar.exp (a 0) * Scalar.sin (a 1)) ^ 2 + (Scalar.exp (a 0) * Scalar.cos (a 1)) ^ 2 ≠ 0
  change (Real.exp (a 0) * Real.sin (a 1)) ^ 2 + (Real.exp (a 0) * Real.cos (a 1)) ^ 2 ≠ 0
  rw [this]
  positivity

end C07
