/-
  C03Hadamard.lean — the analytic step behind "Ad (exp a) is the matrix exponential of ad a".

  `hadamard_intertwine`: if a linear map `H` from `ℝᵈ` to `n×n` matrices intertwines a `d×d` matrix
  `L` with the commutator by `A` (`H (L v) = A·H v − H v·A`, which is `ad_def`), then
  `H (exp (tL) b) = exp (tA) · H b · exp (−tA)` — proved by differentiating
  `Z t = exp (−tA) · H (exp (tL) b) · exp (tA)` (zero derivative, hence constant).
-/
import Mathlib.Analysis.Normed.Algebra.Exponential
import Mathlib.Analysis.Normed.Algebra.MatrixExponential
import Mathlib.Analysis.SpecialFunctions.Exponential
import Mathlib.Analysis.Calculus.Deriv.Mul
import Mathlib.Analysis.Calculus.MeanValue
import Mathlib.Analysis.Matrix.Normed
import Mathlib.Topology.Algebra.Module.FiniteDimension
import Mathlib.Tactic.NoncommRing

open NormedSpace

namespace C03

section
variable {n d : ℕ}

/-- `P ↦ P·b` as a linear map -/
def mvL (b : Fin d → ℝ) : Matrix (Fin d) (Fin d) ℝ →ₗ[ℝ] (Fin d → ℝ) where
  toFun P := P.mulVec b
  map_add' P Q := Matrix.add_mulVec P Q b
  map_smul' s P := Matrix.smul_mulVec s P b

theorem exp_mul_exp_neg (A : Matrix (Fin n) (Fin n) ℝ) : exp A * exp (-A) = 1 := by
  rw [← Matrix.exp_add_of_commute A (-A) (Commute.neg_right (Commute.refl A))]
  simp

theorem exp_neg_mul_exp (A : Matrix (Fin n) (Fin n) ℝ) : exp (-A) * exp A = 1 := by
  rw [← Matrix.exp_add_of_commute (-A) A (Commute.neg_left (Commute.refl A))]
  simp

attribute [local instance] Matrix.linftyOpNormedRing Matrix.linftyOpNormedAlgebra in
theorem hadamard_intertwine (A : Matrix (Fin n) (Fin n) ℝ) (L : Matrix (Fin d) (Fin d) ℝ)
    (H : (Fin d → ℝ) →ₗ[ℝ] Matrix (Fin n) (Fin n) ℝ)
    (hH : ∀ v, H (L.mulVec v) = A * H v - H v * A) (b : Fin d → ℝ) (t : ℝ) :
    H ((exp (t • L)).mulVec b) = exp (t • A) * H b * exp (t • (-A)) := by
  -- the continuous linear map `P ↦ H (P b)`
  let T : Matrix (Fin d) (Fin d) ℝ →L[ℝ] Matrix (Fin n) (Fin n) ℝ :=
    LinearMap.toContinuousLinearMap (H ∘ₗ mvL b)
  have hT : ∀ P, T P = H (P.mulVec b) := fun P => rfl
  let X : ℝ → Matrix (Fin n) (Fin n) ℝ := fun u => T (exp (u • L))
  have hX : ∀ u, HasDerivAt X (A * X u - X u * A) u := by
    intro u
    have h1 : HasDerivAt (fun s : ℝ => exp (s • L)) (L * exp (u • L)) u :=
      hasDerivAt_exp_smul_const' (𝕂 := ℝ) L u
    have h2 : HasDerivAt X (T (L * exp (u • L))) u := T.hasFDerivAt.comp_hasDerivAt u h1
    have e : T (L * exp (u • L)) = A * X u - X u * A := by
      show T (L * exp (u • L)) = A * T (exp (u • L)) - T (exp (u • L)) * A
      rw [hT, hT, ← Matrix.mulVec_mulVec, hH]
    rw [e] at h2; exact h2
  let Z : ℝ → Matrix (Fin n) (Fin n) ℝ := fun u => exp (u • (-A)) * X u * exp (u • A)
  have hZ : ∀ u, HasDerivAt Z 0 u := by
    intro u
    have hm : HasDerivAt (fun s : ℝ => exp (s • (-A))) (exp (u • (-A)) * (-A)) u :=
      hasDerivAt_exp_smul_const (𝕂 := ℝ) (-A) u
    have hp : HasDerivAt (fun s : ℝ => exp (s • A)) (A * exp (u • A)) u :=
      hasDerivAt_exp_smul_const' (𝕂 := ℝ) A u
    have h3 := ((hm.mul (hX u)).mul hp)
    have e : (exp (u • (-A)) * (-A) * X u + exp (u • (-A)) * (A * X u - X u * A)) * exp (u • A)
        + exp (u • (-A)) * X u * (A * exp (u • A)) = 0 := by noncomm_ring
    exact h3.congr_deriv e
  have hconst : Z t = Z 0 := by
    have hdiff : Differentiable ℝ Z := fun x => (hZ x).differentiableAt
    exact is_const_of_deriv_eq_zero hdiff (fun x => (hZ x).deriv) t 0
  have hZ0 : Z 0 = H b := by
    show exp ((0 : ℝ) • (-A)) * T (exp ((0 : ℝ) • L)) * exp ((0 : ℝ) • A) = H b
    rw [hT]; simp
  have hZt : exp (t • (-A)) * X t * exp (t • A) = H b := by rw [← hZ0, ← hconst]
  have e1 : exp (t • A) * exp (t • (-A)) = 1 := by
    rw [smul_neg]; exact exp_mul_exp_neg (t • A)
  have e2 : exp (t • A) * exp (t • (-A)) = 1 := e1
  show X t = exp (t • A) * H b * exp (t • (-A))
  rw [← hZt]
  calc X t = (exp (t • A) * exp (t • (-A))) * X t * (exp (t • A) * exp (t • (-A))) := by
        rw [e1, one_mul, mul_one]
    _ = exp (t • A) * (exp (t • (-A)) * X t * exp (t • A)) * exp (t • (-A)) := by noncomm_ring

end

end C03
