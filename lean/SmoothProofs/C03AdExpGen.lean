/-
  C03AdExpGen.lean — "Consequently Ad (exp a) is the matrix exponential of ad a", for every model:
  it follows from `AdjointRep` (Ad_def, ad_def, vee_hat, linearity of hat) and
  `matrix (exp a) = exp (hat a)` (property C02) by the intertwining lemma of C03Hadamard.lean.
-/
import SmoothProofs.C03Adjoint
import SmoothProofs.C03Hadamard

open Lin Scalar NormedSpace

namespace C03

theorem vec_of_toV {n : Nat} (v : Vec ℝ n) : (Vec.of (toV v) : Vec ℝ n) = v := by
  ext i; rfl

/-- `hat` as a linear map `ℝᵈ → n×n` -/
noncomputable def hatL (G : LieModel ℝ)
    (hadd : ∀ a b, G.hat (vadd a b) = madd (G.hat a) (G.hat b))
    (hsmul : ∀ (s : ℝ) a, G.hat (vsmul s a) = msmul s (G.hat a)) :
    (Fin G.dof → ℝ) →ₗ[ℝ] Matrix (Fin G.dim) (Fin G.dim) ℝ where
  toFun v := toM (G.hat (Vec.of v))
  map_add' v w := by
    have e : (Vec.of (v + w) : Vec ℝ G.dof) = vadd (Vec.of v) (Vec.of w) := by ext i; simp [vadd]
    rw [e, hadd, toM_madd]
  map_smul' s v := by
    have e : (Vec.of (s • v) : Vec ℝ G.dof) = vsmul s (Vec.of v) := by ext i; simp [vsmul]
    rw [e, hsmul, toM_msmul]; rfl

/-- `Ad (exp a) = exp (ad a)` (Mathlib's matrix exponential) for any model satisfying C03's
    `AdjointRep`, at every `a` where `exp a` satisfies the representation constraint and
    `matrix (exp a) = exp (hat a)` (property C02). -/
theorem Ad_exp_of_matrix_exp {G : LieModel ℝ} {U : Vec ℝ G.rep → Prop} {InAlg : Mat ℝ G.dim G.dim → Prop}
    (h : AdjointRep G U InAlg) (a : Vec ℝ G.dof) (hU : U (G.exp a))
    (hexp : toM (G.matrix (G.exp a)) = exp (toM (G.hat a))) :
    toM (G.Ad (G.exp a)) = exp (toM (G.ad a)) := by
  let H := hatL G h.hat_add h.hat_smul
  have hHdef : ∀ v, H v = toM (G.hat (Vec.of v)) := fun v => rfl
  have hH : ∀ v, H ((toM (G.ad a)).mulVec v)
      = toM (G.hat a) * H v - H v * toM (G.hat a) := by
    intro v
    have e := congrArg toM (h.ad_def a (Vec.of v))
    rw [toM_msub, toM_mmul, toM_mmul] at e
    have e2 : (Vec.of ((toM (G.ad a)).mulVec v) : Vec ℝ G.dof) = mulVec (G.ad a) (Vec.of v) := by
      apply toV_inj; rw [toV_mulVec]; rfl
    rw [hHdef, hHdef, e2]; exact e
  -- the matrix `exp (ad a)` as a model matrix
  let Q : Mat ℝ G.dof G.dof := Mat.of (fun i j => (exp (toM (G.ad a))) i j)
  have hQ : toM Q = exp (toM (G.ad a)) := by ext i j; rfl
  rw [← hQ]
  congr 1
  apply mat_ext_mulVec
  intro b
  apply h.hat_injective
  apply toM_inj
  -- left: Ad_def gives M·B·M⁻¹
  have hAd := congrArg toM (h.Ad_def (G.exp a) b hU)
  rw [toM_mmul, toM_mmul, hexp] at hAd
  have hl : toM (G.hat (mulVec (G.Ad (G.exp a)) b))
      = exp (toM (G.hat a)) * toM (G.hat b) * exp (-(toM (G.hat a))) := by
    have := congrArg (· * exp (-(toM (G.hat a)))) hAd
    simp only [Matrix.mul_assoc, exp_mul_exp_neg, Matrix.mul_one] at this
    rw [← Matrix.mul_assoc] at this
    exact this.symm
  -- right: the intertwining lemma at t = 1
  have hr := hadamard_intertwine (toM (G.hat a)) (toM (G.ad a)) H hH (toV b) 1
  rw [one_smul, one_smul, one_smul, hHdef, hHdef, vec_of_toV] at hr
  have e3 : (Vec.of ((exp (toM (G.ad a))).mulVec (toV b)) : Vec ℝ G.dof) = mulVec Q b := by
    apply toV_inj; rw [toV_mulVec, hQ]; rfl
  rw [e3] at hr
  rw [hl, hr]

end C03
