/-
  C04Taylor.lean — truncation bound for the series branch of the `dr_expinv` coefficient
  `A(θ) = 1/θ² − (1+cos θ)/(2θ sin θ) = 1/12 + θ²/720 + θ⁴/30240 + …` used by
  `SO3.S1invA` (argument θ²) and `SE2.drExpinvA`.
  Taylor remainders of sin/cos of order 9/8 come from SmoothProofs/C02TaylorReal (Complex.exp_bound).
-/
import SmoothProofs.C04SO3
import SmoothProofs.C04SE2
import SmoothProofs.C02TaylorReal
import Mathlib.Tactic.Linarith
import Mathlib.Tactic.Positivity

open Lin Scalar

namespace C04Taylor

theorem pow_step {θ : ℝ} (h0 : 0 < θ) (h1 : θ ≤ 1 / 10) (n : ℕ) : θ ^ (n + 2) ≤ θ ^ n / 100 := by
  have hθ2 : θ ^ 2 ≤ 1 / 100 := by nlinarith
  have := mul_le_mul_of_nonneg_left hθ2 (pow_pos h0 n).le
  calc θ ^ (n + 2) = θ ^ n * θ ^ 2 := by ring
    _ ≤ θ ^ n * (1 / 100) := this
    _ = θ ^ n / 100 := by ring

/-- pure algebra: with `s = P₇(θ) + es`, `c = P₆(θ) + ec`, the numerator of `A − (1/12 + θ²/720)` -/
theorem num_identity (θ es ec : ℝ) :
    2 * ((θ - θ ^ 3 / 6 + θ ^ 5 / 120 - θ ^ 7 / 5040) + es)
        - θ * (1 + ((1 - θ ^ 2 / 2 + θ ^ 4 / 24 - θ ^ 6 / 720) + ec))
        - (1 / 12 + θ ^ 2 / 720) * (2 * θ ^ 2 * ((θ - θ ^ 3 / 6 + θ ^ 5 / 120 - θ ^ 7 / 5040) + es))
      = θ ^ 7 / 15120 + θ ^ 9 / 100800 + θ ^ 11 / 1814400
        + (2 - 2 * θ ^ 2 * (1 / 12 + θ ^ 2 / 720)) * es - θ * ec := by
  ring

theorem num_bound {θ es ec : ℝ} (h0 : 0 < θ) (h1 : θ ≤ 1 / 10)
    (hs : |es| ≤ θ ^ 9 * (10 / 3265920)) (hc : |ec| ≤ θ ^ 8 * (9 / 322560)) :
    |θ ^ 7 / 15120 + θ ^ 9 / 100800 + θ ^ 11 / 1814400
        + (2 - 2 * θ ^ 2 * (1 / 12 + θ ^ 2 / 720)) * es - θ * ec| ≤ θ ^ 7 / 10000 := by
  obtain ⟨hs1, hs2⟩ := abs_le.1 hs
  obtain ⟨hc1, hc2⟩ := abs_le.1 hc
  have q9 : θ ^ 9 ≤ θ ^ 7 / 100 := pow_step h0 h1 7
  have q11 : θ ^ 11 ≤ θ ^ 9 / 100 := pow_step h0 h1 9
  have q2 : θ ^ 2 ≤ 1 / 100 := by have := pow_step h0 h1 0; simpa using this
  have q4 : θ ^ 4 ≤ θ ^ 2 / 100 := pow_step h0 h1 2
  have p2 : 0 < θ ^ 2 := by positivity
  have p4 : 0 < θ ^ 4 := by positivity
  have p7 : 0 < θ ^ 7 := by positivity
  have p9 : 0 < θ ^ 9 := by positivity
  have p11 : 0 < θ ^ 11 := by positivity
  obtain ⟨k, hk⟩ : ∃ k, k = 2 - 2 * θ ^ 2 * (1 / 12 + θ ^ 2 / 720) := ⟨_, rfl⟩
  rw [← hk]
  have hkexp : k = 2 - θ ^ 2 / 6 - θ ^ 4 / 360 := by rw [hk]; ring
  have hk0 : 0 ≤ k := by rw [hkexp]; linarith
  have hk2 : k ≤ 2 := by rw [hkexp]; linarith
  have Es0 : 0 ≤ θ ^ 9 * (10 / 3265920) := by positivity
  have b0 : k * (θ ^ 9 * (10 / 3265920)) ≤ 2 * (θ ^ 9 * (10 / 3265920)) :=
    mul_le_mul_of_nonneg_right hk2 Es0
  have b1 : k * es ≤ 2 * (θ ^ 9 * (10 / 3265920)) :=
    le_trans (mul_le_mul_of_nonneg_left hs2 hk0) b0
  have b2 : -(2 * (θ ^ 9 * (10 / 3265920))) ≤ k * es := by
    have := mul_le_mul_of_nonneg_left hs1 hk0
    linarith
  have b3 : θ * ec ≤ θ * (θ ^ 8 * (9 / 322560)) := mul_le_mul_of_nonneg_left hc2 h0.le
  have b4 : -(θ * (θ ^ 8 * (9 / 322560))) ≤ θ * ec := by
    have := mul_le_mul_of_nonneg_left hc1 h0.le
    linarith
  have e9 : θ * (θ ^ 8 * (9 / 322560)) = θ ^ 9 * (9 / 322560) := by ring
  rw [abs_le]
  constructor <;> linarith

theorem sin_ge_half {θ es : ℝ} (h0 : 0 < θ) (h1 : θ ≤ 1 / 10)
    (hs : |es| ≤ θ ^ 9 * (10 / 3265920)) :
    θ / 2 ≤ (θ - θ ^ 3 / 6 + θ ^ 5 / 120 - θ ^ 7 / 5040) + es := by
  obtain ⟨hs1, _⟩ := abs_le.1 hs
  have q3 : θ ^ 3 ≤ θ ^ 1 / 100 := pow_step h0 h1 1
  have q7 : θ ^ 7 ≤ θ ^ 5 / 100 := pow_step h0 h1 5
  have q9 : θ ^ 9 ≤ θ ^ 7 / 100 := pow_step h0 h1 7
  have p5 : 0 < θ ^ 5 := by positivity
  have p7 : 0 < θ ^ 7 := by positivity
  rw [pow_one] at q3
  linarith

/-- `|A(θ) − (1/12 + θ²/720)| ≤ θ⁴/10000` for `0 < θ ≤ 1/10` (true constant ≈ 1/30240). -/
theorem Ainv_taylor (θ : ℝ) (h0 : 0 < θ) (h1 : θ ≤ 1 / 10) :
    |(1 / θ ^ 2 - (1 + Real.cos θ) / (2 * θ * Real.sin θ)) - (1 / 12 + θ ^ 2 / 720)|
      ≤ θ ^ 4 / 10000 := by
  have habs : |θ| ≤ 1 := by rw [abs_of_pos h0]; linarith
  have hs := C02.sin_bound9 θ habs
  have hc := C02.cos_bound8 θ habs
  rw [abs_of_pos h0] at hs hc
  obtain ⟨es, hes⟩ : ∃ es, es = Real.sin θ - (θ - θ ^ 3 / 6 + θ ^ 5 / 120 - θ ^ 7 / 5040) := ⟨_, rfl⟩
  obtain ⟨ec, hec⟩ : ∃ ec, ec = Real.cos θ - (1 - θ ^ 2 / 2 + θ ^ 4 / 24 - θ ^ 6 / 720) := ⟨_, rfl⟩
  rw [← hes] at hs
  rw [← hec] at hc
  have hsin : Real.sin θ = (θ - θ ^ 3 / 6 + θ ^ 5 / 120 - θ ^ 7 / 5040) + es := by rw [hes]; ring
  have hcos : Real.cos θ = (1 - θ ^ 2 / 2 + θ ^ 4 / 24 - θ ^ 6 / 720) + ec := by rw [hec]; ring
  have hsθ : θ / 2 ≤ Real.sin θ := by rw [hsin]; exact sin_ge_half h0 h1 hs
  have hspos : 0 < Real.sin θ := by linarith
  have hD : 0 < 2 * θ ^ 2 * Real.sin θ := by positivity
  have hDge : θ ^ 3 ≤ 2 * θ ^ 2 * Real.sin θ := by
    have := mul_le_mul_of_nonneg_left hsθ (by positivity : (0:ℝ) ≤ 2 * θ ^ 2)
    calc θ ^ 3 = 2 * θ ^ 2 * (θ / 2) := by ring
      _ ≤ _ := this
  have hid : (1 / θ ^ 2 - (1 + Real.cos θ) / (2 * θ * Real.sin θ)) - (1 / 12 + θ ^ 2 / 720)
      = (2 * Real.sin θ - θ * (1 + Real.cos θ) - (1 / 12 + θ ^ 2 / 720) * (2 * θ ^ 2 * Real.sin θ))
        / (2 * θ ^ 2 * Real.sin θ) := by
    field_simp
  rw [hid, abs_div, abs_of_pos hD, div_le_iff₀ hD]
  have hnb := num_bound h0 h1 hs hc
  rw [← num_identity, ← hsin, ← hcos] at hnb
  refine hnb.trans ?_
  have hgoal : θ ^ 4 / 10000 * θ ^ 3 ≤ θ ^ 4 / 10000 * (2 * θ ^ 2 * Real.sin θ) :=
    mul_le_mul_of_nonneg_left hDge (by positivity)
  calc θ ^ 7 / 10000 = θ ^ 4 / 10000 * θ ^ 3 := by ring
    _ ≤ _ := hgoal

/-- `θ² < eps2` ⇒ `|θ| ≤ 1/10` (in fact `< 1e-4`) -/
theorem abs_small {θ : ℝ} (h : θ * θ < Scalar.eps2) : |θ| ≤ 1 / 10 := by
  rw [C04SO3.eps2_real] at h
  have h2 : |θ| * |θ| < 1 / 100000000 := by rw [abs_mul_abs_self]; exact h
  by_contra hc
  rw [not_le] at hc
  have := abs_nonneg θ
  nlinarith

/-- SO3 `calc_S1inv` coefficient: series branch vs closed form, `0 < θ² < eps2`. -/
theorem S1invA_series_bound {x : ℝ} (h0 : 0 < x) (h1 : x < Scalar.eps2) :
    |SO3.S1invA x - C04SO3.Ainv x| ≤ x ^ 2 / 10000 := by
  have hθ0 : 0 < Real.sqrt x := Real.sqrt_pos.2 h0
  have hsq : Real.sqrt x ^ 2 = x := Real.sq_sqrt h0.le
  have hθ1 : Real.sqrt x ≤ 1 / 10 := by
    have : Real.sqrt x * Real.sqrt x < Scalar.eps2 := by rw [← sq, hsq]; exact h1
    have := abs_small this
    rwa [abs_of_pos hθ0] at this
  have hb := Ainv_taylor (Real.sqrt x) hθ0 hθ1
  rw [hsq] at hb
  have e1 : SO3.S1invA x = 1 / 12 + x / 720 := by
    simp only [SO3.S1invA, if_pos h1, Nat.cast_one, Nat.cast_ofNat]
  have e4 : Real.sqrt x ^ 4 = x ^ 2 := by
    calc Real.sqrt x ^ 4 = (Real.sqrt x ^ 2) ^ 2 := by ring
      _ = x ^ 2 := by rw [hsq]
  rw [e1, abs_sub_comm, C04SO3.Ainv]
  rw [e4] at hb
  exact hb

theorem Ae_even (θ : ℝ) : C04SE2.Ae (-θ) = C04SE2.Ae θ := by
  simp only [C04SE2.Ae, Real.cos_neg, Real.sin_neg]
  ring

/-- SE2 `dr_expinv` coefficient: series branch vs closed form, `θ ≠ 0`, `θ² < eps2`. -/
theorem drExpinvA_series_bound {θ : ℝ} (h0 : θ ≠ 0) (h1 : θ * θ < Scalar.eps2) :
    |SE2.drExpinvA θ (θ * θ) - C04SE2.Ae θ| ≤ θ ^ 4 / 10000 := by
  have e1 : SE2.drExpinvA θ (θ * θ) = 1 / 12 + θ ^ 2 / 720 := by
    simp only [SE2.drExpinvA, if_pos h1, Nat.cast_one, Nat.cast_ofNat, sq]
  have hsm := abs_small h1
  rw [e1, abs_sub_comm]
  rcases lt_or_gt_of_ne h0 with hneg | hpos
  · have hb := Ainv_taylor (-θ) (by linarith) (by rwa [abs_of_neg hneg] at hsm)
    have e : C04SE2.Ae θ = 1 / (-θ) ^ 2 - (1 + Real.cos (-θ)) / (2 * (-θ) * Real.sin (-θ)) := by
      rw [← Ae_even]; rfl
    rw [e]
    have e2 : (-θ) ^ 2 = θ ^ 2 := by ring
    have e4 : (-θ) ^ 4 = θ ^ 4 := by ring
    rw [e4] at hb
    rw [e2] at hb ⊢
    exact hb
  · have hb := Ainv_taylor θ hpos (by rwa [abs_of_pos hpos] at hsm)
    exact hb

/-- entrywise: code `dr_expinv` (series branch) vs the closed form `I + â/2 + A(θ²)·â²` -/
theorem so3_dr_expinv_series_bound (a : Vec ℝ 3) (h0 : 0 < sqNorm a) (h1 : sqNorm a < Scalar.eps2)
    (i j : Fin 3) :
    |(SO3.dr_expinv a) i j - (C04Alg.poly2 (SO3.hat a) (1 / 2) (C04SO3.Ainv (sqNorm a))) i j|
      ≤ sqNorm a ^ 2 / 10000 * |(mmul (SO3.hat a) (SO3.hat a)) i j| := by
  have hb := S1invA_series_bound h0 h1
  have e : (SO3.dr_expinv a) i j - (C04Alg.poly2 (SO3.hat a) (1 / 2) (C04SO3.Ainv (sqNorm a))) i j
      = (SO3.S1invA (sqNorm a) - C04SO3.Ainv (sqNorm a)) * (mmul (SO3.hat a) (SO3.hat a)) i j := by
    simp only [SO3.dr_expinv, SO3.calc_S1inv, SO3.ad, madd, memoM_eq, Lin.mmul_msmul_get, Mat.of_get, C04Alg.poly2,
      Nat.cast_ofNat]
    ring
  rw [e, abs_mul]
  exact mul_le_mul_of_nonneg_right hb (abs_nonneg _)

/-- entrywise: SE2 code `dr_expinv` (series branch) vs the closed form `I + ad/2 + A(θ)·ad²` -/
theorem se2_dr_expinv_series_bound (a : Vec ℝ 3) (h0 : a 2 ≠ 0) (h1 : a 2 * a 2 < Scalar.eps2)
    (i j : Fin 3) :
    |(SE2.dr_expinv a) i j - (C04Alg.poly2 (SE2.ad a) (1 / 2) (C04SE2.Ae (a 2))) i j|
      ≤ (a 2) ^ 4 / 10000 * |(mmul (SE2.ad a) (SE2.ad a)) i j| := by
  have hb := drExpinvA_series_bound h0 h1
  have e : (SE2.dr_expinv a) i j - (C04Alg.poly2 (SE2.ad a) (1 / 2) (C04SE2.Ae (a 2))) i j
      = (SE2.drExpinvA (a 2) (a 2 * a 2) - C04SE2.Ae (a 2)) * (mmul (SE2.ad a) (SE2.ad a)) i j := by
    simp only [SE2.dr_expinv, memoM_eq, Lin.mmul_msmul_get, Mat.of_get, C04Alg.poly2, Nat.cast_ofNat]
    ring
  rw [e, abs_mul]
  exact mul_le_mul_of_nonneg_right hb (abs_nonneg _)

end C04Taylor
