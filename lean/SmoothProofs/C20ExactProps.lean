/-
  C20ExactProps.lean — kernel-checked facts about the exact (model, `Rat`) basis tables for K ≤ 10:
  closed forms, recurrences, normalisations, partition of unity, cumulative-basis identities,
  Bernstein-form non-negativity certificates.  Stated on the literal tables of C20Exact.lean, which
  `basis_eq_exact` (C20ModelEq*.lean) identifies with the model's tables.
-/
import SmoothProofs.C20Tables
import SmoothProofs.C20Exact

namespace C20T
open Poly
set_option maxRecDepth 100000

/-! ### Bernstein / B-spline -/

theorem bernstein_closed_exact : ∀ K, K ≤ 10 → closedOK (Exact.basis .Bernstein K) K (bernClosed K) = true := by
  decide +kernel

theorem bspline_closed_exact : ∀ K, K ≤ 10 → closedOK (Exact.basis .Bspline K) K (bsplineClosed K) = true := by
  decide +kernel

theorem bernstein_cum_first_exact : ∀ K, K ≤ 10 → cumFirstColOK (Exact.cumBasis .Bernstein K) K = true := by
  decide +kernel

theorem bspline_cum_first_exact : ∀ K, K ≤ 10 → cumFirstColOK (Exact.cumBasis .Bspline K) K = true := by
  decide +kernel

theorem bernstein_cum_endpoints_exact : ∀ K, K ≤ 10 → cumEndpointsOK (Exact.cumBasis .Bernstein K) K = true := by
  decide +kernel

theorem bernstein_cum_rowsums_exact : ∀ K, K ≤ 10 → cumRowSumsOK (Exact.cumBasis .Bernstein K) K = true := by
  decide +kernel

theorem bspline_bernstein_cert_exact :
    ∀ K, K ≤ 10 → allColsBernCert (Exact.basis .Bernstein K) (Exact.basis .Bspline K) K 0 = true := by
  decide +kernel

/-! ### Legendre -/

theorem legendre_start_exact : ∀ K, K ≤ 10 → startOK (Exact.basis .Legendre K) K 0 1 = true := by decide +kernel
theorem legendre_recurrence_exact : ∀ K, K ≤ 10 →
    recurrenceOK (Exact.basis .Legendre K) K (fun k => k+1) (fun k => 2*k+1) (fun _ => 0) (fun k => k) = true := by
  decide +kernel
theorem legendre_at_one_exact : ∀ K, K ≤ 10 → valuesAt (Exact.basis .Legendre K) K 1 (fun _ => 1) = true := by
  decide +kernel
theorem legendre_closed_exact : ∀ K, K ≤ 10 → closedOK (Exact.basis .Legendre K) K legendreClosed = true := by
  decide +kernel
theorem legendre_block_exact : ∀ K, K ≤ 10 → blockOf (Exact.basis .Legendre K) (Exact.basis .Legendre 10) K = true := by
  decide +kernel

/-! ### Chebyshev, first kind -/

theorem cheb1_start_exact : ∀ K, K ≤ 10 → startOK (Exact.basis .Chebyshev1st K) K 0 1 = true := by decide +kernel
theorem cheb1_recurrence_exact : ∀ K, K ≤ 10 →
    recurrenceOK (Exact.basis .Chebyshev1st K) K (fun _ => 1) (fun _ => 2) (fun _ => 0) (fun _ => 1) = true := by
  decide +kernel
theorem cheb1_at_one_exact : ∀ K, K ≤ 10 → valuesAt (Exact.basis .Chebyshev1st K) K 1 (fun _ => 1) = true := by
  decide +kernel
theorem cheb1_closed_exact : ∀ K, K ≤ 10 → closedOK (Exact.basis .Chebyshev1st K) K cheb1Closed = true := by
  decide +kernel
theorem cheb1_block_exact : ∀ K, K ≤ 10 → blockOf (Exact.basis .Chebyshev1st K) (Exact.basis .Chebyshev1st 10) K = true := by
  decide +kernel

/-! ### Chebyshev, second kind -/

theorem cheb2_start_exact : ∀ K, K ≤ 10 → startOK (Exact.basis .Chebyshev2nd K) K 0 2 = true := by decide +kernel
theorem cheb2_recurrence_exact : ∀ K, K ≤ 10 →
    recurrenceOK (Exact.basis .Chebyshev2nd K) K (fun _ => 1) (fun _ => 2) (fun _ => 0) (fun _ => 1) = true := by
  decide +kernel
theorem cheb2_at_one_exact : ∀ K, K ≤ 10 → valuesAt (Exact.basis .Chebyshev2nd K) K 1 (fun k => (k : Q) + 1) = true := by
  decide +kernel
theorem cheb2_closed_exact : ∀ K, K ≤ 10 → closedOK (Exact.basis .Chebyshev2nd K) K cheb2Closed = true := by
  decide +kernel
theorem cheb2_block_exact : ∀ K, K ≤ 10 → blockOf (Exact.basis .Chebyshev2nd K) (Exact.basis .Chebyshev2nd 10) K = true := by
  decide +kernel

/-! ### Hermite (physicists') -/

theorem hermite_start_exact : ∀ K, K ≤ 10 → startOK (Exact.basis .Hermite K) K 0 2 = true := by decide +kernel
theorem hermite_recurrence_exact : ∀ K, K ≤ 10 →
    recurrenceOK (Exact.basis .Hermite K) K (fun _ => 1) (fun _ => 2) (fun _ => 0) (fun k => 2 * (k : Q)) = true := by
  decide +kernel
theorem hermite_leading_exact : ∀ K, K ≤ 10 → leadingOK (Exact.basis .Hermite K) K (fun k => powQ 2 k) = true := by
  decide +kernel
theorem hermite_closed_exact : ∀ K, K ≤ 10 → closedOK (Exact.basis .Hermite K) K hermiteClosed = true := by
  decide +kernel
theorem hermite_block_exact : ∀ K, K ≤ 10 → blockOf (Exact.basis .Hermite K) (Exact.basis .Hermite 10) K = true := by
  decide +kernel

/-! ### Laguerre -/

theorem laguerre_start_exact : ∀ K, K ≤ 10 → startOK (Exact.basis .Laguerre K) K 1 (-1) = true := by decide +kernel
theorem laguerre_recurrence_exact : ∀ K, K ≤ 10 →
    recurrenceOK (Exact.basis .Laguerre K) K (fun k => (k : Q) + 1) (fun _ => -1) (fun k => 2 * (k : Q) + 1) (fun k => k) = true := by
  decide +kernel
theorem laguerre_at_zero_exact : ∀ K, K ≤ 10 → valuesAt (Exact.basis .Laguerre K) K 0 (fun _ => 1) = true := by
  decide +kernel
theorem laguerre_closed_exact : ∀ K, K ≤ 10 → closedOK (Exact.basis .Laguerre K) K laguerreClosed = true := by
  decide +kernel
theorem laguerre_block_exact : ∀ K, K ≤ 10 → blockOf (Exact.basis .Laguerre K) (Exact.basis .Laguerre 10) K = true := by
  decide +kernel

/-! ### monomial basis and monomial_integral -/

theorem monomial_exact : ∀ K, K ≤ 10 →
    closedOK (Exact.basis .Monomial K) K (fun i j => if i = j then 1 else 0) = true := by decide +kernel

theorem monint_spec_exact : ∀ K, K ≤ 10 → ∀ P, P ≤ 4 → closedOK (Exact.monint K P) K (monintSpec P) = true := by
  decide +kernel

end C20T
