/-
  C15Drift.lean — the drift recurrence (pure real-number lemmas).

  `Band ε m x`: `(1−ε)^m ≤ x ≤ (1−ε)^(−m)` (written without division).  A result computed with
  relative error `ε` from operands in bands `m`, `n` lies in band `m+n+1`; reciprocals stay in
  their band.  `band_abs`: `x` in band `m` and `m·ε ≤ 1/2` give `|x − 1| ≤ 2·m·ε`.
  `chain_bound`: the sequence form of the property text, `|N n − 1| ≤ (1+ε)^n − 1 ≤ 2nε`.
-/
import Mathlib.Analysis.SpecialFunctions.Exp
import Mathlib.Tactic.Ring
import Mathlib.Tactic.Linarith
import Mathlib.Tactic.Positivity

namespace C15

/-- `(1−ε)^m ≤ x` and `x·(1−ε)^m ≤ 1` -/
def Band (ε : ℝ) (m : Nat) (x : ℝ) : Prop := (1 - ε) ^ m ≤ x ∧ x * (1 - ε) ^ m ≤ 1

section
variable {ε : ℝ}

theorem band_zero_iff (x : ℝ) : Band ε 0 x ↔ x = 1 := by
  unfold Band; simp only [pow_zero, mul_one]
  exact ⟨fun h => le_antisymm h.2 h.1, fun h => ⟨h.ge, h.le⟩⟩

theorem band_pos (_h0 : 0 ≤ ε) (h1 : ε < 1) {m : Nat} {x : ℝ} (h : Band ε m x) : 0 < x :=
  lt_of_lt_of_le (pow_pos (by linarith) m) h.1

theorem band_mono (h0 : 0 ≤ ε) (h1 : ε < 1) {m n : Nat} (hmn : m ≤ n) {x : ℝ} (h : Band ε m x) : Band ε n x := by
  have hd0 : 0 ≤ 1 - ε := by linarith
  have hd1 : 1 - ε ≤ 1 := by linarith
  have hp : (1 - ε) ^ n ≤ (1 - ε) ^ m := pow_le_pow_of_le_one hd0 hd1 hmn
  have hx : 0 < x := band_pos h0 h1 h
  exact ⟨hp.trans h.1, (mul_le_mul_of_nonneg_left hp hx.le).trans h.2⟩

/-- a product computed with relative error `ε` -/
theorem band_mul (h0 : 0 ≤ ε) (h1 : ε < 1) {m n : Nat} {x y r : ℝ} (hx : Band ε m x) (hy : Band ε n y)
    (hr : |r - x * y| ≤ ε * (x * y)) : Band ε (m + n + 1) r := by
  have hd0 : 0 < 1 - ε := by linarith
  have hxp := band_pos h0 h1 hx
  have hyp := band_pos h0 h1 hy
  have hxy : 0 < x * y := mul_pos hxp hyp
  obtain ⟨hl, hu⟩ := abs_le.1 hr
  have hdm : 0 < (1 - ε) ^ m := pow_pos hd0 m
  have hdn : 0 < (1 - ε) ^ n := pow_pos hd0 n
  constructor
  · -- (1−ε)^(m+n+1) ≤ (1−ε)·x·y ≤ r
    have : (1 - ε) ^ (m + n + 1) = (1 - ε) ^ m * (1 - ε) ^ n * (1 - ε) := by ring
    rw [this]
    have h2 : (1 - ε) ^ m * (1 - ε) ^ n ≤ x * y := mul_le_mul hx.1 hy.1 hdn.le hxp.le
    nlinarith
  · -- r ≤ (1+ε)·x·y and (1+ε)(1−ε) ≤ 1
    have : r * (1 - ε) ^ (m + n + 1) = (r * (1 - ε)) * ((1 - ε) ^ m * (1 - ε) ^ n) := by ring
    rw [this]
    have h3 : r * (1 - ε) ≤ x * y := by nlinarith
    have h4 : x * y * ((1 - ε) ^ m * (1 - ε) ^ n) = (x * (1 - ε) ^ m) * (y * (1 - ε) ^ n) := by ring
    have h5 : (x * (1 - ε) ^ m) * (y * (1 - ε) ^ n) ≤ 1 :=
      mul_le_one₀ hx.2 (mul_nonneg hyp.le hdn.le) hy.2
    calc r * (1 - ε) * ((1 - ε) ^ m * (1 - ε) ^ n) ≤ x * y * ((1 - ε) ^ m * (1 - ε) ^ n) :=
          mul_le_mul_of_nonneg_right h3 (mul_nonneg hdm.le hdn.le)
      _ ≤ 1 := by rw [h4]; exact h5

/-- a unary op that keeps the value up to relative error `ε` -/
theorem band_keep (h0 : 0 ≤ ε) (h1 : ε < 1) {m : Nat} {x r : ℝ} (hx : Band ε m x)
    (hr : |r - x| ≤ ε * x) : Band ε (m + 1) r := by
  have h1' : Band ε 0 (1 : ℝ) := (band_zero_iff 1).2 rfl
  have := band_mul h0 h1 hx h1' (r := r) (by simpa using hr)
  simpa using this

/-- a unary op that returns the reciprocal up to relative error `ε` (Eigen `inverse`) -/
theorem band_recip (h0 : 0 ≤ ε) (h1 : ε < 1) {m : Nat} {x r : ℝ} (hx : Band ε m x)
    (hr : |r * x - 1| ≤ ε) : Band ε (m + 1) r := by
  have hd0 : 0 < 1 - ε := by linarith
  have hxp := band_pos h0 h1 hx
  have hdm : 0 < (1 - ε) ^ m := pow_pos hd0 m
  obtain ⟨hl, hu⟩ := abs_le.1 hr
  have hrp : 0 < r := by
    by_contra hc
    have : r * x ≤ 0 := mul_nonpos_of_nonpos_of_nonneg (not_lt.1 hc) hxp.le
    linarith
  constructor
  · -- (1−ε)^(m+1) = (1−ε)·(1−ε)^m ≤ (r x)·(1−ε)^m ≤ r   (x (1−ε)^m ≤ 1)
    have : (1 - ε) ^ (m + 1) = (1 - ε) * (1 - ε) ^ m := by ring
    rw [this]
    calc (1 - ε) * (1 - ε) ^ m ≤ (r * x) * (1 - ε) ^ m := mul_le_mul_of_nonneg_right (by linarith) hdm.le
      _ = r * (x * (1 - ε) ^ m) := by ring
      _ ≤ r * 1 := mul_le_mul_of_nonneg_left hx.2 hrp.le
      _ = r := mul_one r
  · -- r (1−ε)^(m+1) ≤ r x (1−ε) ≤ (1+ε)(1−ε) ≤ 1
    have : r * (1 - ε) ^ (m + 1) = (r * (1 - ε) ^ m) * (1 - ε) := by ring
    rw [this]
    have h2 : r * (1 - ε) ^ m ≤ r * x := mul_le_mul_of_nonneg_left hx.1 hrp.le
    nlinarith

/-- a producer that returns a unit value up to `ε` -/
theorem band_one (h0 : 0 ≤ ε) (h1 : ε < 1) {r : ℝ} (hr : |r - 1| ≤ ε) : Band ε 1 r := by
  have h1' : Band ε 0 (1 : ℝ) := (band_zero_iff 1).2 rfl
  have := band_keep h0 h1 h1' (r := r) (by simpa using hr)
  simpa using this

/-- band `m` with `m·ε ≤ 1/2` gives `|x − 1| ≤ 2·m·ε` -/
theorem band_abs (h0 : 0 ≤ ε) (h1 : ε < 1) {m : Nat} {x : ℝ} (hx : Band ε m x) (hm : (m : ℝ) * ε ≤ 1 / 2) :
    |x - 1| ≤ 2 * m * ε := by
  have hd0 : 0 < 1 - ε := by linarith
  have hb : 1 + (m : ℝ) * (-ε) ≤ (1 + -ε) ^ m := one_add_mul_le_pow (by linarith) m
  have hb' : 1 - (m : ℝ) * ε ≤ (1 - ε) ^ m := by
    have : (1 + -ε) = 1 - ε := by ring
    rw [this] at hb; linarith
  have hp1 : (1 - ε) ^ m ≤ 1 := pow_le_one₀ hd0.le (by linarith)
  have hxp := band_pos h0 h1 hx
  rw [abs_le]
  constructor
  · have : 0 ≤ (m : ℝ) * ε := mul_nonneg (Nat.cast_nonneg m) h0
    linarith [hx.1]
  · -- x ≤ 1/(1−mε) ≤ 1 + 2mε
    have h3 : x * (1 - (m : ℝ) * ε) ≤ 1 := (mul_le_mul_of_nonneg_left hb' hxp.le).trans hx.2
    have hme : 0 ≤ (m : ℝ) * ε := mul_nonneg (Nat.cast_nonneg m) h0
    -- (1 + 2mε)(1 − mε) = 1 + mε − 2(mε)² ≥ 1
    have h4 : 1 ≤ (1 + 2 * (m : ℝ) * ε) * (1 - (m : ℝ) * ε) := by nlinarith
    have h5 : 0 < 1 - (m : ℝ) * ε := by linarith
    have : x * (1 - (m : ℝ) * ε) ≤ (1 + 2 * (m : ℝ) * ε) * (1 - (m : ℝ) * ε) := h3.trans h4
    have := le_of_mul_le_mul_right this h5
    linarith

end

/-- `(1+ε)^n − 1 ≤ 2nε` when `nε ≤ 1` -/
theorem pow_sub_one_le (ε : ℝ) (h0 : 0 ≤ ε) (n : Nat) (hn : (n : ℝ) * ε ≤ 1) : (1 + ε) ^ n - 1 ≤ 2 * n * ε := by
  have h1 : (1 + ε) ^ n ≤ Real.exp ((n : ℝ) * ε) := by
    rw [Real.exp_nat_mul]
    exact pow_le_pow_left₀ (by linarith) (by linarith [Real.add_one_le_exp ε]) n
  have hx : |(n : ℝ) * ε| ≤ 1 := by
    rw [abs_of_nonneg (mul_nonneg (Nat.cast_nonneg n) h0)]; exact hn
  have h2 := Real.abs_exp_sub_one_le hx
  rw [abs_of_nonneg (mul_nonneg (Nat.cast_nonneg n) h0)] at h2
  have h3 := (abs_le.1 h2).2
  linarith

/-- **the drift recurrence, sequence form.**  `N k` = norm² after `k` ops, `m k` = norm² of the
    other operand of op `k` (unit), every op exact up to relative error `ε`. -/
theorem chain_bound (ε : ℝ) (h0 : 0 ≤ ε) (h1 : ε ≤ 1) (N m : ℕ → ℝ) (hN0 : N 0 = 1) (hm : ∀ k, m k = 1)
    (hstep : ∀ k, |N (k + 1) - N k * m k| ≤ ε * (N k * m k)) (n : ℕ) :
    |N n - 1| ≤ (1 + ε) ^ n - 1 := by
  have key : ∀ k, (1 - ε) ^ k ≤ N k ∧ N k ≤ (1 + ε) ^ k := by
    intro k
    induction k with
    | zero => simp [hN0]
    | succ k ih =>
      have hs := hstep k
      rw [hm k, mul_one] at hs
      obtain ⟨hl, hu⟩ := abs_le.1 hs
      have hNk : 0 ≤ N k := le_trans (pow_nonneg (by linarith) k) ih.1
      constructor
      · calc (1 - ε) ^ (k + 1) = (1 - ε) ^ k * (1 - ε) := by ring
          _ ≤ N k * (1 - ε) := mul_le_mul_of_nonneg_right ih.1 (by linarith)
          _ ≤ N (k + 1) := by linarith
      · calc N (k + 1) ≤ N k * (1 + ε) := by linarith
          _ ≤ (1 + ε) ^ k * (1 + ε) := mul_le_mul_of_nonneg_right ih.2 (by linarith)
          _ = (1 + ε) ^ (k + 1) := by ring
  obtain ⟨hl, hu⟩ := key n
  have b1 : 1 + (n : ℝ) * ε ≤ (1 + ε) ^ n := one_add_mul_le_pow (by linarith) n
  have b2 : 1 + (n : ℝ) * (-ε) ≤ (1 + -ε) ^ n := one_add_mul_le_pow (by linarith) n
  have b2' : 1 - (n : ℝ) * ε ≤ (1 - ε) ^ n := by
    have : (1 + -ε) = 1 - ε := by ring
    rw [this] at b2; linarith
  rw [abs_le]
  constructor <;> linarith

end C15
