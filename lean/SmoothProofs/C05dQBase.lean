/-
  C05dQBase.lean — infrastructure for the tie between the hand-expanded 3×18 table of
  `SE3Impl::calculate_Q_dQ` (GENERATED: SmoothModel/Gen/SE3dQ.lean) and its definition: the partial
  derivatives, with A B C held fixed, of `Qpoly = V/2 + A·PA + B·PB + C·PC`.

  Method: along each coordinate line `t ↦ a + t e_k` every entry of `Qpoly` is a polynomial of degree
  ≤ 3 in `t`, so `f t = f 0 + t c + t² R₂ + t³ R₃` with `R₂ = (f 1 + f (-1))/2 − f 0`,
  `R₃ = (f 1 − f (-1))/2 − c` holds for all `t` iff `c = f'(0)`; the identity is closed by `ring`.
-/
import SmoothProofs.Real
import Mathlib.Analysis.Calculus.Deriv.Pow
import Mathlib.Analysis.Calculus.Deriv.Mul
import Mathlib.Analysis.Calculus.Deriv.Add
import Mathlib.Tactic.Ring
import Mathlib.Tactic.FinCases

open Lin Scalar

namespace C05dQ

/-- a function with a cubic expansion at 0 has the linear coefficient as derivative there -/
theorem hasDerivAt_of_cubic_expansion {f : ℝ → ℝ} {c R2 R3 : ℝ}
    (h : ∀ t, f t = f 0 + t * c + t^2 * R2 + t^3 * R3) : HasDerivAt f c 0 := by
  have := ((((hasDerivAt_id (0:ℝ)).mul_const c).const_add (f 0)).add
      (((hasDerivAt_pow 2 (0:ℝ)).mul_const R2))).add ((hasDerivAt_pow 3 (0:ℝ)).mul_const R3)
  have h2 := this.congr_deriv (show _ = c by simp)
  refine h2.congr_of_eventuallyEq (Filter.Eventually.of_forall fun t => ?_)
  simp only [Pi.add_apply, id]; exact h t

theorem mmul3 (A B : Mat ℝ 3 3) (i j : Fin 3) :
    (mmul A B) i j = A i 0 * B 0 j + A i 1 * B 1 j + A i 2 * B 2 j := by
  simp [mmul, vsum]
theorem dot3 (a b : Vec ℝ 3) : dot a b = a 0 * b 0 + a 1 * b 1 + a 2 * b 2 := by
  simp [dot, vsum]
theorem hat_00 (a : Vec ℝ 3) : (SO3.hat a) 0 0 = 0 := by simp [SO3.hat, mat3]
theorem hat_01 (a : Vec ℝ 3) : (SO3.hat a) 0 1 = -(a 2) := by simp [SO3.hat, mat3]
theorem hat_02 (a : Vec ℝ 3) : (SO3.hat a) 0 2 = a 1 := by simp [SO3.hat, mat3]
theorem hat_10 (a : Vec ℝ 3) : (SO3.hat a) 1 0 = a 2 := by simp [SO3.hat, mat3]
theorem hat_11 (a : Vec ℝ 3) : (SO3.hat a) 1 1 = 0 := by simp [SO3.hat, mat3]
theorem hat_12 (a : Vec ℝ 3) : (SO3.hat a) 1 2 = -(a 0) := by simp [SO3.hat, mat3]
theorem hat_20 (a : Vec ℝ 3) : (SO3.hat a) 2 0 = -(a 1) := by simp [SO3.hat, mat3]
theorem hat_21 (a : Vec ℝ 3) : (SO3.hat a) 2 1 = a 0 := by simp [SO3.hat, mat3]
theorem hat_22 (a : Vec ℝ 3) : (SO3.hat a) 2 2 = 0 := by simp [SO3.hat, mat3]
theorem mk3_0 (a b c : ℝ) : (mk3 a b c) 0 = a := rfl
theorem mk3_1 (a b c : ℝ) : (mk3 a b c) 1 = b := rfl
theorem mk3_2 (a b c : ℝ) : (mk3 a b c) 2 = c := rfl

/-- `a + t e_k` -/
noncomputable def shift {n : Nat} (a : Vec ℝ n) (k : Fin n) (t : ℝ) : Vec ℝ n :=
  .of (fun i => if i = k then a i + t else a i)

/-- the polynomial matrix `Q` of `calculate_Q_dQ` with the coefficients `A B C` as free parameters:
    `Q = V/2 + A·PA + B·PB + C·PC`, `(PA,PB,PC) = SE3.PABC v w` (same expression tree as the model's `Q`) -/
noncomputable def Qpoly (A B C : ℝ) (v w : Vec ℝ 3) : Mat ℝ 3 3 :=
  let P := SE3.PABC v w
  .of (fun i j => ((SO3.hat v i j / nat 2 + A * P.1 i j) + B * P.2.1 i j) + C * P.2.2 i j)

/-- entry `(j, r)` of `Qpoly` along the coordinate line `t ↦ a + t e_k`, `a = (v, w)` -/
noncomputable def Qline (A B C : ℝ) (a : Vec ℝ 6) (k : Fin 6) (j r : Fin 3) (t : ℝ) : ℝ :=
  Qpoly A B C (SE3.tv (shift a k t)) (SE3.tw (shift a k t)) j r

/-- the cubic-expansion statement for table entry `(r, c)`, `c = 6 j + k` -/
def Expands (A B C : ℝ) (a : Vec ℝ 6) (r : Fin 3) (c : Fin 18) : Prop :=
  let k : Fin 6 := ⟨c.val % 6, Nat.mod_lt _ (by decide)⟩
  let j : Fin 3 := ⟨c.val / 6, by have := c.isLt; omega⟩
  let d := (SE3Gen.dQtab A B C (SE3.tv a) (SE3.tw a)) r c
  ∀ t : ℝ, Qline A B C a k j r t = Qline A B C a k j r 0 + t * d
      + t^2 * ((Qline A B C a k j r 1 + Qline A B C a k j r (-1)) / 2 - Qline A B C a k j r 0)
      + t^3 * ((Qline A B C a k j r 1 - Qline A B C a k j r (-1)) / 2 - d)

macro "dq_simp" : tactic => `(tactic|
  simp only [Expands, Qline, Qpoly, SE3.PABC, memoM_eq, Mat.of_get, mmul3, dot3, hat_00, hat_01, hat_02,
    hat_10, hat_11, hat_12, hat_20, hat_21, hat_22, SE3.tv, SE3.tw, mk3_0, mk3_1, mk3_2, shift,
    Vec.of_get, Fin.isValue, Fin.reduceEq, ↓reduceIte, Scalar.nat_real, Nat.cast_ofNat,
    SE3Gen.dQtab, Fin.zero_eta, Fin.mk_one, Fin.reduceFinMk, Fin.val_zero, Fin.val_one, Fin.val_two, Fin.coe_ofNat_eq_mod,
    Nat.reduceMul, Nat.reduceAdd, Nat.reduceDiv, Nat.reduceMod, SE3Gen.dQ_0_0, SE3Gen.dQ_0_1, SE3Gen.dQ_0_2, SE3Gen.dQ_0_3, SE3Gen.dQ_0_4, SE3Gen.dQ_0_5, SE3Gen.dQ_0_6, SE3Gen.dQ_0_7, SE3Gen.dQ_0_8, SE3Gen.dQ_0_9, SE3Gen.dQ_0_10, SE3Gen.dQ_0_11, SE3Gen.dQ_0_12, SE3Gen.dQ_0_13, SE3Gen.dQ_0_14, SE3Gen.dQ_0_15, SE3Gen.dQ_0_16, SE3Gen.dQ_0_17, SE3Gen.dQ_1_0, SE3Gen.dQ_1_1, SE3Gen.dQ_1_2, SE3Gen.dQ_1_3, SE3Gen.dQ_1_4, SE3Gen.dQ_1_5, SE3Gen.dQ_1_6, SE3Gen.dQ_1_7, SE3Gen.dQ_1_8, SE3Gen.dQ_1_9, SE3Gen.dQ_1_10, SE3Gen.dQ_1_11, SE3Gen.dQ_1_12, SE3Gen.dQ_1_13, SE3Gen.dQ_1_14, SE3Gen.dQ_1_15, SE3Gen.dQ_1_16, SE3Gen.dQ_1_17, SE3Gen.dQ_2_0, SE3Gen.dQ_2_1, SE3Gen.dQ_2_2, SE3Gen.dQ_2_3, SE3Gen.dQ_2_4, SE3Gen.dQ_2_5, SE3Gen.dQ_2_6, SE3Gen.dQ_2_7, SE3Gen.dQ_2_8, SE3Gen.dQ_2_9, SE3Gen.dQ_2_10, SE3Gen.dQ_2_11, SE3Gen.dQ_2_12, SE3Gen.dQ_2_13, SE3Gen.dQ_2_14, SE3Gen.dQ_2_15, SE3Gen.dQ_2_16, SE3Gen.dQ_2_17])

end C05dQ
