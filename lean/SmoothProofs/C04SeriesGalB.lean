/-
  C04SeriesGalB.lean — block algebra for `X = ad a` of Galilei (blocks `b q s ω`, sizes 3 3 1 3):
  the general block shape `gsh` (like `C04Galilei.gshape`, with an arbitrary `(s,s)` entry), its
  product / sum / scalar multiple, and the blocks of `X²`, `Z₁ = X²X² + nX²`, `Z₂ = X²Z₁ + nZ₁`,
  the fact `X²Z₂ + nZ₂ = 0`, and of `X·X²`, `X·Z₁`, `X·Z₂`.
-/
import SmoothProofs.C04SeriesGalA
import SmoothProofs.C04Galilei

open Lin Scalar
set_option linter.unusedSimpArgs false

namespace C04SeriesGal
open C04Alg C04SO3 C04Series C04SeriesSE3 C05dQ
open C04Galilei (ib iq is iw sum10 idx_cases)

/-- the block shape with `(s,s)` entry `d` -/
noncomputable def gsh (A00 A03 A10 A11 A13 A33 : Mat ℝ 3 3) (c : Vec ℝ 3) (d : ℝ) : Mat ℝ 10 10 :=
  let Z : Mat ℝ 10 10 := mzero 10 10
  let M1 := Galilei.blockSet (Galilei.blockSet Z 0 0 A00) 0 7 A03
  let M2 := Galilei.blockSet (Galilei.blockSet (Galilei.blockSet M1 3 0 A10) 3 3 A11) 3 7 A13
  let M3 := Galilei.blockSet M2 7 7 A33
  (.of (fun i j =>
    if hi : 3 ≤ i.val ∧ i.val < 6 ∧ j.val = 6 then c ⟨i.val - 3, by omega⟩
    else if i.val = 6 ∧ j.val = 6 then d
    else M3 i j))

section entries
variable (A00 A03 A10 A11 A13 A33 : Mat ℝ 3 3) (v : Vec ℝ 3) (d : ℝ)

macro "gh_entry" : tactic => `(tactic|
  (intro c c'; fin_cases c <;> fin_cases c' <;>
    simp [gsh, Galilei.blockSet, mzero, ib, iq, is, iw]))
macro "gh_entry1" : tactic => `(tactic|
  (intro c; fin_cases c <;> simp [gsh, Galilei.blockSet, mzero, ib, iq, is, iw]))

theorem h_bb : ∀ c c', (gsh A00 A03 A10 A11 A13 A33 v d) (ib c) (ib c') = A00 c c' := by gh_entry
theorem h_bq : ∀ c c', (gsh A00 A03 A10 A11 A13 A33 v d) (ib c) (iq c') = 0 := by gh_entry
theorem h_bs : ∀ c, (gsh A00 A03 A10 A11 A13 A33 v d) (ib c) is = 0 := by gh_entry1
theorem h_bw : ∀ c c', (gsh A00 A03 A10 A11 A13 A33 v d) (ib c) (iw c') = A03 c c' := by gh_entry
theorem h_qb : ∀ c c', (gsh A00 A03 A10 A11 A13 A33 v d) (iq c) (ib c') = A10 c c' := by gh_entry
theorem h_qq : ∀ c c', (gsh A00 A03 A10 A11 A13 A33 v d) (iq c) (iq c') = A11 c c' := by gh_entry
theorem h_qs : ∀ c, (gsh A00 A03 A10 A11 A13 A33 v d) (iq c) is = v c := by gh_entry1
theorem h_qw : ∀ c c', (gsh A00 A03 A10 A11 A13 A33 v d) (iq c) (iw c') = A13 c c' := by gh_entry
theorem h_sb : ∀ c, (gsh A00 A03 A10 A11 A13 A33 v d) is (ib c) = 0 := by gh_entry1
theorem h_sq : ∀ c, (gsh A00 A03 A10 A11 A13 A33 v d) is (iq c) = 0 := by gh_entry1
theorem h_ss : (gsh A00 A03 A10 A11 A13 A33 v d) is is = d := by
  simp [gsh, Galilei.blockSet, mzero, is]
theorem h_sw : ∀ c, (gsh A00 A03 A10 A11 A13 A33 v d) is (iw c) = 0 := by gh_entry1
theorem h_wb : ∀ c c', (gsh A00 A03 A10 A11 A13 A33 v d) (iw c) (ib c') = 0 := by gh_entry
theorem h_wq : ∀ c c', (gsh A00 A03 A10 A11 A13 A33 v d) (iw c) (iq c') = 0 := by gh_entry
theorem h_ws : ∀ c, (gsh A00 A03 A10 A11 A13 A33 v d) (iw c) is = 0 := by gh_entry1
theorem h_ww : ∀ c c', (gsh A00 A03 A10 A11 A13 A33 v d) (iw c) (iw c') = A33 c c' := by gh_entry

end entries

/-- two matrices with the same 16 blocks are equal -/
theorem ext_blocks {M N : Mat ℝ 10 10}
    (h : ∀ i j, M i j = N i j) : M = N := by ext i j; exact h i j

macro "gh_prod" : tactic => `(tactic|
  (rw [mmul_apply, sum10]
   simp only [h_bb, h_bq, h_bs, h_bw, h_qb, h_qq, h_qs, h_qw, h_sb, h_sq, h_ss, h_sw, h_wb, h_wq,
     h_ws, h_ww, mul_zero, zero_mul, Finset.sum_const_zero, add_zero, zero_add, mul_one, one_mul,
     madd, vadd, vsmul, mulVec_apply, mmul_apply, Mat.of_get, Vec.of_get, Finset.sum_add_distrib]
   try ring))

theorem gsh_mul (A00 A03 A10 A11 A13 A33 B00 B03 B10 B11 B13 B33 : Mat ℝ 3 3) (c c' : Vec ℝ 3) (d d' : ℝ) :
    mmul (gsh A00 A03 A10 A11 A13 A33 c d) (gsh B00 B03 B10 B11 B13 B33 c' d')
      = gsh (mmul A00 B00) (madd (mmul A00 B03) (mmul A03 B33))
          (madd (mmul A10 B00) (mmul A11 B10)) (mmul A11 B11)
          (madd (madd (mmul A10 B03) (mmul A11 B13)) (mmul A13 B33)) (mmul A33 B33)
          (vadd (mulVec A11 c') (vsmul d' c)) (d * d') := by
  ext i j
  revert i j
  apply idx_cases
  · intro x; apply idx_cases <;> (try intro y) <;> gh_prod
  · intro x; apply idx_cases <;> (try intro y) <;> gh_prod
  · apply idx_cases <;> (try intro y) <;> gh_prod
  · intro x; apply idx_cases <;> (try intro y) <;> gh_prod

macro "gh_lin" : tactic => `(tactic|
  (simp only [madd, msmul, vadd, vsmul, Mat.of_get, Vec.of_get, h_bb, h_bq, h_bs, h_bw, h_qb, h_qq, h_qs,
     h_qw, h_sb, h_sq, h_ss, h_sw, h_wb, h_wq, h_ws, h_ww, add_zero, mul_zero]))

theorem gsh_madd (A00 A03 A10 A11 A13 A33 B00 B03 B10 B11 B13 B33 : Mat ℝ 3 3) (c c' : Vec ℝ 3) (d d' : ℝ) :
    madd (gsh A00 A03 A10 A11 A13 A33 c d) (gsh B00 B03 B10 B11 B13 B33 c' d')
      = gsh (madd A00 B00) (madd A03 B03) (madd A10 B10) (madd A11 B11) (madd A13 B13) (madd A33 B33)
          (vadd c c') (d + d') := by
  ext i j
  revert i j
  apply idx_cases
  · intro x; apply idx_cases <;> (try intro y) <;> gh_lin
  · intro x; apply idx_cases <;> (try intro y) <;> gh_lin
  · apply idx_cases <;> (try intro y) <;> gh_lin
  · intro x; apply idx_cases <;> (try intro y) <;> gh_lin

theorem gsh_msmul (t : ℝ) (A00 A03 A10 A11 A13 A33 : Mat ℝ 3 3) (c : Vec ℝ 3) (d : ℝ) :
    msmul t (gsh A00 A03 A10 A11 A13 A33 c d)
      = gsh (msmul t A00) (msmul t A03) (msmul t A10) (msmul t A11) (msmul t A13) (msmul t A33)
          (vsmul t c) (t * d) := by
  ext i j
  revert i j
  apply idx_cases
  · intro x; apply idx_cases <;> (try intro y) <;> gh_lin
  · intro x; apply idx_cases <;> (try intro y) <;> gh_lin
  · apply idx_cases <;> (try intro y) <;> gh_lin
  · intro x; apply idx_cases <;> (try intro y) <;> gh_lin

theorem gsh_congr {A00 A03 A10 A11 A13 A33 B00 B03 B10 B11 B13 B33 : Mat ℝ 3 3} {c c' : Vec ℝ 3} {d d' : ℝ}
    (h00 : A00 = B00) (h03 : A03 = B03) (h10 : A10 = B10) (h11 : A11 = B11) (h13 : A13 = B13)
    (h33 : A33 = B33) (hc : c = c') (hd : d = d') :
    gsh A00 A03 A10 A11 A13 A33 c d = gsh B00 B03 B10 B11 B13 B33 c' d' := by
  rw [h00, h03, h10, h11, h13, h33, hc, hd]

theorem gsh_ident : gsh (ident 3) (mzero 3 3) (mzero 3 3) (ident 3) (mzero 3 3) (ident 3) (vzero 3) 1
    = ident 10 := by
  rw [← C04Galilei.gshape_ident]
  unfold gsh C04Galilei.gshape
  simp only [Scalar.nat_real, Nat.cast_one]

theorem gsh_zero : gsh (mzero 3 3) (mzero 3 3) (mzero 3 3) (mzero 3 3) (mzero 3 3) (mzero 3 3) (vzero 3) 0
    = mzero 10 10 := by
  ext i j
  revert i j
  apply idx_cases
  · intro x; apply idx_cases <;> (try intro y) <;> gh_lin <;> simp [mzero, vzero]
  · intro x; apply idx_cases <;> (try intro y) <;> gh_lin <;> simp [mzero, vzero]
  · apply idx_cases <;> (try intro y) <;> gh_lin <;> simp [mzero, vzero]
  · intro x; apply idx_cases <;> (try intro y) <;> gh_lin <;> simp [mzero, vzero]

/-- `ad a` has this shape -/
theorem ad_gsh (a : Vec ℝ 10) :
    Galilei.ad a = gsh (SO3.hat (Galilei.tw a)) (SO3.hat (Galilei.tb a))
      (.of (fun i j => (-(Galilei.ts a)) * (ident 3 : Mat ℝ 3 3) i j)) (SO3.hat (Galilei.tw a))
      (SO3.hat (Galilei.tq a)) (SO3.hat (Galilei.tw a)) (Galilei.tb a) 0 := by
  ext i j
  simp only [Galilei.ad, gsh, Mat.of_get]
  split_ifs with h1 h2
  · rfl
  · obtain ⟨e1, e2⟩ := h2
    have hi : i = 6 := Fin.ext e1
    have hj : j = 6 := Fin.ext e2
    subst hi; subst hj
    simp [Galilei.blockSet, mzero]
  · rfl

end C04SeriesGal
