/-
  C20ModelEq3.lean — the literal tables of C20Exact.lean ARE the model's tables at `Rat`
  (kernel evaluation of the model, once per table).
-/
import SmoothProofs.C20Tables
import SmoothProofs.C20Exact

namespace C20T
open Poly
set_option maxRecDepth 100000

theorem basis_eq_exact_Hermite : ∀ K, K ≤ 10 → basis (α := Q) .Hermite K = Exact.basis .Hermite K := by
  decide +kernel

theorem basis_eq_exact_Laguerre : ∀ K, K ≤ 10 → basis (α := Q) .Laguerre K = Exact.basis .Laguerre K := by
  decide +kernel

theorem basis_eq_exact_Legendre : ∀ K, K ≤ 10 → basis (α := Q) .Legendre K = Exact.basis .Legendre K := by
  decide +kernel

theorem basis_eq_exact_Monomial : ∀ K, K ≤ 10 → basis (α := Q) .Monomial K = Exact.basis .Monomial K := by
  decide +kernel

end C20T
