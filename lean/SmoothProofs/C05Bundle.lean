/-
  C05Bundle.lean — the statement "`d2r_exp a` holds the partial derivatives of `dr_exp` at `a`"
  (`H[r, D·j + k] = ∂J[j,r]/∂a_k`, all entries) lifts from the parts to `Bundle.prod A B` and to
  `Bundle.bundle ps` (block-diagonal Jacobian, `hessPlace` placement of the part Hessians, zero
  cross blocks); same for `d2r_expinv`.
-/
import SmoothProofs.C04Bundle
import SmoothProofs.C06Hess
import SmoothProofs.C05dQBase

open Lin Scalar

namespace C05Bundle
open C04Bundle C05dQ

/-- all entries of `hess a` are the partial derivatives of the entries of `jac` at `a` -/
def IsHessOf {d : Nat} (jac : Vec ℝ d → Mat ℝ d d) (hess : Vec ℝ d → Mat ℝ d (d * d)) (a : Vec ℝ d) : Prop :=
  ∀ (j r k : Fin d), HasDerivAt (fun t => (jac (shift a k t)) j r)
    ((hess a) r ⟨d * j.val + k.val, C06.col_lt j.isLt k.isLt⟩) 0

def HessAt : PointProp := fun G a => IsHessOf G.dr_exp G.d2r_exp a
def HessInvAt : PointProp := fun G a => IsHessOf G.dr_expinv G.d2r_expinv a

theorem fst_shift_lt {n m : Nat} (a : Vec ℝ (n + m)) (K : Fin (n + m)) (t : ℝ) (h : K.val < n) :
    Bundle.fst (shift a K t) = shift (Bundle.fst a) ⟨K.val, h⟩ t := by
  ext i
  simp only [Bundle.fst, shift, Vec.of_get, Fin.ext_iff]

theorem fst_shift_ge {n m : Nat} (a : Vec ℝ (n + m)) (K : Fin (n + m)) (t : ℝ) (h : n ≤ K.val) :
    Bundle.fst (shift a K t) = Bundle.fst a := by
  ext i
  have : ¬ (i.val = K.val) := by have := i.isLt; omega
  simp only [Bundle.fst, shift, Vec.of_get, Fin.ext_iff, this, if_false]

theorem snd_shift_ge {n m : Nat} (a : Vec ℝ (n + m)) (K : Fin (n + m)) (t : ℝ) (h : n ≤ K.val) :
    Bundle.snd (shift a K t) = shift (Bundle.snd a) ⟨K.val - n, by have := K.isLt; omega⟩ t := by
  ext i
  have : (n + i.val = K.val) ↔ (i.val = K.val - n) := by omega
  simp only [Bundle.snd, shift, Vec.of_get, Fin.ext_iff, this]

theorem snd_shift_lt {n m : Nat} (a : Vec ℝ (n + m)) (K : Fin (n + m)) (t : ℝ) (h : K.val < n) :
    Bundle.snd (shift a K t) = Bundle.snd a := by
  ext i
  have : ¬ (n + i.val = K.val) := by omega
  simp only [Bundle.snd, shift, Vec.of_get, Fin.ext_iff, this, if_false]

theorem col_div {D J K : Nat} (hK : K < D) : (D * J + K) / D = J := by
  have hD : 0 < D := by omega
  rw [Nat.mul_add_div hD, Nat.div_eq_of_lt hK, Nat.add_zero]

theorem col_mod {D J K : Nat} (hK : K < D) : (D * J + K) % D = K := by
  rw [Nat.mul_add_mod, Nat.mod_eq_of_lt hK]

/-- the generic product step -/
theorem isHessOf_prod {dA dB : Nat}
    (jA : Vec ℝ dA → Mat ℝ dA dA) (hA : Vec ℝ dA → Mat ℝ dA (dA * dA))
    (jB : Vec ℝ dB → Mat ℝ dB dB) (hB : Vec ℝ dB → Mat ℝ dB (dB * dB))
    (jac : Vec ℝ (dA + dB) → Mat ℝ (dA + dB) (dA + dB))
    (hess : Vec ℝ (dA + dB) → Mat ℝ (dA + dB) ((dA + dB) * (dA + dB)))
    (hjac : ∀ x, jac x = Bundle.bdiag (jA (Bundle.fst x)) (jB (Bundle.snd x)))
    (hhess : ∀ x R C, hess x R C = Bundle.hessPlace (dA + dB) 0 (hA (Bundle.fst x)) R C
      + Bundle.hessPlace (dA + dB) dA (hB (Bundle.snd x)) R C)
    (a : Vec ℝ (dA + dB)) (HA : IsHessOf jA hA (Bundle.fst a)) (HB : IsHessOf jB hB (Bundle.snd a)) :
    IsHessOf jac hess a := by
  intro J R K
  have hJ := J.isLt
  have hR := R.isLt
  have hK := K.isLt
  have hd : (⟨(dA + dB) * J.val + K.val, C06.col_lt J.isLt K.isLt⟩ :
      Fin ((dA + dB) * (dA + dB))).val / (dA + dB) = J.val := col_div hK
  have hm : (⟨(dA + dB) * J.val + K.val, C06.col_lt J.isLt K.isLt⟩ :
      Fin ((dA + dB) * (dA + dB))).val % (dA + dB) = K.val := col_mod hK
  rw [hhess]
  simp only [hjac, Bundle.bdiag, Mat.of_get]
  by_cases hJA : J.val < dA <;> by_cases hRA : R.val < dA
  · -- first diagonal block
    simp only [dif_pos hJA, dif_pos hRA]
    by_cases hKA : K.val < dA
    · rw [C06.placeSum_entry_fst _ _ R _ ⟨R.val, hRA⟩ ⟨J.val, hJA⟩ ⟨K.val, hKA⟩ rfl rfl]
      simp only [fst_shift_lt a K _ hKA]
      exact HA ⟨J.val, hJA⟩ ⟨R.val, hRA⟩ ⟨K.val, hKA⟩
    · rw [C06.placeSum_zero _ _ R _
        (fun hb => by have := hb.2.2.2.2.2; rw [hm] at this; omega)
        (fun hb => by have := hb.1; omega)]
      simp only [fst_shift_ge a K _ (not_lt.1 hKA)]
      exact hasDerivAt_const _ _
  · simp only [dif_pos hJA, dif_neg hRA]
    rw [C06.placeSum_zero _ _ R _
      (fun hb => by have := hb.2.1; omega)
      (fun hb => by have := hb.2.2.1; rw [hd] at this; omega)]
    simpa using hasDerivAt_const (0:ℝ) (0:ℝ)
  · simp only [dif_neg hJA, dif_pos hRA]
    rw [C06.placeSum_zero _ _ R _
      (fun hb => by have := hb.2.2.2.1; rw [hd] at this; omega)
      (fun hb => by have := hb.1; omega)]
    simpa using hasDerivAt_const (0:ℝ) (0:ℝ)
  · -- second diagonal block
    simp only [dif_neg hJA, dif_neg hRA]
    by_cases hKA : K.val < dA
    · rw [C06.placeSum_zero _ _ R _
        (fun hb => by have := hb.2.1; omega)
        (fun hb => by have := hb.2.2.2.2.1; rw [hm] at this; omega)]
      simp only [snd_shift_lt a K _ hKA]
      exact hasDerivAt_const _ _
    · rw [C06.placeSum_entry_snd _ _ R _ ⟨R.val - dA, by omega⟩ ⟨J.val - dA, by omega⟩
        ⟨K.val - dA, by omega⟩ (by simp only []; omega)
        (by simp only []; congr 1 <;> [congr 1; skip] <;> omega)]
      simp only [snd_shift_ge a K _ (not_lt.1 hKA)]
      exact HB ⟨J.val - dA, by omega⟩ ⟨R.val - dA, by omega⟩ ⟨K.val - dA, by omega⟩

theorem hessAt_prod (A B : LieModel ℝ) (a : Vec ℝ (A.dof + B.dof))
    (hA : HessAt A (Bundle.fst a)) (hB : HessAt B (Bundle.snd a)) : HessAt (Bundle.prod A B) a :=
  isHessOf_prod A.dr_exp A.d2r_exp B.dr_exp B.d2r_exp (Bundle.prod A B).dr_exp
    (Bundle.prod A B).d2r_exp (fun _ => rfl) (fun x R C => C06.prod_d2r_exp_apply A B x R C) a hA hB

theorem hessInvAt_prod (A B : LieModel ℝ) (a : Vec ℝ (A.dof + B.dof))
    (hA : HessInvAt A (Bundle.fst a)) (hB : HessInvAt B (Bundle.snd a)) :
    HessInvAt (Bundle.prod A B) a :=
  isHessOf_prod A.dr_expinv A.d2r_expinv B.dr_expinv B.d2r_expinv (Bundle.prod A B).dr_expinv
    (Bundle.prod A B).d2r_expinv (fun _ => rfl)
    (fun x R C => C06.prod_d2r_expinv_apply A B x R C) a hA hB

theorem hessAt_unit (a : Vec ℝ (Bundle.unit : LieModel ℝ).dof) : HessAt Bundle.unit a :=
  fun j => j.elim0

theorem hessInvAt_unit (a : Vec ℝ (Bundle.unit : LieModel ℝ).dof) : HessInvAt Bundle.unit a :=
  fun j => j.elim0

theorem hessAt_bundle (ps : List (LieModel ℝ)) (a : Vec ℝ (Bundle.bundle ps).dof)
    (h : AllParts HessAt ps a) : HessAt (Bundle.bundle ps) a :=
  bundle_lift HessAt hessAt_unit hessAt_prod ps a h

theorem hessInvAt_bundle (ps : List (LieModel ℝ)) (a : Vec ℝ (Bundle.bundle ps).dof)
    (h : AllParts HessInvAt ps a) : HessInvAt (Bundle.bundle ps) a :=
  bundle_lift HessInvAt hessInvAt_unit hessInvAt_prod ps a h

/-! ### commutative parts: constant Jacobian, zero Hessian -/

theorem isHessOf_const {d : Nat} (jac : Vec ℝ d → Mat ℝ d d) (hess : Vec ℝ d → Mat ℝ d (d * d))
    (a : Vec ℝ d) (M : Mat ℝ d d) (h1 : ∀ b, jac b = M) (h2 : hess a = mzero d (d * d)) :
    IsHessOf jac hess a := by
  intro j r k
  simp only [h1, h2, mzero, Mat.of_get, Nat.cast_zero]
  exact hasDerivAt_const _ _

end C05Bundle
