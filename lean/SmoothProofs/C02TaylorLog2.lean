/-
  C02TaylorLog2.lean — series branches of `SE2.logA` (`(θ/2)/tan(θ/2)` vs `1 − θ²/12`) and
  `SO3.S1invA` (`1/θ² − (1+cos θ)/(2θ sin θ)` vs `1/12 + θ²/720`): explicit bounds
  `θ⁴/320` and `θ⁴/10000` (true next terms `θ⁴/720`, `θ⁴/30240`).
-/
import SmoothProofs.C02Taylor
import Mathlib.Analysis.SpecialFunctions.Trigonometric.Bounds

open Lin Scalar

namespace C02

theorem sin_ge_half (x : ℝ) (h0 : 0 < x) (h1 : x ≤ 1) : x / 2 ≤ Real.sin x := by
  have := Real.sin_gt_sub_cube h0
  have hx3 : x ^ 3 ≤ x := by
    have : x ^ 3 = x * (x * x) := by ring
    rw [this]; nlinarith [mul_nonneg h0.le h0.le]
  linarith

/-- `x cos x − (1 − x²/3) sin x = O(x⁵)`, explicit: `≤ x⁵/40` for `0 < x ≤ 1/2` -/
theorem xcot_num_bound (x : ℝ) (h0 : 0 < x) (h1 : x ≤ 1 / 2) :
    |x * Real.cos x - (1 - x ^ 2 / 3) * Real.sin x| ≤ x ^ 5 / 40 := by
  have hx1 : |x| ≤ 1 := by rw [abs_of_pos h0]; linarith
  have hc := cos_bound6 x hx1
  have hs := sin_bound9 x hx1
  rw [abs_of_pos h0] at hc hs
  set rc := Real.cos x - (1 - x ^ 2 / 2 + x ^ 4 / 24) with hrc
  set rs := Real.sin x - (x - x ^ 3 / 6 + x ^ 5 / 120 - x ^ 7 / 5040) with hrs
  have e : x * Real.cos x - (1 - x ^ 2 / 3) * Real.sin x
      = (-(x ^ 5) / 45 + x ^ 7 / 336 - x ^ 9 / 15120) + x * rc - (1 - x ^ 2 / 3) * rs := by
    rw [hrc, hrs]; ring
  rw [e]
  have hx2 : x ^ 2 ≤ 1 / 4 := by nlinarith
  have h5 : 0 ≤ x ^ 5 := by positivity
  have h7 : x ^ 7 ≤ x ^ 5 / 4 := by
    have : x ^ 7 = x ^ 5 * x ^ 2 := by ring
    rw [this]; nlinarith
  have h70 : 0 ≤ x ^ 7 := by positivity
  have h9 : x ^ 9 ≤ x ^ 5 / 16 := by
    have : x ^ 9 = x ^ 7 * x ^ 2 := by ring
    rw [this]; nlinarith
  have h90 : 0 ≤ x ^ 9 := by positivity
  have hxrc : |x * rc| ≤ x ^ 7 * (7 / 4320) := by
    rw [abs_mul, abs_of_pos h0]
    have : x * |rc| ≤ x * (x ^ 6 * (7 / 4320)) := mul_le_mul_of_nonneg_left hc h0.le
    calc x * |rc| ≤ x * (x ^ 6 * (7 / 4320)) := this
      _ = x ^ 7 * (7 / 4320) := by ring
  have hfac : |1 - x ^ 2 / 3| ≤ 1 := by
    rw [abs_le]; constructor <;> nlinarith [sq_nonneg x]
  have hfrs : |(1 - x ^ 2 / 3) * rs| ≤ x ^ 9 * (10 / 3265920) := by
    rw [abs_mul]
    calc |1 - x ^ 2 / 3| * |rs| ≤ 1 * (x ^ 9 * (10 / 3265920)) :=
          mul_le_mul hfac hs (abs_nonneg _) (by norm_num)
      _ = _ := by ring
  have hpoly : |-(x ^ 5) / 45 + x ^ 7 / 336 - x ^ 9 / 15120| ≤ x ^ 5 / 45 + x ^ 7 / 336 + x ^ 9 / 15120 := by
    rw [abs_le]; constructor <;> linarith
  have := abs_add_le (-(x ^ 5) / 45 + x ^ 7 / 336 - x ^ 9 / 15120 + x * rc) (-((1 - x ^ 2 / 3) * rs))
  have h2 := abs_add_le (-(x ^ 5) / 45 + x ^ 7 / 336 - x ^ 9 / 15120) (x * rc)
  rw [abs_neg] at this
  have e2 : -(x ^ 5) / 45 + x ^ 7 / 336 - x ^ 9 / 15120 + x * rc - (1 - x ^ 2 / 3) * rs
      = -(x ^ 5) / 45 + x ^ 7 / 336 - x ^ 9 / 15120 + x * rc + -((1 - x ^ 2 / 3) * rs) := by ring
  rw [e2]
  linarith

/-- `x / tan x` vs `1 − x²/3` for `0 < x ≤ 1/2`: `≤ x⁴/20` -/
theorem xcot_real_pos (x : ℝ) (h0 : 0 < x) (h1 : x ≤ 1 / 2) :
    |(1 - x ^ 2 / 3) - x / Real.tan x| ≤ x ^ 4 / 20 := by
  have hs := sin_ge_half x h0 (by linarith)
  have hspos : 0 < Real.sin x := by linarith
  have hN := xcot_num_bound x h0 h1
  have e : (1 - x ^ 2 / 3) - x / Real.tan x
      = -(x * Real.cos x - (1 - x ^ 2 / 3) * Real.sin x) / Real.sin x := by
    rw [Real.tan_eq_sin_div_cos, div_div_eq_mul_div]
    field_simp
    ring
  rw [e, abs_div, abs_neg, abs_of_pos hspos, div_le_iff₀ hspos]
  have : x ^ 4 / 20 * Real.sin x ≥ x ^ 4 / 20 * (x / 2) :=
    mul_le_mul_of_nonneg_left hs (by positivity)
  calc _ ≤ x ^ 5 / 40 := hN
    _ = x ^ 4 / 20 * (x / 2) := by ring
    _ ≤ _ := this

/-- signed version -/
theorem xcot_real (x : ℝ) (h0 : x ≠ 0) (h1 : |x| ≤ 1 / 2) :
    |(1 - x ^ 2 / 3) - x / Real.tan x| ≤ x ^ 4 / 20 := by
  rcases lt_or_gt_of_ne h0 with hneg | hpos
  · have := xcot_real_pos (-x) (by linarith) (by rw [abs_of_neg hneg] at h1; exact h1)
    rw [Real.tan_neg, neg_div_neg_eq] at this
    have e2 : (-x) ^ 2 = x ^ 2 := by ring
    have e4 : (-x) ^ 4 = x ^ 4 := by ring
    rw [e2, e4] at this; exact this
  · exact xcot_real_pos x hpos (by rw [abs_of_pos hpos] at h1; exact h1)

/-- **SE2 `log` coefficient `A`**, series branch vs closed form: `≤ θ⁴/320`. -/
theorem se2_logA_series (θ : ℝ) (h0 : θ ≠ 0) (h1 : θ * θ < Scalar.eps2) :
    |SE2.logA (θ * θ) (θ / 2) - (θ / 2) / Real.tan (θ / 2)| ≤ (θ * θ) ^ 2 / 320 := by
  have hle := abs_le_one_of_sq_small h1
  have hx0 : θ / 2 ≠ 0 := by intro h; apply h0; linarith
  have hx1 : |θ / 2| ≤ 1 / 2 := by rw [abs_div, abs_of_pos (by norm_num : (0:ℝ) < 2)]; linarith
  have := xcot_real (θ / 2) hx0 hx1
  have hA : SE2.logA (θ * θ) (θ / 2) = 1 - θ * θ / 12 := by simp [SE2.logA, h1]
  rw [hA]
  have e1 : 1 - θ * θ / 12 = 1 - (θ / 2) ^ 2 / 3 := by ring
  have e2 : (θ * θ) ^ 2 / 320 = (θ / 2) ^ 4 / 20 := by ring
  rw [e1, e2]; exact this


/-- numerator of `A(θ) − (1/12 + θ²/720)` times `2θ² sin θ`: `O(θ⁷)`, `≤ θ⁷/10000` for `θ ≤ 1/10` -/
theorem s1inv_num_bound (x : ℝ) (h0 : 0 < x) (h1 : x ≤ 1 / 10) :
    |2 * Real.sin x - x - x * Real.cos x - (x ^ 2 / 6 + x ^ 4 / 360) * Real.sin x|
      ≤ x ^ 7 / 10000 := by
  have hx1 : |x| ≤ 1 := by rw [abs_of_pos h0]; linarith
  have hc := cos_bound8 x hx1
  have hs := sin_bound9 x hx1
  rw [abs_of_pos h0] at hc hs
  set rc := Real.cos x - (1 - x ^ 2 / 2 + x ^ 4 / 24 - x ^ 6 / 720) with hrc
  set rs := Real.sin x - (x - x ^ 3 / 6 + x ^ 5 / 120 - x ^ 7 / 5040) with hrs
  have e : 2 * Real.sin x - x - x * Real.cos x - (x ^ 2 / 6 + x ^ 4 / 360) * Real.sin x
      = (x ^ 7 / 15120 + x ^ 9 / 100800 + x ^ 11 / 1814400)
        + (2 - (x ^ 2 / 6 + x ^ 4 / 360)) * rs + -(x * rc) := by
    rw [hrc, hrs]; ring
  rw [e]
  have hx2 : x ^ 2 ≤ 1 / 100 := by nlinarith
  have h7 : 0 ≤ x ^ 7 := by positivity
  have h9 : x ^ 9 ≤ x ^ 7 / 100 := by
    have : x ^ 9 = x ^ 7 * x ^ 2 := by ring
    rw [this]; nlinarith
  have h90 : 0 ≤ x ^ 9 := by positivity
  have h11 : x ^ 11 ≤ x ^ 7 / 100 := by
    have : x ^ 11 = x ^ 9 * x ^ 2 := by ring
    rw [this]; nlinarith
  have h110 : 0 ≤ x ^ 11 := by positivity
  have hxrc : |-(x * rc)| ≤ x ^ 9 * (9 / 322560) := by
    rw [abs_neg, abs_mul, abs_of_pos h0]
    calc x * |rc| ≤ x * (x ^ 8 * (9 / 322560)) := mul_le_mul_of_nonneg_left hc h0.le
      _ = x ^ 9 * (9 / 322560) := by ring
  have hfac : |2 - (x ^ 2 / 6 + x ^ 4 / 360)| ≤ 2 := by
    have : 0 ≤ x ^ 4 := by positivity
    have : x ^ 4 ≤ 1 := by
      have : x ^ 4 = x ^ 2 * x ^ 2 := by ring
      rw [this]; nlinarith [sq_nonneg x]
    rw [abs_le]; constructor <;> nlinarith [sq_nonneg x]
  have hfrs : |(2 - (x ^ 2 / 6 + x ^ 4 / 360)) * rs| ≤ 2 * (x ^ 9 * (10 / 3265920)) := by
    rw [abs_mul]
    exact mul_le_mul hfac hs (abs_nonneg _) (by norm_num)
  have hpoly : |x ^ 7 / 15120 + x ^ 9 / 100800 + x ^ 11 / 1814400|
      ≤ x ^ 7 / 15120 + x ^ 9 / 100800 + x ^ 11 / 1814400 := by
    rw [abs_of_nonneg (by positivity)]
  have t1 := abs_add_le (x ^ 7 / 15120 + x ^ 9 / 100800 + x ^ 11 / 1814400
    + (2 - (x ^ 2 / 6 + x ^ 4 / 360)) * rs) (-(x * rc))
  have t2 := abs_add_le (x ^ 7 / 15120 + x ^ 9 / 100800 + x ^ 11 / 1814400)
    ((2 - (x ^ 2 / 6 + x ^ 4 / 360)) * rs)
  linarith

/-- `1/x² − (1+cos x)/(2x sin x)` vs `1/12 + x²/720` for `0 < x ≤ 1/10`: `≤ x⁴/10000` -/
theorem s1inv_real (x : ℝ) (h0 : 0 < x) (h1 : x ≤ 1 / 10) :
    |(1 / 12 + x ^ 2 / 720) - (1 / x ^ 2 - (1 + Real.cos x) / (2 * x * Real.sin x))|
      ≤ x ^ 4 / 10000 := by
  have hs := sin_ge_half x h0 (by linarith)
  have hspos : 0 < Real.sin x := by linarith
  have hN := s1inv_num_bound x h0 h1
  have e : (1 / 12 + x ^ 2 / 720) - (1 / x ^ 2 - (1 + Real.cos x) / (2 * x * Real.sin x))
      = -(2 * Real.sin x - x - x * Real.cos x - (x ^ 2 / 6 + x ^ 4 / 360) * Real.sin x)
        / (2 * x ^ 2 * Real.sin x) := by
    field_simp
    ring
  have hden : 0 < 2 * x ^ 2 * Real.sin x := by positivity
  rw [e, abs_div, abs_neg, abs_of_pos hden, div_le_iff₀ hden]
  have : x ^ 4 / 10000 * (2 * x ^ 2 * Real.sin x) ≥ x ^ 4 / 10000 * (2 * x ^ 2 * (x / 2)) := by
    apply mul_le_mul_of_nonneg_left _ (by positivity)
    exact mul_le_mul_of_nonneg_left hs (by positivity)
  calc _ ≤ x ^ 7 / 10000 := hN
    _ = x ^ 4 / 10000 * (2 * x ^ 2 * (x / 2)) := by ring
    _ ≤ _ := this

/-- **`SO3.S1invA`** (coefficient of `calc_S1inv` / `dr_expinv`), series branch vs closed form:
`≤ θ⁴/10000`. -/
theorem so3_S1invA_series (th2 : ℝ) (h0 : 0 < th2) (h1 : th2 < Scalar.eps2) :
    |SO3.S1invA th2 - (1 / th2 - (1 + Real.cos (Real.sqrt th2))
        / (2 * Real.sqrt th2 * Real.sin (Real.sqrt th2)))| ≤ th2 ^ 2 / 10000 := by
  obtain ⟨hs0, _, hs2⟩ := sqrt_small h0 h1.le
  have he : th2 < 1 / 100000000 := by rw [← scalar_eps2]; exact h1
  have hθ : Real.sqrt th2 ≤ 1 / 10 := by
    have : Real.sqrt th2 ^ 2 ≤ (1 / 10 : ℝ) ^ 2 := by rw [hs2]; norm_num; linarith
    exact le_of_sq_le_sq this (by norm_num) |> fun h => h
  have := s1inv_real (Real.sqrt th2) hs0 hθ
  have hA : SO3.S1invA th2 = 1 / 12 + th2 / 720 := by simp [SO3.S1invA, h1]
  rw [hA]
  have e4 : Real.sqrt th2 ^ 4 = th2 ^ 2 := by
    have : Real.sqrt th2 ^ 4 = (Real.sqrt th2 ^ 2) ^ 2 := by ring
    rw [this, hs2]
  rw [hs2, e4] at this
  exact this

end C02
