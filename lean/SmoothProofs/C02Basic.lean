/-
  C02Basic.lean — shared vocabulary for the C02 proofs: reading a model matrix as a Mathlib
  matrix, `rfl`-lemmas that expose the ℝ instance of `Scalar`, and the 2×2/3×3 literal forms of
  the `hat` matrices.
-/
import SmoothProofs.Real
import Mathlib.Tactic.Ring
import Mathlib.Tactic.FinCases
import Mathlib.LinearAlgebra.Matrix.Notation
import Mathlib.Data.Matrix.Mul

open Lin Scalar

namespace C02

/-- a model matrix read as a Mathlib matrix -/
@[reducible] def toM {n m : Nat} (M : Mat ℝ n m) : Matrix (Fin n) (Fin m) ℝ := M.get

@[simp] theorem scalar_sin (x : ℝ) : Scalar.sin x = Real.sin x := rfl
@[simp] theorem scalar_cos (x : ℝ) : Scalar.cos x = Real.cos x := rfl
@[simp] theorem scalar_tan (x : ℝ) : Scalar.tan x = Real.tan x := rfl
@[simp] theorem scalar_sqrt (x : ℝ) : Scalar.sqrt x = Real.sqrt x := rfl
@[simp] theorem scalar_exp (x : ℝ) : Scalar.exp x = Real.exp x := rfl
@[simp] theorem scalar_log (x : ℝ) : Scalar.log x = Real.log x := rfl
@[simp] theorem scalar_atan2 (y x : ℝ) : Scalar.atan2 y x = Complex.arg ⟨x, y⟩ := rfl
theorem scalar_eps2 : (Scalar.eps2 : ℝ) = 1 / 100000000 := rfl
theorem eps2_pos : (0 : ℝ) < Scalar.eps2 := by rw [scalar_eps2]; norm_num
@[simp] theorem scalar_pi : (Scalar.pi : ℝ) = Real.pi := rfl

/-- squared norm of a 3-vector, unfolded -/
theorem sqNorm3 (a : Vec ℝ 3) : sqNorm a = a 0 * a 0 + a 1 * a 1 + a 2 * a 2 := by
  simp [sqNorm, dot, vsum]

theorem sqNorm3_nonneg (a : Vec ℝ 3) : 0 ≤ sqNorm a := by
  rw [sqNorm3]
  exact add_nonneg (add_nonneg (mul_self_nonneg _) (mul_self_nonneg _)) (mul_self_nonneg _)

end C02
