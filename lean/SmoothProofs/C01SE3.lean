/-
  C01SE3.lean — C01 for the groups built on a quaternion plus translations:
  SE3, Galilei, SE_K_3 (all K).  Each `matrix g` is `blockUT (SO3.matrix q) P U`; the laws follow
  from C01Block + C01SO3.  The representation constraint is `SO3.Unit` of the quaternion part.
-/
import SmoothProofs.C01SO3
import SmoothProofs.C01Block

open Lin Scalar

set_option linter.unnecessarySeqFocus false

/-! ### SE3 -/
namespace SE3

/-- the representation constraint of SE3: unit quaternion part -/
def Unit (g : Vec ℝ 7) : Prop := SO3.Unit (SE3.so3 g)

/-- translation column -/
def P (g : Vec ℝ 7) : Mat ℝ 3 1 := .of (fun i _ => g ⟨i.val, by omega⟩)

theorem so3_mk7 (t : Vec ℝ 3) (q : Vec ℝ 4) : so3 (mk7 t q) = q := by
  ext i; fin_cases i <;> simp [so3, mk7, mk4, Vec.of]

theorem r3_mk7 (t : Vec ℝ 3) (q : Vec ℝ 4) : r3 (mk7 t q) = t := by
  ext i; fin_cases i <;> simp [r3, mk7, mk3, Vec.of]

theorem P_mk7 (t : Vec ℝ 3) (q : Vec ℝ 4) : P (mk7 t q) = .of (fun i _ => t i) := by
  ext i j; fin_cases i <;> simp [P, mk7, Vec.of]

theorem matrix_eq_block (g : Vec ℝ 7) :
    SE3.matrix g = blockUT (SO3.matrix (so3 g)) (P g) (ident 1) := by
  ext i j
  fin_cases i <;> fin_cases j <;> simp [SE3.matrix, blockUT, P, ident]

theorem so3_composition (a b : Vec ℝ 7) :
    so3 (SE3.composition a b) = SO3.composition (so3 a) (so3 b) := by
  simp only [SE3.composition, so3_mk7]

theorem so3_inverse (g : Vec ℝ 7) : so3 (SE3.inverse g) = SO3.inverse (so3 g) := by
  simp only [SE3.inverse, so3_mk7, memoV_eq]

theorem so3_identity : so3 (SE3.identity : Vec ℝ 7) = SO3.identity := by
  simp only [SE3.identity, so3_mk7]

theorem P_composition (a b : Vec ℝ 7) :
    P (SE3.composition a b) = madd (mmul (SO3.matrix (so3 a)) (P b)) (mmul (P a) (ident 1)) := by
  simp only [SE3.composition, P_mk7, memoM_eq]
  ext i j
  fin_cases i <;> fin_cases j <;>
    simp [P, madd, mmul, mulVec, vadd, vsum, ident, r3, mk3, Vec.of]

theorem P_inverse (g : Vec ℝ 7) :
    P (SE3.inverse g) = mneg (mmul (mmul (SO3.matrix (SO3.inverse (so3 g))) (P g)) (ident 1)) := by
  simp only [SE3.inverse, P_mk7, memoM_eq, memoV_eq, mmul_ident]
  ext i j
  fin_cases i <;> fin_cases j <;>
    simp [P, mneg, mmul, mulVec, vsum, r3, mk3, Vec.of] <;> ring

theorem P_identity : P (SE3.identity : Vec ℝ 7) = mzero 3 1 := by
  simp only [SE3.identity, P_mk7]
  ext i j; simp [vzero, mzero]

theorem matrix_composition (a b : Vec ℝ 7) (ha : Unit a) (hb : Unit b) :
    SE3.matrix (SE3.composition a b) = mmul (SE3.matrix a) (SE3.matrix b) := by
  rw [matrix_eq_block, matrix_eq_block a, matrix_eq_block b, blockUT_mmul, so3_composition,
    SO3.matrix_composition _ _ ha hb, P_composition, mmul_ident (ident 1)]

theorem matrix_identity : SE3.matrix (SE3.identity : Vec ℝ 7) = ident 4 := by
  rw [matrix_eq_block, so3_identity, SO3.matrix_identity, P_identity]
  exact blockUT_ident

theorem matrix_inverse_left (g : Vec ℝ 7) (h : Unit g) :
    mmul (SE3.matrix (SE3.inverse g)) (SE3.matrix g) = ident 4 := by
  rw [matrix_eq_block, matrix_eq_block g, so3_inverse]
  exact blockUT_inv_left _ _ _ _ _ _ (SO3.matrix_inverse_left _ h) (mmul_ident _) (P_inverse g)

theorem matrix_inverse_right (g : Vec ℝ 7) (h : Unit g) :
    mmul (SE3.matrix g) (SE3.matrix (SE3.inverse g)) = ident 4 := by
  rw [matrix_eq_block, matrix_eq_block (SE3.inverse g), so3_inverse]
  exact blockUT_inv_right _ _ _ _ _ _ (SO3.matrix_inverse_right _ h) (mmul_ident _) (P_inverse g)

theorem unit_identity : Unit (SE3.identity : Vec ℝ 7) := by
  unfold Unit; rw [so3_identity]; exact SO3.unit_identity

theorem unit_composition (a b : Vec ℝ 7) (ha : Unit a) (hb : Unit b) : Unit (SE3.composition a b) := by
  unfold Unit; rw [so3_composition]; exact SO3.unit_composition _ _ ha hb

theorem unit_inverse (g : Vec ℝ 7) (h : Unit g) : Unit (SE3.inverse g) := by
  unfold Unit; rw [so3_inverse]; exact SO3.unit_inverse _ h

/-- homogeneous embedding of a point of space -/
def embed (v : Vec ℝ 3) : Vec ℝ 4 := mk4 (v 0) (v 1) (v 2) 1

/-- `g * v` is the point part of `matrix g · (v, 1)` (no unit hypothesis needed) -/
theorem act_eq_matrix (g : Vec ℝ 7) (v : Vec ℝ 3) :
    mulVec (SE3.matrix g) (embed v) = embed (SE3.act g v) := by
  ext i
  fin_cases i <;>
    simp [SE3.matrix, SE3.act, SO3.act_eq_matrix, embed, r3, mulVec, vadd, mk3, mk4, vsum, Vec.of]

theorem isMatrixGroup : IsMatrixGroup (SE3.model : LieModel ℝ) Unit where
  valid_identity := unit_identity
  valid_composition := unit_composition
  valid_inverse := unit_inverse
  matrix_identity := matrix_identity
  matrix_composition := matrix_composition
  matrix_inverse_left := matrix_inverse_left
  matrix_inverse_right := matrix_inverse_right

end SE3

/-! ### Galilei -/
namespace Galilei

/-- the representation constraint of Galilei: unit quaternion part -/
def Unit (g : Vec ℝ 11) : Prop := SO3.Unit (Galilei.gq g)

/-- columns `[v p]` -/
def P (g : Vec ℝ 11) : Mat ℝ 3 2 := .of (fun i j => g ⟨3 * j.val + i.val, by omega⟩)

/-- time block `[[1, τ], [0, 1]]` -/
def U (g : Vec ℝ 11) : Mat ℝ 2 2 := mat2 1 (g 6) 0 1

theorem gq_mkG (v p : Vec ℝ 3) (t : ℝ) (q : Vec ℝ 4) : gq (mkG v p t q) = q := by
  ext i; fin_cases i <;> simp [gq, mkG, mk4, Vec.of]

theorem P_mkG (v p : Vec ℝ 3) (t : ℝ) (q : Vec ℝ 4) :
    P (mkG v p t q) = .of (fun i j => if j = 0 then v i else p i) := by
  ext i j; fin_cases i <;> fin_cases j <;> simp [P, mkG, Vec.of]

theorem U_mkG (v p : Vec ℝ 3) (t : ℝ) (q : Vec ℝ 4) : U (mkG v p t q) = mat2 1 t 0 1 := by
  simp [U, mkG, Vec.of]

theorem matrix_eq_block (g : Vec ℝ 11) :
    Galilei.matrix g = blockUT (SO3.matrix (gq g)) (P g) (U g) := by
  ext i j
  fin_cases i <;> fin_cases j <;> simp [Galilei.matrix, blockUT, P, U, mat2, Mat.of]

theorem gq_composition (a b : Vec ℝ 11) :
    gq (Galilei.composition a b) = SO3.composition (gq a) (gq b) := by
  simp only [Galilei.composition, gq_mkG]

theorem gq_inverse (g : Vec ℝ 11) : gq (Galilei.inverse g) = SO3.inverse (gq g) := by
  simp only [Galilei.inverse, gq_mkG, memoV_eq]

theorem gq_identity : gq (Galilei.identity : Vec ℝ 11) = SO3.identity := by
  simp only [Galilei.identity, gq_mkG]

theorem P_composition (a b : Vec ℝ 11) :
    P (Galilei.composition a b) = madd (mmul (SO3.matrix (gq a)) (P b)) (mmul (P a) (U b)) := by
  simp only [Galilei.composition, P_mkG, memoM_eq]
  ext i j
  fin_cases i <;> fin_cases j <;>
    simp [P, U, madd, mmul, mulVec, vadd, vsum, gv, gp, gt, mat2, mk3, Vec.of, Mat.of] <;> ring

theorem U_composition (a b : Vec ℝ 11) :
    U (Galilei.composition a b) = mmul (U a) (U b) := by
  simp only [Galilei.composition, U_mkG]
  ext i j
  fin_cases i <;> fin_cases j <;> simp [U, mmul, vsum, gt, mat2, Mat.of] <;> ring

theorem U_inverse_left (g : Vec ℝ 11) : mmul (U (Galilei.inverse g)) (U g) = ident 2 := by
  simp only [Galilei.inverse, U_mkG]
  ext i j
  fin_cases i <;> fin_cases j <;> simp [U, mmul, vsum, gt, mat2, ident, Mat.of]

theorem U_inverse_right (g : Vec ℝ 11) : mmul (U g) (U (Galilei.inverse g)) = ident 2 := by
  simp only [Galilei.inverse, U_mkG]
  ext i j
  fin_cases i <;> fin_cases j <;> simp [U, mmul, vsum, gt, mat2, ident, Mat.of]

theorem P_inverse (g : Vec ℝ 11) :
    P (Galilei.inverse g)
      = mneg (mmul (mmul (SO3.matrix (SO3.inverse (gq g))) (P g)) (U (Galilei.inverse g))) := by
  simp only [Galilei.inverse, P_mkG, U_mkG, memoM_eq, memoV_eq]
  ext i j
  fin_cases i <;> fin_cases j <;>
    simp [P, mneg, mmul, mulVec, vsum, gv, gp, gt, mat2, mk3, Vec.of, Mat.of] <;> ring

theorem P_identity : P (Galilei.identity : Vec ℝ 11) = mzero 3 2 := by
  simp only [Galilei.identity, P_mkG]
  ext i j; simp [vzero, mzero]

theorem U_identity : U (Galilei.identity : Vec ℝ 11) = ident 2 := by
  simp only [Galilei.identity, U_mkG]
  ext i j
  fin_cases i <;> fin_cases j <;> simp [mat2, ident, Mat.of]

theorem matrix_composition (a b : Vec ℝ 11) (ha : Unit a) (hb : Unit b) :
    Galilei.matrix (Galilei.composition a b) = mmul (Galilei.matrix a) (Galilei.matrix b) := by
  rw [matrix_eq_block, matrix_eq_block a, matrix_eq_block b, blockUT_mmul, gq_composition,
    SO3.matrix_composition _ _ ha hb, P_composition, U_composition]

theorem matrix_identity : Galilei.matrix (Galilei.identity : Vec ℝ 11) = ident 5 := by
  rw [matrix_eq_block, gq_identity, SO3.matrix_identity, P_identity, U_identity]
  exact blockUT_ident

theorem matrix_inverse_left (g : Vec ℝ 11) (h : Unit g) :
    mmul (Galilei.matrix (Galilei.inverse g)) (Galilei.matrix g) = ident 5 := by
  rw [matrix_eq_block, matrix_eq_block g, gq_inverse]
  exact blockUT_inv_left _ _ _ _ _ _ (SO3.matrix_inverse_left _ h) (U_inverse_left g) (P_inverse g)

theorem matrix_inverse_right (g : Vec ℝ 11) (h : Unit g) :
    mmul (Galilei.matrix g) (Galilei.matrix (Galilei.inverse g)) = ident 5 := by
  rw [matrix_eq_block, matrix_eq_block (Galilei.inverse g), gq_inverse]
  exact blockUT_inv_right _ _ _ _ _ _ (SO3.matrix_inverse_right _ h) (U_inverse_right g) (P_inverse g)

theorem unit_identity : Unit (Galilei.identity : Vec ℝ 11) := by
  unfold Unit; rw [gq_identity]; exact SO3.unit_identity

theorem unit_composition (a b : Vec ℝ 11) (ha : Unit a) (hb : Unit b) :
    Unit (Galilei.composition a b) := by
  unfold Unit; rw [gq_composition]; exact SO3.unit_composition _ _ ha hb

theorem unit_inverse (g : Vec ℝ 11) (h : Unit g) : Unit (Galilei.inverse g) := by
  unfold Unit; rw [gq_inverse]; exact SO3.unit_inverse _ h

/-- homogeneous embedding of an event `(x, y, z, t)` -/
def embed (x : Vec ℝ 4) : Vec ℝ 5 := .of (fun i =>
  match i with | 0 => x 0 | 1 => x 1 | 2 => x 2 | 3 => x 3 | 4 => 1)

/-- `g * (x, t) = (R x + v t + p, t + τ)` is the event part of `matrix g · (x, t, 1)` -/
theorem act_eq_matrix (g : Vec ℝ 11) (x : Vec ℝ 4) :
    mulVec (Galilei.matrix g) (embed x) = embed (Galilei.act g x) := by
  ext i
  fin_cases i <;>
    simp [Galilei.matrix, Galilei.act, SO3.act_eq_matrix, embed, gv, gp, gt, mulVec, mk3, mk4, vsum,
      Vec.of]

theorem isMatrixGroup : IsMatrixGroup (Galilei.model : LieModel ℝ) Unit where
  valid_identity := unit_identity
  valid_composition := unit_composition
  valid_inverse := unit_inverse
  matrix_identity := matrix_identity
  matrix_composition := matrix_composition
  matrix_inverse_left := matrix_inverse_left
  matrix_inverse_right := matrix_inverse_right

end Galilei

/-! ### SE_K_3 (all K) -/
namespace SEK3

/-- the representation constraint of SE_K_3: unit quaternion part -/
def Unit (k : Nat) (g : Vec ℝ (4 + 3 * k)) : Prop := SO3.Unit (SEK3.gq k g)

/-- columns `[p₁ … p_k]` -/
def P (k : Nat) (g : Vec ℝ (4 + 3 * k)) : Mat ℝ 3 k := .of (fun i j => (gp k g j) i)

theorem gq_mkG (k : Nat) (p : Fin k → Vec ℝ 3) (q : Vec ℝ 4) : gq k (mkG k p q) = q := by
  ext i
  simp [gq, mkG]

theorem gp_mkG (k : Nat) (p : Fin k → Vec ℝ 3) (q : Vec ℝ 4) (j : Fin k) : gp k (mkG k p q) j = p j := by
  ext c
  have h1 : 3 * (j : Nat) + (c : Nat) < 3 * k := by have := j.isLt; have := c.isLt; omega
  have h2 : (3 * (j : Nat) + (c : Nat)) / 3 = j := by have := c.isLt; omega
  simp [gp, mkG, h1, h2]
  congr 1
  exact Fin.ext (Nat.mod_eq_of_lt c.isLt)

theorem P_mkG (k : Nat) (p : Fin k → Vec ℝ 3) (q : Vec ℝ 4) :
    P k (mkG k p q) = .of (fun i j => p j i) := by
  ext i j
  simp [P, gp_mkG]

theorem matrix_eq_block (k : Nat) (g : Vec ℝ (4 + 3 * k)) :
    SEK3.matrix k g = blockUT (SO3.matrix (gq k g)) (P k g) (ident k) := by
  ext i j
  simp only [SEK3.matrix, blockUT, P, gp, ident, Mat.of_get, Vec.of_get, Scalar.nat_real]
  by_cases hi : i.val < 3
  · by_cases hj : j.val < 3
    · simp [hi, hj]
    · simp [hi, hj]
  · by_cases hj : j.val < 3
    · have : (i : Nat) ≠ j := by omega
      simp [hi, hj, this]
    · have : ((i : Nat) = j) ↔ ((i : Nat) - 3 = (j : Nat) - 3) := by omega
      simp [hi, hj, Fin.ext_iff, this]

theorem gq_composition (k : Nat) (a b : Vec ℝ (4 + 3 * k)) :
    gq k (SEK3.composition k a b) = SO3.composition (gq k a) (gq k b) := by
  simp only [SEK3.composition, gq_mkG]

theorem gq_inverse (k : Nat) (g : Vec ℝ (4 + 3 * k)) :
    gq k (SEK3.inverse k g) = SO3.inverse (gq k g) := by
  simp only [SEK3.inverse, gq_mkG, memoV_eq]

theorem gq_identity (k : Nat) : gq k (SEK3.identity k : Vec ℝ (4 + 3 * k)) = SO3.identity := by
  simp only [SEK3.identity, gq_mkG]

theorem P_composition (k : Nat) (a b : Vec ℝ (4 + 3 * k)) :
    P k (SEK3.composition k a b)
      = madd (mmul (SO3.matrix (gq k a)) (P k b)) (mmul (P k a) (ident k)) := by
  simp only [SEK3.composition, P_mkG, memoM_eq, mmul_ident]
  ext i j
  simp [P, madd, mmul, mulVec, vadd]

theorem P_inverse (k : Nat) (g : Vec ℝ (4 + 3 * k)) :
    P k (SEK3.inverse k g)
      = mneg (mmul (mmul (SO3.matrix (SO3.inverse (gq k g))) (P k g)) (ident k)) := by
  simp only [SEK3.inverse, P_mkG, memoM_eq, memoV_eq, mmul_ident]
  ext i j
  simp only [P, mneg, mmul, mulVec, Mat.of_get, Vec.of_get, vsum_eq_sum]
  rw [← Finset.sum_neg_distrib]
  apply Finset.sum_congr rfl
  intro l _
  ring

theorem P_identity (k : Nat) : P k (SEK3.identity k : Vec ℝ (4 + 3 * k)) = mzero 3 k := by
  simp only [SEK3.identity, P_mkG]
  ext i j; simp [vzero, mzero]

theorem matrix_composition (k : Nat) (a b : Vec ℝ (4 + 3 * k)) (ha : Unit k a) (hb : Unit k b) :
    SEK3.matrix k (SEK3.composition k a b) = mmul (SEK3.matrix k a) (SEK3.matrix k b) := by
  rw [matrix_eq_block, matrix_eq_block k a, matrix_eq_block k b, blockUT_mmul, gq_composition,
    SO3.matrix_composition _ _ ha hb, P_composition, mmul_ident (ident k)]

theorem matrix_identity (k : Nat) :
    SEK3.matrix k (SEK3.identity k : Vec ℝ (4 + 3 * k)) = ident (3 + k) := by
  rw [matrix_eq_block, gq_identity, SO3.matrix_identity, P_identity]
  exact blockUT_ident

theorem matrix_inverse_left (k : Nat) (g : Vec ℝ (4 + 3 * k)) (h : Unit k g) :
    mmul (SEK3.matrix k (SEK3.inverse k g)) (SEK3.matrix k g) = ident (3 + k) := by
  rw [matrix_eq_block, matrix_eq_block k g, gq_inverse]
  exact blockUT_inv_left _ _ _ _ _ _ (SO3.matrix_inverse_left _ h) (mmul_ident _) (P_inverse k g)

theorem matrix_inverse_right (k : Nat) (g : Vec ℝ (4 + 3 * k)) (h : Unit k g) :
    mmul (SEK3.matrix k g) (SEK3.matrix k (SEK3.inverse k g)) = ident (3 + k) := by
  rw [matrix_eq_block, matrix_eq_block k (SEK3.inverse k g), gq_inverse]
  exact blockUT_inv_right _ _ _ _ _ _ (SO3.matrix_inverse_right _ h) (mmul_ident _) (P_inverse k g)

theorem unit_identity (k : Nat) : Unit k (SEK3.identity k : Vec ℝ (4 + 3 * k)) := by
  unfold Unit; rw [gq_identity]; exact SO3.unit_identity

theorem unit_composition (k : Nat) (a b : Vec ℝ (4 + 3 * k)) (ha : Unit k a) (hb : Unit k b) :
    Unit k (SEK3.composition k a b) := by
  unfold Unit; rw [gq_composition]; exact SO3.unit_composition _ _ ha hb

theorem unit_inverse (k : Nat) (g : Vec ℝ (4 + 3 * k)) (h : Unit k g) : Unit k (SEK3.inverse k g) := by
  unfold Unit; rw [gq_inverse]; exact SO3.unit_inverse _ h

theorem isMatrixGroup (k : Nat) : IsMatrixGroup (SEK3.model k : LieModel ℝ) (Unit k) where
  valid_identity := unit_identity k
  valid_composition := unit_composition k
  valid_inverse := unit_inverse k
  matrix_identity := matrix_identity k
  matrix_composition := matrix_composition k
  matrix_inverse_left := matrix_inverse_left k
  matrix_inverse_right := matrix_inverse_right k

end SEK3
