/-
  C02TaylorLog.lean — series branch of `SO3.log` (`SO3.logPhi`): distance to the closed form
  `2·atan2(n, w)/n` at most `2 n⁴ / (5 w⁵)` for a unit quaternion with `w > 0`
  (`n = ‖xyz‖`), from `0 ≤ arctan t − (t − t³/3) ≤ t⁵/5` (`t ≥ 0`).
-/
import SmoothProofs.C02Log
import Mathlib.Analysis.SpecialFunctions.Trigonometric.ArctanDeriv
import Mathlib.Analysis.Calculus.Deriv.MeanValue
import Mathlib.Analysis.Calculus.Deriv.Pow
import Mathlib.Tactic.Positivity

open Lin Scalar

namespace C02

theorem arctan_lower (t : ℝ) (ht : 0 ≤ t) : t - t^3/3 ≤ Real.arctan t := by
  let g : ℝ → ℝ := fun u => Real.arctan u - u + u^3/3
  have hd : ∀ u, HasDerivAt g (1 / (1 + u^2) - 1 + 3 * u^2 / 3) u := by
    intro u
    have h3 : HasDerivAt (fun u : ℝ => u^3) (3 * u^2) u := by
      simpa using hasDerivAt_pow 3 u
    exact ((Real.hasDerivAt_arctan u).sub (hasDerivAt_id u)).add (h3.div_const 3)
  have hmono : Monotone g := by
    apply monotone_of_deriv_nonneg (fun u => (hd u).differentiableAt)
    intro u
    rw [(hd u).deriv]
    have : 1 / (1 + u^2) - 1 + 3 * u^2 / 3 = u^4 / (1 + u^2) := by
      field_simp; ring
    rw [this]; positivity
  have := hmono ht
  simp only [g] at this
  simp at this
  linarith

theorem arctan_upper (t : ℝ) (ht : 0 ≤ t) : Real.arctan t ≤ t - t^3/3 + t^5/5 := by
  let g : ℝ → ℝ := fun u => u - u^3/3 + u^5/5 - Real.arctan u
  have hd : ∀ u, HasDerivAt g (1 - 3 * u^2 / 3 + 5 * u^4 / 5 - 1 / (1 + u^2)) u := by
    intro u
    have h3 : HasDerivAt (fun u : ℝ => u^3) (3 * u^2) u := by
      simpa using hasDerivAt_pow 3 u
    have h5 : HasDerivAt (fun u : ℝ => u^5) (5 * u^4) u := by
      simpa using hasDerivAt_pow 5 u
    exact (((hasDerivAt_id u).sub (h3.div_const 3)).add (h5.div_const 5)).sub
      (Real.hasDerivAt_arctan u)
  have hmono : Monotone g := by
    apply monotone_of_deriv_nonneg (fun u => (hd u).differentiableAt)
    intro u
    rw [(hd u).deriv]
    have : 1 - 3 * u^2 / 3 + 5 * u^4 / 5 - 1 / (1 + u^2) = u^6 / (1 + u^2) := by
      field_simp; ring
    rw [this]; positivity
  have := hmono ht
  simp only [g] at this
  simp at this
  linarith


/-- SO3 `log` coefficient `phi`, series branch vs closed form, on unit quaternions with `w > 0`. -/
theorem so3_logPhi_series (n2 w : ℝ) (h0 : 0 < n2) (h1 : n2 < Scalar.eps2) (hw : 0 < w)
    (hU : n2 + w * w = 1) :
    |SO3.logPhi n2 w - 2 * Complex.arg ⟨w, Real.sqrt n2⟩ / Real.sqrt n2|
      ≤ n2 ^ 2 * (2 / (5 * w ^ 5)) := by
  have hn0 : 0 < Real.sqrt n2 := Real.sqrt_pos.2 h0
  have hnn : Real.sqrt n2 * Real.sqrt n2 = n2 := Real.mul_self_sqrt h0.le
  set n := Real.sqrt n2 with hn
  have hunit : w * w + n * n = 1 := by rw [hnn]; linarith
  have hsin := sin_arg_mk_unit _ _ hunit
  have hcos := cos_arg_mk_unit _ _ hunit
  set α := Complex.arg ⟨w, n⟩ with hα
  have hα0 : 0 ≤ α := Complex.arg_nonneg_iff.2 hn0.le
  have hα2 : α < Real.pi / 2 := by
    have := (Complex.abs_arg_lt_pi_div_two_iff (z := ⟨w, n⟩)).2 (Or.inl hw)
    exact (abs_lt.1 this).2
  have htan : Real.arctan (n / w) = α := by
    have : Real.tan α = n / w := by rw [Real.tan_eq_sin_div_cos, hsin, hcos]
    rw [← this, Real.arctan_tan (by linarith [Real.pi_pos]) hα2]
  have ht0 : 0 ≤ n / w := (div_pos hn0 hw).le
  have hlo := arctan_lower (n / w) ht0
  have hhi := arctan_upper (n / w) ht0
  rw [htan] at hlo hhi
  have hphi : SO3.logPhi n2 w = 2 / w - 2 * n2 / (3 * w * w * w) := by
    simp [SO3.logPhi, h1]
  rw [hphi, ← hnn]
  have key : 2 / w - 2 * (n * n) / (3 * w * w * w) - 2 * α / n
      = -(2 / n) * (α - (n / w - (n / w)^3 / 3)) := by
    field_simp; ring
  rw [key, abs_mul, abs_neg, abs_of_pos (by positivity : 0 < 2 / n),
    abs_of_nonneg (by linarith)]
  calc 2 / n * (α - (n / w - (n / w)^3 / 3)) ≤ 2 / n * ((n / w)^5 / 5) := by
        apply mul_le_mul_of_nonneg_left _ (by positivity)
        linarith
    _ = (n * n) ^ 2 * (2 / (5 * w ^ 5)) := by field_simp

end C02
