/-
  C05Calc.lean — scalar calculus for C05: derivatives of the closed-form coefficient functions
  `α(n) = (cos√n − 1)/n`, `β(n) = (√n − sin√n)/(n√n)`, `A(n) = 1/n − (1+cos√n)/(2√n sin√n)` w.r.t. `n = θ²`,
  expressed through the `dA_over_th`, `dB_over_th` formulas the code uses.
-/
import SmoothProofs.C04SO3
import SmoothProofs.C04SE2
import Mathlib.Analysis.Calculus.Deriv.Pow
import Mathlib.Analysis.SpecialFunctions.Trigonometric.Deriv
import Mathlib.Analysis.SpecialFunctions.Sqrt
import Mathlib.Analysis.Calculus.Deriv.Inv

open Lin Scalar

namespace C05Calc
open C04SO3

/-- the code's `dA_over_th` (closed branch of SO3 `d2r_exp`), as a function of `n = θ²` -/
noncomputable def dAc (n : ℝ) : ℝ :=
  Real.sin (Real.sqrt n) / (n * Real.sqrt n) + 2 * Real.cos (Real.sqrt n) / (n * n) - 2 / (n * n)

/-- the code's `dB_over_th` -/
noncomputable def dBc (n : ℝ) : ℝ :=
  -Real.cos (Real.sqrt n) / (n * n) - 2 / (n * n) + 3 * Real.sin (Real.sqrt n) / (n * Real.sqrt n * n)

theorem hasDerivAt_cos_sqrt {n : ℝ} (hn : 0 < n) :
    HasDerivAt (fun x => Real.cos (Real.sqrt x)) (-Real.sin (Real.sqrt n) * (1 / (2 * Real.sqrt n))) n :=
  (Real.hasDerivAt_cos (Real.sqrt n)).comp n (Real.hasDerivAt_sqrt hn.ne')

theorem hasDerivAt_sin_sqrt {n : ℝ} (hn : 0 < n) :
    HasDerivAt (fun x => Real.sin (Real.sqrt x)) (Real.cos (Real.sqrt n) * (1 / (2 * Real.sqrt n))) n :=
  (Real.hasDerivAt_sin (Real.sqrt n)).comp n (Real.hasDerivAt_sqrt hn.ne')

/-- `dα/dn = −dA_over_th/2` (`A = −α`, `d/dn = (1/2θ) d/dθ`) -/
theorem hasDerivAt_αr {n : ℝ} (hn : 0 < n) : HasDerivAt αr (-(dAc n) / 2) n := by
  have hθ : Real.sqrt n ≠ 0 := (Real.sqrt_pos.2 hn).ne'
  have hsq : Real.sqrt n ^ 2 = n := Real.sq_sqrt hn.le
  have h := ((hasDerivAt_cos_sqrt hn).sub_const 1).div (hasDerivAt_id n) hn.ne'
  refine h.congr_deriv ?_
  simp only [dAc, id]
  rw [← hsq]
  simp only [Real.sqrt_sq (Real.sqrt_nonneg n)]
  field_simp
  ring

theorem hasDerivAt_βr {n : ℝ} (hn : 0 < n) : HasDerivAt βr (dBc n / 2) n := by
  have hθ : Real.sqrt n ≠ 0 := (Real.sqrt_pos.2 hn).ne'
  have hsq : Real.sqrt n ^ 2 = n := Real.sq_sqrt hn.le
  have hden : n * Real.sqrt n ≠ 0 := mul_ne_zero hn.ne' hθ
  have h := ((((hasDerivAt_sin_sqrt hn).sub (Real.hasDerivAt_sqrt hn.ne')).div
    ((hasDerivAt_id n).mul (Real.hasDerivAt_sqrt hn.ne')) hden)).neg
  refine h.congr_deriv ?_
  simp only [dBc, id, Pi.mul_apply, Pi.sub_apply]
  rw [← hsq]
  simp only [Real.sqrt_sq (Real.sqrt_nonneg n)]
  field_simp
  ring

/-- the code's `dA_over_th` of SO3 `d2r_expinv` (closed branch), as a function of `n = θ²` -/
noncomputable def dAic (n : ℝ) : ℝ :=
  1 / (2 * n)
    + Real.cos (Real.sqrt n) * Real.cos (Real.sqrt n) / (2 * n * Real.sin (Real.sqrt n) * Real.sin (Real.sqrt n))
    + Real.cos (Real.sqrt n) / (2 * n * Real.sin (Real.sqrt n) * Real.sin (Real.sqrt n))
    + Real.cos (Real.sqrt n) / (2 * (n * Real.sqrt n) * Real.sin (Real.sqrt n))
    + 1 / (2 * (n * Real.sqrt n) * Real.sin (Real.sqrt n)) - 2 / (n * n)

theorem hasDerivAt_Ainv {n : ℝ} (hn : 0 < n) (hs : Real.sin (Real.sqrt n) ≠ 0) :
    HasDerivAt Ainv (dAic n / 2) n := by
  have hθ : Real.sqrt n ≠ 0 := (Real.sqrt_pos.2 hn).ne'
  have hsq : Real.sqrt n ^ 2 = n := Real.sq_sqrt hn.le
  have hden : 2 * Real.sqrt n * Real.sin (Real.sqrt n) ≠ 0 := mul_ne_zero (mul_ne_zero two_ne_zero hθ) hs
  have h1 := (hasDerivAt_const n (1:ℝ)).div (hasDerivAt_id n) hn.ne'
  have h2 := ((hasDerivAt_cos_sqrt hn).const_add 1).div
    (((Real.hasDerivAt_sqrt hn.ne').const_mul 2).mul (hasDerivAt_sin_sqrt hn)) hden
  have h := h1.sub h2
  refine h.congr_deriv ?_
  simp only [dAic, id, Pi.mul_apply]
  rw [← hsq]
  simp only [Real.sqrt_sq (Real.sqrt_nonneg n)]
  field_simp
  ring

/-! ### SE2: the coefficients are functions of `θ = a_2` itself -/

open C04SE2 in
/-- the code's `dA_dwz` of SE2 `d2r_exp` (closed branch) -/
noncomputable def dAe (θ : ℝ) : ℝ :=
  Real.sin θ / (θ * θ) + 2 * Real.cos θ / (θ * θ * θ) - 2 / (θ * θ * θ)

/-- the code's `dB_dwz` -/
noncomputable def dBe (θ : ℝ) : ℝ :=
  -Real.cos θ / (θ * θ * θ) - 2 / (θ * θ * θ) + 3 * Real.sin θ / (θ * θ * (θ * θ))

/-- the code's `dA_dwz` of SE2 `d2r_expinv` -/
noncomputable def dAie (θ : ℝ) : ℝ :=
  1 / (2 * θ) + Real.cos θ * Real.cos θ / (2 * θ * Real.sin θ * Real.sin θ)
    + Real.cos θ / (2 * θ * Real.sin θ * Real.sin θ) + Real.cos θ / (2 * (θ * θ) * Real.sin θ)
    + 1 / (2 * (θ * θ) * Real.sin θ) - 2 / (θ * θ * θ)

theorem hasDerivAt_αe {θ : ℝ} (hθ : θ ≠ 0) : HasDerivAt C04SE2.αe (-(dAe θ)) θ := by
  have h := ((Real.hasDerivAt_cos θ).sub_const 1).div (hasDerivAt_pow 2 θ) (pow_ne_zero 2 hθ)
  refine h.congr_deriv ?_
  simp only [dAe]
  field_simp
  ring

theorem hasDerivAt_βe {θ : ℝ} (hθ : θ ≠ 0) : HasDerivAt C04SE2.βe (dBe θ) θ := by
  have hden : θ ^ 2 * θ ≠ 0 := mul_ne_zero (pow_ne_zero 2 hθ) hθ
  have h := ((((Real.hasDerivAt_sin θ).sub (hasDerivAt_id θ)).div
    ((hasDerivAt_pow 2 θ).mul (hasDerivAt_id θ)) hden)).neg
  refine h.congr_deriv ?_
  simp only [dBe, id, Pi.mul_apply, Pi.sub_apply]
  field_simp
  ring

theorem hasDerivAt_Ae {θ : ℝ} (hθ : θ ≠ 0) (hs : Real.sin θ ≠ 0) :
    HasDerivAt C04SE2.Ae (dAie θ) θ := by
  have hden : 2 * θ * Real.sin θ ≠ 0 := mul_ne_zero (mul_ne_zero two_ne_zero hθ) hs
  have h1 := (hasDerivAt_const θ (1:ℝ)).div (hasDerivAt_pow 2 θ) (pow_ne_zero 2 hθ)
  have h2 := ((Real.hasDerivAt_cos θ).const_add 1).div
    (((hasDerivAt_id θ).const_mul 2).mul (Real.hasDerivAt_sin θ)) hden
  have h := h1.sub h2
  refine h.congr_deriv ?_
  simp only [dAie, id, Pi.mul_apply]
  field_simp
  ring

end C05Calc
