/-
  C14Bern.lean — the integer tables `bernI`, `u0tBI`, `u1tBI` of `SmoothModel/Fit.lean` mean what their
  names say, for EVERY degree `K` and derivative order `d`:
  `bernI K i j` is the coefficient of `uⁱ` in Mathlib's `bernsteinPolynomial ℝ K j`, and the rows
  `u0tBI K d ·`, `u1tBI K d ·` applied to the Bernstein coefficients of a segment give the `d`-th
  derivative of the segment polynomial at `u = 0`, `u = 1`.  `segPoly_deriv_eval` is the chain-rule
  factor `dt^{-d}` for `p(t) = q(t/dt)`.
-/
import Mathlib.RingTheory.Polynomial.Bernstein
import Mathlib.Algebra.Polynomial.Derivative
import Mathlib.Algebra.Polynomial.Eval.Defs
import Mathlib.Algebra.Polynomial.Eval.Degree
import Mathlib.Algebra.Polynomial.Coeff
import SmoothProofs.Real

namespace Fit
open Polynomial

-- ---------------------------------------------------------------- the plain recursions are Mathlib's

theorem choose_eq (n k : ℕ) : Fit.choose n k = Nat.choose n k := by
  induction n generalizing k with
  | zero => cases k <;> simp [Fit.choose]
  | succ n ih =>
    cases k with
    | zero => simp [Fit.choose]
    | succ k => simp [Fit.choose, ih, Nat.choose_succ_succ]

theorem fact_eq (n : ℕ) : Fit.fact n = n.factorial := by
  induction n with
  | zero => simp [Fit.fact]
  | succ n ih => simp [Fit.fact, ih, Nat.factorial_succ]

theorem descFact_eq (n k : ℕ) : Fit.descFact n k = n.descFactorial k := by
  induction k with
  | zero => simp [Fit.descFact]
  | succ k ih => simp [Fit.descFact, ih, Nat.descFactorial_succ]

-- ---------------------------------------------------------------- coefficients of Bernstein polynomials

theorem coeff_one_sub_X_pow (m k : ℕ) :
    ((1 - X : ℝ[X]) ^ m).coeff k = (-1) ^ k * (m.choose k : ℝ) := by
  have h : (1 - X : ℝ[X]) ^ m = ((1 + X) ^ m).comp (C (-1) * X) := by
    simp [sub_eq_add_neg]
  rw [h, comp_C_mul_X_coeff, coeff_one_add_X_pow, mul_comm]

/-- `bernI K i j` is the coefficient of `uⁱ` in `b_{j,K}` -/
theorem bernstein_coeff (K j i : ℕ) :
    (bernsteinPolynomial ℝ K j).coeff i = ((bernI K i j : ℤ) : ℝ) := by
  unfold bernsteinPolynomial bernI
  rw [mul_assoc, ← C_eq_natCast, coeff_C_mul, coeff_X_pow_mul', coeff_one_sub_X_pow]
  by_cases h : j ≤ i
  · by_cases h2 : i ≤ K
    · simp [h, h2, choose_eq]
      ring
    · by_cases h4 : j ≤ K
      · have h3 : K - j < i - j := by omega
        simp [h, h2, Nat.choose_eq_zero_of_lt h3]
      · have h3 : K < j := by omega
        simp [h, h2, Nat.choose_eq_zero_of_lt h3]
  · simp [h]

theorem bernI_eq_zero_of_lt {K i : ℕ} (h : K < i) (j : ℕ) : bernI K i j = 0 := by
  unfold bernI
  rw [if_neg]
  omega

/-- q(u) = Σ_{j ≤ K} ξ j · b_{j,K}(u): the polynomial of one segment in the normalised parameter -/
noncomputable def bezier (K : ℕ) (ξ : ℕ → ℝ) : ℝ[X] :=
  ∑ j ∈ Finset.range (K + 1), C (ξ j) * bernsteinPolynomial ℝ K j

/-- monomial coefficient `i` of `bezier K ξ` -/
noncomputable def monoCoef (K : ℕ) (ξ : ℕ → ℝ) (i : ℕ) : ℝ :=
  ∑ j ∈ Finset.range (K + 1), ((bernI K i j : ℤ) : ℝ) * ξ j

theorem monoCoef_eq_zero_of_lt {K i : ℕ} (h : K < i) (ξ : ℕ → ℝ) : monoCoef K ξ i = 0 := by
  unfold monoCoef
  apply Finset.sum_eq_zero
  intro j _
  rw [bernI_eq_zero_of_lt h]
  simp

theorem bezier_coeff (K : ℕ) (ξ : ℕ → ℝ) (i : ℕ) : (bezier K ξ).coeff i = monoCoef K ξ i := by
  unfold bezier monoCoef
  rw [finsetSum_coeff]
  apply Finset.sum_congr rfl
  intro j _
  rw [coeff_C_mul, bernstein_coeff, mul_comm]

theorem bezier_eq_monomials (K : ℕ) (ξ : ℕ → ℝ) :
    bezier K ξ = ∑ i ∈ Finset.range (K + 1), C (monoCoef K ξ i) * X ^ i := by
  ext n
  rw [bezier_coeff, finsetSum_coeff]
  simp only [coeff_C_mul_X_pow]
  rw [Finset.sum_ite_eq]
  by_cases h : n ∈ Finset.range (K + 1)
  · rw [if_pos h]
  · rw [if_neg h]
    apply monoCoef_eq_zero_of_lt
    simpa using h

theorem bezier_deriv_eval (K d : ℕ) (ξ : ℕ → ℝ) (u : ℝ) :
    (derivative^[d] (bezier K ξ)).eval u =
      ∑ i ∈ Finset.range (K + 1), monoCoef K ξ i * (i.descFactorial d : ℝ) * u ^ (i - d) := by
  rw [bezier_eq_monomials, iterate_derivative_sum, eval_finsetSum]
  apply Finset.sum_congr rfl
  intro i _
  rw [iterate_derivative_C_mul, iterate_derivative_X_pow_eq_C_mul]
  simp [mul_assoc]

-- ---------------------------------------------------------------- the rows of the code

/-- what the rows `U0tB(d,·)` / `U1tB(d,·)` of the code compute on the coefficients of a segment -/
noncomputable def D0 (K d : ℕ) (ξ : ℕ → ℝ) : ℝ :=
  ∑ j ∈ Finset.range (K + 1), ((u0tBI K d j : ℤ) : ℝ) * ξ j
noncomputable def D1 (K d : ℕ) (ξ : ℕ → ℝ) : ℝ :=
  ∑ j ∈ Finset.range (K + 1), ((u1tBI K d j : ℤ) : ℝ) * ξ j

theorem foldl_add_range (f : ℕ → ℤ) (n : ℕ) :
    (List.range n).foldl (fun acc i => acc + f i) 0 = ∑ i ∈ Finset.range n, f i := by
  induction n with
  | zero => simp
  | succ n ih => rw [List.range_succ, List.foldl_append, ih, Finset.sum_range_succ]; simp

theorem u1tBI_eq_sum (K d j : ℕ) :
    u1tBI K d j = ∑ i ∈ Finset.range (K + 1), (i.descFactorial d : ℤ) * bernI K i j := by
  unfold u1tBI
  rw [foldl_add_range]
  apply Finset.sum_congr rfl
  intro i _
  rw [descFact_eq]

theorem D0_eq (K d : ℕ) (ξ : ℕ → ℝ) : D0 K d ξ = (d.factorial : ℝ) * monoCoef K ξ d := by
  unfold D0 monoCoef u0tBI
  rw [Finset.mul_sum]
  apply Finset.sum_congr rfl
  intro j _
  rw [fact_eq]
  push_cast
  ring

theorem D1_eq (K d : ℕ) (ξ : ℕ → ℝ) :
    D1 K d ξ = ∑ i ∈ Finset.range (K + 1), monoCoef K ξ i * (i.descFactorial d : ℝ) := by
  unfold D1 monoCoef
  simp only [u1tBI_eq_sum, Int.cast_sum, Finset.sum_mul]
  rw [Finset.sum_comm]
  apply Finset.sum_congr rfl
  intro i _
  apply Finset.sum_congr rfl
  intro j _
  push_cast
  ring

/-- the tables mean derivatives: for EVERY degree K and order d -/
theorem bezier_deriv_eval_zero (K d : ℕ) (ξ : ℕ → ℝ) :
    (derivative^[d] (bezier K ξ)).eval 0 = D0 K d ξ := by
  rw [bezier_deriv_eval, D0_eq, Finset.sum_eq_single d]
  · simp [Nat.descFactorial_self, mul_comm]
  · intro i _ hid
    rcases Nat.lt_or_gt_of_ne hid with h | h
    · rw [(Nat.descFactorial_eq_zero_iff_lt).2 h]
      simp
    · rw [zero_pow (by omega)]
      simp
  · intro hd
    rw [monoCoef_eq_zero_of_lt (by simpa using hd)]
    simp

theorem bezier_deriv_eval_one (K d : ℕ) (ξ : ℕ → ℝ) :
    (derivative^[d] (bezier K ξ)).eval 1 = D1 K d ξ := by
  rw [bezier_deriv_eval, D1_eq]
  simp

-- ---------------------------------------------------------------- time scaling

/-- p(t) = q(t/dt) -/
noncomputable def segPoly (K : ℕ) (ξ : ℕ → ℝ) (dt : ℝ) : ℝ[X] := (bezier K ξ).comp (C (1 / dt) * X)

theorem iterate_derivative_comp_C_mul_X (p : ℝ[X]) (a : ℝ) (d : ℕ) :
    derivative^[d] (p.comp (C a * X)) = C (a ^ d) * (derivative^[d] p).comp (C a * X) := by
  induction d with
  | zero => simp
  | succ d ih =>
    rw [Function.iterate_succ_apply', ih, Function.iterate_succ_apply', derivative_C_mul,
      derivative_comp, pow_succ, C_mul]
    simp
    ring

/-- chain rule factor dt^{-d} -/
theorem segPoly_deriv_eval (K d : ℕ) (ξ : ℕ → ℝ) (dt u : ℝ) (hdt : dt ≠ 0) :
    (derivative^[d] (segPoly K ξ dt)).eval (u * dt) =
      (1 / dt) ^ d * (derivative^[d] (bezier K ξ)).eval u := by
  unfold segPoly
  rw [iterate_derivative_comp_C_mul_X, eval_mul, eval_C, eval_comp, eval_mul, eval_C, eval_X]
  have h : 1 / dt * (u * dt) = u := by field_simp
  rw [h]

end Fit
