/-
  C20Mono.lean — `monomial_derivative(s)` and `monomial_integral` of the Poly model at `α := ℝ` equal
  their definitions for EVERY degree K and order p / P (loop invariants of the C++ loops).
-/
import Mathlib.Analysis.Calculus.IteratedDeriv.Lemmas
import Mathlib.Analysis.SpecialFunctions.Integrals.Basic
import Mathlib.Data.Nat.Factorial.BigOperators
import Mathlib.Tactic.Ring
import Mathlib.Tactic.Linarith
import SmoothProofs.Real

set_option linter.unusedSimpArgs false

namespace C20M
open Poly Finset Scalar

theorem factorial_eq (n : Nat) : Poly.factorial n = n.factorial := by
  induction n with
  | zero => rfl
  | succ n ih => rw [Poly.factorial, ih, Nat.factorial_succ]

/-- the integer division `P2 *= i; P2 /= i - p` of the C++ is exact -/
theorem descFactorial_step (i p : Nat) (h : p < i) :
    ((i - 1).descFactorial p * i) / (i - p) = i.descFactorial p := by
  obtain ⟨n, rfl⟩ : ∃ n, i = n + 1 := ⟨i - 1, by omega⟩
  have h1 := Nat.succ_descFactorial n p
  rw [Nat.add_sub_cancel, Nat.mul_comm, ← h1]
  exact Nat.mul_div_cancel_left _ (by omega)

theorem rget_cons_zero (x : ℝ) (l : List ℝ) : rget (x :: l) 0 = x := by simp [rget]
theorem rget_cons_succ (x : ℝ) (l : List ℝ) (m : Nat) : rget (x :: l) (m+1) = rget l m := by simp [rget]

/-- loop invariant of `monomial_derivative`: `P1 = u^(i-1-p)`, `P2 = (i-1)!/(i-1-p)!` -/
theorem monoDerivLoop_get (u : ℝ) (p : Nat) : ∀ (fuel i : Nat) (P1 : ℝ) (P2 : Nat), p < i →
    P1 = u ^ (i - 1 - p) → P2 = (i - 1).descFactorial p →
    ∀ m, rget (monoDerivLoop u p fuel i P1 P2) m
      = if m < fuel then ((i + m).descFactorial p : ℝ) * u ^ (i + m - p) else 0 := by
  intro fuel
  induction fuel with
  | zero => intro i P1 P2 _ _ _ m; simp [monoDerivLoop, rget]
  | succ fuel ih =>
    intro i P1 P2 hi h1 h2 m
    rw [monoDerivLoop]
    have hP2 : (P2 * i) / (i - p) = i.descFactorial p := by rw [h2]; exact descFactorial_step i p hi
    have hP1 : P1 * u = u ^ (i - p) := by
      rw [h1, ← pow_succ]; congr 1; omega
    rcases m with _ | m
    · rw [rget_cons_zero, if_pos (Nat.succ_pos _), hP1, hP2, Scalar.nat_real, Nat.add_zero]; ring
    · rw [rget_cons_succ, ih (i+1) (P1 * u) ((P2 * i) / (i - p)) (by omega)
        (by rw [hP1]; congr 1) (by rw [hP2]; congr 1)]
      by_cases hm : m < fuel
      · rw [if_pos hm, if_pos (by omega)]
        rw [show i + 1 + m = i + (m + 1) by ring]
      · rw [if_neg hm, if_neg (by omega)]

theorem rget_append_left (a b : List ℝ) (k : Nat) (h : k < a.length) : rget (a ++ b) k = rget a k := by
  simp [rget, List.getD_eq_getElem?_getD, List.getElem?_append_left h]

theorem rget_append_right (a b : List ℝ) (k : Nat) (h : a.length ≤ k) : rget (a ++ b) k = rget b (k - a.length) := by
  simp [rget, List.getD_eq_getElem?_getD, List.getElem?_append_right h]

theorem rget_replicate_zero (n k : Nat) : rget (List.replicate n (nat 0 : ℝ)) k = 0 := by
  simp only [rget, List.getD_eq_getElem?_getD, List.getElem?_replicate, Scalar.nat_real, Nat.cast_zero]
  split <;> rfl

/-- **monomial_derivative_spec**: entry k of `monomial_derivative<K>(u, p)` is `k!/(k-p)! · u^(k-p)`
    (`= 0` for k < p), for every K, p and k ≤ K -/
theorem monoDeriv_get (K : Nat) (u : ℝ) (p k : Nat) (hk : k ≤ K) :
    rget (monoDeriv K u p) k = (k.descFactorial p : ℝ) * u ^ (k - p) := by
  unfold monoDeriv
  by_cases hKp : K < p
  · rw [if_pos hKp, rget_replicate_zero]
    have : k.descFactorial p = 0 := Nat.descFactorial_eq_zero_iff_lt.mpr (by omega)
    simp [this]
  · rw [if_neg hKp]
    by_cases hkp : k < p
    · rw [rget_append_left _ _ _ (by simpa using hkp), rget_replicate_zero]
      have : k.descFactorial p = 0 := Nat.descFactorial_eq_zero_iff_lt.mpr hkp
      simp [this]
    · rw [rget_append_right _ _ _ (by simpa using (by omega : p ≤ k))]
      simp only [List.length_replicate]
      obtain ⟨m, rfl⟩ : ∃ m, k = p + m := ⟨k - p, by omega⟩
      rw [Nat.add_sub_cancel_left]
      rcases m with _ | m
      · rw [rget_cons_zero, factorial_eq, Nat.add_zero, Nat.descFactorial_self]
        simp
      · rw [rget_cons_succ, monoDerivLoop_get u p (K - p) (p + 1) (nat 1) (Poly.factorial p) (by omega)
          (by simp) (by simp [factorial_eq, Nat.descFactorial_self]), if_pos (by omega)]
        rw [show p + 1 + m = p + (m + 1) by ring, Nat.add_sub_cancel_left]

/-- … which is the p-th derivative of `u ↦ u^k` -/
theorem monomial_derivative_spec (K : Nat) (u : ℝ) (p k : Nat) (hk : k ≤ K) :
    rget (monoDeriv K u p) k = iteratedDeriv p (fun x : ℝ => x ^ k) u := by
  rw [monoDeriv_get K u p k hk, iteratedDeriv_pow]

/-- rows of `monomial_derivatives<K,P>(u)` -/
theorem monomial_derivatives_spec (K P : Nat) (u : ℝ) (p k : Nat) (hp : p ≤ P) (hk : k ≤ K) :
    (monoDerivs K P u).get p k = iteratedDeriv p (fun x : ℝ => x ^ k) u := by
  unfold monoDerivs Tab.get
  have : ((List.range (P + 1)).map fun p => monoDeriv K u p).getD p [] = monoDeriv K u p := by
    simp [List.getD_eq_getElem?_getD, Nat.lt_succ_of_le hp]
  rw [this, monomial_derivative_spec K u p k hk]

/-! ### monomial_integral -/

theorem forRange_peel {σ : Type} (lo hi : Nat) (s : σ) (f : Nat → σ → σ) (h : lo < hi) :
    forRange lo hi s f = forRange (lo+1) hi (f lo s) f := by
  unfold forRange
  obtain ⟨d, rfl⟩ : ∃ d, hi = lo + 1 + d := ⟨hi - lo - 1, by omega⟩
  rw [show lo + 1 + d - lo = d + 1 by omega, show lo + 1 + d - (lo + 1) = d by omega,
    List.range_succ_eq_map, List.foldl_cons, List.foldl_map]
  simp only [Nat.add_zero]
  congr 1
  funext s d
  rw [show lo + 1 + d = lo + (d + 1) by ring]

theorem forRange_empty {σ : Type} (lo hi : Nat) (s : σ) (f : Nat → σ → σ) (h : hi ≤ lo) : forRange lo hi s f = s := by
  unfold forRange
  rw [Nat.sub_eq_zero_of_le h]; rfl

/-- the product loop `for (k = n-P+1; k <= n; ++k) c *= k` multiplies by `n!/(n-P)!` -/
theorem prodRange_descFactorial (c n : Nat) : ∀ P, P ≤ n → prodRange c (n - P + 1) n = c * n.descFactorial P := by
  intro P
  induction P generalizing c with
  | zero => intro _; unfold prodRange; rw [forRange_empty _ _ _ _ (by omega)]; simp
  | succ P ih =>
    intro h
    unfold prodRange at ih ⊢
    rw [forRange_peel _ _ _ _ (by omega), show n - (P + 1) + 1 + 1 = n - P + 1 by omega, ih _ (by omega)]
    rw [Nat.descFactorial_succ, show n - (P + 1) + 1 = n - P by omega]; ring

/-- entries of `monomial_integral<K,P>()`, every K and P -/
theorem monomialIntegral_get (K P i j : Nat) (hi : i ≤ K) (hj : j ≤ K) :
    (monomialIntegral (α := ℝ) K P).get i j
      = if P ≤ i ∧ P ≤ j then (i.descFactorial P : ℝ) * (j.descFactorial P : ℝ) / ((i + j - 2 * P + 1 : ℕ) : ℝ) else 0 := by
  unfold monomialIntegral Tab.get ofFn rget
  have hi' : i < K + 1 := by omega
  have hj' : j < K + 1 := by omega
  simp only [List.getD_eq_getElem?_getD, List.getElem?_map, List.getElem?_range hi', List.getElem?_range hj',
    Option.map_some, Option.getD_some, Scalar.nat_real]
  rcases Nat.le_total i j with hij | hij
  · rw [show Nat.min i j = i from Nat.min_eq_left hij, show Nat.max i j = j from Nat.max_eq_right hij]
    by_cases hP : P ≤ i
    · rw [if_pos hP, if_pos ⟨hP, by omega⟩, prodRange_descFactorial _ _ _ hP, prodRange_descFactorial _ _ _ (by omega)]
      push_cast; ring
    · rw [if_neg hP, if_neg (by tauto)]; simp
  · rw [show Nat.min i j = j from Nat.min_eq_right hij, show Nat.max i j = i from Nat.max_eq_left hij]
    by_cases hP : P ≤ j
    · rw [if_pos hP, if_pos ⟨by omega, hP⟩, prodRange_descFactorial _ _ _ hP, prodRange_descFactorial _ _ _ (by omega)]
      rw [show j + i = i + j by ring]
      push_cast; ring
    · rw [if_neg hP, if_neg (by tauto)]; simp

/-- **monomial_integral_spec**: `M[i][j] = ∫₀¹ (d^P/du^P u^i)(d^P/du^P u^j) du` -/
theorem monomial_integral_spec (K P i j : Nat) (hi : i ≤ K) (hj : j ≤ K) :
    (monomialIntegral (α := ℝ) K P).get i j
      = ∫ u in (0:ℝ)..1, iteratedDeriv P (fun x : ℝ => x ^ i) u * iteratedDeriv P (fun x : ℝ => x ^ j) u := by
  rw [monomialIntegral_get K P i j hi hj]
  simp only [iteratedDeriv_pow]
  by_cases hP : P ≤ i ∧ P ≤ j
  · rw [if_pos hP]
    have : ∀ u : ℝ, (i.descFactorial P : ℝ) * u ^ (i - P) * ((j.descFactorial P : ℝ) * u ^ (j - P))
        = (i.descFactorial P : ℝ) * (j.descFactorial P : ℝ) * u ^ (i + j - 2 * P) := by
      intro u
      rw [show i + j - 2 * P = (i - P) + (j - P) by omega, pow_add]; ring
    simp only [this]
    rw [intervalIntegral.integral_const_mul, integral_pow]
    simp
    ring
  · rw [if_neg hP]
    have : i.descFactorial P = 0 ∨ j.descFactorial P = 0 := by
      by_cases h : P ≤ i
      · right; exact Nat.descFactorial_eq_zero_iff_lt.mpr (by
          by_contra hc; exact hP ⟨h, by omega⟩)
      · left; exact Nat.descFactorial_eq_zero_iff_lt.mpr (by omega)
    rcases this with h | h <;> simp [h]

end C20M
