/-
  C01Bundle.lean — C01 for Bundles: `IsMatrixGroup` is closed under `Bundle.prod`, holds for the
  empty bundle, hence holds for `Bundle.bundle` of ANY list of matrix-group models (induction),
  and for every group descriptor `GDesc` (the language the driver/harness use to name group types:
  `SO2 SO3 SE2 SE3 C1 GAL T<n> SEK<k> B[…]`, Bundles nested arbitrarily).
-/
import SmoothProofs.C01Small
import SmoothProofs.C01SE3

open Lin Scalar

namespace Bundle

theorem fst_vcat {n m : Nat} (a : Vec ℝ n) (b : Vec ℝ m) : fst (vcat a b) = a := by
  ext i
  simp [fst, vcat]

theorem snd_vcat {n m : Nat} (a : Vec ℝ n) (b : Vec ℝ m) : snd (vcat a b) = b := by
  ext i
  simp [snd, vcat]

theorem vcat_fst_snd {n m : Nat} (g : Vec ℝ (n + m)) : vcat (fst g) (snd g) = g := by
  ext i
  simp only [vcat, fst, snd, Vec.of_get]
  split_ifs with h
  · rfl
  · congr 1; ext; simp; omega

theorem bdiag_mmul {n m : Nat} (A A' : Mat ℝ n n) (B B' : Mat ℝ m m) :
    mmul (bdiag A B) (bdiag A' B') = bdiag (mmul A A') (mmul B B') := by
  rw [bdiag_eq_blockUT, bdiag_eq_blockUT, bdiag_eq_blockUT, blockUT_mmul]
  refine blockUT_congr rfl ?_ rfl
  apply toM_inj
  simp [toM_madd, toM_mmul, toM_mzero]

theorem bdiag_ident (n m : Nat) : bdiag (ident n) (ident m) = (ident (n + m) : Mat ℝ (n + m) (n + m)) := by
  rw [bdiag_eq_blockUT, blockUT_ident]

/-- validity of a product element: both parts are valid -/
def prodValid {A B : LieModel ℝ} (VA : Vec ℝ A.rep → Prop) (VB : Vec ℝ B.rep → Prop) :
    Vec ℝ (Bundle.prod A B).rep → Prop :=
  fun g => VA (fst (n := A.rep) (m := B.rep) g) ∧ VB (snd (n := A.rep) (m := B.rep) g)

/-- the matrix of a product element is block diagonal -/
theorem prod_matrix (A B : LieModel ℝ) (g : Vec ℝ (A.rep + B.rep)) :
    (Bundle.prod A B).matrix g = bdiag (A.matrix (fst g)) (B.matrix (snd g)) := rfl

/-- `IsMatrixGroup` is closed under the binary direct product of the Bundle model -/
theorem prod_isMatrixGroup {A B : LieModel ℝ} {VA : Vec ℝ A.rep → Prop} {VB : Vec ℝ B.rep → Prop}
    (hA : IsMatrixGroup A VA) (hB : IsMatrixGroup B VB) :
    IsMatrixGroup (Bundle.prod A B) (prodValid VA VB) where
  valid_identity := by
    show VA (fst (vcat A.identity B.identity)) ∧ VB (snd (vcat A.identity B.identity))
    rw [fst_vcat, snd_vcat]
    exact ⟨hA.valid_identity, hB.valid_identity⟩
  valid_composition := by
    intro a b ha hb
    show VA (fst (vcat _ _)) ∧ VB (snd (vcat _ _))
    rw [fst_vcat, snd_vcat]
    exact ⟨hA.valid_composition _ _ ha.1 hb.1, hB.valid_composition _ _ ha.2 hb.2⟩
  valid_inverse := by
    intro a ha
    show VA (fst (vcat _ _)) ∧ VB (snd (vcat _ _))
    rw [fst_vcat, snd_vcat]
    exact ⟨hA.valid_inverse _ ha.1, hB.valid_inverse _ ha.2⟩
  matrix_identity := by
    show bdiag (A.matrix (fst (vcat A.identity B.identity))) (B.matrix (snd (vcat A.identity B.identity)))
      = ident (A.dim + B.dim)
    rw [fst_vcat, snd_vcat, hA.matrix_identity, hB.matrix_identity, bdiag_ident]
  matrix_composition := by
    intro a b ha hb
    show bdiag (A.matrix (fst (vcat _ _))) (B.matrix (snd (vcat _ _)))
      = mmul (bdiag (A.matrix (fst a)) (B.matrix (snd a))) (bdiag (A.matrix (fst b)) (B.matrix (snd b)))
    rw [fst_vcat, snd_vcat, hA.matrix_composition _ _ ha.1 hb.1, hB.matrix_composition _ _ ha.2 hb.2,
      bdiag_mmul]
  matrix_inverse_left := by
    intro a ha
    show mmul (bdiag (A.matrix (fst (vcat _ _))) (B.matrix (snd (vcat _ _))))
      (bdiag (A.matrix (fst a)) (B.matrix (snd a))) = ident (A.dim + B.dim)
    rw [fst_vcat, snd_vcat, bdiag_mmul, hA.matrix_inverse_left _ ha.1, hB.matrix_inverse_left _ ha.2,
      bdiag_ident]
  matrix_inverse_right := by
    intro a ha
    show mmul (bdiag (A.matrix (fst a)) (B.matrix (snd a)))
      (bdiag (A.matrix (fst (vcat _ _))) (B.matrix (snd (vcat _ _)))) = ident (A.dim + B.dim)
    rw [fst_vcat, snd_vcat, bdiag_mmul, hA.matrix_inverse_right _ ha.1, hB.matrix_inverse_right _ ha.2,
      bdiag_ident]

/-- the empty bundle (0×0 matrices) -/
theorem unit_isMatrixGroup : IsMatrixGroup (Bundle.unit : LieModel ℝ) (fun _ => True) where
  valid_identity := trivial
  valid_composition := fun _ _ _ _ => trivial
  valid_inverse := fun _ _ => trivial
  matrix_identity := by ext i; exact i.elim0
  matrix_composition := by intro _ _ _ _; ext i; exact i.elim0
  matrix_inverse_left := by intro _ _; ext i; exact i.elim0
  matrix_inverse_right := by intro _ _; ext i; exact i.elim0

/-- a model together with its representation constraint -/
structure VModel where
  G : LieModel ℝ
  Valid : Vec ℝ G.rep → Prop

/-- validity of a bundle element: every part (in the prefix-sum layout) is valid -/
def bundleValid : (ps : List VModel) → Vec ℝ (Bundle.bundle (ps.map VModel.G)).rep → Prop
  | [] => fun _ => True
  | p :: ps => prodValid (A := p.G) (B := Bundle.bundle (ps.map VModel.G)) p.Valid (bundleValid ps)

/-- `IsMatrixGroup` for the Bundle of ANY list of matrix-group models -/
theorem bundle_isMatrixGroup (ps : List VModel) (h : ∀ p ∈ ps, IsMatrixGroup p.G p.Valid) :
    IsMatrixGroup (Bundle.bundle (ps.map VModel.G)) (bundleValid ps) := by
  induction ps with
  | nil => exact unit_isMatrixGroup
  | cons p ps ih =>
    exact prod_isMatrixGroup (h p (List.mem_cons_self ..))
      (ih (fun q hq => h q (List.mem_cons_of_mem _ hq)))

end Bundle

/-! ### every group descriptor -/
namespace GDesc

mutual
  /-- the representation constraint of the group named by a descriptor -/
  def Valid : (d : GDesc) → Vec ℝ (GDesc.model d : LieModel ℝ).rep → Prop
    | .so2 => SO2.Unit
    | .so3 => SO3.Unit
    | .se2 => SE2.Unit
    | .se3 => SE3.Unit
    | .c1 => C1.Valid
    | .gal => Galilei.Unit
    | .tn _ => fun _ => True
    | .sek3 k => SEK3.Unit k
    | .bundle ps => ValidL ps
  def ValidL : (ps : List GDesc) → Vec ℝ (Bundle.bundle (GDesc.models ps : List (LieModel ℝ))).rep → Prop
    | [] => fun _ => True
    | p :: ps => Bundle.prodValid (A := GDesc.model p) (B := Bundle.bundle (GDesc.models ps))
        (Valid p) (ValidL ps)
end

mutual
  /-- C01 for every supported group type, Bundles nested arbitrarily -/
  theorem isMatrixGroup : (d : GDesc) → IsMatrixGroup (GDesc.model d : LieModel ℝ) (Valid d)
    | .so2 => SO2.isMatrixGroup
    | .so3 => SO3.isMatrixGroup
    | .se2 => SE2.isMatrixGroup
    | .se3 => SE3.isMatrixGroup
    | .c1 => C1.isMatrixGroup
    | .gal => Galilei.isMatrixGroup
    | .tn n => Tn.isMatrixGroup n
    | .sek3 k => SEK3.isMatrixGroup k
    | .bundle ps => isMatrixGroupL ps
  theorem isMatrixGroupL : (ps : List GDesc) →
      IsMatrixGroup (Bundle.bundle (GDesc.models ps : List (LieModel ℝ))) (ValidL ps)
    | [] => Bundle.unit_isMatrixGroup
    | p :: ps => Bundle.prod_isMatrixGroup (isMatrixGroup p) (isMatrixGroupL ps)
end

end GDesc
