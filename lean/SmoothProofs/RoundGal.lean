/-
  RoundGal.lean — `Galilei.composition / inverse / act` and `SEK3.composition / inverse` (every K) in the
  standard model of floating-point arithmetic (RoundModel.lean): the model's definitions at `RF` versus
  the same definitions at ℝ on the same inputs.  Uses the rotation building blocks of RoundAct.lean.
-/
import SmoothProofs.RoundAct

set_option linter.unusedSimpArgs false
set_option linter.unusedVariables false
set_option linter.unusedSectionVars false

open RF Rounding Lin Scalar

noncomputable section
namespace Round

/-! ## Galilei: accessors of the operations (any scalar type) -/
section Generic
variable {α : Type} [Scalar α]

theorem gal_gv_mkG (v p : Vec α 3) (t : α) (q : Vec α 4) : Galilei.gv (Galilei.mkG v p t q) = v := by
  ext i; fin_cases i <;> simp [Galilei.gv, Galilei.mkG, mk3, Vec.of]
theorem gal_gp_mkG (v p : Vec α 3) (t : α) (q : Vec α 4) : Galilei.gp (Galilei.mkG v p t q) = p := by
  ext i; fin_cases i <;> simp [Galilei.gp, Galilei.mkG, mk3, Vec.of]
theorem gal_gt_mkG (v p : Vec α 3) (t : α) (q : Vec α 4) : Galilei.gt (Galilei.mkG v p t q) = t := by
  simp [Galilei.gt, Galilei.mkG, Vec.of]
theorem gal_gq_mkG (v p : Vec α 3) (t : α) (q : Vec α 4) : Galilei.gq (Galilei.mkG v p t q) = q := by
  ext i; fin_cases i <;> simp [Galilei.gq, Galilei.mkG, mk4, Vec.of]

theorem gal_comp_gv (a b : Vec α 11) : Galilei.gv (Galilei.composition a b)
    = vadd (mulVec (SO3.matrix (Galilei.gq a)) (Galilei.gv b)) (Galilei.gv a) := by
  simp only [Galilei.composition, gal_gv_mkG, memoM_eq]
theorem gal_comp_gp (a b : Vec α 11) : Galilei.gp (Galilei.composition a b)
    = .of (fun i => (mulVec (SO3.matrix (Galilei.gq a)) (Galilei.gp b) i + Galilei.gv a i * Galilei.gt b)
        + Galilei.gp a i) := by
  simp only [Galilei.composition, gal_gp_mkG, memoM_eq]
theorem gal_comp_gt (a b : Vec α 11) : Galilei.gt (Galilei.composition a b) = Galilei.gt a + Galilei.gt b := by
  simp only [Galilei.composition, gal_gt_mkG]
theorem gal_comp_gq (a b : Vec α 11) : Galilei.gq (Galilei.composition a b)
    = SO3.composition (Galilei.gq a) (Galilei.gq b) := by
  simp only [Galilei.composition, gal_gq_mkG]

theorem gal_inv_gv (g : Vec α 11) : Galilei.gv (Galilei.inverse g)
    = mulVec (mneg (SO3.matrix (SO3.inverse (Galilei.gq g)))) (Galilei.gv g) := by
  simp only [Galilei.inverse, gal_gv_mkG, memoM_eq, memoV_eq]
theorem gal_inv_gp (g : Vec α 11) : Galilei.gp (Galilei.inverse g)
    = mulVec (SO3.matrix (SO3.inverse (Galilei.gq g)))
        (.of (fun i => -(Galilei.gp g i) + Galilei.gt g * Galilei.gv g i)) := by
  simp only [Galilei.inverse, gal_gp_mkG, memoM_eq, memoV_eq]
theorem gal_inv_gt (g : Vec α 11) : Galilei.gt (Galilei.inverse g) = -(Galilei.gt g) := by
  simp only [Galilei.inverse, gal_gt_mkG]
theorem gal_inv_gq (g : Vec α 11) : Galilei.gq (Galilei.inverse g) = SO3.inverse (Galilei.gq g) := by
  simp only [Galilei.inverse, gal_gq_mkG, memoV_eq]

end Generic

theorem gal_gv_toRF (a : Vec ℝ 11) : Galilei.gv (Vec.toRF a) = Vec.toRF (Galilei.gv a) := by
  ext i; fin_cases i <;> rfl
theorem gal_gp_toRF (a : Vec ℝ 11) : Galilei.gp (Vec.toRF a) = Vec.toRF (Galilei.gp a) := by
  ext i; fin_cases i <;> rfl
theorem gal_gq_toRF (a : Vec ℝ 11) : Galilei.gq (Vec.toRF a) = Vec.toRF (Galilei.gq a) := by
  ext i; fin_cases i <;> rfl
theorem gal_gt_toRF (a : Vec ℝ 11) : toReal (Galilei.gt (Vec.toRF a)) = Galilei.gt a := rfl
theorem gal_gv_toR (a : Vec RF 11) (i : Fin 3) : (Galilei.gv (Vec.toR a)) i = toReal ((Galilei.gv a) i) := by
  fin_cases i <;> rfl
theorem gal_gp_toR (a : Vec RF 11) (i : Fin 3) : (Galilei.gp (Vec.toR a)) i = toReal ((Galilei.gp a) i) := by
  fin_cases i <;> rfl
theorem gal_gq_toR (a : Vec RF 11) : Galilei.gq (Vec.toR a) = Vec.toR (Galilei.gq a) := by
  ext i; fin_cases i <;> rfl
theorem gal_gt_toR (a : Vec RF 11) : Galilei.gt (Vec.toR a) = toReal (Galilei.gt a) := rfl

/-! ### the 5×5 matrix by blocks -/
theorem gal_matrix_rot (g : Vec ℝ 11) (i j : Fin 3) :
    (Galilei.matrix g) ⟨i.val, by omega⟩ ⟨j.val, by omega⟩ = (SO3.matrix (Galilei.gq g)) i j := by
  fin_cases i <;> fin_cases j <;> simp [Galilei.matrix, Mat.of]
theorem gal_matrix_v (g : Vec ℝ 11) (i : Fin 3) : (Galilei.matrix g) ⟨i.val, by omega⟩ 3 = (Galilei.gv g) i := by
  fin_cases i <;> simp [Galilei.matrix, Mat.of, Galilei.gv, mk3, Vec.of]
theorem gal_matrix_p (g : Vec ℝ 11) (i : Fin 3) : (Galilei.matrix g) ⟨i.val, by omega⟩ 4 = (Galilei.gp g) i := by
  fin_cases i <;> simp [Galilei.matrix, Mat.of, Galilei.gp, mk3, Vec.of]
theorem gal_matrix_t (g : Vec ℝ 11) : (Galilei.matrix g) 3 4 = Galilei.gt g := by
  simp [Galilei.matrix, Mat.of, Galilei.gt]
/-- the remaining entries (rows 3, 4 except `(3,4)`) do not depend on the element -/
theorem gal_matrix_const (g h : Vec ℝ 11) (i j : Fin 5) (hi : 3 ≤ i.val) (hij : ¬ (i.val = 3 ∧ j.val = 4)) :
    (Galilei.matrix g) i j = (Galilei.matrix h) i j := by
  fin_cases i <;> fin_cases j <;> simp at hi hij <;> simp [Galilei.matrix, Mat.of]

/-- case split of a 5×5 Galilei matrix -/
theorem fin5_cases (P : Fin 5 → Fin 5 → Prop)
    (hrot : ∀ i j : Fin 3, P ⟨i.val, by omega⟩ ⟨j.val, by omega⟩)
    (hv : ∀ i : Fin 3, P ⟨i.val, by omega⟩ 3) (hp : ∀ i : Fin 3, P ⟨i.val, by omega⟩ 4) (ht : P 3 4)
    (hc : ∀ i j : Fin 5, 3 ≤ i.val → ¬ (i.val = 3 ∧ j.val = 4) → P i j) : ∀ i j, P i j := by
  intro i j
  by_cases hi : 3 ≤ i.val
  · by_cases hij : i.val = 3 ∧ j.val = 4
    · have e1 : i = 3 := Fin.ext hij.1
      have e2 : j = 4 := Fin.ext hij.2
      rw [e1, e2]; exact ht
    · exact hc i j hi hij
  · have hi' : i.val < 3 := by omega
    by_cases hj : j.val < 3
    · exact hrot ⟨i.val, hi'⟩ ⟨j.val, hj⟩
    · by_cases hj3 : j.val = 3
      · have e : j = 3 := Fin.ext hj3
        rw [e]; exact hv ⟨i.val, hi'⟩
      · have e : j = 4 := Fin.ext (by have := j.isLt; omega)
        rw [e]; exact hp ⟨i.val, hi'⟩

section
variable [Rounding]

/-! ## Galilei composition -/

/-- velocity `R(q₁)v₂ + v₁`: 9 roundings -/
theorem gal_composition_v_appr (a b : Vec ℝ 11) (i : Fin 3) :
    Appr 9 (rowAbs (so3MatAbs (absV (Galilei.gq a))) (Galilei.gv b) i + |Galilei.gv a i|)
      (toReal ((Galilei.gv (Galilei.composition (Vec.toRF a) (Vec.toRF b))) i))
      ((Galilei.gv (Galilei.composition a b)) i) := by
  rw [gal_comp_gv, gal_comp_gv, gal_gq_toRF, gal_gv_toRF, gal_gv_toRF]
  exact rot_trans_appr _ _ _ i

/-- majorant of the position part -/
def galCompPAbs (a b : Vec ℝ 11) (i : Fin 3) : ℝ :=
  rowAbs (so3MatAbs (absV (Galilei.gq a))) (Galilei.gp b) i + |Galilei.gv a i| * |Galilei.gt b| + |Galilei.gp a i|

/-- position `(R(q₁)p₂ + v₁·τ₂) + p₁`: 10 roundings -/
theorem gal_composition_p_appr (a b : Vec ℝ 11) (i : Fin 3) :
    Appr 10 (galCompPAbs a b i)
      (toReal ((Galilei.gp (Galilei.composition (Vec.toRF a) (Vec.toRF b))) i))
      ((Galilei.gp (Galilei.composition a b)) i) := by
  rw [gal_comp_gp, gal_comp_gp, gal_gq_toRF, gal_gp_toRF, gal_gp_toRF, gal_gv_toRF]
  have h1 := rot_mulVec_appr (Galilei.gq a) (Galilei.gp b) i
  have h2 : Appr 1 (|Galilei.gv a i| * |Galilei.gt b|)
      (fl (toReal ((Vec.toRF (Galilei.gv a)) i) * toReal (Galilei.gt (Vec.toRF b)))) (Galilei.gv a i * Galilei.gt b) := by
    have := (Appr.exact (Galilei.gv a i)).mul (Appr.exact (Galilei.gt b))
    simpa [gal_gt_toRF] using this
  have h := (h1.add h2).add (Appr.exact (Galilei.gp a i))
  refine Appr.mono (j := Max.max (Max.max 8 1 + 1) 0 + 1) ?_ (by decide) (le_refl _)
  simpa [Vec.of, galCompPAbs] using h

/-- time `τ₁ + τ₂`: one rounding, relative -/
theorem gal_composition_t_err (a b : Vec ℝ 11) :
    |toReal (Galilei.gt (Galilei.composition (Vec.toRF a) (Vec.toRF b))) - Galilei.gt (Galilei.composition a b)|
      ≤ u * |Galilei.gt (Galilei.composition a b)| := by
  rw [gal_comp_gt, gal_comp_gt]
  exact spec (Galilei.gt a + Galilei.gt b)

/-- rotation part: the SO3 composition (up to the common sign) -/
theorem gal_composition_rot_appr (a b : Vec ℝ 11) :
    ∃ s : ℝ, (s = 1 ∨ s = -1) ∧ ∀ i, Appr 5 (qabs (Galilei.gq a) (Galilei.gq b) i)
      (toReal ((Galilei.gq (Galilei.composition (Vec.toRF a) (Vec.toRF b))) i))
      (s * (Galilei.gq (Galilei.composition a b)) i) := by
  rw [gal_comp_gq, gal_comp_gq, gal_gq_toRF, gal_gq_toRF]
  exact so3_composition_appr _ _

/-! ## Galilei inverse -/

/-- velocity `−R(q⁻¹)v`: 22 roundings -/
theorem gal_inverse_v_appr (g : Vec ℝ 11) (i : Fin 3) :
    Appr 22 (rowAbs (so3MatAbs (qinvAbs (Galilei.gq g))) (Galilei.gv g) i)
      (toReal ((Galilei.gv (Galilei.inverse (Vec.toRF g))) i)) ((Galilei.gv (Galilei.inverse g)) i) := by
  rw [gal_inv_gv, gal_inv_gv, gal_gq_toRF, gal_gv_toRF]
  exact rotinv_neg_mulVec_appr _ _ i

/-- majorant of the position part of the inverse: `|R(q⁻¹)|·(|p| + |τ||v|)` -/
def galInvPAbs (g : Vec ℝ 11) (i : Fin 3) : ℝ :=
  so3MatAbs (qinvAbs (Galilei.gq g)) i 0 * (|Galilei.gp g 0| + |Galilei.gt g| * |Galilei.gv g 0|)
    + so3MatAbs (qinvAbs (Galilei.gq g)) i 1 * (|Galilei.gp g 1| + |Galilei.gt g| * |Galilei.gv g 1|)
    + so3MatAbs (qinvAbs (Galilei.gq g)) i 2 * (|Galilei.gp g 2| + |Galilei.gt g| * |Galilei.gv g 2|)

/-- position `R(q⁻¹)(−p + τ·v)`: 24 roundings (18 in the matrix, 2 in the vector, 4 in the product) -/
theorem gal_inverse_p_appr (g : Vec ℝ 11) (i : Fin 3) :
    Appr 24 (galInvPAbs g i)
      (toReal ((Galilei.gp (Galilei.inverse (Vec.toRF g))) i)) ((Galilei.gp (Galilei.inverse g)) i) := by
  rw [gal_inv_gp, gal_inv_gp, gal_gq_toRF, gal_gp_toRF, gal_gv_toRF]
  have hv : ∀ l, Appr 2 ((Vec.of (fun l => |Galilei.gp g l| + |Galilei.gt g| * |Galilei.gv g l|)) l)
      (toReal ((Vec.of (fun i => -((Vec.toRF (Galilei.gp g)) i)
        + Galilei.gt (Vec.toRF g) * (Vec.toRF (Galilei.gv g)) i) : Vec RF 3) l))
      ((Vec.of (fun i => -(Galilei.gp g i) + Galilei.gt g * Galilei.gv g i) : Vec ℝ 3) l) := fun l => by
    have := (Appr.exact (Galilei.gp g l)).neg.add ((Appr.exact (Galilei.gt g)).mul (Appr.exact (Galilei.gv g l)))
    refine Appr.mono (j := Max.max 0 (0 + 0 + 1) + 1) ?_ (by decide) (le_refl _)
    simpa [Vec.of, gal_gt_toRF] using this
  have hm := mulVec3_appr _ _ _ _ _ _ (rotinv_appr (Galilei.gq g)) hv i
  refine Appr.mono hm (by decide) (le_of_eq ?_)
  simp [galInvPAbs, Vec.of]

/-- time `−τ`: exact -/
theorem gal_inverse_t_exact (g : Vec ℝ 11) :
    toReal (Galilei.gt (Galilei.inverse (Vec.toRF g))) = Galilei.gt (Galilei.inverse g) := by
  rw [gal_inv_gt, gal_inv_gt]; rfl

theorem gal_inverse_rot_appr (g : Vec ℝ 11) (i : Fin 4) :
    Appr 7 (qinvAbs (Galilei.gq g) i) (toReal ((Galilei.gq (Galilei.inverse (Vec.toRF g))) i))
      ((Galilei.gq (Galilei.inverse g)) i) := by
  rw [gal_inv_gq, gal_inv_gq, gal_gq_toRF]
  simpa [qinvAbs, Vec.of] using so3_inverse_appr (Galilei.gq g) i

/-! ## Galilei action `(R x + v·t + p, t + τ)` -/

def galActAbs (g : Vec ℝ 11) (x : Vec ℝ 4) (i : Fin 3) : ℝ :=
  so3ActAbs (Galilei.gq g) (mk3 (x 0) (x 1) (x 2)) i + |Galilei.gv g i| * |x 3| + |Galilei.gp g i|

theorem gal_act_space_appr (g : Vec ℝ 11) (x : Vec ℝ 4) (i : Fin 3) :
    Appr 8 (galActAbs g x i) (toReal ((Galilei.act (Vec.toRF g) (Vec.toRF x)) ⟨i.val, by omega⟩))
      ((Galilei.act g x) ⟨i.val, by omega⟩) := by
  have hx : (mk3 ((Vec.toRF x) 0) ((Vec.toRF x) 1) ((Vec.toRF x) 2) : Vec RF 3) = Vec.toRF (mk3 (x 0) (x 1) (x 2)) := by
    ext l; fin_cases l <;> rfl
  have h1 := so3_act_appr (Galilei.gq g) (mk3 (x 0) (x 1) (x 2)) i
  have h2 := (Appr.exact (Galilei.gv g i)).mul (Appr.exact (x 3))
  have h := (h1.add h2).add (Appr.exact (Galilei.gp g i))
  refine Appr.mono (j := Max.max (Max.max 6 (0 + 0 + 1) + 1) 0 + 1) ?_ (by decide) (le_refl _)
  fin_cases i <;>
    simpa [Galilei.act, gal_gq_toRF, gal_gv_toRF, gal_gp_toRF, hx, mk4, Vec.of, galActAbs] using h

theorem gal_act_time_err (g : Vec ℝ 11) (x : Vec ℝ 4) :
    |toReal ((Galilei.act (Vec.toRF g) (Vec.toRF x)) 3) - (Galilei.act g x) 3| ≤ u * |(Galilei.act g x) 3| := by
  simpa [Galilei.act, mk4, Vec.of, Galilei.gt] using spec (x 3 + g 6)

end
/-! # SE_K_3, every K -/

section Generic
variable {α : Type} [Scalar α]

theorem sek_gq_mkG (k : Nat) (p : Fin k → Vec α 3) (q : Vec α 4) : SEK3.gq k (SEK3.mkG k p q) = q := by
  ext i
  simp [SEK3.gq, SEK3.mkG]

theorem sek_gp_mkG (k : Nat) (p : Fin k → Vec α 3) (q : Vec α 4) (j : Fin k) :
    SEK3.gp k (SEK3.mkG k p q) j = p j := by
  ext c
  have h1 : 3 * (j : Nat) + (c : Nat) < 3 * k := by have := j.isLt; have := c.isLt; omega
  have h2 : (3 * (j : Nat) + (c : Nat)) / 3 = j := by have := c.isLt; omega
  simp [SEK3.gp, SEK3.mkG, h1, h2]
  congr 1
  exact Fin.ext (Nat.mod_eq_of_lt c.isLt)

theorem sek_comp_gq (k : Nat) (a b : Vec α (4 + 3 * k)) :
    SEK3.gq k (SEK3.composition k a b) = SO3.composition (SEK3.gq k a) (SEK3.gq k b) := by
  simp only [SEK3.composition, sek_gq_mkG]
theorem sek_comp_gp (k : Nat) (a b : Vec α (4 + 3 * k)) (j : Fin k) :
    SEK3.gp k (SEK3.composition k a b) j
      = vadd (mulVec (SO3.matrix (SEK3.gq k a)) (SEK3.gp k b j)) (SEK3.gp k a j) := by
  simp only [SEK3.composition, sek_gp_mkG, memoM_eq]
theorem sek_inv_gq (k : Nat) (g : Vec α (4 + 3 * k)) :
    SEK3.gq k (SEK3.inverse k g) = SO3.inverse (SEK3.gq k g) := by
  simp only [SEK3.inverse, sek_gq_mkG, memoV_eq]
theorem sek_inv_gp (k : Nat) (g : Vec α (4 + 3 * k)) (j : Fin k) :
    SEK3.gp k (SEK3.inverse k g) j
      = mulVec (mneg (SO3.matrix (SO3.inverse (SEK3.gq k g)))) (SEK3.gp k g j) := by
  simp only [SEK3.inverse, sek_gp_mkG, memoM_eq, memoV_eq]

end Generic

theorem sek_gq_toRF (k : Nat) (a : Vec ℝ (4 + 3 * k)) : SEK3.gq k (Vec.toRF a) = Vec.toRF (SEK3.gq k a) := by
  ext i; rfl
theorem sek_gp_toRF (k : Nat) (a : Vec ℝ (4 + 3 * k)) (j : Fin k) :
    SEK3.gp k (Vec.toRF a) j = Vec.toRF (SEK3.gp k a j) := by
  ext i; rfl
theorem sek_gq_toR (k : Nat) (a : Vec RF (4 + 3 * k)) : SEK3.gq k (Vec.toR a) = Vec.toR (SEK3.gq k a) := by
  ext i; rfl
theorem sek_gp_toR (k : Nat) (a : Vec RF (4 + 3 * k)) (j : Fin k) (i : Fin 3) :
    (SEK3.gp k (Vec.toR a) j) i = toReal ((SEK3.gp k a j) i) := rfl

/-! ### the (3+K)×(3+K) matrix by blocks -/
theorem sek_matrix_rot (k : Nat) (g : Vec ℝ (4 + 3 * k)) (i j : Fin 3) :
    (SEK3.matrix k g) ⟨i.val, by omega⟩ ⟨j.val, by omega⟩ = (SO3.matrix (SEK3.gq k g)) i j := by
  simp [SEK3.matrix, Mat.of, i.isLt, j.isLt]
theorem sek_matrix_p (k : Nat) (g : Vec ℝ (4 + 3 * k)) (i : Fin 3) (j : Fin k) :
    (SEK3.matrix k g) ⟨i.val, by omega⟩ ⟨3 + j.val, by omega⟩ = (SEK3.gp k g j) i := by
  simp [SEK3.matrix, Mat.of, i.isLt, SEK3.gp, Vec.of]
theorem sek_matrix_const (k : Nat) (g h : Vec ℝ (4 + 3 * k)) (i j : Fin (3 + k)) (hi : 3 ≤ i.val) :
    (SEK3.matrix k g) i j = (SEK3.matrix k h) i j := by
  have : ¬ i.val < 3 := by omega
  simp [SEK3.matrix, Mat.of, this]

theorem sek_cases (k : Nat) (P : Fin (3 + k) → Fin (3 + k) → Prop)
    (hrot : ∀ i j : Fin 3, P ⟨i.val, by omega⟩ ⟨j.val, by omega⟩)
    (hp : ∀ (i : Fin 3) (j : Fin k), P ⟨i.val, by omega⟩ ⟨3 + j.val, by omega⟩)
    (hc : ∀ i j : Fin (3 + k), 3 ≤ i.val → P i j) : ∀ i j, P i j := by
  intro i j
  by_cases hi : 3 ≤ i.val
  · exact hc i j hi
  · have hi' : i.val < 3 := by omega
    by_cases hj : j.val < 3
    · exact hrot ⟨i.val, hi'⟩ ⟨j.val, hj⟩
    · have hj' : j.val - 3 < k := by have := j.isLt; omega
      have e : j = ⟨3 + (⟨j.val - 3, hj'⟩ : Fin k).val, by have := j.isLt; simp; omega⟩ := by
        apply Fin.ext; simp; omega
      rw [e]; exact hp ⟨i.val, hi'⟩ ⟨j.val - 3, hj'⟩

section
variable [Rounding]

/-- **SE_K_3 composition, every K, translation block `j`**, `R(q₁)p₂ⱼ + p₁ⱼ`: 9 roundings -/
theorem sek_composition_p_appr (k : Nat) (a b : Vec ℝ (4 + 3 * k)) (j : Fin k) (i : Fin 3) :
    Appr 9 (rowAbs (so3MatAbs (absV (SEK3.gq k a))) (SEK3.gp k b j) i + |SEK3.gp k a j i|)
      (toReal ((SEK3.gp k (SEK3.composition k (Vec.toRF a) (Vec.toRF b)) j) i))
      ((SEK3.gp k (SEK3.composition k a b) j) i) := by
  rw [sek_comp_gp, sek_comp_gp, sek_gq_toRF, sek_gp_toRF, sek_gp_toRF]
  exact rot_trans_appr _ _ _ i

theorem sek_composition_rot_appr (k : Nat) (a b : Vec ℝ (4 + 3 * k)) :
    ∃ s : ℝ, (s = 1 ∨ s = -1) ∧ ∀ i, Appr 5 (qabs (SEK3.gq k a) (SEK3.gq k b) i)
      (toReal ((SEK3.gq k (SEK3.composition k (Vec.toRF a) (Vec.toRF b))) i))
      (s * (SEK3.gq k (SEK3.composition k a b)) i) := by
  rw [sek_comp_gq, sek_comp_gq, sek_gq_toRF, sek_gq_toRF]
  exact so3_composition_appr _ _

/-- **SE_K_3 inverse, every K, translation block `j`**, `−R(q⁻¹)pⱼ`: 22 roundings -/
theorem sek_inverse_p_appr (k : Nat) (g : Vec ℝ (4 + 3 * k)) (j : Fin k) (i : Fin 3) :
    Appr 22 (rowAbs (so3MatAbs (qinvAbs (SEK3.gq k g))) (SEK3.gp k g j) i)
      (toReal ((SEK3.gp k (SEK3.inverse k (Vec.toRF g)) j) i)) ((SEK3.gp k (SEK3.inverse k g) j) i) := by
  rw [sek_inv_gp, sek_inv_gp, sek_gq_toRF, sek_gp_toRF]
  exact rotinv_neg_mulVec_appr _ _ i

theorem sek_inverse_rot_appr (k : Nat) (g : Vec ℝ (4 + 3 * k)) (i : Fin 4) :
    Appr 7 (qinvAbs (SEK3.gq k g) i) (toReal ((SEK3.gq k (SEK3.inverse k (Vec.toRF g))) i))
      ((SEK3.gq k (SEK3.inverse k g)) i) := by
  rw [sek_inv_gq, sek_inv_gq, sek_gq_toRF]
  simpa [qinvAbs, Vec.of] using so3_inverse_appr (SEK3.gq k g) i

end

/-! ## norm forms -/

/-- the scale of the Galilei bounds: `max(1, T + T²)` (the product `v·τ` of two input magnitudes occurs in
    `composition`, `inverse` and the action) -/
def scale2 (T : ℝ) : ℝ := scale (T + T ^ 2)
theorem one_le_scale2 (T : ℝ) : 1 ≤ scale2 T := one_le_scale _
theorem le_scale2 (T : ℝ) : T + T ^ 2 ≤ scale2 T := le_scale _
theorem scale2_nonneg (T : ℝ) : 0 ≤ scale2 T := scale_nonneg _
theorem scale_le_scale2 (T : ℝ) : scale T ≤ scale2 T := by
  unfold scale2 scale
  exact max_le_max (le_refl _) (by nlinarith [sq_nonneg T])

theorem galCompPAbs_le (a b : Vec ℝ 11) (n T : ℝ) (hn : SO3.sqn (Galilei.gq a) ≤ n)
    (hpb : ∀ l, |Galilei.gp b l| ≤ T) (hva : ∀ l, |Galilei.gv a l| ≤ T) (hpa : ∀ l, |Galilei.gp a l| ≤ T)
    (htb : |Galilei.gt b| ≤ T) (i : Fin 3) : galCompPAbs a b i ≤ (1 + 4 * n) * T + T * T + T := by
  unfold galCompPAbs
  have h1 := rowAbs_rot_le (Galilei.gq a) n hn (Galilei.gp b) T hpb i
  have h2 : |Galilei.gv a i| * |Galilei.gt b| ≤ T * T :=
    mul_le_mul (hva i) htb (abs_nonneg _) ((abs_nonneg _).trans (hva i))
  have := hpa i
  linarith

theorem galInvPAbs_le (g : Vec ℝ 11) (m T : ℝ) (hm0 : 0 < m) (hm : m ≤ SO3.sqn (Galilei.gq g))
    (hp : ∀ l, |Galilei.gp g l| ≤ T) (hv : ∀ l, |Galilei.gv g l| ≤ T) (ht : |Galilei.gt g| ≤ T) (i : Fin 3) :
    galInvPAbs g i ≤ (1 + 4 / m) * (T + T * T) := by
  unfold galInvPAbs
  have hT : 0 ≤ T := (abs_nonneg _).trans ht
  have hw : ∀ l, |Galilei.gp g l| + |Galilei.gt g| * |Galilei.gv g l| ≤ T + T * T := fun l => by
    have := mul_le_mul ht (hv l) (abs_nonneg _) hT
    have := hp l
    linarith
  have := so3MatAbs_row (qinvAbs (Galilei.gq g)) (qinvAbs_nonneg _) (1 / m) (qinvAbs_sq_le _ m hm0 hm)
    (|Galilei.gp g 0| + |Galilei.gt g| * |Galilei.gv g 0|) (|Galilei.gp g 1| + |Galilei.gt g| * |Galilei.gv g 1|)
    (|Galilei.gp g 2| + |Galilei.gt g| * |Galilei.gv g 2|) (T + T * T) (by positivity) (hw 0) (hw 1) (hw 2) i
  calc _ ≤ _ := this
    _ = _ := by ring

theorem galActAbs_le (g : Vec ℝ 11) (x : Vec ℝ 4) (n T : ℝ) (hn : SO3.sqn (Galilei.gq g) ≤ n)
    (hx : ∀ l, |x l| ≤ T) (hv : ∀ l, |Galilei.gv g l| ≤ T) (hp : ∀ l, |Galilei.gp g l| ≤ T) (i : Fin 3) :
    galActAbs g x i ≤ (1 + 4 * n) * T + T * T + T := by
  unfold galActAbs
  have h1 := so3ActAbs_le (Galilei.gq g) n hn (mk3 (x 0) (x 1) (x 2)) T
    (fun l => by fin_cases l <;> simp [mk3, Vec.of] <;> first | exact hx 0 | exact hx 1 | exact hx 2) i
  have h2 : |Galilei.gv g i| * |x 3| ≤ T * T :=
    mul_le_mul (hv i) (hx 3) (abs_nonneg _) ((abs_nonneg _).trans (hv i))
  have := hp i
  linarith

end Round
end
