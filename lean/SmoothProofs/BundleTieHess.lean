/-
  BundleTieHess.lean — the Hessian loops of `BundleImpl::d2r_exp / d2r_expinv` (source tie SmoothProps/SrcTieBundle.lean):
  the inner loop `for j < Di: H.block<Di,Di>(Bi, Dof·(Bi+j)+Bi) = Hi.middleCols<Di>(Di·j)` is ONE guarded placement
  (`placeLoop_eq`), and a list-recursive description of the whole part loop (`hessLoopG`: general row/column stride `D`
  and start offset `off`) computes, entry by entry, the model's nested sum of placements (`hessLoopG_spec`).
  The model takes, row by row, ONE of the two placements of a binary product (`Bundle.prodD2rExp`), as the code writes blocks
  into a zeroed matrix: no arithmetic law of the scalar is used (any `[Scalar α]`).
-/
import SmoothProofs.BundleTie
import SmoothProofs.C06Prod

open Scalar Lin BundleSem BundleTie
set_option linter.unusedSectionVars false
set_option linter.unusedSimpArgs false
set_option linter.unusedVariables false

namespace BundleTie
variable {α : Type} [Scalar α]

/-- row, outer column `C / D` and inner column `C % D` all lie in `[off, off + d)` -/
def inB (D off d R C : Nat) : Prop :=
  off ≤ R ∧ R < off + d ∧ off ≤ C / D ∧ C / D < off + d ∧ off ≤ C % D ∧ C % D < off + d

instance (D off d R C : Nat) : Decidable (inB D off d R C) := by unfold inB; infer_instance

/-- a `d × d²` Hessian `X` placed at block start `off` inside stride `D` (zero elsewhere) -/
def placeB (D off d : Nat) (X : MBuf α) : MBuf α :=
  fun R C => if inB D off d R C then X (R - off) ((C / D - off) * d + (C % D - off)) else nat 0

/-- the inner loop of `d2r_exp`: `for j < Di: H.block<Di, Di>(Bi, D * (Bi + j) + Bi) = Hi.middleCols<Di>(Di * j)` -/
def placeLoop (D Bi Di : Nat) (Hi : MBuf α) (H : MBuf α) : MBuf α :=
  forRange Di (fun j H => copyBlock H Di Di Bi (D * (Bi + j) + Bi) (viewBlock Hi Di Di 0 (Di * j))) H

/-! ### column arithmetic -/
theorem col_guard {D q Bi Di C : Nat} (h : Bi + Di ≤ D) :
    (D * q + Bi ≤ C ∧ C < D * q + Bi + Di) ↔ (C / D = q ∧ Bi ≤ C % D ∧ C % D < Bi + Di) := by
  constructor
  · rintro ⟨h1, h2⟩
    have hK : C - D * q < D := by omega
    have hC : C = D * q + (C - D * q) := by omega
    have hd : C / D = q := by rw [hC]; exact C06.col_div hK
    have hm : C % D = C - D * q := by rw [hC]; exact (C06.col_mod hK).trans (by omega)
    exact ⟨hd, by omega, by omega⟩
  · rintro ⟨h1, h2, h3⟩
    have := Nat.div_add_mod C D
    rw [h1] at this
    constructor <;> omega

theorem col_sub {D q Bi C : Nat} (h1 : C / D = q) (h2 : Bi ≤ C % D) : C - (D * q + Bi) = C % D - Bi := by
  have := Nat.div_add_mod C D
  rw [h1] at this
  omega

/-! ### the inner loop is one guarded placement -/
theorem placeLoop_aux (D Bi Di : Nat) (h : Bi + Di ≤ D) (Hi : MBuf α) (m j0 : Nat) (H : MBuf α) :
    staticFor m (fun j H => copyBlock H Di Di Bi (D * (Bi + (j0 + j)) + Bi) (viewBlock Hi Di Di 0 (Di * (j0 + j)))) H
      = fun R C => if Bi ≤ R ∧ R < Bi + Di ∧ Bi + j0 ≤ C / D ∧ C / D < Bi + j0 + m ∧ Bi ≤ C % D ∧ C % D < Bi + Di
          then Hi (R - Bi) (Di * (C / D - Bi) + (C % D - Bi)) else H R C := by
  induction m generalizing j0 H with
  | zero =>
    funext R C
    have : ¬ (Bi ≤ R ∧ R < Bi + Di ∧ Bi + j0 ≤ C / D ∧ C / D < Bi + j0 + 0 ∧ Bi ≤ C % D ∧ C % D < Bi + Di) := by omega
    simp only [staticFor, this, if_false]
  | succ m ih =>
    simp only [staticFor]
    have e : (fun i H => copyBlock H Di Di Bi (D * (Bi + (j0 + (i + 1))) + Bi) (viewBlock Hi Di Di 0 (Di * (j0 + (i + 1)))))
        = (fun i H => copyBlock H Di Di Bi (D * (Bi + (j0 + 1 + i)) + Bi) (viewBlock Hi Di Di 0 (Di * (j0 + 1 + i)))) := by
      funext i H
      have : j0 + (i + 1) = j0 + 1 + i := by omega
      rw [this]
    rw [e, ih (j0 + 1)]
    funext R C
    simp only [Nat.add_zero]
    by_cases hR : Bi ≤ R ∧ R < Bi + Di
    · by_cases hK : Bi ≤ C % D ∧ C % D < Bi + Di
      · by_cases hJ1 : Bi + (j0 + 1) ≤ C / D ∧ C / D < Bi + (j0 + 1) + m
        · have c1 : Bi ≤ R ∧ R < Bi + Di ∧ Bi + (j0 + 1) ≤ C / D ∧ C / D < Bi + (j0 + 1) + m ∧ Bi ≤ C % D ∧ C % D < Bi + Di := by omega
          have c2 : Bi ≤ R ∧ R < Bi + Di ∧ Bi + j0 ≤ C / D ∧ C / D < Bi + j0 + (m + 1) ∧ Bi ≤ C % D ∧ C % D < Bi + Di := by omega
          rw [if_pos c1, if_pos c2]
        · have c1 : ¬ (Bi ≤ R ∧ R < Bi + Di ∧ Bi + (j0 + 1) ≤ C / D ∧ C / D < Bi + (j0 + 1) + m ∧ Bi ≤ C % D ∧ C % D < Bi + Di) := by omega
          rw [if_neg c1]
          by_cases hJ0 : C / D = Bi + j0
          · have c2 : Bi ≤ R ∧ R < Bi + Di ∧ Bi + j0 ≤ C / D ∧ C / D < Bi + j0 + (m + 1) ∧ Bi ≤ C % D ∧ C % D < Bi + Di := by omega
            have g := (col_guard (q := Bi + j0) (C := C) h).2 ⟨hJ0, hK.1, hK.2⟩
            have c3 : Bi ≤ R ∧ R < Bi + Di ∧ D * (Bi + j0) + Bi ≤ C ∧ C < D * (Bi + j0) + Bi + Di := ⟨hR.1, hR.2, g.1, g.2⟩
            have s := col_sub (q := Bi + j0) hJ0 hK.1
            have v1 : R - Bi < Di ∧ C % D - Bi < Di := by omega
            simp only [copyBlock, viewBlock, if_pos c3, if_pos c2, s, if_pos v1, Nat.zero_add]
            rw [hJ0, Nat.add_sub_cancel_left]
          · have c2 : ¬ (Bi ≤ R ∧ R < Bi + Di ∧ Bi + j0 ≤ C / D ∧ C / D < Bi + j0 + (m + 1) ∧ Bi ≤ C % D ∧ C % D < Bi + Di) := by omega
            have c3 : ¬ (Bi ≤ R ∧ R < Bi + Di ∧ D * (Bi + j0) + Bi ≤ C ∧ C < D * (Bi + j0) + Bi + Di) := by
              intro hh
              exact hJ0 ((col_guard (q := Bi + j0) (C := C) h).1 ⟨hh.2.2.1, hh.2.2.2⟩).1
            simp only [copyBlock, if_neg c3, if_neg c2]
      · have c1 : ¬ (Bi ≤ R ∧ R < Bi + Di ∧ Bi + (j0 + 1) ≤ C / D ∧ C / D < Bi + (j0 + 1) + m ∧ Bi ≤ C % D ∧ C % D < Bi + Di) := by omega
        have c2 : ¬ (Bi ≤ R ∧ R < Bi + Di ∧ Bi + j0 ≤ C / D ∧ C / D < Bi + j0 + (m + 1) ∧ Bi ≤ C % D ∧ C % D < Bi + Di) := by omega
        have c3 : ¬ (Bi ≤ R ∧ R < Bi + Di ∧ D * (Bi + j0) + Bi ≤ C ∧ C < D * (Bi + j0) + Bi + Di) := by
          intro hh
          have := (col_guard (q := Bi + j0) (C := C) h).1 ⟨hh.2.2.1, hh.2.2.2⟩
          exact hK ⟨this.2.1, this.2.2⟩
        simp only [copyBlock, if_neg c3, if_neg c2, if_neg c1]
    · have c1 : ¬ (Bi ≤ R ∧ R < Bi + Di ∧ Bi + (j0 + 1) ≤ C / D ∧ C / D < Bi + (j0 + 1) + m ∧ Bi ≤ C % D ∧ C % D < Bi + Di) := by omega
      have c2 : ¬ (Bi ≤ R ∧ R < Bi + Di ∧ Bi + j0 ≤ C / D ∧ C / D < Bi + j0 + (m + 1) ∧ Bi ≤ C % D ∧ C % D < Bi + Di) := by omega
      have c3 : ¬ (Bi ≤ R ∧ R < Bi + Di ∧ D * (Bi + j0) + Bi ≤ C ∧ C < D * (Bi + j0) + Bi + Di) := by omega
      simp only [copyBlock, if_neg c3, if_neg c2, if_neg c1]

/-- **the inner loop writes the part Hessian at `H[Bi + r, D·(Bi + j) + Bi + k] = Hi[r, Di·j + k]`** and nothing else -/
theorem placeLoop_eq (D Bi Di : Nat) (h : Bi + Di ≤ D) (Hi H : MBuf α) :
    placeLoop D Bi Di Hi H
      = fun R C => if inB D Bi Di R C then Hi (R - Bi) (Di * (C / D - Bi) + (C % D - Bi)) else H R C := by
  have := placeLoop_aux D Bi Di h Hi Di 0 H
  simp only [Nat.zero_add, Nat.add_zero] at this
  simp only [placeLoop, forRange, this, inB]

theorem copyBlock_newMat {d : Nat} (X : Mat α d (d * d)) : copyBlock newMat d (d * d) 0 0 (ofMat X) = ofMat X := by
  funext r c
  simp only [copyBlock, newMat, ofMat, Nat.zero_le, true_and, Nat.zero_add, Nat.sub_zero]
  by_cases h : r < d ∧ c < d * d
  · simp [h]
  · simp [h]

/-! ### the part loop, list-recursively -/

/-- the writes of one part: nothing for a commutative part (`if constexpr (!PartImpl<i>::IsCommutative)`) -/
def hessW (D off d : Nat) (X : MBuf α) (comm : Bool) (H : MBuf α) : MBuf α :=
  if (!comm) = true then placeLoop D off d (copyBlock newMat d (d * d) 0 0 X) H else H

/-- the loop over the parts with stride `D`, started at block offset `off` -/
def hessLoopG (D : Nat) (sel : (G : LieModel α) → Vec α G.dof → Mat α G.dof (G.dof * G.dof)) :
    (off : Nat) → (Gs : List (LieModel α)) → VBuf α → MBuf α → MBuf α
  | _, [], _, H => H
  | off, p :: ps, a, H =>
    hessLoopG D sel (off + p.dof) ps (shiftV p.dof a)
      (hessW D off p.dof (ofMat (sel p (asVec (viewSegment a p.dof 0)))) p.comm H)

theorem hessPlace_eq_placeB {d : Nat} (D off : Nat) (Hi : Mat α d (d * d)) (R C : Nat) (hR : R < D) (hC : C < D * D) :
    Bundle.hessPlace D off Hi ⟨R, hR⟩ ⟨C, hC⟩ = placeB D off d (ofMat Hi) R C := by
  by_cases h : C06.InBlock D off d ⟨R, hR⟩ ⟨C, hC⟩
  · rw [C06.hessPlace_in D off Hi _ _ h]
    have h' : inB D off d R C := h
    have h1 : R - off < d := by have := h.1; have := h.2.1; simp only [] at *; omega
    have h2 : (C / D - off) * d + (C % D - off) < d * d := C06.hessPlace_col_lt h.2.2.2.1 h.2.2.2.2.2 h.2.2.1 h.2.2.2.2.1
    simp only [placeB, if_pos h', ofMat, h1, h2, and_self, dite_true]
  · rw [C06.hessPlace_out D off Hi _ _ h]
    have h' : ¬ inB D off d R C := h
    simp only [placeB, if_neg h']

/-! ### what the part loop computes -/

theorem place_lt {d j k : Nat} (hj : j < d) (hk : k < d) : j * d + k < d * d :=
  calc j * d + k < j * d + d := by omega
    _ = (j + 1) * d := by rw [Nat.add_mul, Nat.one_mul]
    _ ≤ d * d := Nat.mul_le_mul_right d hj

theorem hessW_eq (D off d : Nat) (h : off + d ≤ D) (X : Mat α d (d * d)) (comm : Bool) (H : MBuf α) (R C : Nat) :
    hessW D off d (ofMat X) comm H R C
      = if comm = false ∧ inB D off d R C then ofMat X (R - off) (d * (C / D - off) + (C % D - off)) else H R C := by
  cases comm
  · simp only [hessW, Bool.not_false, if_true, copyBlock_newMat, placeLoop_eq D off d h, true_and]
  · simp [hessW]

section spec
variable (sel : (G : LieModel α) → Vec α G.dof → Mat α G.dof (G.dof * G.dof))

/-- the Hessian of a binary product: rows below `p.dof` carry the first placement, the others the second (the form of the model) -/
def RowPlacements : Prop :=
  ∀ (p B : LieModel α) (a : Vec α (p.dof + B.dof)) (R : Fin (p.dof + B.dof)) (C : Fin ((p.dof + B.dof) * (p.dof + B.dof))),
    sel (Bundle.prod p B) a R C =
      if R.val < p.dof then Bundle.hessPlace (p.dof + B.dof) 0 (sel p (Bundle.fst a)) R C
      else Bundle.hessPlace (p.dof + B.dof) p.dof (sel B (Bundle.snd a)) R C

theorem hessLoopG_step (hsum : RowPlacements sel) (p : LieModel α) (ps : List (LieModel α))
    (hp : p.comm = true → ∀ a, sel p a = mzero _ _)
    (ih : ∀ (D off : Nat) (a : Vec α (Bundle.bundle ps).dof) (H : MBuf α) (R C : Nat), off + (Bundle.bundle ps).dof ≤ D →
      (inB D off (Bundle.bundle ps).dof R C → H R C = nat 0 →
        hessLoopG D sel off ps (ofVec a) H R C
          = ofMat (sel (Bundle.bundle ps) a) (R - off) ((C / D - off) * (Bundle.bundle ps).dof + (C % D - off)))
      ∧ (¬ inB D off (Bundle.bundle ps).dof R C → hessLoopG D sel off ps (ofVec a) H R C = H R C))
    (D off : Nat) (a : Vec α (p.dof + (Bundle.bundle ps).dof)) (H : MBuf α) (R C : Nat)
    (hD : off + (p.dof + (Bundle.bundle ps).dof) ≤ D) :
    (inB D off (p.dof + (Bundle.bundle ps).dof) R C → H R C = nat 0 →
        hessLoopG D sel off (p :: ps) (ofVec a) H R C
          = ofMat (sel (Bundle.prod p (Bundle.bundle ps)) a) (R - off)
              ((C / D - off) * (p.dof + (Bundle.bundle ps).dof) + (C % D - off)))
      ∧ (¬ inB D off (p.dof + (Bundle.bundle ps).dof) R C → hessLoopG D sel off (p :: ps) (ofVec a) H R C = H R C) := by
  -- abbreviations
  have hd1 : off + p.dof ≤ D := by omega
  have hd2 : off + p.dof + (Bundle.bundle ps).dof ≤ D := by omega
  have e : hessLoopG D sel off (p :: ps) (ofVec a) H
      = hessLoopG D sel (off + p.dof) ps (ofVec (Bundle.snd a))
          (hessW D off p.dof (ofMat (sel p (Bundle.fst a))) p.comm H) := by
    show hessLoopG D sel (off + p.dof) ps (shiftV p.dof (ofVec a))
      (hessW D off p.dof (ofMat (sel p (asVec (viewSegment (ofVec a) p.dof 0)))) p.comm H) = _
    rw [shiftV_ofVec, asVec_fst]
  have ihs := ih D (off + p.dof) (Bundle.snd a) (hessW D off p.dof (ofMat (sel p (Bundle.fst a))) p.comm H) R C hd2
  have hW := hessW_eq D off p.dof hd1 (sel p (Bundle.fst a)) p.comm H R C
  constructor
  · intro hin hH
    obtain ⟨b1, b2, b3, b4, b5, b6⟩ := hin
    -- the model entry
    have hR' : R - off < p.dof + (Bundle.bundle ps).dof := by omega
    have hJ' : C / D - off < p.dof + (Bundle.bundle ps).dof := by omega
    have hK' : C % D - off < p.dof + (Bundle.bundle ps).dof := by omega
    have hC' : (C / D - off) * (p.dof + (Bundle.bundle ps).dof) + (C % D - off)
        < (p.dof + (Bundle.bundle ps).dof) * (p.dof + (Bundle.bundle ps).dof) :=
      place_lt hJ' hK'
    have hdiv : ((C / D - off) * (p.dof + (Bundle.bundle ps).dof) + (C % D - off)) / (p.dof + (Bundle.bundle ps).dof)
        = C / D - off := by rw [Nat.mul_comm]; exact C06.col_div hK'
    have hmod : ((C / D - off) * (p.dof + (Bundle.bundle ps).dof) + (C % D - off)) % (p.dof + (Bundle.bundle ps).dof)
        = C % D - off := by rw [Nat.mul_comm]; exact C06.col_mod hK'
    have hmodel : ofMat (sel (Bundle.prod p (Bundle.bundle ps)) a) (R - off)
          ((C / D - off) * (p.dof + (Bundle.bundle ps).dof) + (C % D - off))
        = (if R - off < p.dof then
            placeB (p.dof + (Bundle.bundle ps).dof) 0 p.dof (ofMat (sel p (Bundle.fst a))) (R - off)
              ((C / D - off) * (p.dof + (Bundle.bundle ps).dof) + (C % D - off))
          else placeB (p.dof + (Bundle.bundle ps).dof) p.dof (Bundle.bundle ps).dof (ofMat (sel (Bundle.bundle ps) (Bundle.snd a)))
            (R - off) ((C / D - off) * (p.dof + (Bundle.bundle ps).dof) + (C % D - off))) := by
      have h1 : (ofMat (sel (Bundle.prod p (Bundle.bundle ps)) a) : MBuf α) (R - off)
          ((C / D - off) * (p.dof + (Bundle.bundle ps).dof) + (C % D - off))
          = sel (Bundle.prod p (Bundle.bundle ps)) a ⟨R - off, hR'⟩ ⟨_, hC'⟩ := by
        show (if h : _ ∧ _ then _ else _) = _
        rw [dif_pos ⟨hR', hC'⟩]
      rw [h1]
      refine (hsum p (Bundle.bundle ps) a ⟨R - off, hR'⟩ ⟨_, hC'⟩).trans ?_
      rw [hessPlace_eq_placeB, hessPlace_eq_placeB]
    rw [e, hmodel]
    simp only [placeB, inB, hdiv, hmod, Nat.zero_le, true_and, Nat.zero_add, Nat.sub_zero]
    by_cases hA : R - off < p.dof ∧ C / D - off < p.dof ∧ C % D - off < p.dof
    · -- inside the block of part 0
      have hnot : ¬ inB D (off + p.dof) (Bundle.bundle ps).dof R C := by unfold inB; omega
      have hnB : ¬ (p.dof ≤ R - off ∧ R - off < p.dof + (Bundle.bundle ps).dof ∧ p.dof ≤ C / D - off ∧
          C / D - off < p.dof + (Bundle.bundle ps).dof ∧ p.dof ≤ C % D - off ∧ C % D - off < p.dof + (Bundle.bundle ps).dof) := by omega
      rw [ihs.2 hnot, hW, if_pos hA.1, if_pos hA]
      have hinA : inB D off p.dof R C := by unfold inB; omega
      cases hc : p.comm
      · rw [if_pos ⟨rfl, hinA⟩, Nat.mul_comm p.dof (C / D - off)]
      · have : ¬ (true = false ∧ inB D off p.dof R C) := by simp
        rw [if_neg this, hH, hp hc]
        have h2 : R - off < p.dof ∧ (C / D - off) * p.dof + (C % D - off) < p.dof * p.dof :=
          ⟨hA.1, place_lt hA.2.1 hA.2.2⟩
        simp [ofMat, h2, mzero, Mat.of]
    · by_cases hB : p.dof ≤ R - off ∧ R - off < p.dof + (Bundle.bundle ps).dof ∧ p.dof ≤ C / D - off ∧
          C / D - off < p.dof + (Bundle.bundle ps).dof ∧ p.dof ≤ C % D - off ∧ C % D - off < p.dof + (Bundle.bundle ps).dof
      · -- inside the range of the remaining parts
        have hinB : inB D (off + p.dof) (Bundle.bundle ps).dof R C := by unfold inB; omega
        have hnA : ¬ (p.comm = false ∧ inB D off p.dof R C) := by unfold inB; omega
        have hH1 : hessW D off p.dof (ofMat (sel p (Bundle.fst a))) p.comm H R C = nat 0 := by rw [hW, if_neg hnA, hH]
        rw [ihs.1 hinB hH1, if_neg (by omega : ¬ R - off < p.dof), if_pos hB]
        congr 1
        · omega
        · have e1 : C / D - (off + p.dof) = C / D - off - p.dof := by omega
          have e2 : C % D - (off + p.dof) = C % D - off - p.dof := by omega
          rw [e1, e2]
      · -- in the range of the Bundle, but in no diagonal block of this level
        have hnot : ¬ inB D (off + p.dof) (Bundle.bundle ps).dof R C := by unfold inB; omega
        have hnA : ¬ (p.comm = false ∧ inB D off p.dof R C) := by unfold inB; omega
        rw [ihs.2 hnot, hW, if_neg hnA, hH]
        by_cases hr : R - off < p.dof
        · rw [if_pos hr, if_neg (fun h => hA ⟨hr, h.2.1, h.2.2⟩)]
        · rw [if_neg hr, if_neg hB]
  · intro hout
    have hnot : ¬ inB D (off + p.dof) (Bundle.bundle ps).dof R C := by unfold inB at hout ⊢; omega
    have hnA : ¬ (p.comm = false ∧ inB D off p.dof R C) := by unfold inB at hout ⊢; omega
    rw [e, ihs.2 hnot, hW, if_neg hnA]

/-- **the part loop computes the model's Hessian**: inside the `D`-strided block `[off, off + Dof)³` every entry of a
    zeroed output becomes the entry of `sel (Bundle.bundle Gs) a` (the nested sum of placements); nothing else is written -/
theorem hessLoopG_spec (hsum : RowPlacements sel) (Gs : List (LieModel α))
    (hsc : ∀ G ∈ Gs, G.comm = true → ∀ a, sel G a = mzero _ _)
    (D off : Nat) (a : Vec α (Bundle.bundle Gs).dof) (H : MBuf α) (R C : Nat) (hD : off + (Bundle.bundle Gs).dof ≤ D) :
    (inB D off (Bundle.bundle Gs).dof R C → H R C = nat 0 →
        hessLoopG D sel off Gs (ofVec a) H R C
          = ofMat (sel (Bundle.bundle Gs) a) (R - off) ((C / D - off) * (Bundle.bundle Gs).dof + (C % D - off)))
      ∧ (¬ inB D off (Bundle.bundle Gs).dof R C → hessLoopG D sel off Gs (ofVec a) H R C = H R C) := by
  induction Gs generalizing D off H R C with
  | nil =>
    constructor
    · intro hin; exact absurd hin (by unfold inB; show ¬ (off ≤ R ∧ R < off + 0 ∧ _); omega)
    · intro _; rfl
  | cons p ps ih =>
    exact hessLoopG_step sel hsum p ps (hsc p (List.mem_cons_self ..))
      (fun D off a H R C hD => ih (fun G hG => hsc G (List.mem_cons_of_mem _ hG)) D off a H R C hD) D off a H R C hD

end spec

end BundleTie
