/-
  C05Leibniz.lean — `d_matrix_product` returns the derivative of the product: if `dA`, `dB` hold the
  partial derivatives of the entries of `A(x)`, `B(x)` w.r.t. `x_k` in the stacked layout, then the
  result holds those of `A(x)·B(x)`.
-/
import SmoothProofs.C05Alg
import Mathlib.Analysis.Calculus.Deriv.Mul
import Mathlib.Analysis.Calculus.Deriv.Add

open Lin Scalar

namespace C05Alg

theorem d_matrix_product_hasDerivAt {n nvar : Nat} (At Bt : ℝ → Mat ℝ n n)
    (dA dB : Mat ℝ n (n * nvar)) (k : Fin nvar)
    (hA : ∀ i l, HasDerivAt (fun t => (At t) i l) (dA l (col i k)) 0)
    (hB : ∀ l r, HasDerivAt (fun t => (Bt t) l r) (dB r (col l k)) 0) (i r : Fin n) :
    HasDerivAt (fun t => (mmul (At t) (Bt t)) i r)
      ((Derivs.d_matrix_product (At 0) dA (Bt 0) dB) r (col i k)) 0 := by
  rw [d_matrix_product_entry]
  have h := HasDerivAt.fun_sum (u := Finset.univ) (fun l _ => (hA i l).mul (hB l r))
  simp only [mmul, Mat.of_get, vsum_eq_sum]
  exact h

end C05Alg
