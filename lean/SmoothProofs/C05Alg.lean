/-
  C05Alg.lean — algebraic helper lemmas for C05: the model's left-to-right sums are Finset sums
  over ℝ, index arithmetic of the horizontally stacked layout, `d_matrix_product` / `d2_fog` entrywise.
-/
import SmoothProofs.Real
import Mathlib.Algebra.BigOperators.Fin
import Mathlib.Tactic.Ring
import Mathlib.Tactic.Linarith

open Lin Scalar

namespace C05Alg

/-- `Lin.vsum` over ℝ is the Finset sum. -/
theorem vsum_eq_sum : ∀ (n : Nat) (f : Fin n → ℝ), vsum n f = ∑ i, f i
  | 0, f => by simp [vsum]
  | n+1, f => by
    rw [vsum, vsum_eq_sum n, Fin.sum_univ_castSucc]

/-- `Derivs.accum` over ℝ is `init + Σ`. -/
theorem accum_eq_sum : ∀ (n : Nat) (init : ℝ) (f : Fin n → ℝ),
    Derivs.accum n init f = init + ∑ i, f i
  | 0, init, f => by simp [Derivs.accum]
  | n+1, init, f => by
    rw [Derivs.accum, accum_eq_sum n, Fin.sum_univ_castSucc]; ring

theorem stack_div {i nvar k : Nat} (hk : k < nvar) : (i * nvar + k) / nvar = i := by
  have hpos : 0 < nvar := by omega
  rw [Nat.mul_comm, Nat.mul_add_div hpos, Nat.div_eq_of_lt hk, Nat.add_zero]

theorem stack_mod {i nvar k : Nat} (hk : k < nvar) : (i * nvar + k) % nvar = k := by
  rw [Nat.mul_comm, Nat.mul_add_mod, Nat.mod_eq_of_lt hk]

/-- the column index `i·nvar + k` of the stacked layout -/
def col {n nvar : Nat} (i : Fin n) (k : Fin nvar) : Fin (n * nvar) :=
  ⟨i.val * nvar + k.val, Derivs.idx_lt i.isLt k.isLt⟩

theorem d_matrix_product_entry {n nvar : Nat} (A : Mat ℝ n n) (dA : Mat ℝ n (n * nvar))
    (B : Mat ℝ n n) (dB : Mat ℝ n (n * nvar)) (i r : Fin n) (k : Fin nvar) :
    (Derivs.d_matrix_product A dA B dB) r (col i k)
      = ∑ l, (dA l (col i k) * B l r + A i l * dB r (col l k)) := by
  have hd : (⟨(col i k).val / nvar, Derivs.div_lt_of (col i k).isLt⟩ : Fin n) = i :=
    Fin.ext (stack_div k.isLt)
  have hm : (col i k).val % nvar = k.val := stack_mod k.isLt
  simp only [Derivs.d_matrix_product, Mat.of_get, accum_eq_sum, vsum_eq_sum, hd, hm]
  rw [Finset.sum_add_distrib]
  congr 1
  · exact Finset.sum_congr rfl (fun l _ => mul_comm _ _)

theorem d2_fog_entry {no ny nx : Nat} (Jf : Mat ℝ no ny) (Hf : Mat ℝ ny (no * ny))
    (Jg : Mat ℝ ny nx) (Hg : Mat ℝ nx (ny * nx)) (i : Fin no) (r l : Fin nx) :
    (Derivs.d2_fog Jf Hf Jg Hg) r (col i l)
      = (∑ q, (∑ p, Jg p r * Hf p (col i q)) * Jg q l) + ∑ j, Jf i j * Hg r (col j l) := by
  have hd : (col i l).val / nx = i.val := stack_div l.isLt
  have hm : (col i l).val % nx = l.val := stack_mod l.isLt
  simp only [Derivs.d2_fog, Mat.of_get, accum_eq_sum, vsum_eq_sum, hd, hm, mmul,
    transpose, Nat.cast_zero, zero_add]
  rfl

/-- `d2r_rminus(e)`: each `Dof×Dof` block of `d2r_expinv(e)` right-multiplied by `dr_expinv(e)` -/
theorem d2r_rminus_entry (G : LieModel ℝ) (e : Vec ℝ G.dof) (r j k : Fin G.dof) :
    (Derivs.d2r_rminus G e) r (col j k)
      = ∑ l, (G.d2r_expinv e) r (col j l) * (G.dr_expinv e) l k := by
  have hd : (col j k).val / G.dof = j.val := stack_div k.isLt
  have hm : (col j k).val % G.dof = k.val := stack_mod k.isLt
  simp only [Derivs.d2r_rminus, memoM_eq, Mat.of_get, vsum_eq_sum, hd, hm]
  rfl

/-- `d2r_rminus_squarednorm(e) = JᵀJ + Σ_j e_j·H_j` with `J = dr_rminus(e)`, `H_j` the `j`-th block of
    `d2r_rminus(e)` (this is `d2_fog` with `f(y) = ½|y|²`: `Jf = eᵀ`, `Hf = I`) -/
theorem d2r_rminus_squarednorm_entry (G : LieModel ℝ) (e : Vec ℝ G.dof) (r c : Fin G.dof) :
    (Derivs.d2r_rminus_squarednorm G e) r c
      = (∑ q, (G.dr_expinv e) q r * (G.dr_expinv e) q c)
        + ∑ j, e j * (Derivs.d2r_rminus G e) r (col j c) := by
  have hc : (⟨c.val, by have := c.isLt; omega⟩ : Fin (1 * G.dof)) = col (0 : Fin 1) c := by
    apply Fin.ext; simp [col]
  simp only [Derivs.d2r_rminus_squarednorm, memoM_eq, Mat.of_get]
  rw [hc, d2_fog_entry]
  congr 1
  apply Finset.sum_congr rfl
  intro q _
  congr 1
  have : ∀ p : Fin G.dof, (ident G.dof : Mat ℝ G.dof G.dof) p ⟨(col (0 : Fin 1) q).val, by
      have := (col (0 : Fin 1) q).isLt; omega⟩ = if p = q then 1 else 0 := by
    intro p
    have hq : (⟨(col (0 : Fin 1) q).val, by have := (col (0 : Fin 1) q).isLt; omega⟩ : Fin G.dof) = q := by
      apply Fin.ext; simp [col]
    rw [hq]; simp [ident]
  simp only [Mat.of_get, this, Derivs.dr_rminus, mul_ite, mul_one, mul_zero, Finset.sum_ite_eq',
    Finset.mem_univ, if_true]

end C05Alg
