/-
  C03Galilei.lean — C03 for the Galilei group (group (v p τ q), tangent (b q s Ω); 5×5 matrices,
  10×10 adjoint assembled with `blockSet`).

  The 5×5 / 10×10 objects are handled through explicit entry lemmas (simp set `c03e`), generated
  once; the polynomial identities are then closed by `ring` / `grind` (unit-quaternion hypothesis).
-/
import SmoothProofs.C03Adjoint
import SmoothProofs.C03SO3
import SmoothProofs.C03SE3

open Lin Scalar
set_option linter.unusedSimpArgs false
set_option linter.unusedTactic false
set_option linter.unreachableTactic false
set_option linter.unnecessarySeqFocus false



namespace C03
namespace Galilei

/-- representation constraint: unit quaternion part -/
def IsUnit (g : Vec ℝ 11) : Prop := UnitQ (Galilei.gq g)

/-- documented algebra of the Galilei group: `[[Ω̂, b, q], [0, 0, s], [0, 0, 0]]` -/
def InAlgebra (A : Mat ℝ 5 5) : Prop :=
  SkewTL (n := 2) A ∧ (A 3 0 = 0 ∧ A 3 1 = 0 ∧ A 3 2 = 0 ∧ A 3 3 = 0) ∧ ∀ j, A 4 j = 0

/-! #### entry lemmas -/

@[c03e] theorem hat_00 (a : Vec ℝ 10) : Galilei.hat a 0 0 = SO3.hat (Galilei.tw a) 0 0 := by
  simp [Galilei.hat, Galilei.tb, Galilei.tq, Galilei.ts]

@[c03e] theorem hat_01 (a : Vec ℝ 10) : Galilei.hat a 0 1 = SO3.hat (Galilei.tw a) 0 1 := by
  simp [Galilei.hat, Galilei.tb, Galilei.tq, Galilei.ts]

@[c03e] theorem hat_02 (a : Vec ℝ 10) : Galilei.hat a 0 2 = SO3.hat (Galilei.tw a) 0 2 := by
  simp [Galilei.hat, Galilei.tb, Galilei.tq, Galilei.ts]

@[c03e] theorem hat_03 (a : Vec ℝ 10) : Galilei.hat a 0 3 = Galilei.tb a 0 := by
  simp [Galilei.hat, Galilei.tb, Galilei.tq, Galilei.ts]

@[c03e] theorem hat_04 (a : Vec ℝ 10) : Galilei.hat a 0 4 = Galilei.tq a 0 := by
  simp [Galilei.hat, Galilei.tb, Galilei.tq, Galilei.ts]

@[c03e] theorem hat_10 (a : Vec ℝ 10) : Galilei.hat a 1 0 = SO3.hat (Galilei.tw a) 1 0 := by
  simp [Galilei.hat, Galilei.tb, Galilei.tq, Galilei.ts]

@[c03e] theorem hat_11 (a : Vec ℝ 10) : Galilei.hat a 1 1 = SO3.hat (Galilei.tw a) 1 1 := by
  simp [Galilei.hat, Galilei.tb, Galilei.tq, Galilei.ts]

@[c03e] theorem hat_12 (a : Vec ℝ 10) : Galilei.hat a 1 2 = SO3.hat (Galilei.tw a) 1 2 := by
  simp [Galilei.hat, Galilei.tb, Galilei.tq, Galilei.ts]

@[c03e] theorem hat_13 (a : Vec ℝ 10) : Galilei.hat a 1 3 = Galilei.tb a 1 := by
  simp [Galilei.hat, Galilei.tb, Galilei.tq, Galilei.ts]

@[c03e] theorem hat_14 (a : Vec ℝ 10) : Galilei.hat a 1 4 = Galilei.tq a 1 := by
  simp [Galilei.hat, Galilei.tb, Galilei.tq, Galilei.ts]

@[c03e] theorem hat_20 (a : Vec ℝ 10) : Galilei.hat a 2 0 = SO3.hat (Galilei.tw a) 2 0 := by
  simp [Galilei.hat, Galilei.tb, Galilei.tq, Galilei.ts]

@[c03e] theorem hat_21 (a : Vec ℝ 10) : Galilei.hat a 2 1 = SO3.hat (Galilei.tw a) 2 1 := by
  simp [Galilei.hat, Galilei.tb, Galilei.tq, Galilei.ts]

@[c03e] theorem hat_22 (a : Vec ℝ 10) : Galilei.hat a 2 2 = SO3.hat (Galilei.tw a) 2 2 := by
  simp [Galilei.hat, Galilei.tb, Galilei.tq, Galilei.ts]

@[c03e] theorem hat_23 (a : Vec ℝ 10) : Galilei.hat a 2 3 = Galilei.tb a 2 := by
  simp [Galilei.hat, Galilei.tb, Galilei.tq, Galilei.ts]

@[c03e] theorem hat_24 (a : Vec ℝ 10) : Galilei.hat a 2 4 = Galilei.tq a 2 := by
  simp [Galilei.hat, Galilei.tb, Galilei.tq, Galilei.ts]

@[c03e] theorem hat_30 (a : Vec ℝ 10) : Galilei.hat a 3 0 = 0 := by
  simp [Galilei.hat, Galilei.tb, Galilei.tq, Galilei.ts]

@[c03e] theorem hat_31 (a : Vec ℝ 10) : Galilei.hat a 3 1 = 0 := by
  simp [Galilei.hat, Galilei.tb, Galilei.tq, Galilei.ts]

@[c03e] theorem hat_32 (a : Vec ℝ 10) : Galilei.hat a 3 2 = 0 := by
  simp [Galilei.hat, Galilei.tb, Galilei.tq, Galilei.ts]

@[c03e] theorem hat_33 (a : Vec ℝ 10) : Galilei.hat a 3 3 = 0 := by
  simp [Galilei.hat, Galilei.tb, Galilei.tq, Galilei.ts]

@[c03e] theorem hat_34 (a : Vec ℝ 10) : Galilei.hat a 3 4 = Galilei.ts a := by
  simp [Galilei.hat, Galilei.tb, Galilei.tq, Galilei.ts]

@[c03e] theorem hat_40 (a : Vec ℝ 10) : Galilei.hat a 4 0 = 0 := by
  simp [Galilei.hat, Galilei.tb, Galilei.tq, Galilei.ts]

@[c03e] theorem hat_41 (a : Vec ℝ 10) : Galilei.hat a 4 1 = 0 := by
  simp [Galilei.hat, Galilei.tb, Galilei.tq, Galilei.ts]

@[c03e] theorem hat_42 (a : Vec ℝ 10) : Galilei.hat a 4 2 = 0 := by
  simp [Galilei.hat, Galilei.tb, Galilei.tq, Galilei.ts]

@[c03e] theorem hat_43 (a : Vec ℝ 10) : Galilei.hat a 4 3 = 0 := by
  simp [Galilei.hat, Galilei.tb, Galilei.tq, Galilei.ts]

@[c03e] theorem hat_44 (a : Vec ℝ 10) : Galilei.hat a 4 4 = 0 := by
  simp [Galilei.hat, Galilei.tb, Galilei.tq, Galilei.ts]

@[c03e] theorem matrix_00 (g : Vec ℝ 11) : Galilei.matrix g 0 0 = SO3.matrix (Galilei.gq g) 0 0 := by
  simp [Galilei.matrix, Galilei.gv, Galilei.gp, Galilei.gt]

@[c03e] theorem matrix_01 (g : Vec ℝ 11) : Galilei.matrix g 0 1 = SO3.matrix (Galilei.gq g) 0 1 := by
  simp [Galilei.matrix, Galilei.gv, Galilei.gp, Galilei.gt]

@[c03e] theorem matrix_02 (g : Vec ℝ 11) : Galilei.matrix g 0 2 = SO3.matrix (Galilei.gq g) 0 2 := by
  simp [Galilei.matrix, Galilei.gv, Galilei.gp, Galilei.gt]

@[c03e] theorem matrix_03 (g : Vec ℝ 11) : Galilei.matrix g 0 3 = Galilei.gv g 0 := by
  simp [Galilei.matrix, Galilei.gv, Galilei.gp, Galilei.gt]

@[c03e] theorem matrix_04 (g : Vec ℝ 11) : Galilei.matrix g 0 4 = Galilei.gp g 0 := by
  simp [Galilei.matrix, Galilei.gv, Galilei.gp, Galilei.gt]

@[c03e] theorem matrix_10 (g : Vec ℝ 11) : Galilei.matrix g 1 0 = SO3.matrix (Galilei.gq g) 1 0 := by
  simp [Galilei.matrix, Galilei.gv, Galilei.gp, Galilei.gt]

@[c03e] theorem matrix_11 (g : Vec ℝ 11) : Galilei.matrix g 1 1 = SO3.matrix (Galilei.gq g) 1 1 := by
  simp [Galilei.matrix, Galilei.gv, Galilei.gp, Galilei.gt]

@[c03e] theorem matrix_12 (g : Vec ℝ 11) : Galilei.matrix g 1 2 = SO3.matrix (Galilei.gq g) 1 2 := by
  simp [Galilei.matrix, Galilei.gv, Galilei.gp, Galilei.gt]

@[c03e] theorem matrix_13 (g : Vec ℝ 11) : Galilei.matrix g 1 3 = Galilei.gv g 1 := by
  simp [Galilei.matrix, Galilei.gv, Galilei.gp, Galilei.gt]

@[c03e] theorem matrix_14 (g : Vec ℝ 11) : Galilei.matrix g 1 4 = Galilei.gp g 1 := by
  simp [Galilei.matrix, Galilei.gv, Galilei.gp, Galilei.gt]

@[c03e] theorem matrix_20 (g : Vec ℝ 11) : Galilei.matrix g 2 0 = SO3.matrix (Galilei.gq g) 2 0 := by
  simp [Galilei.matrix, Galilei.gv, Galilei.gp, Galilei.gt]

@[c03e] theorem matrix_21 (g : Vec ℝ 11) : Galilei.matrix g 2 1 = SO3.matrix (Galilei.gq g) 2 1 := by
  simp [Galilei.matrix, Galilei.gv, Galilei.gp, Galilei.gt]

@[c03e] theorem matrix_22 (g : Vec ℝ 11) : Galilei.matrix g 2 2 = SO3.matrix (Galilei.gq g) 2 2 := by
  simp [Galilei.matrix, Galilei.gv, Galilei.gp, Galilei.gt]

@[c03e] theorem matrix_23 (g : Vec ℝ 11) : Galilei.matrix g 2 3 = Galilei.gv g 2 := by
  simp [Galilei.matrix, Galilei.gv, Galilei.gp, Galilei.gt]

@[c03e] theorem matrix_24 (g : Vec ℝ 11) : Galilei.matrix g 2 4 = Galilei.gp g 2 := by
  simp [Galilei.matrix, Galilei.gv, Galilei.gp, Galilei.gt]

@[c03e] theorem matrix_30 (g : Vec ℝ 11) : Galilei.matrix g 3 0 = 0 := by
  simp [Galilei.matrix, Galilei.gv, Galilei.gp, Galilei.gt]

@[c03e] theorem matrix_31 (g : Vec ℝ 11) : Galilei.matrix g 3 1 = 0 := by
  simp [Galilei.matrix, Galilei.gv, Galilei.gp, Galilei.gt]

@[c03e] theorem matrix_32 (g : Vec ℝ 11) : Galilei.matrix g 3 2 = 0 := by
  simp [Galilei.matrix, Galilei.gv, Galilei.gp, Galilei.gt]

@[c03e] theorem matrix_33 (g : Vec ℝ 11) : Galilei.matrix g 3 3 = 1 := by
  simp [Galilei.matrix, Galilei.gv, Galilei.gp, Galilei.gt]

@[c03e] theorem matrix_34 (g : Vec ℝ 11) : Galilei.matrix g 3 4 = Galilei.gt g := by
  simp [Galilei.matrix, Galilei.gv, Galilei.gp, Galilei.gt]

@[c03e] theorem matrix_40 (g : Vec ℝ 11) : Galilei.matrix g 4 0 = 0 := by
  simp [Galilei.matrix, Galilei.gv, Galilei.gp, Galilei.gt]

@[c03e] theorem matrix_41 (g : Vec ℝ 11) : Galilei.matrix g 4 1 = 0 := by
  simp [Galilei.matrix, Galilei.gv, Galilei.gp, Galilei.gt]

@[c03e] theorem matrix_42 (g : Vec ℝ 11) : Galilei.matrix g 4 2 = 0 := by
  simp [Galilei.matrix, Galilei.gv, Galilei.gp, Galilei.gt]

@[c03e] theorem matrix_43 (g : Vec ℝ 11) : Galilei.matrix g 4 3 = 0 := by
  simp [Galilei.matrix, Galilei.gv, Galilei.gp, Galilei.gt]

@[c03e] theorem matrix_44 (g : Vec ℝ 11) : Galilei.matrix g 4 4 = 1 := by
  simp [Galilei.matrix, Galilei.gv, Galilei.gp, Galilei.gt]


@[c03e] theorem tb_mkT (b q : Vec ℝ 3) (s : ℝ) (w : Vec ℝ 3) : Galilei.tb (Galilei.mkT b q s w) = b := by
  ext i; fin_cases i <;> simp [Galilei.tb, Galilei.mkT]
@[c03e] theorem tq_mkT (b q : Vec ℝ 3) (s : ℝ) (w : Vec ℝ 3) : Galilei.tq (Galilei.mkT b q s w) = q := by
  ext i; fin_cases i <;> simp [Galilei.tq, Galilei.mkT]
@[c03e] theorem ts_mkT (b q : Vec ℝ 3) (s : ℝ) (w : Vec ℝ 3) : Galilei.ts (Galilei.mkT b q s w) = s := by
  simp [Galilei.ts, Galilei.mkT]
@[c03e] theorem tw_mkT (b q : Vec ℝ 3) (s : ℝ) (w : Vec ℝ 3) : Galilei.tw (Galilei.mkT b q s w) = w := by
  ext i; fin_cases i <;> simp [Galilei.tw, Galilei.mkT]
@[c03e] theorem gv_mkG (v p : Vec ℝ 3) (t : ℝ) (q : Vec ℝ 4) : Galilei.gv (Galilei.mkG v p t q) = v := by
  ext i; fin_cases i <;> simp [Galilei.gv, Galilei.mkG]
@[c03e] theorem gp_mkG (v p : Vec ℝ 3) (t : ℝ) (q : Vec ℝ 4) : Galilei.gp (Galilei.mkG v p t q) = p := by
  ext i; fin_cases i <;> simp [Galilei.gp, Galilei.mkG]
@[c03e] theorem gt_mkG (v p : Vec ℝ 3) (t : ℝ) (q : Vec ℝ 4) : Galilei.gt (Galilei.mkG v p t q) = t := by
  simp [Galilei.gt, Galilei.mkG]
@[c03e] theorem gq_mkG (v p : Vec ℝ 3) (t : ℝ) (q : Vec ℝ 4) : Galilei.gq (Galilei.mkG v p t q) = q := by
  ext i; fin_cases i <;> simp [Galilei.gq, Galilei.mkG]

/-- the vector `ad a · b` in components (b q s Ω) -/
noncomputable def adVec (a b : Vec ℝ 10) : Vec ℝ 10 :=
  Galilei.mkT
    (vadd (mulVec (SO3.hat (Galilei.tw a)) (Galilei.tb b)) (mulVec (SO3.hat (Galilei.tb a)) (Galilei.tw b)))
    (.of (fun c =>
      (-(Galilei.ts a) * Galilei.tb b c + mulVec (SO3.hat (Galilei.tw a)) (Galilei.tq b) c)
        + (Galilei.tb a c * Galilei.ts b + mulVec (SO3.hat (Galilei.tq a)) (Galilei.tw b) c)))
    0
    (mulVec (SO3.hat (Galilei.tw a)) (Galilei.tw b))

theorem ad_mulVec (a b : Vec ℝ 10) : mulVec (Galilei.ad a) b = adVec a b := by
  ext i
  fin_cases i <;>
    simp only [adVec, mulVec, Vec.of_get, vsum_10, vsum_3, Galilei.ad, Galilei.blockSet, Mat.of_get, mzero,
      Galilei.mkT, vadd, ident, Scalar.nat_real, Nat.cast_zero, Nat.cast_one] <;>
    c03_eval <;>
    (try simp only [c03e, SO3.hat, Galilei.tb, Galilei.tq, Galilei.ts, Galilei.tw]) <;> ring

/-- the vector `Ad g · a` in components (b q s Ω), with `R = matrix (gq g)` -/
noncomputable def AdVec (g : Vec ℝ 11) (a : Vec ℝ 10) : Vec ℝ 10 :=
  let R := SO3.matrix (Galilei.gq g)
  let v := Galilei.gv g
  let p := Galilei.gp g
  let t := Galilei.gt g
  Galilei.mkT
    (vadd (mulVec R (Galilei.tb a)) (mulVec (mmul (SO3.hat v) R) (Galilei.tw a)))
    (.of (fun c =>
      ((-(t) * mulVec R (Galilei.tb a) c + mulVec R (Galilei.tq a) c) + v c * Galilei.ts a)
        + mulVec (mmul (SO3.hat (.of (fun i => p i - v i * t))) R) (Galilei.tw a) c))
    (Galilei.ts a)
    (mulVec R (Galilei.tw a))

theorem Ad_mulVec_entry (g : Vec ℝ 11) (a : Vec ℝ 10) (i : Fin 10) :
    mulVec (Galilei.Ad g) a i = AdVec g a i := by
  fin_cases i <;>
    simp only [AdVec, mulVec, Vec.of_get, vsum_10, vsum_3, Galilei.Ad, Galilei.blockSet, Mat.of_get, mzero,
      Galilei.mkT, vadd, mmul, memoM_eq', Scalar.nat_real, Nat.cast_zero, Nat.cast_one] <;>
    c03_eval <;>
    (try simp only [c03e, SO3.hat, Galilei.tb, Galilei.tq, Galilei.ts, Galilei.tw,
      Galilei.gv, Galilei.gp, Galilei.gt]) <;> ring

theorem Ad_mulVec (g : Vec ℝ 11) (a : Vec ℝ 10) : mulVec (Galilei.Ad g) a = AdVec g a := by
  ext i; exact Ad_mulVec_entry g a i

/-! #### hat / vee -/

theorem vee_hat (a : Vec ℝ 10) : Galilei.vee (Galilei.hat a) = a := by
  ext i
  fin_cases i <;> simp [Galilei.vee, Galilei.hat, Galilei.mkT, Galilei.tw, SO3.vee, SO3.hat] <;> ring

theorem hat_inAlgebra (a : Vec ℝ 10) : InAlgebra (Galilei.hat a) := by
  refine ⟨?_, ?_, ?_⟩
  · intro i j
    fin_cases i <;> fin_cases j <;> simp [Galilei.hat, Galilei.tw, SO3.hat]
  · simp [Galilei.hat]
  · intro j; simp [Galilei.hat]

theorem hat_vee (A : Mat ℝ 5 5) (h : InAlgebra A) : Galilei.hat (Galilei.vee A) = A := by
  obtain ⟨hs, ⟨q0, q1, q2, q3⟩, hr⟩ := h
  have h00 := hs 0 0; have h11 := hs 1 1; have h22 := hs 2 2
  have h01 := hs 0 1; have h02 := hs 0 2; have h12 := hs 1 2
  have r0 := hr 0; have r1 := hr 1; have r2 := hr 2; have r3 := hr 3; have r4 := hr 4
  simp at h00 h11 h22 h01 h02 h12
  ext i j
  fin_cases i <;> fin_cases j <;>
    simp only [Fin.zero_eta, Fin.mk_one, Fin.reduceFinMk, Fin.isValue, c03e, Galilei.vee, SO3.vee, SO3.hat,
      r0, r1, r2, r3, r4, q0, q1, q2, q3] <;> (try c03_eval) <;>
    (try simp only [Nat.cast_ofNat, Nat.cast_zero, Nat.cast_one]) <;> linarith

theorem hat_add (a b : Vec ℝ 10) : Galilei.hat (vadd a b) = madd (Galilei.hat a) (Galilei.hat b) := by
  ext i j
  fin_cases i <;> fin_cases j <;>
    simp only [Fin.zero_eta, Fin.mk_one, Fin.reduceFinMk, Fin.isValue, c03e, madd, SO3.hat, Galilei.tb, Galilei.tq,
      Galilei.ts, Galilei.tw, vadd] <;> ring

theorem hat_smul (s : ℝ) (a : Vec ℝ 10) : Galilei.hat (vsmul s a) = msmul s (Galilei.hat a) := by
  ext i j
  fin_cases i <;> fin_cases j <;>
    simp only [Fin.zero_eta, Fin.mk_one, Fin.reduceFinMk, Fin.isValue, c03e, msmul, SO3.hat, Galilei.tb, Galilei.tq,
      Galilei.ts, Galilei.tw, vsmul] <;> ring

/-! #### ad and Ad -/

theorem ad_def (a b : Vec ℝ 10) :
    Galilei.hat (mulVec (Galilei.ad a) b)
      = msub (mmul (Galilei.hat a) (Galilei.hat b)) (mmul (Galilei.hat b) (Galilei.hat a)) := by
  rw [ad_mulVec]
  ext i j
  fin_cases i <;> fin_cases j <;>
    simp only [Fin.zero_eta, Fin.mk_one, Fin.reduceFinMk, Fin.isValue, c03e, adVec, msub, mmul, mulVec, vadd] <;>
    simp only [c03e, SO3.hat, Galilei.tb, Galilei.tq, Galilei.ts, Galilei.tw] <;> ring

theorem Ad_def (g : Vec ℝ 11) (h : IsUnit g) (a : Vec ℝ 10) :
    mmul (Galilei.matrix g) (Galilei.hat a)
      = mmul (Galilei.hat (mulVec (Galilei.Ad g) a)) (Galilei.matrix g) := by
  rw [Ad_mulVec]
  unfold IsUnit UnitQ at h
  ext i j
  fin_cases i <;> fin_cases j <;>
    simp only [Fin.zero_eta, Fin.mk_one, Fin.reduceFinMk, Fin.isValue, c03e, AdVec, mmul, mulVec, vadd] <;>
    simp only [c03e, SO3.hat, SO3.matrix, Galilei.tb, Galilei.tq, Galilei.ts,
      Galilei.tw, Galilei.gv, Galilei.gp, Galilei.gt, Galilei.gq] at h ⊢ <;> first | ring1 | grind

/-! #### matrix homomorphism and right inverse (local copies of C01 facts) -/

/-- `[[R, v, p], [0, 1, t], [0, 0, 1]]` -/
noncomputable def homG (R : Mat ℝ 3 3) (v p : Vec ℝ 3) (t : ℝ) : Mat ℝ 5 5 := (.of (fun i j =>
  if hi : i.val < 3 then
    if hj : j.val < 3 then R ⟨i.val, hi⟩ ⟨j.val, hj⟩
    else if j.val = 3 then v ⟨i.val, hi⟩ else p ⟨i.val, hi⟩
  else if i.val = 3 then (if j.val = 3 then 1 else if j.val = 4 then t else 0)
  else (if j.val = 4 then 1 else 0)))

@[c03e] theorem homG_00 (R : Mat ℝ 3 3) (v p : Vec ℝ 3) (t : ℝ) : homG R v p t 0 0 = R 0 0 := by
  simp [homG]
@[c03e] theorem homG_01 (R : Mat ℝ 3 3) (v p : Vec ℝ 3) (t : ℝ) : homG R v p t 0 1 = R 0 1 := by
  simp [homG]
@[c03e] theorem homG_02 (R : Mat ℝ 3 3) (v p : Vec ℝ 3) (t : ℝ) : homG R v p t 0 2 = R 0 2 := by
  simp [homG]
@[c03e] theorem homG_03 (R : Mat ℝ 3 3) (v p : Vec ℝ 3) (t : ℝ) : homG R v p t 0 3 = v 0 := by
  simp [homG]
@[c03e] theorem homG_04 (R : Mat ℝ 3 3) (v p : Vec ℝ 3) (t : ℝ) : homG R v p t 0 4 = p 0 := by
  simp [homG]
@[c03e] theorem homG_10 (R : Mat ℝ 3 3) (v p : Vec ℝ 3) (t : ℝ) : homG R v p t 1 0 = R 1 0 := by
  simp [homG]
@[c03e] theorem homG_11 (R : Mat ℝ 3 3) (v p : Vec ℝ 3) (t : ℝ) : homG R v p t 1 1 = R 1 1 := by
  simp [homG]
@[c03e] theorem homG_12 (R : Mat ℝ 3 3) (v p : Vec ℝ 3) (t : ℝ) : homG R v p t 1 2 = R 1 2 := by
  simp [homG]
@[c03e] theorem homG_13 (R : Mat ℝ 3 3) (v p : Vec ℝ 3) (t : ℝ) : homG R v p t 1 3 = v 1 := by
  simp [homG]
@[c03e] theorem homG_14 (R : Mat ℝ 3 3) (v p : Vec ℝ 3) (t : ℝ) : homG R v p t 1 4 = p 1 := by
  simp [homG]
@[c03e] theorem homG_20 (R : Mat ℝ 3 3) (v p : Vec ℝ 3) (t : ℝ) : homG R v p t 2 0 = R 2 0 := by
  simp [homG]
@[c03e] theorem homG_21 (R : Mat ℝ 3 3) (v p : Vec ℝ 3) (t : ℝ) : homG R v p t 2 1 = R 2 1 := by
  simp [homG]
@[c03e] theorem homG_22 (R : Mat ℝ 3 3) (v p : Vec ℝ 3) (t : ℝ) : homG R v p t 2 2 = R 2 2 := by
  simp [homG]
@[c03e] theorem homG_23 (R : Mat ℝ 3 3) (v p : Vec ℝ 3) (t : ℝ) : homG R v p t 2 3 = v 2 := by
  simp [homG]
@[c03e] theorem homG_24 (R : Mat ℝ 3 3) (v p : Vec ℝ 3) (t : ℝ) : homG R v p t 2 4 = p 2 := by
  simp [homG]
@[c03e] theorem homG_30 (R : Mat ℝ 3 3) (v p : Vec ℝ 3) (t : ℝ) : homG R v p t 3 0 = 0 := by
  simp [homG]
@[c03e] theorem homG_31 (R : Mat ℝ 3 3) (v p : Vec ℝ 3) (t : ℝ) : homG R v p t 3 1 = 0 := by
  simp [homG]
@[c03e] theorem homG_32 (R : Mat ℝ 3 3) (v p : Vec ℝ 3) (t : ℝ) : homG R v p t 3 2 = 0 := by
  simp [homG]
@[c03e] theorem homG_33 (R : Mat ℝ 3 3) (v p : Vec ℝ 3) (t : ℝ) : homG R v p t 3 3 = 1 := by
  simp [homG]
@[c03e] theorem homG_34 (R : Mat ℝ 3 3) (v p : Vec ℝ 3) (t : ℝ) : homG R v p t 3 4 = t := by
  simp [homG]
@[c03e] theorem homG_40 (R : Mat ℝ 3 3) (v p : Vec ℝ 3) (t : ℝ) : homG R v p t 4 0 = 0 := by
  simp [homG]
@[c03e] theorem homG_41 (R : Mat ℝ 3 3) (v p : Vec ℝ 3) (t : ℝ) : homG R v p t 4 1 = 0 := by
  simp [homG]
@[c03e] theorem homG_42 (R : Mat ℝ 3 3) (v p : Vec ℝ 3) (t : ℝ) : homG R v p t 4 2 = 0 := by
  simp [homG]
@[c03e] theorem homG_43 (R : Mat ℝ 3 3) (v p : Vec ℝ 3) (t : ℝ) : homG R v p t 4 3 = 0 := by
  simp [homG]
@[c03e] theorem homG_44 (R : Mat ℝ 3 3) (v p : Vec ℝ 3) (t : ℝ) : homG R v p t 4 4 = 1 := by
  simp [homG]

theorem matrix_eq_homG (g : Vec ℝ 11) :
    Galilei.matrix g = homG (SO3.matrix (Galilei.gq g)) (Galilei.gv g) (Galilei.gp g) (Galilei.gt g) := by
  ext i j
  fin_cases i <;> fin_cases j <;> simp only [Fin.zero_eta, Fin.mk_one, Fin.reduceFinMk, Fin.isValue, c03e]

theorem homG_mul (R R' : Mat ℝ 3 3) (v p v' p' : Vec ℝ 3) (t t' : ℝ) :
    mmul (homG R v p t) (homG R' v' p' t')
      = homG (mmul R R') (vadd (mulVec R v') v) (.of (fun i => (mulVec R p' i + v i * t') + p i)) (t + t') := by
  ext i j
  fin_cases i <;> fin_cases j <;>
    simp only [Fin.zero_eta, Fin.mk_one, Fin.reduceFinMk, Fin.isValue, c03e, mmul, mulVec, vadd] <;> ring

theorem homG_ident : homG (ident 3) (vzero 3) (vzero 3) 0 = ident 5 := by
  ext i j
  fin_cases i <;> fin_cases j <;>
    simp only [Fin.zero_eta, Fin.mk_one, Fin.reduceFinMk, Fin.isValue, c03e, ident, vzero, Nat.cast_zero,
      Nat.cast_one] <;> c03_eval

theorem unit_composition (a b : Vec ℝ 11) (ha : IsUnit a) (hb : IsUnit b) :
    IsUnit (Galilei.composition a b) := by
  unfold IsUnit Galilei.composition
  simp only [gq_mkG]; exact so3_unit_composition _ _ ha hb

theorem matrix_composition (a b : Vec ℝ 11) (ha : IsUnit a) (hb : IsUnit b) :
    Galilei.matrix (Galilei.composition a b) = mmul (Galilei.matrix a) (Galilei.matrix b) := by
  rw [matrix_eq_homG, matrix_eq_homG a, matrix_eq_homG b, homG_mul]
  unfold Galilei.composition
  simp only [gq_mkG, gv_mkG, gp_mkG, gt_mkG, memoM_eq', so3_matrix_composition _ _ ha hb]

theorem matrix_right_inverse (g : Vec ℝ 11) (h : IsUnit g) :
    ∃ N, mmul (Galilei.matrix g) N = ident 5 := by
  have hO := so3_matrix_mul_transpose _ h
  refine ⟨homG (transpose (SO3.matrix (Galilei.gq g)))
    (mulVec (transpose (SO3.matrix (Galilei.gq g))) (vneg (Galilei.gv g)))
    (mulVec (transpose (SO3.matrix (Galilei.gq g)))
      (.of (fun i => -(Galilei.gp g i) + Galilei.gt g * Galilei.gv g i)))
    (-(Galilei.gt g)), ?_⟩
  rw [matrix_eq_homG, homG_mul, mulVec_mulVec, mulVec_mulVec, hO, mulVec_ident, mulVec_ident, ← homG_ident]
  congr 1
  · ext i; simp [vadd, vneg, vzero]
  · ext i; simp [vzero]; ring
  · ring

theorem Ad_composition (g₁ g₂ : Vec ℝ 11) (h₁ : IsUnit g₁) (h₂ : IsUnit g₂) :
    Galilei.Ad (Galilei.composition g₁ g₂) = mmul (Galilei.Ad g₁) (Galilei.Ad g₂) :=
  Ad_comp_of (Galilei.model : LieModel ℝ) IsUnit vee_hat (fun g a h => Ad_def g h a)
    unit_composition matrix_composition matrix_right_inverse g₁ g₂ h₁ h₂

theorem adjointRep : AdjointRep (Galilei.model : LieModel ℝ) IsUnit InAlgebra where
  vee_hat := vee_hat
  hat_inAlg := hat_inAlgebra
  hat_vee := hat_vee
  hat_add := hat_add
  hat_smul := hat_smul
  Ad_def := fun g a h => Ad_def g h a
  ad_def := ad_def
  Ad_comp := Ad_composition

end Galilei
end C03
