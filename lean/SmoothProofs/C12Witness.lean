/-
  C12Witness.lean — the concrete kernel over G = (ℚ,+) used by the negation witnesses and the
  non-vacuity examples of SmoothProps/C12.lean:  c_V(u) = u · ΣV  (for K = 1: c(u) = u·v, which is
  exactly Spline<1,double>; in general Σⱼ B̃ⱼ(u) = K·u holds as for the cumulative Bernstein basis).
-/
import SmoothProofs.C12Crop

set_option linter.unusedSectionVars false

open SplineSM SplineSM.TimeOps

namespace C12
attribute [local instance] fieldTime

def kerQ (K : Nat) : Ker ℚ (Multiplicative ℚ) ℚ where
  K := K
  one := 1
  mul := fun a b => a * b
  inv := fun a => a⁻¹
  exp := fun w => Multiplicative.ofAdd w
  log := fun g => Multiplicative.toAdd g
  wzero := 0
  wneg := fun v => -v
  wadd := fun a b => a + b
  wsmul := fun s v => s * v
  wdivs := fun v s => v / s
  cev := fun V u => (Multiplicative.ofAdd (u * V.sum), V.sum, 0)
  absint := fun _ _ _ => 0

theorem kerQ_group (K : Nat) : GroupKer (kerQ K) :=
  ⟨rfl, fun _ _ => rfl, fun _ => rfl, fun V => by simp [Ker.c, kerQ]⟩

/-- `exp(s·v)` in (ℚ,+) -/
def expoQ (s : ℚ) (v : ℚ) : Multiplicative ℚ := Multiplicative.ofAdd (s * v)

theorem kerQ_hcv (K : Nat) (s v u : ℚ) :
    (kerQ K).c (List.replicate (kerQ K).K ((kerQ K).wsmul s v)) u = expoQ (((kerQ K).K : ℚ) * u * s) v := by
  simp only [Ker.c, kerQ, expoQ, List.sum_replicate, nsmul_eq_mul]
  congr 1
  ring

/-- two segments of duration 1: x(t) = t on [0,1], x(t) = 1 + 2(t−1) on [1,2]  (K = 1) -/
def X : Spline ℚ (Multiplicative ℚ) ℚ :=
  concatLocal (kerQ 1) (ctor (kerQ 1) 1 [1] 1) (ctor (kerQ 1) 1 [2] 1)

theorem X_inv : Inv (kerQ 1) X :=
  inv_concatLocal (kerQ_group 1) (inv_ctor (kerQ_group 1) one_pos _ _) (inv_ctor (kerQ_group 1) one_pos _ _) (Or.inr rfl)

end C12
