/-
  C04Action.lean — `dr_action g v` is the derivative of `t ↦ g·exp(t d)·v` at 0, in the form
  `dr_action g v *ᵥ d = point (M g · hat d · embed v)` (uses `d/dt exp(t d)|₀ = hat d`, C02).
-/
import SmoothProofs.Real
import Mathlib.Tactic.Ring
import Mathlib.Tactic.FinCases

open Lin Scalar

namespace C04Action

/-- homogeneous embedding of a 3-point -/
noncomputable def embed3 (v : Vec ℝ 3) : Vec ℝ 4 := mk4 (v 0) (v 1) (v 2) 1

/-- homogeneous embedding of a Galilean event `(x, t)` -/
noncomputable def embed4 (x : Vec ℝ 4) : Vec ℝ 5 :=
  .of (fun i => match i with | 0 => x 0 | 1 => x 1 | 2 => x 2 | 3 => x 3 | 4 => 1)

theorem so3_dr_action (g : Vec ℝ 4) (v d : Vec ℝ 3) :
    mulVec (SO3.dr_action g v) d = mulVec (mmul (SO3.matrix g) (SO3.hat d)) v := by
  ext i
  simp [SO3.dr_action, mulVec, mmul, mneg, vsum, SO3.hat, mat3]
  ring

theorem se3_dr_action (g : Vec ℝ 7) (v : Vec ℝ 3) (d : Vec ℝ 6) (i : Fin 3) :
    (mulVec (SE3.dr_action g v) d) i
      = (mulVec (mmul (SE3.matrix g) (SE3.hat d)) (embed3 v)) ⟨i.val, by omega⟩ := by
  fin_cases i <;>
    simp [SE3.dr_action, SE3.matrix, SE3.hat, SE3.tw, SO3.dr_action, mulVec, mmul, mneg, vsum,
      SO3.hat, mat3, mk3, mk4, embed3, memoM_eq] <;> ring

/-- the homogeneous coordinate does not move -/
theorem se3_dr_action_row3 (g : Vec ℝ 7) (v : Vec ℝ 3) (d : Vec ℝ 6) :
    (mulVec (mmul (SE3.matrix g) (SE3.hat d)) (embed3 v)) 3 = 0 := by
  simp [SE3.matrix, SE3.hat, mulVec, mmul, vsum]

theorem galilei_dr_action (g : Vec ℝ 11) (x : Vec ℝ 4) (d : Vec ℝ 10) (i : Fin 4) :
    (mulVec (Galilei.dr_action g x) d) i
      = (mulVec (mmul (Galilei.matrix g) (Galilei.hat d)) (embed4 x)) ⟨i.val, by omega⟩ := by
  fin_cases i <;>
    simp [Galilei.dr_action, Galilei.matrix, Galilei.hat, Galilei.tw, Galilei.gv, Galilei.gq,
      SO3.dr_action, mulVec, mmul, mneg, vsum, SO3.hat, mat3, mk3, mk4, embed4, memoM_eq] <;> ring

theorem galilei_dr_action_row4 (g : Vec ℝ 11) (x : Vec ℝ 4) (d : Vec ℝ 10) :
    (mulVec (mmul (Galilei.matrix g) (Galilei.hat d)) (embed4 x)) 4 = 0 := by
  simp [Galilei.matrix, Galilei.hat, mulVec, mmul, vsum]

end C04Action
