/-
  C14Gram.lean — `monomial_integral<K,O>` is the Gram matrix on `[0,1]` of the `O`-th derivatives
  of the monomials `1, x, …, x^K`:
    `monoIntegral K O i j = ∫₀¹ (xⁱ)^{(O)} (xʲ)^{(O)} dx`,
  hence `dᵀ M d = ∫₀¹ (Σᵢ dᵢ (xⁱ)^{(O)})² dx ≥ 0` — for every `K` and every `O` (for `O > K` the
  matrix is 0, as are all the derivatives).
-/
import SmoothProofs.C14Bern
import SmoothProofs.C14Kkt
import Mathlib.Analysis.SpecialFunctions.Integrals.Basic
import Mathlib.MeasureTheory.Integral.IntervalIntegral.Basic

open Polynomial Scalar Lin

namespace Fit

/-- the `O`-th derivative of the monomial `xⁱ`, evaluated at `x` -/
noncomputable def monoDeriv (O i : ℕ) (x : ℝ) : ℝ := (derivative^[O] (X ^ i : ℝ[X])).eval x

theorem monoDeriv_eq (O i : ℕ) (x : ℝ) : monoDeriv O i x = (i.descFactorial O : ℝ) * x ^ (i - O) := by
  unfold monoDeriv
  rw [iterate_derivative_X_pow_eq_C_mul]
  simp

theorem monoDeriv_continuous (O i : ℕ) : Continuous (monoDeriv O i) := by
  have : monoDeriv O i = fun x => (i.descFactorial O : ℝ) * x ^ (i - O) := funext (monoDeriv_eq O i)
  rw [this]
  fun_prop

/-- the entries of the model's table over ℝ -/
theorem monoIntegral_apply (K O : ℕ) (i j : Fin (K + 1)) :
    (monoIntegral (α := ℝ) K O) i j =
      if O ≤ i.val ∧ O ≤ j.val then
        ((i.val.descFactorial O * j.val.descFactorial O : ℕ) : ℝ) / ((i.val + j.val - 2 * O + 1 : ℕ) : ℝ)
      else 0 := by
  simp only [monoIntegral, Mat.of_get, Scalar.nat_real, descFact_eq, Nat.cast_zero]

/-- **Gram matrix**: entry `(i, j)` is the `L²[0,1]` inner product of the `O`-th derivatives of
    `xⁱ` and `xʲ` -/
theorem monoIntegral_gram (K O : ℕ) (i j : Fin (K + 1)) :
    (monoIntegral (α := ℝ) K O) i j = ∫ x in (0 : ℝ)..1, monoDeriv O i.val x * monoDeriv O j.val x := by
  rw [monoIntegral_apply]
  simp only [monoDeriv_eq]
  by_cases h : O ≤ i.val ∧ O ≤ j.val
  · obtain ⟨hi, hj⟩ := h
    rw [if_pos ⟨hi, hj⟩]
    have e : ∀ x : ℝ, (i.val.descFactorial O : ℝ) * x ^ (i.val - O) * ((j.val.descFactorial O : ℝ) * x ^ (j.val - O))
        = ((i.val.descFactorial O : ℝ) * (j.val.descFactorial O : ℝ)) * x ^ (i.val + j.val - 2 * O) := by
      intro x
      have : i.val + j.val - 2 * O = (i.val - O) + (j.val - O) := by omega
      rw [this, pow_add]; ring
    simp only [e]
    rw [intervalIntegral.integral_const_mul, integral_pow]
    push_cast
    simp
    ring
  · rw [if_neg h]
    have hz : (i.val.descFactorial O : ℝ) * (j.val.descFactorial O : ℝ) = 0 := by
      rcases not_and_or.1 h with h | h
      · rw [Nat.descFactorial_eq_zero_iff_lt.2 (not_le.1 h)]; simp
      · rw [Nat.descFactorial_eq_zero_iff_lt.2 (not_le.1 h)]; simp
    have e : ∀ x : ℝ, (i.val.descFactorial O : ℝ) * x ^ (i.val - O) * ((j.val.descFactorial O : ℝ) * x ^ (j.val - O))
        = 0 := by
      intro x
      calc _ = ((i.val.descFactorial O : ℝ) * (j.val.descFactorial O : ℝ)) * (x ^ (i.val - O) * x ^ (j.val - O)) := by
            ring
        _ = 0 := by rw [hz, zero_mul]
    simp only [e]
    simp

/-- the table is symmetric (the code fills `ret[j][i] = ret[i][j]`) -/
theorem monoIntegral_symm (K O : ℕ) (i j : Fin (K + 1)) :
    (monoIntegral (α := ℝ) K O) i j = (monoIntegral (α := ℝ) K O) j i := by
  rw [monoIntegral_gram, monoIntegral_gram]
  congr 1; funext x; ring

/-- the quadratic form is the integral of a square -/
theorem quad_monoIntegral (K O : ℕ) (d : Fin (K + 1) → ℝ) :
    Kkt.quad (Matrix.of (fun i j : Fin (K + 1) => (monoIntegral (α := ℝ) K O) i j)) d
      = ∫ x in (0 : ℝ)..1, (∑ i : Fin (K + 1), d i * monoDeriv O i.val x) ^ 2 := by
  have hint : ∀ (f : ℝ → ℝ), Continuous f → IntervalIntegrable f MeasureTheory.volume 0 1 :=
    fun f hf => hf.intervalIntegrable _ _
  unfold Kkt.quad
  simp only [dotProduct, Matrix.mulVec, Matrix.of_apply, monoIntegral_gram]
  have e : ∀ x : ℝ, (∑ i : Fin (K + 1), d i * monoDeriv O i.val x) ^ 2
      = ∑ i : Fin (K + 1), ∑ j : Fin (K + 1), d i * ((monoDeriv O i.val x * monoDeriv O j.val x) * d j) := by
    intro x
    rw [sq, Finset.sum_mul_sum]
    apply Finset.sum_congr rfl; intro i _
    apply Finset.sum_congr rfl; intro j _
    ring
  simp only [e]
  rw [intervalIntegral.integral_finsetSum]
  · apply Finset.sum_congr rfl; intro i _
    rw [intervalIntegral.integral_finsetSum, Finset.mul_sum]
    · apply Finset.sum_congr rfl; intro j _
      rw [intervalIntegral.integral_const_mul, intervalIntegral.integral_mul_const]
    · intro j _
      exact hint _ (by
        have := monoDeriv_continuous O i.val; have := monoDeriv_continuous O j.val; fun_prop)
  · intro i _
    exact hint _ (by
      have := monoDeriv_continuous O i.val
      refine continuous_finsetSum _ (fun j _ => ?_)
      have := monoDeriv_continuous O j.val
      fun_prop)

/-- **positive semidefinite** -/
theorem monoIntegral_psd (K O : ℕ) (d : Fin (K + 1) → ℝ) :
    0 ≤ Kkt.quad (Matrix.of (fun i j : Fin (K + 1) => (monoIntegral (α := ℝ) K O) i j)) d := by
  rw [quad_monoIntegral]
  exact intervalIntegral.integral_nonneg (by norm_num) (fun x _ => sq_nonneg _)

end Fit
