/-
  C19GalC.lean — support of the 10×10 Galilei `ad` (rows 7–9): every entry outside the published
  `ad_sparse_pattern<Galilei>` (model predicate `Sparse.inAd .gal`) vanishes for all tangents over ℝ.
  One lemma per row, entry by entry (the matrix is assembled from 3×3 blocks by `blockSet`; each
  entry is a ~2 s `simp`).  Split over three files so that they build in parallel.
-/
import SmoothProofs.Real
import SmoothModel.Sparse
import Mathlib.Tactic.FinCases

open Lin Scalar Sparse

namespace Sparse

theorem gal_ad_row7 (a : Vec ℝ 10) (j : Fin 10) (h : inAd .gal 7 j.val = false) : Galilei.ad a 7 j = 0 := by
  fin_cases j <;> simp [inAd] at h <;>
    simp [Galilei.ad, Galilei.blockSet, SO3.hat, mat3, Mat.of, mzero, ident, Galilei.tb, Galilei.tq, Galilei.ts,
      Galilei.tw, mk3, Vec.of]

theorem gal_ad_row8 (a : Vec ℝ 10) (j : Fin 10) (h : inAd .gal 8 j.val = false) : Galilei.ad a 8 j = 0 := by
  fin_cases j <;> simp [inAd] at h <;>
    simp [Galilei.ad, Galilei.blockSet, SO3.hat, mat3, Mat.of, mzero, ident, Galilei.tb, Galilei.tq, Galilei.ts,
      Galilei.tw, mk3, Vec.of]

theorem gal_ad_row9 (a : Vec ℝ 10) (j : Fin 10) (h : inAd .gal 9 j.val = false) : Galilei.ad a 9 j = 0 := by
  fin_cases j <;> simp [inAd] at h <;>
    simp [Galilei.ad, Galilei.blockSet, SO3.hat, mat3, Mat.of, mzero, ident, Galilei.tb, Galilei.tq, Galilei.ts,
      Galilei.tw, mk3, Vec.of]

end Sparse
