import SmoothProofs.Real
import Mathlib.Tactic.Ring
import Mathlib.Tactic.FinCases
open Lin Scalar

theorem so2_matrix_comp (a b : Vec ℝ 2) (i j : Fin 2) :
    (SO2.matrix (SO2.composition a b)) i j = (mmul (SO2.matrix a) (SO2.matrix b)) i j := by
  fin_cases i <;> fin_cases j <;>
    simp [SO2.matrix, SO2.composition, mmul, mat2, mk2, vsum, Mat.of, Vec.of] <;> ring
