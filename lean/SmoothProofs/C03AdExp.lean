/-
  C03AdExp.lean — `Ad (exp a)` is the matrix exponential of `ad a`: instances of the generic theorem
  `Ad_exp_of_matrix_exp` (C03AdExpGen.lean) for every group, using property C02's theorems
  `matrix (exp a) = exp (hat a)` (SmoothProofs/C02*.lean — the only C03 file that depends on another
  property's helper files), and closure under `Bundle.prod` / `Bundle.bundle`.

  `exp a` must satisfy the representation constraint exactly, so for the SO3-based groups the
  statement is about the closed-form branch of `exp` (`‖ω‖² ≥ eps2`; on the Taylor branch the
  quaternion is unit only up to the truncation error — that part is C02's bound + the audit).
-/
import SmoothProofs.C02SO3
import SmoothProofs.C02SE3
import SmoothProofs.C02SEK3
import SmoothProofs.C02Galilei
import SmoothProofs.C02Bundle
import SmoothProofs.C03AdExpGen
import SmoothProofs.C03Small
import SmoothProofs.C03Tn
import SmoothProofs.C03SE3
import SmoothProofs.C03Galilei
import SmoothProofs.C03SEK3

open Lin Scalar

namespace C03

/-- "`Ad (exp a) = exp (ad a)`" at `a`, for one model (Mathlib's matrix exponential) -/
def AdExpAt (G : LieModel ℝ) (a : Vec ℝ G.dof) : Prop :=
  C03.toM (G.Ad (G.exp a)) = NormedSpace.exp (C03.toM (G.ad a))

theorem eps2_pos : (0 : ℝ) < Scalar.eps2 := by
  show (0 : ℝ) < 1 / 100000000; norm_num

/-- the closed-form branch of `SO3.exp` returns a unit quaternion -/
theorem unitQ_so3_exp (a : Vec ℝ 3) (h : ¬ sqNorm a < Scalar.eps2) : UnitQ (SO3.exp a) := by
  unfold SO3.exp
  apply unitQ_canon
  simp only [SO3.expAB, if_neg h]
  have hpos : 0 < sqNorm a := lt_of_lt_of_le eps2_pos (not_lt.mp h)
  have hs : sqNorm a = a 0 * a 0 + a 1 * a 1 + a 2 * a 2 := by simp [sqNorm, dot, vsum]
  have hθ2 : Real.sqrt (sqNorm a) * Real.sqrt (sqNorm a) = sqNorm a := Real.mul_self_sqrt hpos.le
  have hθ : Real.sqrt (sqNorm a) ≠ 0 := (Real.sqrt_pos.mpr hpos).ne'
  have hsc := Real.sin_sq_add_cos_sq (Real.sqrt (sqNorm a) / 2)
  unfold UnitQ
  simp only [mk4_0, mk4_1, mk4_2, mk4_3]
  show (Real.sin (Real.sqrt (sqNorm a) / (2 : ℕ)) / Real.sqrt (sqNorm a) * a 0)
        * (Real.sin (Real.sqrt (sqNorm a) / (2 : ℕ)) / Real.sqrt (sqNorm a) * a 0)
      + (Real.sin (Real.sqrt (sqNorm a) / (2 : ℕ)) / Real.sqrt (sqNorm a) * a 1)
        * (Real.sin (Real.sqrt (sqNorm a) / (2 : ℕ)) / Real.sqrt (sqNorm a) * a 1)
      + (Real.sin (Real.sqrt (sqNorm a) / (2 : ℕ)) / Real.sqrt (sqNorm a) * a 2)
        * (Real.sin (Real.sqrt (sqNorm a) / (2 : ℕ)) / Real.sqrt (sqNorm a) * a 2)
      + Real.cos (Real.sqrt (sqNorm a) / (2 : ℕ)) * Real.cos (Real.sqrt (sqNorm a) / (2 : ℕ)) = 1
  simp only [Nat.cast_ofNat]
  generalize Real.sqrt (sqNorm a) = θ at *
  generalize Real.sin (θ / 2) = s at *
  generalize Real.cos (θ / 2) = c at *
  have e : s / θ * a 0 * (s / θ * a 0) + s / θ * a 1 * (s / θ * a 1) + s / θ * a 2 * (s / θ * a 2)
      = (s / θ) ^ 2 * (θ * θ) := by rw [hθ2, hs]; ring
  rw [e]
  field_simp
  linarith

/-! #### instances -/

theorem so3_AdExpAt (a : Vec ℝ 3) (h : ¬ sqNorm a < Scalar.eps2) : AdExpAt (SO3.model : LieModel ℝ) a :=
  Ad_exp_of_matrix_exp SO3.adjointRep a (unitQ_so3_exp a h) (C02.so3_exp_is_matrix_exp_closed a h)

theorem se2_unit_exp (a : Vec ℝ 3) : SE2.IsUnit (SE2.exp a) := by
  unfold SE2.IsUnit SE2.exp
  simp only [mk4_2, mk4_3, SO2.exp, mk2_0, mk2_1, mk1_0]
  have := Real.sin_sq_add_cos_sq (a 2)
  show Real.sin (a 2) * Real.sin (a 2) + Real.cos (a 2) * Real.cos (a 2) = 1
  nlinarith

theorem se2_AdExpAt (a : Vec ℝ 3) (h : ¬ a 2 * a 2 < Scalar.eps2) : AdExpAt (SE2.model : LieModel ℝ) a :=
  Ad_exp_of_matrix_exp SE2.adjointRep a (se2_unit_exp a) (C02.se2_exp_is_matrix_exp_closed a h)

theorem se3_unit_exp (a : Vec ℝ 6) (h : ¬ sqNorm (SE3.tw a) < Scalar.eps2) : SE3.IsUnit (SE3.exp a) := by
  unfold SE3.IsUnit SE3.exp
  simp only [SE3.so3_mk7, memoV_eq']
  exact unitQ_so3_exp _ h

theorem se3_AdExpAt (a : Vec ℝ 6) (h : Scalar.eps2 < sqNorm (SE3.tw a)) : AdExpAt (SE3.model : LieModel ℝ) a :=
  Ad_exp_of_matrix_exp SE3.adjointRep a (se3_unit_exp a (not_lt.mpr h.le))
    (C02.se3_exp_is_matrix_exp_closed a h)

theorem galilei_unit_exp (a : Vec ℝ 10) (h : ¬ sqNorm (Galilei.tw a) < Scalar.eps2) :
    Galilei.IsUnit (Galilei.exp a) := by
  unfold Galilei.IsUnit Galilei.exp
  simp only [Galilei.gq_mkG]
  exact unitQ_so3_exp _ h

theorem galilei_AdExpAt (a : Vec ℝ 10) (h : Scalar.eps2 < sqNorm (Galilei.tw a)) :
    AdExpAt (Galilei.model : LieModel ℝ) a :=
  Ad_exp_of_matrix_exp Galilei.adjointRep a (galilei_unit_exp a (not_lt.mpr h.le))
    (C02.galilei_exp_is_matrix_exp_closed a h)

theorem sek3_unit_exp (k : Nat) (a : Vec ℝ (3 + 3 * k)) (h : ¬ sqNorm (SEK3.tw k a) < Scalar.eps2) :
    SEK3.IsUnit (SEK3.exp k a) := by
  unfold SEK3.IsUnit SEK3.exp
  simp only [SEK3.gq_mkG, memoV_eq']
  exact unitQ_so3_exp _ h

theorem sek3_AdExpAt (k : Nat) (a : Vec ℝ (3 + 3 * k)) (h : Scalar.eps2 < sqNorm (SEK3.tw k a)) :
    AdExpAt (SEK3.model k : LieModel ℝ) a :=
  Ad_exp_of_matrix_exp (SEK3.adjointRep k) a (sek3_unit_exp k a (not_lt.mpr h.le))
    (C02.sek3_exp_is_matrix_exp_closed k a h)

/-- commutative models (`Ad = 1`, `ad = 0`): `1 = exp 0` -/
theorem comm_AdExp (n : Nat) :
    C03.toM (ident n : Mat ℝ n n) = NormedSpace.exp (C03.toM (mzero n n : Mat ℝ n n)) := by
  rw [toM_ident, toM_mzero, NormedSpace.exp_zero]

theorem so2_AdExpAt (a : Vec ℝ 1) : AdExpAt (SO2.model : LieModel ℝ) a := comm_AdExp 1
theorem c1_AdExpAt (a : Vec ℝ 2) : AdExpAt (C1.model : LieModel ℝ) a := comm_AdExp 2
theorem tn_AdExpAt (n : Nat) (a : Vec ℝ n) : AdExpAt (Tn.model n : LieModel ℝ) a := comm_AdExp n

/-! #### Bundle -/

theorem AdExpAt_prod (A B : LieModel ℝ) (a : Vec ℝ (A.dof + B.dof))
    (hA : AdExpAt A (Bundle.fst a)) (hB : AdExpAt B (Bundle.snd a)) :
    AdExpAt (Bundle.prod A B) a := by
  unfold AdExpAt at *
  show C03.toM (Bundle.prodAd A B (Bundle.prodExp A B a)) = NormedSpace.exp (C03.toM (Bundle.prodad A B a))
  unfold Bundle.prodAd Bundle.prodExp Bundle.prodad
  rw [fst_vcat, snd_vcat]
  have e := C02.exp_bdiag (A.ad (Bundle.fst a)) (B.ad (Bundle.snd a))
  have hA' : A.Ad (A.exp (Bundle.fst a)) = C02.ofM (NormedSpace.exp (C02.toM (A.ad (Bundle.fst a)))) :=
    toM_inj hA
  have hB' : B.Ad (B.exp (Bundle.snd a)) = C02.ofM (NormedSpace.exp (C02.toM (B.ad (Bundle.snd a)))) :=
    toM_inj hB
  rw [hA', hB']
  exact e.symm

/-- `P` holds for every part of a bundle at the corresponding slice of `a` -/
def bundleAll (P : (G : LieModel ℝ) → Vec ℝ G.dof → Prop) :
    (ps : List (LieModel ℝ)) → Vec ℝ (Bundle.bundle ps).dof → Prop
  | [] => fun _ => True
  | p :: ps => fun a => P p (Bundle.fst (n := p.dof) (m := (Bundle.bundle ps).dof) a)
      ∧ bundleAll P ps (Bundle.snd (n := p.dof) (m := (Bundle.bundle ps).dof) a)

theorem AdExpAt_unit (a : Vec ℝ (Bundle.unit : LieModel ℝ).dof) : AdExpAt (Bundle.unit : LieModel ℝ) a := by
  unfold AdExpAt; ext i; exact i.elim0

/-- `Ad (exp a) = exp (ad a)` for a Bundle at `a` as soon as it holds for every part at its slice -/
theorem AdExpAt_bundle : ∀ (ps : List (LieModel ℝ)) (a : Vec ℝ (Bundle.bundle ps).dof),
    bundleAll AdExpAt ps a → AdExpAt (Bundle.bundle ps) a
  | [], a, _ => AdExpAt_unit a
  | p :: ps, a, h => AdExpAt_prod p (Bundle.bundle ps) a h.1 (AdExpAt_bundle ps _ h.2)

end C03
