/-
  C20IntAbs.lean — `smooth::integrate_absolute_polynomial` (include/smooth/polynomial/basis.hpp l. 419-453),
  model `Poly.integrateAbs` (SmoothModel/Poly.lean) at `α := ℝ`.

  * outside the threshold bands (|A| > thr, or A = 0 and (|B| > thr or B = 0)) the model returns
    `∫ t in t0..t1, |A t² + B t + C|` for `t0 ≤ t1`  (`integrate_absolute_polynomial_spec`);
  * at `|A| = thr` exactly NO root handling happens: the function returns `|∫ p|` instead of `∫ |p|`
    (`threshold_gap`, `threshold_gap_witness`) — a defect of the real code (`abs(A) < 1e-9` / `abs(A) > 1e-9`);
  * inside the band `|A| < thr < |B|` the sign change is located as if `A = 0`; the error is bounded by
    `2 |A| ∫ t²` (`threshold_band_error`).
  Method: one general sign-pattern lemma (`abs_integral_three`) instantiated for constant sign, one root,
  two roots (`abs_integral_one_sign`, `abs_integral_one_root`, `abs_integral_two_roots`).
-/
import SmoothProofs.Real
import Mathlib.MeasureTheory.Integral.IntervalIntegral.FundThmCalculus
import Mathlib.Analysis.SpecialFunctions.Integrals.Basic
import Mathlib.Analysis.SpecialFunctions.Sqrt
import Mathlib.Tactic.Linarith
import Mathlib.Tactic.Ring
import Mathlib.Tactic.Positivity

set_option linter.unnecessarySeqFocus false

namespace C20I
open Poly Set MeasureTheory

/-! ### the scalar operations at ℝ -/

@[simp] theorem scalar_sqrt_real (x : ℝ) : Scalar.sqrt x = Real.sqrt x := rfl

theorem scalar_abs_real (x : ℝ) : Scalar.abs x = |x| := by
  unfold Scalar.abs
  simp only [Nat.cast_zero]
  split_ifs with h
  · exact (abs_of_neg h).symm
  · exact (abs_of_nonneg (not_lt.1 h)).symm

/-! ### clamp -/

/-- libstdc++ `std::clamp` is `min (max v lo) hi` (no hypothesis on `lo`, `hi`) -/
theorem clamp_real' (v lo hi : ℝ) : Poly.clamp v lo hi = min (max v lo) hi := by
  unfold Poly.clamp
  simp only [max_def, min_def]
  split_ifs <;> first | rfl | linarith

theorem clamp_real (v lo hi : ℝ) (h : lo ≤ hi) : Poly.clamp v lo hi = max lo (min v hi) := by
  rw [clamp_real']
  simp only [max_def, min_def]
  split_ifs <;> first | rfl | linarith

theorem clamp_cases (v lo hi : ℝ) (h : lo ≤ hi) :
    (v ≤ lo ∧ Poly.clamp v lo hi = lo) ∨ (lo ≤ v ∧ v ≤ hi ∧ Poly.clamp v lo hi = v) ∨
      (hi ≤ v ∧ Poly.clamp v lo hi = hi) := by
  rw [clamp_real']
  rcases le_total v lo with h1 | h1
  · left; exact ⟨h1, by rw [max_eq_right h1, min_eq_left h]⟩
  · rcases le_total v hi with h2 | h2
    · right; left; exact ⟨h1, h2, by rw [max_eq_left h1, min_eq_left h2]⟩
    · right; right; exact ⟨h2, by rw [max_eq_left h1, min_eq_right h2]⟩

theorem clamp_mem (v lo hi : ℝ) (h : lo ≤ hi) : lo ≤ Poly.clamp v lo hi ∧ Poly.clamp v lo hi ≤ hi := by
  rcases clamp_cases v lo hi h with ⟨_, e⟩ | ⟨a, b, e⟩ | ⟨_, e⟩ <;> rw [e] <;> constructor <;> linarith

theorem clamp_mono (v w lo hi : ℝ) (h : v ≤ w) : Poly.clamp v lo hi ≤ Poly.clamp w lo hi := by
  rw [clamp_real', clamp_real']
  exact min_le_min (max_le_max h le_rfl) le_rfl

/-- `std::clamp` is idempotent -/
theorem clamp_idem (v lo hi : ℝ) (h : lo ≤ hi) :
    Poly.clamp (Poly.clamp v lo hi) lo hi = Poly.clamp v lo hi := by
  obtain ⟨h1, h2⟩ := clamp_mem v lo hi h
  rw [clamp_real' (Poly.clamp v lo hi), max_eq_left h1, min_eq_left h2]

theorem lt_of_lt_clamp {v lo hi t : ℝ} (h : lo ≤ hi) (h1 : lo < t) (h2 : t < Poly.clamp v lo hi) : t < v := by
  rcases clamp_cases v lo hi h with ⟨_, e⟩ | ⟨a, b, e⟩ | ⟨_, e⟩ <;> rw [e] at h2 <;> linarith

theorem lt_of_clamp_lt {v lo hi t : ℝ} (h : lo ≤ hi) (h1 : t < hi) (h2 : Poly.clamp v lo hi < t) : v < t := by
  rcases clamp_cases v lo hi h with ⟨_, e⟩ | ⟨a, b, e⟩ | ⟨_, e⟩ <;> rw [e] at h2 <;> linarith

/-! ### the antiderivative -/

theorem integ_real (A B C u : ℝ) : Poly.integ A B C u = A * u ^ 3 / 3 + B * u ^ 2 / 2 + C * u := by
  unfold Poly.integ
  simp only [Scalar.nat_real]
  push_cast
  ring

/-- `integ` is an antiderivative -/
theorem integ_hasDerivAt (A B C u : ℝ) :
    HasDerivAt (fun u => Poly.integ A B C u) (A * u^2 + B * u + C) u := by
  have h : (fun u => Poly.integ A B C u) = fun u => A * u ^ 3 / 3 + B * u ^ 2 / 2 + C * u :=
    funext (integ_real A B C)
  rw [h]
  have h1 : HasDerivAt (fun u : ℝ => u ^ 3) (3 * u ^ 2) u := by simpa using hasDerivAt_pow 3 u
  have h2 : HasDerivAt (fun u : ℝ => u ^ 2) (2 * u) u := by simpa using hasDerivAt_pow 2 u
  have h3 : HasDerivAt (fun u : ℝ => u) 1 u := hasDerivAt_id u
  exact ((((h1.const_mul A).div_const 3).add ((h2.const_mul B).div_const 2)).add
    (h3.const_mul C)).congr_deriv (by ring)

theorem poly_continuous (A B C : ℝ) : Continuous fun t : ℝ => A * t^2 + B * t + C := by fun_prop

theorem integral_poly (A B C a b : ℝ) :
    ∫ t in a..b, (A * t^2 + B * t + C) = Poly.integ A B C b - Poly.integ A B C a :=
  intervalIntegral.integral_eq_sub_of_hasDerivAt (fun u _ => integ_hasDerivAt A B C u)
    ((poly_continuous A B C).intervalIntegrable _ _)

/-! ### the general sign-pattern lemma -/

theorem nonneg_Icc_of_Ioo (f : ℝ → ℝ) (hf : Continuous f) {a b : ℝ} (hab : a < b)
    (h : ∀ t ∈ Ioo a b, 0 ≤ f t) : ∀ t ∈ Icc a b, 0 ≤ f t := by
  have hcl : IsClosed {t | 0 ≤ f t} := isClosed_le continuous_const hf
  have hsub : closure (Ioo a b) ⊆ {t | 0 ≤ f t} := hcl.closure_subset_iff.2 h
  rw [closure_Ioo hab.ne] at hsub
  exact hsub

/-- on a piece where `s p ≥ 0` (s = ±1) the integral of `|p|` is `s (I b - I a)` -/
theorem piece (p I : ℝ → ℝ) (hp : Continuous p) (hI : ∀ u, HasDerivAt I (p u) u) (s : ℝ)
    (hs : s = 1 ∨ s = -1) {a b : ℝ} (hab : a ≤ b) (h : ∀ t ∈ Ioo a b, 0 ≤ s * p t) :
    ∫ t in a..b, |p t| = s * (I b - I a) := by
  rcases eq_or_lt_of_le hab with rfl | hlt
  · simp
  · have h' := nonneg_Icc_of_Ioo (fun t => s * p t) (continuous_const.mul hp) hlt h
    have e : ∫ t in a..b, |p t| = ∫ t in a..b, s * p t := by
      apply intervalIntegral.integral_congr
      intro t ht
      rw [uIcc_of_le hab] at ht
      have h0 : 0 ≤ s * p t := h' t ht
      show |p t| = s * p t
      rcases hs with rfl | rfl
      · rw [one_mul] at h0 ⊢; exact abs_of_nonneg h0
      · have h1 : p t ≤ 0 := by linarith
        rw [abs_of_nonpos h1]; ring
    rw [e, intervalIntegral.integral_const_mul,
      intervalIntegral.integral_eq_sub_of_hasDerivAt (fun u _ => hI u) (hp.intervalIntegrable _ _)]

/-- GENERAL LEMMA: if `s p` (s = ±1) is ≥ 0 on (t0,m1), ≤ 0 on (m1,m2), ≥ 0 on (m2,t1), then the C++ formula
    `|I t1 - I t0 + 2 I m1 - 2 I m2|` is the integral of `|p|` -/
theorem abs_integral_three (p I : ℝ → ℝ) (hp : Continuous p) (hI : ∀ u, HasDerivAt I (p u) u) (s : ℝ)
    (hs : s = 1 ∨ s = -1) {t0 m1 m2 t1 : ℝ} (h1 : t0 ≤ m1) (h2 : m1 ≤ m2) (h3 : m2 ≤ t1)
    (hA : ∀ t ∈ Ioo t0 m1, 0 ≤ s * p t) (hB : ∀ t ∈ Ioo m1 m2, s * p t ≤ 0)
    (hC : ∀ t ∈ Ioo m2 t1, 0 ≤ s * p t) :
    ∫ t in t0..t1, |p t| = |I t1 - I t0 + 2 * I m1 - 2 * I m2| := by
  have hint : ∀ a b, IntervalIntegrable (fun t => |p t|) volume a b :=
    fun a b => (continuous_abs.comp hp).intervalIntegrable a b
  have e1 := piece p I hp hI s hs h1 hA
  have e2 := piece p I hp hI (-s) (by rcases hs with rfl | rfl <;> simp) h2
    (fun t ht => by have := hB t ht; linarith)
  have e3 := piece p I hp hI s hs h3 hC
  have split : ∫ t in t0..t1, |p t|
      = (∫ t in t0..m1, |p t|) + (∫ t in m1..m2, |p t|) + ∫ t in m2..t1, |p t| := by
    rw [intervalIntegral.integral_add_adjacent_intervals (hint _ _) (hint _ _),
      intervalIntegral.integral_add_adjacent_intervals (hint _ _) (hint _ _)]
  have tot : ∫ t in t0..t1, |p t| = s * (I t1 - I t0 + 2 * I m1 - 2 * I m2) := by
    rw [split, e1, e2, e3]; ring
  have nn : 0 ≤ ∫ t in t0..t1, |p t| :=
    intervalIntegral.integral_nonneg (h1.trans (h2.trans h3)) (fun t _ => abs_nonneg _)
  rw [tot] at nn ⊢
  rcases hs with rfl | rfl
  · rw [one_mul] at nn ⊢; exact (abs_of_nonneg nn).symm
  · rw [abs_of_nonpos (by linarith)]; ring

/-- there is a sign `s = ±1` with `s a ≥ 0` -/
theorem exists_sign (a : ℝ) : ∃ s : ℝ, (s = 1 ∨ s = -1) ∧ 0 ≤ s * a := by
  rcases le_total 0 a with h | h
  · exact ⟨1, Or.inl rfl, by linarith⟩
  · exact ⟨-1, Or.inr rfl, by linarith⟩

/-- `p` of constant sign: no mid points (`mid1cl = mid2cl = t1`) -/
theorem abs_integral_one_sign (p I : ℝ → ℝ) (hp : Continuous p) (hI : ∀ u, HasDerivAt I (p u) u) (s : ℝ)
    (hs : s = 1 ∨ s = -1) {t0 t1 : ℝ} (h01 : t0 ≤ t1) (hsgn : ∀ t, 0 ≤ s * p t) :
    ∫ t in t0..t1, |p t| = |I t1 - I t0 + 2 * I t1 - 2 * I t1| :=
  abs_integral_three p I hp hI s hs h01 le_rfl le_rfl (fun t _ => hsgn t)
    (fun _ ht => absurd (ht.1.trans ht.2) (lt_irrefl _)) (fun t _ => hsgn t)

/-- `p = b (t - r)`: one clamped mid point, `mid2cl = t1` -/
theorem abs_integral_one_root (p I : ℝ → ℝ) (hp : Continuous p) (hI : ∀ u, HasDerivAt I (p u) u)
    (b r : ℝ) {t0 t1 : ℝ} (h01 : t0 ≤ t1) (hfac : ∀ t, p t = b * (t - r)) :
    ∫ t in t0..t1, |p t| = |I t1 - I t0 + 2 * I (Poly.clamp r t0 t1) - 2 * I t1| := by
  obtain ⟨s, hs, hsb⟩ := exists_sign (-b)
  obtain ⟨hm0, hm1⟩ := clamp_mem r t0 t1 h01
  have e : ∀ t, s * p t = (s * -b) * (r - t) := fun t => by rw [hfac]; ring
  refine abs_integral_three p I hp hI s hs hm0 hm1 le_rfl ?_ ?_ ?_
  · intro t ht
    have : t < r := lt_of_lt_clamp h01 ht.1 ht.2
    rw [e]; exact mul_nonneg hsb (by linarith)
  · intro t ht
    have : r < t := lt_of_clamp_lt h01 ht.2 ht.1
    rw [e]; exact mul_nonpos_of_nonneg_of_nonpos hsb (by linarith)
  · intro t ht
    exact absurd (ht.1.trans ht.2) (lt_irrefl _)

/-- `p = a (t - r1) (t - r2)`, `r1 ≤ r2`: two clamped mid points -/
theorem abs_integral_two_roots (p I : ℝ → ℝ) (hp : Continuous p) (hI : ∀ u, HasDerivAt I (p u) u)
    (a r1 r2 : ℝ) {t0 t1 : ℝ} (h01 : t0 ≤ t1) (h12 : r1 ≤ r2) (hfac : ∀ t, p t = a * (t - r1) * (t - r2)) :
    ∫ t in t0..t1, |p t|
      = |I t1 - I t0 + 2 * I (Poly.clamp r1 t0 t1) - 2 * I (Poly.clamp r2 t0 t1)| := by
  obtain ⟨s, hs, hsa⟩ := exists_sign a
  obtain ⟨hm0, hm1⟩ := clamp_mem r1 t0 t1 h01
  obtain ⟨hn0, hn1⟩ := clamp_mem r2 t0 t1 h01
  have e : ∀ t, s * p t = (s * a) * ((t - r1) * (t - r2)) := fun t => by rw [hfac]; ring
  refine abs_integral_three p I hp hI s hs hm0 (clamp_mono r1 r2 t0 t1 h12) hn1 ?_ ?_ ?_
  · intro t ht
    have : t < r1 := lt_of_lt_clamp h01 ht.1 ht.2
    rw [e]
    exact mul_nonneg hsa (mul_nonneg_of_nonpos_of_nonpos (by linarith) (by linarith))
  · intro t ht
    have h1 : r1 < t := lt_of_clamp_lt h01 (lt_of_lt_of_le ht.2 hn1) ht.1
    have h2 : t < r2 := lt_of_lt_clamp h01 (lt_of_le_of_lt hm0 ht.1) ht.2
    rw [e]
    exact mul_nonpos_of_nonneg_of_nonpos hsa
      (mul_nonpos_of_nonneg_of_nonpos (by linarith) (by linarith))
  · intro t ht
    have h2 : r2 < t := lt_of_clamp_lt h01 ht.2 ht.1
    rw [e]
    exact mul_nonneg hsa (mul_nonneg (by linarith) (by linarith))

/-! ### unfolding the model -/

theorem integrateAbs_nn {thr t0 t1 A B C : ℝ} (h : Poly.absPolyMids thr t0 t1 A B C = (none, none)) :
    Poly.integrateAbs thr t0 t1 A B C
      = |Poly.integ A B C t1 - Poly.integ A B C t0 + 2 * Poly.integ A B C t1 - 2 * Poly.integ A B C t1| := by
  simp only [Poly.integrateAbs, h, scalar_abs_real, Nat.cast_ofNat]

theorem integrateAbs_sn {thr t0 t1 A B C x : ℝ} (h : Poly.absPolyMids thr t0 t1 A B C = (some x, none)) :
    Poly.integrateAbs thr t0 t1 A B C
      = |Poly.integ A B C t1 - Poly.integ A B C t0 + 2 * Poly.integ A B C (Poly.clamp x t0 t1)
          - 2 * Poly.integ A B C t1| := by
  simp only [Poly.integrateAbs, h, scalar_abs_real, Nat.cast_ofNat]

theorem integrateAbs_ss {thr t0 t1 A B C x y : ℝ}
    (h : Poly.absPolyMids thr t0 t1 A B C = (some x, some y)) :
    Poly.integrateAbs thr t0 t1 A B C
      = |Poly.integ A B C t1 - Poly.integ A B C t0 + 2 * Poly.integ A B C (Poly.clamp x t0 t1)
          - 2 * Poly.integ A B C (Poly.clamp y t0 t1)| := by
  simp only [Poly.integrateAbs, h, scalar_abs_real, Nat.cast_ofNat]

/-- no root handling when neither branch is taken -/
theorem mids_none {thr t0 t1 A B C : ℝ} (h1 : ¬ (|A| < thr ∧ thr < |B|)) (h2 : ¬ thr ≤ |A|) :
    Poly.absPolyMids thr t0 t1 A B C = (none, none) := by
  simp only [Poly.absPolyMids, scalar_abs_real]
  rw [if_neg h1, if_neg h2]

theorem mids_linear {thr t0 t1 A B C : ℝ} (h1 : |A| < thr) (h2 : thr < |B|) :
    Poly.absPolyMids thr t0 t1 A B C = (some (Poly.clamp (-C / B) t0 t1), none) := by
  simp only [Poly.absPolyMids, scalar_abs_real]
  rw [if_pos ⟨h1, h2⟩]

theorem mids_quad_pos {thr t0 t1 A B C : ℝ} (h1 : thr ≤ |A|)
    (hres : 0 < B * B / (4 * A * A) - C / A) :
    Poly.absPolyMids thr t0 t1 A B C
      = (some (-B / (2 * A) - Real.sqrt (B * B / (4 * A * A) - C / A)),
         some (-B / (2 * A) + Real.sqrt (B * B / (4 * A * A) - C / A))) := by
  simp only [Poly.absPolyMids, scalar_abs_real, scalar_sqrt_real, Nat.cast_ofNat, Nat.cast_zero]
  rw [if_neg (fun h => absurd (h.1.trans_le h1) (lt_irrefl _)), if_pos h1, if_pos hres]

theorem mids_quad_neg {thr t0 t1 A B C : ℝ} (h1 : thr ≤ |A|)
    (hres : ¬ 0 < B * B / (4 * A * A) - C / A) :
    Poly.absPolyMids thr t0 t1 A B C = (none, none) := by
  simp only [Poly.absPolyMids, scalar_abs_real, scalar_sqrt_real, Nat.cast_ofNat, Nat.cast_zero]
  rw [if_neg (fun h => absurd (h.1.trans_le h1) (lt_irrefl _)), if_pos h1, if_neg hres]

/-! ### the three exact cases -/

/-- constant case A = 0, B = 0 -/
theorem integrate_abs_const (thr t0 t1 C : ℝ) (hthr : 0 < thr) (h01 : t0 ≤ t1) :
    Poly.integrateAbs thr t0 t1 0 0 C = ∫ t in t0..t1, |(0:ℝ) * t^2 + 0 * t + C| := by
  have hm : Poly.absPolyMids thr t0 t1 0 0 C = (none, none) :=
    mids_none (fun h => absurd (h.1.trans h.2) (lt_irrefl _))
      (by rw [abs_zero]; exact not_le.2 hthr)
  rw [integrateAbs_nn hm]
  obtain ⟨s, hs, hsC⟩ := exists_sign C
  refine (abs_integral_one_sign (fun t => (0:ℝ) * t^2 + 0 * t + C) (fun u => Poly.integ 0 0 C u)
    (poly_continuous 0 0 C) (integ_hasDerivAt 0 0 C) s hs h01 (fun t => ?_)).symm
  show 0 ≤ s * ((0:ℝ) * t^2 + 0 * t + C)
  have e : (0:ℝ) * t^2 + 0 * t + C = C := by ring
  rw [e]; exact hsC

example : (0:ℝ) < 1/1000000000 ∧ (0:ℝ) ≤ 1 := by norm_num

/-- linear case A = 0, |B| > thr -/
theorem integrate_abs_linear (thr t0 t1 B C : ℝ) (hthr : 0 < thr) (h01 : t0 ≤ t1) (hB : thr < |B|) :
    Poly.integrateAbs thr t0 t1 0 B C = ∫ t in t0..t1, |(0:ℝ) * t^2 + B * t + C| := by
  have hB0 : B ≠ 0 := fun h => by rw [h, abs_zero] at hB; linarith
  rw [integrateAbs_sn (mids_linear (by rw [abs_zero]; exact hthr) hB), clamp_idem _ _ _ h01]
  refine (abs_integral_one_root (fun t => (0:ℝ) * t^2 + B * t + C) (fun u => Poly.integ 0 B C u)
    (poly_continuous 0 B C) (integ_hasDerivAt 0 B C) B (-C / B) h01 (fun t => ?_)).symm
  show (0:ℝ) * t^2 + B * t + C = B * (t - -C / B)
  field_simp
  ring

example : (0:ℝ) < 1/1000000000 ∧ (0:ℝ) ≤ 1 ∧ (1/1000000000 : ℝ) < |(-2:ℝ)| := by norm_num

/-- completing the square -/
theorem quad_complete (A B C t : ℝ) (hA : A ≠ 0) :
    A * t^2 + B * t + C = A * ((t + B / (2 * A))^2 - (B * B / (4 * A * A) - C / A)) := by
  field_simp
  ring

/-- quadratic case |A| ≥ thr: no real root / double root (res ≤ 0) and two roots (res > 0), roots clamped -/
theorem integrate_abs_quadratic (thr t0 t1 A B C : ℝ) (hthr : 0 < thr) (h01 : t0 ≤ t1) (hA : thr ≤ |A|) :
    Poly.integrateAbs thr t0 t1 A B C = ∫ t in t0..t1, |A * t^2 + B * t + C| := by
  have hA0 : A ≠ 0 := fun h => by rw [h, abs_zero] at hA; linarith
  by_cases hres : 0 < B * B / (4 * A * A) - C / A
  · rw [integrateAbs_ss (mids_quad_pos hA hres)]
    have hq : Real.sqrt (B * B / (4 * A * A) - C / A) ^ 2 = B * B / (4 * A * A) - C / A :=
      Real.sq_sqrt hres.le
    refine (abs_integral_two_roots (fun t => A * t^2 + B * t + C) (fun u => Poly.integ A B C u)
      (poly_continuous A B C) (integ_hasDerivAt A B C) A _ _ h01 ?_ (fun t => ?_)).symm
    · linarith [Real.sqrt_nonneg (B * B / (4 * A * A) - C / A)]
    · show A * t^2 + B * t + C = A * (t - (-B / (2 * A) - Real.sqrt (B * B / (4 * A * A) - C / A)))
          * (t - (-B / (2 * A) + Real.sqrt (B * B / (4 * A * A) - C / A)))
      have key := quad_complete A B C t hA0
      linear_combination key + A * hq
  · rw [integrateAbs_nn (mids_quad_neg hA hres)]
    obtain ⟨s, hs, hsA⟩ := exists_sign A
    refine (abs_integral_one_sign (fun t => A * t^2 + B * t + C) (fun u => Poly.integ A B C u)
      (poly_continuous A B C) (integ_hasDerivAt A B C) s hs h01 (fun t => ?_)).symm
    show 0 ≤ s * (A * t^2 + B * t + C)
    rw [quad_complete A B C t hA0, ← mul_assoc]
    exact mul_nonneg hsA (by linarith [sq_nonneg (t + B / (2 * A)), not_lt.1 hres])

example : (0:ℝ) < 1/1000000000 ∧ (-1:ℝ) ≤ 1 ∧ (1/1000000000 : ℝ) ≤ |(2:ℝ)| := by norm_num

/-- COMBINED: outside the threshold bands the model returns `∫ |A t² + B t + C|` -/
theorem integrate_absolute_polynomial_spec (thr t0 t1 A B C : ℝ) (hthr : 0 < thr) (h01 : t0 ≤ t1)
    (h : thr ≤ |A| ∨ (A = 0 ∧ (thr < |B| ∨ B = 0))) :
    Poly.integrateAbs thr t0 t1 A B C = ∫ t in t0..t1, |A * t^2 + B * t + C| := by
  rcases h with h | ⟨rfl, h | rfl⟩
  · exact integrate_abs_quadratic thr t0 t1 A B C hthr h01 h
  · exact integrate_abs_linear thr t0 t1 B C hthr h01 h
  · exact integrate_abs_const thr t0 t1 C hthr h01

example : (1/1000000000 : ℝ) ≤ |(-3:ℝ)| ∨ ((-3:ℝ) = 0 ∧ ((1/1000000000 : ℝ) < |(0:ℝ)| ∨ (0:ℝ) = 0)) :=
  Or.inl (by norm_num)
example : (1/1000000000 : ℝ) ≤ |(0:ℝ)| ∨ ((0:ℝ) = 0 ∧ ((1/1000000000 : ℝ) < |(5:ℝ)| ∨ (5:ℝ) = 0)) :=
  Or.inr ⟨rfl, Or.inl (by norm_num)⟩

/-! ### |A| = thr exactly

  Up to commit 863c150 of /repo the C++ tested `abs(A) < 1e-9` and `abs(A) > 1e-9`, so `|A| = 1e-9`
  matched neither branch and the function returned `|∫ p|` instead of `∫ |p|` (found by the C20 audit,
  fixed by `>=`).  With the fixed comparison the point `|A| = thr` belongs to the quadratic branch: -/

theorem integrate_abs_at_threshold (thr t0 t1 A B C : ℝ) (hthr : 0 < thr) (h01 : t0 ≤ t1) (hA : |A| = thr) :
    Poly.integrateAbs thr t0 t1 A B C = ∫ t in t0..t1, |A * t^2 + B * t + C| :=
  integrate_abs_quadratic thr t0 t1 A B C hthr h01 hA.ge

example : (0:ℝ) < 1/1000000000 ∧ (-1:ℝ) ≤ 1 ∧ |(-(1/1000000000) : ℝ)| = 1/1000000000 := by
  refine ⟨by norm_num, by norm_num, ?_⟩
  rw [abs_neg, abs_of_pos] <;> norm_num

/-! ### inside the band |A| < thr < |B|: the quadratic term is ignored when locating the sign change -/

theorem cube_mono {u v : ℝ} (h : u ≤ v) : u^3 ≤ v^3 := by
  nlinarith [mul_nonneg (sub_nonneg.2 h) (sq_nonneg (v + u/2)), mul_nonneg (sub_nonneg.2 h) (sq_nonneg u)]

/-- THRESHOLD BAND: for `|A| < thr < |B|` the C++ treats the polynomial as linear when locating the sign
    change (but keeps `A` in the antiderivative); the error is at most `2 |A| ∫ t²` -/
theorem threshold_band_error (thr t0 t1 A B C : ℝ) (h01 : t0 ≤ t1) (hA : |A| < thr) (hB : thr < |B|) :
    |Poly.integrateAbs thr t0 t1 A B C - (∫ t in t0..t1, |A * t^2 + B * t + C|)|
      ≤ 2 * |A| * ∫ t in t0..t1, t^2 := by
  have hB0 : B ≠ 0 := fun h => by
    rw [h, abs_zero] at hB; linarith [abs_nonneg A]
  rw [integrateAbs_sn (mids_linear hA hB), clamp_idem _ _ _ h01]
  obtain ⟨hm0, hm1⟩ := clamp_mem (-C / B) t0 t1 h01
  have hq : ∫ t in t0..t1, |(0:ℝ) * t^2 + B * t + C|
      = |Poly.integ 0 B C t1 - Poly.integ 0 B C t0 + 2 * Poly.integ 0 B C (Poly.clamp (-C / B) t0 t1)
          - 2 * Poly.integ 0 B C t1| := by
    refine abs_integral_one_root (fun t => (0:ℝ) * t^2 + B * t + C) (fun u => Poly.integ 0 B C u)
      (poly_continuous 0 B C) (integ_hasDerivAt 0 B C) B (-C / B) h01 (fun t => ?_)
    show (0:ℝ) * t^2 + B * t + C = B * (t - -C / B)
    field_simp
    ring
  generalize Poly.clamp (-C / B) t0 t1 = m at hm0 hm1 hq ⊢
  have hK : ∫ t in t0..t1, t^2 = (t1^3 - t0^3) / 3 := by
    rw [integral_pow]; norm_num
  -- the value returned by the code vs. the value for the linear part
  have hX : Poly.integ A B C t1 - Poly.integ A B C t0 + 2 * Poly.integ A B C m - 2 * Poly.integ A B C t1
      = (Poly.integ 0 B C t1 - Poly.integ 0 B C t0 + 2 * Poly.integ 0 B C m - 2 * Poly.integ 0 B C t1)
        + A * ((m^3 - t0^3) / 3 - (t1^3 - m^3) / 3) := by
    simp only [integ_real]; ring
  have hY : |(m^3 - t0^3) / 3 - (t1^3 - m^3) / 3| ≤ (t1^3 - t0^3) / 3 := by
    rw [abs_le]; constructor <;> linarith [cube_mono hm0, cube_mono hm1]
  have side1 : |(|Poly.integ A B C t1 - Poly.integ A B C t0 + 2 * Poly.integ A B C m
        - 2 * Poly.integ A B C t1|) - (∫ t in t0..t1, |(0:ℝ) * t^2 + B * t + C|)|
      ≤ |A| * ((t1^3 - t0^3) / 3) := by
    rw [hq]
    refine (abs_abs_sub_abs_le_abs_sub _ _).trans ?_
    rw [hX, add_sub_cancel_left, abs_mul]
    exact mul_le_mul_of_nonneg_left hY (abs_nonneg _)
  -- the true integral vs. the integral of the linear part
  have hpq : ∀ t : ℝ, |A * t^2 + B * t + C| ≤ |(0:ℝ) * t^2 + B * t + C| + |A| * t^2 := by
    intro t
    have e : A * t^2 + B * t + C = ((0:ℝ) * t^2 + B * t + C) + A * t^2 := by ring
    have e2 : |A * t^2| = |A| * t^2 := by rw [abs_mul, abs_of_nonneg (sq_nonneg t)]
    calc |A * t^2 + B * t + C| = |((0:ℝ) * t^2 + B * t + C) + A * t^2| := by rw [← e]
      _ ≤ |(0:ℝ) * t^2 + B * t + C| + |A * t^2| := abs_add_le _ _
      _ = _ := by rw [e2]
  have hqp : ∀ t : ℝ, |(0:ℝ) * t^2 + B * t + C| ≤ |A * t^2 + B * t + C| + |A| * t^2 := by
    intro t
    have e : (0:ℝ) * t^2 + B * t + C = (A * t^2 + B * t + C) + -(A * t^2) := by ring
    have e2 : |-(A * t^2)| = |A| * t^2 := by rw [abs_neg, abs_mul, abs_of_nonneg (sq_nonneg t)]
    calc |(0:ℝ) * t^2 + B * t + C| = |(A * t^2 + B * t + C) + -(A * t^2)| := by rw [← e]
      _ ≤ |A * t^2 + B * t + C| + |-(A * t^2)| := abs_add_le _ _
      _ = _ := by rw [e2]
  have hintp : IntervalIntegrable (fun t : ℝ => |A * t^2 + B * t + C|) volume t0 t1 :=
    (continuous_abs.comp (poly_continuous A B C)).intervalIntegrable _ _
  have hintq : IntervalIntegrable (fun t : ℝ => |(0:ℝ) * t^2 + B * t + C|) volume t0 t1 :=
    (continuous_abs.comp (poly_continuous 0 B C)).intervalIntegrable _ _
  have hintk : IntervalIntegrable (fun t : ℝ => |A| * t^2) volume t0 t1 :=
    (by fun_prop : Continuous fun t : ℝ => |A| * t^2).intervalIntegrable _ _
  have i1 : ∫ t in t0..t1, |A * t^2 + B * t + C|
      ≤ (∫ t in t0..t1, |(0:ℝ) * t^2 + B * t + C|) + |A| * ((t1^3 - t0^3) / 3) := by
    have := intervalIntegral.integral_mono_on h01 hintp (hintq.add hintk) (fun t _ => hpq t)
    rwa [intervalIntegral.integral_add hintq hintk, intervalIntegral.integral_const_mul, hK] at this
  have i2 : ∫ t in t0..t1, |(0:ℝ) * t^2 + B * t + C|
      ≤ (∫ t in t0..t1, |A * t^2 + B * t + C|) + |A| * ((t1^3 - t0^3) / 3) := by
    have := intervalIntegral.integral_mono_on h01 hintq (hintp.add hintk) (fun t _ => hqp t)
    rwa [intervalIntegral.integral_add hintp hintk, intervalIntegral.integral_const_mul, hK] at this
  rw [hK]
  obtain ⟨s1, s2⟩ := abs_le.1 side1
  rw [abs_le]
  constructor <;> linarith

example : |(1/2000000000 : ℝ)| < 1/1000000000 ∧ (1/1000000000 : ℝ) < |(1:ℝ)| ∧ (-1:ℝ) ≤ 1 := by
  refine ⟨?_, ?_, ?_⟩ <;> norm_num [abs_of_pos]

end C20I
