/-
  C06Prod.lean — the binary direct product `Bundle.prod A B`: unfolding lemmas for every field
  (over any `[Scalar α]`), and the Hessian placement `hessPlace` (the two summands of
  `prodD2rExp` have disjoint supports; over ℝ the sum collapses to the placed entry).
-/
import SmoothProofs.C06Base

open Lin Scalar
set_option linter.unusedSectionVars false

namespace C06
variable {α : Type} [Scalar α]

/-! ### `hessPlace`: inside / outside the placed block -/

/-- the three indices (row, outer column `C / D`, inner column `C % D`) lie in the block
    `[off, off + d)` -/
def InBlock (D off d : Nat) (R : Fin D) (C : Fin (D * D)) : Prop :=
  off ≤ R.val ∧ R.val < off + d ∧ off ≤ C.val / D ∧ C.val / D < off + d ∧ off ≤ C.val % D ∧ C.val % D < off + d

instance (D off d : Nat) (R : Fin D) (C : Fin (D * D)) : Decidable (InBlock D off d R C) := by
  unfold InBlock; infer_instance

theorem hessPlace_col_lt {d J K off : Nat} (hJ : J < off + d) (hK : K < off + d) (hJ0 : off ≤ J) (hK0 : off ≤ K) :
    (J - off) * d + (K - off) < d * d := by
  have h1 : J - off < d := by omega
  have h2 : K - off < d := by omega
  calc (J - off) * d + (K - off) < (J - off) * d + d := by omega
    _ = (J - off + 1) * d := by rw [Nat.add_mul, Nat.one_mul]
    _ ≤ d * d := Nat.mul_le_mul_right d h1

theorem hessPlace_in {d : Nat} (D off : Nat) (Hi : Mat α d (d * d)) (R : Fin D) (C : Fin (D * D))
    (h : InBlock D off d R C) :
    Bundle.hessPlace D off Hi R C =
      Hi ⟨R.val - off, by have := h.1; have := h.2.1; omega⟩
        ⟨(C.val / D - off) * d + (C.val % D - off), hessPlace_col_lt h.2.2.2.1 h.2.2.2.2.2 h.2.2.1 h.2.2.2.2.1⟩ := by
  unfold Bundle.hessPlace
  exact dif_pos h

theorem hessPlace_out {d : Nat} (D off : Nat) (Hi : Mat α d (d * d)) (R : Fin D) (C : Fin (D * D))
    (h : ¬ InBlock D off d R C) : Bundle.hessPlace D off Hi R C = nat 0 := by
  unfold Bundle.hessPlace
  exact dif_neg h

/-- column index `D·J + K` (with `K < D`) splits back into `J` and `K` -/
theorem col_div {D J K : Nat} (hK : K < D) : (D * J + K) / D = J := by
  have hD : 0 < D := by omega
  rw [Nat.add_comm, Nat.add_mul_div_left _ _ hD, Nat.div_eq_of_lt hK, Nat.zero_add]

theorem col_mod {D J K : Nat} (hK : K < D) : (D * J + K) % D = K := by
  rw [Nat.add_comm, Nat.add_mul_mod_self_left, Nat.mod_eq_of_lt hK]

theorem col_lt {D J K : Nat} (hJ : J < D) (hK : K < D) : D * J + K < D * D := by
  calc D * J + K < D * J + D := by omega
    _ = D * (J + 1) := by rw [Nat.mul_add, Nat.mul_one]
    _ ≤ D * D := Nat.mul_le_mul_left D hJ

/-! ### unfolding the fields of `Bundle.prod` -/
section prod
variable (A B : LieModel α)

theorem prod_identity : (Bundle.prod A B).identity = vcat A.identity B.identity := rfl
theorem prod_composition (a b : Vec α (A.rep + B.rep)) :
    (Bundle.prod A B).composition a b =
      vcat (A.composition (Bundle.fst a) (Bundle.fst b)) (B.composition (Bundle.snd a) (Bundle.snd b)) := rfl
theorem prod_inverse (g : Vec α (A.rep + B.rep)) :
    (Bundle.prod A B).inverse g = vcat (A.inverse (Bundle.fst g)) (B.inverse (Bundle.snd g)) := rfl
theorem prod_log (g : Vec α (A.rep + B.rep)) :
    (Bundle.prod A B).log g = vcat (A.log (Bundle.fst g)) (B.log (Bundle.snd g)) := rfl
theorem prod_exp (a : Vec α (A.dof + B.dof)) :
    (Bundle.prod A B).exp a = vcat (A.exp (Bundle.fst a)) (B.exp (Bundle.snd a)) := rfl
theorem prod_matrix (g : Vec α (A.rep + B.rep)) :
    (Bundle.prod A B).matrix g = Bundle.bdiag (A.matrix (Bundle.fst g)) (B.matrix (Bundle.snd g)) := rfl
theorem prod_hat (a : Vec α (A.dof + B.dof)) :
    (Bundle.prod A B).hat a = Bundle.bdiag (A.hat (Bundle.fst a)) (B.hat (Bundle.snd a)) := rfl
theorem prod_vee (M : Mat α (A.dim + B.dim) (A.dim + B.dim)) :
    (Bundle.prod A B).vee M = vcat (A.vee (Bundle.tl M)) (B.vee (Bundle.br M)) := rfl
theorem prod_Ad (g : Vec α (A.rep + B.rep)) :
    (Bundle.prod A B).Ad g = Bundle.bdiag (A.Ad (Bundle.fst g)) (B.Ad (Bundle.snd g)) := rfl
theorem prod_ad (a : Vec α (A.dof + B.dof)) :
    (Bundle.prod A B).ad a = Bundle.bdiag (A.ad (Bundle.fst a)) (B.ad (Bundle.snd a)) := rfl
theorem prod_dr_exp (a : Vec α (A.dof + B.dof)) :
    (Bundle.prod A B).dr_exp a = Bundle.bdiag (A.dr_exp (Bundle.fst a)) (B.dr_exp (Bundle.snd a)) := rfl
theorem prod_dr_expinv (a : Vec α (A.dof + B.dof)) :
    (Bundle.prod A B).dr_expinv a = Bundle.bdiag (A.dr_expinv (Bundle.fst a)) (B.dr_expinv (Bundle.snd a)) := rfl

/-- `d2r_exp` of a product, entrywise: rows below `A.dof` carry `A`'s Hessian placed at block start `0`, the others `B`'s
    placed at block start `A.dof` (the `memoM` wrappers of the executable model are the identity); any `[Scalar α]` -/
theorem prod_d2r_exp_ite (a : Vec α (A.dof + B.dof)) (R : Fin (A.dof + B.dof))
    (C : Fin ((A.dof + B.dof) * (A.dof + B.dof))) :
    (Bundle.prod A B).d2r_exp a R C =
      if R.val < A.dof then Bundle.hessPlace (A.dof + B.dof) 0 (A.d2r_exp (Bundle.fst a)) R C
      else Bundle.hessPlace (A.dof + B.dof) A.dof (B.d2r_exp (Bundle.snd a)) R C := by
  show (Bundle.prodD2rExp A B a) R C = _
  simp only [Bundle.prodD2rExp, memoM_eq, Mat.of_get]

theorem prod_d2r_expinv_ite (a : Vec α (A.dof + B.dof)) (R : Fin (A.dof + B.dof))
    (C : Fin ((A.dof + B.dof) * (A.dof + B.dof))) :
    (Bundle.prod A B).d2r_expinv a R C =
      if R.val < A.dof then Bundle.hessPlace (A.dof + B.dof) 0 (A.d2r_expinv (Bundle.fst a)) R C
      else Bundle.hessPlace (A.dof + B.dof) A.dof (B.d2r_expinv (Bundle.snd a)) R C := by
  show (Bundle.prodD2rExpinv A B a) R C = _
  simp only [Bundle.prodD2rExpinv, memoM_eq, Mat.of_get]

/-- the row decides which placement can be non-zero: if the two zero laws hold, the entry is also the SUM of the two
    placements (the form the ℝ-theorems below and C19 work with) -/
theorem ite_eq_placeSum (h1 : ∀ x : α, x + nat 0 = x) (h2 : ∀ x : α, nat 0 + x = x) {dA dB : Nat}
    (HA : Mat α dA (dA * dA)) (HB : Mat α dB (dB * dB)) (R : Fin (dA + dB)) (C : Fin ((dA + dB) * (dA + dB))) :
    (if R.val < dA then Bundle.hessPlace (dA + dB) 0 HA R C else Bundle.hessPlace (dA + dB) dA HB R C)
      = Bundle.hessPlace (dA + dB) 0 HA R C + Bundle.hessPlace (dA + dB) dA HB R C := by
  by_cases h : R.val < dA
  · rw [if_pos h, hessPlace_out (dA + dB) dA HB R C (fun hb => by have := hb.1; omega), h1]
  · rw [if_neg h, hessPlace_out (dA + dB) 0 HA R C (fun hb => by have := hb.2.1; omega), h2]

end prod

/-! ### the sum of two placements with disjoint blocks, over ℝ -/

/-- over ℝ the entry of the product Hessian is the sum of the two placements -/
theorem prod_d2r_exp_apply (A B : LieModel ℝ) (a : Vec ℝ (A.dof + B.dof)) (R : Fin (A.dof + B.dof))
    (C : Fin ((A.dof + B.dof) * (A.dof + B.dof))) :
    (Bundle.prod A B).d2r_exp a R C =
      Bundle.hessPlace (A.dof + B.dof) 0 (A.d2r_exp (Bundle.fst a)) R C +
      Bundle.hessPlace (A.dof + B.dof) A.dof (B.d2r_exp (Bundle.snd a)) R C := by
  rw [prod_d2r_exp_ite]
  exact ite_eq_placeSum (fun x => by simp) (fun x => by simp) _ _ R C

theorem prod_d2r_expinv_apply (A B : LieModel ℝ) (a : Vec ℝ (A.dof + B.dof)) (R : Fin (A.dof + B.dof))
    (C : Fin ((A.dof + B.dof) * (A.dof + B.dof))) :
    (Bundle.prod A B).d2r_expinv a R C =
      Bundle.hessPlace (A.dof + B.dof) 0 (A.d2r_expinv (Bundle.fst a)) R C +
      Bundle.hessPlace (A.dof + B.dof) A.dof (B.d2r_expinv (Bundle.snd a)) R C := by
  rw [prod_d2r_expinv_ite]
  exact ite_eq_placeSum (fun x => by simp) (fun x => by simp) _ _ R C

/-- two blocks `[0,dA)` and `[dA, dA+dB)` cannot both contain the index triple -/
theorem inBlock_disjoint {dA dB : Nat} (R : Fin (dA + dB)) (C : Fin ((dA + dB) * (dA + dB)))
    (h1 : InBlock (dA + dB) 0 dA R C) (h2 : InBlock (dA + dB) dA dB R C) : False := by
  have := h1.2.1; have := h2.1; omega

/-- `placeSum`: the entry of the sum of the two placements (the form `prodD2rExp` computes), ℝ -/
theorem placeSum_fst {dA dB : Nat} (HA : Mat ℝ dA (dA * dA)) (HB : Mat ℝ dB (dB * dB))
    (R : Fin (dA + dB)) (C : Fin ((dA + dB) * (dA + dB))) (h : InBlock (dA + dB) 0 dA R C) :
    Bundle.hessPlace (dA + dB) 0 HA R C + Bundle.hessPlace (dA + dB) dA HB R C =
      Bundle.hessPlace (dA + dB) 0 HA R C := by
  rw [hessPlace_out (dA + dB) dA HB R C (fun h2 => inBlock_disjoint R C h h2)]
  simp

theorem placeSum_snd {dA dB : Nat} (HA : Mat ℝ dA (dA * dA)) (HB : Mat ℝ dB (dB * dB))
    (R : Fin (dA + dB)) (C : Fin ((dA + dB) * (dA + dB))) (h : ¬ InBlock (dA + dB) 0 dA R C) :
    Bundle.hessPlace (dA + dB) 0 HA R C + Bundle.hessPlace (dA + dB) dA HB R C =
      Bundle.hessPlace (dA + dB) dA HB R C := by
  rw [hessPlace_out (dA + dB) 0 HA R C h]
  simp

end C06
