/-
  C19Hess.lean — the values written by `d2r_exp_sparse` / `d2r_expinv_sparse` for every descriptor:
  each `coeffRef(i0 + r, rows·(i0 + c / n) + i0 + c % n) = v` has `(r, c)` in the published
  `d2_exp_sparse_pattern` (`n = Dof`) and `v` = the dense model Hessian at `(r, c)` of the WHOLE
  descriptor; every pattern entry is written; no position is written twice when
  `i0 + Dof ≤ sp.rows()` (the routine's own assertion).  Induction over the descriptor, Bundles by
  the placement `H[off+r, D(off+j)+off+k] = Hᵢ[r, d·j+k]` of `Bundle.prod`.

  The dense Bundle Hessian of the model is the SUM of the placed part Hessians (one summand is the
  literal zero); over a law-less `Scalar` the value is therefore `x + 0` resp. `0 + x`: the two laws
  `x + 0 = x`, `0 + x = x` are explicit hypotheses (`ZeroLaws`, true for ℝ and ℚ).
-/
import SmoothProofs.C19Bundle
import SmoothProofs.Real

open Lin Scalar Mem

namespace Sparse

section
variable {α : Type} [Scalar α]

/-- the dense Hessian selected by the `Inv` template flag -/
def selH (inv : Bool) (M : LieModel α) (v : Vec α M.dof) : Mat α M.dof (M.dof * M.dof) :=
  if inv then M.d2r_expinv v else M.d2r_exp v

/-- `x + 0 = x` and `0 + x = x` for the literal zero of the scalar type -/
def ZeroLaws (α : Type) [Scalar α] : Prop := (∀ x : α, x + nat 0 = x) ∧ (∀ x : α, nat 0 + x = x)

/-! ### index arithmetic of the placement -/

theorem place_divmod (J K D : Nat) (hK : K < D) : (J * D + K) / D = J ∧ (J * D + K) % D = K := by
  have hD : 0 < D := by omega
  constructor
  · rw [Nat.add_comm, Nat.add_mul_div_right _ _ hD, Nat.div_eq_of_lt hK, Nat.zero_add]
  · rw [Nat.add_comm, Nat.add_mul_mod_self_right, Nat.mod_eq_of_lt hK]

theorem place_lt (J K n : Nat) (hJ : J < n) (hK : K < n) : J * n + K < n * n := by
  calc J * n + K < J * n + n := by omega
    _ = (J + 1) * n := by rw [Nat.add_mul, Nat.one_mul]
    _ ≤ n * n := Nat.mul_le_mul_right n hJ

theorem split_lt (c n : Nat) (hn : 0 < n) (hc : c < n * n) : c / n < n ∧ c % n < n ∧ c / n * n + c % n = c :=
  ⟨Nat.div_lt_of_lt_mul hc, Nat.mod_lt _ hn, Nat.div_add_mod' c n⟩

/-- entries of the Bundle Hessian placement (generic scalar) -/
theorem hessPlace_eq' {d : Nat} (D off : Nat) (Hi : Mat α d (d * d)) (R : Fin D) (C : Fin (D * D)) :
    Bundle.hessPlace D off Hi R C
      = if off ≤ R.val ∧ R.val < off + d ∧ off ≤ C.val / D ∧ C.val / D < off + d ∧ off ≤ C.val % D ∧ C.val % D < off + d
        then getN Hi (R.val - off) ((C.val / D - off) * d + (C.val % D - off)) else nat 0 := by
  unfold Bundle.hessPlace
  simp only
  split
  · rename_i h
    have h1 : R.val - off < d := by omega
    have h2 : (C.val / D - off) * d + (C.val % D - off) < d * d := place_lt _ _ _ (by omega) (by omega)
    rw [getN_eq' _ _ _ h1 h2]
  · rfl

theorem selH_prod_entry (hz : ZeroLaws α) (inv : Bool) (A B : LieModel α) (v : Vec α (A.dof + B.dof)) (R : Fin (A.dof + B.dof))
    (C : Fin ((A.dof + B.dof) * (A.dof + B.dof))) :
    selH inv (Bundle.prod A B) v R C
      = Bundle.hessPlace (A.dof + B.dof) 0 (selH inv A (Bundle.fst v)) R C
        + Bundle.hessPlace (A.dof + B.dof) A.dof (selH inv B (Bundle.snd v)) R C := by
  -- the model takes ONE of the two placements according to the row (bundle.hpp writes blocks into a zeroed matrix);
  -- with the zero laws that is their sum
  have key : ∀ (HA : Mat α A.dof (A.dof * A.dof)) (HB : Mat α B.dof (B.dof * B.dof)),
      (if R.val < A.dof then Bundle.hessPlace (A.dof + B.dof) 0 HA R C else Bundle.hessPlace (A.dof + B.dof) A.dof HB R C)
        = Bundle.hessPlace (A.dof + B.dof) 0 HA R C + Bundle.hessPlace (A.dof + B.dof) A.dof HB R C := by
    intro HA HB
    rw [hessPlace_eq', hessPlace_eq']
    by_cases h : R.val < A.dof
    · rw [if_pos h, if_neg (by omega : ¬ (A.dof ≤ R.val ∧ _)), hz.1]
    · rw [if_neg h, if_neg (by omega : ¬ (0 ≤ R.val ∧ R.val < 0 + A.dof ∧ _)), hz.2]
  cases inv
  · show Bundle.prodD2rExp A B v R C = _
    simp only [Bundle.prodD2rExp, memoM_eq, Mat.of, selH]
    exact key _ _
  · show Bundle.prodD2rExpinv A B v R C = _
    simp only [Bundle.prodD2rExpinv, memoM_eq, Mat.of, selH]
    exact key _ _

/-- **the Hessian of a product at the placed indices is the part Hessian** (top-left part at
    `(r, J·D + K)`, `J, K < d_A`; second part at `(d_A + r, (d_A + J)·D + d_A + K)`) -/
theorem prod_hess_values' (hz : ZeroLaws α) (inv : Bool) (A B : LieModel α) (v : Vec α (A.dof + B.dof)) :
    (∀ r J K, r < A.dof → J < A.dof → K < A.dof →
      getN (selH inv (Bundle.prod A B) v) r (J * (A.dof + B.dof) + K)
        = getN (selH inv A (Bundle.fst v)) r (J * A.dof + K))
    ∧ (∀ r J K, r < B.dof → J < B.dof → K < B.dof →
      getN (selH inv (Bundle.prod A B) v) (A.dof + r) ((A.dof + J) * (A.dof + B.dof) + (A.dof + K))
        = getN (selH inv B (Bundle.snd v)) r (J * B.dof + K)) := by
  constructor
  · intro r J K hr hJ hK
    have hr' : r < A.dof + B.dof := by omega
    have hc' : J * (A.dof + B.dof) + K < (A.dof + B.dof) * (A.dof + B.dof) := place_lt _ _ _ (by omega) (by omega)
    obtain ⟨hdiv, hmod⟩ := place_divmod J K (A.dof + B.dof) (by omega)
    have e : getN (selH inv (Bundle.prod A B) v) r (J * (A.dof + B.dof) + K)
        = selH inv (Bundle.prod A B) v ⟨r, hr'⟩ ⟨J * (A.dof + B.dof) + K, hc'⟩ := getN_eq' _ _ _ hr' hc'
    rw [e]
    refine (selH_prod_entry hz inv A B v ⟨r, hr'⟩ ⟨_, hc'⟩).trans ?_
    rw [hessPlace_eq', hessPlace_eq']
    simp only [hdiv, hmod]
    rw [if_pos ⟨Nat.zero_le _, by omega, Nat.zero_le _, by omega, Nat.zero_le _, by omega⟩,
      if_neg (by omega), hz.1]
    simp only [Nat.sub_zero]
  · intro r J K hr hJ hK
    have hr' : A.dof + r < A.dof + B.dof := by omega
    have hc' : (A.dof + J) * (A.dof + B.dof) + (A.dof + K) < (A.dof + B.dof) * (A.dof + B.dof) :=
      place_lt _ _ _ (by omega) (by omega)
    obtain ⟨hdiv, hmod⟩ := place_divmod (A.dof + J) (A.dof + K) (A.dof + B.dof) (by omega)
    have e : getN (selH inv (Bundle.prod A B) v) (A.dof + r) ((A.dof + J) * (A.dof + B.dof) + (A.dof + K))
        = selH inv (Bundle.prod A B) v ⟨A.dof + r, hr'⟩ ⟨(A.dof + J) * (A.dof + B.dof) + (A.dof + K), hc'⟩ :=
      getN_eq' _ _ _ hr' hc'
    rw [e]
    refine (selH_prod_entry hz inv A B v ⟨A.dof + r, hr'⟩ ⟨_, hc'⟩).trans ?_
    rw [hessPlace_eq', hessPlace_eq']
    simp only [hdiv, hmod]
    rw [if_neg (by omega), if_pos ⟨by omega, by omega, by omega, by omega, by omega, by omega⟩, hz.2]
    simp only [Nat.add_sub_cancel_left]

/-- the same with the sizes as separate numerals (so that they can be rewritten) and the tangent
    segments read from the array, as the C++ passes them -/
theorem prod_hess_values (hz : ZeroLaws α) (inv : Bool) (A B : LieModel α) (a : Array α) (ao : Nat) :
    (∀ dA dB, dA = A.dof → dB = B.dof → ∀ r J K, r < dA → J < dA → K < dA →
      getN (selH inv (Bundle.prod A B) (ofArray (A.dof + B.dof) a ao)) r (J * (dA + dB) + K)
        = getN (selH inv A (ofArray A.dof a ao)) r (J * dA + K))
    ∧ (∀ dA dB, dA = A.dof → dB = B.dof → ∀ r J K, r < dB → J < dB → K < dB →
      getN (selH inv (Bundle.prod A B) (ofArray (A.dof + B.dof) a ao)) (dA + r) ((dA + J) * (dA + dB) + (dA + K))
        = getN (selH inv B (ofArray B.dof a (ao + dA))) r (J * dB + K)) := by
  have h := prod_hess_values' hz inv A B (ofArray (A.dof + B.dof) a ao)
  rw [fst_ofArray, snd_ofArray] at h
  constructor
  · intro dA dB hA hB r J K hr hJ hK
    subst hA; subst hB
    exact h.1 r J K hr hJ hK
  · intro dA dB hA hB r J K hr hJ hK
    subst hA; subst hB
    exact h.2 r J K hr hJ hK

/-! ### what a Hessian write carries -/

/-- a shifted pattern entry `(i0 + r, rows·(i0 + c / n) + i0 + c % n)` with the dense value there -/
def HasValue2 (n rows i0 : Nat) (p : Nat → Nat → Bool) (H : Nat → Nat → α) (w : Nat × Nat × α) : Prop :=
  ∃ r c, r < n ∧ c < n * n ∧ p r c = true ∧ w.1 = i0 + r ∧ w.2.1 = rows * (i0 + c / n) + (i0 + c % n) ∧ w.2.2 = H r c

theorem denseWrites2_hasValue (d : GDesc) (inv : Bool) (rows : Nat) (a : Array α) (ao i0 : Nat)
    (w : Nat × Nat × α) (hw : w ∈ denseWrites2 d inv rows a ao i0) :
    HasValue2 (dofSize d) rows i0 (inD2 d) (getN (selH inv (GDesc.model d) (ofArray _ a ao))) w := by
  simp only [denseWrites2, List.mem_map] at hw
  obtain ⟨k, hk, rfl⟩ := hw
  have := (mem_gridFilter _ _ _ k.1 k.2).1 (by simpa [d2Pattern] using hk)
  refine ⟨k.1, k.2, this.1, this.2.1, this.2.2, rfl, rfl, ?_⟩
  simp only [memoM_eq, memoV_eq, selH]

/-- the step of the induction: a write of the FIRST part, seen inside `p :: ps` -/
theorem hasValue2_first (hz : ZeroLaws α) (inv : Bool) (p : GDesc) (ps : List GDesc) (rows : Nat) (a : Array α)
    (ao i0 : Nat) (w : Nat × Nat × α)
    (h : HasValue2 (dofSize p) rows i0 (inD2 p) (getN (selH inv (GDesc.model p) (ofArray _ a ao))) w) :
    HasValue2 (dofSizeL (p :: ps)) rows i0 (inD2L (p :: ps))
      (getN (selH inv (Bundle.bundle (GDesc.models (p :: ps))) (ofArray _ a ao))) w := by
  have hd : (GDesc.model (α := α) p).dof = dofSize p := model_dof p
  have hdL : (Bundle.bundle (GDesc.models (α := α) ps)).dof = dofSizeL ps := models_dof ps
  obtain ⟨r, c, hr, hc, hp, e1, e2, e3⟩ := h
  obtain ⟨hJ, hK, hsplit⟩ := split_lt c (dofSize p) (by omega) hc
  generalize c / dofSize p = J at hJ hsplit e2
  generalize c % dofSize p = K at hK hsplit e2
  obtain ⟨hdiv, hmod⟩ := place_divmod J K (dofSize p + dofSizeL ps) (by omega)
  refine ⟨r, J * (dofSize p + dofSizeL ps) + K, by simp only [dofSizeL]; omega,
    by simp only [dofSizeL]; exact place_lt _ _ _ (by omega) (by omega), ?_, e1, ?_, ?_⟩
  · simp only [inD2L, hdiv, hmod, hr, hJ, hK, hsplit, hp, ↓reduceIte, decide_true, Bool.and_self]
  · simp only [dofSizeL, hdiv, hmod]; exact e2
  · rw [e3, ← hsplit]
    exact ((prod_hess_values hz inv (GDesc.model (α := α) p) (Bundle.bundle (GDesc.models ps)) a ao).1
      (dofSize p) (dofSizeL ps) hd.symm hdL.symm r J K hr hJ hK).symm

/-- a write of the REMAINING parts (offsets `ao + d`, `i0 + d`), seen inside `p :: ps` -/
theorem hasValue2_rest (hz : ZeroLaws α) (inv : Bool) (p : GDesc) (ps : List GDesc) (rows : Nat) (a : Array α)
    (ao i0 : Nat) (w : Nat × Nat × α)
    (h : HasValue2 (dofSizeL ps) rows (i0 + dofSize p) (inD2L ps)
      (getN (selH inv (Bundle.bundle (GDesc.models ps)) (ofArray _ a (ao + dofSize p)))) w) :
    HasValue2 (dofSizeL (p :: ps)) rows i0 (inD2L (p :: ps))
      (getN (selH inv (Bundle.bundle (GDesc.models (p :: ps))) (ofArray _ a ao))) w := by
  have hd : (GDesc.model (α := α) p).dof = dofSize p := model_dof p
  have hdL : (Bundle.bundle (GDesc.models (α := α) ps)).dof = dofSizeL ps := models_dof ps
  obtain ⟨r, c, hr, hc, hp, e1, e2, e3⟩ := h
  obtain ⟨hJ, hK, hsplit⟩ := split_lt c (dofSizeL ps) (by omega) hc
  generalize c / dofSizeL ps = J at hJ hsplit e2
  generalize c % dofSizeL ps = K at hK hsplit e2
  obtain ⟨hdiv, hmod⟩ := place_divmod (dofSize p + J) (dofSize p + K) (dofSize p + dofSizeL ps) (by omega)
  refine ⟨dofSize p + r, (dofSize p + J) * (dofSize p + dofSizeL ps) + (dofSize p + K), by simp only [dofSizeL]; omega,
    by simp only [dofSizeL]; exact place_lt _ _ _ (by omega) (by omega), ?_, by omega, ?_, ?_⟩
  · have h1 : ¬ (dofSize p + r < dofSize p) := by omega
    simp only [inD2L, hdiv, hmod, h1, ↓reduceIte, Nat.le_add_right, decide_true, Bool.true_and,
      Nat.add_sub_cancel_left, hsplit, hp]
  · simp only [dofSizeL, hdiv, hmod]; rw [e2]; simp only [Nat.add_assoc]
  · rw [e3, ← hsplit]
    exact ((prod_hess_values hz inv (GDesc.model (α := α) p) (Bundle.bundle (GDesc.models ps)) a ao).2
      (dofSize p) (dofSizeL ps) hd.symm hdL.symm r J K hr hJ hK).symm

mutual
  /-- **values written = dense model Hessian values**, for every descriptor, nesting, tangent
      offset, block offset and host height -/
  theorem d2Writes_hasValue (hz : ZeroLaws α) (inv : Bool) (rows : Nat) : (d : GDesc) → (a : Array α) → (ao i0 : Nat) →
      ∀ w ∈ d2Writes inv rows d a ao i0,
        HasValue2 (dofSize d) rows i0 (inD2 d) (getN (selH inv (GDesc.model d) (ofArray _ a ao))) w
    | .bundle ps, a, ao, i0 => by
      intro w hw
      simp only [d2Writes] at hw
      split at hw
      · cases hw
      · exact d2WritesL_hasValue hz inv rows ps a ao i0 w hw
    | .so2, _, _, _ => fun w hw => by simp [d2Writes] at hw
    | .c1, _, _, _ => fun w hw => by simp [d2Writes] at hw
    | .tn _, _, _, _ => fun w hw => by simp [d2Writes] at hw
    | .so3, a, ao, i0 => fun w hw => denseWrites2_hasValue .so3 inv rows a ao i0 w hw
    | .se2, a, ao, i0 => fun w hw => denseWrites2_hasValue .se2 inv rows a ao i0 w hw
    | .se3, a, ao, i0 => fun w hw => denseWrites2_hasValue .se3 inv rows a ao i0 w hw
    | .gal, a, ao, i0 => fun w hw => denseWrites2_hasValue .gal inv rows a ao i0 w hw
    | .sek3 k, a, ao, i0 => fun w hw => denseWrites2_hasValue (.sek3 k) inv rows a ao i0 w hw
  theorem d2WritesL_hasValue (hz : ZeroLaws α) (inv : Bool) (rows : Nat) : (ps : List GDesc) → (a : Array α) → (ao i0 : Nat) →
      ∀ w ∈ d2WritesL inv rows ps a ao i0,
        HasValue2 (dofSizeL ps) rows i0 (inD2L ps)
          (getN (selH inv (Bundle.bundle (GDesc.models ps)) (ofArray _ a ao))) w
    | [], _, _, _ => fun w hw => by simp [d2WritesL] at hw
    | p :: ps, a, ao, i0 => by
      intro w hw
      simp only [d2WritesL, List.mem_append] at hw
      rcases hw with hw | hw
      · exact hasValue2_first hz inv p ps rows a ao i0 w (d2Writes_hasValue hz inv rows p a ao i0 w hw)
      · exact hasValue2_rest hz inv p ps rows a ao i0 w
          (d2WritesL_hasValue hz inv rows ps a (ao + dofSize p) (i0 + dofSize p) w hw)
end

/-! ### positions only (no value, no laws): what is addressed -/

/-- a shifted pattern entry -/
def InBlock2 (n rows i0 : Nat) (p : Nat → Nat → Bool) (w : Nat × Nat × α) : Prop :=
  ∃ r c, r < n ∧ c < n * n ∧ p r c = true ∧ w.1 = i0 + r ∧ w.2.1 = rows * (i0 + c / n) + (i0 + c % n)

theorem denseWrites2_inBlock (d : GDesc) (inv : Bool) (rows : Nat) (a : Array α) (ao i0 : Nat)
    (w : Nat × Nat × α) (hw : w ∈ denseWrites2 d inv rows a ao i0) : InBlock2 (dofSize d) rows i0 (inD2 d) w := by
  obtain ⟨r, c, hr, hc, hp, e1, e2, _⟩ := denseWrites2_hasValue d inv rows a ao i0 w hw
  exact ⟨r, c, hr, hc, hp, e1, e2⟩

omit [Scalar α] in
theorem inBlock2_first (p : GDesc) (ps : List GDesc) (rows i0 : Nat) (w : Nat × Nat × α)
    (h : InBlock2 (dofSize p) rows i0 (inD2 p) w) : InBlock2 (dofSizeL (p :: ps)) rows i0 (inD2L (p :: ps)) w := by
  obtain ⟨r, c, hr, hc, hp, e1, e2⟩ := h
  obtain ⟨hJ, hK, hsplit⟩ := split_lt c (dofSize p) (by omega) hc
  generalize c / dofSize p = J at hJ hsplit e2
  generalize c % dofSize p = K at hK hsplit e2
  obtain ⟨hdiv, hmod⟩ := place_divmod J K (dofSize p + dofSizeL ps) (by omega)
  refine ⟨r, J * (dofSize p + dofSizeL ps) + K, by simp only [dofSizeL]; omega,
    by simp only [dofSizeL]; exact place_lt _ _ _ (by omega) (by omega), ?_, e1, ?_⟩
  · simp only [inD2L, hdiv, hmod, hr, hJ, hK, hsplit, hp, ↓reduceIte, decide_true, Bool.and_self]
  · simp only [dofSizeL, hdiv, hmod]; exact e2

omit [Scalar α] in
theorem inBlock2_rest (p : GDesc) (ps : List GDesc) (rows i0 : Nat) (w : Nat × Nat × α)
    (h : InBlock2 (dofSizeL ps) rows (i0 + dofSize p) (inD2L ps) w) :
    InBlock2 (dofSizeL (p :: ps)) rows i0 (inD2L (p :: ps)) w := by
  obtain ⟨r, c, hr, hc, hp, e1, e2⟩ := h
  obtain ⟨hJ, hK, hsplit⟩ := split_lt c (dofSizeL ps) (by omega) hc
  generalize c / dofSizeL ps = J at hJ hsplit e2
  generalize c % dofSizeL ps = K at hK hsplit e2
  obtain ⟨hdiv, hmod⟩ := place_divmod (dofSize p + J) (dofSize p + K) (dofSize p + dofSizeL ps) (by omega)
  refine ⟨dofSize p + r, (dofSize p + J) * (dofSize p + dofSizeL ps) + (dofSize p + K), by simp only [dofSizeL]; omega,
    by simp only [dofSizeL]; exact place_lt _ _ _ (by omega) (by omega), ?_, by omega, ?_⟩
  · have h1 : ¬ (dofSize p + r < dofSize p) := by omega
    simp only [inD2L, hdiv, hmod, h1, ↓reduceIte, Nat.le_add_right, decide_true, Bool.true_and,
      Nat.add_sub_cancel_left, hsplit, hp]
  · simp only [dofSizeL, hdiv, hmod]; rw [e2]; simp only [Nat.add_assoc]

mutual
  /-- **every `coeffRef` of `d2r_exp_sparse` / `d2r_expinv_sparse` addresses a shifted entry of the
      published Hessian pattern** -/
  theorem d2Writes_inBlock (inv : Bool) (rows : Nat) : (d : GDesc) → (a : Array α) → (ao i0 : Nat) →
      ∀ w ∈ d2Writes inv rows d a ao i0, InBlock2 (dofSize d) rows i0 (inD2 d) w
    | .bundle ps, a, ao, i0 => by
      intro w hw
      simp only [d2Writes] at hw
      split at hw
      · cases hw
      · exact d2WritesL_inBlock inv rows ps a ao i0 w hw
    | .so2, _, _, _ => fun w hw => by simp [d2Writes] at hw
    | .c1, _, _, _ => fun w hw => by simp [d2Writes] at hw
    | .tn _, _, _, _ => fun w hw => by simp [d2Writes] at hw
    | .so3, a, ao, i0 => fun w hw => denseWrites2_inBlock .so3 inv rows a ao i0 w hw
    | .se2, a, ao, i0 => fun w hw => denseWrites2_inBlock .se2 inv rows a ao i0 w hw
    | .se3, a, ao, i0 => fun w hw => denseWrites2_inBlock .se3 inv rows a ao i0 w hw
    | .gal, a, ao, i0 => fun w hw => denseWrites2_inBlock .gal inv rows a ao i0 w hw
    | .sek3 k, a, ao, i0 => fun w hw => denseWrites2_inBlock (.sek3 k) inv rows a ao i0 w hw
  theorem d2WritesL_inBlock (inv : Bool) (rows : Nat) : (ps : List GDesc) → (a : Array α) → (ao i0 : Nat) →
      ∀ w ∈ d2WritesL inv rows ps a ao i0, InBlock2 (dofSizeL ps) rows i0 (inD2L ps) w
    | [], _, _, _ => fun w hw => by simp [d2WritesL] at hw
    | p :: ps, a, ao, i0 => by
      intro w hw
      simp only [d2WritesL, List.mem_append] at hw
      rcases hw with hw | hw
      · exact inBlock2_first p ps rows i0 w (d2Writes_inBlock inv rows p a ao i0 w hw)
      · exact inBlock2_rest p ps rows i0 w (d2WritesL_inBlock inv rows ps a (ao + dofSize p) (i0 + dofSize p) w hw)
end

/-! ### no position is written twice (needs `i0 + Dof ≤ sp.rows()`, asserted by the routine) -/

theorem hkey_inj (rows n i0 : Nat) (hrows : i0 + n ≤ rows) (c c' : Nat) (hc : c < n * n) (hc' : c' < n * n)
    (h : rows * (i0 + c / n) + (i0 + c % n) = rows * (i0 + c' / n) + (i0 + c' % n)) : c = c' := by
  rcases Nat.eq_zero_or_pos n with rfl | hn
  · omega
  have a1 := Nat.mod_lt c hn
  have a2 := Nat.mod_lt c' hn
  have d1 := place_divmod (i0 + c / n) (i0 + c % n) rows (by omega)
  have d2 := place_divmod (i0 + c' / n) (i0 + c' % n) rows (by omega)
  rw [Nat.mul_comm rows, Nat.mul_comm rows] at h
  have e1 : i0 + c / n = i0 + c' / n := by rw [← d1.1, h, d2.1]
  have e2 : i0 + c % n = i0 + c' % n := by rw [← d1.2, h, d2.2]
  have s1 := Nat.div_add_mod' c n
  have s2 := Nat.div_add_mod' c' n
  have f1 : c / n = c' / n := by omega
  have f2 : c % n = c' % n := by omega
  rw [← s1, ← s2, f1, f2]

theorem denseWrites2_nodup (d : GDesc) (inv : Bool) (rows : Nat) (a : Array α) (ao i0 : Nat)
    (hrows : i0 + dofSize d ≤ rows) :
    ((denseWrites2 d inv rows a ao i0).map (fun w => (w.1, w.2.1))).Nodup := by
  have e : (denseWrites2 d inv rows a ao i0).map (fun w => (w.1, w.2.1))
      = (d2Pattern d).map (fun k => (i0 + k.1, rows * (i0 + k.2 / dofSize d) + (i0 + k.2 % dofSize d))) := by
    simp [denseWrites2, List.map_map, Function.comp]
  rw [e]
  apply List.Nodup.map_on _ (nodup_gridFilter _ _ _)
  intro x hx y hy h
  have mx := (mem_gridFilter _ _ _ x.1 x.2).1 (by simpa [d2Pattern] using hx)
  have my := (mem_gridFilter _ _ _ y.1 y.2).1 (by simpa [d2Pattern] using hy)
  simp only [Prod.mk.injEq] at h
  exact Prod.ext (by omega) (hkey_inj rows (dofSize d) i0 hrows x.2 y.2 mx.2.1 my.2.1 h.2)

mutual
  theorem d2Writes_nodup (inv : Bool) (rows : Nat) : (d : GDesc) → (a : Array α) → (ao i0 : Nat) →
      i0 + dofSize d ≤ rows → ((d2Writes inv rows d a ao i0).map (fun w => (w.1, w.2.1))).Nodup
    | .bundle ps, a, ao, i0, h => by
      simp only [d2Writes]
      split
      · exact List.nodup_nil
      · exact d2WritesL_nodup inv rows ps a ao i0 h
    | .so2, _, _, _, _ => by simp [d2Writes]
    | .c1, _, _, _, _ => by simp [d2Writes]
    | .tn _, _, _, _, _ => by simp [d2Writes]
    | .so3, a, ao, i0, h => denseWrites2_nodup .so3 inv rows a ao i0 h
    | .se2, a, ao, i0, h => denseWrites2_nodup .se2 inv rows a ao i0 h
    | .se3, a, ao, i0, h => denseWrites2_nodup .se3 inv rows a ao i0 h
    | .gal, a, ao, i0, h => denseWrites2_nodup .gal inv rows a ao i0 h
    | .sek3 k, a, ao, i0, h => denseWrites2_nodup (.sek3 k) inv rows a ao i0 h
  theorem d2WritesL_nodup (inv : Bool) (rows : Nat) : (ps : List GDesc) → (a : Array α) → (ao i0 : Nat) →
      i0 + dofSizeL ps ≤ rows → ((d2WritesL inv rows ps a ao i0).map (fun w => (w.1, w.2.1))).Nodup
    | [], _, _, _, _ => by simp [d2WritesL]
    | p :: ps, a, ao, i0, h => by
      simp only [dofSizeL] at h
      simp only [d2WritesL]
      apply nodup_keys_of_blocks _ _ (i0 + dofSize p) (d2Writes_nodup inv rows p a ao i0 (by omega))
        (d2WritesL_nodup inv rows ps a (ao + dofSize p) (i0 + dofSize p) (by omega))
      · intro w hw
        obtain ⟨r, c, hr, _, _, e1, _⟩ := d2Writes_inBlock inv rows p a ao i0 w hw
        omega
      · intro w hw
        obtain ⟨r, c, _, _, _, e1, _⟩ := d2WritesL_inBlock inv rows ps a (ao + dofSize p) (i0 + dofSize p) w hw
        omega
end

/-! ### every entry of the published Hessian pattern is written -/

mutual
  /-- commutative descriptors publish the empty Hessian pattern -/
  theorem comm_pattern2_empty : (d : GDesc) → isComm d = true → ∀ r c, inD2 d r c = false
    | .so2, _, _, _ => rfl
    | .c1, _, _, _ => rfl
    | .tn _, _, _, _ => rfl
    | .so3, h, _, _ => by cases h
    | .se2, h, _, _ => by cases h
    | .se3, h, _, _ => by cases h
    | .gal, h, _, _ => by cases h
    | .sek3 _, h, _, _ => by cases h
    | .bundle ps, h, r, c => comm_pattern2_emptyL ps h r c
  theorem comm_pattern2_emptyL : (ps : List GDesc) → isCommL ps = true → ∀ r c, inD2L ps r c = false
    | [], _, _, _ => rfl
    | p :: ps, h, r, c => by
      have h' : isComm p = true ∧ isCommL ps = true := by simpa [isCommL] using h
      simp only [inD2L]
      split
      · rw [comm_pattern2_empty p h'.1]; simp
      · rw [comm_pattern2_emptyL ps h'.2]; simp
end

theorem denseWrites2_covers (d : GDesc) (inv : Bool) (rows : Nat) (a : Array α) (ao i0 : Nat) (r c : Nat)
    (hr : r < dofSize d) (hc : c < dofSize d * dofSize d) (hp : inD2 d r c = true) :
    ∃ w ∈ denseWrites2 d inv rows a ao i0,
      w.1 = i0 + r ∧ w.2.1 = rows * (i0 + c / dofSize d) + (i0 + c % dofSize d) := by
  have hm : (r, c) ∈ d2Pattern d := (mem_gridFilter _ _ _ r c).2 ⟨hr, hc, hp⟩
  simp only [denseWrites2, List.mem_map]
  exact ⟨_, ⟨(r, c), hm, rfl⟩, rfl, rfl⟩

mutual
  /-- **completeness of the Hessian block write** -/
  theorem d2Writes_covers (inv : Bool) (rows : Nat) : (d : GDesc) → (a : Array α) → (ao i0 : Nat) →
      ∀ r c, r < dofSize d → c < dofSize d * dofSize d → inD2 d r c = true →
        ∃ w ∈ d2Writes inv rows d a ao i0,
          w.1 = i0 + r ∧ w.2.1 = rows * (i0 + c / dofSize d) + (i0 + c % dofSize d)
    | .bundle ps, a, ao, i0 => by
      intro r c hr hc hp
      simp only [d2Writes]
      split
      · rename_i hcm
        rw [show inD2 (.bundle ps) r c = inD2L ps r c from rfl, comm_pattern2_emptyL ps hcm r c] at hp
        cases hp
      · exact d2WritesL_covers inv rows ps a ao i0 r c hr hc hp
    | .so2, _, _, _ => fun r c _ _ hp => by cases hp
    | .c1, _, _, _ => fun r c _ _ hp => by cases hp
    | .tn _, _, _, _ => fun r c _ _ hp => by cases hp
    | .so3, a, ao, i0 => fun r c hr hc hp => denseWrites2_covers .so3 inv rows a ao i0 r c hr hc hp
    | .se2, a, ao, i0 => fun r c hr hc hp => denseWrites2_covers .se2 inv rows a ao i0 r c hr hc hp
    | .se3, a, ao, i0 => fun r c hr hc hp => denseWrites2_covers .se3 inv rows a ao i0 r c hr hc hp
    | .gal, a, ao, i0 => fun r c hr hc hp => denseWrites2_covers .gal inv rows a ao i0 r c hr hc hp
    | .sek3 k, a, ao, i0 => fun r c hr hc hp => denseWrites2_covers (.sek3 k) inv rows a ao i0 r c hr hc hp
  theorem d2WritesL_covers (inv : Bool) (rows : Nat) : (ps : List GDesc) → (a : Array α) → (ao i0 : Nat) →
      ∀ r c, r < dofSizeL ps → c < dofSizeL ps * dofSizeL ps → inD2L ps r c = true →
        ∃ w ∈ d2WritesL inv rows ps a ao i0,
          w.1 = i0 + r ∧ w.2.1 = rows * (i0 + c / dofSizeL ps) + (i0 + c % dofSizeL ps)
    | [], _, _, _ => fun r _ hr _ _ => absurd hr (Nat.not_lt_zero _)
    | p :: ps, a, ao, i0 => by
      intro r c hr hc hp
      simp only [inD2L] at hp
      simp only [dofSizeL] at hr hc ⊢
      simp only [d2WritesL, List.mem_append]
      have hJ2 : c / (dofSize p + dofSizeL ps) < dofSize p + dofSizeL ps := Nat.div_lt_of_lt_mul hc
      have hK2 : c % (dofSize p + dofSizeL ps) < dofSize p + dofSizeL ps := Nat.mod_lt _ (by omega)
      generalize c / (dofSize p + dofSizeL ps) = J at hp hJ2 ⊢
      generalize c % (dofSize p + dofSizeL ps) = K at hp hK2 ⊢
      by_cases h1 : r < dofSize p
      · simp only [h1, ↓reduceIte, Bool.and_eq_true, decide_eq_true_eq] at hp
        obtain ⟨⟨hJ, hK⟩, hq⟩ := hp
        obtain ⟨w, hw, e1, e2⟩ := d2Writes_covers inv rows p a ao i0 r (J * dofSize p + K) h1
          (place_lt _ _ _ hJ hK) hq
        obtain ⟨hdiv, hmod⟩ := place_divmod J K (dofSize p) hK
        rw [hdiv, hmod] at e2
        exact ⟨w, Or.inl hw, e1, e2⟩
      · simp only [h1, ↓reduceIte, Bool.and_eq_true, decide_eq_true_eq, Nat.add_sub_cancel_left] at hp
        obtain ⟨⟨hJ, hK⟩, hq⟩ := hp
        obtain ⟨w, hw, e1, e2⟩ := d2WritesL_covers inv rows ps a (ao + dofSize p) (i0 + dofSize p) (r - dofSize p)
          ((J - dofSize p) * dofSizeL ps + (K - dofSize p)) (by omega)
          (place_lt _ _ _ (by omega) (by omega)) hq
        obtain ⟨hdiv, hmod⟩ := place_divmod (J - dofSize p) (K - dofSize p) (dofSizeL ps) (by omega)
        rw [hdiv, hmod] at e2
        refine ⟨w, Or.inr hw, by omega, ?_⟩
        rw [e2]
        have f1 : i0 + dofSize p + (J - dofSize p) = i0 + J := by omega
        have f2 : i0 + dofSize p + (K - dofSize p) = i0 + K := by omega
        rw [f1, f2]
end

end

theorem zeroLaws_real : ZeroLaws ℝ := ⟨fun x => by simp, fun x => by simp⟩

end Sparse
