/-
  C03Lin.lean — bridge between the model's `Vec`/`Mat` (left-to-right `vsum`) at `α := ℝ` and
  Mathlib's `Matrix`/`Finset.sum`, plus the block-diagonal (`Bundle.bdiag`) algebra used by C03.
  Everything is in namespace `C03` so that it cannot clash with other builders' helper files.
-/
import SmoothProofs.Real
import SmoothProofs.C03Attr
import Mathlib.Algebra.BigOperators.Fin
import Mathlib.Data.Matrix.Mul
import Mathlib.Tactic.Ring
import Mathlib.Tactic.FinCases
import Mathlib.Tactic.LinearCombination
import Mathlib.Tactic.NoncommRing

open Lin Scalar
set_option linter.unusedSimpArgs false

namespace C03

/-- the left-to-right sum of the model is the `Finset` sum -/
theorem vsum_eq_sum : ∀ (n : Nat) (f : Fin n → ℝ), vsum n f = ∑ i, f i
  | 0, f => by simp [vsum]
  | n + 1, f => by
    rw [vsum, vsum_eq_sum n, Fin.sum_univ_castSucc]

/-- model matrix as a Mathlib matrix -/
def toM {n m : Nat} (A : Mat ℝ n m) : Matrix (Fin n) (Fin m) ℝ := Matrix.of (fun i j => A i j)
/-- model vector as a function -/
def toV {n : Nat} (v : Vec ℝ n) : Fin n → ℝ := fun i => v i

@[simp] theorem toM_apply {n m : Nat} (A : Mat ℝ n m) (i : Fin n) (j : Fin m) : toM A i j = A i j := rfl
@[simp] theorem toV_apply {n : Nat} (v : Vec ℝ n) (i : Fin n) : toV v i = v i := rfl

theorem toM_inj {n m : Nat} {A B : Mat ℝ n m} (h : toM A = toM B) : A = B := by
  ext i j; exact congrFun (congrFun h i) j

theorem toV_inj {n : Nat} {a b : Vec ℝ n} (h : toV a = toV b) : a = b := by
  ext i; exact congrFun h i

theorem mmul_apply {n k m : Nat} (A : Mat ℝ n k) (B : Mat ℝ k m) (i : Fin n) (j : Fin m) :
    mmul A B i j = ∑ l, A i l * B l j := by
  simp [mmul, vsum_eq_sum]

theorem mulVec_apply {n m : Nat} (A : Mat ℝ n m) (v : Vec ℝ m) (i : Fin n) :
    mulVec A v i = ∑ l, A i l * v l := by
  simp [mulVec, vsum_eq_sum]

theorem toM_mmul {n k m : Nat} (A : Mat ℝ n k) (B : Mat ℝ k m) : toM (mmul A B) = toM A * toM B := by
  ext i j; simp [mmul_apply, Matrix.mul_apply]

theorem toM_madd {n m : Nat} (A B : Mat ℝ n m) : toM (madd A B) = toM A + toM B := by
  ext i j; simp [madd]

theorem toM_msub {n m : Nat} (A B : Mat ℝ n m) : toM (msub A B) = toM A - toM B := by
  ext i j; simp [msub]

theorem toM_mneg {n m : Nat} (A : Mat ℝ n m) : toM (mneg A) = - toM A := by
  ext i j; simp [mneg]

theorem toM_msmul {n m : Nat} (s : ℝ) (A : Mat ℝ n m) : toM (msmul s A) = s • toM A := by
  ext i j; simp [msmul]

theorem toM_mzero {n m : Nat} : toM (mzero n m : Mat ℝ n m) = 0 := by
  ext i j; simp [mzero]

theorem toM_ident {n : Nat} : toM (ident n : Mat ℝ n n) = 1 := by
  ext i j; simp [ident, Matrix.one_apply]

theorem toV_mulVec {n m : Nat} (A : Mat ℝ n m) (v : Vec ℝ m) :
    toV (mulVec A v) = (toM A).mulVec (toV v) := by
  ext i; simp [mulVec_apply, Matrix.mulVec, dotProduct]

theorem toV_vadd {n : Nat} (a b : Vec ℝ n) : toV (vadd a b) = toV a + toV b := by
  ext i; simp [vadd]

theorem mmul_assoc {n k l m : Nat} (A : Mat ℝ n k) (B : Mat ℝ k l) (C : Mat ℝ l m) :
    mmul (mmul A B) C = mmul A (mmul B C) := by
  apply toM_inj; simp only [toM_mmul, Matrix.mul_assoc]

theorem mulVec_mulVec {n k m : Nat} (A : Mat ℝ n k) (B : Mat ℝ k m) (v : Vec ℝ m) :
    mulVec A (mulVec B v) = mulVec (mmul A B) v := by
  apply toV_inj; simp only [toV_mulVec, toM_mmul, Matrix.mulVec_mulVec]

theorem mulVec_ident {n : Nat} (v : Vec ℝ n) : mulVec (ident n) v = v := by
  apply toV_inj; simp only [toV_mulVec, toM_ident, Matrix.one_mulVec]

theorem mulVec_mzero {n m : Nat} (v : Vec ℝ m) : mulVec (mzero n m) v = vzero n := by
  ext i; simp [mulVec_apply, mzero, vzero]

/-- a matrix is determined by its action on vectors -/
theorem mat_ext_mulVec {n m : Nat} {A B : Mat ℝ n m} (h : ∀ v, mulVec A v = mulVec B v) : A = B := by
  ext i j
  have := congrArg (fun w : Vec ℝ n => w i) (h (.of (fun l => if l = j then 1 else 0)))
  simpa [mulVec_apply] using this


/-! ### entry lemmas for the literal constructors (much faster than unfolding the `match`) -/
section entries
variable (a b c d e f g h k : ℝ)
@[simp, c03e] theorem mat3_00 : (mat3 a b c d e f g h k) 0 0 = a := rfl
@[simp, c03e] theorem mat3_01 : (mat3 a b c d e f g h k) 0 1 = b := rfl
@[simp, c03e] theorem mat3_02 : (mat3 a b c d e f g h k) 0 2 = c := rfl
@[simp, c03e] theorem mat3_10 : (mat3 a b c d e f g h k) 1 0 = d := rfl
@[simp, c03e] theorem mat3_11 : (mat3 a b c d e f g h k) 1 1 = e := rfl
@[simp, c03e] theorem mat3_12 : (mat3 a b c d e f g h k) 1 2 = f := rfl
@[simp, c03e] theorem mat3_20 : (mat3 a b c d e f g h k) 2 0 = g := rfl
@[simp, c03e] theorem mat3_21 : (mat3 a b c d e f g h k) 2 1 = h := rfl
@[simp, c03e] theorem mat3_22 : (mat3 a b c d e f g h k) 2 2 = k := rfl
@[simp, c03e] theorem mat2_00 : (mat2 a b c d) 0 0 = a := rfl
@[simp, c03e] theorem mat2_01 : (mat2 a b c d) 0 1 = b := rfl
@[simp, c03e] theorem mat2_10 : (mat2 a b c d) 1 0 = c := rfl
@[simp, c03e] theorem mat2_11 : (mat2 a b c d) 1 1 = d := rfl
@[simp, c03e] theorem mk1_0 : (mk1 a) 0 = a := rfl
@[simp, c03e] theorem mk2_0 : (mk2 a b) 0 = a := rfl
@[simp, c03e] theorem mk2_1 : (mk2 a b) 1 = b := rfl
@[simp, c03e] theorem mk3_0 : (mk3 a b c) 0 = a := rfl
@[simp, c03e] theorem mk3_1 : (mk3 a b c) 1 = b := rfl
@[simp, c03e] theorem mk3_2 : (mk3 a b c) 2 = c := rfl
@[simp, c03e] theorem mk4_0 : (mk4 a b c d) 0 = a := rfl
@[simp, c03e] theorem mk4_1 : (mk4 a b c d) 1 = b := rfl
@[simp, c03e] theorem mk4_2 : (mk4 a b c d) 2 = c := rfl
@[simp, c03e] theorem mk4_3 : (mk4 a b c d) 3 = d := rfl
end entries

@[simp, c03e] theorem memoM_eq' {n m : Nat} (f : Mat ℝ n m) : memoM f = f := memoM_eq f
@[simp, c03e] theorem memoV_eq' {n : Nat} (f : Vec ℝ n) : memoV f = f := memoV_eq f



/-- evaluate index conditions (`dite` on literal `Fin` values, `Fin.mk` of literal arithmetic) -/
macro "c03_eval" : tactic => `(tactic|
  simp only [Fin.isValue, Fin.coe_ofNat_eq_mod, Fin.zero_eta, Fin.mk_one, Fin.reduceFinMk, Fin.reduceEq, Fin.reduceNe,
    Nat.reduceMod, Nat.reduceDiv, Nat.reduceMul, Nat.reduceLeDiff, Nat.reduceLT, Nat.reduceAdd, Nat.reduceSub,
    Nat.reduceEqDiff, le_refl, zero_le, and_true, true_and, and_false, false_and, and_self, dite_true, dite_false,
    ↓reduceDIte, ↓reduceIte, Nat.lt_irrefl, Nat.not_ofNat_le_one, Nat.ofNat_pos, Fin.val_zero, Fin.val_one,
    Nat.zero_add, Nat.add_zero, lt_self_iff_false, zero_lt_one, Nat.lt_one_iff, not_false_eq_true, not_true_eq_false,
    if_true, if_false, OfNat.ofNat_ne_zero, OfNat.zero_ne_ofNat, OfNat.ofNat_ne_one, OfNat.one_ne_ofNat,
    zero_ne_one, one_ne_zero, Nat.one_lt_ofNat, Nat.not_ofNat_lt_one])

/-! ### explicit small sums -/
@[c03e] theorem vsum_1 (f : Fin 1 → ℝ) : vsum 1 f = f 0 := by simp [vsum]
@[c03e] theorem vsum_2 (f : Fin 2 → ℝ) : vsum 2 f = f 0 + f 1 := by simp [vsum]
@[c03e] theorem vsum_3 (f : Fin 3 → ℝ) : vsum 3 f = f 0 + f 1 + f 2 := by simp [vsum]
@[c03e] theorem vsum_4 (f : Fin 4 → ℝ) : vsum 4 f = f 0 + f 1 + f 2 + f 3 := by simp [vsum]
@[c03e] theorem vsum_5 (f : Fin 5 → ℝ) : vsum 5 f = f 0 + f 1 + f 2 + f 3 + f 4 := by simp [vsum]
@[c03e] theorem vsum_6 (f : Fin 6 → ℝ) : vsum 6 f = f 0 + f 1 + f 2 + f 3 + f 4 + f 5 := by simp [vsum]
@[c03e] theorem vsum_10 (f : Fin 10 → ℝ) :
    vsum 10 f = f 0 + f 1 + f 2 + f 3 + f 4 + f 5 + f 6 + f 7 + f 8 + f 9 := by simp [vsum]

attribute [c03e] Lin.Mat.of_get Lin.Vec.of_get Scalar.nat_real

/-! ### block-diagonal algebra (`Bundle.bdiag`, `fst`, `snd`, `tl`, `br`, `vcat`) -/

section blocks
open Bundle

theorem sum_split {n m : Nat} (f : Fin (n + m) → ℝ) :
    ∑ l, f l = (∑ l : Fin n, f ⟨l.val, by omega⟩) + ∑ l : Fin m, f ⟨n + l.val, by omega⟩ := by
  rw [Fin.sum_univ_add]; rfl

@[simp] theorem fst_vcat {n m : Nat} (a : Vec ℝ n) (b : Vec ℝ m) : fst (vcat a b) = a := by
  ext i; simp [fst, vcat]

@[simp] theorem snd_vcat {n m : Nat} (a : Vec ℝ n) (b : Vec ℝ m) : snd (vcat a b) = b := by
  ext i; simp [snd, vcat]

theorem vcat_fst_snd {n m : Nat} (v : Vec ℝ (n + m)) : vcat (fst v) (snd v) = v := by
  ext i
  by_cases h : i.val < n
  · simp [vcat, fst, h]
  · have : n + (i.val - n) = i.val := by omega
    simp [vcat, snd, h, this]

@[simp] theorem tl_bdiag {n m : Nat} (A : Mat ℝ n n) (B : Mat ℝ m m) : tl (bdiag A B) = A := by
  ext i j; simp [tl, bdiag]

@[simp] theorem br_bdiag {n m : Nat} (A : Mat ℝ n n) (B : Mat ℝ m m) : br (bdiag A B) = B := by
  ext i j; simp [br, bdiag]

theorem bdiag_apply_ll {n m n' m' : Nat} (A : Mat ℝ n n') (B : Mat ℝ m m') (i : Fin n) (j : Fin n') :
    bdiag A B ⟨i.val, by omega⟩ ⟨j.val, by omega⟩ = A i j := by simp [bdiag]
theorem bdiag_apply_lr {n m n' m' : Nat} (A : Mat ℝ n n') (B : Mat ℝ m m') (i : Fin n) (j : Fin m') :
    bdiag A B ⟨i.val, by omega⟩ ⟨n' + j.val, by omega⟩ = 0 := by simp [bdiag]
theorem bdiag_apply_rl {n m n' m' : Nat} (A : Mat ℝ n n') (B : Mat ℝ m m') (i : Fin m) (j : Fin n') :
    bdiag A B ⟨n + i.val, by omega⟩ ⟨j.val, by omega⟩ = 0 := by simp [bdiag]
theorem bdiag_apply_rr {n m n' m' : Nat} (A : Mat ℝ n n') (B : Mat ℝ m m') (i : Fin m) (j : Fin m') :
    bdiag A B ⟨n + i.val, by omega⟩ ⟨n' + j.val, by omega⟩ = B i j := by simp [bdiag]

/-- case split of an index of `Fin (n+m)` into the two ranges -/
theorem fin_add_cases {n m : Nat} {P : Fin (n + m) → Prop}
    (hl : ∀ i : Fin n, P ⟨i.val, by omega⟩) (hr : ∀ i : Fin m, P ⟨n + i.val, by omega⟩) :
    ∀ i, P i := by
  intro i
  by_cases h : i.val < n
  · exact hl ⟨i.val, h⟩
  · have := hr ⟨i.val - n, by omega⟩
    have e : n + (i.val - n) = i.val := by omega
    simpa [e] using this

theorem mmul_bdiag {n m n' m' n'' m'' : Nat} (A : Mat ℝ n n') (B : Mat ℝ m m')
    (A' : Mat ℝ n' n'') (B' : Mat ℝ m' m'') :
    mmul (bdiag A B) (bdiag A' B') = bdiag (mmul A A') (mmul B B') := by
  ext i j
  rw [mmul_apply, sum_split]
  revert j; revert i
  refine fin_add_cases ?_ ?_ <;> intro i <;> refine fin_add_cases ?_ ?_ <;> intro j
  · simp only [bdiag_apply_ll, bdiag_apply_lr, bdiag_apply_rl, mmul_apply]; simp
  · simp only [bdiag_apply_ll, bdiag_apply_lr, bdiag_apply_rl, bdiag_apply_rr]; simp
  · simp only [bdiag_apply_ll, bdiag_apply_lr, bdiag_apply_rl, bdiag_apply_rr]; simp
  · simp only [bdiag_apply_lr, bdiag_apply_rl, bdiag_apply_rr, mmul_apply]; simp

theorem msub_bdiag {n m n' m' : Nat} (A A' : Mat ℝ n n') (B B' : Mat ℝ m m') :
    msub (bdiag A B) (bdiag A' B') = bdiag (msub A A') (msub B B') := by
  ext i j
  revert j; revert i
  refine fin_add_cases ?_ ?_ <;> intro i <;> refine fin_add_cases ?_ ?_ <;> intro j <;>
    simp [msub, bdiag]

theorem madd_bdiag {n m n' m' : Nat} (A A' : Mat ℝ n n') (B B' : Mat ℝ m m') :
    madd (bdiag A B) (bdiag A' B') = bdiag (madd A A') (madd B B') := by
  ext i j
  revert j; revert i
  refine fin_add_cases ?_ ?_ <;> intro i <;> refine fin_add_cases ?_ ?_ <;> intro j <;>
    simp [madd, bdiag]

theorem msmul_bdiag {n m n' m' : Nat} (s : ℝ) (A : Mat ℝ n n') (B : Mat ℝ m m') :
    msmul s (bdiag A B) = bdiag (msmul s A) (msmul s B) := by
  ext i j
  revert j; revert i
  refine fin_add_cases ?_ ?_ <;> intro i <;> refine fin_add_cases ?_ ?_ <;> intro j <;>
    simp [msmul, bdiag]

theorem mulVec_bdiag {n m n' m' : Nat} (A : Mat ℝ n n') (B : Mat ℝ m m') (v : Vec ℝ (n' + m')) :
    mulVec (bdiag A B) v = vcat (mulVec A (fst v)) (mulVec B (snd v)) := by
  ext i
  rw [mulVec_apply, sum_split]
  revert i
  refine fin_add_cases ?_ ?_ <;> intro i
  · simp only [bdiag_apply_ll, bdiag_apply_lr]; simp [vcat, mulVec_apply, fst]
  · simp only [bdiag_apply_rl, bdiag_apply_rr]; simp [vcat, mulVec_apply, snd]

theorem fst_vadd {n m : Nat} (a b : Vec ℝ (n + m)) : fst (vadd a b) = vadd (fst a) (fst b) := by
  ext i; simp [fst, vadd]
theorem snd_vadd {n m : Nat} (a b : Vec ℝ (n + m)) : snd (vadd a b) = vadd (snd a) (snd b) := by
  ext i; simp [snd, vadd]
theorem fst_vsmul {n m : Nat} (s : ℝ) (a : Vec ℝ (n + m)) : fst (vsmul s a) = vsmul s (fst a) := by
  ext i; simp [fst, vsmul]
theorem snd_vsmul {n m : Nat} (s : ℝ) (a : Vec ℝ (n + m)) : snd (vsmul s a) = vsmul s (snd a) := by
  ext i; simp [snd, vsmul]

end blocks

end C03
