/-
  C04SO3.lean — SO3 first-order Jacobians in the closed-form branch:
  `dr_exp a = I + α·â + β·â²`, `dr_expinv a = I + â/2 + A·â²`, their product is `I`,
  `matrix (exp a) = I + ρ·â + σ·â²` (Rodrigues) and `dr_exp (−a) = Ad (exp a) · dr_exp a`.
-/
import SmoothProofs.C04Alg
import Mathlib.Analysis.SpecialFunctions.Trigonometric.Basic
import Mathlib.Analysis.SpecialFunctions.Sqrt

open Lin Scalar

namespace C04SO3
open C04Alg

theorem eps2_real : (Scalar.eps2 : ℝ) = 1 / 100000000 := rfl

theorem eps2_pos : (0 : ℝ) < Scalar.eps2 := by rw [eps2_real]; norm_num

theorem cos_2_closed {x : ℝ} (h : Scalar.eps2 < x) :
    Trig.cos_2 x = (Real.cos (Real.sqrt x) - 1) / x := by
  simp only [Trig.cos_2, if_pos h, Scalar.nat_real, Nat.cast_one]; rfl

theorem sin_3_closed {x : ℝ} (h : Scalar.eps2 < x) :
    Trig.sin_3 x = (Real.sin (Real.sqrt x) - Real.sqrt x) / (x * Real.sqrt x) := by
  simp only [Trig.sin_3, if_pos h]; rfl

theorem S1invA_closed {x : ℝ} (h : ¬ x < Scalar.eps2) :
    SO3.S1invA x = 1 / x - (1 + Real.cos (Real.sqrt x)) / (2 * Real.sqrt x * Real.sin (Real.sqrt x)) := by
  simp only [SO3.S1invA, if_neg h, Nat.cast_one, Nat.cast_ofNat]; rfl

/-- coefficients of the closed forms, as functions of `n = θ²` -/
noncomputable def αr (n : ℝ) : ℝ := (Real.cos (Real.sqrt n) - 1) / n
noncomputable def βr (n : ℝ) : ℝ := -((Real.sin (Real.sqrt n) - Real.sqrt n) / (n * Real.sqrt n))
noncomputable def Ainv (n : ℝ) : ℝ :=
  1 / n - (1 + Real.cos (Real.sqrt n)) / (2 * Real.sqrt n * Real.sin (Real.sqrt n))

theorem hat_neg (a : Vec ℝ 3) (i j : Fin 3) : (SO3.hat (vneg a)) i j = -(SO3.hat a) i j := by
  fin_cases i <;> fin_cases j <;> simp [SO3.hat, vneg, mat3]

/-- closed branch: `dr_exp a = I + α·â + β·â²`, `α = (cos θ − 1)/θ²`, `β = (θ − sin θ)/θ³` -/
theorem dr_exp_closed (a : Vec ℝ 3) (h : Scalar.eps2 < sqNorm a) :
    SO3.dr_exp a = poly2 (SO3.hat a) (αr (sqNorm a)) (βr (sqNorm a)) := by
  ext i j
  simp only [SO3.dr_exp, SO3.calc_S1, msmul, memoM_eq, sqNorm3_neg, cos_2_closed h, sin_3_closed h,
    Mat.of_get, poly2, mmul3, hat_neg, αr, βr]
  ring

/-- closed branch: `dr_expinv a = I + â/2 + A·â²` -/
theorem dr_expinv_closed (a : Vec ℝ 3) (h : ¬ sqNorm a < Scalar.eps2) :
    SO3.dr_expinv a = poly2 (SO3.hat a) (1 / 2) (Ainv (sqNorm a)) := by
  ext i j
  simp only [SO3.dr_expinv, SO3.calc_S1inv, msmul, SO3.ad, madd, memoM_eq, S1invA_closed h,
    Mat.of_get, poly2, mmul3, Ainv, Nat.cast_ofNat]
  ring

theorem coef_p {θ s c : ℝ} (hθ : θ ≠ 0) (hs : s ≠ 0) (h1 : s ^ 2 + c ^ 2 = 1) :
    (c - 1) / θ ^ 2 + 1 / 2
      - θ ^ 2 * ((c - 1) / θ ^ 2 * (1 / θ ^ 2 - (1 + c) / (2 * θ * s))
          + -((s - θ) / (θ ^ 2 * θ)) * (1 / 2)) = 0 := by
  field_simp
  linear_combination θ * h1

theorem coef_q {θ s c : ℝ} (hθ : θ ≠ 0) (hs : s ≠ 0) :
    -((s - θ) / (θ ^ 2 * θ)) + (c - 1) / θ ^ 2 * (1 / 2) + (1 / θ ^ 2 - (1 + c) / (2 * θ * s))
      - θ ^ 2 * (-((s - θ) / (θ ^ 2 * θ)) * (1 / θ ^ 2 - (1 + c) / (2 * θ * s))) = 0 := by
  field_simp
  ring

theorem sqrt_facts {n : ℝ} (h : Scalar.eps2 < n) :
    Real.sqrt n ≠ 0 ∧ Real.sqrt n ^ 2 = n := by
  have hn : 0 < n := lt_trans eps2_pos h
  exact ⟨(Real.sqrt_pos.2 hn).ne', Real.sq_sqrt hn.le⟩

/-- the two scalar identities that make `dr_exp · dr_expinv = I` -/
theorem coef_pq {n : ℝ} (h : Scalar.eps2 < n) (hs : Real.sin (Real.sqrt n) ≠ 0) :
    αr n + 1 / 2 - n * (αr n * Ainv n + βr n * (1 / 2)) = 0 ∧
    βr n + αr n * (1 / 2) + Ainv n - n * (βr n * Ainv n) = 0 := by
  obtain ⟨hθ, hsq⟩ := sqrt_facts h
  have h1 := Real.sin_sq_add_cos_sq (Real.sqrt n)
  have p := coef_p hθ hs h1
  have q := coef_q (c := Real.cos (Real.sqrt n)) hθ hs
  rw [hsq] at p q
  exact ⟨p, q⟩

theorem drExp_mul_drExpinv (a : Vec ℝ 3) (h : Scalar.eps2 < sqNorm a)
    (hs : Real.sin (Real.sqrt (sqNorm a)) ≠ 0) :
    mmul (SO3.dr_exp a) (SO3.dr_expinv a) = ident 3 := by
  obtain ⟨p, q⟩ := coef_pq h hs
  ext i j
  rw [dr_exp_closed a h, dr_expinv_closed a (not_lt.2 h.le), so3_poly_mul, p, q, poly2_zero_zero]

theorem drExpinv_mul_drExp (a : Vec ℝ 3) (h : Scalar.eps2 < sqNorm a)
    (hs : Real.sin (Real.sqrt (sqNorm a)) ≠ 0) :
    mmul (SO3.dr_expinv a) (SO3.dr_exp a) = ident 3 := by
  obtain ⟨p, q⟩ := coef_pq h hs
  ext i j
  rw [dr_exp_closed a h, dr_expinv_closed a (not_lt.2 h.le), so3_poly_mul]
  have p' : 1 / 2 + αr (sqNorm a) - sqNorm a * (1 / 2 * βr (sqNorm a) + Ainv (sqNorm a) * αr (sqNorm a)) = 0 := by
    linear_combination p
  have q' : Ainv (sqNorm a) + 1 / 2 * αr (sqNorm a) + βr (sqNorm a)
      - sqNorm a * (Ainv (sqNorm a) * βr (sqNorm a)) = 0 := by
    linear_combination q
  rw [p', q', poly2_zero_zero]

/-! ### Rodrigues form of `Ad (exp a) = matrix (exp a)` and `dl_exp = Ad(exp) · dr_exp` -/

theorem matrix_canon (g : Vec ℝ 4) : SO3.matrix (SO3.canon g) = SO3.matrix g := by
  unfold SO3.canon
  split_ifs
  · ext i j
    fin_cases i <;> fin_cases j <;> simp [SO3.matrix, mat3]
  · rfl

theorem expAB_closed {x : ℝ} (h : ¬ x < Scalar.eps2) :
    SO3.expAB x = (Real.sin (Real.sqrt x / 2) / Real.sqrt x, Real.cos (Real.sqrt x / 2)) := by
  simp only [SO3.expAB, if_neg h, Scalar.nat_real, Nat.cast_ofNat]; rfl

/-- the quaternion `(sh/θ·a, ch)` has rotation matrix `I + (2·sh·ch/θ)·â + (2·sh²/θ²)·â²` (no norm
    constraint needed: `toRotationMatrix` is a polynomial in the coefficients) -/
theorem rodrigues_entries (a : Vec ℝ 3) (θ sh ch : ℝ) (hθ : θ ≠ 0) (i j : Fin 3) :
    (SO3.matrix (mk4 (sh / θ * a 0) (sh / θ * a 1) (sh / θ * a 2) ch)) i j
      = (poly2 (SO3.hat a) (2 * sh * ch / θ) (2 * sh ^ 2 / θ ^ 2)) i j := by
  fin_cases i <;> fin_cases j <;>
    simp [SO3.matrix, mat3, mk4, poly2, mmul, vsum, SO3.hat, ident] <;> field_simp <;> ring

noncomputable def ρr (n : ℝ) : ℝ := Real.sin (Real.sqrt n) / Real.sqrt n
noncomputable def σr (n : ℝ) : ℝ := (1 - Real.cos (Real.sqrt n)) / n

/-- closed branch: `matrix (exp a) = I + (sin θ/θ)·â + ((1 − cos θ)/θ²)·â²` -/
theorem matrix_exp_closed (a : Vec ℝ 3) (h : Scalar.eps2 < sqNorm a) :
    SO3.matrix (SO3.exp a) = poly2 (SO3.hat a) (ρr (sqNorm a)) (σr (sqNorm a)) := by
  obtain ⟨hθ, hsq⟩ := sqrt_facts h
  ext i j
  simp only [SO3.exp, matrix_canon, expAB_closed (not_lt.2 h.le)]
  rw [rodrigues_entries a _ _ _ hθ, hsq]
  have e1 : 2 * Real.sin (Real.sqrt (sqNorm a) / 2) * Real.cos (Real.sqrt (sqNorm a) / 2)
      = Real.sin (Real.sqrt (sqNorm a)) := by
    rw [← Real.sin_two_mul]; congr 1; ring
  have e2 : 2 * Real.sin (Real.sqrt (sqNorm a) / 2) ^ 2 = 1 - Real.cos (Real.sqrt (sqNorm a)) := by
    have := Real.cos_two_mul (Real.sqrt (sqNorm a) / 2)
    have h1 := Real.sin_sq_add_cos_sq (Real.sqrt (sqNorm a) / 2)
    rw [show 2 * (Real.sqrt (sqNorm a) / 2) = Real.sqrt (sqNorm a) by ring] at this
    linear_combination this + 2 * h1
  rw [e1, e2, ρr, σr]

theorem coef_p_ad {θ s c : ℝ} (hθ : θ ≠ 0) (h1 : s ^ 2 + c ^ 2 = 1) :
    s / θ + (c - 1) / θ ^ 2
      - θ ^ 2 * (s / θ * -((s - θ) / (θ ^ 2 * θ)) + (1 - c) / θ ^ 2 * ((c - 1) / θ ^ 2))
      = -((c - 1) / θ ^ 2) := by
  field_simp
  linear_combination h1

theorem coef_q_ad {θ s c : ℝ} (hθ : θ ≠ 0) :
    (1 - c) / θ ^ 2 + s / θ * ((c - 1) / θ ^ 2) + -((s - θ) / (θ ^ 2 * θ))
      - θ ^ 2 * ((1 - c) / θ ^ 2 * -((s - θ) / (θ ^ 2 * θ)))
      = -((s - θ) / (θ ^ 2 * θ)) := by
  field_simp
  ring

theorem poly2_hat_neg (a : Vec ℝ 3) (α β : ℝ) :
    poly2 (SO3.hat (vneg a)) α β = poly2 (SO3.hat a) (-α) β := by
  ext i j
  simp only [poly2, mmul3, hat_neg, Mat.of_get]
  ring

/-- closed branch: `dl_exp a = dr_exp (−a) = Ad (exp a) · dr_exp a` -/
theorem drExp_neg_eq_Ad_mul_drExp (a : Vec ℝ 3) (h : Scalar.eps2 < sqNorm a) :
    SO3.dr_exp (vneg a) = mmul (SO3.Ad (SO3.exp a)) (SO3.dr_exp a) := by
  obtain ⟨hθ, hsq⟩ := sqrt_facts h
  have h1 := Real.sin_sq_add_cos_sq (Real.sqrt (sqNorm a))
  have p := coef_p_ad hθ h1
  have q := coef_q_ad (s := Real.sin (Real.sqrt (sqNorm a))) (c := Real.cos (Real.sqrt (sqNorm a))) hθ
  rw [hsq] at p q
  have hneg : Scalar.eps2 < sqNorm (vneg a) := by rw [sqNorm3_neg]; exact h
  ext i j
  rw [dr_exp_closed (vneg a) hneg, sqNorm3_neg, poly2_hat_neg, SO3.Ad, matrix_exp_closed a h,
    dr_exp_closed a h, so3_poly_mul]
  simp only [ρr, σr, αr, βr] at *
  rw [p, q]

end C04SO3
