/-
  C04SE3.lean — SE3 `dr_exp · dr_expinv = I` from the block structure
  `[[J, Q],[0, J]] · [[J⁻¹, −J⁻¹QJ⁻¹],[0, J⁻¹]]`, given the SO3 result `J·J⁻¹ = I` (any `Q`).
-/
import SmoothProofs.C04SO3
import SmoothProofs.C05Alg
import Mathlib.Data.Matrix.Mul
import Mathlib.Data.Matrix.Basic

open Lin Scalar

namespace C04SE3
open C04Alg

/-- view a model matrix as a Mathlib matrix -/
def toM {n m : Nat} (A : Mat ℝ n m) : Matrix (Fin n) (Fin m) ℝ := Matrix.of A.get

theorem toM_inj {n m : Nat} {A B : Mat ℝ n m} (h : toM A = toM B) : A = B := by
  ext i j
  exact congrFun (congrFun h i) j

theorem toM_mmul {n k m : Nat} (A : Mat ℝ n k) (B : Mat ℝ k m) : toM (mmul A B) = toM A * toM B := by
  ext i j
  simp [toM, mmul, C05Alg.vsum_eq_sum, Matrix.mul_apply]

theorem toM_madd {n m : Nat} (A B : Mat ℝ n m) : toM (madd A B) = toM A + toM B := by
  ext i j; simp [toM, madd]

theorem toM_mneg {n m : Nat} (A : Mat ℝ n m) : toM (mneg A) = - toM A := by
  ext i j; simp [toM, mneg]

theorem toM_ident (n : Nat) : toM (ident n : Mat ℝ n n) = 1 := by
  ext i j; simp [toM, ident, Matrix.one_apply]

theorem toM_mzero (n m : Nat) : toM (mzero n m : Mat ℝ n m) = 0 := by
  ext i j; simp [toM, mzero]

/-- block-upper-triangular product -/
theorem blk22_mul (A B D A' B' D' : Mat ℝ 3 3) :
    mmul (SE3.blk22 A B (mzero 3 3) D) (SE3.blk22 A' B' (mzero 3 3) D')
      = SE3.blk22 (mmul A A') (madd (mmul A B') (mmul B D')) (mzero 3 3) (mmul D D') := by
  ext i j
  fin_cases i <;> fin_cases j <;>
    simp [SE3.blk22, mmul, vsum, mzero, madd] <;> ring

theorem blk22_ident : SE3.blk22 (ident 3) (mzero 3 3) (mzero 3 3) (ident 3) = (ident 6 : Mat ℝ 6 6) := by
  ext i j
  fin_cases i <;> fin_cases j <;> simp [SE3.blk22, mzero, ident]

theorem upper_block_cancel (J Ji Q : Mat ℝ 3 3) (h : mmul J Ji = ident 3) :
    madd (mmul J (mmul (mmul (mneg Ji) Q) Ji)) (mmul Q Ji) = mzero 3 3 := by
  apply toM_inj
  have h' : toM J * toM Ji = 1 := by rw [← toM_mmul, h, toM_ident]
  simp only [toM_madd, toM_mmul, toM_mneg, toM_mzero]
  rw [neg_mul, neg_mul, mul_neg, Matrix.mul_assoc (toM Ji), ← Matrix.mul_assoc (toM J), h',
    Matrix.one_mul, neg_add_cancel]

theorem upper_block_cancel' (J Ji Q : Mat ℝ 3 3) (h : mmul Ji J = ident 3) :
    madd (mmul Ji Q) (mmul (mmul (mmul (mneg Ji) Q) Ji) J) = mzero 3 3 := by
  apply toM_inj
  have h' : toM Ji * toM J = 1 := by rw [← toM_mmul, h, toM_ident]
  simp only [toM_madd, toM_mmul, toM_mneg, toM_mzero]
  rw [neg_mul, neg_mul, neg_mul, Matrix.mul_assoc (toM Ji * toM Q), h', Matrix.mul_one,
    add_neg_cancel]

theorem se3_dr_exp_blocks (a : Vec ℝ 6) :
    SE3.dr_exp a = SE3.blk22 (SO3.dr_exp (SE3.tw a))
      (SE3.calculate_q (vneg (SE3.tv a)) (vneg (SE3.tw a))) (mzero 3 3) (SO3.dr_exp (SE3.tw a)) := by
  simp only [SE3.dr_exp, memoM_eq]

theorem se3_dr_expinv_blocks (a : Vec ℝ 6) :
    SE3.dr_expinv a = SE3.blk22 (SO3.dr_expinv (SE3.tw a))
      (mmul (mmul (mneg (SO3.dr_expinv (SE3.tw a)))
        (SE3.calculate_q (vneg (SE3.tv a)) (vneg (SE3.tw a)))) (SO3.dr_expinv (SE3.tw a)))
      (mzero 3 3) (SO3.dr_expinv (SE3.tw a)) := by
  simp only [SE3.dr_expinv, memoM_eq]

theorem drExp_mul_drExpinv (a : Vec ℝ 6) (h : Scalar.eps2 < sqNorm (SE3.tw a))
    (hs : Real.sin (Real.sqrt (sqNorm (SE3.tw a))) ≠ 0) :
    mmul (SE3.dr_exp a) (SE3.dr_expinv a) = ident 6 := by
  have hJ := C04SO3.drExp_mul_drExpinv (SE3.tw a) h hs
  rw [se3_dr_exp_blocks, se3_dr_expinv_blocks, blk22_mul, hJ, upper_block_cancel _ _ _ hJ, blk22_ident]

theorem drExpinv_mul_drExp (a : Vec ℝ 6) (h : Scalar.eps2 < sqNorm (SE3.tw a))
    (hs : Real.sin (Real.sqrt (sqNorm (SE3.tw a))) ≠ 0) :
    mmul (SE3.dr_expinv a) (SE3.dr_exp a) = ident 6 := by
  have hJ := C04SO3.drExpinv_mul_drExp (SE3.tw a) h hs
  rw [se3_dr_exp_blocks, se3_dr_expinv_blocks, blk22_mul, hJ, upper_block_cancel' _ _ _ hJ, blk22_ident]

end C04SE3
